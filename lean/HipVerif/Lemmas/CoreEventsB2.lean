/-
The event audit of `CoreEventsB.lean` applied to every operation: `step_audit`.
-/
import HipVerif.Lemmas.CoreEventsB

namespace HipVerif.Core
open HipVerif.Spec.Std

variable {cfg : Cfg} {s : State}

theorem stepAudit {S : State} {ev : List Event} {ret : Ret} (a : Audit s S ev) :
    Audit s (ok S ret ev).1 (ok S ret ev).2.events := a

syntax "audit_op " ident : tactic
macro_rules
  | `(tactic| audit_op $hI) => `(tactic| (
      simp only [step]
      repeat' split
      all_goals first
        | exact stepAudit (audit_refl _)
        | exact stepAudit (audit_newHeap $hI _ _ (Nat.zero_le _))
        | exact stepAudit (audit_fromSliceRepr $hI _ _)
        | exact stepAudit (audit_cloneRepr $hI _)
        | exact stepAudit (audit_rangeRepr $hI _ _ _)))

theorem step_audit_A1 (hI : BufInv s) :
    (∀ d, Audit s (step cfg s (.new d)).1 (step cfg s (.new d)).2.events) ∧
    (∀ d bs, Audit s (step cfg s (.fromSlice d bs)).1 (step cfg s (.fromSlice d bs)).2.events) ∧
    (∀ d a b c, Audit s (step cfg s (.borrowed d a b c)).1 (step cfg s (.borrowed d a b c)).2.events) ∧
    (∀ d n, Audit s (step cfg s (.withCapacity d n)).1 (step cfg s (.withCapacity d n)).2.events) ∧
    (∀ d bs, Audit s (step cfg s (.inline d bs)).1 (step cfg s (.inline d bs)).2.events) ∧
    (∀ d bs, Audit s (step cfg s (.tryInline d bs)).1 (step cfg s (.tryInline d bs)).2.events) ∧
    (∀ h d, Audit s (step cfg s (.clone h d)).1 (step cfg s (.clone h d)).2.events) ∧
    (∀ h d, Audit s (step cfg s (.intoOwned h d)).1 (step cfg s (.intoOwned h d)).2.events) ∧
    (∀ h, Audit s (step cfg s (.intoBorrowed h)).1 (step cfg s (.intoBorrowed h)).2.events) := by
  refine ⟨?_, ?_, ?_, ?_, ?_, ?_, ?_, ?_, ?_⟩
  · intro d; audit_op hI
  · intro d bs; audit_op hI
  · intro d a b c; audit_op hI
  · intro d n; audit_op hI
  · intro d bs; audit_op hI
  · intro d bs; audit_op hI
  · intro h d; audit_op hI
  · intro h d; audit_op hI
  · intro h; audit_op hI

theorem step_audit_A2 (hI : BufInv s) :
    (∀ h d sb eb, Audit s (step cfg s (.slice h d sb eb)).1 (step cfg s (.slice h d sb eb)).2.events) ∧
    (∀ h d sb eb, Audit s (step cfg s (.trySlice h d sb eb)).1 (step cfg s (.trySlice h d sb eb)).2.events) ∧
    (∀ h d rn rel plen, Audit s (step cfg s (.trySliceRef h d rn rel plen)).1
      (step cfg s (.trySliceRef h d rn rel plen)).2.events) ∧
    (∀ h d rn rel plen, Audit s (step cfg s (.sliceRef h d rn rel plen)).1
      (step cfg s (.sliceRef h d rn rel plen)).2.events) ∧
    (∀ h d a n, Audit s (step cfg s (.adopt h d a n)).1 (step cfg s (.adopt h d a n)).2.events) := by
  refine ⟨?_, ?_, ?_, ?_, ?_⟩
  · intro h d sb eb; audit_op hI
  · intro h d sb eb; audit_op hI
  · intro h d rn rel plen; audit_op hI
  · intro h d rn rel plen; audit_op hI
  · intro h d a n; audit_op hI

theorem step_audit_repeat (w : Wf cfg s) (h d n : Nat) :
    Audit s (step cfg s (.repeat h d n)).1 (step cfg s (.repeat h d n)).2.events := by
  have hI := bufInv_of_wf w
  simp only [step]
  cases hg : getH s h with
  | none => exact stepAudit (audit_refl _)
  | some hd =>
    have hvl := hlen_eq_view_length (w.handles h hd hg)
    simp only
    repeat' split
    all_goals first
      | exact stepAudit (audit_refl _)
      | exact stepAudit (audit_cloneRepr hI _)
      | exact stepAudit (audit_newHeap hI _ _ (by simp [hvl, Nat.mul_comm]))

theorem step_audit_fromVec (hI : BufInv s) (d : Nat) (bs : List UInt8) (cap : Nat) :
    Audit s (step cfg s (.fromVec d bs cap)).1 (step cfg s (.fromVec d bs cap)).2.events := by
  simp only [step]
  split
  · refine stepAudit ?_
    have hpre : ∀ S, AllEvOk S (if cap > 0 then [Event.importBuf s.nextBuf cap] else []) := by
      intro S e he; split at he <;> simp at he; subst he; trivial
    unfold fromVecRepr
    split
    · refine ⟨bufLe_of_getI (fun _ => rfl) (Nat.le_succ _), allEvOk_append (hpre _) ?_⟩
      intro e he
      simp only at he
      split at he
      · simp only [List.mem_singleton] at he; subst he
        refine ⟨Nat.lt_succ_self _, ?_⟩
        intro j y hy _ hyb
        have := hI.fresh j y hy
        omega
      · cases he
    · refine ⟨bufLe_append s { count := 0, data := bs, cap := cap, buf := s.nextBuf, live := true }
        (Nat.le_refl _) (s.nextBuf + 1) (Nat.le_succ _), allEvOk_append (hpre _) ?_⟩
      intro e he
      simp [boxVec] at he; subst he; trivial
  · exact stepAudit (audit_refl _)

theorem step_audit_drop (w : Wf cfg s) (h : Nat) :
    Audit s (step cfg s (.drop h)).1 (step cfg s (.drop h)).2.events := by
  simp only [step]
  cases hg : getH s h with
  | none => exact stepAudit (audit_refl _)
  | some hd => exact stepAudit (audit_dropRepr (bufInv_of_wf w) (handleOk_live (w.handles h hd hg)))

theorem audit_truncateOp (w : Wf cfg s) {h : Nat} {hd : Handle} (hg : getH s h = some hd) (n : Nat) (ret : Ret) :
    Audit s (truncateOp cfg s h hd n ret).1 (truncateOp cfg s h hd n ret).2.events := by
  have hlive := handleOk_live (w.handles h hd hg)
  have hI := bufInv_of_wf w
  unfold truncateOp
  split
  · simp only
    split
    · split
      · exact stepAudit (audit_refl _)
      · cases hr : hd.repr with
        | inline bs => exact stepAudit (audit_refl _)
        | borrowed a b c => exact stepAudit (audit_refl _)
        | heap o pb off len =>
          simp only
          obtain ⟨x, hx, hl⟩ := hlive o pb off len hr
          split
          · exact stepAudit (audit_release hI o (fun y hy => by rw [hx] at hy; cases hy; exact hl))
          · exact stepAudit (audit_refl _)
    · cases hr : hd.repr with
      | inline bs => exact stepAudit (audit_refl _)
      | borrowed a b c => exact stepAudit (audit_refl _)
      | heap o pb off len =>
        simp only
        obtain ⟨x, hx, hl⟩ := hlive o pb off len hr
        split
        · exact stepAudit (audit_release hI o (fun y hy => by rw [hx] at hy; cases hy; exact hl))
        · exact stepAudit (audit_refl _)
  · exact stepAudit (audit_refl _)

theorem audit_shrinkToOp (w : Wf cfg s) {h : Nat} {hd : Handle} (hg : getH s h = some hd) (n : Nat) :
    Audit s (shrinkToOp cfg s h hd n).1 (shrinkToOp cfg s h hd n).2.events := by
  have hlive := handleOk_live (w.handles h hd hg)
  have hvl := hlen_eq_view_length (w.handles h hd hg)
  have hI := bufInv_of_wf w
  unfold shrinkToOp
  cases hr : hd.repr with
  | inline bs => exact stepAudit (audit_refl _)
  | borrowed a b c => exact stepAudit (audit_refl _)
  | heap o pb off len =>
    simp only
    have hlen : hlen hd = len := by unfold hlen; rw [hr]
    obtain ⟨x, hx, hl⟩ := hlive o pb off len hr
    split
    · simp only [hx]
      split
      · exact stepAudit (audit_refl _)
      · exact stepAudit (audit_newHeap_drop (r := .heap o pb off len) hI (view s hd) (max n len) (by omega)
          (by intro o' pb' off' len' he; cases he; exact ⟨x, hx, hl⟩))
    · exact stepAudit (audit_release hI o (fun y hy => by rw [hx] at hy; cases hy; exact hl))

theorem step_audit_trunc (w : Wf cfg s) (h n : Nat) :
    Audit s (step cfg s (.truncate h n)).1 (step cfg s (.truncate h n)).2.events ∧
    Audit s (step cfg s (.clear h)).1 (step cfg s (.clear h)).2.events ∧
    Audit s (step cfg s (.pop h)).1 (step cfg s (.pop h)).2.events ∧
    Audit s (step cfg s (.shrinkTo h n)).1 (step cfg s (.shrinkTo h n)).2.events ∧
    Audit s (step cfg s (.shrinkToFit h)).1 (step cfg s (.shrinkToFit h)).2.events := by
  simp only [step]
  cases hg : getH s h with
  | none => exact ⟨audit_refl _, audit_refl _, audit_refl _, audit_refl _, audit_refl _⟩
  | some hd =>
    refine ⟨audit_truncateOp w hg _ _, audit_truncateOp w hg _ _, ?_, audit_shrinkToOp w hg _,
      audit_shrinkToOp w hg _⟩
    simp only
    split
    · exact audit_refl _
    · exact audit_truncateOp w hg _ _

theorem handleOk_range {hd : Handle} (hok : HandleOk cfg s hd) :
    ∀ o pb off len, hd.repr = .heap o pb off len →
      ∃ x, getI s o = some x ∧ x.live = true ∧ off + len ≤ x.data.length := by
  intro o pb off len hr
  unfold HandleOk at hok; rw [hr] at hok
  obtain ⟨x, hx, hl, _, hrng⟩ := hok
  exact ⟨x, hx, hl, hrng⟩

theorem step_audit_pushSlice (w : Wf cfg s) (h : Nat) (bs : List UInt8) :
    Audit s (step cfg s (.pushSlice h bs)).1 (step cfg s (.pushSlice h bs)).2.events := by
  have hI := bufInv_of_wf w
  simp only [step]
  cases hg : getH s h with
  | none => exact stepAudit (audit_refl _)
  | some hd =>
    have hlive := handleOk_live (w.handles h hd hg)
    have hvl := hlen_eq_view_length (w.handles h hd hg)
    simp only
    have hre : Audit s (pushRealloc cfg s h hd bs).1 (pushRealloc cfg s h hd bs).2.events := by
      unfold pushRealloc
      rw [dropIf_eq]
      split
      · exact stepAudit (audit_dropRepr hI hlive)
      · exact stepAudit (audit_newHeap_drop hI _ _ (by simp only [List.length_append]; omega) hlive)
    unfold pushRealloc at hre
    cases hr : hd.repr with
    | inline b0 => simp only; rw [hr] at hre; exact hre
    | borrowed a b c => simp only; rw [hr] at hre; exact hre
    | heap o pb off len =>
      simp only
      rw [hr] at hre
      obtain ⟨x, hx, hl, hrng⟩ := handleOk_range (w.handles h hd hg) o pb off len hr
      simp only [hx]
      by_cases hu : ownerUnique cfg s o = true
      · simp only [hu, if_true]
        have hkl : (x.data.take (off + len) ++ bs).length = off + len + bs.length := by
          simp only [List.length_append, List.length_take]; omega
        by_cases hfit : (x.data.take (off + len) ++ bs).length ≤ x.cap
        · simp only [hfit, if_true]
          refine stepAudit ⟨bufLe_setI_same hx (fun _ => hl) rfl rfl, ?_⟩
          intro e he
          split at he
          · simp only [List.mem_singleton] at he; subst he
            refine ⟨hI.fresh o x hx, by omega, ?_⟩
            intro j y hy hyl hyb
            rw [getI_setH] at hy
            by_cases hj : o = j
            · subst hj
              rw [getI_setI_same _ _ _ (getI_some_lt hx)] at hy; cases hy
              simp only; omega
            · rw [getI_setI_other _ _ _ _ hj] at hy
              exact absurd hyb (hI.distinct j o y x hy hx (fun e => hj e.symm) hyl hl)
          · cases he
        · simp only [hfit, if_false]
          refine stepAudit ⟨bufLe_setI_fresh (S := s) (Nat.le_refl _) _ (Nat.le_succ _), ?_⟩
          intro e he
          simp only [List.mem_cons, List.not_mem_nil, or_false] at he
          rcases he with he | he
          · subst he; split <;> trivial
          · subst he
            refine ⟨Nat.lt_succ_self _, by omega, ?_⟩
            intro j y hy hyl hyb
            rw [getI_setH] at hy
            by_cases hj : o = j
            · subst hj
              rw [getI_setI_same { s with nextBuf := s.nextBuf + 1 } o _ (getI_some_lt hx)] at hy; cases hy
              have := growCap_ge x.cap (x.data.take (off + len) ++ bs).length
              simp only; omega
            · rw [getI_setI_other _ _ _ _ hj] at hy
              have := hI.fresh j y hy
              omega
      · simp only [hu]; exact hre

theorem step_audit_asMutWrite (w : Wf cfg s) (h i : Nat) (b : UInt8) :
    Audit s (step cfg s (.asMutWrite h i b)).1 (step cfg s (.asMutWrite h i b)).2.events := by
  simp only [step]
  cases hg : getH s h with
  | none => exact stepAudit (audit_refl _)
  | some hd =>
    simp only
    repeat' split
    all_goals first
      | exact stepAudit (audit_refl _)
      | exact stepAudit (audit_writeView (bufInv_of_wf w) _ (handleOk_range (w.handles h hd hg)))

theorem step_audit_spareCapacity (w : Wf cfg s) (h : Nat) :
    Audit s (step cfg s (.spareCapacity h)).1 (step cfg s (.spareCapacity h)).2.events := by
  simp only [step]
  cases hg : getH s h with
  | none => exact stepAudit (audit_refl _)
  | some hd =>
    simp only
    cases hr : hd.repr with
    | inline bs => exact stepAudit (audit_refl _)
    | borrowed a b' c => exact stepAudit (audit_refl _)
    | heap o pb off len =>
      simp only
      obtain ⟨x, hx, hl, _⟩ := handleOk_range (w.handles h hd hg) o pb off len hr
      simp only [hx]
      split
      · exact stepAudit ⟨bufLe_setI_same hx (fun _ => hl) rfl rfl, allEvOk_nil _⟩
      · exact stepAudit (audit_refl _)

theorem audit_unique_write (w : Wf cfg s) {h : Nat} {hd : Handle} (hg : getH s h = some hd)
    (f : List UInt8 → List UInt8) (v : Option Handle) (ret : Ret) :
    Audit s (ok (setH (writeView (makeUnique cfg s hd).1 (makeUnique cfg s hd).2.1 f).1 h v) ret
      ((makeUnique cfg s hd).2.2 ++ (writeView (makeUnique cfg s hd).1 (makeUnique cfg s hd).2.1 f).2.2)).1
      ((makeUnique cfg s hd).2.2 ++ (writeView (makeUnique cfg s hd).1 (makeUnique cfg s hd).2.1 f).2.2) := by
  have hlive := handleOk_live (w.handles h hd hg)
  have ri := makeUnique_spec w hg
  have hgM := reinstalled_getH ri hg ri.pool_length
  have hokM := ri.wf.handles h _ hgM
  have hI1 : BufInv (makeUnique cfg s hd).1 :=
    ⟨ri.wf.bufFresh, ri.wf.bufDistinct, ri.wf.datacap⟩
  have a1 := audit_makeUnique (cfg := cfg) (bufInv_of_wf w) hlive
  have a2 := audit_writeView hI1 (r := (makeUnique cfg s hd).2.1) f (by
    intro o pb off len hr
    exact handleOk_range (s := setH (makeUnique cfg s hd).1 h _) hokM o pb off len hr)
  exact a1.trans a2

theorem step_audit_mutWrites (w : Wf cfg s) (h i : Nat) (b : UInt8) :
    Audit s (step cfg s (.toMutWrite h i b)).1 (step cfg s (.toMutWrite h i b)).2.events ∧
    Audit s (step cfg s (.makeAsciiLower h)).1 (step cfg s (.makeAsciiLower h)).2.events ∧
    Audit s (step cfg s (.makeAsciiUpper h)).1 (step cfg s (.makeAsciiUpper h)).2.events := by
  simp only [step]
  cases hg : getH s h with
  | none => exact ⟨audit_refl _, audit_refl _, audit_refl _⟩
  | some hd =>
    refine ⟨?_, audit_unique_write w hg _ _ _, audit_unique_write w hg _ _ _⟩
    simp only
    split
    · exact audit_unique_write w hg _ _ _
    · exact stepAudit (audit_makeUnique (bufInv_of_wf w) (handleOk_live (w.handles h hd hg)))

/-- the copy-out prefix shared by `take_vec` and `Vec::from`: a temporary Vec in a fresh buffer -/
theorem audit_copyOut (w : Wf cfg s) {hd : Handle}
    (hlive : ∀ o pb off len, hd.repr = .heap o pb off len → ∃ x, getI s o = some x ∧ x.live = true)
    (pre : List Event)
    (hpre : ∀ e, e ∈ pre → e = .allocBuf s.nextBuf (view s hd).length ∨
      e = .write s.nextBuf 0 (view s hd).length ∨ e = .exportBuf s.nextBuf) :
    Audit s (dropRepr cfg { s with nextBuf := s.nextBuf + 1 } hd.repr).1
      (pre ++ (dropRepr cfg { s with nextBuf := s.nextBuf + 1 } hd.repr).2) := by
  have hI := bufInv_of_wf w
  have hIb : BufInv { s with nextBuf := s.nextBuf + 1 } :=
    ⟨fun i x hx => Nat.lt_succ_of_lt (hI.fresh i x hx), hI.distinct, hI.datacap⟩
  have a0 : Audit s { s with nextBuf := s.nextBuf + 1 } pre := by
    refine ⟨bufLe_of_getI (fun _ => rfl) (Nat.le_succ _), ?_⟩
    intro e he
    rcases hpre e he with rfl | rfl | rfl
    · trivial
    · refine ⟨Nat.lt_succ_self _, Nat.zero_le _, ?_⟩
      intro j y hy _ hyb
      have := hI.fresh j y hy
      omega
    · trivial
  exact a0.trans (audit_dropRepr hIb hlive)

theorem step_audit_intoVec (w : Wf cfg s) (h : Nat) :
    Audit s (step cfg s (.intoVec h)).1 (step cfg s (.intoVec h)).2.events ∧
    Audit s (step cfg s (.toVec h)).1 (step cfg s (.toVec h)).2.events := by
  simp only [step]
  cases hg : getH s h with
  | none => exact ⟨audit_refl _, audit_refl _⟩
  | some hd =>
    have hlive := handleOk_live (w.handles h hd hg)
    simp only
    have hco : Audit s (dropRepr cfg { s with nextBuf := s.nextBuf + 1 } hd.repr).1
        ((if (view s hd).length > 0 then [Event.allocBuf s.nextBuf (view s hd).length,
            Event.write s.nextBuf 0 (view s hd).length, Event.exportBuf s.nextBuf] else []) ++
          (dropRepr cfg { s with nextBuf := s.nextBuf + 1 } hd.repr).2) := by
      refine audit_copyOut w hlive _ ?_
      intro e he
      split at he
      · simpa using he
      · cases he
    cases hr : hd.repr with
    | inline bs => rw [hr] at hco; exact ⟨audit_refl _, hco⟩
    | borrowed a b c => rw [hr] at hco; exact ⟨audit_refl _, hco⟩
    | heap o pb off len =>
      rw [hr] at hco
      simp only
      obtain ⟨x, hx, hl⟩ := hlive o pb off len hr
      simp only [hx]
      by_cases hcond : (off == 0 && ownerUnique cfg s o) = true
      · simp only [hcond, if_true]
        have a : Audit s (setI s o { x with live := false })
            (Event.freeInner o :: (if x.cap > 0 then [Event.exportBuf x.buf] else [])) :=
          ⟨bufLe_setI_same hx (fun h => by cases h) rfl rfl, fun e he => by
            rcases List.mem_cons.mp he with rfl | he
            · trivial
            · split at he
              · simp only [List.mem_singleton] at he; subst he; trivial
              · cases he⟩
        exact ⟨a, a⟩
      · simp only [hcond]
        exact ⟨audit_refl _, hco⟩

theorem audit_takeVec (w : Wf cfg s) {h : Nat} {hd : Handle} (hg : getH s h = some hd) :
    Audit s (takeVec cfg s h hd).1 (takeVec cfg s h hd).2.2 := by
  have hlive := handleOk_live (w.handles h hd hg)
  have hco : Audit s (dropRepr cfg { s with nextBuf := s.nextBuf + 1 } hd.repr).1
      ((if (view s hd).length > 0 then [Event.allocBuf s.nextBuf (view s hd).length,
          Event.write s.nextBuf 0 (view s hd).length] else []) ++
        (dropRepr cfg { s with nextBuf := s.nextBuf + 1 } hd.repr).2) := by
    refine audit_copyOut w hlive _ ?_
    intro e he
    split at he
    · simp at he; rcases he with rfl | rfl <;> simp
    · cases he
  unfold takeVec
  cases hr : hd.repr with
  | inline bs => simp only; rw [hr] at hco; exact hco
  | borrowed a b c => simp only; rw [hr] at hco; exact hco
  | heap o pb off len =>
    simp only
    rw [hr] at hco
    cases hx : getI s o with
    | none => exact hco
    | some x =>
      simp only
      split
      · exact ⟨bufLe_setI_same hx (fun h => by cases h) rfl rfl, fun e he => by
          simp at he; subst he; trivial⟩
      · exact hco

/-- the guard script only allocates / reallocates; and the Vec keeps its capacity unless it moved -/
theorem vecApply_events (sc : List VecOp) : ∀ (data : List UInt8) (cap buf nb : Nat),
    (∀ e, e ∈ (vecApply data cap buf nb sc).2.2.2.2 → ∀ S, EvOk S e) ∧
    (((vecApply data cap buf nb sc).2.2.1 = buf ∧ (vecApply data cap buf nb sc).2.1 = cap) ∨
      nb ≤ (vecApply data cap buf nb sc).2.2.1) := by
  induction sc with
  | nil => intro data cap buf nb; exact ⟨fun e he => (by cases he), Or.inl ⟨rfl, rfl⟩⟩
  | cons op rest ih =>
    intro data cap buf nb
    cases op with
    | push b =>
      by_cases hc : data.length + 1 ≤ cap
      · have := ih (data ++ [b]) cap buf nb
        rcases hr : vecApply (data ++ [b]) cap buf nb rest with ⟨d, c, b', n, ev⟩
        rw [hr] at this
        simp only [vecApply, hc, if_true, hr, List.nil_append]
        exact this
      · have := ih (data ++ [b]) (growCap cap (data.length + 1)) nb (nb + 1)
        rcases hr : vecApply (data ++ [b]) (growCap cap (data.length + 1)) nb (nb + 1) rest with ⟨d, c, b', n, ev⟩
        rw [hr] at this
        simp only [vecApply, hc, if_false, hr]
        simp only at this
        obtain ⟨h1, h2⟩ := this
        refine ⟨?_, Or.inr (by rcases h2 with ⟨e, _⟩ | e <;> omega)⟩
        intro e he S
        simp only [List.singleton_append, List.mem_cons] at he
        rcases he with rfl | he
        · split <;> trivial
        · exact h1 e he S
    | extend bs =>
      by_cases hc : data.length + bs.length ≤ cap
      · have := ih (data ++ bs) cap buf nb
        rcases hr : vecApply (data ++ bs) cap buf nb rest with ⟨d, c, b', n, ev⟩
        rw [hr] at this
        simp only [vecApply, hc, if_true, hr, List.nil_append]
        exact this
      · have := ih (data ++ bs) (growCap cap (data.length + bs.length)) nb (nb + 1)
        rcases hr : vecApply (data ++ bs) (growCap cap (data.length + bs.length)) nb (nb + 1) rest with ⟨d, c, b', n, ev⟩
        rw [hr] at this
        simp only [vecApply, hc, if_false, hr]
        simp only at this
        obtain ⟨h1, h2⟩ := this
        refine ⟨?_, Or.inr (by rcases h2 with ⟨e, _⟩ | e <;> omega)⟩
        intro e he S
        simp only [List.singleton_append, List.mem_cons] at he
        rcases he with rfl | he
        · split <;> trivial
        · exact h1 e he S
    | truncate k =>
      have := ih (data.take k) cap buf nb
      rcases hr : vecApply (data.take k) cap buf nb rest with ⟨d, c, b', n', ev⟩
      rw [hr] at this
      simp only [vecApply, hr, List.nil_append]
      exact this
    | clear =>
      have := ih [] cap buf nb
      rcases hr : vecApply [] cap buf nb rest with ⟨d, c, b', n', ev⟩
      rw [hr] at this
      simp only [vecApply, hr, List.nil_append]
      exact this

/-- the events of `take_vec` relative to the Vec it returns: its buffer is not freed, and a write
into it stays within its capacity -/
theorem takeVec_events_vs_vec (w : Wf cfg s) (h : Nat) (hd : Handle) :
    ∀ e, e ∈ (takeVec cfg s h hd).2.2 →
      (∀ b, e = .freeBuf b → b ≠ (takeVec cfg s h hd).2.1.2.2) ∧
      (∀ b lo hi, e = .write b lo hi → b = (takeVec cfg s h hd).2.1.2.2 → hi ≤ (takeVec cfg s h hd).2.1.2.1) := by
  have hI := bufInv_of_wf w
  have hco : ∀ e, e ∈ (if (view s hd).length > 0 then [Event.allocBuf s.nextBuf (view s hd).length,
          Event.write s.nextBuf 0 (view s hd).length] else []) ++
        (dropRepr cfg { s with nextBuf := s.nextBuf + 1 } hd.repr).2 →
      (∀ b, e = .freeBuf b → b ≠ s.nextBuf) ∧
      (∀ b lo hi, e = .write b lo hi → b = s.nextBuf → hi ≤ (view s hd).length) := by
    intro e he
    rcases List.mem_append.mp he with he | he
    · split at he
      · simp at he
        rcases he with rfl | rfl
        · exact ⟨fun _ h => (by cases h), fun _ _ _ h => by cases h⟩
        · exact ⟨fun _ h => (by cases h), fun _ _ _ h _ => by cases h; exact Nat.le_refl _⟩
      · cases he
    · unfold dropRepr at he
      cases hr : hd.repr with
      | inline bs => rw [hr] at he; cases he
      | borrowed a b c => rw [hr] at he; cases he
      | heap o pb off len =>
        rw [hr] at he
        simp only at he
        unfold release at he
        cases hx : getI { s with nextBuf := s.nextBuf + 1 } o with
        | none => rw [hx] at he; cases he
        | some x =>
          rw [hx] at he
          simp only at he
          split at he
          · simp only [List.mem_append, List.mem_singleton] at he
            rcases he with he | rfl
            · split at he
              · simp only [List.mem_singleton] at he; subst he
                refine ⟨fun b hb => ?_, fun _ _ _ h => (by cases h)⟩
                cases hb
                have := hI.fresh o x hx
                omega
              · cases he
            · exact ⟨fun _ h => (by cases h), fun _ _ _ h => by cases h⟩
          · cases he
  unfold takeVec
  cases hr : hd.repr with
  | inline bs => simp only; rw [hr] at hco; exact hco
  | borrowed a b c => simp only; rw [hr] at hco; exact hco
  | heap o pb off len =>
    simp only
    rw [hr] at hco
    cases hx : getI s o with
    | none => exact hco
    | some x =>
      simp only
      split
      · intro e he
        simp at he; subst he
        exact ⟨fun _ h => (by cases h), fun _ _ _ h => by cases h⟩
      · exact hco

theorem step_evOk_mutate (w : Wf cfg s) (h : Nat) (sc : List VecOp) :
    AllEvOk (step cfg s (.mutate h sc)).1 (step cfg s (.mutate h sc)).2.events ∧
    AllEvOk (step cfg s (.mutateLeak h sc)).1 (step cfg s (.mutateLeak h sc)).2.events := by
  simp only [step]
  cases hg : getH s h with
  | none => exact ⟨allEvOk_nil _, allEvOk_nil _⟩
  | some hd =>
    simp only
    have P := takeVec_spec w hg
    have a1 := audit_takeVec w hg
    have T := takeVec_events_vs_vec w h hd
    obtain ⟨_, _, V3, V4, V5⟩ := vecApply_spec sc (takeVec cfg s h hd).2.1.1 (takeVec cfg s h hd).2.1.2.1
      (takeVec cfg s h hd).2.1.2.2 (takeVec cfg s h hd).1.nextBuf
    obtain ⟨E1, E2⟩ := vecApply_events sc (takeVec cfg s h hd).2.1.1 (takeVec cfg s h hd).2.1.2.1
      (takeVec cfg s h hd).2.1.2.2 (takeVec cfg s h hd).1.nextBuf
    have hbl : BufLe (takeVec cfg s h hd).1 { (takeVec cfg s h hd).1 with
        nextBuf := (vecApply (takeVec cfg s h hd).2.1.1 (takeVec cfg s h hd).2.1.2.1
          (takeVec cfg s h hd).2.1.2.2 (takeVec cfg s h hd).1.nextBuf sc).2.2.2.1 } :=
      bufLe_of_getI (fun _ => rfl) V3
    constructor
    · -- `mutate`: the Vec is re-boxed (or freed when its contents fit inline)
      unfold fromVecRepr
      split
      · refine allEvOk_append (allEvOk_append (a1.2.mono hbl) (fun e he => E1 e he _)) ?_
        intro e he
        simp only at he
        split at he
        · simp only [List.mem_singleton] at he; subst he
          refine ⟨V5 P.bufFresh, ?_⟩
          intro j y hy hyl
          have hy' : getI (takeVec cfg s h hd).1 j = some y := hy
          rcases V4 with e | e
          · rw [e]; exact P.bufFree j y hy' hyl
          · have := P.wf.bufFresh j y hy'
            exact Nat.ne_of_lt (Nat.lt_of_lt_of_le this e)
        · cases he
      · refine allEvOk_append (allEvOk_append ?_ (fun e he => E1 e he _)) ?_
        · intro e he
          have h1 := a1.2 e he
          obtain ⟨T1, T2⟩ := T e he
          cases e with
          | freeBuf b =>
            obtain ⟨hb, hne⟩ := h1
            refine ⟨Nat.lt_of_lt_of_le hb V3, ?_⟩
            intro j y hy hyl
            rcases getI_append_cases _ _ j y hy with ⟨_, hy'⟩ | ⟨_, rfl⟩
            · exact hne j y hy' hyl
            · simp only
              rcases E2 with ⟨e, _⟩ | e
              · rw [e]; exact fun h => T1 b rfl h.symm
              · exact Nat.ne_of_gt (Nat.lt_of_lt_of_le hb e)
          | write b lo hi =>
            obtain ⟨hb, hlh, hcap⟩ := h1
            refine ⟨Nat.lt_of_lt_of_le hb V3, hlh, ?_⟩
            intro j y hy hyl hyb
            rcases getI_append_cases _ _ j y hy with ⟨_, hy'⟩ | ⟨_, rfl⟩
            · exact hcap j y hy' hyl hyb
            · simp only at hyb ⊢
              rcases E2 with ⟨e, ec⟩ | e
              · rw [ec]; exact T2 b lo hi rfl (by rw [← hyb, e])
              · exact absurd hyb (Nat.ne_of_gt (Nat.lt_of_lt_of_le hb e))
          | _ => trivial
        · intro e he
          simp [boxVec] at he; subst he; trivial
    · -- `mutateLeak`
      refine allEvOk_append (allEvOk_append (a1.2.mono hbl) (fun e he => E1 e he _)) ?_
      intro e he
      split at he
      · simp only [List.mem_singleton] at he; subst he; trivial
      · cases he

theorem audit_toAscii (w : Wf cfg s) {h : Nat} {hd : Handle} (hg : getH s h = some hd)
    (f : List UInt8 → List UInt8) (t : Bool) :
    Audit s (writeView
        (makeUnique cfg (cloneRepr cfg s hd).1 { repr := (cloneRepr cfg s hd).2.1, tainted := t }).1
        (makeUnique cfg (cloneRepr cfg s hd).1 { repr := (cloneRepr cfg s hd).2.1, tainted := t }).2.1 f).1
      ((cloneRepr cfg s hd).2.2 ++
        (makeUnique cfg (cloneRepr cfg s hd).1 { repr := (cloneRepr cfg s hd).2.1, tainted := t }).2.2 ++
        (writeView
          (makeUnique cfg (cloneRepr cfg s hd).1 { repr := (cloneRepr cfg s hd).2.1, tainted := t }).1
          (makeUnique cfg (cloneRepr cfg s hd).1 { repr := (cloneRepr cfg s hd).2.1, tainted := t }).2.1 f).2.2) := by
  have hok := w.handles h hd hg
  have b0 := A.built_clone w hok
  have b1 := (A.built_makeUnique b0 t).1
  obtain ⟨ex0, w0⟩ := b0.wfx
  obtain ⟨ex1, w1⟩ := b1.wfx
  have a0 := audit_cloneRepr (cfg := cfg) (bufInv_of_wf w) hd
  have a1 := audit_makeUnique (cfg := cfg) (bufInv_of_wfx w0)
    (hd := { repr := (cloneRepr cfg s hd).2.1, tainted := t }) (cloneRepr_live hok)
  have a2 := audit_writeView (bufInv_of_wfx w1) f (handleOk_range (b1.handleOk t))
  exact (a0.trans a1).trans a2

theorem step_audit_toAscii (w : Wf cfg s) (h d : Nat) :
    Audit s (step cfg s (.toAsciiLower h d)).1 (step cfg s (.toAsciiLower h d)).2.events ∧
    Audit s (step cfg s (.toAsciiUpper h d)).1 (step cfg s (.toAsciiUpper h d)).2.events := by
  simp only [step]
  cases hg : getH s h with
  | none => exact ⟨audit_refl _, audit_refl _⟩
  | some hd =>
    simp only
    constructor
    · split
      · exact stepAudit (audit_toAscii w hg _ _)
      · exact audit_refl _
    · split
      · exact stepAudit (audit_toAscii w hg _ _)
      · exact audit_refl _

/-- **every operation**: each `freeBuf` and each `write` it emits is justified in the state it
leaves behind -/
theorem step_evOk (w : Wf cfg s) (op : Op) : AllEvOk (step cfg s op).1 (step cfg s op).2.events := by
  have hI := bufInv_of_wf w
  obtain ⟨a1, a2, a3, a4, a5, a6, a7, a8, a9⟩ := step_audit_A1 (cfg := cfg) hI
  obtain ⟨b1, b2, b3, b4, b5⟩ := step_audit_A2 (cfg := cfg) hI
  cases op with
  | new d => exact (a1 d).2
  | fromSlice d bs => exact (a2 d bs).2
  | fromVec d bs cap => exact (step_audit_fromVec hI d bs cap).2
  | borrowed d src off len => exact (a3 d src off len).2
  | withCapacity d n => exact (a4 d n).2
  | inline d bs => exact (a5 d bs).2
  | tryInline d bs => exact (a6 d bs).2
  | clone h d => exact (a7 h d).2
  | slice h d sb eb => exact (b1 h d sb eb).2
  | trySlice h d sb eb => exact (b2 h d sb eb).2
  | trySliceRef h d rn rel plen => exact (b3 h d rn rel plen).2
  | sliceRef h d rn rel plen => exact (b4 h d rn rel plen).2
  | adopt h d off len => exact (b5 h d off len).2
  | pushSlice h bs => exact (step_audit_pushSlice w h bs).2
  | pop h => exact (step_audit_trunc w h 0).2.2.1.2
  | truncate h n => exact (step_audit_trunc w h n).1.2
  | clear h => exact (step_audit_trunc w h 0).2.1.2
  | shrinkTo h n => exact (step_audit_trunc w h n).2.2.2.1.2
  | shrinkToFit h => exact (step_audit_trunc w h 0).2.2.2.2.2
  | asMutWrite h i b => exact (step_audit_asMutWrite w h i b).2
  | toMutWrite h i b => exact (step_audit_mutWrites w h i b).1.2
  | makeAsciiLower h => exact (step_audit_mutWrites w h 0 0).2.1.2
  | makeAsciiUpper h => exact (step_audit_mutWrites w h 0 0).2.2.2
  | toAsciiLower h d => exact (step_audit_toAscii w h d).1.2
  | toAsciiUpper h d => exact (step_audit_toAscii w h d).2.2
  | mutate h sc => exact (step_evOk_mutate w h sc).1
  | mutateLeak h sc => exact (step_evOk_mutate w h sc).2
  | intoOwned h d => exact (a8 h d).2
  | intoVec h => exact (step_audit_intoVec w h).1.2
  | toVec h => exact (step_audit_intoVec w h).2.2
  | intoBorrowed h => exact (a9 h).2
  | «repeat» h d n => exact (step_audit_repeat w h d n).2
  | spareCapacity h => exact (step_audit_spareCapacity w h).2
  | drop h => exact (step_audit_drop w h).2

end HipVerif.Core
