/-
The slot-level InlineVec operations, fault-free, against the list-level model `IV.step`
(Model/Vecs.lean): operation mapping `toIVOp`, value correspondence `retMatch`, and
`iStep_refines`.
-/
import HipVerif.Lemmas.SlotsRefine
namespace HipVerif.Slots
variable {fl : Bool}
open HipVerif.Vecs (IV TV Outcome Val Reason PanicClass DrainEnd Src)
open HipVerif.Spec.Vec (Bnd Side)

/-- the list-level pulls that a slot-level pull stands for: `nth(k)` = `k + 1` times `next`
(the skipped items are dropped instead of handed out, which the list model does not tell apart) -/
def sidesOf : IStep → List Side
  | .front => [.front]
  | .back => [.back]
  | .nth k => List.replicate (k + 1) .front
  | .nthBack k => List.replicate (k + 1) .back

/-- every way of using up the iterator (`drop`, `last`, `count`, `fold`, `rfold`) ends with its
`Drop`; only `mem::forget` does not -/
def finOf : IFin → DrainEnd
  | .leak => .leak
  | _ => .drop

/-- the list-level InlineVec that a slot-level state stands for -/
def absIV (s : St) : IV Nat := ⟨s.v.cap, absL s⟩

/-- how a returned value of the slot model corresponds to an `Outcome` of the list model -/
def retMatch : Ret → Outcome Nat → Prop
  | .unit, .ok .unit => True
  | .unit, .ok (.items _) => True
  | .none, .ok (.opt none) => True
  | .some a, .ok (.opt (some b)) => a = b
  | .some a, .ok (.elem b) => a = b
  | .errFull a, .err .full (.elem b) => a = b
  | .errOob a, .err .outOfBounds (.elem b) => a = b
  | .panic, .panic c => c ≠ .unreachable
  | _, _ => False

/-- The list-model operation that a slot-model operation on an InlineVec stands for. The values a
slot operation creates are the fresh ids `next, next+1, …` of the state it starts from; clones are
fresh ids too (the list model is told the ids that get appended). -/
def toIVOp (s : St) : Op → Option (Vecs.Op Nat)
  | .push => some (.push s.mem.next)
  | .tryPush => some (.tryPush s.mem.next)
  | .pop => some .pop
  | .popIf b => some (.popIf b)
  | .insert i => some (.insert i s.mem.next)
  | .tryInsert i => some (.tryInsert i s.mem.next)
  | .remove i => some (.remove i)
  | .swapRemove i => some (.swapRemove i)
  | .truncate n => some (.truncate n)
  | .clear => some .clear
  | .resize n => some (.resizeWith n (fun k => s.mem.next + 1 + k))
  | .resizeWith n => some (.resizeWith n (fun k => s.mem.next + k))
  | .extSlice n => some (.extendFromSlice (List.range' (s.mem.next + n) n))
  | .extWithin a b =>
    if a ≤ b ∧ b ≤ s.v.len then some (.extendFromSlice (List.range' s.mem.next (b - a)))
    else some (.extendFromWithin (.incl a) (.excl b))
  | .extIter h n => some (.extend h (List.range' s.mem.next n))
  | .clone => some .clone
  | .append n => some (.append (List.range' s.mem.next n))
  | .splitOff a => some (.splitOff a)
  | .drain a b sc f => some (.drain (.incl a) (.excl b) (sc.flatMap sidesOf) (finOf f))
  | .intoIter sc _ => some (.intoIter (sc.flatMap sidesOf))
  | .roundtrip => some (.from .other 0 (absL s))
  | .reserve _ | .shrinkFit | .dropVec | .fromIter _ _ => none

theorem rangeMono_valid {a b len : Nat} (h : a ≤ b ∧ b ≤ len) :
    Vecs.rangeMono (.incl a) (.excl b) len = .ok (a, b) := by
  simp only [Vecs.rangeMono]
  simp [show ¬ a > b by omega, show ¬ b > len by omega]

theorem rangeMono_invalid {a b len : Nat} (h : ¬ (a ≤ b ∧ b ≤ len)) :
    ∃ e, Vecs.rangeMono (.incl a) (.excl b) len = .error e := by
  simp only [Vecs.rangeMono]
  by_cases hab : a > b
  · exact ⟨.startGreaterThanEnd a b, by simp [hab]⟩
  · have : b > len := by omega
    exact ⟨.endOutOfBounds b len, by simp [hab, this]⟩

theorem take_range' : ∀ (k s n : Nat), (List.range' s n).take k = List.range' s (min k n)
  | 0, _, _ => by simp
  | k + 1, s, 0 => by simp
  | k + 1, s, n + 1 => by
    rw [List.range'_succ, List.take_succ_cons, take_range' k (s + 1) n,
      show min (k + 1) (n + 1) = min k n + 1 by omega, List.range'_succ]

theorem iStep_refines {s : St} {L : List Nat} (op : Op) (vop : Vecs.Op Nat)
    (hv : LocalVec s.v L) (hb : s.mem.budget = none) (hout : ∀ x ∈ L, x ∉ s.mem.out)
    (hth : s.v.h.thin = false) (hal : s.v.h.alive = true)
    (hmap : toIVOp s op = some vop) :
    retMatch (iStep op s).1 ((⟨s.v.cap, L⟩ : IV Nat).step vop).1 ∧
    ∃ L', LocalVec (iStep op s).2.v L' ∧ (iStep op s).2.v.cap = s.v.cap ∧
      (iStep op s).2.v.h.thin = false ∧ (iStep op s).2.v.h.alive = true ∧
      ((⟨s.v.cap, L⟩ : IV Nat).step vop).2 = ⟨s.v.cap, L'⟩ := by
  have hle := hv.len_le
  cases op <;> simp only [toIVOp, Option.some.injEq, reduceCtorEq] at hmap
  case push =>
    subst hmap
    obtain ⟨r, p⟩ := iPush_spec hv
    simp only [iStep, IV.step, IV.push, IV.tryPush]
    rw [r]
    by_cases hc : L.length < s.v.cap
    · simp only [hc, if_true] at p ⊢
      exact ⟨trivial, _, p.view, p.cap, (by rw [p.hdr]; exact hth), (by rw [p.hdr]; exact hal), rfl⟩
    · simp only [hc, if_false] at p ⊢
      exact ⟨by simp [retMatch], _, p.view, p.cap, (by rw [p.hdr]; exact hth), (by rw [p.hdr]; exact hal), rfl⟩
  case tryPush =>
    subst hmap
    obtain ⟨r, p⟩ := iTryPush_spec hv
    simp only [iStep, IV.step, IV.tryPush]
    rw [r]
    by_cases hc : L.length < s.v.cap
    · simp only [hc, if_true] at p ⊢
      exact ⟨trivial, _, p.view, p.cap, (by rw [p.hdr]; exact hth), (by rw [p.hdr]; exact hal), rfl⟩
    · simp only [hc, if_false] at p ⊢
      exact ⟨by simp [retMatch], _, p.view, p.cap, (by rw [p.hdr]; exact hth), (by rw [p.hdr]; exact hal), rfl⟩
  case pop =>
    subst hmap
    obtain ⟨r, p⟩ := iPop_spec hv
    simp only [iStep, IV.step]
    rw [r, IV.pop_spec]
    refine ⟨?_, _, p.view, p.cap, (by rw [p.hdr]; exact hth), (by rw [p.hdr]; exact hal), rfl⟩
    simp only [HipVerif.Spec.Vec.pop]
    cases L.getLast? <;> simp [retMatch]
  case popIf b =>
    subst hmap
    obtain ⟨r, p⟩ := iPopIf_spec b hv hb
    simp only [iStep, IV.step, IV.popIf]
    rw [r]
    rcases eq_nil_or_snoc L with rfl | ⟨M, z, rfl⟩
    · simp only [List.length_nil, if_true, List.getLast?_nil]
      refine ⟨by simp [retMatch], _, p.view, p.cap, (by rw [p.hdr]; exact hth), (by rw [p.hdr]; exact hal), ?_⟩
      cases b <;> simp
    · have hne : ¬ (M ++ [z]).length = 0 := by simp
      simp only [hne, if_false, List.getLast?_concat]
      cases b with
      | false =>
        simp only [Bool.false_eq_true, if_false] at p ⊢
        exact ⟨by simp [retMatch], _, p.view, p.cap, (by rw [p.hdr]; exact hth), (by rw [p.hdr]; exact hal), rfl⟩
      | true =>
        simp only [if_true] at p ⊢
        rw [IV.pop_spec]
        refine ⟨by simp [retMatch, HipVerif.Spec.Vec.pop], _, p.view, p.cap, (by rw [p.hdr]; exact hth), (by rw [p.hdr]; exact hal), ?_⟩
        simp [HipVerif.Spec.Vec.pop]
  case insert i =>
    subst hmap
    obtain ⟨r, p⟩ := iInsert_spec i hv
    simp only [iStep, IV.step, IV.insert, IV.tryInsert]
    rw [r]
    by_cases h1 : i > L.length
    · simp only [h1, true_or, if_true] at p ⊢
      exact ⟨by simp [retMatch], _, p.view, p.cap, (by rw [p.hdr]; exact hth), (by rw [p.hdr]; exact hal), rfl⟩
    · by_cases h2 : L.length = s.v.cap
      · have h1' : ¬ s.v.cap < i := by omega
        simp only [h2, or_true, if_true] at p ⊢
        refine ⟨by simp [retMatch, h1'], _, p.view, p.cap, (by rw [p.hdr]; exact hth), (by rw [p.hdr]; exact hal), ?_⟩
        simp [h1']
      · simp only [h1, h2, or_self, if_false] at p ⊢
        exact ⟨trivial, _, p.view, p.cap, (by rw [p.hdr]; exact hth), (by rw [p.hdr]; exact hal), rfl⟩
  case tryInsert i =>
    subst hmap
    obtain ⟨r, p⟩ := iTryInsert_spec i hv
    simp only [iStep, IV.step, IV.tryInsert]
    rw [r]
    by_cases h1 : i > L.length
    · simp only [h1, true_or, if_true] at p ⊢
      exact ⟨by simp [retMatch], _, p.view, p.cap, (by rw [p.hdr]; exact hth), (by rw [p.hdr]; exact hal), rfl⟩
    · by_cases h2 : L.length = s.v.cap
      · have h1' : ¬ s.v.cap < i := by omega
        simp only [h2, or_true, if_true] at p ⊢
        refine ⟨by simp [retMatch, h1'], _, p.view, p.cap, (by rw [p.hdr]; exact hth), (by rw [p.hdr]; exact hal), ?_⟩
        simp [h1']
      · simp only [h1, h2, or_self, if_false] at p ⊢
        exact ⟨trivial, _, p.view, p.cap, (by rw [p.hdr]; exact hth), (by rw [p.hdr]; exact hal), rfl⟩
  case remove i =>
    subst hmap
    obtain ⟨r, p⟩ := iRemove_spec i hv
    simp only [iStep, IV.step, IV.remove]
    rw [r]
    by_cases hi : i < L.length
    · simp only [hi, if_true, List.getElem?_eq_getElem hi]
      exact ⟨by simp [retMatch], _, p.view, p.cap, (by rw [p.hdr]; exact hth), (by rw [p.hdr]; exact hal), rfl⟩
    · have hn : L[i]? = none := by simp; omega
      simp only [hi, if_false, hn]
      refine ⟨by simp [retMatch], _, p.view, p.cap, (by rw [p.hdr]; exact hth), (by rw [p.hdr]; exact hal), ?_⟩
      rw [List.take_of_length_le (by omega), List.drop_of_length_le (by omega)]; simp
  case swapRemove i =>
    subst hmap
    obtain ⟨r, p⟩ := iSwapRemove_spec i hv
    simp only [iStep, IV.step, IV.swapRemove]
    rw [r]
    by_cases hi : i < L.length
    · obtain ⟨a, l, w1, w2, w3, w4⟩ := Vecs.swap_last L i hi
      simp only [hi, if_true, w1, w2, w3, w4] at p ⊢
      exact ⟨by simp [retMatch], _, p.view, p.cap, (by rw [p.hdr]; exact hth), (by rw [p.hdr]; exact hal), rfl⟩
    · have hn : L[i]? = none := by simp; omega
      simp only [hi, if_false, hn] at p ⊢
      exact ⟨by simp [retMatch], _, p.view, p.cap, (by rw [p.hdr]; exact hth), (by rw [p.hdr]; exact hal), rfl⟩
  case truncate n =>
    subst hmap
    obtain ⟨r, p, -⟩ := iTruncate_spec n hv hb
    simp only [iStep, liftB, boolRet, IV.step, IV.truncate]
    rw [r]
    refine ⟨by simp only [Bool.false_eq_true, if_false]; split <;> simp [retMatch], _, p.view, p.cap, (by rw [p.hdr]; exact hth), (by rw [p.hdr]; exact hal), ?_⟩
    split
    · rfl
    · rw [List.take_of_length_le (by omega)]
  case clear =>
    subst hmap
    obtain ⟨r, p, -⟩ := iTruncate_spec 0 hv hb
    simp only [iStep, liftB, boolRet, IV.step, IV.clear, IV.truncate]
    rw [r]
    refine ⟨by simp only [Bool.false_eq_true, if_false]; split <;> simp [retMatch], _, p.view, p.cap, (by rw [p.hdr]; exact hth), (by rw [p.hdr]; exact hal), ?_⟩
    split
    · rfl
    · have : L = [] := List.eq_nil_of_length_eq_zero (by omega)
      subst this; rfl
  case resize n =>
    subst hmap
    obtain ⟨r, p⟩ := iResize_spec n hv hb
    simp only [iStep, liftB, boolRet, IV.step, IV.resizeWith, IV.truncate]
    rw [r]
    have hmapr : (List.range (n - L.length)).map (fun k => s.mem.next + 1 + k)
        = List.range' (s.mem.next + 1) (n - L.length) := (List.range'_eq_map_range ..).symm
    by_cases h1 : n > L.length
    · have hnl : ¬ n ≤ L.length := by omega
      by_cases h2 : n ≤ s.v.cap
      · simp only [h1, h2, hnl, if_true, if_false, hmapr] at p ⊢
        exact ⟨by simp [show ¬ s.v.cap < n by omega, retMatch], _, p.view, p.cap, (by rw [p.hdr]; exact hth), (by rw [p.hdr]; exact hal), rfl⟩
      · simp only [h1, h2, hnl, if_true, if_false] at p ⊢
        exact ⟨by simp [show s.v.cap < n by omega, retMatch], _, p.view, p.cap, (by rw [p.hdr]; exact hth), (by rw [p.hdr]; exact hal), rfl⟩
    · have hnl : n ≤ L.length := by omega
      simp only [h1, hnl, if_true, if_false] at p ⊢
      refine ⟨by simp; split <;> simp [retMatch], _, p.view, p.cap, (by rw [p.hdr]; exact hth), (by rw [p.hdr]; exact hal), ?_⟩
      split
      · rfl
      · rw [List.take_of_length_le (by omega)]
  case resizeWith n =>
    subst hmap
    obtain ⟨r, p, -⟩ := iResizeWith_spec n hv hb
    simp only [iStep, liftB, boolRet, IV.step, IV.resizeWith, IV.truncate]
    rw [r]
    have hmapr : (List.range (n - L.length)).map (fun k => s.mem.next + k)
        = List.range' s.mem.next (n - L.length) := (List.range'_eq_map_range ..).symm
    by_cases h1 : n > L.length
    · have hnl : ¬ n ≤ L.length := by omega
      by_cases h2 : n ≤ s.v.cap
      · simp only [h1, h2, hnl, if_true, if_false, hmapr] at p ⊢
        exact ⟨by simp [show ¬ s.v.cap < n by omega, retMatch], _, p.view, p.cap, (by rw [p.hdr]; exact hth), (by rw [p.hdr]; exact hal), rfl⟩
      · simp only [h1, h2, hnl, if_true, if_false] at p ⊢
        exact ⟨by simp [show s.v.cap < n by omega, retMatch], _, p.view, p.cap, (by rw [p.hdr]; exact hth), (by rw [p.hdr]; exact hal), rfl⟩
    · have hnl : n ≤ L.length := by omega
      simp only [h1, hnl, if_true, if_false] at p ⊢
      refine ⟨by simp; split <;> simp [retMatch], _, p.view, p.cap, (by rw [p.hdr]; exact hth), (by rw [p.hdr]; exact hal), ?_⟩
      split
      · rfl
      · rw [List.take_of_length_le (by omega)]
  case extSlice n =>
    subst hmap
    obtain ⟨r, p⟩ := iExtSlice_spec n hv hb
    simp only [iStep, liftB, boolRet, IV.step, IV.extendFromSlice, List.length_range']
    rw [r]
    by_cases h : L.length + n ≤ s.v.cap
    · simp only [h, if_true] at p ⊢
      exact ⟨by simp [show ¬ s.v.cap < L.length + n by omega, retMatch], _, p.view, p.cap, (by rw [p.hdr]; exact hth), (by rw [p.hdr]; exact hal), rfl⟩
    · simp only [h, if_false] at p ⊢
      exact ⟨by simp [show s.v.cap < L.length + n by omega, retMatch], _, p.view, p.cap, (by rw [p.hdr]; exact hth), (by rw [p.hdr]; exact hal), rfl⟩
  case extWithin a b =>
    obtain ⟨r, p⟩ := iExtWithin_spec a b hv hb hout
    rw [hv.1] at hmap
    simp only [iStep, liftB, boolRet]
    rw [r]
    by_cases h1 : a ≤ b ∧ b ≤ L.length
    · rw [if_pos h1] at hmap
      simp only [Option.some.injEq] at hmap
      subst hmap
      simp only [IV.step, IV.extendFromSlice, List.length_range']
      by_cases h2 : L.length + (b - a) ≤ s.v.cap
      · simp only [h1, h2, and_self, if_true] at p ⊢
        exact ⟨by simp [show ¬ s.v.cap < L.length + (b - a) by omega, retMatch], _, p.view, p.cap, (by rw [p.hdr]; exact hth), (by rw [p.hdr]; exact hal), rfl⟩
      · have h3 : ¬ (a ≤ b ∧ b ≤ L.length ∧ L.length + (b - a) ≤ s.v.cap) := fun h => h2 h.2.2
        rw [if_neg h3] at p
        simp only [h2, if_false]
        exact ⟨by simp [show s.v.cap < L.length + (b - a) by omega, retMatch], _, p.view, p.cap, (by rw [p.hdr]; exact hth), (by rw [p.hdr]; exact hal), rfl⟩
    · rw [if_neg h1] at hmap
      simp only [Option.some.injEq] at hmap
      subst hmap
      have h3 : ¬ (a ≤ b ∧ b ≤ L.length ∧ L.length + (b - a) ≤ s.v.cap) := fun h => h1 ⟨h.1, h.2.1⟩
      simp only [h3, if_false] at p
      obtain ⟨e, he⟩ := rangeMono_invalid (len := L.length) h1
      simp only [IV.step, IV.extendFromWithin, he]
      exact ⟨by simp [h1, retMatch], _, p.view, p.cap, (by rw [p.hdr]; exact hth), (by rw [p.hdr]; exact hal), rfl⟩
  case extIter h n =>
    subst hmap
    obtain ⟨r, p⟩ := iExtend_spec n hv hb
    simp only [iStep, liftB, boolRet, IV.step]
    rw [r]
    by_cases hc : L.length + n ≤ s.v.cap
    · rw [IV.extend_spec _ _ (by simpa using hc)]
      have hmin : min n (s.v.cap - L.length) = n := by omega
      rw [hmin] at p
      exact ⟨by simp [show ¬ s.v.cap < L.length + n by omega, retMatch], _, p.view, p.cap, (by rw [p.hdr]; exact hth), (by rw [p.hdr]; exact hal), rfl⟩
    · rw [IV.extend_exceed _ _ hle (by simp; omega)]
      have hmin : min n (s.v.cap - L.length) = s.v.cap - L.length := by omega
      rw [hmin] at p
      refine ⟨by simp [show s.v.cap < L.length + n by omega, retMatch], _, p.view, p.cap, (by rw [p.hdr]; exact hth), (by rw [p.hdr]; exact hal), ?_⟩
      rw [take_range', show min (s.v.cap - L.length) n = s.v.cap - L.length by omega]
  case clone =>
    subst hmap
    obtain ⟨r, p⟩ := iClone_spec hv hb hout
    simp only [iStep, liftB, boolRet, IV.step, IV.clone, IV.new, IV.extendFromSlice]
    rw [r]
    have : ([] : List Nat).length + L.length ≤ s.v.cap := by simpa using hle
    simp only [this, if_true, List.nil_append]
    exact ⟨by simp [retMatch], _, p.view, p.cap, (by rw [p.hdr]; exact hth), (by rw [p.hdr]; exact hal), rfl⟩
  case append n =>
    subst hmap
    obtain ⟨r, p⟩ := iAppend_spec n hv
    simp only [iStep, liftB, boolRet, IV.step, IV.append, List.length_range']
    rw [r]
    by_cases h : L.length + n ≤ s.v.cap
    · simp only [h, if_true] at p ⊢
      exact ⟨by simp [show ¬ s.v.cap < L.length + n by omega, retMatch], _, p.view, p.cap, (by rw [p.hdr]; exact hth), (by rw [p.hdr]; exact hal), rfl⟩
    · simp only [h, if_false] at p ⊢
      exact ⟨by simp [show s.v.cap < L.length + n by omega, retMatch], _, p.view, p.cap, (by rw [p.hdr]; exact hth), (by rw [p.hdr]; exact hal), rfl⟩
  case splitOff a =>
    subst hmap
    obtain ⟨r, p⟩ := iSplitOff_spec a hv hb
    simp only [iStep, liftB, boolRet, IV.step, IV.splitOff]
    rw [r]
    by_cases h : a ≤ L.length
    · simp only [h, if_true]
      exact ⟨by simp [show ¬ L.length < a by omega, retMatch], _, p.view, p.cap, (by rw [p.hdr]; exact hth), (by rw [p.hdr]; exact hal), rfl⟩
    · simp only [h, if_false]
      refine ⟨by simp [show L.length < a by omega, retMatch], _, p.view, p.cap, (by rw [p.hdr]; exact hth), (by rw [p.hdr]; exact hal), ?_⟩
      rw [List.take_of_length_le (by omega)]
  case drain a b sc f =>
    subst hmap
    obtain ⟨r, p⟩ := drainOp_spec a b sc f hv hb
    simp only [iStep, liftB, boolRet, IV.step, IV.drain]
    rw [r]
    by_cases h : a ≤ b ∧ b ≤ L.length
    · have hrm := rangeMono_valid (len := L.length) h
      simp only [h, and_self, if_true, hrm] at p ⊢
      cases f <;> exact ⟨by simp [finOf, retMatch], _, p.view, p.cap, (by rw [p.hdr]; exact hth), (by rw [p.hdr]; exact hal), rfl⟩
    · obtain ⟨e, he⟩ := rangeMono_invalid (len := L.length) h
      simp only [h, if_false, he] at p ⊢
      exact ⟨by simp [retMatch], _, p.view, p.cap, (by rw [p.hdr]; exact hth), (by rw [p.hdr]; exact hal), rfl⟩
  case intoIter sc f =>
    subst hmap
    obtain ⟨r, p⟩ := iIntoIter_spec sc f hb
    simp only [iStep, liftB, boolRet, IV.step, IV.intoIter, IV.new]
    rw [r, p]
    exact ⟨by simp [retMatch], [], LocalVec.iNew _, by simp [HipVerif.Slots.iNew, Vec.cap, uninits], rfl, rfl, rfl⟩
  case roundtrip =>
    subst hmap
    obtain ⟨r, p⟩ := iRoundtrip_spec hv
    simp only [iStep, liftB, boolRet, IV.step, IV.from_, IV.new]
    rw [r, absL_of_view hv]
    simp only [hle, if_true]
    exact ⟨by simp [retMatch], _, p.view, p.cap, (by rw [p.hdr]; exact hth), (by rw [p.hdr]; exact hal), rfl⟩




end HipVerif.Slots
