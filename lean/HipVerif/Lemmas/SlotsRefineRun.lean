/-
The slot-level model refines the list-level model: one fault-free step (`slots_refine_iv`,
`slots_refine_tv`) and whole fault-free histories (`slots_run_refines_iv/_tv`).
-/
import HipVerif.Lemmas.SlotsRefineTVStep
namespace HipVerif.Slots
variable {fl : Bool}
open HipVerif.Vecs (IV TV Outcome Val Reason PanicClass DrainEnd Src TVParams)
open HipVerif.Spec.Vec (Bnd Side)

theorem absL_mem (s : St) (m : Mem) : absL { s with mem := m } = absL s := rfl

/-- one fault-free InlineVec step of the slot model is the step of the list model -/
theorem slots_refine_iv {s : St} (op : Op) (vop : Vecs.Op Nat) (h : OwnL fl s [] [])
    (hth : s.v.h.thin = false) (hal : s.v.h.alive = true) (hmap : toIVOp s op = some vop) :
    retMatch (step none op s).1 ((absIV s).step vop).1 ∧
    absIV (step none op s).2 = ((absIV s).step vop).2 ∧
    (step none op s).2.v.h.thin = false ∧ (step none op s).2.v.h.alive = true := by
  have h0 : OwnL fl ({ s with mem := { s.mem with budget := none } } : St) [] [] :=
    h.mem_step (fun _ _ hx => { hx.toFalse with full := fun hf => ⟨rfl, (hx.full hf).2⟩ })
  have hv := h0.view
  have key := iStep_refines (s := { s with mem := { s.mem with budget := none } }) op vop hv rfl
    (h0.view_notout hv) hth hal hmap
  unfold step
  simp only [hal, if_true, hth, Bool.false_eq_true, if_false]
  obtain ⟨k1, L', k2, k3, k4, k5, k6⟩ := key
  refine ⟨k1, ?_, k4, k5⟩
  simp only [absIV] at k6 ⊢
  rw [show absL ({ s with mem := { s.mem with budget := none } } : St) = absL s from rfl] at k6
  rw [k6]
  congr 1
  exact absL_of_view k2

/-- one fault-free ThinVec step of the slot model is the step of the list model (contents,
returned value, panic, capacity), within the `Small` scope -/
theorem slots_refine_tv {s : St} (alT : Nat) (op : Op) (vop : Vecs.Op Nat) (h : OwnL fl s [] [])
    (hth : s.v.h.thin = true) (hal : s.v.h.alive = true) (ha : AlignOk alT) (hsm : Small s op)
    (hmap : toTVOp s op = some vop) :
    retMatch (step none op s).1 ((absTV alT s).step vop).1 ∧
    absTV alT (step none op s).2 = ((absTV alT s).step vop).2 ∧
    (step none op s).2.v.h.thin = true ∧ (step none op s).2.v.h.alive = true := by
  have h0 : OwnL fl ({ s with mem := { s.mem with budget := none } } : St) [] [] :=
    h.mem_step (fun _ _ hx => { hx.toFalse with full := fun hf => ⟨rfl, (hx.full hf).2⟩ })
  have hv := h0.view
  have key := tStep_refines (s := { s with mem := { s.mem with budget := none } }) alT op vop h0 hv
    rfl hth hal ha hsm hmap
  unfold step
  simp only [hal, if_true, hth]
  obtain ⟨k1, L', k2, k3, k6⟩ := key
  refine ⟨k1, ?_, by rw [k3.thin]; exact hth, by rw [k3.alive]; exact hal⟩
  simp only [absTV] at k6 ⊢
  rw [show absL ({ s with mem := { s.mem with budget := none } } : St) = absL s from rfl] at k6
  rw [k6]
  have he : (tStep op ({ s with mem := { s.mem with budget := none } } : St)).2.v.h.esz
      = s.v.h.esz := k3.esz
  simp only [he]
  congr 1
  exact absL_of_view k2

/-! ### Histories -/

/-- fault-free run of the slot model, collecting the returned values -/
def runQ : List Op → St → List Ret × St
  | [], s => ([], s)
  | op :: r, s =>
    let (x, s1) := step none op s
    let (xs, s2) := runQ r s1
    (x :: xs, s2)

theorem runQ_snd : ∀ (ops : List Op) (s : St), (runQ ops s).2 = run (ops.map (fun op => (none, op))) s
  | [], _ => rfl
  | op :: r, s => by
    simp only [runQ, List.map_cons, run]
    exact runQ_snd r _

/-- pointwise correspondence of returned values -/
def retsMatch : List Ret → List (Outcome Nat) → Prop
  | [], [] => True
  | x :: xs, o :: os => retMatch x o ∧ retsMatch xs os
  | _, _ => False

/-- the list-model history of a slot-model history of an InlineVec (`none`: some operation has no
counterpart) -/
def ivHist : St → List Op → Option (List (Vecs.Op Nat))
  | _, [] => some []
  | s, op :: r =>
    match toIVOp s op, ivHist (step none op s).2 r with
    | some v, some vs => some (v :: vs)
    | _, _ => none

/-- the list-model history of a slot-model history of a ThinVec -/
def tvHist : St → List Op → Option (List (Vecs.Op Nat))
  | _, [] => some []
  | s, op :: r =>
    match toTVOp s op, tvHist (step none op s).2 r with
    | some v, some vs => some (v :: vs)
    | _, _ => none

/-- every operation of the history runs within the `Small` scope -/
def SmallHist : St → List Op → Prop
  | _, [] => True
  | s, op :: r => Small s op ∧ SmallHist (step none op s).2 r

instance decSmall (s : St) (op : Op) : Decidable (Small s op) := by
  unfold Small; infer_instance

instance decSmallHist : ∀ (ops : List Op) (s : St), Decidable (SmallHist s ops)
  | [], _ => isTrue trivial
  | op :: r, s => by
    unfold SmallHist
    exact @instDecidableAnd _ _ (decSmall s op) (decSmallHist r _)

theorem slots_run_refines_iv : ∀ (ops : List Op) (s : St) (vops : List (Vecs.Op Nat)),
    Own s → s.v.h.thin = false → s.v.h.alive = true → ivHist s ops = some vops →
    retsMatch (runQ ops s).1 ((absIV s).run vops).1 ∧
      absIV (runQ ops s).2 = ((absIV s).run vops).2
  | [], s, vops, _, _, _, hm => by
    simp only [ivHist, Option.some.injEq] at hm
    subst hm
    simp [runQ, IV.run, retsMatch]
  | op :: r, s, vops, h, hth, hal, hm => by
    simp only [ivHist] at hm
    rcases hv : toIVOp s op with _ | v
    · simp [hv] at hm
    · rcases hvs : ivHist (step none op s).2 r with _ | vs
      · simp [hv, hvs] at hm
      · simp only [hv, hvs, Option.some.injEq] at hm
        subst hm
        obtain ⟨k1, k2, k3, k4⟩ := slots_refine_iv op v h hth hal hv
        have h' : Own (step none op s).2 := step_own none op h
        obtain ⟨i1, i2⟩ := slots_run_refines_iv r _ vs h' k3 k4 hvs
        simp only [runQ, IV.run]
        rw [k2] at i1 i2
        exact ⟨⟨k1, i1⟩, i2⟩

theorem slots_run_refines_tv (alT : Nat) (ha : AlignOk alT) : ∀ (ops : List Op) (s : St)
    (vops : List (Vecs.Op Nat)), Own s → s.v.h.thin = true → s.v.h.alive = true →
    SmallHist s ops → tvHist s ops = some vops →
    retsMatch (runQ ops s).1 ((absTV alT s).run vops).1 ∧
      absTV alT (runQ ops s).2 = ((absTV alT s).run vops).2
  | [], s, vops, _, _, _, _, hm => by
    simp only [tvHist, Option.some.injEq] at hm
    subst hm
    simp [runQ, TV.run, retsMatch]
  | op :: r, s, vops, h, hth, hal, hsm, hm => by
    simp only [tvHist] at hm
    rcases hv : toTVOp s op with _ | v
    · simp [hv] at hm
    · rcases hvs : tvHist (step none op s).2 r with _ | vs
      · simp [hv, hvs] at hm
      · simp only [hv, hvs, Option.some.injEq] at hm
        subst hm
        obtain ⟨k1, k2, k3, k4⟩ := slots_refine_tv alT op v h hth hal ha hsm.1 hv
        have h' : Own (step none op s).2 := step_own none op h
        obtain ⟨i1, i2⟩ := slots_run_refines_tv alT ha r _ vs h' k3 k4 hsm.2 hvs
        simp only [runQ, TV.run]
        rw [k2] at i1 i2
        exact ⟨⟨k1, i1⟩, i2⟩

/-- along every fault-free history the length never exceeds the capacity -/
theorem slots_len_le_cap {s : St} (h : Own s) (ops : List Op) :
    (runQ ops s).2.v.len ≤ (runQ ops s).2.v.cap := by
  rw [runQ_snd]
  exact (run_own _ s h).len_le

end HipVerif.Slots
