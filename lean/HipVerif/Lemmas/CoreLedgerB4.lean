/-
The buffer ledger through the remaining operations, and `step_trans`.
-/
import HipVerif.Lemmas.CoreLedgerB3

namespace HipVerif.Core
open HipVerif.Spec.Std

variable {cfg : Cfg} {s : State}

theorem step_trans_repeat (w : Wf cfg s) (h d n : Nat) :
    Trans s none (step cfg s (.repeat h d n)).2.events (step cfg s (.repeat h d n)).1 none := by
  simp only [step]
  cases hg : getH s h with
  | none => exact stepTrans (trans_refl _ _)
  | some hd =>
    have hvl := hlen_eq_view_length (w.handles h hd hg)
    simp only
    repeat' split
    all_goals first
      | exact stepTrans (trans_refl _ _)
      | exact stepTransH (trans_refl _ _)
      | exact stepTransH (trans_cloneRepr _ _ _)
      | exact stepTransH (trans_newHeap _ _ _ _ (by simp [hvl, Nat.mul_comm]))

theorem step_trans_fromVec (d : Nat) (bs : List UInt8) (cap : Nat) :
    Trans s none (step cfg s (.fromVec d bs cap)).2.events (step cfg s (.fromVec d bs cap)).1 none := by
  simp only [step]
  split
  · refine stepTransH ?_
    refine (trans_heldEnter s cap (if cap > 0 then [Event.importBuf s.nextBuf cap] else []) ?_).trans
      (trans_fromVecRepr _ bs cap s.nextBuf)
    constructor
    · intro hc; right; simp [hc]
    · intro hc; simp [hc]
  · exact stepTrans (trans_refl _ _)

theorem step_trans_drop (w : Wf cfg s) (h : Nat) :
    Trans s none (step cfg s (.drop h)).2.events (step cfg s (.drop h)).1 none := by
  simp only [step]
  cases hg : getH s h with
  | none => exact stepTrans (trans_refl _ _)
  | some hd => exact stepTransH (trans_dropRepr none (handleOk_live (w.handles h hd hg)))

theorem step_trans_trunc (w : Wf cfg s) (h n : Nat) :
    Trans s none (step cfg s (.truncate h n)).2.events (step cfg s (.truncate h n)).1 none ∧
    Trans s none (step cfg s (.clear h)).2.events (step cfg s (.clear h)).1 none ∧
    Trans s none (step cfg s (.pop h)).2.events (step cfg s (.pop h)).1 none ∧
    Trans s none (step cfg s (.shrinkTo h n)).2.events (step cfg s (.shrinkTo h n)).1 none ∧
    Trans s none (step cfg s (.shrinkToFit h)).2.events (step cfg s (.shrinkToFit h)).1 none := by
  simp only [step]
  cases hg : getH s h with
  | none => exact ⟨trans_refl _ _, trans_refl _ _, trans_refl _ _, trans_refl _ _, trans_refl _ _⟩
  | some hd =>
    refine ⟨trans_truncateOp w hg _ _, trans_truncateOp w hg _ _, ?_, trans_shrinkToOp w hg _,
      trans_shrinkToOp w hg _⟩
    simp only
    split
    · exact trans_refl _ _
    · exact trans_truncateOp w hg _ _

theorem handleOk_cap {hd : Handle} (w : Wf cfg s) (hok : HandleOk cfg s hd) :
    ∀ o pb off len, hd.repr = .heap o pb off len →
      ∃ x, getI s o = some x ∧ x.live = true ∧ off + len ≤ x.cap := by
  intro o pb off len hr
  obtain ⟨x, hx, hl, hrng⟩ := handleOk_range hok o pb off len hr
  have := w.datacap o x hx hl
  exact ⟨x, hx, hl, by omega⟩

theorem step_trans_pushSlice (w : Wf cfg s) (h : Nat) (bs : List UInt8) :
    Trans s none (step cfg s (.pushSlice h bs)).2.events (step cfg s (.pushSlice h bs)).1 none := by
  simp only [step]
  cases hg : getH s h with
  | none => exact stepTrans (trans_refl _ _)
  | some hd =>
    have hlive := handleOk_live (w.handles h hd hg)
    have hvl := hlen_eq_view_length (w.handles h hd hg)
    simp only
    have hre : Trans s none (pushRealloc cfg s h hd bs).2.events (pushRealloc cfg s h hd bs).1 none := by
      unfold pushRealloc
      rw [dropIf_eq]
      split
      · exact stepTransH (trans_dropRepr none hlive)
      · exact stepTransH (trans_newHeap_drop none _ _ (by simp only [List.length_append]; omega) hlive)
    unfold pushRealloc at hre
    cases hr : hd.repr with
    | inline b0 => simp only; rw [hr] at hre; exact hre
    | borrowed a b c => simp only; rw [hr] at hre; exact hre
    | heap o pb off len =>
      simp only
      rw [hr] at hre
      obtain ⟨x, hx, hl, hrng⟩ := handleOk_range (w.handles h hd hg) o pb off len hr
      simp only [hx]
      by_cases hu : ownerUnique cfg s o = true
      · simp only [hu, if_true]
        have hkl : (x.data.take (off + len) ++ bs).length = off + len + bs.length := by
          simp only [List.length_append, List.length_take]; omega
        by_cases hfit : (x.data.take (off + len) ++ bs).length ≤ x.cap
        · simp only [hfit, if_true]
          refine stepTransH ?_
          have hq : Trans s none [] (setI s o { x with data := x.data.take (off + len) ++ bs }) none :=
            trans_quiet (sig_setI_same hx rfl rfl rfl) (Nat.le_refl _)
          by_cases hb : bs.length > 0
          · simp only [hb, if_true]
            exact (trans_write (p := some o) (c := x.cap) ⟨x, hx, hl, rfl, rfl⟩ (off + len)
              (off + len + bs.length) (Nat.le_add_right _ _) (by omega) (by omega)).then_quiet
              (sig_setI_same hx rfl rfl rfl) (Nat.le_refl _)
          · simp only [hb, if_false]; exact hq
        · simp only [hfit, if_false]
          refine stepTransH ?_
          have t1 := trans_regrow hx hl none (x.data.take (off + len) ++ bs)
            (growCap x.cap (x.data.take (off + len) ++ bs).length) (growCap_pos _ _)
          have hx2 := getI_setI_same { s with nextBuf := s.nextBuf + 1 } o { x with data := x.data.take (off + len) ++ bs, cap := growCap x.cap (x.data.take (off + len) ++ bs).length, buf := s.nextBuf } (getI_some_lt hx)
          have hge := growCap_ge x.cap (x.data.take (off + len) ++ bs).length
          have t2 := trans_write (held := none) (p := some o) (b := s.nextBuf)
            (c := growCap x.cap (x.data.take (off + len) ++ bs).length) ⟨_, hx2, hl, rfl, rfl⟩
            (off + len) (off + len + bs.length) (Nat.le_add_right _ _) (by omega) (growCap_pos _ _)
          exact t1.trans t2
      · simp only [hu]; exact hre

theorem step_trans_asMutWrite (w : Wf cfg s) (h i : Nat) (b : UInt8) :
    Trans s none (step cfg s (.asMutWrite h i b)).2.events (step cfg s (.asMutWrite h i b)).1 none := by
  simp only [step]
  cases hg : getH s h with
  | none => exact stepTrans (trans_refl _ _)
  | some hd =>
    simp only
    repeat' split
    all_goals first
      | exact stepTrans (trans_refl _ _)
      | exact stepTransH (trans_writeView none _ (handleOk_cap w (w.handles h hd hg)))

theorem step_trans_spareCapacity (w : Wf cfg s) (h : Nat) :
    Trans s none (step cfg s (.spareCapacity h)).2.events (step cfg s (.spareCapacity h)).1 none := by
  simp only [step]
  cases hg : getH s h with
  | none => exact stepTrans (trans_refl _ _)
  | some hd =>
    simp only
    cases hr : hd.repr with
    | inline bs => exact stepTrans (trans_refl _ _)
    | borrowed a b' c => exact stepTrans (trans_refl _ _)
    | heap o pb off len =>
      simp only
      obtain ⟨x, hx, hl, _⟩ := handleOk_range (w.handles h hd hg) o pb off len hr
      simp only [hx]
      split
      · exact stepTrans (trans_quiet (sig_setI_same hx rfl rfl rfl) (Nat.le_refl _))
      · exact stepTrans (trans_refl _ _)

theorem trans_unique_write (w : Wf cfg s) {h : Nat} {hd : Handle} (hg : getH s h = some hd)
    (f : List UInt8 → List UInt8) (v : Option Handle) (ret : Ret) :
    Trans s none
      ((makeUnique cfg s hd).2.2 ++ (writeView (makeUnique cfg s hd).1 (makeUnique cfg s hd).2.1 f).2.2)
      (ok (setH (writeView (makeUnique cfg s hd).1 (makeUnique cfg s hd).2.1 f).1 h v) ret
        ((makeUnique cfg s hd).2.2 ++ (writeView (makeUnique cfg s hd).1 (makeUnique cfg s hd).2.1 f).2.2)).1
      none := by
  have hlive := handleOk_live (w.handles h hd hg)
  have ri := makeUnique_spec w hg
  have hgM := reinstalled_getH ri hg ri.pool_length
  have hokM := ri.wf.handles h _ hgM
  have t1 := trans_makeUnique (cfg := cfg) none hlive
  have t2 := trans_writeView (S := (makeUnique cfg s hd).1) none (r := (makeUnique cfg s hd).2.1) f (by
    intro o pb off len hr
    exact handleOk_cap (s := setH (makeUnique cfg s hd).1 h _) ri.wf hokM o pb off len hr)
  exact (t1.trans t2).then_quiet (fun _ => rfl) (Nat.le_refl _)

theorem step_trans_mutWrites (w : Wf cfg s) (h i : Nat) (b : UInt8) :
    Trans s none (step cfg s (.toMutWrite h i b)).2.events (step cfg s (.toMutWrite h i b)).1 none ∧
    Trans s none (step cfg s (.makeAsciiLower h)).2.events (step cfg s (.makeAsciiLower h)).1 none ∧
    Trans s none (step cfg s (.makeAsciiUpper h)).2.events (step cfg s (.makeAsciiUpper h)).1 none := by
  simp only [step]
  cases hg : getH s h with
  | none => exact ⟨trans_refl _ _, trans_refl _ _, trans_refl _ _⟩
  | some hd =>
    refine ⟨?_, trans_unique_write w hg _ _ _, trans_unique_write w hg _ _ _⟩
    simp only
    split
    · exact trans_unique_write w hg _ _ _
    · exact stepTransH (trans_makeUnique none (handleOk_live (w.handles h hd hg)))

theorem step_trans_intoVec (w : Wf cfg s) (h : Nat) :
    Trans s none (step cfg s (.intoVec h)).2.events (step cfg s (.intoVec h)).1 none ∧
    Trans s none (step cfg s (.toVec h)).2.events (step cfg s (.toVec h)).1 none := by
  simp only [step]
  cases hg : getH s h with
  | none => exact ⟨trans_refl _ _, trans_refl _ _⟩
  | some hd =>
    have hlive := handleOk_live (w.handles h hd hg)
    simp only
    have hco : Trans s none
        ((if (view s hd).length > 0 then [Event.allocBuf s.nextBuf (view s hd).length,
            Event.write s.nextBuf 0 (view s hd).length, Event.exportBuf s.nextBuf] else []) ++
          (dropRepr cfg { s with nextBuf := s.nextBuf + 1 } hd.repr).2)
        (setH (dropRepr cfg { s with nextBuf := s.nextBuf + 1 } hd.repr).1 h none) none := by
      have tdrop := trans_dropRepr (cfg := cfg) (S := { s with nextBuf := s.nextBuf + 1 }) (r := hd.repr) none hlive
      by_cases hl : 0 < (view s hd).length
      · simp only [gt_iff_lt, hl, if_true]
        have t1 := trans_copyAlloc s (view s hd).length
        simp only [gt_iff_lt, hl, if_true] at t1
        have t2 := trans_heldExport { s with nextBuf := s.nextBuf + 1 } s.nextBuf (view s hd).length
        simp only [gt_iff_lt, hl, if_true] at t2
        exact ((t1.trans t2).trans tdrop).then_quiet (fun _ => rfl) (Nat.le_refl _)
      · simp only [gt_iff_lt, hl, if_false]
        have t0 : Trans s none (dropRepr cfg { s with nextBuf := s.nextBuf + 1 } hd.repr).2
            (dropRepr cfg { s with nextBuf := s.nextBuf + 1 } hd.repr).1 none :=
          Trans.after_quiet (S := s) (S0 := { s with nextBuf := s.nextBuf + 1 }) (fun _ => rfl) (Nat.le_succ _) tdrop
        simpa using t0.then_quiet (S' := setH (dropRepr cfg { s with nextBuf := s.nextBuf + 1 } hd.repr).1 h none)
          (fun _ => rfl) (Nat.le_refl _)
    cases hr : hd.repr with
    | inline bs => rw [hr] at hco; exact ⟨trans_refl _ _, hco⟩
    | borrowed a b c => rw [hr] at hco; exact ⟨trans_refl _ _, hco⟩
    | heap o pb off len =>
      rw [hr] at hco
      simp only
      obtain ⟨x, hx, hl⟩ := hlive o pb off len hr
      simp only [hx]
      by_cases hcond : (off == 0 && ownerUnique cfg s o) = true
      · simp only [hcond, if_true]
        have t : Trans s none (Event.freeInner o :: (if x.cap > 0 then [Event.exportBuf x.buf] else []))
            (setH (setI s o { x with live := false }) h none) none :=
          ((trans_steal hx hl).trans (trans_heldExport _ x.buf x.cap)).then_quiet (fun _ => rfl) (Nat.le_refl _)
        exact ⟨t, t⟩
      · simp only [hcond]
        exact ⟨trans_refl _ _, hco⟩

theorem step_trans_mutate (w : Wf cfg s) (h : Nat) (sc : List VecOp) :
    Trans s none (step cfg s (.mutate h sc)).2.events (step cfg s (.mutate h sc)).1 none ∧
    Trans s none (step cfg s (.mutateLeak h sc)).2.events (step cfg s (.mutateLeak h sc)).1 none := by
  simp only [step]
  cases hg : getH s h with
  | none => exact ⟨trans_refl _ _, trans_refl _ _⟩
  | some hd =>
    simp only
    have t1 := trans_takeVec w hg
    have t2 := trans_vecApply (takeVec cfg s h hd).1 sc (takeVec cfg s h hd).2.1.1 (takeVec cfg s h hd).2.1.2.1
      (takeVec cfg s h hd).2.1.2.2 (takeVec cfg s h hd).1.nextBuf
    have t12 := t1.trans t2
    constructor
    · exact stepTransH ((t12.trans (trans_fromVecRepr _ _ _ _)))
    · exact stepTrans (t12.trans (trans_heldExport _ _ _))

theorem trans_toAscii (w : Wf cfg s) {h : Nat} {hd : Handle} (hg : getH s h = some hd)
    (f : List UInt8 → List UInt8) (t : Bool) :
    Trans s none
      ((cloneRepr cfg s hd).2.2 ++
        (makeUnique cfg (cloneRepr cfg s hd).1 { repr := (cloneRepr cfg s hd).2.1, tainted := t }).2.2 ++
        (writeView
          (makeUnique cfg (cloneRepr cfg s hd).1 { repr := (cloneRepr cfg s hd).2.1, tainted := t }).1
          (makeUnique cfg (cloneRepr cfg s hd).1 { repr := (cloneRepr cfg s hd).2.1, tainted := t }).2.1 f).2.2)
      (writeView
        (makeUnique cfg (cloneRepr cfg s hd).1 { repr := (cloneRepr cfg s hd).2.1, tainted := t }).1
        (makeUnique cfg (cloneRepr cfg s hd).1 { repr := (cloneRepr cfg s hd).2.1, tainted := t }).2.1 f).1
      none := by
  have hok := w.handles h hd hg
  have b0 := A.built_clone w hok
  have b1 := (A.built_makeUnique b0 t).1
  obtain ⟨ex1, w1⟩ := b1.wfx
  have t0 := trans_cloneRepr (cfg := cfg) s none hd
  have t1 := trans_makeUnique (cfg := cfg) (S := (cloneRepr cfg s hd).1) none
    (hd := { repr := (cloneRepr cfg s hd).2.1, tainted := t }) (cloneRepr_live hok)
  have t2 := trans_writeView
    (S := (makeUnique cfg (cloneRepr cfg s hd).1 { repr := (cloneRepr cfg s hd).2.1, tainted := t }).1) none
    (r := (makeUnique cfg (cloneRepr cfg s hd).1 { repr := (cloneRepr cfg s hd).2.1, tainted := t }).2.1) f (by
      intro o pb off len hr
      obtain ⟨x, hx, hl, hrng⟩ := handleOk_range (b1.handleOk t) o pb off len hr
      have := w1.datacap o x hx hl
      exact ⟨x, hx, hl, by omega⟩)
  exact (t0.trans t1).trans t2

theorem step_trans_toAscii (w : Wf cfg s) (h d : Nat) :
    Trans s none (step cfg s (.toAsciiLower h d)).2.events (step cfg s (.toAsciiLower h d)).1 none ∧
    Trans s none (step cfg s (.toAsciiUpper h d)).2.events (step cfg s (.toAsciiUpper h d)).1 none := by
  simp only [step]
  cases hg : getH s h with
  | none => exact ⟨trans_refl _ _, trans_refl _ _⟩
  | some hd =>
    simp only
    constructor
    · split
      · exact stepTransH (trans_toAscii w hg _ _)
      · exact trans_refl _ _
    · split
      · exact stepTransH (trans_toAscii w hg _ _)
      · exact trans_refl _ _

/-- **every operation** keeps the buffer ledger exact: its events pass every ledger check, and
afterwards the ledger again describes exactly the buffers of the live boxes -/
theorem step_trans (w : Wf cfg s) (op : Op) :
    Trans s none (step cfg s op).2.events (step cfg s op).1 none := by
  obtain ⟨a1, a2, a3, a4, a5, a6, a7, a8, a9⟩ := step_trans_A1 (cfg := cfg) (s := s)
  obtain ⟨b1, b2, b3, b4, b5⟩ := step_trans_A2 (cfg := cfg) (s := s)
  cases op with
  | new d => exact a1 d
  | fromSlice d bs => exact a2 d bs
  | fromVec d bs cap => exact step_trans_fromVec d bs cap
  | borrowed d src off len => exact a3 d src off len
  | withCapacity d n => exact a4 d n
  | inline d bs => exact a5 d bs
  | tryInline d bs => exact a6 d bs
  | clone h d => exact a7 h d
  | slice h d sb eb => exact b1 h d sb eb
  | trySlice h d sb eb => exact b2 h d sb eb
  | trySliceRef h d rn rel plen => exact b3 h d rn rel plen
  | sliceRef h d rn rel plen => exact b4 h d rn rel plen
  | adopt h d off len => exact b5 h d off len
  | pushSlice h bs => exact step_trans_pushSlice w h bs
  | pop h => exact (step_trans_trunc w h 0).2.2.1
  | truncate h n => exact (step_trans_trunc w h n).1
  | clear h => exact (step_trans_trunc w h 0).2.1
  | shrinkTo h n => exact (step_trans_trunc w h n).2.2.2.1
  | shrinkToFit h => exact (step_trans_trunc w h 0).2.2.2.2
  | asMutWrite h i b => exact step_trans_asMutWrite w h i b
  | toMutWrite h i b => exact (step_trans_mutWrites w h i b).1
  | makeAsciiLower h => exact (step_trans_mutWrites w h 0 0).2.1
  | makeAsciiUpper h => exact (step_trans_mutWrites w h 0 0).2.2
  | toAsciiLower h d => exact (step_trans_toAscii w h d).1
  | toAsciiUpper h d => exact (step_trans_toAscii w h d).2
  | mutate h sc => exact (step_trans_mutate w h sc).1
  | mutateLeak h sc => exact (step_trans_mutate w h sc).2
  | intoOwned h d => exact a8 h d
  | intoVec h => exact (step_trans_intoVec w h).1
  | toVec h => exact (step_trans_intoVec w h).2
  | intoBorrowed h => exact a9 h
  | «repeat» h d n => exact step_trans_repeat w h d n
  | spareCapacity h => exact step_trans_spareCapacity w h
  | drop h => exact step_trans_drop w h

end HipVerif.Core
