/-
Per-operation theorems for `toAsciiLower`/`toAsciiUpper`, `intoOwned`, `intoBorrowed`, `repeat`
of the Core state machine: `wf_op_*`, `ref_op_*`, `srcs_op_*`, `norm_op_*`.
-/
import HipVerif.Lemmas.CoreOpsA

namespace HipVerif.Core.A
open HipVerif.Spec.Std HipVerif.RangeTy HipVerif.Spec.Range

variable {cfg : Cfg} {s : State}

/-! ### `to_ascii_lowercase` / `to_ascii_uppercase`: clone, make unique, write in place -/

/-- `let mut c = self.clone(); c.make_ascii_…(); c` with the byte map `g` -/
def asciiInstall (cfg : Cfg) (s : State) (hd : Handle) (d : Nat) (g : UInt8 → UInt8) : State × Out :=
  let (s0, r0, ev0) := cloneRepr cfg s hd
  let c : Handle := { repr := r0, tainted := hd.tainted }
  let (s1, r1, ev1) := makeUnique cfg s0 c
  let (s2, r2, ev2) := writeView s1 r1 (fun w => w.map g)
  install s2 d r2 hd.tainted .unit (ev0 ++ ev1 ++ ev2)

theorem asciiInstall_def (hd : Handle) (d : Nat) (g : UInt8 → UInt8) :
    asciiInstall cfg s hd d g =
      install
        (writeView (makeUnique cfg (cloneRepr cfg s hd).1 ⟨(cloneRepr cfg s hd).2.1, hd.tainted⟩).1
          (makeUnique cfg (cloneRepr cfg s hd).1 ⟨(cloneRepr cfg s hd).2.1, hd.tainted⟩).2.1 (fun w => w.map g)).1
        d
        (writeView (makeUnique cfg (cloneRepr cfg s hd).1 ⟨(cloneRepr cfg s hd).2.1, hd.tainted⟩).1
          (makeUnique cfg (cloneRepr cfg s hd).1 ⟨(cloneRepr cfg s hd).2.1, hd.tainted⟩).2.1 (fun w => w.map g)).2.1
        hd.tainted .unit
        ((cloneRepr cfg s hd).2.2 ++
          (makeUnique cfg (cloneRepr cfg s hd).1 ⟨(cloneRepr cfg s hd).2.1, hd.tainted⟩).2.2 ++
          (writeView (makeUnique cfg (cloneRepr cfg s hd).1 ⟨(cloneRepr cfg s hd).2.1, hd.tainted⟩).1
            (makeUnique cfg (cloneRepr cfg s hd).1 ⟨(cloneRepr cfg s hd).2.1, hd.tainted⟩).2.1
            (fun w => w.map g)).2.2) := rfl

theorem asciiInstall_wf_abs (w : Wf cfg s) {h : Nat} {hd : Handle} (hg : getH s h = some hd) {d : Nat}
    (hf : slotFree s d = true) (g : UInt8 → UInt8) :
    Wf cfg (asciiInstall cfg s hd d g).1 ∧
      abs (asciiInstall cfg s hd d g).1 = (abs s).set d (some ((view s hd).map g)) := by
  rw [asciiInstall_def]
  have b0 := built_clone w (w.handles h hd hg)
  obtain ⟨b1, ho⟩ := built_makeUnique b0 hd.tainted
  have b2 := built_writeView b1 ho (fun w => w.map g) (fun w => List.length_map ..)
  exact b2.installed hf _ _ _

theorem asciiInstall_srcs (hd : Handle) (d : Nat) (g : UInt8 → UInt8) :
    (asciiInstall cfg s hd d g).1.srcs = s.srcs := by
  rw [asciiInstall_def, install_srcs, writeView_srcs, makeUnique_srcs, cloneRepr_srcs]

theorem asciiInstall_norm (w : Wf cfg s) (hn : NormOk cfg s) {h : Nat} {hd : Handle} (hg : getH s h = some hd)
    (d : Nat) (g : UInt8 → UInt8) : NormOk cfg (asciiInstall cfg s hd d g).1 := by
  rw [asciiInstall_def]
  have hok := w.handles h hd hg
  refine normOk_install hn ?_ _ _ _ _ _ ?_
  · rw [writeView_pool, makeUnique_pool, cloneRepr_pool]
  · intro ht
    rw [norm_writeView]
    apply norm_makeUnique (built_clone w hok)
    rw [norm_clone hok]
    exact hn h hd hg ht

theorem step_toAsciiLower (h d : Nat) : step cfg s (.toAsciiLower h d) =
    match getH s h with
    | some hd => if slotFree s d then asciiInstall cfg s hd d asciiLower else ok s .badOp []
    | none => ok s .badOp [] := rfl

theorem step_toAsciiUpper (h d : Nat) : step cfg s (.toAsciiUpper h d) =
    match getH s h with
    | some hd => if slotFree s d then asciiInstall cfg s hd d asciiUpper else ok s .badOp []
    | none => ok s .badOp [] := rfl

theorem _root_.HipVerif.Core.wf_op_toAsciiLower (h d : Nat) (w : Wf cfg s) : Wf cfg (step cfg s (.toAsciiLower h d)).1 := by
  rw [step_toAsciiLower]
  cases hg : getH s h with
  | none => exact w
  | some hd =>
    simp only; split
    · rename_i hf; exact (asciiInstall_wf_abs w hg hf _).1
    · exact w

theorem _root_.HipVerif.Core.ref_op_toAsciiLower (h d : Nat) (w : Wf cfg s) (_ : OpOk s (.toAsciiLower h d)) :
    Spec.Std.step cfg.icap s.srcs (abs s) (.toAsciiLower h d) (retFlag (step cfg s (.toAsciiLower h d)).2.ret) =
      (abs (step cfg s (.toAsciiLower h d)).1, eraseRet (step cfg s (.toAsciiLower h d)).2.ret) := by
  rw [step_toAsciiLower]
  simp only [Spec.Std.step, sfree_abs, sget_abs]
  cases hg : getH s h with
  | none => rfl
  | some hd =>
    simp only [Option.map_some]
    split
    · rename_i hf
      rw [(asciiInstall_wf_abs w hg hf _).2]
      rfl
    · rfl

theorem _root_.HipVerif.Core.srcs_op_toAsciiLower (h d : Nat) : (step cfg s (.toAsciiLower h d)).1.srcs = s.srcs := by
  rw [step_toAsciiLower]
  cases getH s h with
  | none => rfl
  | some hd =>
    simp only; split
    · exact asciiInstall_srcs ..
    · rfl

theorem _root_.HipVerif.Core.norm_op_toAsciiLower (h d : Nat) (w : Wf cfg s) (hn : NormOk cfg s) :
    NormOk cfg (step cfg s (.toAsciiLower h d)).1 := by
  rw [step_toAsciiLower]
  cases hg : getH s h with
  | none => exact hn
  | some hd =>
    simp only; split
    · exact asciiInstall_norm w hn hg _ _
    · exact hn

theorem _root_.HipVerif.Core.wf_op_toAsciiUpper (h d : Nat) (w : Wf cfg s) : Wf cfg (step cfg s (.toAsciiUpper h d)).1 := by
  rw [step_toAsciiUpper]
  cases hg : getH s h with
  | none => exact w
  | some hd =>
    simp only; split
    · rename_i hf; exact (asciiInstall_wf_abs w hg hf _).1
    · exact w

theorem _root_.HipVerif.Core.ref_op_toAsciiUpper (h d : Nat) (w : Wf cfg s) (_ : OpOk s (.toAsciiUpper h d)) :
    Spec.Std.step cfg.icap s.srcs (abs s) (.toAsciiUpper h d) (retFlag (step cfg s (.toAsciiUpper h d)).2.ret) =
      (abs (step cfg s (.toAsciiUpper h d)).1, eraseRet (step cfg s (.toAsciiUpper h d)).2.ret) := by
  rw [step_toAsciiUpper]
  simp only [Spec.Std.step, sfree_abs, sget_abs]
  cases hg : getH s h with
  | none => rfl
  | some hd =>
    simp only [Option.map_some]
    split
    · rename_i hf
      rw [(asciiInstall_wf_abs w hg hf _).2]
      rfl
    · rfl

theorem _root_.HipVerif.Core.srcs_op_toAsciiUpper (h d : Nat) : (step cfg s (.toAsciiUpper h d)).1.srcs = s.srcs := by
  rw [step_toAsciiUpper]
  cases getH s h with
  | none => rfl
  | some hd =>
    simp only; split
    · exact asciiInstall_srcs ..
    · rfl

theorem _root_.HipVerif.Core.norm_op_toAsciiUpper (h d : Nat) (w : Wf cfg s) (hn : NormOk cfg s) :
    NormOk cfg (step cfg s (.toAsciiUpper h d)).1 := by
  rw [step_toAsciiUpper]
  cases hg : getH s h with
  | none => exact hn
  | some hd =>
    simp only; split
    · exact asciiInstall_norm w hn hg _ _
    · exact hn

/-! ### `intoOwned`: the value moves from slot `h` to slot `d` (a borrowed one is copied) -/

theorem fromSliceRepr_setH (s : State) (h : Nat) (v : Option Handle) (bs : List UInt8) :
    fromSliceRepr cfg (setH s h v) bs = (setH (fromSliceRepr cfg s bs).1 h v, (fromSliceRepr cfg s bs).2) := by
  unfold fromSliceRepr
  split
  · rfl
  · split <;> rfl

/-- taking a handle out of its slot: its representation is "built" over the emptied pool -/
theorem built_moved (w : Wf cfg s) {h : Nat} {hd : Handle} (hg : getH s h = some hd) :
    Built cfg (setH s h none) (setH s h none) hd.repr (view s hd) := by
  have wx := (wf_iff_wfx cfg s).mp w
  have hok := w.handles h hd hg
  refine { pool := rfl, srcs := rfl, views := fun _ _ _ => rfl, view_new := ?_, wf := ?_ }
  · rw [view_setH]; exact view_repr s rfl
  · unfold HandleOk at hok
    cases hr : hd.repr with
    | inline bs =>
      rw [hr] at hok
      exact ⟨wfx_take_nonheap wx hg (by unfold isHeap; rw [hr]), hok⟩
    | borrowed a b c =>
      rw [hr] at hok
      exact ⟨wfx_take_nonheap wx hg (by unfold isHeap; rw [hr]), hok⟩
    | heap o pb off len =>
      rw [hr] at hok
      obtain ⟨x, hx, _, hb, hrng⟩ := hok
      exact ⟨wfx_take_heap wx hg hr, x, hx, hb, hrng⟩

theorem wf_moved (w : Wf cfg s) {h : Nat} {hd : Handle} (hg : getH s h = some hd) (hnh : isHeap hd = false) :
    Wf cfg (setH s h none) :=
  (wf_iff_wfx cfg _).mpr (wfx_take_nonheap ((wf_iff_wfx cfg s).mp w) hg hnh)

theorem slotFree_moved {h d : Nat} {hd : Handle} (hg : getH s h = some hd) (hf : slotFree s d = true) :
    slotFree (setH s h none) d = true := by
  obtain ⟨hl, hnone⟩ := slotFree_iff.mp hf
  have hne : h ≠ d := by intro he; subst he; rw [hg] at hnone; cases hnone
  exact slotFree_iff.mpr ⟨by simpa using hl, by rw [getH_setH_other _ _ _ _ hne]; exact hnone⟩

theorem step_intoOwned (h d : Nat) : step cfg s (.intoOwned h d) =
    match getH s h with
    | some hd =>
      if slotFree s d then
        match hd.repr with
        | .borrowed _ _ _ =>
          install (setH (fromSliceRepr cfg s (view s hd)).1 h none) d (fromSliceRepr cfg s (view s hd)).2.1
            hd.tainted .unit (fromSliceRepr cfg s (view s hd)).2.2
        | r => install (setH s h none) d r hd.tainted .unit []
      else ok s .badOp []
    | none => ok s .badOp [] := rfl

/-- the two things `intoOwned` can do, uniformly -/
theorem intoOwned_wf_abs (w : Wf cfg s) {h d : Nat} {hd : Handle} (hg : getH s h = some hd)
    (hf : slotFree s d = true) :
    (Wf cfg (install (setH s h none) d hd.repr hd.tainted .unit []).1 ∧
      abs (install (setH s h none) d hd.repr hd.tainted .unit []).1 = ((abs s).set h none).set d (some (view s hd))) ∧
    (isHeap hd = false →
      Wf cfg (install (setH (fromSliceRepr cfg s (view s hd)).1 h none) d (fromSliceRepr cfg s (view s hd)).2.1
          hd.tainted .unit (fromSliceRepr cfg s (view s hd)).2.2).1 ∧
      abs (install (setH (fromSliceRepr cfg s (view s hd)).1 h none) d (fromSliceRepr cfg s (view s hd)).2.1
          hd.tainted .unit (fromSliceRepr cfg s (view s hd)).2.2).1 = ((abs s).set h none).set d (some (view s hd))) := by
  have hf' := slotFree_moved hg hf
  have habs : abs (setH s h none) = (abs s).set h none := by rw [abs_setH]; rfl
  constructor
  · have := (built_moved w hg).installed hf' hd.tainted .unit []
    rw [habs] at this; exact this
  · intro hnh
    have w' := wf_moved w hg hnh
    have b := built_fromSlice w' (view s hd)
    rw [fromSliceRepr_setH] at b
    have := b.installed hf' hd.tainted .unit (fromSliceRepr cfg s (view s hd)).2.2
    rw [habs] at this; exact this

theorem _root_.HipVerif.Core.wf_op_intoOwned (h d : Nat) (w : Wf cfg s) : Wf cfg (step cfg s (.intoOwned h d)).1 := by
  rw [step_intoOwned]
  cases hg : getH s h with
  | none => exact w
  | some hd =>
    simp only; split
    · rename_i hf
      obtain ⟨h1, h2⟩ := intoOwned_wf_abs w hg hf
      cases hr : hd.repr with
      | borrowed a b c => simp only; exact (h2 (by unfold isHeap; rw [hr])).1
      | inline bs => simp only; rw [hr] at h1; exact h1.1
      | heap o pb off len => simp only; rw [hr] at h1; exact h1.1
    · exact w

theorem _root_.HipVerif.Core.ref_op_intoOwned (h d : Nat) (w : Wf cfg s) (_ : OpOk s (.intoOwned h d)) :
    Spec.Std.step cfg.icap s.srcs (abs s) (.intoOwned h d) (retFlag (step cfg s (.intoOwned h d)).2.ret) =
      (abs (step cfg s (.intoOwned h d)).1, eraseRet (step cfg s (.intoOwned h d)).2.ret) := by
  rw [step_intoOwned]
  simp only [Spec.Std.step, sfree_abs, sget_abs]
  cases hg : getH s h with
  | none => rfl
  | some hd =>
    simp only [Option.map_some]
    split
    · rename_i hf
      obtain ⟨h1, h2⟩ := intoOwned_wf_abs w hg hf
      cases hr : hd.repr with
      | borrowed a b c => simp only; rw [(h2 (by unfold isHeap; rw [hr])).2]; rfl
      | inline bs => simp only; rw [hr] at h1; rw [h1.2]; rfl
      | heap o pb off len => simp only; rw [hr] at h1; rw [h1.2]; rfl
    · rfl

theorem _root_.HipVerif.Core.srcs_op_intoOwned (h d : Nat) : (step cfg s (.intoOwned h d)).1.srcs = s.srcs := by
  rw [step_intoOwned]
  cases getH s h with
  | none => rfl
  | some hd =>
    simp only; split
    · cases hd.repr with
      | borrowed a b c => exact fromSliceRepr_srcs ..
      | inline bs => rfl
      | heap o pb off len => rfl
    · rfl

theorem _root_.HipVerif.Core.norm_op_intoOwned (h d : Nat) (_ : Wf cfg s) (hn : NormOk cfg s) :
    NormOk cfg (step cfg s (.intoOwned h d)).1 := by
  rw [step_intoOwned]
  cases hg : getH s h with
  | none => exact hn
  | some hd =>
    have hn' : NormOk cfg (setH s h none) := normOk_setH hn _ _ (fun _ hv => by cases hv)
    simp only; split
    · cases hr : hd.repr with
      | borrowed a b c =>
        simp only
        exact normOk_install (s := setH s h none) hn' (by simp [setH, fromSliceRepr_pool]) _ _ _ _ _
          (fun _ => norm_fromSlice ..)
      | inline bs => exact normOk_install hn' rfl _ _ _ _ _ (fun _ => rfl)
      | heap o pb off len =>
        simp only
        refine normOk_install hn' rfl _ _ _ _ _ (fun ht => ?_)
        rw [← hn h hd hg ht]
        exact isNormalized_repr cfg hr.symm
    · exact hn

/-! ### `intoBorrowed` -/

theorem step_intoBorrowed (h : Nat) : step cfg s (.intoBorrowed h) =
    match getH s h with
    | some hd =>
      match hd.repr with
      | .borrowed _ _ _ => ok (setH s h none) (.bytes (view s hd)) []
      | _ => ok s (.bool false) []
    | none => ok s .badOp [] := rfl

theorem _root_.HipVerif.Core.wf_op_intoBorrowed (h : Nat) (w : Wf cfg s) : Wf cfg (step cfg s (.intoBorrowed h)).1 := by
  rw [step_intoBorrowed]
  cases hg : getH s h with
  | none => exact w
  | some hd =>
    simp only
    cases hr : hd.repr with
    | borrowed a b c => exact wf_moved w hg (by unfold isHeap; rw [hr])
    | inline bs => exact w
    | heap o pb off len => exact w

theorem _root_.HipVerif.Core.ref_op_intoBorrowed (h : Nat) (_ : Wf cfg s) (_ : OpOk s (.intoBorrowed h)) :
    Spec.Std.step cfg.icap s.srcs (abs s) (.intoBorrowed h) (retFlag (step cfg s (.intoBorrowed h)).2.ret) =
      (abs (step cfg s (.intoBorrowed h)).1, eraseRet (step cfg s (.intoBorrowed h)).2.ret) := by
  rw [step_intoBorrowed]
  simp only [Spec.Std.step, sget_abs]
  cases hg : getH s h with
  | none => rfl
  | some hd =>
    simp only [Option.map_some]
    obtain ⟨r, t⟩ := hd
    cases r with
    | borrowed a b c => simp only [ok_fst, ok_ret, retFlag, if_true, abs_setH]; rfl
    | inline bs => rfl
    | heap o pb off len => rfl

theorem _root_.HipVerif.Core.srcs_op_intoBorrowed (h : Nat) : (step cfg s (.intoBorrowed h)).1.srcs = s.srcs := by
  rw [step_intoBorrowed]
  cases getH s h with
  | none => rfl
  | some hd => simp only; cases hd.repr <;> rfl

theorem _root_.HipVerif.Core.norm_op_intoBorrowed (h : Nat) (_ : Wf cfg s) (hn : NormOk cfg s) :
    NormOk cfg (step cfg s (.intoBorrowed h)).1 := by
  rw [step_intoBorrowed]
  cases getH s h with
  | none => exact hn
  | some hd =>
    simp only
    cases hd.repr with
    | borrowed a b c => exact normOk_setH hn _ _ (fun _ hv => by cases hv)
    | inline bs => exact hn
    | heap o pb off len => exact hn

/-! ### `repeat` -/

theorem step_repeat (h d n : Nat) : step cfg s (.repeat h d n) =
    match getH s h with
    | some hd =>
      if slotFree s d then
        if hlen hd = 0 || n = 1 then
          install (cloneRepr cfg s hd).1 d (cloneRepr cfg s hd).2.1 hd.tainted .unit (cloneRepr cfg s hd).2.2
        else if hlen hd * n < U / 2 then
          if hlen hd * n ≤ cfg.icap then install s d (.inline (List.replicate n (view s hd)).flatten) false .unit []
          else
            install (newHeap s (List.replicate n (view s hd)).flatten (hlen hd * n)).1 d
              (newHeap s (List.replicate n (view s hd)).flatten (hlen hd * n)).2.1 false .unit
              (newHeap s (List.replicate n (view s hd)).flatten (hlen hd * n)).2.2
        else ok s .panic []
      else ok s .badOp []
    | none => ok s .badOp [] := rfl

theorem length_flatten_replicate (n : Nat) (v : List UInt8) : (List.replicate n v).flatten.length = v.length * n := by
  induction n with
  | zero => simp
  | succ k ih => rw [List.replicate_succ, List.flatten_cons, List.length_append, ih, Nat.mul_succ, Nat.add_comm]

theorem _root_.HipVerif.Core.wf_op_repeat (h d n : Nat) (w : Wf cfg s) : Wf cfg (step cfg s (.repeat h d n)).1 := by
  rw [step_repeat]
  cases hg : getH s h with
  | none => exact w
  | some hd =>
    have hok := w.handles h hd hg
    have hvl := view_length hok
    simp only; split
    · rename_i hf
      split
      · exact ((built_clone w hok).installed hf _ _ _).1
      · split
        · split
          · rename_i hi
            exact ((built_inline w _ (by rw [length_flatten_replicate, hvl]; exact hi)).installed hf _ _ _).1
          · exact ((built_newHeap w _ _ (by rw [length_flatten_replicate, hvl]; exact Nat.le_refl _)).installed hf _ _ _).1
        · exact w
    · exact w

theorem _root_.HipVerif.Core.ref_op_repeat (h d n : Nat) (w : Wf cfg s) (_ : OpOk s (.repeat h d n)) :
    Spec.Std.step cfg.icap s.srcs (abs s) (.repeat h d n) (retFlag (step cfg s (.repeat h d n)).2.ret) =
      (abs (step cfg s (.repeat h d n)).1, eraseRet (step cfg s (.repeat h d n)).2.ret) := by
  rw [step_repeat]
  simp only [Spec.Std.step, sfree_abs, sget_abs]
  cases hg : getH s h with
  | none => rfl
  | some hd =>
    have hok := w.handles h hd hg
    have hvl := view_length hok
    simp only [Option.map_some, hvl]
    split
    · rename_i hf
      split
      · rw [((built_clone w hok).installed hf _ _ _).2]; rfl
      · split
        · split
          · rename_i hi
            rw [((built_inline w _ (by rw [length_flatten_replicate, hvl]; exact hi)).installed hf _ _ _).2]; rfl
          · rw [((built_newHeap w _ _ (by rw [length_flatten_replicate, hvl]; exact Nat.le_refl _)).installed hf _ _ _).2]
            rfl
        · rfl
    · rfl

theorem _root_.HipVerif.Core.srcs_op_repeat (h d n : Nat) : (step cfg s (.repeat h d n)).1.srcs = s.srcs := by
  rw [step_repeat]
  cases getH s h with
  | none => rfl
  | some hd =>
    simp only; split
    · split
      · exact cloneRepr_srcs ..
      · split
        · split <;> rfl
        · rfl
    · rfl

theorem _root_.HipVerif.Core.norm_op_repeat (h d n : Nat) (w : Wf cfg s) (hn : NormOk cfg s) : NormOk cfg (step cfg s (.repeat h d n)).1 := by
  rw [step_repeat]
  cases hg : getH s h with
  | none => exact hn
  | some hd =>
    have hok := w.handles h hd hg
    have hvl := view_length hok
    simp only; split
    · split
      · exact normOk_install hn (cloneRepr_pool ..) _ _ _ _ _
          (fun ht => by rw [norm_clone hok]; exact hn h hd hg ht)
      · split
        · split
          · exact normOk_install hn rfl _ _ _ _ _ (fun _ => rfl)
          · rename_i hi
            exact normOk_install hn (s1 := (newHeap s (List.replicate n (view s hd)).flatten (hlen hd * n)).1) rfl d
              (newHeap s (List.replicate n (view s hd)).flatten (hlen hd * n)).2.1 false .unit
              (newHeap s (List.replicate n (view s hd)).flatten (hlen hd * n)).2.2
              (fun _ => norm_newHeap cfg s _ _ _ (by rw [length_flatten_replicate, hvl]; omega))
        · exact hn
    · exact hn

end HipVerif.Core.A
