/-
`Wf` is preserved by every operation of the Core state machine (`wf_step`), op by op.
Pattern: view the op as a sequence of primitives over `WfX` (take the handle(s) out of the
pool, transform, put the result(s) back), commuting pool updates with inner updates.
-/
import HipVerif.Lemmas.CorePrims

namespace HipVerif.Core

/-! ### pool updates commute with inner updates -/

theorem release_setH (cfg : Cfg) (s : State) (h : Nat) (v : Option Handle) (o : Nat) :
    release cfg (setH s h v) o = (setH (release cfg s o).1 h v, (release cfg s o).2) := by
  unfold release
  simp only [getI_setH]
  cases getI s o with
  | none => rfl
  | some x => simp only []; split <;> rfl

theorem incr_setH (cfg : Cfg) (s : State) (h : Nat) (v : Option Handle) (o : Nat) :
    incr cfg (setH s h v) o = (setH (incr cfg s o).1 h v, (incr cfg s o).2) := by
  unfold incr
  simp only [getI_setH]
  cases cfg.backend <;> cases getI s o <;> simp only [] <;> (try split) <;> rfl

theorem newHeap_setH (s : State) (h : Nat) (v : Option Handle) (data : List UInt8) (cap : Nat) :
    newHeap (setH s h v) data cap = (setH (newHeap s data cap).1 h v, (newHeap s data cap).2) := rfl

/-! ### `drop` -/

theorem wf_drop {cfg : Cfg} {s : State} (w : Wf cfg s) {h : Nat} {hd : Handle} (hg : getH s h = some hd) :
    Wf cfg (setH (dropRepr cfg s hd.repr).1 h none) := by
  rw [wf_iff_wfx] at *
  unfold dropRepr
  cases hr : hd.repr with
  | inline bs =>
    exact wfx_take_nonheap w hg (by unfold isHeap; rw [hr])
  | borrowed a b c =>
    exact wfx_take_nonheap w hg (by unfold isHeap; rw [hr])
  | heap o pb off len =>
    have ht := wfx_take_heap w hg hr
    have := wfx_release ht
    rw [release_setH] at this
    exact this

/-! ### installing a freshly built representation -/

theorem slotFree_iff {s : State} {d : Nat} :
    slotFree s d = true ↔ d < s.pool.length ∧ getH s d = none := by
  unfold slotFree
  cases h : getH s d <;> simp [h]

/-- what a handle needs for `install` after the state `s1` was produced with `ex` holding its owner -/
theorem wfx_install_heap {cfg : Cfg} {s1 : State} {o : Nat} (w : WfX cfg s1 [o])
    {d : Nat} (hfree : getH s1 d = none) (hl : d < s1.pool.length)
    {x : Inner} (hx : getI s1 o = some x) {b off len : Nat} (hb : b = x.buf)
    (hr : off + len ≤ x.data.length) (t : Bool) (ret : Ret) (ev : List Event) :
    Wf cfg (install s1 d (.heap o b off len) t ret ev).1 := by
  rw [wf_iff_wfx]
  exact wfx_put_heap w hfree hl hx hb hr t

theorem wfx_install_nonheap {cfg : Cfg} {s1 : State} (w : WfX cfg s1 [])
    {d : Nat} (hfree : getH s1 d = none) (hl : d < s1.pool.length)
    {r : Rep} (t : Bool) (hok : HandleOk cfg s1 { repr := r, tainted := t })
    (hnh : isHeap { repr := r, tainted := t } = false) (ret : Ret) (ev : List Event) :
    Wf cfg (install s1 d r t ret ev).1 := by
  rw [wf_iff_wfx]
  exact wfx_put_nonheap w hfree hl hok hnh

/-! ### `clone` -/

theorem incr_pool {cfg : Cfg} {s s1 : State} {o : Nat} {b : Bool} (h : incr cfg s o = (s1, b)) :
    s1.pool = s.pool := by
  cases b with
  | false => rw [incr_false h]
  | true => obtain ⟨_, x, _, _, rfl⟩ := incr_true h; rfl

theorem wf_clone {cfg : Cfg} {s : State} (w : Wf cfg s) {h d : Nat} {hd : Handle}
    (hg : getH s h = some hd) (hfree : slotFree s d = true) :
    Wf cfg (install (cloneRepr cfg s hd).1 d (cloneRepr cfg s hd).2.1 hd.tainted .unit
      (cloneRepr cfg s hd).2.2).1 := by
  obtain ⟨hl, hnone⟩ := slotFree_iff.mp hfree
  have wx := (wf_iff_wfx cfg s).mp w
  have hok := w.handles h hd hg
  unfold cloneRepr
  unfold HandleOk at hok
  cases hr : hd.repr with
  | inline bs =>
    rw [hr] at hok
    exact wfx_install_nonheap wx hnone hl _ (by simpa [HandleOk] using hok) rfl _ _
  | borrowed a b c =>
    rw [hr] at hok
    exact wfx_install_nonheap wx hnone hl _ (by simpa [HandleOk] using hok) rfl _ _
  | heap o pb off len =>
    rw [hr] at hok
    obtain ⟨x, hx, hlive, hb, hrng⟩ := hok
    simp only
    cases hi : incr cfg s o with
    | mk s1 done =>
      cases done with
      | true =>
        simp only [if_true]
        have w1 := wfx_incr wx (by intro y hy; rw [hx] at hy; cases hy; exact hlive) hi
        obtain ⟨_, x', hx', _, rfl⟩ := incr_true hi
        rw [hx] at hx'; cases hx'
        exact wfx_install_heap w1 (by simpa using hnone) (by simpa using hl)
          (getI_setI_same _ _ _ (getI_some_lt hx)) hb hrng _ _ _
      | false =>
        simp only [Bool.false_eq_true, if_false]
        obtain ⟨w2, hrep, hnew, _, hpool, _, _⟩ :=
          wfx_newHeap wx (view s hd) (view s hd).length (Nat.le_refl _)
        rw [hrep]
        exact wfx_install_heap w2 (by simpa [getH, hpool] using hnone) (by simpa [hpool] using hl)
          hnew rfl (by simp) _ _ _

end HipVerif.Core
