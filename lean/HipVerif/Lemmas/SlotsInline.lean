/-
Ownership-invariant preservation for the InlineVec operations of the L0 model (part 1: the
operations without slot shifting).
-/
import HipVerif.Lemmas.Slots
namespace HipVerif.Slots

variable {fl : Bool}

theorem mkVals_own {loc locB} : ∀ (n : Nat) (s : St), OwnL fl s loc locB →
    (mkVals n s).1.length = n ∧ (mkVals n s).2.v = s.v ∧
      OwnL fl (mkVals n s).2 ((mkVals n s).1 ++ loc) locB
  | 0, _, h => ⟨rfl, rfl, h⟩
  | n + 1, s, h => by
    have h1 := h.mkVal
    obtain ⟨hl, hv, ho⟩ := mkVals_own (loc := (s.onMem Mem.mkVal).1 :: loc) n _ h1
    simp only [mkVals]
    refine ⟨by simp [hl], by simp [hv], ?_⟩
    obtain ⟨L, rest, e1, e2, e3, e4⟩ := ho
    exact ⟨L, rest, e1, e2, e3, e4.perm (by perm_tac)⟩

theorem iTryPush_own {s loc locB} (h : OwnL fl s loc locB) : OwnL fl (iTryPush s).2 loc locB := by
  unfold iTryPush
  have h1 := h.mkVal
  generalize s.onMem Mem.mkVal = r at h1
  obtain ⟨x, s1⟩ := r
  simp only at h1 ⊢
  split
  · exact h1.store (by assumption)
  · exact h1.retId

theorem iPush_own {s loc locB} (h : OwnL fl s loc locB) : OwnL fl (iPush s).2 loc locB := by
  unfold iPush
  have h1 := h.mkVal
  generalize s.onMem Mem.mkVal = r at h1
  obtain ⟨x, s1⟩ := r
  simp only at h1 ⊢
  split
  · exact h1.store (by assumption)
  · exact h1.dropId

theorem take_one_drop {α} (l : List α) (i : Nat) (h : i < l.length) :
    (l.drop i).take 1 = [l[i]] := by
  rw [List.drop_eq_getElem_cons h]; rfl

/-- the last element is taken out of the container: `read(len-1); set_len(len-1)` -/
theorem OwnL.take_last {s loc locB} (h : OwnL fl s loc locB) (hpos : s.v.len ≠ 0) :
    ∃ a, s.v.get (s.v.len - 1) = .init a ∧ OwnL fl (s.setLen (s.v.len - 1)) (a :: loc) locB := by
  obtain ⟨tl, h1, h2, h3⟩ := h.setLen_take (n := s.v.len - 1) (by omega)
  have hlen : tl.length = 1 := by omega
  match tl, hlen with
  | [a], _ =>
    refine ⟨a, ?_, h3⟩
    have : s.v.range (s.v.len - 1) s.v.len = [s.v.get (s.v.len - 1)] := by
      obtain ⟨L, rest, e1, e2, -, -⟩ := h
      have hl : s.v.len - 1 < (L.map Slot.init ++ rest).length := by simp; omega
      simp only [Vec.range, Vec.get, e2]
      rw [show s.v.len - (s.v.len - 1) = 1 by omega, take_one_drop _ _ hl,
        List.getElem?_eq_getElem hl]
      rfl
    rw [this] at h1
    simpa using h1

theorem iPop_own {s loc locB} (h : OwnL fl s loc locB) : OwnL fl (iPop s).2 loc locB := by
  unfold iPop
  split
  · exact h
  · obtain ⟨a, h1, h2⟩ := h.take_last (by assumption)
    simp only [St.onMem_eq, h1, Mem.readMove]
    exact OwnL.retId h2

theorem iTruncate_own {s loc locB} (n : Nat) (h : OwnL fl s loc locB) :
    OwnL fl (iTruncate n s).2 loc locB := by
  unfold iTruncate
  split
  · obtain ⟨tl, h1, _, h3⟩ := h.setLen_take (n := n) (by omega)
    simp only
    have : (s.setLen n).v.range n s.v.len = tl.map .init := h1
    rw [this]
    exact h3.dropLoop
  · exact h

theorem iFillGen_own {loc locB} : ∀ (k : Nat) (s : St), OwnL fl s loc locB →
    s.v.len + k ≤ s.v.cap → OwnL fl (iFillGen k s).2 loc locB
  | 0, _, h, _ => h
  | k + 1, s, h, hc => by
    unfold iFillGen
    have h1 := h.genVal
    rcases hr : s.onMem Mem.genVal with ⟨_ | b, s'⟩ <;> rw [hr] at h1 <;> simp only at h1 ⊢
    · exact h1.1
    · have hc' : s'.v.len < s'.v.cap := by rw [h1.2]; omega
      exact iFillGen_own k _ (h1.1.store hc') (by simp [h1.2]; omega)

theorem iResizeWith_own {s loc locB} (n : Nat) (h : OwnL fl s loc locB) :
    OwnL fl (iResizeWith n s).2 loc locB := by
  unfold iResizeWith
  split
  · split
    · exact iFillGen_own _ _ h (by omega)
    · exact h
  · exact iTruncate_own n h

theorem iFillClone_own {loc locB} (x : Nat) : ∀ (k : Nat) (s : St), OwnL fl s loc locB →
    s.v.len + k ≤ s.v.cap → OwnL fl (iFillClone x k s).2 loc locB
  | 0, _, h, _ => h
  | k + 1, s, h, hc => by
    unfold iFillClone
    have h1 := h.cloneId x
    rcases hr : s.onMem (Mem.cloneId x) with ⟨_ | b, s'⟩ <;> rw [hr] at h1 <;> simp only at h1 ⊢
    · exact h1.1
    · have hc' : s'.v.len < s'.v.cap := by rw [h1.2]; omega
      have h2 := h1.1.store hc'
      exact iFillClone_own x k _ h2 (by simp [h1.2]; omega)

theorem iResize_own {s loc locB} (n : Nat) (h : OwnL fl s loc locB) :
    OwnL fl (iResize n s).2 loc locB := by
  unfold iResize
  have h1 := h.mkVal
  generalize s.onMem Mem.mkVal = r at h1
  obtain ⟨x, s1⟩ := r
  simp only at h1 ⊢
  split
  · split
    · exact (iFillClone_own _ _ _ h1 (by omega)).dropId
    · exact h1.dropId
  · exact (iTruncate_own n h1).dropId

theorem iExtSlice_own {s loc locB} (n : Nat) (h : OwnL fl s loc locB) :
    OwnL fl (iExtSlice n s).2 loc locB := by
  unfold iExtSlice
  obtain ⟨hl, hv, ho⟩ := mkVals_own n s h
  generalize mkVals n s = r at hl hv ho
  obtain ⟨srcs, s1⟩ := r
  simp only at hl hv ho ⊢
  split
  · exact OwnL.markDrops (iCloneIds_own srcs s1 ho (by omega))
  · exact OwnL.markDrops ho

theorem iCloneSlots_own {loc locB} : ∀ (M : List Nat) (s : St), OwnL fl s loc locB →
    s.v.len + M.length ≤ s.v.cap → (∀ a ∈ M, a ∉ s.mem.out) →
    OwnL fl (iCloneSlots (M.map .init) s).2 loc locB
  | [], _, h, _, _ => h
  | a :: as, s, h, hc, hm => by
    simp only [List.map_cons, iCloneSlots]
    have h1 := h.cloneSlot (x := .init a) rfl (hm a (List.mem_cons_self ..))
    rcases hr : s.onMem (Mem.cloneSlot (.init a)) with ⟨_ | b, s'⟩ <;> rw [hr] at h1 <;>
      simp only at h1 ⊢
    · exact h1.1
    · have hc' : s'.v.len < s'.v.cap := by rw [h1.2.1]; simp at hc; omega
      refine iCloneSlots_own as _ (h1.1.store hc') (by simp [h1.2.1] at hc ⊢; omega) ?_
      intro c hcm
      have : (s'.store b).mem = s'.mem := by rw [St.store_eq hc']
      rw [this, h1.2.2]
      exact hm c (List.mem_cons_of_mem _ hcm)

/-- the slots `[a, b)` below `len` hold live ids -/
theorem OwnL.range_live {s loc locB} (h : OwnL fl s loc locB) {a b : Nat} (hab : a ≤ b)
    (hb : b ≤ s.v.len) :
    ∃ M : List Nat, s.v.range a b = M.map .init ∧ M.length = b - a ∧ ∀ x ∈ M, x ∉ s.mem.out := by
  obtain ⟨L, rest, hl, hs, -, ha⟩ := h
  refine ⟨(L.drop a).take (b - a), ?_, by simp; omega, ?_⟩
  · simp only [Vec.range, hs, List.map_take, List.map_drop]
    rw [List.drop_append, List.take_append]
    simp
    omega
  · intro x hx
    apply ha.notout
    have := List.mem_of_mem_drop (List.mem_of_mem_take hx)
    simp [this]

theorem iExtWithin_own {s loc locB} (a b : Nat) (h : OwnL fl s loc locB) :
    OwnL fl (iExtWithin a b s).2 loc locB := by
  unfold iExtWithin
  split
  · split
    · rename_i h1 h2
      obtain ⟨M, e1, e2, e3⟩ := h.range_live h1.1 h1.2
      rw [e1]
      exact iCloneSlots_own M s h (by omega) e3
    · exact h
  · exact h

theorem iExtIter_own {loc locB} : ∀ (k : Nat) (s : St), OwnL fl s loc locB →
    OwnL fl (iExtIter k s).2 loc locB
  | 0, _, h => h.tick
  | k + 1, s, h => by
    unfold iExtIter
    have h1 := h.genVal
    rcases hr : s.onMem Mem.genVal with ⟨_ | b, s'⟩ <;> rw [hr] at h1 <;> simp only at h1 ⊢
    · exact h1.1
    · split
      · exact iExtIter_own k _ (h1.1.store (by assumption))
      · exact h1.1.dropId

/-- `pop_if`: the predicate is a fault point before anything is moved -/
theorem iPopIf_own {s loc locB} (ans : Bool) (h : OwnL fl s loc locB) :
    OwnL fl (iPopIf ans s).2 loc locB := by
  unfold iPopIf
  split
  · exact h
  · have h1 := h.tick
    generalize s.onMem Mem.tick = r at h1
    obtain ⟨p, s1⟩ := r
    simp only at h1 ⊢
    split
    · exact h1
    · split
      · exact iPop_own h1
      · exact h1

/-- `extend` with its `into_iter` call and the drop of the iterator as fault points -/
theorem iExtend_own {s loc locB} (k : Nat) (h : OwnL fl s loc locB) :
    OwnL fl (iExtend k s).2 loc locB := by
  unfold iExtend
  have h1 := h.tick
  generalize s.onMem Mem.tick = r at h1
  obtain ⟨p, s1⟩ := r
  simp only at h1 ⊢
  split
  · exact h1
  · exact (iExtIter_own k s1 h1).tick

end HipVerif.Slots
