/-
Per-operation theorems for the slice family of the Core state machine (`slice`, `trySlice`,
`trySliceRef`, `sliceRef`, `adopt`): `wf_op_*`, `ref_op_*`, `srcs_op_*`, `norm_op_*`.
The correspondence between the GENERATED range functions and std indexing is C08's.
-/
import HipVerif.Lemmas.CoreOpsA

namespace HipVerif.Core.A
open HipVerif.Spec.Std HipVerif.RangeTy HipVerif.Spec.Range

variable {cfg : Cfg} {s : State}

/-! ### the common tail: `range_unchecked`, the debug assertion, `install` -/

/-- what `slice`, `try_slice`, `slice_ref`, `try_slice_ref` and the inherited `str` methods do once
the range `a..b` is known -/
def rangeInstall (cfg : Cfg) (s : State) (hd : Handle) (d a b : Nat) (ret : Ret) : State × Out :=
  let (s1, r, ev) := rangeRepr cfg s hd a b
  if dbgFails cfg (isNormalized cfg { repr := r, tainted := hd.tainted }) then ok s .panic []
  else install s1 d r hd.tainted ret ev

theorem rangeInstall_def (hd : Handle) (d a b : Nat) (ret : Ret) :
    rangeInstall cfg s hd d a b ret =
      if dbgFails cfg (isNormalized cfg ⟨(rangeRepr cfg s hd a b).2.1, hd.tainted⟩) then ok s .panic []
      else install (rangeRepr cfg s hd a b).1 d (rangeRepr cfg s hd a b).2.1 hd.tainted ret
        (rangeRepr cfg s hd a b).2.2 := rfl

/-- the debug assertion never fires on a valid handle and a range inside it -/
theorem rangeInstall_eq {hd : Handle} (hok : HandleOk cfg s hd) (d : Nat) {a b : Nat} (hb : b ≤ hlen hd) (ret : Ret) :
    rangeInstall cfg s hd d a b ret =
      install (rangeRepr cfg s hd a b).1 d (rangeRepr cfg s hd a b).2.1 hd.tainted ret (rangeRepr cfg s hd a b).2.2 := by
  rw [rangeInstall_def, norm_range hok hb]
  simp only [dbgFails, Bool.not_true, Bool.and_false, Bool.false_eq_true, if_false]

theorem rangeInstall_wf_abs (w : Wf cfg s) {h : Nat} {hd : Handle} (hg : getH s h = some hd) {d : Nat}
    (hf : slotFree s d = true) {a b : Nat} (hab : a ≤ b) (hb : b ≤ hlen hd) (ret : Ret) :
    Wf cfg (rangeInstall cfg s hd d a b ret).1 ∧
      abs (rangeInstall cfg s hd d a b ret).1 = (abs s).set d (some (((view s hd).drop a).take (b - a))) ∧
      (rangeInstall cfg s hd d a b ret).2.ret = ret := by
  have hok := w.handles h hd hg
  rw [rangeInstall_eq hok d hb]
  have := (built_range w hok hab hb).installed hf hd.tainted ret (rangeRepr cfg s hd a b).2.2
  exact ⟨this.1, this.2, rfl⟩

theorem rangeInstall_srcs (hd : Handle) (d a b : Nat) (ret : Ret) :
    (rangeInstall cfg s hd d a b ret).1.srcs = s.srcs := by
  rw [rangeInstall_def]
  split
  · rfl
  · exact rangeRepr_srcs ..

theorem rangeInstall_norm (w : Wf cfg s) (hn : NormOk cfg s) {h : Nat} {hd : Handle} (hg : getH s h = some hd) (d : Nat)
    {a b : Nat} (hb : b ≤ hlen hd) (ret : Ret) : NormOk cfg (rangeInstall cfg s hd d a b ret).1 := by
  have hok := w.handles h hd hg
  rw [rangeInstall_eq hok d hb]
  exact normOk_install hn (rangeRepr_pool ..) _ _ _ _ _ (fun _ => norm_range hok hb _)

/-! ### `slice` -/

theorem step_slice (h d : Nat) (sb eb : Bound) : step cfg s (.slice h d sb eb) =
    match getH s h with
    | some hd =>
      if slotFree s d then
        match Gen.Ranges.simplifyRangeMono sb eb (hlen hd) with
        | .ok (a, b) => rangeInstall cfg s hd d a b .unit
        | _ => ok s .panic []
      else ok s .badOp []
    | none => ok s .badOp [] := rfl

theorem _root_.HipVerif.Core.wf_op_slice (h d : Nat) (sb eb : Bound) (w : Wf cfg s) : Wf cfg (step cfg s (.slice h d sb eb)).1 := by
  rw [step_slice]
  cases hg : getH s h with
  | none => exact w
  | some hd =>
    simp only
    split
    · rename_i hf
      split
      · rename_i a b hsim
        obtain ⟨hab, hb⟩ := simplify_ok_bounds _ _ _ _ _ hsim
        exact (rangeInstall_wf_abs w hg hf hab hb _).1
      · exact w
    · exact w

theorem _root_.HipVerif.Core.ref_op_slice (h d : Nat) (sb eb : Bound) (w : Wf cfg s) (hop : OpOk s (.slice h d sb eb)) :
    Spec.Std.step cfg.icap s.srcs (abs s) (.slice h d sb eb) (retFlag (step cfg s (.slice h d sb eb)).2.ret) =
      (abs (step cfg s (.slice h d sb eb)).1, eraseRet (step cfg s (.slice h d sb eb)).2.ret) := by
  rw [step_slice]
  simp only [Spec.Std.step, sfree_abs, sget_abs]
  cases hg : getH s h with
  | none => rfl
  | some hd =>
    obtain ⟨hfs, hfe, hlen'⟩ := hop
    have hle := hlen' hd hg
    simp only [Option.map_some, view_length (w.handles h hd hg)]
    split
    · rename_i hf
      cases hsim : Gen.Ranges.simplifyRangeMono sb eb (hlen hd) with
      | ok p =>
        obtain ⟨a, b⟩ := p
        obtain ⟨hab, hb⟩ := simplify_ok_bounds _ _ _ _ _ hsim
        rw [(Props.C08.simplify_iff sb eb _ a b hfs hfe hle).mp hsim]
        obtain ⟨_, h2, h3⟩ := rangeInstall_wf_abs w hg hf hab hb .unit
        simp only [h2, h3]
        rfl
      | err x =>
        have : stdGet sb eb (hlen hd) = none := by
          cases hst : stdGet sb eb (hlen hd) with
          | none => rfl
          | some p =>
            have := (Props.C08.simplify_iff sb eb _ p.1 p.2 hfs hfe hle).mpr hst
            rw [hsim] at this; cases this
        rw [this]; rfl
      | overflow => exact absurd hsim (Props.C08.simplify_total sb eb _).1
      | ub => exact absurd hsim (Props.C08.simplify_total sb eb _).2
    · rfl

theorem _root_.HipVerif.Core.srcs_op_slice (h d : Nat) (sb eb : Bound) : (step cfg s (.slice h d sb eb)).1.srcs = s.srcs := by
  rw [step_slice]
  cases getH s h with
  | none => rfl
  | some hd =>
    simp only; split
    · split
      · exact rangeInstall_srcs ..
      · rfl
    · rfl

theorem _root_.HipVerif.Core.norm_op_slice (h d : Nat) (sb eb : Bound) (w : Wf cfg s) (hn : NormOk cfg s) :
    NormOk cfg (step cfg s (.slice h d sb eb)).1 := by
  rw [step_slice]
  cases hg : getH s h with
  | none => exact hn
  | some hd =>
    simp only; split
    · split
      · rename_i a b hsim
        exact rangeInstall_norm w hn hg d (simplify_ok_bounds _ _ _ _ _ hsim).2 _
      · exact hn
    · exact hn

/-! ### `trySlice` -/

theorem step_trySlice (h d : Nat) (sb eb : Bound) : step cfg s (.trySlice h d sb eb) =
    match getH s h with
    | some hd =>
      if slotFree s d then
        match Gen.Ranges.simplifyRangeMono sb eb (hlen hd) with
        | .ok (a, b) => rangeInstall cfg s hd d a b (.bool true)
        | .err (a, b, k) => ok s (.sliceErr a b k) []
        | _ => ok s .panic []
      else ok s .badOp []
    | none => ok s .badOp [] := rfl

theorem _root_.HipVerif.Core.wf_op_trySlice (h d : Nat) (sb eb : Bound) (w : Wf cfg s) : Wf cfg (step cfg s (.trySlice h d sb eb)).1 := by
  rw [step_trySlice]
  cases hg : getH s h with
  | none => exact w
  | some hd =>
    simp only
    split
    · rename_i hf
      split
      · rename_i a b hsim
        obtain ⟨hab, hb⟩ := simplify_ok_bounds _ _ _ _ _ hsim
        exact (rangeInstall_wf_abs w hg hf hab hb _).1
      · exact w
      · exact w
    · exact w

/-- the error value of a rejected `try_slice` is the one the specification names -/
theorem sliceErrOf_eq (sb eb : Bound) (len a b : Nat) (k : SliceErrorKind)
    (hs : Bound.fits sb) (he : Bound.fits eb) (hlen : len ≤ isizeMax)
    (h : Gen.Ranges.simplifyRangeMono sb eb len = .err (a, b, k)) : sliceErrOf sb eb len = .sliceErr a b k := by
  obtain ⟨ha, hb, h1, h2, h3⟩ := Props.C08.simplify_err_names sb eb len a b k hs he hlen h
  unfold sliceErrOf
  simp only [← ha, ← hb]
  cases k with
  | startOutOfBounds => have := h1.mp rfl; simp [this]
  | endOutOfBounds =>
    have := h2.mp rfl
    have h' : ¬ a > len := by omega
    simp [h', this.2]
  | startGreaterThanEnd =>
    have := h3.mp rfl
    have h' : ¬ a > len := by omega
    have h'' : ¬ b > len := by omega
    simp [h', h'']

theorem _root_.HipVerif.Core.ref_op_trySlice (h d : Nat) (sb eb : Bound) (w : Wf cfg s) (hop : OpOk s (.trySlice h d sb eb)) :
    Spec.Std.step cfg.icap s.srcs (abs s) (.trySlice h d sb eb) (retFlag (step cfg s (.trySlice h d sb eb)).2.ret) =
      (abs (step cfg s (.trySlice h d sb eb)).1, eraseRet (step cfg s (.trySlice h d sb eb)).2.ret) := by
  rw [step_trySlice]
  simp only [Spec.Std.step, sfree_abs, sget_abs]
  cases hg : getH s h with
  | none => rfl
  | some hd =>
    obtain ⟨hfs, hfe, hlen'⟩ := hop
    have hle := hlen' hd hg
    simp only [Option.map_some, view_length (w.handles h hd hg)]
    split
    · rename_i hf
      cases hsim : Gen.Ranges.simplifyRangeMono sb eb (hlen hd) with
      | ok p =>
        obtain ⟨a, b⟩ := p
        obtain ⟨hab, hb⟩ := simplify_ok_bounds _ _ _ _ _ hsim
        rw [(Props.C08.simplify_iff sb eb _ a b hfs hfe hle).mp hsim]
        obtain ⟨_, h2, h3⟩ := rangeInstall_wf_abs w hg hf hab hb (.bool true)
        simp only [h2, h3]
        rfl
      | err x =>
        obtain ⟨a, b, k⟩ := x
        have : stdGet sb eb (hlen hd) = none := by
          cases hst : stdGet sb eb (hlen hd) with
          | none => rfl
          | some p =>
            have := (Props.C08.simplify_iff sb eb _ p.1 p.2 hfs hfe hle).mpr hst
            rw [hsim] at this; cases this
        rw [this]
        simp only [ok_fst, ok_ret, sliceErrOf_eq sb eb _ a b k hfs hfe hle hsim]
        rfl
      | overflow => exact absurd hsim (Props.C08.simplify_total sb eb _).1
      | ub => exact absurd hsim (Props.C08.simplify_total sb eb _).2
    · rfl

theorem _root_.HipVerif.Core.srcs_op_trySlice (h d : Nat) (sb eb : Bound) : (step cfg s (.trySlice h d sb eb)).1.srcs = s.srcs := by
  rw [step_trySlice]
  cases getH s h with
  | none => rfl
  | some hd =>
    simp only; split
    · split
      · exact rangeInstall_srcs ..
      · rfl
      · rfl
    · rfl

theorem _root_.HipVerif.Core.norm_op_trySlice (h d : Nat) (sb eb : Bound) (w : Wf cfg s) (hn : NormOk cfg s) :
    NormOk cfg (step cfg s (.trySlice h d sb eb)).1 := by
  rw [step_trySlice]
  cases hg : getH s h with
  | none => exact hn
  | some hd =>
    simp only; split
    · split
      · rename_i a b hsim
        exact rangeInstall_norm w hn hg d (simplify_ok_bounds _ _ _ _ _ hsim).2 _
      · exact hn
      · exact hn
    · exact hn

/-! ### `trySliceRef`, `sliceRef` -/

/-- `try_range_of` on the rebased addresses: the probe lies inside the value iff it does not start
before it and ends within it; the range is then `rel .. rel + plen` -/
theorem tryRangeOf_probe (relNeg : Bool) (rel plen len : Nat) (hp : plen ≤ isizeMax) (h2 : 2 * rel + 1 + plen < U)
    (hl : len ≤ isizeMax) (h3 : rel + 1 + len < U) :
    Gen.Ranges.tryRangeOf ⟨rel + 1, len⟩ ⟨if relNeg then rel + 1 - rel else rel + 1 + rel, plen⟩ =
      if (!relNeg || rel == 0) && decide (rel + plen ≤ len) then .ok (some (rel, rel + plen)) else .ok none := by
  have hq : (if relNeg then rel + 1 - rel else rel + 1 + rel) + plen < U := by split <;> omega
  have hiff := fun o e => Props.C08.range_of_iff ⟨rel + 1, len⟩ ⟨if relNeg then rel + 1 - rel else rel + 1 + rel, plen⟩ o e
    h3 hq hl hp
  obtain ⟨r, hr⟩ := Props.C08.range_of_total ⟨rel + 1, len⟩ ⟨if relNeg then rel + 1 - rel else rel + 1 + rel, plen⟩
    h3 hq hl hp
  by_cases hc : ((!relNeg || rel == 0) && decide (rel + plen ≤ len)) = true
  · rw [if_pos hc]
    apply (hiff _ _).mpr
    simp only [Bool.and_eq_true, Bool.or_eq_true, Bool.not_eq_true', beq_iff_eq, decide_eq_true_eq] at hc
    cases relNeg <;> simp at hc ⊢ <;> omega
  · rw [if_neg hc, hr]
    cases r with
    | none => rfl
    | some p =>
      exfalso; apply hc
      have := (hiff p.1 p.2).mp hr
      simp only [Bool.and_eq_true, Bool.or_eq_true, Bool.not_eq_true', beq_iff_eq, decide_eq_true_eq]
      cases relNeg <;> simp at this ⊢ <;> omega

theorem step_trySliceRef (h d : Nat) (relNeg : Bool) (rel plen : Nat) : step cfg s (.trySliceRef h d relNeg rel plen) =
    match getH s h with
    | some hd =>
      if slotFree s d then
        match Gen.Ranges.tryRangeOf ⟨rel + 1, hlen hd⟩ ⟨if relNeg then rel + 1 - rel else rel + 1 + rel, plen⟩ with
        | .ok (some (a, b)) => rangeInstall cfg s hd d a b (.bool true)
        | .ok none => ok s (.bool false) []
        | _ => ok s .panic []
      else ok s .badOp []
    | none => ok s .badOp [] := rfl

theorem _root_.HipVerif.Core.wf_op_trySliceRef (h d : Nat) (relNeg : Bool) (rel plen : Nat) (w : Wf cfg s) :
    Wf cfg (step cfg s (.trySliceRef h d relNeg rel plen)).1 := by
  rw [step_trySliceRef]
  cases hg : getH s h with
  | none => exact w
  | some hd =>
    simp only
    split
    · rename_i hf
      split
      · rename_i a b hsim
        obtain ⟨hab, hb⟩ := range_of_ok_bounds _ _ _ _ hsim
        exact (rangeInstall_wf_abs w hg hf hab hb _).1
      · exact w
      · exact w
    · exact w

theorem _root_.HipVerif.Core.ref_op_trySliceRef (h d : Nat) (relNeg : Bool) (rel plen : Nat) (w : Wf cfg s)
    (hop : OpOk s (.trySliceRef h d relNeg rel plen)) :
    Spec.Std.step cfg.icap s.srcs (abs s) (.trySliceRef h d relNeg rel plen)
        (retFlag (step cfg s (.trySliceRef h d relNeg rel plen)).2.ret) =
      (abs (step cfg s (.trySliceRef h d relNeg rel plen)).1,
        eraseRet (step cfg s (.trySliceRef h d relNeg rel plen)).2.ret) := by
  rw [step_trySliceRef]
  simp only [Spec.Std.step, sfree_abs, sget_abs]
  cases hg : getH s h with
  | none => rfl
  | some hd =>
    obtain ⟨hp, h2, hh⟩ := hop
    obtain ⟨hl, h3⟩ := hh hd hg
    simp only [Option.map_some, view_length (w.handles h hd hg)]
    split
    · rename_i hf
      rw [tryRangeOf_probe relNeg rel plen (hlen hd) hp h2 hl h3]
      split
      · rename_i hc
        simp only [Bool.and_eq_true, decide_eq_true_eq] at hc
        obtain ⟨_, a2, a3⟩ := rangeInstall_wf_abs w hg hf (Nat.le_add_right rel plen) hc.2 (.bool true)
        simp only [a2, a3, Nat.add_sub_cancel_left]
        rfl
      · rfl
    · rfl

theorem _root_.HipVerif.Core.srcs_op_trySliceRef (h d : Nat) (relNeg : Bool) (rel plen : Nat) :
    (step cfg s (.trySliceRef h d relNeg rel plen)).1.srcs = s.srcs := by
  rw [step_trySliceRef]
  cases getH s h with
  | none => rfl
  | some hd =>
    simp only; split
    · split
      · exact rangeInstall_srcs ..
      · rfl
      · rfl
    · rfl

theorem _root_.HipVerif.Core.norm_op_trySliceRef (h d : Nat) (relNeg : Bool) (rel plen : Nat) (w : Wf cfg s) (hn : NormOk cfg s) :
    NormOk cfg (step cfg s (.trySliceRef h d relNeg rel plen)).1 := by
  rw [step_trySliceRef]
  cases hg : getH s h with
  | none => exact hn
  | some hd =>
    simp only; split
    · split
      · rename_i a b hsim
        exact rangeInstall_norm w hn hg d (range_of_ok_bounds _ _ _ _ hsim).2 _
      · exact hn
      · exact hn
    · exact hn

theorem step_sliceRef (h d : Nat) (relNeg : Bool) (rel plen : Nat) : step cfg s (.sliceRef h d relNeg rel plen) =
    match getH s h with
    | some hd =>
      if slotFree s d then
        match Gen.Ranges.tryRangeOf ⟨rel + 1, hlen hd⟩ ⟨if relNeg then rel + 1 - rel else rel + 1 + rel, plen⟩ with
        | .ok (some (a, b)) => rangeInstall cfg s hd d a b .unit
        | _ => ok s .panic []
      else ok s .badOp []
    | none => ok s .badOp [] := rfl

theorem _root_.HipVerif.Core.wf_op_sliceRef (h d : Nat) (relNeg : Bool) (rel plen : Nat) (w : Wf cfg s) :
    Wf cfg (step cfg s (.sliceRef h d relNeg rel plen)).1 := by
  rw [step_sliceRef]
  cases hg : getH s h with
  | none => exact w
  | some hd =>
    simp only
    split
    · rename_i hf
      split
      · rename_i a b hsim
        obtain ⟨hab, hb⟩ := range_of_ok_bounds _ _ _ _ hsim
        exact (rangeInstall_wf_abs w hg hf hab hb _).1
      · exact w
    · exact w

theorem _root_.HipVerif.Core.ref_op_sliceRef (h d : Nat) (relNeg : Bool) (rel plen : Nat) (w : Wf cfg s)
    (hop : OpOk s (.sliceRef h d relNeg rel plen)) :
    Spec.Std.step cfg.icap s.srcs (abs s) (.sliceRef h d relNeg rel plen)
        (retFlag (step cfg s (.sliceRef h d relNeg rel plen)).2.ret) =
      (abs (step cfg s (.sliceRef h d relNeg rel plen)).1,
        eraseRet (step cfg s (.sliceRef h d relNeg rel plen)).2.ret) := by
  rw [step_sliceRef]
  simp only [Spec.Std.step, sfree_abs, sget_abs]
  cases hg : getH s h with
  | none => rfl
  | some hd =>
    obtain ⟨hp, h2, hh⟩ := hop
    obtain ⟨hl, h3⟩ := hh hd hg
    simp only [Option.map_some, view_length (w.handles h hd hg)]
    split
    · rename_i hf
      rw [tryRangeOf_probe relNeg rel plen (hlen hd) hp h2 hl h3]
      split
      · rename_i hc
        simp only [Bool.and_eq_true, decide_eq_true_eq] at hc
        obtain ⟨_, a2, a3⟩ := rangeInstall_wf_abs w hg hf (Nat.le_add_right rel plen) hc.2 .unit
        simp only [a2, a3, Nat.add_sub_cancel_left]
        rfl
      · rfl
    · rfl

theorem _root_.HipVerif.Core.srcs_op_sliceRef (h d : Nat) (relNeg : Bool) (rel plen : Nat) :
    (step cfg s (.sliceRef h d relNeg rel plen)).1.srcs = s.srcs := by
  rw [step_sliceRef]
  cases getH s h with
  | none => rfl
  | some hd =>
    simp only; split
    · split
      · exact rangeInstall_srcs ..
      · rfl
    · rfl

theorem _root_.HipVerif.Core.norm_op_sliceRef (h d : Nat) (relNeg : Bool) (rel plen : Nat) (w : Wf cfg s) (hn : NormOk cfg s) :
    NormOk cfg (step cfg s (.sliceRef h d relNeg rel plen)).1 := by
  rw [step_sliceRef]
  cases hg : getH s h with
  | none => exact hn
  | some hd =>
    simp only; split
    · split
      · rename_i a b hsim
        exact rangeInstall_norm w hn hg d (range_of_ok_bounds _ _ _ _ hsim).2 _
      · exact hn
    · exact hn

/-! ### `adopt` -/

theorem step_adopt (h d off len : Nat) : step cfg s (.adopt h d off len) =
    match getH s h with
    | some hd =>
      if slotFree s d && decide (off + len ≤ hlen hd) then rangeInstall cfg s hd d off (off + len) .unit
      else ok s .badOp []
    | none => ok s .badOp [] := rfl

theorem _root_.HipVerif.Core.wf_op_adopt (h d off len : Nat) (w : Wf cfg s) : Wf cfg (step cfg s (.adopt h d off len)).1 := by
  rw [step_adopt]
  cases hg : getH s h with
  | none => exact w
  | some hd =>
    simp only
    split
    · rename_i hf
      simp only [Bool.and_eq_true, decide_eq_true_eq] at hf
      exact (rangeInstall_wf_abs w hg hf.1 (Nat.le_add_right off len) hf.2 _).1
    · exact w

theorem _root_.HipVerif.Core.ref_op_adopt (h d off len : Nat) (w : Wf cfg s) (_ : OpOk s (.adopt h d off len)) :
    Spec.Std.step cfg.icap s.srcs (abs s) (.adopt h d off len) (retFlag (step cfg s (.adopt h d off len)).2.ret) =
      (abs (step cfg s (.adopt h d off len)).1, eraseRet (step cfg s (.adopt h d off len)).2.ret) := by
  rw [step_adopt]
  simp only [Spec.Std.step, sfree_abs, sget_abs]
  cases hg : getH s h with
  | none => rfl
  | some hd =>
    simp only [Option.map_some, view_length (w.handles h hd hg)]
    split
    · rename_i hf
      simp only [Bool.and_eq_true, decide_eq_true_eq] at hf
      obtain ⟨_, a2, a3⟩ := rangeInstall_wf_abs w hg hf.1 (Nat.le_add_right off len) hf.2 .unit
      simp only [a2, a3, Nat.add_sub_cancel_left]
      rfl
    · rfl

theorem _root_.HipVerif.Core.srcs_op_adopt (h d off len : Nat) : (step cfg s (.adopt h d off len)).1.srcs = s.srcs := by
  rw [step_adopt]
  cases getH s h with
  | none => rfl
  | some hd =>
    simp only; split
    · exact rangeInstall_srcs ..
    · rfl

theorem _root_.HipVerif.Core.norm_op_adopt (h d off len : Nat) (w : Wf cfg s) (hn : NormOk cfg s) :
    NormOk cfg (step cfg s (.adopt h d off len)).1 := by
  rw [step_adopt]
  cases hg : getH s h with
  | none => exact hn
  | some hd =>
    simp only; split
    · rename_i hf
      simp only [Bool.and_eq_true, decide_eq_true_eq] at hf
      exact rangeInstall_norm w hn hg d hf.2 _
    · exact hn

end HipVerif.Core.A
