/-
More primitive lemmas over `WfX`, for the operations that modify an owner in place
(in-place push, `writeView`, `spareCapacity`), steal its Vec (`takeVec`, `intoVec`, `toVec`) or
replace the value of a handle (`truncate`, `shrink_to`, `make_unique`, the `mutate` guard).

The central fact is `ownerUnique_sole` (property C02): when `Kind::is_unique` answers `true` for
the owner of a pool handle, that handle is the ONLY reference to the owner.

Naming: a few generic helpers carry a `_b` suffix (`dropRepr_srcs_b`, `normOk_setH_b`, …) so that
they cannot become ambiguous with the same-named lemmas of `HipVerif.Core.A` (CorePrimsA.lean)
when that namespace is opened.
-/
import HipVerif.Lemmas.CoreRefOps

namespace HipVerif.Core
open HipVerif.Spec.Std

/-! ### structural commutations -/

theorem setH_setH (s : State) (h : Nat) (a b : Option Handle) : setH (setH s h a) h b = setH s h b := by
  simp [setH]

theorem setH_setI_comm (s : State) (h : Nat) (v : Option Handle) (i : Nat) (x : Inner) :
    setH (setI s i x) h v = setI (setH s h v) i x := rfl

theorem setH_self {s : State} {h : Nat} {v : Option Handle} (hl : h < s.pool.length) (hg : getH s h = v) :
    setH s h v = s := by
  rw [getH_eq_getElem hl] at hg
  cases s
  simp only [setH, State.mk.injEq, true_and]
  simp at hg ⊢
  rw [← hg]; exact List.set_getElem_self hl

/-- only the pool matters to `getH`, `refsTo` -/
theorem getH_bump (s : State) (n : Nat) (h : Nat) : getH { s with nextBuf := n } h = getH s h := rfl
theorem getI_bump (s : State) (n : Nat) (i : Nat) : getI { s with nextBuf := n } i = getI s i := rfl

theorem view_bump (s : State) (n : Nat) (hd : Handle) : view { s with nextBuf := n } hd = view s hd :=
  view_congr rfl (fun _ => rfl)

theorem abs_bump (s : State) (n : Nat) : abs { s with nextBuf := n } = abs s :=
  abs_congr rfl (fun _ hd _ => view_bump s n hd)

theorem setH_bump (s : State) (n : Nat) (h : Nat) (v : Option Handle) :
    setH { s with nextBuf := n } h v = { setH s h v with nextBuf := n } := rfl

theorem setI_bump (s : State) (n : Nat) (i : Nat) (x : Inner) :
    setI { s with nextBuf := n } i x = { setI s i x with nextBuf := n } := rfl

/-! ### `hlen` is the length of the view -/

theorem hlen_eq_view_length {cfg : Cfg} {s : State} {hd : Handle} (hok : HandleOk cfg s hd) :
    hlen hd = (view s hd).length := by
  unfold HandleOk at hok
  unfold hlen view
  cases hr : hd.repr with
  | inline bs => rfl
  | borrowed a b c =>
    rw [hr] at hok
    simp only [List.length_take, List.length_drop]
    omega
  | heap o pb off len =>
    rw [hr] at hok
    obtain ⟨x, hx, _, _, hrng⟩ := hok
    simp only [hx, Option.map_some, Option.getD_some, List.length_take, List.length_drop]
    omega

theorem view_heap_eq {s : State} {hd : Handle} {o pb off len : Nat} {x : Inner}
    (hr : hd.repr = .heap o pb off len) (hx : getI s o = some x) :
    view s hd = (x.data.drop off).take len := by
  unfold view; rw [hr]; simp [hx]

theorem view_inline_eq {s : State} {hd : Handle} {bs : List UInt8} (hr : hd.repr = .inline bs) :
    view s hd = bs := by
  unfold view; rw [hr]

/-! ### permuting the held list, bumping the buffer counter -/

theorem wfx_perm_b {cfg : Cfg} {s : State} {ex ex' : List Nat} (hp : ex.Perm ex') (w : WfX cfg s ex) :
    WfX cfg s ex' :=
  { handles := w.handles,
    held := fun i hi => w.held i (hp.mem_iff.mpr hi),
    counts := fun i x hx hl => by rw [← hp.count_eq]; exact w.counts i x hx hl,
    uniq := w.uniq, ceil := w.ceil, dead := w.dead, datacap := w.datacap,
    bufFresh := w.bufFresh, bufDistinct := w.bufDistinct }

theorem wfx_swap_b {cfg : Cfg} {s : State} {a b : Nat} {ex : List Nat} (w : WfX cfg s (a :: b :: ex)) :
    WfX cfg s (b :: a :: ex) := wfx_perm_b (List.Perm.swap b a ex) w

theorem wfx_bump_to {cfg : Cfg} {s : State} {ex : List Nat} (w : WfX cfg s ex) {n : Nat}
    (hn : s.nextBuf ≤ n) : WfX cfg { s with nextBuf := n } ex :=
  { handles := w.handles, held := w.held, counts := w.counts, uniq := w.uniq, ceil := w.ceil,
    dead := w.dead, datacap := w.datacap,
    bufFresh := fun i x hx => Nat.lt_of_lt_of_le (w.bufFresh i x hx) hn,
    bufDistinct := w.bufDistinct }

/-! ### the sole owner -/

/-- `Kind::is_unique` answered `true` on a live inner: its stored count is 0 -/
theorem ownerUnique_count {cfg : Cfg} {s : State} {ex : List Nat} (w : WfX cfg s ex) {o : Nat} {x : Inner}
    (hx : getI s o = some x) (hlive : x.live = true) (hu : ownerUnique cfg s o = true) : x.count = 0 := by
  unfold ownerUnique at hu
  cases hb : cfg.backend with
  | unique => exact w.uniq hb o x hx hlive
  | arc => rw [hb] at hu; simpa [hx] using hu
  | rc => rw [hb] at hu; simpa [hx] using hu

theorem ownerUnique_of_count {cfg : Cfg} {s : State} {o : Nat} {x : Inner}
    (hx : getI s o = some x) (hc : x.count = 0) : ownerUnique cfg s o = true := by
  unfold ownerUnique
  cases cfg.backend <;> simp [hx, hc]

/-- the holder of a count-0 inner is alone: no pool handle, no other local copy -/
theorem wfx_sole {cfg : Cfg} {s : State} {ex : List Nat} {o : Nat} (w : WfX cfg s (o :: ex)) {x : Inner}
    (hx : getI s o = some x) (hc : x.count = 0) : refsTo s o = 0 ∧ ex.count o = 0 := by
  obtain ⟨x', hx', hlive⟩ := w.held o (List.mem_cons_self ..)
  rw [hx] at hx'; cases hx'
  have := w.counts o x hx hlive
  rw [List.count_cons] at this
  simp only [beq_self_eq_true, if_true] at this
  omega

/-- **C02 core.** If `is_unique` holds for the owner of a pool handle, that handle is the only
reference to the owner: exactly one pool entry points to it and no local copy is held. -/
theorem ownerUnique_sole_x {cfg : Cfg} {s : State} {ex : List Nat} (w : WfX cfg s ex)
    {h : Nat} {hd : Handle} (hg : getH s h = some hd) {o pb off len : Nat}
    (hr : hd.repr = .heap o pb off len) (hu : ownerUnique cfg s o = true) :
    refsTo s o = 1 ∧ ex.count o = 0 := by
  have hok := w.handles h hd hg
  unfold HandleOk at hok; rw [hr] at hok
  obtain ⟨x, hx, hlive, _, _⟩ := hok
  have hc := ownerUnique_count w hx hlive hu
  have hcnt := w.counts o x hx hlive
  have hp : pointsTo o (some hd) = true := by cases hd; simp_all [pointsTo]
  have := refsTo_pos_of_getH hg hp
  omega

theorem ownerUnique_sole {cfg : Cfg} {s : State} (w : Wf cfg s)
    {h : Nat} {hd : Handle} (hg : getH s h = some hd) {o pb off len : Nat}
    (hr : hd.repr = .heap o pb off len) (hu : ownerUnique cfg s o = true) :
    refsTo s o = 1 :=
  (ownerUnique_sole_x ((wf_iff_wfx cfg s).mp w) hg hr hu).1

/-- … and therefore no OTHER pool slot holds a handle on the same owner. -/
theorem ownerUnique_only_handle {cfg : Cfg} {s : State} (w : Wf cfg s)
    {h : Nat} {hd : Handle} (hg : getH s h = some hd) {o pb off len : Nat}
    (hr : hd.repr = .heap o pb off len) (hu : ownerUnique cfg s o = true)
    {h' : Nat} {hd' : Handle} (hg' : getH s h' = some hd') (hp' : pointsTo o (some hd') = true) :
    h' = h := by
  have h1 := ownerUnique_sole w hg hr hu
  have hl := getH_some_lt hg
  have hp : pointsTo o (some hd) = true := by cases hd; simp_all [pointsTo]
  apply Classical.byContradiction
  intro hne
  have h2 := refsTo_setH s h none o hl
  rw [hg, hp] at h2
  simp only [if_true, pointsTo_none, Bool.false_eq_true, if_false] at h2
  have hg2 : getH (setH s h none) h' = some hd' := by
    rw [getH_setH_other _ _ _ _ (fun e => hne e.symm)]; exact hg'
  have := refsTo_pos_of_getH hg2 hp'
  omega

/-! ### inners nobody in the pool points to can be changed without changing any view -/

theorem view_setI_noref {s : State} {o : Nat} {x' : Inner} {hd : Handle}
    (hp : pointsTo o (some hd) = false) : view (setI s o x') hd = view s hd := by
  unfold view
  cases hr : hd.repr with
  | inline bs => rfl
  | borrowed a b c => rfl
  | heap ow pb off len =>
    have hne : o ≠ ow := by
      intro he; subst he; cases hd; simp_all [pointsTo]
    simp [getI_setI_other _ _ _ _ hne]

theorem handleOk_setI_noref {cfg : Cfg} {s : State} {o : Nat} {x' : Inner} {hd : Handle}
    (hp : pointsTo o (some hd) = false) : HandleOk cfg (setI s o x') hd ↔ HandleOk cfg s hd := by
  unfold HandleOk
  cases hr : hd.repr with
  | inline bs => exact Iff.rfl
  | borrowed a b c => exact Iff.rfl
  | heap ow pb off len =>
    have hne : o ≠ ow := by
      intro he; subst he; cases hd; simp_all [pointsTo]
    simp [getI_setI_other _ _ _ _ hne]

theorem abs_setI_noref {s : State} {o : Nat} {x' : Inner} (hz : refsTo s o = 0) :
    abs (setI s o x') = abs s :=
  abs_congr rfl (fun _ _ hg => view_setI_noref (no_ref_of_refsTo_zero hz hg))

/-! ### (i) the sole owner may replace the data / capacity / buffer of its Vec -/

theorem wfx_setData_b {cfg : Cfg} {s : State} {ex : List Nat} {o : Nat} (w : WfX cfg s (o :: ex))
    {x : Inner} (hx : getI s o = some x) (hc : x.count = 0)
    (data' : List UInt8) (cap' buf' : Nat) (hdc : data'.length ≤ cap') (hb : buf' < s.nextBuf)
    (hfresh : ∀ j y, j ≠ o → getI s j = some y → y.live = true → y.buf ≠ buf') :
    WfX cfg (setI s o { x with data := data', cap := cap', buf := buf' }) (o :: ex) := by
  obtain ⟨hr0, he0⟩ := wfx_sole w hx hc
  obtain ⟨x', hx', hlive⟩ := w.held o (List.mem_cons_self ..)
  rw [hx] at hx'; cases hx'
  have hlt := getI_some_lt hx
  refine { handles := ?_, held := ?_, counts := ?_, uniq := ?_, ceil := ?_, dead := ?_,
           datacap := ?_, bufFresh := ?_, bufDistinct := ?_ }
  · intro h hd hg
    simp only [getH_setI] at hg
    exact (handleOk_setI_noref (no_ref_of_refsTo_zero hr0 hg)).mpr (w.handles h hd hg)
  · intro i hi
    by_cases hne : o = i
    · subst hne; exact ⟨_, getI_setI_same _ _ _ hlt, hlive⟩
    · obtain ⟨y, hy, hyl⟩ := w.held i hi
      exact ⟨y, by simpa [getI_setI_other _ _ _ _ hne] using hy, hyl⟩
  · intro i y hy hyl
    simp only [refsTo_setI]
    by_cases hne : o = i
    · subst hne; rw [getI_setI_same _ _ _ hlt] at hy; cases hy
      exact w.counts o x hx hlive
    · rw [getI_setI_other _ _ _ _ hne] at hy; exact w.counts i y hy hyl
  · intro hu i y hy hyl
    by_cases hne : o = i
    · subst hne; rw [getI_setI_same _ _ _ hlt] at hy; cases hy; exact hc
    · rw [getI_setI_other _ _ _ _ hne] at hy; exact w.uniq hu i y hy hyl
  · intro i y hy hyl
    by_cases hne : o = i
    · subst hne; rw [getI_setI_same _ _ _ hlt] at hy; cases hy; exact w.ceil o x hx hlive
    · rw [getI_setI_other _ _ _ _ hne] at hy; exact w.ceil i y hy hyl
  · intro i y hy hyd
    simp only [refsTo_setI]
    by_cases hne : o = i
    · subst hne; exact hr0
    · rw [getI_setI_other _ _ _ _ hne] at hy; exact w.dead i y hy hyd
  · intro i y hy hyl
    by_cases hne : o = i
    · subst hne; rw [getI_setI_same _ _ _ hlt] at hy; cases hy; exact hdc
    · rw [getI_setI_other _ _ _ _ hne] at hy; exact w.datacap i y hy hyl
  · intro i y hy
    simp only [nextBuf_setI]
    by_cases hne : o = i
    · subst hne; rw [getI_setI_same _ _ _ hlt] at hy; cases hy; exact hb
    · rw [getI_setI_other _ _ _ _ hne] at hy; exact w.bufFresh i y hy
  · intro i j y z hy hz hij hyl hzl
    by_cases hi : o = i
    · subst hi
      rw [getI_setI_same _ _ _ hlt] at hy; cases hy
      rw [getI_setI_other _ _ _ _ hij] at hz
      exact fun e => hfresh j z (fun e' => hij e'.symm) hz hzl e.symm
    · by_cases hj : o = j
      · subst hj
        rw [getI_setI_same _ _ _ hlt] at hz; cases hz
        rw [getI_setI_other _ _ _ _ hi] at hy
        exact hfresh i y (fun e' => hi e'.symm) hy hyl
      · rw [getI_setI_other _ _ _ _ hi] at hy; rw [getI_setI_other _ _ _ _ hj] at hz
        exact w.bufDistinct i j y z hy hz hij hyl hzl

/-! ### (ii) killing a solely held inner consumes the held reference -/

theorem release_sole {cfg : Cfg} {s : State} {o : Nat} {x : Inner} (hx : getI s o = some x)
    (hc : x.count = 0) : (release cfg s o).1 = setI s o { x with live := false } := by
  unfold release
  rw [hx]
  simp [hc]

theorem wfx_kill {cfg : Cfg} {s : State} {ex : List Nat} {o : Nat} (w : WfX cfg s (o :: ex))
    {x : Inner} (hx : getI s o = some x) (hc : x.count = 0) :
    WfX cfg (setI s o { x with live := false }) ex := by
  rw [← release_sole (cfg := cfg) hx hc]
  exact wfx_release w

/-! ### replacing, in place, the owner Vec and the window of the one handle that owns it -/

theorem wfx_rewrite_heap {cfg : Cfg} {s : State} {ex : List Nat} (w : WfX cfg s ex)
    {h : Nat} {hd : Handle} (hg : getH s h = some hd) {o pb off len : Nat}
    (hr : hd.repr = .heap o pb off len) {x : Inner} (hx : getI s o = some x) (hc : x.count = 0)
    (data' : List UInt8) (cap' buf' off' len' : Nat) (hdc : data'.length ≤ cap') (hb : buf' < s.nextBuf)
    (hfresh : ∀ j y, j ≠ o → getI s j = some y → y.live = true → y.buf ≠ buf')
    (hrng : off' + len' ≤ data'.length) (t : Bool) :
    WfX cfg (setH (setI s o { x with data := data', cap := cap', buf := buf' }) h
      (some { repr := .heap o buf' off' len', tainted := t })) ex := by
  have hl := getH_some_lt hg
  have w1 := wfx_take_heap w hg hr
  have w2 := wfx_setData_b w1 (x := x) (by simpa using hx) hc data' cap' buf' hdc (by simpa using hb)
    (by intro j y hj hy; exact hfresh j y hj (by simpa using hy))
  have hx2 : getI (setI (setH s h none) o { x with data := data', cap := cap', buf := buf' }) o =
      some { x with data := data', cap := cap', buf := buf' } :=
    getI_setI_same _ _ _ (by simpa using getI_some_lt hx)
  have w3 := wfx_put_heap w2 (d := h) (by simp [getH_setH_same _ _ _ hl]) (by simpa using hl) hx2
    (b := buf') (off := off') (len := len') rfl hrng t
  rw [← setH_setI_comm, setH_setH] at w3
  exact w3

theorem abs_rewrite_heap {cfg : Cfg} {s : State} {ex : List Nat} (w : WfX cfg s ex)
    {h : Nat} {hd : Handle} (hg : getH s h = some hd) {o pb off len : Nat}
    (hr : hd.repr = .heap o pb off len) {x : Inner} (hx : getI s o = some x) (hc : x.count = 0)
    (x' : Inner) (b' off' len' : Nat) (t : Bool) :
    abs (setH (setI s o x') h (some { repr := .heap o b' off' len', tainted := t })) =
      (abs s).set h (some ((x'.data.drop off').take len')) := by
  have hl := getH_some_lt hg
  have w1 := wfx_take_heap w hg hr
  obtain ⟨hr0, _⟩ := wfx_sole w1 (x := x) (by simpa using hx) hc
  have h1 : setH (setI s o x') h (some { repr := .heap o b' off' len', tainted := t }) =
      setH (setI (setH s h none) o x') h (some { repr := .heap o b' off' len', tainted := t }) := by
    rw [← setH_setI_comm, setH_setH]
  rw [h1, abs_setH, abs_setI_noref hr0, abs_setH]
  simp only [Option.map_none, Option.map_some, List.set_set]
  congr 2
  unfold view
  have : getI (setI (setH s h none) o x') o = some x' :=
    getI_setI_same _ _ _ (by simpa using getI_some_lt hx)
  simp [this]

/-- the same, keeping the handle as it is (`spare_capacity_mut`) -/
theorem wfx_rewrite_keep {cfg : Cfg} {s : State} {ex : List Nat} (w : WfX cfg s ex)
    {h : Nat} {hd : Handle} (hg : getH s h = some hd) {o pb off len : Nat}
    (hr : hd.repr = .heap o pb off len) {x : Inner} (hx : getI s o = some x) (hc : x.count = 0)
    (data' : List UInt8) (hdc : data'.length ≤ x.cap) (hrng : off + len ≤ data'.length) :
    WfX cfg (setI s o { x with data := data' }) ex := by
  have hok := w.handles h hd hg
  unfold HandleOk at hok; rw [hr] at hok
  obtain ⟨x1, hx1, hlive, hpb, _⟩ := hok
  rw [hx] at hx1; cases hx1
  have := wfx_rewrite_heap w hg hr hx hc data' x.cap x.buf off len hdc (w.bufFresh o x hx)
    (by intro j y hj hy hyl; exact w.bufDistinct j o y x hy hx hj hyl hlive) hrng hd.tainted
  have he : (some { repr := .heap o x.buf off len, tainted := hd.tainted } : Option Handle) = some hd := by
    cases hd; simp_all
  rw [he, setH_self (by simpa using getH_some_lt hg) (by simpa using hg)] at this
  exact this

/-! ### dropping the old value of a slot and putting a new one there -/

theorem handleOk_nonheap_congr {cfg : Cfg} {s s' : State} {hd : Handle} (hnh : isHeap hd = false)
    (hs : s'.srcs = s.srcs) : HandleOk cfg s' hd ↔ HandleOk cfg s hd := by
  unfold HandleOk
  cases hr : hd.repr with
  | inline bs => exact Iff.rfl
  | borrowed a b c => rw [hs]
  | heap o pb off len => unfold isHeap at hnh; rw [hr] at hnh; cases hnh

theorem dropRepr_srcs_b (cfg : Cfg) (s : State) (r : Rep) : (dropRepr cfg s r).1.srcs = s.srcs := by
  unfold dropRepr; cases r <;> simp [release_srcs]

theorem dropRepr_pool_b (cfg : Cfg) (s : State) (r : Rep) : (dropRepr cfg s r).1.pool = s.pool := by
  unfold dropRepr; cases r <;> simp [release_pool]

theorem dropRepr_nextBuf (cfg : Cfg) (s : State) (r : Rep) : (dropRepr cfg s r).1.nextBuf = s.nextBuf := by
  unfold dropRepr; cases r <;> simp [release_nextBuf]

theorem view_dropRepr_b (cfg : Cfg) (s : State) (r : Rep) (hd : Handle) :
    view (dropRepr cfg s r).1 hd = view s hd := by
  unfold dropRepr; cases r <;> simp [view_release]

theorem abs_dropRepr (cfg : Cfg) (s : State) (r : Rep) : abs (dropRepr cfg s r).1 = abs s :=
  abs_congr (dropRepr_pool_b cfg s r) (fun _ hd _ => view_dropRepr_b cfg s r hd)

theorem dropRepr_getI_data (cfg : Cfg) (s : State) (r : Rep) (j : Nat) :
    (getI (dropRepr cfg s r).1 j).map (fun x => (x.data, x.cap, x.buf)) =
      (getI s j).map (fun x => (x.data, x.cap, x.buf)) := by
  unfold dropRepr; cases r <;> simp only [release_getI_data]

theorem dropRepr_getI_buf {cfg : Cfg} {s : State} {r : Rep} {j : Nat} {y : Inner}
    (hy : getI (dropRepr cfg s r).1 j = some y) : ∃ y0, getI s j = some y0 ∧ y0.buf = y.buf := by
  have := dropRepr_getI_data cfg s r j
  rw [hy] at this
  cases h0 : getI s j with
  | none => rw [h0] at this; cases this
  | some y0 =>
    rw [h0] at this
    simp only [Option.map_some, Option.some.injEq, Prod.mk.injEq] at this
    exact ⟨y0, rfl, this.2.2.symm⟩

theorem dropRepr_setH (cfg : Cfg) (s : State) (h : Nat) (v : Option Handle) (r : Rep) :
    dropRepr cfg (setH s h v) r = (setH (dropRepr cfg s r).1 h v, (dropRepr cfg s r).2) := by
  unfold dropRepr; cases r <;> simp [release_setH]

theorem wf_drop_put_nonheap {cfg : Cfg} {s : State} (w : Wf cfg s) {h : Nat} {hd : Handle}
    (hg : getH s h = some hd) {hd' : Handle} (hok : HandleOk cfg s hd') (hnh : isHeap hd' = false) :
    Wf cfg (setH (dropRepr cfg s hd.repr).1 h (some hd')) := by
  have w1 := (wf_iff_wfx _ _).mp (wf_drop w hg)
  have hl : h < (dropRepr cfg s hd.repr).1.pool.length := by
    rw [dropRepr_pool_b]; exact getH_some_lt hg
  have w2 := wfx_put_nonheap w1 (d := h) (getH_setH_same _ _ _ hl) (by simpa using hl) (hd := hd')
    ((handleOk_setH ..).mpr ((handleOk_nonheap_congr hnh (dropRepr_srcs_b ..)).mpr hok)) hnh
  rw [setH_setH] at w2
  exact (wf_iff_wfx _ _).mpr w2

theorem abs_drop_put {cfg : Cfg} {s : State} {h : Nat} {hd : Handle} (hd' : Handle) :
    abs (setH (dropRepr cfg s hd.repr).1 h (some hd')) = (abs s).set h (some (view s hd')) := by
  rw [abs_setH, abs_dropRepr, Option.map_some, view_dropRepr_b]

/-- `newHeap`, then drop the old value of slot `h`, then store the new heap handle there
(`make_unique`, `shrink_to`, the reallocating `push_slice`) -/
theorem wf_reheap {cfg : Cfg} {s : State} (w : Wf cfg s) {h : Nat} {hd : Handle}
    (hg : getH s h = some hd) (data : List UInt8) (cap : Nat) (hc : data.length ≤ cap) (t : Bool) :
    Wf cfg (setH (dropRepr cfg (newHeap s data cap).1 hd.repr).1 h
      (some { repr := (newHeap s data cap).2.1, tainted := t })) := by
  have hl := getH_some_lt hg
  have wx := (wf_iff_wfx _ _).mp w
  rw [wf_iff_wfx]
  cases hr : hd.repr with
  | heap o pb off len =>
    have w1 := wfx_take_heap wx hg hr
    obtain ⟨w2, hrep, hnew, hold, hpool, _, _⟩ := wfx_newHeap w1 data cap hc
    have w3 := wfx_release (wfx_swap_b w2)
    rw [newHeap_setH, release_setH] at w3
    have hok := w.handles h hd hg
    unfold HandleOk at hok; rw [hr] at hok
    obtain ⟨x, hx, _⟩ := hok
    have hne : o ≠ s.inners.length := by have := getI_some_lt hx; omega
    have hx3 : getI (setH (release cfg (newHeap s data cap).1 o).1 h none) s.inners.length =
        some { count := 0, data := data, cap := cap, buf := s.nextBuf, live := true } := by
      rw [getI_setH, release_getI_other _ _ _ _ hne]
      exact getI_append_same { s with nextBuf := s.nextBuf + 1 } _
    have hl3 : h < (release cfg (newHeap s data cap).1 o).1.pool.length := by
      rw [release_pool]; exact hl
    have w4 := wfx_put_heap w3 (d := h) (getH_setH_same _ _ _ hl3) (by simpa using hl3) hx3
      (b := s.nextBuf) (off := 0) (len := data.length) rfl (by simp) t
    rw [setH_setH] at w4
    exact w4
  | inline bs =>
    have w1 := wfx_take_nonheap wx hg (by unfold isHeap; rw [hr])
    obtain ⟨w2, hrep, hnew, hold, hpool, _, _⟩ := wfx_newHeap w1 data cap hc
    rw [newHeap_setH] at w2 hnew
    have hl3 : h < (newHeap s data cap).1.pool.length := hl
    have w4 := wfx_put_heap w2 (d := h) (getH_setH_same _ _ _ hl3) (by simpa using hl3) hnew
      (b := s.nextBuf) (off := 0) (len := data.length) rfl (by simp) t
    rw [setH_setH] at w4
    exact w4
  | borrowed a b c =>
    have w1 := wfx_take_nonheap wx hg (by unfold isHeap; rw [hr])
    obtain ⟨w2, hrep, hnew, hold, hpool, _, _⟩ := wfx_newHeap w1 data cap hc
    rw [newHeap_setH] at w2 hnew
    have hl3 : h < (newHeap s data cap).1.pool.length := hl
    have w4 := wfx_put_heap w2 (d := h) (getH_setH_same _ _ _ hl3) (by simpa using hl3) hnew
      (b := s.nextBuf) (off := 0) (len := data.length) rfl (by simp) t
    rw [setH_setH] at w4
    exact w4

theorem abs_reheap {cfg : Cfg} {s : State} (w : Wf cfg s) {h : Nat} (r : Rep)
    (data : List UInt8) (cap : Nat) (t : Bool) :
    abs (setH (dropRepr cfg (newHeap s data cap).1 r).1 h
      (some { repr := (newHeap s data cap).2.1, tainted := t })) = (abs s).set h (some data) := by
  rw [abs_setH, abs_dropRepr, Option.map_some, view_dropRepr_b, view_newHeap_new,
    abs_congr (s := s) (s1 := (newHeap s data cap).1) rfl
      (fun k hd' hg' => view_newHeap_old _ _ (w.handles k hd' hg'))]

theorem abs_set_self {s : State} {h : Nat} {hd : Handle} (hg : getH s h = some hd) :
    (abs s).set h (some (view s hd)) = abs s := by
  have := abs_setH s h (some hd)
  rw [setH_self (getH_some_lt hg) hg] at this
  exact this.symm

theorem dropRepr_nonheap {cfg : Cfg} {s : State} {r : Rep} (hnh : ∀ o pb off len, r ≠ .heap o pb off len) :
    dropRepr cfg s r = (s, []) := by
  cases r with
  | heap o pb off len => exact absurd rfl (hnh o pb off len)
  | _ => rfl

/-! ### `make_unique` -/

/-- what the callers of `make_unique` (and of `writeView`) need to know about the value now
stored in slot `h`, compared with the handle `hd` that was there in state `s` -/
structure Reinstalled (cfg : Cfg) (s : State) (h : Nat) (hd : Handle) (s1 : State) (r1 : Rep) : Prop where
  wf : Wf cfg (setH s1 h (some { hd with repr := r1 }))
  abs_eq : abs (setH s1 h (some { hd with repr := r1 })) = abs s
  srcs_eq : s1.srcs = s.srcs
  hlen_eq : hlen { hd with repr := r1 } = hlen hd
  notBorrowed : isBorrowed { hd with repr := r1 } = false
  unique : ∀ o pb off len, r1 = .heap o pb off len → ownerUnique cfg s1 o = true
  norm : isNormalized cfg hd = true → isNormalized cfg { hd with repr := r1 } = true

theorem reinstalled_same {cfg : Cfg} {s : State} (w : Wf cfg s) {h : Nat} {hd : Handle}
    (hg : getH s h = some hd) (hnb : isBorrowed hd = false)
    (hu : ∀ o pb off len, hd.repr = .heap o pb off len → ownerUnique cfg s o = true) :
    Reinstalled cfg s h hd s hd.repr := by
  have hl := getH_some_lt hg
  have hsame : (some { hd with repr := hd.repr } : Option Handle) = some hd := rfl
  refine ⟨?_, ?_, rfl, rfl, hnb, hu, fun hn => hn⟩
  · rw [hsame, setH_self hl hg]; exact w
  · rw [hsame, setH_self hl hg]

theorem reinstalled_reheap {cfg : Cfg} {s : State} (w : Wf cfg s) {h : Nat} {hd : Handle}
    (hg : getH s h = some hd) (hni : isInline hd = false)
    (hbig : isBorrowed hd = true → cfg.icap < (view s hd).length) :
    Reinstalled cfg s h hd (dropRepr cfg (newHeap s (view s hd) (view s hd).length).1 hd.repr).1
      (newHeap s (view s hd) (view s hd).length).2.1 := by
  have hok := w.handles h hd hg
  have hvl := hlen_eq_view_length hok
  have hnew : getI (newHeap s (view s hd) (view s hd).length).1 s.inners.length =
      some { count := 0, data := view s hd, cap := (view s hd).length, buf := s.nextBuf, live := true } :=
    getI_append_same { s with nextBuf := s.nextBuf + 1 } _
  have hlen' : hlen { hd with repr := (newHeap s (view s hd) (view s hd).length).2.1 } = hlen hd := hvl.symm
  refine ⟨?_, ?_, ?_, hlen', rfl, ?_, ?_⟩
  · exact wf_reheap w hg _ _ (Nat.le_refl _) _
  · rw [abs_reheap w, abs_set_self hg]
  · rw [dropRepr_srcs_b]; rfl
  · intro o pb off len he
    have ho : o = s.inners.length := by
      have : (newHeap s (view s hd) (view s hd).length).2.1 =
        .heap s.inners.length s.nextBuf 0 (view s hd).length := rfl
      rw [this] at he; cases he; rfl
    subst ho
    refine ownerUnique_of_count ?_ (rfl : (Inner.mk 0 (view s hd) (view s hd).length s.nextBuf true).count = 0)
    cases hr : hd.repr with
    | inline bs => exact hnew
    | borrowed a b c => exact hnew
    | heap o' pb' off' len' =>
      unfold HandleOk at hok; rw [hr] at hok
      obtain ⟨x, hx, _⟩ := hok
      have hne : o' ≠ s.inners.length := by have := getI_some_lt hx; omega
      show getI (release cfg _ o').1 _ = _
      rw [release_getI_other _ _ _ _ hne]; exact hnew
  · intro hn
    unfold isNormalized at hn ⊢
    rw [hlen']
    have : isInline { hd with repr := (newHeap s (view s hd) (view s hd).length).2.1 } = false := rfl
    have : isBorrowed { hd with repr := (newHeap s (view s hd) (view s hd).length).2.1 } = false := rfl
    unfold isBorrowed isInline at *
    cases hr : hd.repr <;> simp_all <;> omega

theorem reinstalled_inline {cfg : Cfg} {s : State} (w : Wf cfg s) {h : Nat} {hd : Handle}
    (hg : getH s h = some hd) (hnh : isHeap hd = false) (bs : List UInt8) (hbs : bs = view s hd)
    (hc : bs.length ≤ cfg.icap) : Reinstalled cfg s h hd s (.inline bs) := by
  have hok := w.handles h hd hg
  have hvl := hlen_eq_view_length hok
  have hd0 : dropRepr cfg s hd.repr = (s, []) := by
    apply dropRepr_nonheap; intro o pb off len he; unfold isHeap at hnh; rw [he] at hnh; cases hnh
  refine ⟨?_, ?_, rfl, ?_, rfl, ?_, fun _ => rfl⟩
  · have := wf_drop_put_nonheap w hg (hd' := { hd with repr := .inline bs }) hc rfl
    rw [hd0] at this; exact this
  · have := abs_drop_put (cfg := cfg) (s := s) (h := h) (hd := hd) { hd with repr := .inline bs }
    rw [hd0] at this
    rw [this]
    have hv : view s { hd with repr := .inline bs } = view s hd := hbs
    rw [hv, abs_set_self hg]
  · show bs.length = hlen hd
    rw [hbs, hvl]
  · intro o pb off len he; cases he

theorem makeUnique_spec {cfg : Cfg} {s : State} (w : Wf cfg s) {h : Nat} {hd : Handle}
    (hg : getH s h = some hd) :
    Reinstalled cfg s h hd (makeUnique cfg s hd).1 (makeUnique cfg s hd).2.1 := by
  unfold makeUnique
  cases hr : hd.repr with
  | inline bs =>
    have := reinstalled_same w hg (by unfold isBorrowed; rw [hr]) (by intro o pb off len he; rw [hr] at he; cases he)
    rw [hr] at this; exact this
  | borrowed a b c =>
    simp only
    unfold fromSliceRepr
    have hnh : isHeap hd = false := by unfold isHeap; rw [hr]
    split
    · rename_i h0
      exact reinstalled_inline w hg hnh [] (by symm; exact List.eq_nil_of_length_eq_zero h0) (Nat.zero_le _)
    · split
      · rename_i h1
        exact reinstalled_inline w hg hnh _ rfl h1
      · rename_i h1
        have := reinstalled_reheap w hg (by unfold isInline; rw [hr]) (fun _ => Nat.lt_of_not_le h1)
        rw [hr] at this; exact this
  | heap o pb off len =>
    simp only
    split
    · rename_i hu
      have := reinstalled_same w hg (by unfold isBorrowed; rw [hr])
        (by intro o' pb' off' len' he; rw [hr] at he; cases he; exact hu)
      rw [hr] at this; exact this
    · have := reinstalled_reheap w hg (by unfold isInline; rw [hr])
        (by intro hb; unfold isBorrowed at hb; rw [hr] at hb; cases hb)
      rw [hr] at this; exact this

theorem reinstalled_getH {cfg : Cfg} {s : State} {h : Nat} {hd : Handle} {s1 : State} {r1 : Rep}
    (_ri : Reinstalled cfg s h hd s1 r1) (hg : getH s h = some hd) (hp : s1.pool.length = s.pool.length) :
    getH (setH s1 h (some { hd with repr := r1 })) h = some { hd with repr := r1 } :=
  getH_setH_same _ _ _ (by rw [hp]; exact getH_some_lt hg)

theorem Reinstalled.view_eq {cfg : Cfg} {s : State} {h : Nat} {hd : Handle} {s1 : State} {r1 : Rep}
    (ri : Reinstalled cfg s h hd s1 r1) (hg : getH s h = some hd) :
    view s1 { hd with repr := r1 } = view s hd := by
  have h1 := congrArg (fun p => sget p h) ri.abs_eq
  simp only [sget_abs, hg, Option.map_some] at h1
  have hl : h < s1.pool.length := by
    have := congrArg List.length ri.abs_eq
    rw [abs_length, abs_length, pool_length_setH] at this
    rw [this]; exact getH_some_lt hg
  rw [getH_setH_same _ _ _ hl] at h1
  simpa using h1

theorem Reinstalled.pool_length {cfg : Cfg} {s : State} {h : Nat} {hd : Handle} {s1 : State} {r1 : Rep}
    (ri : Reinstalled cfg s h hd s1 r1) : s1.pool.length = s.pool.length := by
  have := congrArg List.length ri.abs_eq
  rw [abs_length, abs_length, pool_length_setH] at this
  exact this

/-! ### `writeView`: writing through the sole owner (or an inline value) -/

theorem writeView_setH (s : State) (h : Nat) (v : Option Handle) (r : Rep) (f : List UInt8 → List UInt8) :
    writeView (setH s h v) r f = (setH (writeView s r f).1 h v, (writeView s r f).2) := by
  unfold writeView
  cases r with
  | inline bs => rfl
  | borrowed a b c => rfl
  | heap o pb off len =>
    simp only [getI_setH]
    cases getI s o <;> rfl

theorem writeView_srcs_b (s : State) (r : Rep) (f : List UInt8 → List UInt8) :
    (writeView s r f).1.srcs = s.srcs := by
  unfold writeView
  cases r with
  | inline bs => rfl
  | borrowed a b c => rfl
  | heap o pb off len => simp only; cases getI s o <;> rfl

theorem splice_length {α : Type} (l w' : List α) (off len : Nat) (hr : off + len ≤ l.length)
    (hw : w'.length = len) : (l.take off ++ w' ++ l.drop (off + len)).length = l.length := by
  simp only [List.length_append, List.length_take, List.length_drop]
  omega

theorem splice_window {α : Type} (l w' : List α) (off len : Nat) (hr : off + len ≤ l.length)
    (hw : w'.length = len) : ((l.take off ++ w' ++ l.drop (off + len)).drop off).take len = w' := by
  have h1 : (l.take off).length = off := by simp; omega
  rw [List.append_assoc, List.drop_append, h1]
  simp only [Nat.sub_self, List.drop_zero]
  have : (l.take off).drop off = [] := by simp
  rw [this, List.nil_append, List.take_append, hw]
  simp [← hw]

theorem writeView_spec {cfg : Cfg} {M : State} (w : Wf cfg M) {h : Nat} {hd : Handle}
    (hg : getH M h = some hd) (hnb : isBorrowed hd = false)
    (hu : ∀ o pb off len, hd.repr = .heap o pb off len → ownerUnique cfg M o = true)
    (f : List UInt8 → List UInt8) (hf : ∀ l, (f l).length = l.length) :
    Wf cfg (setH (writeView M hd.repr f).1 h (some { hd with repr := (writeView M hd.repr f).2.1 })) ∧
    abs (setH (writeView M hd.repr f).1 h (some { hd with repr := (writeView M hd.repr f).2.1 })) =
      (abs M).set h (some (f (view M hd))) ∧
    isNormalized cfg { hd with repr := (writeView M hd.repr f).2.1 } = isNormalized cfg hd := by
  have hl := getH_some_lt hg
  have hok := w.handles h hd hg
  have wx := (wf_iff_wfx _ _).mp w
  unfold writeView
  cases hr : hd.repr with
  | borrowed a b c => unfold isBorrowed at hnb; rw [hr] at hnb; cases hnb
  | inline bs =>
    simp only
    have hd0 : dropRepr cfg M hd.repr = (M, []) := by rw [hr]; rfl
    unfold HandleOk at hok; rw [hr] at hok
    refine ⟨?_, ?_, ?_⟩
    · have := wf_drop_put_nonheap w hg (hd' := { hd with repr := .inline (f bs) })
        (by show (f bs).length ≤ cfg.icap; rw [hf]; exact hok) rfl
      rw [hd0] at this; exact this
    · have := abs_drop_put (cfg := cfg) (s := M) (h := h) (hd := hd) { hd with repr := .inline (f bs) }
      rw [hd0] at this
      rw [this, view_inline_eq hr]; rfl
    · unfold isNormalized isInline isBorrowed; rw [hr]; rfl
  | heap o pb off len =>
    unfold HandleOk at hok; rw [hr] at hok
    obtain ⟨x, hx, hlive, hpb, hrng⟩ := hok
    have hc := ownerUnique_count wx hx hlive (hu o pb off len hr)
    simp only [hx]
    have hwl : (f ((x.data.drop off).take len)).length = len := by
      rw [hf]; simp; omega
    refine ⟨?_, ?_, ?_⟩
    · rw [wf_iff_wfx, hpb]
      exact wfx_rewrite_heap wx hg hr hx hc _ x.cap x.buf off len
        (by rw [splice_length _ _ _ _ hrng hwl]; exact wx.datacap o x hx hlive) (wx.bufFresh o x hx)
        (by intro j y hj hy hyl; exact wx.bufDistinct j o y x hy hx hj hyl hlive)
        (by rw [splice_length _ _ _ _ hrng hwl]; exact hrng) hd.tainted
    · rw [abs_rewrite_heap wx hg hr hx hc]
      simp only
      rw [splice_window _ _ _ _ hrng hwl, view_heap_eq hr hx]
    · unfold isNormalized isInline isBorrowed hlen; rw [hr]

theorem makeUnique_write_spec {cfg : Cfg} {s : State} (w : Wf cfg s) {h : Nat} {hd : Handle}
    (hg : getH s h = some hd) (f : List UInt8 → List UInt8) (hf : ∀ l, (f l).length = l.length) :
    Wf cfg (setH (writeView (makeUnique cfg s hd).1 (makeUnique cfg s hd).2.1 f).1 h
      (some { hd with repr := (writeView (makeUnique cfg s hd).1 (makeUnique cfg s hd).2.1 f).2.1 })) ∧
    abs (setH (writeView (makeUnique cfg s hd).1 (makeUnique cfg s hd).2.1 f).1 h
      (some { hd with repr := (writeView (makeUnique cfg s hd).1 (makeUnique cfg s hd).2.1 f).2.1 })) =
      (abs s).set h (some (f (view s hd))) ∧
    (writeView (makeUnique cfg s hd).1 (makeUnique cfg s hd).2.1 f).1.srcs = s.srcs ∧
    (isNormalized cfg hd = true → isNormalized cfg
      { hd with repr := (writeView (makeUnique cfg s hd).1 (makeUnique cfg s hd).2.1 f).2.1 } = true) := by
  have ri := makeUnique_spec w hg
  have hgM := reinstalled_getH ri hg ri.pool_length
  have hws := writeView_spec ri.wf hgM ri.notBorrowed (fun o pb off len he => ri.unique o pb off len he) f hf
  simp only [writeView_setH, setH_setH] at hws
  obtain ⟨h1, h2, h3⟩ := hws
  refine ⟨h1, ?_, ?_, ?_⟩
  · rw [h2, ri.abs_eq, view_setH, ri.view_eq hg]
  · rw [writeView_srcs_b, ri.srcs_eq]
  · intro hn; rw [h3]; exact ri.norm hn

/-! ### (iv) `vecApply`: the guard script on the owned Vec -/

theorem growCap_ge (cap req : Nat) : req ≤ growCap cap req := by
  unfold growCap; omega

theorem vecApply_spec (script : List VecOp) : ∀ (data : List UInt8) (cap buf nb : Nat),
    (vecApply data cap buf nb script).1 = script.foldl applyVecOp data ∧
    (data.length ≤ cap → (vecApply data cap buf nb script).1.length ≤ (vecApply data cap buf nb script).2.1) ∧
    nb ≤ (vecApply data cap buf nb script).2.2.2.1 ∧
    ((vecApply data cap buf nb script).2.2.1 = buf ∨ nb ≤ (vecApply data cap buf nb script).2.2.1) ∧
    (buf < nb → (vecApply data cap buf nb script).2.2.1 < (vecApply data cap buf nb script).2.2.2.1) := by
  induction script with
  | nil => intro data cap buf nb; simp [vecApply]
  | cons op rest ih =>
    intro data cap buf nb
    cases op with
    | push b =>
      by_cases hc : data.length + 1 ≤ cap
      · have := ih (data ++ [b]) cap buf nb
        rcases hr : vecApply (data ++ [b]) cap buf nb rest with ⟨d, c, b', n, ev⟩
        rw [hr] at this
        simp only [vecApply, hc, if_true, hr, List.foldl_cons, applyVecOp]
        simp only [List.length_append, List.length_singleton] at this
        obtain ⟨h1, h2, h3, h4, h5⟩ := this
        exact ⟨h1, fun _ => h2 hc, h3, h4, h5⟩
      · have := ih (data ++ [b]) (growCap cap (data.length + 1)) nb (nb + 1)
        rcases hr : vecApply (data ++ [b]) (growCap cap (data.length + 1)) nb (nb + 1) rest with ⟨d, c, b', n, ev⟩
        rw [hr] at this
        simp only [vecApply, hc, if_false, hr, List.foldl_cons, applyVecOp]
        simp only [List.length_append, List.length_singleton] at this
        obtain ⟨h1, h2, h3, h4, h5⟩ := this
        refine ⟨h1, fun _ => h2 (growCap_ge _ _), by omega, ?_, fun _ => h5 (Nat.lt_succ_self _)⟩
        rcases h4 with h4 | h4
        · right; rw [h4]; exact Nat.le_refl _
        · right; omega
    | extend bs =>
      by_cases hc : data.length + bs.length ≤ cap
      · have := ih (data ++ bs) cap buf nb
        rcases hr : vecApply (data ++ bs) cap buf nb rest with ⟨d, c, b', n, ev⟩
        rw [hr] at this
        simp only [vecApply, hc, if_true, hr, List.foldl_cons, applyVecOp]
        simp only [List.length_append] at this
        obtain ⟨h1, h2, h3, h4, h5⟩ := this
        exact ⟨h1, fun _ => h2 hc, h3, h4, h5⟩
      · have := ih (data ++ bs) (growCap cap (data.length + bs.length)) nb (nb + 1)
        rcases hr : vecApply (data ++ bs) (growCap cap (data.length + bs.length)) nb (nb + 1) rest with ⟨d, c, b', n, ev⟩
        rw [hr] at this
        simp only [vecApply, hc, if_false, hr, List.foldl_cons, applyVecOp]
        simp only [List.length_append] at this
        obtain ⟨h1, h2, h3, h4, h5⟩ := this
        refine ⟨h1, fun _ => h2 (growCap_ge _ _), by omega, ?_, fun _ => h5 (Nat.lt_succ_self _)⟩
        rcases h4 with h4 | h4
        · right; rw [h4]; exact Nat.le_refl _
        · right; omega
    | truncate n =>
      have := ih (data.take n) cap buf nb
      rcases hr : vecApply (data.take n) cap buf nb rest with ⟨d, c, b', n', ev⟩
      rw [hr] at this
      simp only [vecApply, hr, List.foldl_cons, applyVecOp]
      obtain ⟨h1, h2, h3, h4, h5⟩ := this
      refine ⟨h1, fun hc => h2 ?_, h3, h4, h5⟩
      simp only [List.length_take]; omega
    | clear =>
      have := ih [] cap buf nb
      rcases hr : vecApply [] cap buf nb rest with ⟨d, c, b', n', ev⟩
      rw [hr] at this
      simp only [vecApply, hr, List.foldl_cons, applyVecOp]
      obtain ⟨h1, h2, h3, h4, h5⟩ := this
      exact ⟨h1, fun _ => h2 (Nat.zero_le _), h3, h4, h5⟩

/-! ### (v) `take_vec` -/

/-- what `take_vec` guarantees: the value in slot `h` is now the empty inline value, nothing is
held locally, and the returned Vec `(data, cap, buf)` holds the bytes of the old value in a buffer
that no live inner of the new state uses. -/
structure TakeVecPost (cfg : Cfg) (s : State) (h : Nat) (hd : Handle) (s' : State)
    (v : List UInt8 × Nat × Nat) : Prop where
  wf : Wf cfg s'
  pool_eq : s'.pool = s.pool.set h (some { hd with repr := .inline [] })
  srcs_eq : s'.srcs = s.srcs
  abs_eq : abs s' = (abs s).set h (some [])
  data_eq : v.1 = view s hd
  datacap : v.1.length ≤ v.2.1
  bufFresh : v.2.2 < s'.nextBuf
  bufFree : ∀ j y, getI s' j = some y → y.live = true → y.buf ≠ v.2.2

theorem takeVecPost_copyOut {cfg : Cfg} {s : State} (w : Wf cfg s) {h : Nat} {hd : Handle}
    (hg : getH s h = some hd) :
    TakeVecPost cfg s h hd
      (setH (dropRepr cfg { s with nextBuf := s.nextBuf + 1 } hd.repr).1 h (some { hd with repr := .inline [] }))
      (view s hd, (view s hd).length, s.nextBuf) := by
  have wb : Wf cfg { s with nextBuf := s.nextBuf + 1 } :=
    (wf_iff_wfx _ _).mpr (wfx_bump ((wf_iff_wfx _ _).mp w))
  have hgb : getH { s with nextBuf := s.nextBuf + 1 } h = some hd := hg
  have w1 := wf_drop_put_nonheap wb hgb (hd' := { hd with repr := .inline [] })
    (by show (0 : Nat) ≤ cfg.icap; exact Nat.zero_le _) rfl
  refine { wf := w1, pool_eq := ?_, srcs_eq := ?_, abs_eq := ?_, data_eq := rfl, datacap := Nat.le_refl _,
           bufFresh := ?_, bufFree := ?_ }
  · show ((dropRepr cfg _ hd.repr).1.pool).set h _ = _
    rw [dropRepr_pool_b]
  · show (dropRepr cfg _ hd.repr).1.srcs = _
    rw [dropRepr_srcs_b]
  · rw [abs_drop_put, abs_bump]; rfl
  · show s.nextBuf < (dropRepr cfg _ hd.repr).1.nextBuf
    rw [dropRepr_nextBuf]; exact Nat.lt_succ_self _
  · intro j y hy hyl he
    have hy' : getI (dropRepr cfg { s with nextBuf := s.nextBuf + 1 } hd.repr).1 j = some y := hy
    obtain ⟨y0, hy0, hb⟩ := dropRepr_getI_buf hy'
    have := w.bufFresh j y0 hy0
    simp only at he
    omega

/-- (v) `take_vec` as a whole -/
theorem takeVec_spec {cfg : Cfg} {s : State} (w : Wf cfg s) {h : Nat} {hd : Handle}
    (hg : getH s h = some hd) :
    TakeVecPost cfg s h hd (takeVec cfg s h hd).1 (takeVec cfg s h hd).2.1 := by
  have hco := takeVecPost_copyOut w hg
  have hl := getH_some_lt hg
  have wx := (wf_iff_wfx _ _).mp w
  unfold takeVec
  cases hr : hd.repr with
  | inline bs => simp only; rw [hr] at hco; exact hco
  | borrowed a b c => simp only; rw [hr] at hco; exact hco
  | heap o pb off len =>
    simp only
    cases hx : getI s o with
    | none => simp only; rw [hr] at hco; exact hco
    | some x =>
      simp only
      split
      · rename_i hcond
        have hoff : off = 0 := by simp at hcond; exact hcond.1
        have hu : ownerUnique cfg s o = true := by simp at hcond; exact hcond.2
        subst hoff
        have hok := w.handles h hd hg
        unfold HandleOk at hok; rw [hr] at hok
        obtain ⟨x1, hx1, hlive, hpb, hrng⟩ := hok
        rw [hx] at hx1; cases hx1
        have hc := ownerUnique_count wx hx hlive hu
        have hlt := getI_some_lt hx
        have w1 := wfx_take_heap wx hg hr
        obtain ⟨hr0, _⟩ := wfx_sole w1 (x := x) (by simpa using hx) hc
        have w2 := wfx_kill w1 (x := x) (by simpa using hx) hc
        have w3 := wfx_put_nonheap w2 (d := h) (by simp [getH_setH_same _ _ _ hl]) (by simpa using hl)
          (hd := { hd with repr := .inline [] }) (by show (0 : Nat) ≤ cfg.icap; exact Nat.zero_le _) rfl
        rw [← setH_setI_comm, setH_setH] at w3
        refine { wf := (wf_iff_wfx _ _).mpr w3, pool_eq := rfl, srcs_eq := rfl, abs_eq := ?_, data_eq := ?_,
                 datacap := ?_, bufFresh := wx.bufFresh o x hx, bufFree := ?_ }
        · have h1 : setH (setI s o { x with live := false }) h (some { hd with repr := .inline [] }) =
              setH (setI (setH s h none) o { x with live := false }) h (some { hd with repr := .inline [] }) := by
            rw [← setH_setI_comm, setH_setH]
          rw [h1, abs_setH, abs_setI_noref hr0, abs_setH]
          simp only [Option.map_none, Option.map_some, List.set_set]
          rfl
        · rw [view_heap_eq hr hx]; simp
        · have := wx.datacap o x hx hlive
          simp only [List.length_take]; omega
        · intro j y hy hyl
          simp only [getI_setH] at hy
          by_cases hj : o = j
          · subst hj; rw [getI_setI_same _ _ _ hlt] at hy; cases hy; cases hyl
          · rw [getI_setI_other _ _ _ _ hj] at hy
            exact wx.bufDistinct j o y x hy hx (fun e => hj e.symm) hyl hlive
      · rw [hr] at hco; exact hco

/-! ### re-boxing a Vec into an occupied non-heap slot (`*self.result = HipByt::from(owned)`) -/

theorem view_boxVec_old {cfg : Cfg} {s : State} {hd : Handle} (data : List UInt8) (cap buf : Nat)
    (hok : HandleOk cfg s hd) : view (boxVec s data cap buf).1 hd = view s hd := by
  unfold view
  unfold HandleOk at hok
  cases hr : hd.repr with
  | inline bs => rfl
  | borrowed a b c => rfl
  | heap o pb off len =>
    rw [hr] at hok
    obtain ⟨x, hx, _⟩ := hok
    have : getI (boxVec s data cap buf).1 o = getI s o := getI_append_lt s _ o (getI_some_lt hx)
    simp [this]

theorem fromVecRepr_srcs_b (cfg : Cfg) (s : State) (bs : List UInt8) (cap buf : Nat) :
    (fromVecRepr cfg s bs cap buf).1.srcs = s.srcs := by
  unfold fromVecRepr; split <;> rfl

theorem fromVecRepr_pool_b (cfg : Cfg) (s : State) (bs : List UInt8) (cap buf : Nat) :
    (fromVecRepr cfg s bs cap buf).1.pool = s.pool := by
  unfold fromVecRepr; split <;> rfl

theorem fromVecRepr_norm (cfg : Cfg) (s : State) (bs : List UInt8) (cap buf : Nat) (t : Bool) :
    isNormalized cfg { repr := (fromVecRepr cfg s bs cap buf).2.1, tainted := t } = true := by
  unfold fromVecRepr
  split
  · rfl
  · rename_i hc
    simp only [isNormalized, isInline, isBorrowed, hlen]
    simp; omega

theorem fromVecRepr_put {cfg : Cfg} {s : State} (w : Wf cfg s) {h : Nat} {hd0 : Handle}
    (hg : getH s h = some hd0) (hnh : isHeap hd0 = false)
    (bs : List UInt8) (cap buf : Nat) (hc : bs.length ≤ cap) (hb : buf < s.nextBuf)
    (hfree : ∀ j y, getI s j = some y → y.live = true → y.buf ≠ buf) (t : Bool) :
    Wf cfg (setH (fromVecRepr cfg s bs cap buf).1 h
      (some { repr := (fromVecRepr cfg s bs cap buf).2.1, tainted := t })) ∧
    abs (setH (fromVecRepr cfg s bs cap buf).1 h
      (some { repr := (fromVecRepr cfg s bs cap buf).2.1, tainted := t })) = (abs s).set h (some bs) := by
  have hl := getH_some_lt hg
  have hd0r : dropRepr cfg s hd0.repr = (s, []) := by
    apply dropRepr_nonheap; intro o pb off len he; unfold isHeap at hnh; rw [he] at hnh; cases hnh
  unfold fromVecRepr
  split
  · rename_i hi
    simp only
    constructor
    · have := wf_drop_put_nonheap w hg (hd' := { repr := .inline bs, tainted := t }) hi rfl
      rw [hd0r] at this; exact this
    · rw [abs_setH]; rfl
  · simp only
    have wx := (wf_iff_wfx _ _).mp w
    have w1 := wfx_take_nonheap wx hg hnh
    have w2 := wfx_boxVec w1 bs cap buf hc (by simpa using hb)
      (by intro j y hy hyl; exact hfree j y (by simpa using hy) hyl)
    have hnew : getI (boxVec (setH s h none) bs cap buf).1 s.inners.length =
        some { count := 0, data := bs, cap := cap, buf := buf, live := true } :=
      getI_append_same (setH s h none) _
    have hl3 : h < (boxVec s bs cap buf).1.pool.length := hl
    have hl4 : h < (boxVec (setH s h none) bs cap buf).1.pool.length := by
      show h < (s.pool.set h none).length
      simpa using hl
    have w4 := wfx_put_heap w2 (d := h) (getH_setH_same _ _ _ hl3) hl4 hnew
      (b := buf) (off := 0) (len := bs.length) rfl (by simp) t
    have he : setH (boxVec (setH s h none) bs cap buf).1 h
        (some { repr := .heap (setH s h none).inners.length buf 0 bs.length, tainted := t }) =
        setH (boxVec s bs cap buf).1 h (some { repr := .heap s.inners.length buf 0 bs.length, tainted := t }) := by
      show setH (setH (boxVec s bs cap buf).1 h none) h _ = _
      rw [setH_setH]; rfl
    rw [he] at w4
    refine ⟨(wf_iff_wfx _ _).mpr w4, ?_⟩
    rw [abs_setH, abs_congr (s := s) (s1 := (boxVec s bs cap buf).1) rfl
      (fun k hd' hg' => view_boxVec_old _ _ _ (w.handles k hd' hg'))]
    congr 1
    have : getI (boxVec s bs cap buf).1 s.inners.length =
        some { count := 0, data := bs, cap := cap, buf := buf, live := true } := getI_append_same s _
    have h2 : (boxVec s bs cap buf).2.1 = s.inners.length := rfl
    simp [view, h2, this]

/-! ### `NormOk` only looks at the pool -/

theorem normOk_setH_b {cfg : Cfg} {s s1 : State} (hn : NormOk cfg s) (hp : s1.pool = s.pool) {h : Nat}
    {v : Option Handle} (hv : ∀ hd', v = some hd' → hd'.tainted = false → isNormalized cfg hd' = true) :
    NormOk cfg (setH s1 h v) := by
  intro k hd hgk ht
  by_cases hl : h < s1.pool.length
  · by_cases hk : h = k
    · subst hk
      rw [getH_setH_same _ _ _ hl] at hgk
      exact hv hd hgk ht
    · rw [getH_setH_other _ _ _ _ hk] at hgk
      exact hn k hd (by unfold getH at hgk ⊢; rw [← hp]; exact hgk) ht
  · have : setH s1 h v = s1 := by
      unfold setH
      rw [List.set_eq_of_length_le (Nat.le_of_not_lt hl)]
    rw [this] at hgk
    exact hn k hd (by unfold getH at hgk ⊢; rw [← hp]; exact hgk) ht

theorem normOk_pool_b {cfg : Cfg} {s s1 : State} (hn : NormOk cfg s) (hp : s1.pool = s.pool) :
    NormOk cfg s1 := by
  intro k hd hgk ht
  exact hn k hd (by unfold getH at hgk ⊢; rw [← hp]; exact hgk) ht

/-! ### unconditional frame facts (`srcs`, `pool`) -/

theorem writeView_pool_b (s : State) (r : Rep) (f : List UInt8 → List UInt8) :
    (writeView s r f).1.pool = s.pool := by
  unfold writeView
  cases r with
  | inline bs => rfl
  | borrowed a b c => rfl
  | heap o pb off len => simp only; cases getI s o <;> rfl

theorem fromSliceRepr_srcs_b (cfg : Cfg) (s : State) (bs : List UInt8) :
    (fromSliceRepr cfg s bs).1.srcs = s.srcs := by
  unfold fromSliceRepr; split <;> (try split) <;> rfl

theorem fromSliceRepr_pool_b (cfg : Cfg) (s : State) (bs : List UInt8) :
    (fromSliceRepr cfg s bs).1.pool = s.pool := by
  unfold fromSliceRepr; split <;> (try split) <;> rfl

theorem makeUnique_srcs_b (cfg : Cfg) (s : State) (hd : Handle) : (makeUnique cfg s hd).1.srcs = s.srcs := by
  unfold makeUnique
  cases hd.repr with
  | inline bs => rfl
  | borrowed a b c => exact fromSliceRepr_srcs_b ..
  | heap o pb off len =>
    simp only
    split
    · rfl
    · simp only [release_srcs]; rfl

theorem makeUnique_pool_b (cfg : Cfg) (s : State) (hd : Handle) : (makeUnique cfg s hd).1.pool = s.pool := by
  unfold makeUnique
  cases hd.repr with
  | inline bs => rfl
  | borrowed a b c => exact fromSliceRepr_pool_b ..
  | heap o pb off len =>
    simp only
    split
    · rfl
    · simp only [release_pool]; rfl

theorem takeVec_srcs (cfg : Cfg) (s : State) (h : Nat) (hd : Handle) : (takeVec cfg s h hd).1.srcs = s.srcs := by
  unfold takeVec
  cases hd.repr with
  | inline bs => simp only [srcs_setH, dropRepr_srcs_b]
  | borrowed a b c => simp only [srcs_setH, dropRepr_srcs_b]
  | heap o pb off len =>
    simp only
    cases getI s o with
    | none => simp only [srcs_setH, dropRepr_srcs_b]
    | some x =>
      simp only
      split
      · rfl
      · simp only [srcs_setH, dropRepr_srcs_b]

end HipVerif.Core
