/-
C03 at the buffer level: along every history of the Core state machine the allocator-visible
events balance.  Every buffer identity enters the system at most once, leaves at most once and
only after entering, is written only while it is in and only within the capacity it entered with;
and the buffers that entered and have not left are exactly the buffers (capacity > 0) of the live
boxes — so once every value is gone every buffer has left (no leak, no double free).

The model is strict about capacity-0 Vecs (they own no allocation): no `exportBuf` and no `write`
is emitted for them, so every clause below holds without exception.
-/
import HipVerif.Lemmas.CoreLedgerB4
import HipVerif.Lemmas.CoreLedgerTraceB
import HipVerif.Lemmas.CoreExtraB

namespace HipVerif.Core
open HipVerif.Spec.Std

variable {cfg : Cfg}

/-- **The buffer-ledger invariant of a history** that produced the events `evs` and ended in `s`:
the state is well-formed, every event passed its ledger check (`Accepted`, see `EvGood`), and the
ledger computed from the events alone describes exactly the buffers of the live boxes of `s`. -/
structure LedgerOk (cfg : Cfg) (s : State) (evs : List Event) : Prop where
  wf : Wf cfg s
  accepted : Accepted Ledger.empty evs
  inv : LInv s (Ledger.empty.run evs) none

/-- a state without boxes and an empty history -/
theorem ledger_init {s0 : State} (w : Wf cfg s0) (h0 : s0.inners = []) : LedgerOk cfg s0 [] := by
  have hno : ∀ p b c, ¬ OwnsAt s0 none p b c := by
    intro p b c h
    cases p with
    | none => cases h
    | some j =>
      obtain ⟨y, hy, _⟩ := h
      have := getI_some_lt hy
      rw [h0] at this
      cases this
  refine ⟨w, trivial, ?_⟩
  exact { fresh := fun p b c h => absurd h (hno p b c),
          idsFresh := fun b h => (by cases h),
          inj := fun p _ b c _ h => absurd h (hno p b c),
          func := fun p b _ c _ h => absurd h (hno p b c),
          live_iff := fun b c => ⟨fun h => (by cases h), fun ⟨_, p, h⟩ => absurd h (hno p b c)⟩,
          gone := fun p b c h => absurd h (hno p b c) }

/-- **`ledger_step`: every operation preserves the buffer-ledger invariant.** -/
theorem ledger_step {s : State} {evs : List Event} (h : LedgerOk cfg s evs) (op : Op) :
    LedgerOk cfg (step cfg s op).1 (evs ++ (step cfg s op).2.events) := by
  obtain ⟨t1, t2⟩ := step_trans h.wf op _ h.inv
  exact ⟨wf_step cfg s op h.wf, accepted_append.mpr ⟨h.accepted, t1⟩, by rw [Ledger.run_append]; exact t2⟩

/-- … and therefore every history does. -/
theorem ledger_run (ops : List Op) : ∀ {s : State} {evs : List Event}, LedgerOk cfg s evs →
    LedgerOk cfg (run cfg s ops).1 (evs ++ runEvents cfg s ops) := by
  induction ops with
  | nil => intro s evs h; simpa [runEvents, run] using h
  | cons op ops ih =>
    intro s evs h
    have := ih (ledger_step h op)
    show LedgerOk cfg (run cfg (step cfg s op).1 ops).1 _
    simpa [runEvents, List.append_assoc] using this

/-- what the invariant says about the final state: a buffer is in the ledger (entered, not left)
with capacity `c` iff it is the buffer of a live box whose Vec has capacity `c > 0` … -/
theorem LedgerOk.live_iff {s : State} {evs : List Event} (h : LedgerOk cfg s evs) (b c : Nat) :
    (b, c) ∈ (Ledger.empty.run evs).live ↔
      0 < c ∧ ∃ j y, getI s j = some y ∧ y.live = true ∧ y.buf = b ∧ y.cap = c := by
  rw [h.inv.live_iff]
  constructor
  · rintro ⟨hc, p, hp⟩
    cases p with
    | none => cases hp
    | some j => obtain ⟨y, hy⟩ := hp; exact ⟨hc, j, y, hy⟩
  · rintro ⟨hc, j, y, hy⟩; exact ⟨hc, some j, y, hy⟩

/-- … of exactly one live box. -/
theorem LedgerOk.owner_unique {s : State} {evs : List Event} (h : LedgerOk cfg s evs) {j j' : Nat} {y y' : Inner}
    (hy : getI s j = some y) (hy' : getI s j' = some y') (hl : y.live = true) (hl' : y'.live = true)
    (hb : y.buf = y'.buf) : j = j' := by
  apply Classical.byContradiction
  intro hne
  exact h.wf.bufDistinct j j' y y' hy hy' hne hl hl' hb

/-- **No buffer leak.** Once every value has been dropped or converted away (every slot is empty)
no buffer is left in the system: every buffer that ever entered has left. -/
theorem no_buffer_leak {s : State} {evs : List Event} (h : LedgerOk cfg s evs) (hnone : ∀ k, getH s k = none) :
    (Ledger.empty.run evs).live = [] := by
  apply List.eq_nil_iff_forall_not_mem.mpr
  rintro ⟨b, c⟩ hm
  obtain ⟨_, j, y, hy, hl, _⟩ := (h.live_iff b c).mp hm
  have := all_dropped_all_freed h.wf hnone j y hy
  rw [hl] at this; cases this

/-! ### reading `Accepted` as statements about the event sequence -/

theorem stay_or_leave (evs : List Event) : ∀ (L : Ledger) (b : Nat), b ∈ L.liveIds →
    b ∈ (L.run evs).liveIds ∨ ∃ e, e ∈ evs ∧ leavesId e = some b := by
  induction evs with
  | nil => intro L b h; exact Or.inl h
  | cons e r ih =>
    intro L b h
    by_cases hl : leavesId e = some b
    · exact Or.inr ⟨e, List.mem_cons_self .., hl⟩
    · have hkeep : b ∈ (L.apply e).liveIds := by
        have k1 : ∀ (L' : Ledger) b0 c0, b ∈ L'.liveIds → b ∈ (L'.enter b0 c0).liveIds :=
          fun L' b0 c0 h' => by rw [Ledger.liveIds_enter]; exact List.mem_cons_of_mem _ h'
        cases e with
        | allocBuf b0 c0 => exact k1 L b0 c0 h
        | importBuf b0 c0 => exact k1 L b0 c0 h
        | growBuf old new c0 =>
          exact k1 _ new c0 (Ledger.mem_liveIds_leave.mpr ⟨h, fun e => hl (by simp [leavesId, e])⟩)
        | freeBuf b0 => exact Ledger.mem_liveIds_leave.mpr ⟨h, fun e => hl (by simp [leavesId, e])⟩
        | exportBuf b0 => exact Ledger.mem_liveIds_leave.mpr ⟨h, fun e => hl (by simp [leavesId, e])⟩
        | allocInner _ => exact h
        | freeInner _ => exact h
        | write _ _ _ => exact h
      rcases ih _ b hkeep with h1 | ⟨e', he', hl'⟩
      · exact Or.inl h1
      · exact Or.inr ⟨e', List.mem_cons_of_mem _ he', hl'⟩

/-- **(B1) The events of every history balance.**  From a well-formed state without boxes, for
the events `evs` of any history ending in `s`:
1. every event passes its ledger check;
2. every buffer identity ENTERS (`allocBuf`, `importBuf`, new side of `growBuf`) at most once;
3. every buffer identity LEAVES (`freeBuf`, `exportBuf`, old side of `growBuf`) at most once;
4. a buffer leaves only after it entered;
5. the buffers that entered and have not left are exactly the buffers of the live boxes of `s`
   whose Vec has a capacity `> 0`, each owned by exactly one live box. -/
theorem buffers_balanced {s0 : State} (w : Wf cfg s0) (h0 : s0.inners = []) (ops : List Op) :
    Accepted Ledger.empty (runEvents cfg s0 ops) ∧
    (∀ b, (runEvents cfg s0 ops).countP (fun e => entersId e == some b) ≤ 1) ∧
    (∀ b, (runEvents cfg s0 ops).countP (fun e => leavesId e == some b) ≤ 1) ∧
    (∀ pre e post b, runEvents cfg s0 ops = pre ++ e :: post → leavesId e = some b →
      ∃ e', e' ∈ pre ∧ entersId e' = some b) ∧
    (∀ b c, (b, c) ∈ (Ledger.empty.run (runEvents cfg s0 ops)).live ↔
      0 < c ∧ ∃ j y, getI (run cfg s0 ops).1 j = some y ∧ y.live = true ∧ y.buf = b ∧ y.cap = c) ∧
    (∀ j j' y y', getI (run cfg s0 ops).1 j = some y → getI (run cfg s0 ops).1 j' = some y' →
      y.live = true → y'.live = true → y.buf = y'.buf → j = j') := by
  have hL := ledger_run (cfg := cfg) ops (ledger_init w h0)
  simp only [List.nil_append] at hL
  have hacc := hL.accepted
  refine ⟨hacc, ?_, ?_, ?_, hL.live_iff, fun j j' y y' hy hy' hl hl' hb => hL.owner_unique hy hy' hl hl' hb⟩
  · intro b
    have := enters_at_most_once _ hacc b
    split at this <;> omega
  · intro b
    have := leaves_at_most_once _ ledgerWf_empty hacc b
    split at this <;> omega
  · intro pre e post b hsplit hleave
    exact leaves_after_enter hacc hsplit hleave

/-- **(B1, prefix-closed form) `#leaves(b) ≤ #enters(b) ≤ 1` on every prefix** of the event list of
every history, for every buffer identity `b`: at no moment has a buffer been released more often
than it was obtained, and no identity is ever obtained twice. -/
theorem enter_leave_pairing {s0 : State} (w : Wf cfg s0) (h0 : s0.inners = []) (ops : List Op)
    {pre post : List Event} (hsplit : runEvents cfg s0 ops = pre ++ post) (b : Nat) :
    pre.countP (fun e => leavesId e == some b) ≤ pre.countP (fun e => entersId e == some b) ∧
    pre.countP (fun e => entersId e == some b) ≤ 1 := by
  have hacc := (buffers_balanced (cfg := cfg) w h0 ops).1
  rw [hsplit] at hacc
  exact enter_leave_counts (accepted_append.mp hacc).1 b

/-- **(B1) the buffer of every live box was obtained exactly once and never released**: in the
final state of every history, a live box whose Vec has capacity `c > 0` and buffer `b` has exactly
one enter event for `b` in the history (carrying that very capacity `c`) and no leave event. -/
theorem live_box_buffer_entered {s0 : State} (w : Wf cfg s0) (h0 : s0.inners = []) (ops : List Op)
    {j : Nat} {y : Inner} (hy : getI (run cfg s0 ops).1 j = some y) (hl : y.live = true) (hc : 0 < y.cap) :
    (runEvents cfg s0 ops).countP (fun e => entersId e == some y.buf) = 1 ∧
    (runEvents cfg s0 ops).countP (fun e => leavesId e == some y.buf) = 0 ∧
    ∃ e, e ∈ runEvents cfg s0 ops ∧ entersWith e = some (y.buf, y.cap) := by
  obtain ⟨hacc, _, _, _, hiff, _⟩ := buffers_balanced (cfg := cfg) w h0 ops
  exact live_entered_once_never_left hacc ((hiff y.buf y.cap).mpr ⟨hc, j, y, hy, hl, rfl, rfl⟩)

/-- **(B1, corollary) every buffer that entered has left once all values are gone.** -/
theorem all_buffers_released {s0 : State} (w : Wf cfg s0) (h0 : s0.inners = []) (ops : List Op)
    (hnone : ∀ k, getH (run cfg s0 ops).1 k = none) {e : Event} {b : Nat}
    (he : e ∈ runEvents cfg s0 ops) (hent : entersId e = some b) :
    ∃ e', e' ∈ runEvents cfg s0 ops ∧ leavesId e' = some b := by
  have hL := ledger_run (cfg := cfg) ops (ledger_init w h0)
  simp only [List.nil_append] at hL
  have hempty := no_buffer_leak hL hnone
  obtain ⟨pre, post, hsplit⟩ := List.append_of_mem he
  have hin : b ∈ ((Ledger.empty.run pre).apply e).liveIds := by
    cases e <;> simp [entersId, entersWith] at hent <;> subst hent <;> simp [Ledger.apply, Ledger.liveIds, Ledger.enter]
  rcases stay_or_leave post _ b hin with hstay | ⟨e', he', hl⟩
  · exfalso
    have : (Ledger.empty.run (runEvents cfg s0 ops)) = ((Ledger.empty.run pre).apply e).run post := by
      rw [hsplit, Ledger.run_append]; rfl
    rw [this] at hempty
    obtain ⟨c, hc⟩ := Ledger.mem_liveIds.mp hstay
    rw [hempty] at hc; cases hc
  · exact ⟨e', by rw [hsplit]; exact List.mem_append.mpr (Or.inr (List.mem_cons_of_mem _ he')), hl⟩

/-- **(B2) Writes stay within the block's requested size.**  Every `write b lo hi` event of a
history is a well-formed range, and at that moment buffer `b` is in the system with a recorded
capacity `c ≥ hi` — the capacity of the very event with which `b` entered (`allocBuf b c`,
`importBuf b c`, or `growBuf _ b c`: identities are never reused, so a reallocation gets a new
identity).  This covers the boxes' Vecs as well as the temporary Vecs of `Vec::from(hip)` and of a
`mutate` guard. -/
theorem writes_within_cap {s0 : State} (w : Wf cfg s0) (h0 : s0.inners = []) (ops : List Op)
    {pre post : List Event} {b lo hi : Nat}
    (hsplit : runEvents cfg s0 ops = pre ++ Event.write b lo hi :: post) :
    lo ≤ hi ∧
    ∃ c, (b, c) ∈ (Ledger.empty.run pre).live ∧ hi ≤ c ∧ ∃ e', e' ∈ pre ∧ entersWith e' = some (b, c) := by
  have hacc := (buffers_balanced (cfg := cfg) w h0 ops).1
  rw [hsplit] at hacc
  obtain ⟨_, hgood, _⟩ := accepted_split hacc
  obtain ⟨hlh, c, hc, hle⟩ := hgood
  refine ⟨hlh, c, hc, hle, ?_⟩
  rcases live_entered pre Ledger.empty b c hc with h | h
  · cases h
  · exact h

/-- **(B3) No write after a buffer left the system** (freed, exported, or reallocated away). -/
theorem no_write_after_leave {s0 : State} (w : Wf cfg s0) (h0 : s0.inners = []) (ops : List Op)
    {pre post : List Event} {e : Event} {b : Nat}
    (hsplit : runEvents cfg s0 ops = pre ++ e :: post) (hleave : leavesId e = some b) :
    ∀ lo hi, Event.write b lo hi ∉ post := by
  have hacc := (buffers_balanced (cfg := cfg) w h0 ops).1
  rw [hsplit] at hacc
  obtain ⟨hpre, hgood, hpost⟩ := accepted_split hacc
  have hw := ledgerWf_apply (ledgerWf_run ledgerWf_empty hpre) hgood
  exact no_write_when_gone post hw hpost b (Ledger.leaves_gone _ hleave)

end HipVerif.Core

namespace HipVerif.Core
/-- non-vacuity: the initial states of the model satisfy the hypotheses of the theorems above -/
example (cfg : Cfg) (srcs : List (List UInt8)) (n : Nat) : LedgerOk cfg (init srcs n) [] :=
  ledger_init (wf_init cfg srcs n) rfl
end HipVerif.Core
