/-
The slot-level model (Model/Slots*.lean, C14/C15) computes the contents that the list-level model
(Model/Vecs.lean, C13) computes: abstraction `absL`, per-operation "spec" lemmas of the slot
operations on fault-free runs (part 1: InlineVec).
-/
import HipVerif.Lemmas.SlotsStep
import HipVerif.Lemmas.Vecs
namespace HipVerif.Slots

variable {fl : Bool}

/-- the ids in the live slots below `len`, in order -/
def absL (s : St) : List Nat :=
  (s.v.slots.take s.v.len).filterMap (fun x => match x with | .init a => some a | .uninit => none)

theorem filterMap_init (L : List Nat) :
    (L.map Slot.init).filterMap (fun x => match x with | .init a => some a | .uninit => none) = L := by
  induction L with
  | nil => rfl
  | cons a L ih => simp [ih]

theorem absL_of_view {s : St} {L : List Nat} (h : LocalVec s.v L) : absL s = L := by
  obtain ⟨e1, rest, e2⟩ := h
  unfold absL
  rw [e2, e1, List.take_left' (by simp)]
  exact filterMap_init L

theorem OwnL.view {s loc locB} (h : OwnL fl s loc locB) : LocalVec s.v (absL s) := by
  obtain ⟨L, rest, e1, e2, -, -⟩ := h
  have hv : LocalVec s.v L := ⟨e1, rest, e2⟩
  rw [absL_of_view hv]; exact hv

theorem LocalVec.len_le {v : Vec} {L : List Nat} (h : LocalVec v L) : L.length ≤ v.cap := by
  obtain ⟨_, rest, e2⟩ := h
  simp [Vec.cap, e2]

/-! ### Memory primitives when no fault is armed -/

theorem Mem.cloneId_of_none {m : Mem} (a : Nat) (h : m.budget = none) :
    ∃ m', m.cloneId a = (some m.next, m') ∧ m'.budget = none ∧ m'.out = m.out ∧
      m'.next = m.next + 1 := by
  unfold Mem.cloneId Mem.tick
  rw [h]
  exact ⟨_, rfl, rfl, rfl, rfl⟩

theorem Mem.genVal_of_none {m : Mem} (h : m.budget = none) :
    ∃ m', m.genVal = (some m.next, m') ∧ m'.budget = none ∧ m'.out = m.out ∧
      m'.next = m.next + 1 := by
  unfold Mem.genVal Mem.tick
  rw [h]
  exact ⟨_, rfl, rfl, rfl, rfl⟩

theorem Mem.dropId_next (a : Nat) (m : Mem) : (m.dropId a).2.next = m.next := by
  unfold Mem.dropId Mem.tick Mem.markDrop
  split <;> split <;> rfl

/-! ### Core view lemmas (pure slot-array facts) -/

theorem LocalVec.setLen_take {v : Vec} {L : List Nat} (h : LocalVec v L) (n : Nat)
    (hn : n ≤ L.length) : LocalVec (v.setLen n) (L.take n) := by
  obtain ⟨e1, rest, e2⟩ := h
  refine ⟨by simp [Vec.setLen]; omega, (L.drop n).map .init ++ rest, ?_⟩
  simp only [Vec.setLen, e2]
  rw [← List.append_assoc, ← List.map_append, List.take_append_drop]

theorem LocalVec.get {v : Vec} {L : List Nat} (h : LocalVec v L) {i : Nat} (hi : i < L.length) :
    v.get i = .init L[i] := by
  obtain ⟨_, rest, e2⟩ := h
  simp [Vec.get, e2, List.getElem?_append_left, hi]

theorem LocalVec.range_sub {v : Vec} {L : List Nat} (h : LocalVec v L) {a b : Nat} (hab : a ≤ b)
    (hb : b ≤ L.length) : v.range a b = ((L.drop a).take (b - a)).map .init := by
  obtain ⟨_, rest, e2⟩ := h
  simp only [Vec.range, e2, List.map_take, List.map_drop]
  rw [List.drop_append, List.take_append]
  simp
  omega

/-- the shift of `insert` at the view level -/
theorem LocalVec.insertCore {s : St} {L : List Nat} (x i : Nat) (h : LocalVec s.v L)
    (hi : i ≤ L.length) (hc : L.length < s.v.cap) :
    LocalVec (iInsertCore i x s).v (L.take i ++ x :: L.drop i) ∧
      (iInsertCore i x s).v.cap = s.v.cap ∧ (iInsertCore i x s).mem = s.mem ∧
      (iInsertCore i x s).v.h = s.v.h := by
  obtain ⟨e1, rest, e2⟩ := h
  have e3 : s.v.slots = (L.take i).map .init ++ (L.drop i).map .init ++ rest := by
    rw [← List.map_append, List.take_append_drop]; exact e2
  have hchunk : s.v.range i (i + (s.v.len - i)) = (L.drop i).map .init :=
    Vec.range_mid e3 (by simp; omega) (by simp; omega)
  have hne : (L.drop i).map Slot.init ++ rest ≠ [] := by
    intro hnil
    have := congrArg List.length hnil
    simp only [Vec.cap, e2, List.length_append, List.length_map, List.length_nil,
      List.length_drop] at hc this
    omega
  unfold iInsertCore
  simp only
  have hb : i + 1 + ((L.drop i).map Slot.init).length ≤ s.v.cap := by simp; omega
  rw [St.copyWithin_eq hchunk hb]
  have hcap : i < ({ s with v := s.v.writeChunk (i + 1) ((L.drop i).map .init) } : St).v.cap := by
    simp only [Vec.writeChunk_cap hb]; omega
  simp only [St.wr, if_pos hcap]
  obtain ⟨Y, hY⟩ := insert_raw (A := (L.take i).map .init) (R := (L.drop i).map .init ++ rest)
    (X := (L.drop i).map .init) (x := .init x) hne
  have hl : ((L.take i).map Slot.init).length = i := by simp; omega
  refine ⟨⟨by simp [St.setLen, Vec.setLen]; omega, Y, ?_⟩, ?_, rfl, rfl⟩
  · simp only [St.setLen, Vec.setLen, Vec.write, Vec.writeChunk, e3, List.append_assoc,
      List.length_map]
    simp only [hl, List.append_assoc, List.length_map] at hY
    rw [hY]
    simp
  · have := Vec.writeChunk_cap hb
    simp only [Vec.cap, St.setLen, Vec.setLen, Vec.write, List.length_set] at this ⊢
    exact this

/-- a chunk of ids written right behind the first `d` ids, length set to cover it -/
theorem LocalVec.writeChunk {v : Vec} {L T : List Nat} (h : LocalVec v L) (d : Nat)
    (hd : d ≤ L.length) (hb : d + T.length ≤ v.cap) :
    LocalVec ((v.writeChunk d (T.map .init)).setLen (d + T.length)) (L.take d ++ T) ∧
      ((v.writeChunk d (T.map .init)).setLen (d + T.length)).cap = v.cap := by
  obtain ⟨e1, rest, e2⟩ := h
  have e3 : v.slots = (L.take d).map .init ++ ((L.drop d).map .init ++ rest) := by
    rw [← List.append_assoc, ← List.map_append, List.take_append_drop]; exact e2
  obtain ⟨Y, hY⟩ := writeChunk_at (A := (L.take d).map .init) (R := (L.drop d).map .init ++ rest)
    (X := T.map .init)
  have hl : ((L.take d).map Slot.init).length = d := by simp; omega
  refine ⟨⟨by simp [Vec.setLen]; omega, Y, ?_⟩, ?_⟩
  · simp only [Vec.setLen, Vec.writeChunk, e3, List.length_map]
    simp only [hl, List.length_map] at hY
    rw [hY]; simp
  · have := Vec.writeChunk_cap (v := v) (d := d) (X := T.map .init) (by simpa using hb)
    simpa [Vec.cap, Vec.setLen] using this

/-- what a slot operation leaves behind, as far as the list model can see: the contents, and that
capacity and header (kind, element size, prefix, liveness) are unchanged -/
structure Post (s s' : St) (L' : List Nat) : Prop where
  view : LocalVec s'.v L'
  cap : s'.v.cap = s.v.cap
  hdr : s'.v.h = s.v.h

theorem Post.same {s s' : St} {L : List Nat} (hv : LocalVec s.v L) (h : s'.v = s.v) : Post s s' L :=
  ⟨by rw [h]; exact hv, by rw [h], by rw [h]⟩

theorem St.store_post {s : St} {L : List Nat} (b : Nat) (hv : LocalVec s.v L)
    (hc : L.length < s.v.cap) : Post s (s.store b) (L ++ [b]) := by
  have hc' : s.v.len < s.v.cap := by rw [hv.1]; exact hc
  rw [St.store_eq hc']
  exact ⟨hv.store hc', by simp [Vec.store, Vec.setLen, Vec.write, Vec.cap], rfl⟩

theorem Post.of_eq {s s1 s' : St} {L' : List Nat} (h : s1.v = s.v) (hp : Post s1 s' L') :
    Post s s' L' := ⟨hp.view, by rw [hp.cap, h], by rw [hp.hdr, h]⟩

theorem iTryPush_spec {s : St} {L : List Nat} (hv : LocalVec s.v L) :
    (iTryPush s).1 = (if L.length < s.v.cap then .unit else .errFull s.mem.next) ∧
    Post s (iTryPush s).2 (if L.length < s.v.cap then L ++ [s.mem.next] else L) := by
  unfold iTryPush
  have hv' : (s.onMem Mem.mkVal).2.v = s.v := rfl
  have hx : (s.onMem Mem.mkVal).1 = s.mem.next := rfl
  generalize s.onMem Mem.mkVal = r at hv' hx
  obtain ⟨x, s1⟩ := r
  simp only at hv' hx ⊢
  subst hx
  have hv1 : LocalVec s1.v L := by rw [hv']; exact hv
  by_cases hc : L.length < s.v.cap
  · have hc1 : s1.v.len < s1.v.cap := by rw [hv', hv.1]; exact hc
    rw [if_pos hc1, if_pos hc, if_pos hc]
    exact ⟨rfl, (St.store_post _ hv1 (by rw [hv']; exact hc)).of_eq hv'⟩
  · have hc1 : ¬ s1.v.len < s1.v.cap := by rw [hv', hv.1]; exact hc
    rw [if_neg hc1, if_neg hc, if_neg hc]
    exact ⟨rfl, Post.same hv hv'⟩

theorem iPush_spec {s : St} {L : List Nat} (hv : LocalVec s.v L) :
    (iPush s).1 = (if L.length < s.v.cap then .unit else .panic) ∧
    Post s (iPush s).2 (if L.length < s.v.cap then L ++ [s.mem.next] else L) := by
  unfold iPush
  have hv' : (s.onMem Mem.mkVal).2.v = s.v := rfl
  have hx : (s.onMem Mem.mkVal).1 = s.mem.next := rfl
  generalize s.onMem Mem.mkVal = r at hv' hx
  obtain ⟨x, s1⟩ := r
  simp only at hv' hx ⊢
  subst hx
  have hv1 : LocalVec s1.v L := by rw [hv']; exact hv
  by_cases hc : L.length < s.v.cap
  · have hc1 : s1.v.len < s1.v.cap := by rw [hv', hv.1]; exact hc
    rw [if_pos hc1, if_pos hc, if_pos hc]
    exact ⟨rfl, (St.store_post _ hv1 (by rw [hv']; exact hc)).of_eq hv'⟩
  · have hc1 : ¬ s1.v.len < s1.v.cap := by rw [hv', hv.1]; exact hc
    rw [if_neg hc1, if_neg hc, if_neg hc]
    exact ⟨rfl, Post.same hv hv'⟩

theorem iPop_spec {s : St} {L : List Nat} (hv : LocalVec s.v L) :
    (iPop s).1 = (match L.getLast? with | none => .none | some a => .some a) ∧
    Post s (iPop s).2 L.dropLast := by
  unfold iPop
  rw [hv.1]
  rcases eq_nil_or_snoc L with rfl | ⟨M, z, rfl⟩
  · simp only [List.length_nil, if_true]
    exact ⟨rfl, Post.same hv rfl⟩
  · have hne : (M ++ [z]).length ≠ 0 := by simp
    rw [if_neg hne]
    have hg : s.v.get ((M ++ [z]).length - 1) = .init z := by
      rw [hv.get (i := (M ++ [z]).length - 1) (by simp)]; simp
    simp only [St.onMem_eq, hg, Mem.readMove]
    refine ⟨by simp, ?_⟩
    have := hv.setLen_take ((M ++ [z]).length - 1) (by omega)
    simp only [List.length_append, List.length_cons, List.length_nil, Nat.add_sub_cancel,
      List.take_left', List.dropLast_concat] at this ⊢
    have hl : s.v.len - 1 = M.length := by rw [hv.1]; simp
    exact ⟨by simpa [St.setLen, hl] using this, rfl, rfl⟩

theorem iTryInsert_spec {s : St} {L : List Nat} (i : Nat) (hv : LocalVec s.v L) :
    (iTryInsert i s).1 = (if i > L.length then .errOob s.mem.next
      else if L.length = s.v.cap then .errFull s.mem.next else .unit) ∧
    Post s (iTryInsert i s).2 (if i > L.length ∨ L.length = s.v.cap then L
      else L.take i ++ s.mem.next :: L.drop i) := by
  unfold iTryInsert
  have hv' : (s.onMem Mem.mkVal).2.v = s.v := rfl
  have hx : (s.onMem Mem.mkVal).1 = s.mem.next := rfl
  generalize s.onMem Mem.mkVal = r at hv' hx
  obtain ⟨x, s1⟩ := r
  simp only at hv' hx ⊢
  subst hx
  have hv1 : LocalVec s1.v L := by rw [hv']; exact hv
  have hle := hv.len_le
  by_cases h1 : i > L.length
  · have h1' : i > s1.v.len := by rw [hv', hv.1]; exact h1
    rw [if_pos h1', if_pos h1, if_pos (Or.inl h1)]
    exact ⟨rfl, Post.same hv hv'⟩
  · have h1' : ¬ i > s1.v.len := by rw [hv', hv.1]; exact h1
    rw [if_neg h1', if_neg h1]
    by_cases h2 : L.length = s.v.cap
    · have h2' : s1.v.len = s1.v.cap := by rw [hv', hv.1]; exact h2
      rw [if_pos h2', if_pos h2, if_pos (Or.inr h2)]
      exact ⟨rfl, Post.same hv hv'⟩
    · have h2' : ¬ s1.v.len = s1.v.cap := by rw [hv', hv.1]; exact h2
      rw [if_neg h2', if_neg h2, if_neg (by omega)]
      obtain ⟨c1, c2, _, c4⟩ := hv1.insertCore s.mem.next i (by omega) (by rw [hv']; omega)
      exact ⟨rfl, ⟨c1, by rw [c2, hv'], by rw [c4, hv']⟩⟩

theorem iInsert_spec {s : St} {L : List Nat} (i : Nat) (hv : LocalVec s.v L) :
    (iInsert i s).1 = (if i > L.length ∨ L.length = s.v.cap then .panic else .unit) ∧
    Post s (iInsert i s).2 (if i > L.length ∨ L.length = s.v.cap then L
      else L.take i ++ s.mem.next :: L.drop i) := by
  unfold iInsert
  have hv' : (s.onMem Mem.mkVal).2.v = s.v := rfl
  have hx : (s.onMem Mem.mkVal).1 = s.mem.next := rfl
  generalize s.onMem Mem.mkVal = r at hv' hx
  obtain ⟨x, s1⟩ := r
  simp only at hv' hx ⊢
  subst hx
  have hv1 : LocalVec s1.v L := by rw [hv']; exact hv
  have hle := hv.len_le
  by_cases h1 : i > L.length ∨ L.length = s.v.cap
  · have h1' : i > s1.v.len ∨ s1.v.len = s1.v.cap := by rw [hv', hv.1]; exact h1
    rw [if_pos h1', if_pos h1, if_pos h1]
    exact ⟨rfl, Post.same hv hv'⟩
  · have h1' : ¬ (i > s1.v.len ∨ s1.v.len = s1.v.cap) := by rw [hv', hv.1]; exact h1
    rw [if_neg h1', if_neg h1, if_neg h1]
    obtain ⟨c1, c2, _, c4⟩ := hv1.insertCore s.mem.next i (by omega) (by rw [hv']; omega)
    exact ⟨rfl, ⟨c1, by rw [c2, hv'], by rw [c4, hv']⟩⟩

theorem iRemove_spec {s : St} {L : List Nat} (i : Nat) (hv : LocalVec s.v L) :
    (iRemove i s).1 = (match L[i]? with | some a => .some a | none => .panic) ∧
    Post s (iRemove i s).2 (L.take i ++ L.drop (i + 1)) := by
  unfold iRemove
  rw [hv.1]
  by_cases hi : i < L.length
  · rw [if_pos hi]
    have hg := hv.get hi
    simp only [St.onMem_eq, hg, Mem.readMove, List.getElem?_eq_getElem hi]
    have hle := hv.len_le
    have hchunk : s.v.range (i + 1) (i + 1 + (L.length - i - 1)) = (L.drop (i + 1)).map .init := by
      have := hv.range_sub (a := i + 1) (b := L.length) (by omega) (Nat.le_refl _)
      rw [show i + 1 + (L.length - i - 1) = L.length by omega, this,
        List.take_of_length_le (by simp)]
    have hb : i + ((L.drop (i + 1)).map Slot.init).length ≤ s.v.cap := by simp; omega
    have hs : ({ s with mem := s.mem } : St) = s := rfl
    rw [hs, St.copyWithin_eq hchunk hb]
    obtain ⟨c1, c2⟩ := hv.writeChunk (T := L.drop (i + 1)) i (by omega) (by simpa using hb)
    refine ⟨trivial, ⟨?_, ?_, rfl⟩⟩
    · have hl : i + (L.drop (i + 1)).length = L.length - 1 := by simp; omega
      rw [hl] at c1
      simpa [St.setLen, St.withMem] using c1
    · have hl : i + (L.drop (i + 1)).length = L.length - 1 := by simp; omega
      rw [hl] at c2
      simpa [St.setLen, St.withMem, Vec.cap, Vec.setLen] using c2
  · rw [if_neg hi]
    have : L[i]? = none := by simp; omega
    rw [this]
    refine ⟨rfl, ?_⟩
    have e : L.take i ++ L.drop (i + 1) = L := by
      rw [List.take_of_length_le (by omega), List.drop_of_length_le (by omega)]; simp
    rw [e]
    exact Post.same hv rfl


/-- shape of `swap_remove` on `L1 ++ a :: L2` -/
theorem swap_shape (L1 : List Nat) (a : Nat) (L2 : List Nat) :
    ∃ (K : List Nat) (z : Nat), (L1 ++ a :: L2).getLast? = some z ∧
      ((L1 ++ a :: L2).set L1.length z).dropLast = L1 ++ K ∧ L2.length = K.length ∧
      ((L2 = [] ∧ K = [] ∧ z = a) ∨ ∃ M, L2 = M ++ [z] ∧ K = z :: M) := by
  rcases eq_nil_or_snoc L2 with rfl | ⟨M, z, rfl⟩
  · refine ⟨[], a, by simp, ?_, rfl, Or.inl ⟨rfl, rfl, rfl⟩⟩
    rw [List.set_append_right _ _ (Nat.le_refl _)]; simp
  · refine ⟨z :: M, z, ?_, ?_, by simp, Or.inr ⟨M, rfl, rfl⟩⟩
    · rw [show L1 ++ a :: (M ++ [z]) = (L1 ++ a :: M) ++ [z] by simp, List.getLast?_concat]
    rw [List.set_append_right _ _ (Nat.le_refl _)]
    simp only [Nat.sub_self, List.set_cons_zero]
    rw [show L1 ++ z :: (M ++ [z]) = (L1 ++ z :: M) ++ [z] by simp, List.dropLast_concat]

theorem split_at_idx (L : List Nat) {i : Nat} (hi : i < L.length) :
    ∃ L1 a L2, L = L1 ++ a :: L2 ∧ L1.length = i ∧ L[i]? = some a :=
  ⟨L.take i, L[i], L.drop (i + 1),
    by rw [← List.drop_eq_getElem_cons hi, List.take_append_drop], by simp; omega,
    List.getElem?_eq_getElem hi⟩

/-- the slot array after `swap(i, len-1)` resp. after copying the last slot over slot `i` -/
theorem swap_slots {v : Vec} (L1 : List Nat) (a : Nat) (L2 : List Nat) (rest : List Slot)
    (e2 : v.slots = (L1 ++ a :: L2).map .init ++ rest) (K : List Nat) (z : Nat)
    (hK : (L2 = [] ∧ K = [] ∧ z = a) ∨ ∃ M, L2 = M ++ [z] ∧ K = z :: M) :
    v.get L1.length = .init a ∧ v.get (L1.length + L2.length) = .init z ∧
    (v.slots.set L1.length (v.get (L1.length + L2.length))).set (L1.length + L2.length)
        (v.get L1.length) = (L1 ++ K).map .init ++ .init a :: rest ∧
    v.slots.take L1.length ++ [v.get (L1.length + L2.length)] ++ v.slots.drop (L1.length + 1)
        = (L1 ++ K).map .init ++ .init z :: rest := by
  rcases hK with ⟨rfl, rfl, rfl⟩ | ⟨M, rfl, rfl⟩
  · simp [Vec.get, e2, List.drop_append]
  · simp [Vec.get, e2, List.drop_append]

theorem iSwapRemove_spec {s : St} {L : List Nat} (i : Nat) (hv : LocalVec s.v L) :
    (iSwapRemove i s).1 = (match L[i]? with | some a => .some a | none => .panic) ∧
    Post s (iSwapRemove i s).2
      (match L[i]?, L.getLast? with | some _, some z => (L.set i z).dropLast | _, _ => L) := by
  unfold iSwapRemove
  rw [hv.1]
  by_cases hi : i < L.length
  · rw [if_pos hi]
    obtain ⟨L1, a, L2, rfl, h1, h2⟩ := split_at_idx L hi
    obtain ⟨K, z, k1, k2, k3, k4⟩ := swap_shape L1 a L2
    obtain ⟨e1, rest, e2⟩ := hv
    obtain ⟨g1, g2, g3, -⟩ := swap_slots L1 a L2 rest e2 K z k4
    have hlen : (L1 ++ a :: L2).length - 1 = L1.length + L2.length := by simp
    subst h1
    dsimp only
    rw [h2, k1, hlen]
    simp only [k2]
    have hg : (({ s with v := s.v.swap L1.length (L1.length + L2.length) } : St).setLen
        (L1.length + L2.length)).v.get (L1.length + L2.length) = .init a := by
      show ((s.v.slots.set L1.length (s.v.get (L1.length + L2.length))).set
        (L1.length + L2.length) (s.v.get L1.length))[L1.length + L2.length]?.getD Slot.uninit = _
      rw [g3, List.getElem?_append_right (by simp; omega)]
      simp [k3]
    simp only [St.onMem_eq, hg, Mem.readMove]
    refine ⟨trivial, ⟨⟨by simp [St.setLen, Vec.setLen, k3], .init a :: rest, ?_⟩, ?_, rfl⟩⟩
    · simpa [St.setLen, Vec.setLen, Vec.swap, St.withMem] using g3
    · simp [St.setLen, Vec.setLen, Vec.swap, St.withMem, Vec.cap]
  · rw [if_neg hi]
    have : L[i]? = none := by simp; omega
    rw [this]
    exact ⟨rfl, Post.same hv rfl⟩

theorem tSwapRemove_spec {s : St} {L : List Nat} (i : Nat) (hv : LocalVec s.v L) :
    (tSwapRemove i s).1 = (match L[i]? with | some a => .some a | none => .panic) ∧
    Post s (tSwapRemove i s).2
      (match L[i]?, L.getLast? with | some _, some z => (L.set i z).dropLast | _, _ => L) := by
  unfold tSwapRemove
  rw [hv.1]
  by_cases hi : i < L.length
  · rw [if_pos hi]
    have hle := hv.len_le
    obtain ⟨L1, a, L2, rfl, h1, h2⟩ := split_at_idx L hi
    obtain ⟨K, z, k1, k2, k3, k4⟩ := swap_shape L1 a L2
    obtain ⟨e1, rest, e2⟩ := hv
    obtain ⟨g1, g2, -, g4⟩ := swap_slots L1 a L2 rest e2 K z k4
    have hlen : (L1 ++ a :: L2).length - 1 = L1.length + L2.length := by simp
    subst h1
    dsimp only
    rw [h2, k1, hlen]
    simp only [k2, St.onMem_eq, g1, Mem.readMove]
    have hr : s.v.range (L1.length + L2.length) (L1.length + L2.length + 1)
        = [s.v.get (L1.length + L2.length)] :=
      Vec.range_one (by simp at hle; omega)
    have hs : ({ s with mem := s.mem } : St) = s := rfl
    rw [hs, St.copyWithin_eq hr (by simp at hle ⊢; omega)]
    refine ⟨trivial, ⟨⟨by simp [St.setLen, Vec.setLen, k3], .init z :: rest, ?_⟩, ?_, rfl⟩⟩
    · simpa [St.setLen, Vec.setLen, Vec.writeChunk, St.withMem, g2] using g4
    · have := Vec.writeChunk_cap (v := s.v) (d := L1.length) (X := [s.v.get (L1.length + L2.length)])
        (by simp at hle ⊢; omega)
      simpa [St.setLen, Vec.setLen, St.withMem, Vec.cap] using this
  · rw [if_neg hi]
    have : L[i]? = none := by simp; omega
    rw [this]
    exact ⟨rfl, Post.same hv rfl⟩

theorem iTruncate_spec {s : St} {L : List Nat} (n : Nat) (hv : LocalVec s.v L)
    (hb : s.mem.budget = none) :
    (iTruncate n s).1 = false ∧ Post s (iTruncate n s).2 (L.take n) ∧
      (iTruncate n s).2.mem.budget = none := by
  unfold iTruncate
  rw [hv.1]
  by_cases hn : n < L.length
  · rw [if_pos hn]
    obtain ⟨d1, d2⟩ := Mem.dropLoop_of_none ((s.setLen n).v.range n L.length) s.mem hb
    refine ⟨d1, ⟨?_, rfl, rfl⟩, d2⟩
    exact hv.setLen_take n (by omega)
  · rw [if_neg hn, List.take_of_length_le (by omega)]
    exact ⟨rfl, Post.same hv rfl, hb⟩

theorem tTruncate_spec {s : St} {L : List Nat} (n : Nat) (hv : LocalVec s.v L)
    (hb : s.mem.budget = none) :
    (tTruncate n s).1 = false ∧ Post s (tTruncate n s).2 (L.take n) ∧
      (tTruncate n s).2.mem.budget = none := by
  unfold tTruncate
  rw [hv.1]
  by_cases hn : n > L.length
  · rw [if_pos hn, List.take_of_length_le (by omega)]
    exact ⟨rfl, Post.same hv rfl, hb⟩
  · rw [if_neg hn]
    obtain ⟨d1, d2⟩ := Mem.dropSlice_of_none ((s.setLen n).v.range n L.length) s.mem hb
    refine ⟨d1, ⟨?_, rfl, rfl⟩, d2⟩
    exact hv.setLen_take n (by omega)

theorem tClear_spec {s : St} {L : List Nat} (hv : LocalVec s.v L) (hb : s.mem.budget = none) :
    (tClear s).1 = false ∧ Post s (tClear s).2 [] := by
  unfold tClear
  obtain ⟨d1, _⟩ := Mem.dropSlice_of_none ((s.setLen 0).v.range 0 s.v.len) s.mem hb
  refine ⟨d1, ⟨?_, rfl, rfl⟩⟩
  have := hv.setLen_take 0 (Nat.zero_le _)
  simpa [St.setLen] using this


/-- result of a fault-free "produce a value, store it" loop: no panic, the fresh ids
`next, next+1, …` appended in order -/
structure Filled (s : St) (r : Bool × St) (L : List Nat) (k : Nat) : Prop where
  ok : r.1 = false
  post : Post s r.2 (L ++ List.range' s.mem.next k)
  budget : r.2.mem.budget = none
  next : r.2.mem.next = s.mem.next + k
  out : r.2.mem.out = s.mem.out

theorem Filled.step {s s1 : St} {L : List Nat} {k : Nat} {r : Bool × St}
    (hv1 : s1.v = s.v) (hn : s1.mem.next = s.mem.next + 1)
    (hout : s1.mem.out = s.mem.out)
    (hv : LocalVec s.v L) (hc : L.length < s.v.cap)
    (h : Filled (s1.store s.mem.next) r (L ++ [s.mem.next]) k) : Filled s r L (k + 1) := by
  have hp := St.store_post (s := s1) s.mem.next (by rw [hv1]; exact hv) (by rw [hv1]; exact hc)
  have hmem : (s1.store s.mem.next).mem = s1.mem := by
    rw [St.store_eq (by rw [hv1, hv.1]; exact hc)]
  refine ⟨h.ok, ⟨?_, ?_, ?_⟩, h.budget, ?_, ?_⟩
  · have := h.post.view
    rw [hmem, hn] at this
    simpa [List.range'_succ] using this
  · rw [h.post.cap, hp.cap, hv1]
  · rw [h.post.hdr, hp.hdr, hv1]
  · rw [h.next, hmem, hn]; omega
  · rw [h.out, hmem, hout]

theorem iFillGen_spec : ∀ (k : Nat) (s : St) (L : List Nat), LocalVec s.v L →
    s.mem.budget = none → L.length + k ≤ s.v.cap → Filled s (iFillGen k s) L k
  | 0, s, L, hv, hb, _ => by
    have hp : Post s s (L ++ List.range' s.mem.next 0) := by simpa using Post.same hv rfl
    exact ⟨rfl, hp, hb, rfl, rfl⟩
  | k + 1, s, L, hv, hb, hc => by
    unfold iFillGen
    obtain ⟨m', e1, e2, e3, e4⟩ := Mem.genVal_of_none hb
    simp only [St.onMem_eq, e1]
    refine Filled.step (s1 := { s with mem := m' }) rfl e4 e3 hv (by omega) ?_
    have hp := St.store_post (s := { s with mem := m' }) s.mem.next hv (by simp only; omega)
    have hmem : (St.store s.mem.next { s with mem := m' }).mem = m' := by
      rw [St.store_eq (by simp only; rw [hv.1]; omega)]
    have := iFillGen_spec k _ (L ++ [s.mem.next]) hp.view (by rw [hmem]; exact e2)
      (by rw [hp.cap]; simp; omega)
    exact this

theorem iFillClone_spec (x : Nat) : ∀ (k : Nat) (s : St) (L : List Nat), LocalVec s.v L →
    s.mem.budget = none → L.length + k ≤ s.v.cap → Filled s (iFillClone x k s) L k
  | 0, s, L, hv, hb, _ => by
    have hp : Post s s (L ++ List.range' s.mem.next 0) := by simpa using Post.same hv rfl
    exact ⟨rfl, hp, hb, rfl, rfl⟩
  | k + 1, s, L, hv, hb, hc => by
    unfold iFillClone
    obtain ⟨m', e1, e2, e3, e4⟩ := Mem.cloneId_of_none x hb
    simp only [St.onMem_eq, e1]
    refine Filled.step (s1 := { s with mem := m' }) rfl e4 e3 hv (by omega) ?_
    have hp := St.store_post (s := { s with mem := m' }) s.mem.next hv (by simp only; omega)
    have hmem : (St.store s.mem.next { s with mem := m' }).mem = m' := by
      rw [St.store_eq (by simp only; rw [hv.1]; omega)]
    exact iFillClone_spec x k _ (L ++ [s.mem.next]) hp.view (by rw [hmem]; exact e2)
      (by rw [hp.cap]; simp; omega)

theorem iCloneIds_spec : ∀ (srcs : List Nat) (s : St) (L : List Nat), LocalVec s.v L →
    s.mem.budget = none → L.length + srcs.length ≤ s.v.cap →
    Filled s (iCloneIds srcs s) L srcs.length
  | [], s, L, hv, hb, _ => by
    have hp : Post s s (L ++ List.range' s.mem.next 0) := by simpa using Post.same hv rfl
    exact ⟨rfl, hp, hb, rfl, rfl⟩
  | a :: as, s, L, hv, hb, hc => by
    unfold iCloneIds
    obtain ⟨m', e1, e2, e3, e4⟩ := Mem.cloneId_of_none a hb
    simp only [St.onMem_eq, e1, List.length_cons]
    simp only [List.length_cons] at hc
    refine Filled.step (s1 := { s with mem := m' }) rfl e4 e3 hv (by omega) ?_
    have hp := St.store_post (s := { s with mem := m' }) s.mem.next hv (by simp only; omega)
    have hmem : (St.store s.mem.next { s with mem := m' }).mem = m' := by
      rw [St.store_eq (by simp only; rw [hv.1]; omega)]
    exact iCloneIds_spec as _ (L ++ [s.mem.next]) hp.view (by rw [hmem]; exact e2)
      (by rw [hp.cap]; simp; omega)

theorem iCloneSlots_spec : ∀ (M : List Nat) (s : St) (L : List Nat), LocalVec s.v L →
    s.mem.budget = none → L.length + M.length ≤ s.v.cap → (∀ a ∈ M, a ∉ s.mem.out) →
    Filled s (iCloneSlots (M.map .init) s) L M.length
  | [], s, L, hv, hb, _, _ => by
    have hp : Post s s (L ++ List.range' s.mem.next 0) := by simpa using Post.same hv rfl
    exact ⟨rfl, hp, hb, rfl, rfl⟩
  | a :: as, s, L, hv, hb, hc, hm => by
    simp only [List.map_cons, iCloneSlots]
    obtain ⟨m', e1, e2, e3, e4⟩ := Mem.cloneId_of_none a hb
    have hcs : Mem.cloneSlot (.init a) s.mem = (some s.mem.next, m') := by
      simp only [Mem.cloneSlot, if_neg (hm a (List.mem_cons_self ..)), e1]
    simp only [St.onMem_eq, hcs, List.length_cons]
    simp only [List.length_cons] at hc
    refine Filled.step (s1 := { s with mem := m' }) rfl e4 e3 hv (by omega) ?_
    have hp := St.store_post (s := { s with mem := m' }) s.mem.next hv (by simp only; omega)
    have hmem : (St.store s.mem.next { s with mem := m' }).mem = m' := by
      rw [St.store_eq (by simp only; rw [hv.1]; omega)]
    exact iCloneSlots_spec as _ (L ++ [s.mem.next]) hp.view (by rw [hmem]; exact e2)
      (by rw [hp.cap]; simp; omega)
      (fun c hc' => by rw [hmem, e3]; exact hm c (List.mem_cons_of_mem _ hc'))


theorem iResizeWith_spec {s : St} {L : List Nat} (n : Nat) (hv : LocalVec s.v L)
    (hb : s.mem.budget = none) :
    (iResizeWith n s).1 = decide (L.length < n ∧ s.v.cap < n) ∧
    Post s (iResizeWith n s).2 (if n ≤ L.length then L.take n
      else if n ≤ s.v.cap then L ++ List.range' s.mem.next (n - L.length) else L) ∧
    (iResizeWith n s).2.mem.budget = none := by
  unfold iResizeWith
  rw [hv.1]
  by_cases h1 : n > L.length
  · have hnl : ¬ n ≤ L.length := by omega
    rw [if_pos h1, if_neg hnl]
    by_cases h2 : n ≤ s.v.cap
    · rw [if_pos h2, if_pos h2]
      have := iFillGen_spec (n - L.length) s L hv hb (by omega)
      exact ⟨by rw [this.ok]; simp; omega, this.post, this.budget⟩
    · rw [if_neg h2, if_neg h2]
      exact ⟨by simp; omega, Post.same hv rfl, hb⟩
  · have hnl : n ≤ L.length := by omega
    rw [if_neg h1, if_pos hnl]
    obtain ⟨t1, t2, t3⟩ := iTruncate_spec n hv hb
    exact ⟨by rw [t1]; simp; omega, t2, t3⟩

theorem iResize_spec {s : St} {L : List Nat} (n : Nat) (hv : LocalVec s.v L)
    (hb : s.mem.budget = none) :
    (iResize n s).1 = decide (L.length < n ∧ s.v.cap < n) ∧
    Post s (iResize n s).2 (if n ≤ L.length then L.take n
      else if n ≤ s.v.cap then L ++ List.range' (s.mem.next + 1) (n - L.length) else L) := by
  unfold iResize
  have hv' : (s.onMem Mem.mkVal).2.v = s.v := rfl
  have hx : (s.onMem Mem.mkVal).1 = s.mem.next := rfl
  have hn : (s.onMem Mem.mkVal).2.mem.next = s.mem.next + 1 := rfl
  have hb' : (s.onMem Mem.mkVal).2.mem.budget = none := hb
  generalize s.onMem Mem.mkVal = r at hv' hx hn hb'
  obtain ⟨x, s1⟩ := r
  simp only at hv' hx hn hb' ⊢
  subst hx
  have hv1 : LocalVec s1.v L := by rw [hv']; exact hv
  -- the final drop of the value does not panic and does not touch the vector
  have fin : ∀ (r : Bool × St), r.2.mem.budget = none →
      ((r.1 || (r.2.onMem (Mem.dropId s.mem.next)).1) = r.1) := fun r hr => by
    simp only [St.onMem_fst, Mem.dropId_of_none hr, Bool.or_false]
  rw [hv', hv.1]
  by_cases h1 : n > L.length
  · have hnl : ¬ n ≤ L.length := by omega
    rw [if_pos h1, if_neg hnl]
    by_cases h2 : n ≤ s.v.cap
    · rw [if_pos h2, if_pos h2]
      have := iFillClone_spec s.mem.next (n - L.length) s1 L hv1 hb' (by rw [hv']; omega)
      rw [fin _ this.budget, this.ok]
      refine ⟨by simp; omega, ?_⟩
      have hp := this.post.of_eq hv'
      rw [hn] at hp
      exact ⟨hp.view, hp.cap, hp.hdr⟩
    · rw [if_neg h2, if_neg h2]
      rw [fin (true, s1) hb']
      exact ⟨by simp; omega, Post.same hv hv'⟩
  · have hnl : n ≤ L.length := by omega
    rw [if_neg h1, if_pos hnl]
    obtain ⟨t1, t2, t3⟩ := iTruncate_spec n hv1 hb'
    rw [fin _ t3, t1]
    exact ⟨by simp; omega, ⟨t2.view, by rw [St.onMem_v, t2.cap, hv'], by rw [St.onMem_v, t2.hdr, hv']⟩⟩

theorem mkVals_spec : ∀ (n : Nat) (s : St),
    (mkVals n s).1 = List.range' s.mem.next n ∧ (mkVals n s).2.v = s.v ∧
      (mkVals n s).2.mem.next = s.mem.next + n ∧ (mkVals n s).2.mem.budget = s.mem.budget ∧
      (mkVals n s).2.mem.out = s.mem.out
  | 0, _ => ⟨rfl, rfl, rfl, rfl, rfl⟩
  | n + 1, s => by
    obtain ⟨h1, h2, h3, h4, h5⟩ := mkVals_spec n (s.onMem Mem.mkVal).2
    simp only [mkVals]
    refine ⟨?_, h2, ?_, h4, h5⟩
    · rw [h1]; simp [List.range'_succ, Mem.mkVal]
    · rw [h3]; simp [Mem.mkVal]; omega

theorem iExtSlice_spec {s : St} {L : List Nat} (n : Nat) (hv : LocalVec s.v L)
    (hb : s.mem.budget = none) :
    (iExtSlice n s).1 = decide (s.v.cap < L.length + n) ∧
    Post s (iExtSlice n s).2 (if L.length + n ≤ s.v.cap
      then L ++ List.range' (s.mem.next + n) n else L) := by
  unfold iExtSlice
  obtain ⟨m1, m2, m3, m4, -⟩ := mkVals_spec n s
  generalize mkVals n s = r at m1 m2 m3 m4
  obtain ⟨srcs, s1⟩ := r
  simp only at m1 m2 m3 m4 ⊢
  have hv1 : LocalVec s1.v L := by rw [m2]; exact hv
  have hl : srcs.length = n := by rw [m1]; simp
  rw [m2, hv.1]
  by_cases h : L.length + n ≤ s.v.cap
  · rw [if_pos h, if_pos h]
    have := iCloneIds_spec srcs s1 L hv1 (by rw [m4]; exact hb) (by rw [m2, hl]; exact h)
    refine ⟨by rw [this.ok]; simp; omega, ?_⟩
    have hp := this.post.of_eq m2
    rw [m3, hl] at hp
    exact ⟨hp.view, hp.cap, hp.hdr⟩
  · rw [if_neg h, if_neg h]
    exact ⟨by simp; omega, Post.same hv m2⟩

theorem iExtWithin_spec {s : St} {L : List Nat} (a b : Nat) (hv : LocalVec s.v L)
    (hb : s.mem.budget = none) (hout : ∀ x ∈ L, x ∉ s.mem.out) :
    (iExtWithin a b s).1 = decide (¬ (a ≤ b ∧ b ≤ L.length) ∨ s.v.cap < L.length + (b - a)) ∧
    Post s (iExtWithin a b s).2 (if a ≤ b ∧ b ≤ L.length ∧ L.length + (b - a) ≤ s.v.cap
      then L ++ List.range' s.mem.next (b - a) else L) := by
  unfold iExtWithin
  rw [hv.1]
  by_cases h1 : a ≤ b ∧ b ≤ L.length
  · rw [if_pos h1]
    by_cases h2 : L.length + (b - a) ≤ s.v.cap
    · rw [if_pos h2, if_pos ⟨h1.1, h1.2, h2⟩, hv.range_sub h1.1 h1.2]
      have := iCloneSlots_spec ((L.drop a).take (b - a)) s L hv hb (by simp; omega)
        (fun x hx => hout x (List.mem_of_mem_drop (List.mem_of_mem_take hx)))
      have hl : ((L.drop a).take (b - a)).length = b - a := by simp; omega
      rw [hl] at this
      exact ⟨by rw [this.ok]; simp; omega, this.post⟩
    · rw [if_neg h2, if_neg (by omega)]
      exact ⟨by simp; omega, Post.same hv rfl⟩
  · rw [if_neg h1, if_neg (fun h => h1 ⟨h.1, h.2.1⟩)]
    exact ⟨by simp [h1], Post.same hv rfl⟩

theorem iExtIter_spec : ∀ (k : Nat) (s : St) (L : List Nat), LocalVec s.v L →
    s.mem.budget = none →
    (iExtIter k s).1 = decide (s.v.cap < L.length + k) ∧
    Post s (iExtIter k s).2 (L ++ List.range' s.mem.next (min k (s.v.cap - L.length)))
  | 0, s, L, hv, hb => by
    unfold iExtIter
    have hle := hv.len_le
    refine ⟨by simp [(Mem.tick_of_none hb).1]; omega, ?_⟩
    simpa using Post.same hv (s' := (s.onMem Mem.tick).2) rfl
  | k + 1, s, L, hv, hb => by
    unfold iExtIter
    have hle := hv.len_le
    obtain ⟨m', e1, e2, e3, e4⟩ := Mem.genVal_of_none hb
    simp only [St.onMem_eq, e1, hv.1]
    by_cases hc : L.length < s.v.cap
    · rw [if_pos hc]
      have hp := St.store_post (s := { s with mem := m' }) s.mem.next hv hc
      have hmem : (St.store s.mem.next { s with mem := m' }).mem = m' := by
        rw [St.store_eq (by simp only; rw [hv.1]; exact hc)]
      obtain ⟨r1, r2⟩ := iExtIter_spec k _ (L ++ [s.mem.next]) hp.view (by rw [hmem]; exact e2)
      rw [hp.cap] at r1 r2
      refine ⟨by rw [r1]; simp; omega, ⟨?_, by rw [r2.cap, hp.cap], by rw [r2.hdr, hp.hdr]⟩⟩
      have := r2.view
      rw [hmem, e4] at this
      have hmin : min (k + 1) (s.v.cap - L.length) = min k (s.v.cap - (L.length + 1)) + 1 := by
        omega
      rw [hmin, List.range'_succ]
      simpa using this
    · rw [if_neg hc]
      have h0 : s.v.cap - L.length = 0 := by omega
      refine ⟨by simp; omega, ?_⟩
      rw [h0]
      have : Post s ({ mem := (Mem.dropId s.mem.next m').2, v := s.v } : St) L := Post.same hv rfl
      simpa using this

theorem iAppend_spec {s : St} {L : List Nat} (n : Nat) (hv : LocalVec s.v L) :
    (iAppend n s).1 = decide (s.v.cap < L.length + n) ∧
    Post s (iAppend n s).2 (if L.length + n ≤ s.v.cap
      then L ++ List.range' s.mem.next n else L) := by
  unfold iAppend
  obtain ⟨m1, m2, m3, m4, -⟩ := mkVals_spec n s
  generalize mkVals n s = r at m1 m2 m3 m4
  obtain ⟨ids, s1⟩ := r
  simp only at m1 m2 m3 m4 ⊢
  have hv1 : LocalVec s1.v L := by rw [m2]; exact hv
  have hl : ids.length = n := by rw [m1]; simp
  have hr : ∀ (c : Nat), ({ slots := ids.map Slot.init ++ uninits c, len := n } : Vec).range 0 n
      = ids.map .init := fun c =>
    Vec.range_mid (A := []) (B := ids.map .init) (C := uninits c) (by simp) rfl (by simp [hl])
  by_cases h : L.length + n ≤ s.v.cap
  · have h' : s1.v.len + n ≤ s1.v.cap := by rw [m2, hv.1]; exact h
    rw [if_pos h', if_pos h]
    simp only [hr, Vec.setLen, Vec.range_zero_zero]
    have hb : s1.v.len + (ids.map Slot.init).length ≤ s1.v.cap := by simpa [hl] using h'
    simp only [St.wrChunk, if_pos hb]
    obtain ⟨c1, c2⟩ := hv1.writeChunk (T := ids) s1.v.len (by rw [m2, hv.1]; exact Nat.le_refl _)
      (by rw [hl]; exact h')
    rw [List.take_of_length_le (by rw [m2, hv.1]; exact Nat.le_refl _), hl, m1] at c1
    rw [hl] at c2
    refine ⟨by simp; omega, ⟨?_, ?_, ?_⟩⟩
    · simpa [St.setLen, St.withMem, Vec.writeChunk, Vec.setLen, m1] using c1
    · simp only [St.setLen, St.withMem, Vec.setLen, Vec.writeChunk, Vec.cap] at c2 ⊢
      rw [← m2]; simpa [Vec.cap, m1] using c2
    · simp [St.setLen, St.withMem, Vec.setLen, Vec.writeChunk, m2]
  · have h' : ¬ s1.v.len + n ≤ s1.v.cap := by rw [m2, hv.1]; exact h
    rw [if_neg h', if_neg h]
    exact ⟨by simp; omega, Post.same hv (by simp [St.withMem, m2])⟩

theorem iSplitOff_spec {s : St} {L : List Nat} (at_ : Nat) (hv : LocalVec s.v L)
    (hb : s.mem.budget = none) :
    (iSplitOff at_ s).1 = decide (L.length < at_) ∧
    Post s (iSplitOff at_ s).2 (L.take at_) := by
  unfold iSplitOff
  rw [hv.1]
  have hle := hv.len_le
  by_cases h : at_ ≤ L.length
  · rw [if_pos h]
    dsimp only
    have hchk : decide (L.length - at_ ≤ (HipVerif.Slots.iNew s.v.cap).cap) = true := by
      simp [HipVerif.Slots.iNew, Vec.cap, uninits] at hle ⊢; omega
    simp only [St.chk, hchk, if_true]
    refine ⟨?_, ⟨?_, rfl, rfl⟩⟩
    · have := (Mem.dropLoop_of_none ((((HipVerif.Slots.iNew s.v.cap).writeChunk 0 ((s.setLen at_).v.range at_ L.length)).setLen (L.length - at_)).range 0 (((HipVerif.Slots.iNew s.v.cap).writeChunk 0 ((s.setLen at_).v.range at_ L.length)).setLen (L.length - at_)).len) (s.setLen at_).mem hb).1
      rw [St.onMem_fst, this]; simp; omega
    · exact hv.setLen_take at_ h
  · rw [if_neg h, List.take_of_length_le (by omega)]
    exact ⟨by simp; omega, Post.same hv rfl⟩


theorem St.chk_v (c : Bool) (s : St) : (s.chk c).v = s.v := by unfold St.chk; split <;> rfl
theorem St.chk_budget (c : Bool) (s : St) : (s.chk c).mem.budget = s.mem.budget := by
  unfold St.chk; split <;> rfl
theorem St.chk_out (c : Bool) (s : St) : (s.chk c).mem.out = s.mem.out := by
  unfold St.chk; split <;> rfl

theorem cloneIntoLocal_quiet : ∀ (M : List Nat) (o : Vec) (s : St), s.mem.budget = none →
    (∀ a ∈ M, a ∉ s.mem.out) →
    (cloneIntoLocal (M.map .init) o s).1 = false ∧ (cloneIntoLocal (M.map .init) o s).2.2.v = s.v ∧
      (cloneIntoLocal (M.map .init) o s).2.2.mem.budget = none
  | [], _, _, hb, _ => ⟨rfl, rfl, hb⟩
  | a :: as, o, s, hb, hm => by
    simp only [List.map_cons, cloneIntoLocal]
    obtain ⟨m', e1, e2, e3, e4⟩ := Mem.cloneId_of_none a hb
    have hcs : Mem.cloneSlot (.init a) s.mem = (some s.mem.next, m') := by
      simp only [Mem.cloneSlot, if_neg (hm a (List.mem_cons_self ..)), e1]
    simp only [St.onMem_eq, hcs]
    obtain ⟨r1, r2, r3⟩ := cloneIntoLocal_quiet as (o.store s.mem.next)
      (({ s with mem := m' } : St).chk (decide (o.len < o.cap)))
      (by rw [St.chk_budget]; exact e2)
      (fun c hc => by rw [St.chk_out]; simp only; rw [e3]; exact hm c (List.mem_cons_of_mem _ hc))
    exact ⟨r1, by rw [r2, St.chk_v], r3⟩

theorem iClone_spec {s : St} {L : List Nat} (hv : LocalVec s.v L) (hb : s.mem.budget = none)
    (hout : ∀ x ∈ L, x ∉ s.mem.out) :
    (iClone s).1 = false ∧ Post s (iClone s).2 L := by
  unfold iClone
  rw [hv.range]
  obtain ⟨r1, r2, r3⟩ := cloneIntoLocal_quiet L (HipVerif.Slots.iNew s.v.cap) s hb hout
  dsimp only
  generalize cloneIntoLocal (L.map .init) (HipVerif.Slots.iNew s.v.cap) s = r at r1 r2 r3
  obtain ⟨p, o, s1⟩ := r
  simp only at r1 r2 r3 ⊢
  rw [r1, St.onMem_fst, (Mem.dropLoop_of_none _ _ r3).1]
  exact ⟨rfl, Post.same hv (by rw [St.onMem_v, r2])⟩

theorem drainOp_spec {s : St} {L : List Nat} (a b : Nat) (script : List IStep) (fin : IFin)
    (hv : LocalVec s.v L) (hb : s.mem.budget = none) :
    (drainOp a b script fin s).1 = decide (¬ (a ≤ b ∧ b ≤ L.length)) ∧
    Post s (drainOp a b script fin s).2 (if a ≤ b ∧ b ≤ L.length then
      (if fin = .leak then L.take a else L.take a ++ L.drop b) else L) := by
  unfold drainOp
  rw [hv.1]
  have hle := hv.len_le
  by_cases h : a ≤ b ∧ b ≤ L.length
  · rw [if_pos h, if_pos h]
    dsimp only
    -- `Drain::drop` from any cursor, after any quiet prefix
    have key : ∀ (c : Cur) (s1 : St), s1.v = (s.setLen a).v → s1.mem.budget = none →
        (drainDrop c b (L.length - b) s1).1 = false ∧
          Post s (drainDrop c b (L.length - b) s1).2 (L.take a ++ L.drop b) := by
      intro c s1 q1 hb1
      simp only [drainDrop]
      obtain ⟨d1, d2⟩ := Mem.dropSlice_of_none (s1.v.range c.lo c.hi) s1.mem hb1
      rw [St.onMem_fst, d1]
      simp only [Bool.false_eq_true, if_false, St.onMem_v]
      have hchunk : (s1.onMem (Mem.dropSlice (s1.v.range c.lo c.hi))).2.v.range b
          (b + (L.length - b)) = (L.drop b).map .init := by
        have := hv.range_sub (a := b) (b := L.length) h.2 (Nat.le_refl _)
        rw [St.onMem_v, q1]
        rw [show b + (L.length - b) = L.length by omega]
        rw [List.take_of_length_le (by simp)] at this
        exact this
      have hlen1 : s1.v.len = a := by rw [q1]; rfl
      rw [hlen1]
      have hbnd : a + ((L.drop b).map Slot.init).length ≤
          (s1.onMem (Mem.dropSlice (s1.v.range c.lo c.hi))).2.v.cap := by
        rw [St.onMem_v, q1]; simp [Vec.cap] at hle ⊢; omega
      rw [St.copyWithin_eq hchunk hbnd]
      obtain ⟨c1, c2⟩ := hv.writeChunk (T := L.drop b) a (by omega) (by simp; omega)
      have hl : a + (L.drop b).length = a + (L.length - b) := by simp
      rw [hl] at c1 c2
      refine ⟨trivial, ⟨?_, ?_, ?_⟩⟩
      · simpa [St.setLen, Vec.setLen, Vec.writeChunk, q1] using c1
      · simpa [St.setLen, Vec.setLen, Vec.writeChunk, Vec.cap, q1] using c2
      · simp [St.setLen, Vec.setLen, Vec.writeChunk, q1]
    obtain ⟨q0, q1, q2⟩ := iterSteps_quiet script { lo := a, hi := b } (s.setLen a) hb
    generalize iterSteps script { lo := a, hi := b } (s.setLen a) = r at q0 q1 q2
    obtain ⟨p, c, s1⟩ := r
    simp only at q0 q1 q2 ⊢
    subst q0
    simp only [Bool.false_eq_true, if_false]
    have hcons : ∀ fin : IFin,
        ((consume fin c s1).1 || (drainDrop (consume fin c s1).2.1 b (L.length - b)
          (consume fin c s1).2.2).1) = false ∧
        Post s (drainDrop (consume fin c s1).2.1 b (L.length - b) (consume fin c s1).2.2).2
          (L.take a ++ L.drop b) := fun fin => by
      obtain ⟨k0, k1, k2⟩ := consume_quiet fin c s1 q2
      obtain ⟨r1, r2⟩ := key _ _ (k1.trans q1) k2
      exact ⟨by rw [k0, r1]; rfl, r2⟩
    cases fin with
    | leak =>
      refine ⟨by simp [h], ⟨?_, by rw [q1]; rfl, by rw [q1]; rfl⟩⟩
      rw [q1]; exact hv.setLen_take a (by omega)
    | drop => obtain ⟨r1, r2⟩ := hcons .drop; exact ⟨by simp [h, r1], by simpa using r2⟩
    | last => obtain ⟨r1, r2⟩ := hcons .last; exact ⟨by simp [h, r1], by simpa using r2⟩
    | count => obtain ⟨r1, r2⟩ := hcons .count; exact ⟨by simp [h, r1], by simpa using r2⟩
    | fold => obtain ⟨r1, r2⟩ := hcons .fold; exact ⟨by simp [h, r1], by simpa using r2⟩
    | rfold => obtain ⟨r1, r2⟩ := hcons .rfold; exact ⟨by simp [h, r1], by simpa using r2⟩
  · rw [if_neg h, if_neg h]
    exact ⟨by simp [h], Post.same hv rfl⟩

theorem iIntoIter_spec {s : St} (script : List IStep) (fin : IFin) (hb : s.mem.budget = none) :
    (iIntoIter script fin s).1 = false ∧ (iIntoIter script fin s).2.v = iNew s.v.cap := by
  unfold iIntoIter
  obtain ⟨q0, q1, q2⟩ := iterSteps_quiet script { lo := 0, hi := s.v.len } s hb
  dsimp only
  generalize iterSteps script { lo := 0, hi := s.v.len } s = r at q0 q1 q2 ⊢
  obtain ⟨p, c, s1⟩ := r
  simp only at q0 q1 q2 ⊢
  subst q0
  simp only [Bool.false_eq_true, if_false]
  have hcons : ∀ fin : IFin,
      (if (consume fin c s1).1 = true then
          (true, (St.onMem (Mem.dropSlice ((consume fin c s1).2.2.v.range
            (consume fin c s1).2.1.lo (consume fin c s1).2.1.hi)) (consume fin c s1).2.2).2)
        else
          St.onMem (Mem.dropLoop ((consume fin c s1).2.2.v.range
            (consume fin c s1).2.1.lo (consume fin c s1).2.1.hi)) (consume fin c s1).2.2).1
        = false ∧
      (if (consume fin c s1).1 = true then
          (true, (St.onMem (Mem.dropSlice ((consume fin c s1).2.2.v.range
            (consume fin c s1).2.1.lo (consume fin c s1).2.1.hi)) (consume fin c s1).2.2).2)
        else
          St.onMem (Mem.dropLoop ((consume fin c s1).2.2.v.range
            (consume fin c s1).2.1.lo (consume fin c s1).2.1.hi)) (consume fin c s1).2.2).2.v.cap
        = s.v.cap := fun fin => by
    obtain ⟨k0, k1, k2⟩ := consume_quiet fin c s1 q2
    generalize consume fin c s1 = q at k0 k1 k2 ⊢
    obtain ⟨p2, c2, s2⟩ := q
    simp only at k0 k1 k2 ⊢
    subst k0
    simp only [Bool.false_eq_true, if_false]
    exact ⟨(Mem.dropLoop_of_none _ _ k2).1, by rw [St.onMem_v, k1, q1]⟩
  cases fin with
  | leak => exact ⟨rfl, by simp [q1]⟩
  | drop => obtain ⟨r1, r2⟩ := hcons .drop; exact ⟨r1, by rw [r2]⟩
  | last => obtain ⟨r1, r2⟩ := hcons .last; exact ⟨r1, by rw [r2]⟩
  | count => obtain ⟨r1, r2⟩ := hcons .count; exact ⟨r1, by rw [r2]⟩
  | fold => obtain ⟨r1, r2⟩ := hcons .fold; exact ⟨r1, by rw [r2]⟩
  | rfold => obtain ⟨r1, r2⟩ := hcons .rfold; exact ⟨r1, by rw [r2]⟩

theorem iRoundtrip_spec {s : St} {L : List Nat} (hv : LocalVec s.v L) :
    (iRoundtrip s).1 = false ∧ Post s (iRoundtrip s).2 L := by
  unfold iRoundtrip
  have hle := hv.len_le
  have e1 := hv.1
  have hv0 : (s.onMem Mem.alloc).2.v = s.v := rfl
  have hb : (s.onMem Mem.alloc).1 = s.mem.nextBuf := rfl
  generalize s.onMem Mem.alloc = r at hv0 hb
  obtain ⟨b, s1⟩ := r
  simp only at hv0 hb ⊢
  subst hb
  rw [hv0]
  generalize ht0 : thinLocal s.v.h.esz s.v.len s.mem.nextBuf = t0
  have hcap0 : s.v.len ≤ t0.cap := by
    rw [← ht0]
    simp only [thinLocal, Vec.cap, uninits, List.length_replicate]
    exact Nat.le_trans (Nat.le_max_left _ _) (roundCap_ge _ _)
  obtain ⟨m1, m2, m3, m4⟩ := moveAll_spec (dst := t0) hv (by rw [← e1]; exact hcap0)
  have hchk1 : decide (s.v.len ≤ t0.cap) = true := by simpa using hcap0
  simp only [St.chk, hchk1, if_true, hv0]
  generalize moveAll s.v t0 = r1 at m1 m2 m3 m4 ⊢
  obtain ⟨t, v0⟩ := r1
  simp only at m1 m2 m3 m4 ⊢
  subst m4
  simp only [Vec.setLen, Vec.range_zero_zero, Mem.markDropSlots]
  have hcapi : L.length ≤ (HipVerif.Slots.iNew s.v.cap).cap := by
    simp [HipVerif.Slots.iNew, Vec.cap, uninits] at hle ⊢; omega
  obtain ⟨n1, n2, n3, n4⟩ := moveAll_spec (dst := HipVerif.Slots.iNew s.v.cap) m1 hcapi
  have hchk2 : decide (s.v.len ≤ (HipVerif.Slots.iNew s.v.cap).cap) = true := by
    rw [e1]; simpa using hcapi
  have hcap' : ({ slots := s.v.slots, len := 0, h := s.v.h } : Vec).cap = s.v.cap := rfl
  simp only [hcap', hchk2, if_true]
  generalize moveAll t (HipVerif.Slots.iNew s.v.cap) = r2 at n1 n2 n3 n4 ⊢
  obtain ⟨i, t'⟩ := r2
  simp only at n1 n2 n3 n4 ⊢
  subst n4
  refine ⟨trivial, ⟨⟨n1.1, n1.2⟩, ?_, rfl⟩⟩
  simpa [Vec.cap, HipVerif.Slots.iNew, uninits] using n3


/-- a user call that cannot panic (no fault armed): only the call counter moves -/
theorem St.tick_quiet {s : St} (hb : s.mem.budget = none) :
    (s.onMem Mem.tick).1 = false ∧ (s.onMem Mem.tick).2.v = s.v ∧
      (s.onMem Mem.tick).2.mem.next = s.mem.next ∧ (s.onMem Mem.tick).2.mem.budget = none ∧
      (s.onMem Mem.tick).2.mem.out = s.mem.out := by
  simp [St.onMem_eq, Mem.tick, hb]

theorem iPopIf_spec {s : St} {L : List Nat} (ans : Bool) (hv : LocalVec s.v L)
    (hb : s.mem.budget = none) :
    (iPopIf ans s).1 = (match L.getLast? with
      | none => .none
      | some a => if ans then .some a else .none) ∧
    Post s (iPopIf ans s).2 (if ans then L.dropLast else L) := by
  unfold iPopIf
  rw [hv.1]
  by_cases h0 : L.length = 0
  · have : L = [] := List.eq_nil_of_length_eq_zero h0
    subst this
    simp only [List.length_nil, if_true, List.getLast?_nil, List.dropLast_nil, ite_self]
    exact ⟨trivial, Post.same hv rfl⟩
  · rw [if_neg h0]
    obtain ⟨t1, t2, t3, t4, t5⟩ := St.tick_quiet hb
    generalize s.onMem Mem.tick = r at t1 t2 t3 t4 t5
    obtain ⟨p, s1⟩ := r
    simp only at t1 t2 t3 t4 t5 ⊢
    subst t1
    simp only [Bool.false_eq_true, if_false]
    have hv1 : LocalVec s1.v L := by rw [t2]; exact hv
    cases ans with
    | false =>
      simp only [Bool.false_eq_true, if_false]
      refine ⟨?_, Post.same hv t2⟩
      cases L.getLast? <;> rfl
    | true =>
      simp only [if_true]
      obtain ⟨r, p⟩ := iPop_spec hv1
      exact ⟨r, p.of_eq t2⟩

theorem iExtIter_budget : ∀ (k : Nat) (s : St), s.mem.budget = none →
    (iExtIter k s).2.mem.budget = none
  | 0, s, hb => by
    unfold iExtIter; exact (Mem.tick_of_none hb).2
  | k + 1, s, hb => by
    unfold iExtIter
    obtain ⟨m', e1, e2, _, _⟩ := Mem.genVal_of_none hb
    simp only [St.onMem_eq, e1]
    split
    · refine iExtIter_budget k _ ?_
      simp only [St.store, St.wr, St.setLen]
      split <;> first | exact e2 | rfl
    · exact Mem.dropId_budget_of_none e2

theorem iExtend_spec {s : St} {L : List Nat} (k : Nat) (hv : LocalVec s.v L)
    (hb : s.mem.budget = none) :
    (iExtend k s).1 = decide (s.v.cap < L.length + k) ∧
    Post s (iExtend k s).2 (L ++ List.range' s.mem.next (min k (s.v.cap - L.length))) := by
  unfold iExtend
  obtain ⟨t1, t2, t3, t4, t5⟩ := St.tick_quiet hb
  generalize s.onMem Mem.tick = r at t1 t2 t3 t4 t5
  obtain ⟨p, s1⟩ := r
  simp only at t1 t2 t3 t4 t5 ⊢
  subst t1
  simp only [Bool.false_eq_true, if_false]
  obtain ⟨r1, r2⟩ := iExtIter_spec k s1 L (by rw [t2]; exact hv) t4
  rw [t2] at r1
  rw [t2, t3] at r2
  have hb2 := iExtIter_budget k s1 t4
  refine ⟨?_, ⟨r2.view, by rw [St.onMem_v, r2.cap, t2], by rw [St.onMem_v, r2.hdr, t2]⟩⟩
  rw [r1, (St.tick_quiet hb2).1, Bool.or_false]

end HipVerif.Slots
