/-
The ownership invariant is preserved by every operation of the L0 model, for every fault
position (`step_own`), hence along every history (`run_own`); initial states; what a completed
container drop achieves.
-/
import HipVerif.Lemmas.SlotsThin
import HipVerif.Lemmas.SlotsIter
namespace HipVerif.Slots

variable {fl : Bool}

/-- operations that leak by design: a `Drain`/`IntoIter` that is `mem::forget`-ed -/
def Op.leaks : Op → Bool
  | .drain _ _ _ .leak => true
  | .intoIter _ .leak => true
  | _ => false

/-- the invariant does not look at the callback counter; the no-leak flag requires that no fault is
armed -/
theorem OwnL.budget {s loc locB} (k : Option Nat) (h : OwnL fl s loc locB)
    (hk : fl = true → k = none) :
    OwnL fl { s with mem := { s.mem with budget := k } } loc locB :=
  h.mem_step (fun _ _ hx => { hx with full := fun hf => ⟨hk hf, (hx.full hf).2⟩ })

theorem iStep_own {s loc locB} (op : Op) (h : OwnL fl s loc locB)
    (hleak : fl = true → op.leaks = false) (hth : fl = true → s.v.h.thin = false) :
    OwnL fl (iStep op s).2 loc locB := by
  cases op <;> simp only [iStep, liftB]
  case push => exact iPush_own h
  case tryPush => exact iTryPush_own h
  case pop => exact iPop_own h
  case popIf b => exact iPopIf_own b h
  case fromIter hint n => exact iFromIter_own hint n h
  case insert i => exact iInsert_own i h
  case tryInsert i => exact iTryInsert_own i h
  case remove i => exact iRemove_own i h
  case swapRemove i => exact iSwapRemove_own i h
  case truncate n => exact iTruncate_own n h
  case clear => exact iTruncate_own 0 h
  case resize n => exact iResize_own n h
  case resizeWith n => exact iResizeWith_own n h
  case extSlice n => exact iExtSlice_own n h
  case extWithin a b => exact iExtWithin_own a b h
  case extIter hint n => exact iExtend_own n h
  case clone => exact iClone_own h
  case append n => exact iAppend_own n h
  case splitOff a => exact iSplitOff_own a h
  case drain a b sc fin =>
    exact drainOp_own a b sc fin h (fun hf => by
      have := hleak hf; cases fin <;> simp [Op.leaks] at this ⊢)
  case intoIter sc fin =>
    exact iIntoIter_own sc fin h (fun hf => by
      have := hleak hf; cases fin <;> simp [Op.leaks] at this ⊢) hth
  case reserve n => exact h
  case shrinkFit => exact h
  case roundtrip => exact iRoundtrip_own h
  case dropVec => exact iDrop_own h hth

theorem tStep_own {s loc locB} (op : Op) (h : OwnL fl s loc locB) (ht : s.v.h.thin = true)
    (hal : s.v.h.alive = true) (hleak : fl = true → op.leaks = false) :
    OwnL fl (tStep op s).2 loc locB := by
  cases op <;> simp only [tStep, liftB]
  case push => exact tPush_own h ht hal
  case tryPush => exact h
  case pop => exact iPop_own h
  case popIf b => exact h
  case fromIter hint n => exact tFromIter_own hint n h ht hal
  case insert i => exact tInsert_own i h ht hal
  case tryInsert i => exact h
  case remove i => exact iRemove_own i h
  case swapRemove i => exact tSwapRemove_own i h
  case truncate n => exact tTruncate_own n h
  case clear => exact tClear_own h
  case resize n => exact tResize_own n h ht hal
  case resizeWith n => exact h
  case extSlice n => exact tExtSlice_own n h ht hal
  case extWithin a b => exact tExtWithin_own a b h ht hal
  case extIter hint n => exact tExtend_own hint n h ht hal
  case clone => exact tClone_own h
  case append n => exact tAppend_own n h ht hal
  case splitOff a => exact tSplitOff_own a h
  case drain a b sc fin =>
    exact drainOp_own a b sc fin h (fun hf => by
      have := hleak hf; cases fin <;> simp [Op.leaks] at this ⊢)
  case intoIter sc fin => exact h
  case reserve n => exact tReserve_own n h ht hal
  case shrinkFit => exact tShrinkFit_own h ht hal
  case roundtrip =>
    rcases hr : tRoundtrip s with _ | r
    · exact h
    · exact tRoundtrip_own h ht hal r hr
  case dropVec => exact tDrop_own h ht hal

/-- One step with the flag: any fault for the plain invariant; no fault and no leaking operation
for the invariant with the no-leak clause. -/
theorem step_ownL {s : St} (k : Option Nat) (op : Op) (h : OwnL fl s [] [])
    (hk : fl = true → k = none) (hleak : fl = true → op.leaks = false) :
    OwnL fl (step k op s).2 [] [] := by
  unfold step
  split
  · rename_i hal
    have h1 : OwnL fl ({ s with mem := { s.mem with budget := k } } : St) [] [] :=
      OwnL.budget k h hk
    simp only
    by_cases ht : s.v.h.thin = true
    · simp only [ht, if_true]
      exact OwnL.budget none (tStep_own op h1 ht hal hleak) (fun _ => rfl)
    · simp only [ht, Bool.false_eq_true, if_false]
      exact OwnL.budget none (iStep_own op h1 hleak (fun _ => by simpa using ht)) (fun _ => rfl)
  · exact h

/-- Every operation, with a fault injected at any callback (or none), preserves the ownership
invariant — on normal return and after unwinding alike. -/
theorem step_own {s : St} (k : Option Nat) (op : Op) (h : Own s) : Own (step k op s).2 :=
  step_ownL k op h (fun hf => by cases hf) (fun hf => by cases hf)

theorem run_own : ∀ (hist : List (Option Nat × Op)) (s : St), Own s → Own (run hist s)
  | [], _, h => h
  | (k, op) :: hist, _, h => run_own hist _ (step_own k op h)

/-- Without a fault and for a non-leaking operation the no-leak invariant is preserved: whatever
the operation does (including its own assertion panics), every id created so far is still held by
the container or has been dropped / handed to the caller. -/
theorem step_ownF {s : St} (op : Op) (h : OwnF s) (hleak : op.leaks = false) :
    OwnF (step none op s).2 :=
  step_ownL none op h (fun _ => rfl) (fun _ => hleak)

/-- fault-free, leak-free histories -/
def CleanHist (hist : List (Option Nat × Op)) : Prop :=
  ∀ x ∈ hist, x.1 = none ∧ x.2.leaks = false

instance (hist : List (Option Nat × Op)) : Decidable (CleanHist hist) := by
  unfold CleanHist; infer_instance

theorem run_ownF : ∀ (hist : List (Option Nat × Op)) (s : St), OwnF s → CleanHist hist →
    OwnF (run hist s)
  | [], _, h, _ => h
  | (k, op) :: hist, s, h, hc => by
    obtain ⟨hk, hl⟩ := hc (k, op) (List.mem_cons_self ..)
    simp only at hk hl
    subst hk
    exact run_ownF hist _ (step_ownF op h hl) (fun x hx => hc x (List.mem_cons_of_mem _ hx))

theorem Acct.empty : Acct fl {} [] [] :=
  { nobad := fun _ h => by simp at h, nodup := List.nodup_nil, lt := fun _ h => by simp at h,
    notout := fun _ h => by simp at h, outnd := List.nodup_nil, outlt := fun _ h => by simp at h,
    bnodup := List.nodup_nil, blive := fun _ h => by simp at h, blt := fun _ h => by simp at h,
    bufsnd := List.nodup_nil, trout := rfl, created := fun _ h => by simp at h,
    full := fun _ => ⟨rfl, fun a ha => by simp at ha⟩ }

theorem ownL_initInline (cap : Nat) : OwnL fl (initInline cap) [] [] :=
  ⟨[], uninits cap, rfl, by simp [initInline, iNew],
    ⟨fun h => by simp [initInline, iNew] at h, fun h => by simp [initInline, iNew] at h⟩,
    by simpa [initInline, iNew, prefL, bufL] using Acct.empty⟩

theorem ownL_initThin (esz : Nat) (tracked : Bool) (h : 0 < esz) :
    OwnL fl (initThin esz tracked) [] [] := by
  have h0 : OwnL fl ({} : St) [] [] :=
    ⟨[], [], rfl, rfl, ⟨fun h => by simp at h, fun h => by simp at h⟩,
      by simpa [prefL, bufL] using Acct.empty⟩
  exact tNewQuiet_own esz tracked h0 h (fun _ => ⟨rfl, by simp [prefL]⟩)

theorem own_initInline (cap : Nat) : Own (initInline cap) := ownL_initInline cap
theorem own_initThin (esz : Nat) (tracked : Bool) (h : 0 < esz) : Own (initThin esz tracked) :=
  ownL_initThin esz tracked h
theorem ownF_initInline (cap : Nat) : OwnF (initInline cap) := ownL_initInline cap
theorem ownF_initThin (esz : Nat) (tracked : Bool) (h : 0 < esz) : OwnF (initThin esz tracked) :=
  ownL_initThin esz tracked h

theorem Mem.markDrop_mem (a : Nat) (m : Mem) : a ∈ (m.markDrop a).out := by
  unfold Mem.markDrop; split
  · assumption
  · simp

theorem Mem.markDrop_mono {a b : Nat} {m : Mem} (h : b ∈ m.out) : b ∈ (m.markDrop a).out := by
  unfold Mem.markDrop; split
  · exact h
  · simp [h]

theorem Mem.dropId_mem (a : Nat) (m : Mem) : a ∈ (m.dropId a).2.out := by
  unfold Mem.dropId; rw [Mem.tick_out]; exact Mem.markDrop_mem a m

theorem Mem.dropId_mono {a b : Nat} {m : Mem} (h : b ∈ m.out) : b ∈ (m.dropId a).2.out := by
  unfold Mem.dropId; rw [Mem.tick_out]; exact Mem.markDrop_mono h

theorem Mem.dropSlice_mono {b : Nat} : ∀ (xs : List Slot) (m : Mem), b ∈ m.out →
    b ∈ (m.dropSlice xs).2.out
  | [], _, h => h
  | .uninit :: xs, m, h => by
    simp only [Mem.dropSlice, Mem.dropSlot]
    exact Mem.dropSlice_mono xs _ h
  | .init a :: xs, m, h => by
    rw [Mem.dropSlice_cons_init]
    exact Mem.dropSlice_mono xs _ (Mem.dropId_mono h)

/-- `drop_in_place` of a slice runs the destructor of every element, panic or not -/
theorem Mem.dropSlice_complete {b : Nat} : ∀ (xs : List Slot) (m : Mem), .init b ∈ xs →
    b ∈ (m.dropSlice xs).2.out
  | [], _, h => by simp at h
  | .uninit :: xs, m, h => by
    simp only [Mem.dropSlice, Mem.dropSlot]
    exact Mem.dropSlice_complete xs _ (by simpa using h)
  | .init a :: xs, m, h => by
    rw [Mem.dropSlice_cons_init]
    simp only [List.mem_cons, Slot.init.injEq] at h
    rcases h with rfl | h
    · exact Mem.dropSlice_mono xs _ (Mem.dropId_mem _ m)
    · exact Mem.dropSlice_complete xs _ h

theorem Mem.dropLoop_mono {b : Nat} : ∀ (xs : List Slot) (m : Mem), b ∈ m.out →
    b ∈ (m.dropLoop xs).2.out
  | [], _, h => h
  | .uninit :: xs, m, h => by
    simp only [Mem.dropLoop, Mem.dropSlot]
    exact Mem.dropLoop_mono xs _ h
  | .init a :: xs, m, h => by
    rw [Mem.dropLoop_cons_init]
    split
    · exact Mem.dropId_mono h
    · exact Mem.dropLoop_mono xs _ (Mem.dropId_mono h)

/-- a `for` loop of drops that does not panic runs the destructor of every element -/
theorem Mem.dropLoop_complete {b : Nat} : ∀ (xs : List Slot) (m : Mem), (m.dropLoop xs).1 = false →
    .init b ∈ xs → b ∈ (m.dropLoop xs).2.out
  | [], _, _, h => by simp at h
  | .uninit :: xs, m, hp, h => by
    simp only [Mem.dropLoop, Mem.dropSlot] at hp ⊢
    exact Mem.dropLoop_complete xs _ hp (by simpa using h)
  | .init a :: xs, m, hp, h => by
    rw [Mem.dropLoop_cons_init] at hp ⊢
    split at hp
    · simp at hp
    · rename_i hq
      rw [if_neg hq]
      simp only [List.mem_cons, Slot.init.injEq] at h
      rcases h with rfl | h
      · exact Mem.dropLoop_mono xs _ (Mem.dropId_mem _ m)
      · exact Mem.dropLoop_complete xs _ hp h

theorem Mem.tick_bufs (m : Mem) : m.tick.2.bufs = m.bufs := by
  unfold Mem.tick; split <;> rfl

theorem Mem.dropId_bufs (a : Nat) (m : Mem) : (m.dropId a).2.bufs = m.bufs := by
  unfold Mem.dropId; rw [Mem.tick_bufs]; unfold Mem.markDrop; split <;> rfl

theorem Mem.dropSlot_bufs (x : Slot) (m : Mem) : (m.dropSlot x).2.bufs = m.bufs := by
  cases x
  · rfl
  · exact Mem.dropId_bufs _ m

theorem Mem.dropSlice_bufs : ∀ (xs : List Slot) (m : Mem), (m.dropSlice xs).2.bufs = m.bufs
  | [], _ => rfl
  | x :: xs, m => by
    simp only [Mem.dropSlice]
    rw [Mem.dropSlice_bufs xs, Mem.dropSlot_bufs]

theorem Mem.free_out (b : Nat) (m : Mem) : (m.free b).out = m.out := by
  unfold Mem.free; split <;> rfl

theorem Mem.free_not_mem {b : Nat} {m : Mem} (h : m.bufs.Nodup) : b ∉ (m.free b).bufs := by
  unfold Mem.free; split
  · exact h.not_mem_erase
  · assumption

/-- ids of the elements and of the live prefix value of the container -/
def ownedIds (s : St) : List Nat :=
  prefL s.v.h ++ (s.v.range 0 s.v.len).filterMap (fun x => match x with | .init a => some a | .uninit => none)

theorem iDrop_complete {s : St} (hp : (iDrop s).1 = false) {a : Nat}
    (ha : .init a ∈ s.v.range 0 s.v.len) : a ∈ (iDrop s).2.mem.out := by
  unfold iDrop at hp ⊢
  simp only [St.onMem_eq] at hp ⊢
  exact Mem.dropLoop_complete _ _ hp ha

theorem tDropVec_complete {o : Vec} {s : St} (hp : (tDropVec o s).1 = false) :
    (∀ a, .init a ∈ o.range 0 o.len → a ∈ (tDropVec o s).2.mem.out) ∧
    (o.h.tracked = true → ∀ p, o.h.pref = .init p → p ∈ (tDropVec o s).2.mem.out) ∧
    (s.mem.bufs.Nodup → o.h.buf ∉ (tDropVec o s).2.mem.bufs) := by
  unfold tDropVec at hp ⊢
  simp only [St.onMem_eq, St.withMem] at hp ⊢
  by_cases h1 : (Mem.dropSlice (o.range 0 o.len) s.mem).1 = true
  · simp [h1] at hp
  · simp only [h1, Bool.false_eq_true, if_false] at hp ⊢
    by_cases h2 : o.h.tracked = true
    · simp only [h2, if_true] at hp ⊢
      by_cases h3 : (Mem.dropSlot o.h.pref (Mem.dropSlice (o.range 0 o.len) s.mem).2).1 = true
      · simp [h3] at hp
      · simp only [h3, Bool.false_eq_true, if_false]
        refine ⟨fun a ha => ?_, fun _ p hpp => ?_, fun hnd => ?_⟩
        · rw [Mem.free_out]
          cases hpr : o.h.pref with
          | uninit => simpa [Mem.dropSlot, Mem.emit] using Mem.dropSlice_complete _ s.mem ha
          | init p => exact Mem.dropId_mono (Mem.dropSlice_complete _ s.mem ha)
        · rw [Mem.free_out, hpp]; exact Mem.dropId_mem _ _
        · exact Mem.free_not_mem (by rw [Mem.dropSlot_bufs, Mem.dropSlice_bufs]; exact hnd)
    · simp only [h2, Bool.false_eq_true, if_false]
      refine ⟨fun a ha => ?_, fun h => h.elim, fun hnd => ?_⟩
      · rw [Mem.free_out]; exact Mem.dropSlice_complete _ s.mem ha
      · exact Mem.free_not_mem (by rw [Mem.dropSlice_bufs]; exact hnd)


/-- an id goes out through exactly the `drop a` and `ret a` events -/
theorem count_outId (a : Nat) : ∀ (tr : List Ev),
    (tr.filterMap Ev.outId).count a = tr.count (.drop a) + tr.count (.ret a)
  | [] => rfl
  | e :: tr => by
    have ih := count_outId a tr
    cases e <;> simp [List.filterMap_cons, Ev.outId, List.count_cons, ih] <;> omega

/-- After the container has been dropped at the end of a history that kept the no-leak invariant,
every id created so far is out: dropped or handed to the caller, and (ownership invariant) once. -/
theorem all_out_after_drop {s : St} (h : OwnF s) (hal : s.v.h.alive = true) :
    let s' := (step none .dropVec s).2
    (∀ a, a < s'.mem.next → (s'.mem.trace.filterMap Ev.outId).count a = 1) ∧
    (∀ e ∈ s'.mem.trace, ∀ a, e.newId = some a → a < s'.mem.next) := by
  intro s'
  have h' : OwnF s' := step_ownF .dropVec h rfl
  have hdead : s'.v.len = 0 ∧ s'.v.h.alive = false := by
    show (step none .dropVec s).2.v.len = 0 ∧ (step none .dropVec s).2.v.h.alive = false
    unfold step
    simp only [hal, if_true]
    by_cases ht : s.v.h.thin = true
    · simp [ht, tStep, liftB, tDrop]
    · simp [ht, iStep, liftB, iDrop]
  obtain ⟨L, rest, e1, e2, e3, e4⟩ := h'
  have hL : L = [] := List.eq_nil_of_length_eq_zero (by omega)
  have hp : prefL s'.v.h = [] := by simp [prefL, hdead.2]
  subst hL
  refine ⟨fun a ha => ?_, e4.created⟩
  have hmem : a ∈ s'.mem.out := by
    rcases (e4.full rfl).2 a ha with h1 | h1
    · simp [hp] at h1
    · exact h1
  rw [e4.trout, e4.outnd.count, if_pos hmem]
