/-
The ownership invariant is preserved by every operation of the L0 model, for every fault
position (`step_own`), hence along every history (`run_own`); initial states; what a completed
container drop achieves.
-/
import HipVerif.Lemmas.SlotsThin
namespace HipVerif.Slots

/-- the invariant does not look at the fault budget or the callback counter -/
theorem OwnL.budget {s loc locB} (k : Option Nat) (h : OwnL s loc locB) :
    OwnL { s with mem := { s.mem with budget := k } } loc locB :=
  h.mem_step (fun _ _ hx => { hx with })

theorem iStep_own {s loc locB} (op : Op) (h : OwnL s loc locB) :
    OwnL (iStep op s).2 loc locB := by
  cases op <;> simp only [iStep, liftB]
  case push => exact iPush_own h
  case tryPush => exact iTryPush_own h
  case pop => exact iPop_own h
  case insert i => exact iInsert_own i h
  case tryInsert i => exact iTryInsert_own i h
  case remove i => exact iRemove_own i h
  case swapRemove i => exact iSwapRemove_own i h
  case truncate n => exact iTruncate_own n h
  case clear => exact iTruncate_own 0 h
  case resize n => exact iResize_own n h
  case resizeWith n => exact iResizeWith_own n h
  case extSlice n => exact iExtSlice_own n h
  case extWithin a b => exact iExtWithin_own a b h
  case extIter hint n => exact iExtIter_own n s h
  case clone => exact iClone_own h
  case append n => exact iAppend_own n h
  case splitOff a => exact iSplitOff_own a h
  case drain a b sc f => exact drainOp_own a b sc f h
  case intoIter sc f => exact iIntoIter_own sc f h
  case reserve n => exact h
  case shrinkFit => exact h
  case roundtrip => exact iRoundtrip_own h
  case dropVec => exact iDrop_own h

theorem tStep_own {s loc locB} (op : Op) (h : OwnL s loc locB) (ht : s.v.h.thin = true)
    (hal : s.v.h.alive = true) : OwnL (tStep op s).2 loc locB := by
  cases op <;> simp only [tStep, liftB]
  case push => exact tPush_own h ht hal
  case tryPush => exact h
  case pop => exact iPop_own h
  case insert i => exact tInsert_own i h ht hal
  case tryInsert i => exact h
  case remove i => exact iRemove_own i h
  case swapRemove i => exact tSwapRemove_own i h
  case truncate n => exact tTruncate_own n h
  case clear => exact tClear_own h
  case resize n => exact tResize_own n h ht hal
  case resizeWith n => exact h
  case extSlice n => exact tExtSlice_own n h ht hal
  case extWithin a b => exact tExtWithin_own a b h ht hal
  case extIter hint n => exact tExtIter_own hint n h ht hal
  case clone => exact tClone_own h
  case append n => exact tAppend_own n h ht hal
  case splitOff a => exact tSplitOff_own a h
  case drain a b sc f => exact drainOp_own a b sc f h
  case intoIter sc f => exact h
  case reserve n => exact tReserve_own n h ht hal
  case shrinkFit => exact tShrinkFit_own h ht hal
  case roundtrip =>
    rcases hr : tRoundtrip s with _ | r
    · exact h
    · exact tRoundtrip_own h ht hal r hr
  case dropVec => exact tDrop_own h ht hal

/-- Every operation, with a fault injected at any callback (or none), preserves the ownership
invariant — on normal return and after unwinding alike. -/
theorem step_own {s : St} (k : Option Nat) (op : Op) (h : Own s) : Own (step k op s).2 := by
  unfold step
  split
  · rename_i hal
    have h1 : OwnL ({ s with mem := { s.mem with budget := k } } : St) [] [] := OwnL.budget k h
    simp only
    by_cases ht : s.v.h.thin = true
    · simp only [ht, if_true]
      exact OwnL.budget none (tStep_own op h1 ht hal)
    · simp only [ht, Bool.false_eq_true, if_false]
      exact OwnL.budget none (iStep_own op h1)
  · exact h

theorem run_own : ∀ (hist : List (Option Nat × Op)) (s : St), Own s → Own (run hist s)
  | [], _, h => h
  | (k, op) :: hist, _, h => run_own hist _ (step_own k op h)

theorem Acct.empty : Acct {} [] [] :=
  { nobad := fun _ h => by simp at h, nodup := List.nodup_nil, lt := fun _ h => by simp at h,
    notout := fun _ h => by simp at h, outnd := List.nodup_nil, outlt := fun _ h => by simp at h,
    bnodup := List.nodup_nil, blive := fun _ h => by simp at h, blt := fun _ h => by simp at h,
    bufsnd := List.nodup_nil, trout := rfl }

theorem own_initInline (cap : Nat) : Own (initInline cap) :=
  ⟨[], uninits cap, rfl, by simp [initInline, iNew],
    ⟨fun h => by simp [initInline, iNew] at h, fun h => by simp [initInline, iNew] at h⟩,
    by simpa [initInline, iNew, prefL, bufL] using Acct.empty⟩

theorem own_initThin (esz : Nat) (tracked : Bool) (h : 0 < esz) : Own (initThin esz tracked) := by
  have h0 : OwnL ({} : St) [] [] :=
    ⟨[], [], rfl, rfl, ⟨fun h => by simp at h, fun h => by simp at h⟩,
      by simpa [prefL, bufL] using Acct.empty⟩
  exact tNewQuiet_own esz tracked h0 h

theorem Mem.markDrop_mem (a : Nat) (m : Mem) : a ∈ (m.markDrop a).out := by
  unfold Mem.markDrop; split
  · assumption
  · simp

theorem Mem.markDrop_mono {a b : Nat} {m : Mem} (h : b ∈ m.out) : b ∈ (m.markDrop a).out := by
  unfold Mem.markDrop; split
  · exact h
  · simp [h]

theorem Mem.dropId_mem (a : Nat) (m : Mem) : a ∈ (m.dropId a).2.out := by
  unfold Mem.dropId; rw [Mem.tick_out]; exact Mem.markDrop_mem a m

theorem Mem.dropId_mono {a b : Nat} {m : Mem} (h : b ∈ m.out) : b ∈ (m.dropId a).2.out := by
  unfold Mem.dropId; rw [Mem.tick_out]; exact Mem.markDrop_mono h

theorem Mem.dropSlice_mono {b : Nat} : ∀ (xs : List Slot) (m : Mem), b ∈ m.out →
    b ∈ (m.dropSlice xs).2.out
  | [], _, h => h
  | .uninit :: xs, m, h => by
    simp only [Mem.dropSlice, Mem.dropSlot]
    exact Mem.dropSlice_mono xs _ h
  | .init a :: xs, m, h => by
    rw [Mem.dropSlice_cons_init]
    exact Mem.dropSlice_mono xs _ (Mem.dropId_mono h)

/-- `drop_in_place` of a slice runs the destructor of every element, panic or not -/
theorem Mem.dropSlice_complete {b : Nat} : ∀ (xs : List Slot) (m : Mem), .init b ∈ xs →
    b ∈ (m.dropSlice xs).2.out
  | [], _, h => by simp at h
  | .uninit :: xs, m, h => by
    simp only [Mem.dropSlice, Mem.dropSlot]
    exact Mem.dropSlice_complete xs _ (by simpa using h)
  | .init a :: xs, m, h => by
    rw [Mem.dropSlice_cons_init]
    simp only [List.mem_cons, Slot.init.injEq] at h
    rcases h with rfl | h
    · exact Mem.dropSlice_mono xs _ (Mem.dropId_mem _ m)
    · exact Mem.dropSlice_complete xs _ h

theorem Mem.dropLoop_mono {b : Nat} : ∀ (xs : List Slot) (m : Mem), b ∈ m.out →
    b ∈ (m.dropLoop xs).2.out
  | [], _, h => h
  | .uninit :: xs, m, h => by
    simp only [Mem.dropLoop, Mem.dropSlot]
    exact Mem.dropLoop_mono xs _ h
  | .init a :: xs, m, h => by
    rw [Mem.dropLoop_cons_init]
    split
    · exact Mem.dropId_mono h
    · exact Mem.dropLoop_mono xs _ (Mem.dropId_mono h)

/-- a `for` loop of drops that does not panic runs the destructor of every element -/
theorem Mem.dropLoop_complete {b : Nat} : ∀ (xs : List Slot) (m : Mem), (m.dropLoop xs).1 = false →
    .init b ∈ xs → b ∈ (m.dropLoop xs).2.out
  | [], _, _, h => by simp at h
  | .uninit :: xs, m, hp, h => by
    simp only [Mem.dropLoop, Mem.dropSlot] at hp ⊢
    exact Mem.dropLoop_complete xs _ hp (by simpa using h)
  | .init a :: xs, m, hp, h => by
    rw [Mem.dropLoop_cons_init] at hp ⊢
    split at hp
    · simp at hp
    · rename_i hq
      rw [if_neg hq]
      simp only [List.mem_cons, Slot.init.injEq] at h
      rcases h with rfl | h
      · exact Mem.dropLoop_mono xs _ (Mem.dropId_mem _ m)
      · exact Mem.dropLoop_complete xs _ hp h

theorem Mem.tick_bufs (m : Mem) : m.tick.2.bufs = m.bufs := by
  unfold Mem.tick; split <;> rfl

theorem Mem.dropId_bufs (a : Nat) (m : Mem) : (m.dropId a).2.bufs = m.bufs := by
  unfold Mem.dropId; rw [Mem.tick_bufs]; unfold Mem.markDrop; split <;> rfl

theorem Mem.dropSlot_bufs (x : Slot) (m : Mem) : (m.dropSlot x).2.bufs = m.bufs := by
  cases x
  · rfl
  · exact Mem.dropId_bufs _ m

theorem Mem.dropSlice_bufs : ∀ (xs : List Slot) (m : Mem), (m.dropSlice xs).2.bufs = m.bufs
  | [], _ => rfl
  | x :: xs, m => by
    simp only [Mem.dropSlice]
    rw [Mem.dropSlice_bufs xs, Mem.dropSlot_bufs]

theorem Mem.free_out (b : Nat) (m : Mem) : (m.free b).out = m.out := by
  unfold Mem.free; split <;> rfl

theorem Mem.free_not_mem {b : Nat} {m : Mem} (h : m.bufs.Nodup) : b ∉ (m.free b).bufs := by
  unfold Mem.free; split
  · exact h.not_mem_erase
  · assumption

/-- ids of the elements and of the live prefix value of the container -/
def ownedIds (s : St) : List Nat :=
  prefL s.v.h ++ (s.v.range 0 s.v.len).filterMap (fun x => match x with | .init a => some a | .uninit => none)

theorem iDrop_complete {s : St} (hp : (iDrop s).1 = false) {a : Nat}
    (ha : .init a ∈ s.v.range 0 s.v.len) : a ∈ (iDrop s).2.mem.out := by
  unfold iDrop at hp ⊢
  simp only [St.onMem_eq] at hp ⊢
  exact Mem.dropLoop_complete _ _ hp ha

theorem tDropVec_complete {o : Vec} {s : St} (hp : (tDropVec o s).1 = false) :
    (∀ a, .init a ∈ o.range 0 o.len → a ∈ (tDropVec o s).2.mem.out) ∧
    (o.h.tracked = true → ∀ p, o.h.pref = .init p → p ∈ (tDropVec o s).2.mem.out) ∧
    (s.mem.bufs.Nodup → o.h.buf ∉ (tDropVec o s).2.mem.bufs) := by
  unfold tDropVec at hp ⊢
  simp only [St.onMem_eq, St.withMem] at hp ⊢
  by_cases h1 : (Mem.dropSlice (o.range 0 o.len) s.mem).1 = true
  · simp [h1] at hp
  · simp only [h1, Bool.false_eq_true, if_false] at hp ⊢
    by_cases h2 : o.h.tracked = true
    · simp only [h2, if_true] at hp ⊢
      by_cases h3 : (Mem.dropSlot o.h.pref (Mem.dropSlice (o.range 0 o.len) s.mem).2).1 = true
      · simp [h3] at hp
      · simp only [h3, Bool.false_eq_true, if_false]
        refine ⟨fun a ha => ?_, fun _ p hpp => ?_, fun hnd => ?_⟩
        · rw [Mem.free_out]
          cases hpr : o.h.pref with
          | uninit => simpa [Mem.dropSlot, Mem.emit] using Mem.dropSlice_complete _ s.mem ha
          | init p => exact Mem.dropId_mono (Mem.dropSlice_complete _ s.mem ha)
        · rw [Mem.free_out, hpp]; exact Mem.dropId_mem _ _
        · exact Mem.free_not_mem (by rw [Mem.dropSlot_bufs, Mem.dropSlice_bufs]; exact hnd)
    · simp only [h2, Bool.false_eq_true, if_false]
      refine ⟨fun a ha => ?_, fun h => h.elim, fun hnd => ?_⟩
      · rw [Mem.free_out]; exact Mem.dropSlice_complete _ s.mem ha
      · exact Mem.free_not_mem (by rw [Mem.dropSlice_bufs]; exact hnd)


end HipVerif.Slots
