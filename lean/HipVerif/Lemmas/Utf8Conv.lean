/-
  Theorems about the conversion doors of `Model/Utf8Conv.lean` (C06): UTF-16 decoding (strict
  and lossy) always yields valid UTF-8, fails exactly on unpaired surrogates, and the lossy
  decoder agrees with the strict one whenever the latter succeeds; the strict byte doors accept
  exactly the valid strings and hand back their input otherwise.

  Normal form as in `Lemmas/Utf8.lean`: Bool predicates as `… = true` / `… = false`.
-/
import HipVerif.Lemmas.Utf8
import HipVerif.Model.Utf8Conv

namespace HipVerif.Utf8

/-! ## UTF-16 -/

theorem isLow_not_high {u : UInt16} (h : isLowSurrogate u = true) : isHighSurrogate u = false := by
  simp only [isLowSurrogate, isHighSurrogate, Bool.and_eq_true, decide_eq_true_eq,
    Bool.and_eq_false_iff, decide_eq_false_iff_not] at h ⊢
  omega

/-- Every item produced by `decode_utf16` is a Unicode scalar value. -/
theorem utf16Scalars_isScalar (v : List UInt16) :
    ∀ c, some c ∈ utf16Scalars v → isScalar c = true := by
  fun_induction utf16Scalars v with
  | case1 => intro c h; simp at h
  | case2 u t hns ih =>
    intro c h
    simp only [List.mem_cons, Option.some.injEq] at h
    rcases h with rfl | h
    · have hlt := UInt16.toNat_lt u
      simp only [isHighSurrogate, isLowSurrogate, Bool.and_eq_true, Bool.not_eq_eq_eq_not,
        Bool.not_true, Bool.and_eq_false_iff, decide_eq_false_iff_not] at hns
      rw [isScalar_iff]
      omega
    · exact ih c h
  | case3 u t _ _ ih =>
    intro c h
    simp only [List.mem_cons, reduceCtorEq, false_or] at h
    exact ih c h
  | case4 u _ _ =>
    intro c h; simp at h
  | case5 u hns hnl u2 t2 hl ih =>
    intro c h
    simp only [List.mem_cons, Option.some.injEq] at h
    rcases h with h | h
    · have hlt := UInt16.toNat_lt u
      have hlt2 := UInt16.toNat_lt u2
      have hhigh : isHighSurrogate u = true := by
        cases hh : isHighSurrogate u
        · simp [hh, hnl] at hns
        · rfl
      simp only [isHighSurrogate, isLowSurrogate, Bool.and_eq_true, decide_eq_true_eq] at hhigh hl
      rw [isScalar_iff]
      omega
    · exact ih c h
  | case6 u _ _ u2 t2 _ ih =>
    intro c h
    simp only [List.mem_cons, reduceCtorEq, false_or] at h
    exact ih c h

/-- `from_utf16_lossy` always produces valid UTF-8. -/
theorem valid_decodeUtf16Lossy (v : List UInt16) : valid (decodeUtf16Lossy v) = true := by
  unfold decodeUtf16Lossy
  rw [List.flatMap_def]
  apply valid_flatten
  intro p hp
  simp only [List.mem_map] at hp
  obtain ⟨o, ho, rfl⟩ := hp
  cases o with
  | none => exact valid_encode (by decide)
  | some c => exact valid_encode (utf16Scalars_isScalar v c ho)

/-- `from_utf16` produces valid UTF-8 when it succeeds. -/
theorem valid_decodeUtf16 {v : List UInt16} {bs : List UInt8} (h : decodeUtf16 v = some bs) :
    valid bs = true := by
  unfold decodeUtf16 at h
  simp only at h
  split at h
  · rename_i hall
    simp only [Option.some.injEq] at h
    subst h
    rw [List.flatMap_def]
    apply valid_flatten
    intro p hp
    simp only [List.mem_map] at hp
    obtain ⟨o, ho, rfl⟩ := hp
    cases o with
    | none =>
      have := (List.all_eq_true.mp hall) none ho
      simp at this
    | some c => exact valid_encode (utf16Scalars_isScalar v c ho)
  · exact absurd h (by simp)

/-- When the strict decoder succeeds, the lossy one returns the same bytes. -/
theorem decodeUtf16Lossy_eq_of_some {v : List UInt16} {bs : List UInt8}
    (h : decodeUtf16 v = some bs) : decodeUtf16Lossy v = bs := by
  unfold decodeUtf16 at h
  simp only at h
  split at h
  · rename_i hall
    simp only [Option.some.injEq] at h
    subst h
    unfold decodeUtf16Lossy
    rw [List.flatMap_def, List.flatMap_def]
    congr 1
    apply List.map_congr_left
    intro o ho
    cases o with
    | none =>
      have := (List.all_eq_true.mp hall) none ho
      simp at this
    | some c => rfl
  · exact absurd h (by simp)

theorem decodeUtf16_none_iff_mem (v : List UInt16) :
    decodeUtf16 v = none ↔ none ∈ utf16Scalars v := by
  unfold decodeUtf16
  simp only
  split
  · rename_i hall
    constructor
    · intro h; exact absurd h (by simp)
    · intro hm
      have := (List.all_eq_true.mp hall) none hm
      simp at this
  · rename_i hall
    constructor
    · intro _
      apply Classical.byContradiction
      intro hn
      apply hall
      rw [List.all_eq_true]
      intro o ho
      cases o with
      | none => exact absurd ho hn
      | some c => rfl
    · intro _; rfl

/-- `decode_utf16` yields an error item exactly when some surrogate is unpaired. -/
theorem none_mem_utf16Scalars_iff (v : List UInt16) :
    none ∈ utf16Scalars v ↔ hasUnpairedSurrogate false v = true := by
  fun_induction utf16Scalars v with
  | case1 => simp [hasUnpairedSurrogate]
  | case2 u t hns ih =>
    simp only [Bool.and_eq_true, Bool.not_eq_eq_eq_not, Bool.not_true] at hns
    simp only [List.mem_cons, reduceCtorEq, false_or, hasUnpairedSurrogate, hns.1, hns.2,
      Bool.false_and, Bool.false_or]
    exact ih
  | case3 u t _ hl ih =>
    simp [hasUnpairedSurrogate, hl]
  | case4 u hns hnl =>
    have hhigh : isHighSurrogate u = true := by
      cases hh : isHighSurrogate u
      · simp [hh, hnl] at hns
      · rfl
    simp [hasUnpairedSurrogate, hhigh]
  | case5 u hns hnl u2 t2 hl ih =>
    have hhigh : isHighSurrogate u = true := by
      cases hh : isHighSurrogate u
      · simp [hh, hnl] at hns
      · rfl
    have hnl' : isLowSurrogate u = false := by simpa using hnl
    simp only [List.mem_cons, reduceCtorEq, false_or, hasUnpairedSurrogate, hhigh, hnl', hl,
      isLow_not_high hl, List.head?_cons, Option.map_some, Option.getD_some, Bool.not_true,
      Bool.and_false, Bool.false_and, Bool.false_or]
    exact ih
  | case6 u hns hnl u2 t2 hl ih =>
    have hhigh : isHighSurrogate u = true := by
      cases hh : isHighSurrogate u
      · simp [hh, hnl] at hns
      · rfl
    have hl' : isLowSurrogate u2 = false := by simpa using hl
    simp [hasUnpairedSurrogate, hhigh, hl']

/-- **`from_utf16` fails exactly on an unpaired surrogate.** -/
theorem decodeUtf16_none_iff (v : List UInt16) :
    decodeUtf16 v = none ↔ hasUnpairedSurrogate false v = true := by
  rw [decodeUtf16_none_iff_mem, none_mem_utf16Scalars_iff]

/-- Lossy = strict whenever strict succeeds, in `Option` form. -/
theorem decodeUtf16_eq_some_lossy {v : List UInt16} (h : hasUnpairedSurrogate false v = false) :
    decodeUtf16 v = some (decodeUtf16Lossy v) := by
  cases hd : decodeUtf16 v with
  | none =>
    rw [decodeUtf16_none_iff] at hd
    rw [hd] at h
    exact Bool.noConfusion h
  | some bs => rw [decodeUtf16Lossy_eq_of_some hd]

/-! ## Strict byte doors -/

theorem toStr_isSome_iff (bs : List UInt8) : (toStr bs).isSome = true ↔ valid bs = true := by
  unfold toStr; split <;> simp_all

theorem toStr_eq_some {bs r : List UInt8} (h : toStr bs = some r) : r = bs ∧ valid r = true := by
  unfold toStr at h
  split at h
  · rename_i hv
    simp only [Option.some.injEq] at h
    subst h
    exact ⟨rfl, hv⟩
  · exact absurd h (by simp)

theorem toStr_eq_none_iff (bs : List UInt8) : toStr bs = none ↔ valid bs = false := by
  unfold toStr; split <;> simp_all

theorem intoStr_ok {bs r : List UInt8} (h : intoStr bs = .ok r) : r = bs ∧ valid r = true := by
  unfold intoStr at h
  split at h
  · rename_i hv
    injection h with h
    subst h
    exact ⟨rfl, hv⟩
  · exact absurd h (by simp)

/-- A rejected `into_str` hands back the original value, and it was ill-formed. -/
theorem intoStr_error {bs e : List UInt8} (h : intoStr bs = .error e) :
    e = bs ∧ valid bs = false := by
  unfold intoStr at h
  split at h
  · exact absurd h (by simp)
  · rename_i hv
    injection h with h
    subst h
    exact ⟨rfl, by simpa using hv⟩

theorem fromUtf8_ok {bs r : List UInt8} (h : fromUtf8 bs = .ok r) : r = bs ∧ valid r = true := by
  unfold fromUtf8 at h
  split at h
  · rename_i hv
    injection h with h
    subst h
    exact ⟨rfl, hv⟩
  · exact absurd h (by simp)

/-- A rejected `from_utf8` reports a valid proper prefix and hands back the original bytes. -/
theorem fromUtf8_error {bs back : List UInt8} {k : Nat} (h : fromUtf8 bs = .error (k, back)) :
    back = bs ∧ valid bs = false ∧ k < bs.length ∧ valid (bs.take k) = true ∧
      firstCharLen (bs.drop k) = 0 := by
  unfold fromUtf8 at h
  split at h
  · exact absurd h (by simp)
  · rename_i hv
    injection h with h
    injection h with h1 h2
    subst h1 h2
    have hv' : valid bs = false := by simpa using hv
    exact ⟨rfl, hv', validUpTo_lt_of_not_valid hv', valid_take_validUpTo bs,
      firstCharLen_drop_validUpTo bs⟩

theorem fromUtf8_isOk_iff (bs : List UInt8) : (fromUtf8 bs).isOk = true ↔ valid bs = true := by
  unfold fromUtf8; split <;> simp_all [Except.isOk, Except.toBool]

/-- Comparing LENGTHS does not detect a replacement (seeded change C06-m5): a truncated
4-byte sequence is 3 bytes long, like U+FFFD. -/
theorem lossy_same_length_counterexample :
    valid [0xF0, 0x9F, 0xA6] = false ∧
    (decodeLossy [0xF0, 0x9F, 0xA6]).length = [0xF0, 0x9F, 0xA6].length ∧
    decodeLossy [0xF0, 0x9F, 0xA6] ≠ [0xF0, 0x9F, 0xA6] := by decide

/-! ## Sanity -/

example : decodeUtf16 [0x0061, 0xD83E, 0xDD80] = some [0x61, 0xF0, 0x9F, 0xA6, 0x80] := by decide
example : decodeUtf16 [0x0061, 0xD83E] = none := by decide
example : decodeUtf16 [0xDD80, 0xD83E] = none := by decide
example : decodeUtf16Lossy [0xD83E, 0xD83E, 0xDD80, 0xDD80] =
    [0xEF, 0xBF, 0xBD, 0xF0, 0x9F, 0xA6, 0x80, 0xEF, 0xBF, 0xBD] := by decide

end HipVerif.Utf8
