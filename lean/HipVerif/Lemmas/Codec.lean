/-
  Lemmas about the serialisation model (`Model/Codec.lean`) for property C16.
  All statements are generic in the table rows and in `valid`; `Props/C16.lean` instantiates
  them with the generated table after checking the row predicates by `decide`.
-/
import HipVerif.Model.Codec

namespace HipVerif.Codec
open HipVerif.Spec.Codec (Token SerOut collect leBytes fromLe)

/-! ## Little-endian prefixes -/

theorem length_leBytes (k n : Nat) : (leBytes k n).length = k := by
  induction k generalizing n with
  | zero => rfl
  | succ k ih => simp [leBytes, ih]

theorem fromLe_leBytes (k n : Nat) (h : n < 256 ^ k) : fromLe (leBytes k n) = n := by
  induction k generalizing n with
  | zero => simp at h; simp [leBytes, fromLe]; omega
  | succ k ih =>
    have h1 : n / 256 < 256 ^ k := by
      rw [Nat.pow_succ] at h
      exact Nat.div_lt_of_lt_mul (by rw [Nat.mul_comm]; exact h)
    simp only [leBytes, fromLe, ih _ h1]
    have : (UInt8.ofNat (n % 256)).toNat = n % 256 := by
      simp [UInt8.toNat_ofNat']
    rw [this]; omega

theorem readPrefix_le (k n : Nat) (h : n < 256 ^ k) (r : List UInt8) :
    readPrefix k (leBytes k n ++ r) = some (n, r) := by
  have hl := length_leBytes k n
  simp [readPrefix, hl, fromLe_leBytes k n h]

theorem readPrefix_length {k : Nat} {input rest : List UInt8} {n : Nat}
    (h : readPrefix k input = some (n, rest)) : input.length = k + rest.length := by
  unfold readPrefix at h
  split at h
  · cases h
  · simp at h; obtain ⟨_, rfl⟩ := h; simp; omega

/-! ## The `Vec` capacity model -/

theorem maxOf_cons (r : Nat) (rs : List Nat) : maxOf (r :: rs) = max r (maxOf rs) := rfl

/-- Invariant of a vector created by `with_capacity(c0)` and filled by `push`: the recorded
length is the real one and every request so far is the initial one or at most `2 * len + 6`. -/
def VInv (c0 : Nat) (v : VecSt) : Prop :=
  v.len = v.rev.length ∧ maxOf v.reqs ≤ max c0 (2 * v.len + 6)

theorem VInv_withCapacity (c : Nat) : VInv c (VecSt.withCapacity c) := by
  simp [VInv, VecSt.withCapacity, maxOf]; omega

theorem growCap_le (c : Nat) : growCap c ≤ 2 * c + 8 := by
  unfold growCap; omega

theorem growCap_gt (c : Nat) : c < growCap c := by
  unfold growCap; omega

theorem VInv_push {c0 : Nat} {v : VecSt} (h : VInv c0 v) (b : UInt8) : VInv c0 (v.push b) := by
  obtain ⟨h1, h3⟩ := h
  unfold VecSt.push
  split
  · rename_i heq
    have := growCap_le v.cap
    simp only [VInv, List.length_cons, maxOf_cons]
    refine ⟨by omega, ?_⟩
    omega
  · simp only [VInv, List.length_cons]
    refine ⟨by omega, by omega⟩

theorem push_len (v : VecSt) (b : UInt8) : (v.push b).len = v.len + 1 := by
  unfold VecSt.push; split <;> rfl

theorem push_bytes (v : VecSt) (b : UInt8) : (v.push b).bytes = v.bytes ++ [b] := by
  unfold VecSt.push VecSt.bytes; split <;> simp

/-! ## The read loop -/

theorem readLoop_roundtrip (b r : List UInt8) (v : VecSt) :
    (readLoop b.length (b ++ r) v).result = .ok (v.bytes ++ b, r) := by
  induction b generalizing v with
  | nil => simp [readLoop]
  | cons x xs ih => simp [readLoop, ih, push_bytes]

theorem readLoop_bound {c0 : Nat} (n : Nat) (input : List UInt8) (v : VecSt) (h : VInv c0 v) :
    maxOf (readLoop n input v).reqs ≤ max c0 (2 * (v.len + input.length) + 6) := by
  induction n generalizing input v with
  | zero => have := h.2; simp [readLoop]; omega
  | succ n ih =>
    cases input with
    | nil => have := h.2; simp [readLoop]; omega
    | cons b rest =>
      have := ih rest (v.push b) (VInv_push h b)
      simp only [readLoop, List.length_cons]
      rw [push_len] at this
      omega

theorem readLoop_err (n : Nat) (input : List UInt8) (v : VecSt) (e : Err)
    (h : (readLoop n input v).result = .error e) : e = .eof := by
  induction n generalizing input v with
  | zero => simp [readLoop] at h
  | succ n ih =>
    cases input with
    | nil => simp [readLoop] at h; exact h.symm
    | cons b rest => exact ih rest _ (by simpa [readLoop] using h)

/-- The loop consumes exactly `n` bytes. -/
theorem readLoop_ok (n : Nat) (input : List UInt8) (v : VecSt) (c rest : List UInt8)
    (h : (readLoop n input v).result = .ok (c, rest)) :
    c = v.bytes ++ input.take n ∧ rest = input.drop n ∧ n ≤ input.length := by
  induction n generalizing input v with
  | zero => simp [readLoop] at h; simp [h]
  | succ n ih =>
    cases input with
    | nil => simp [readLoop] at h
    | cons b r =>
      have := ih r (v.push b) (by simpa [readLoop] using h)
      simp [push_bytes] at this ⊢
      omega

/-! ## The borsh reader -/

/-- The shape predicate behind `borshShapeRowOk` for the bytes reader. -/
def shapeOk (limit : Nat) : BorshDe → Bool
  | .reader k _ (.minLen c) perByte _ => k == 4 && perByte && c ≤ limit
  | _ => false

theorem shapeOk_of_rowOk {limit : Nat} {r : BorshDeRow} (h : borshShapeRowOk limit r = true)
    (hk : r.kind = .byt) : shapeOk limit r.shape = true := by
  unfold borshShapeRowOk at h
  unfold shapeOk
  split at h <;> simp_all

theorem deShape_roundtrip {limit : Nat} {sh : BorshDe} (hs : shapeOk limit sh = true)
    (b r : List UInt8) (hb : b.length < 2 ^ 32) :
    (deShape sh (ser b ++ r)).result = .ok (b, r) := by
  unfold shapeOk at hs
  split at hs <;> try contradiction
  rename_i k z c p ct
  simp at hs
  obtain ⟨⟨rfl, _⟩, _⟩ := hs
  have hp : readPrefix 4 (leBytes 4 b.length ++ (b ++ r)) = some (b.length, b ++ r) :=
    readPrefix_le 4 b.length (by simpa using hb) (b ++ r)
  simp only [deShape, ser, List.append_assoc, hp]
  split
  · rename_i h0
    simp at h0
    have : b = [] := h0.2
    subst this; simp
  · simp [readLoop_roundtrip, VecSt.bytes, VecSt.withCapacity]

theorem deShape_bound {limit : Nat} {sh : BorshDe} (hs : shapeOk limit sh = true)
    (input : List UInt8) : (deShape sh input).maxRequest ≤ limit + 2 * input.length := by
  unfold shapeOk at hs
  split at hs <;> try contradiction
  rename_i k z c p ct
  simp at hs
  obtain ⟨⟨rfl, _⟩, hc⟩ := hs
  simp only [deShape, DeOut.maxRequest]
  split
  · simp [maxOf]
  · rename_i len rest hp
    have hl := readPrefix_length hp
    split
    · simp [maxOf]
    · have := readLoop_bound (c0 := min len c) len rest _ (VInv_withCapacity (min len c))
      simp only [VecSt.withCapacity] at this ⊢
      omega

theorem deShape_err {sh : BorshDe} (input : List UInt8) (e : Err)
    (h : (deShape sh input).result = .error e) : e = .eof ∨ e = .noImpl := by
  unfold deShape at h
  split at h
  · split at h
    · simp at h; exact .inl h.symm
    · split at h
      · simp at h
      · exact .inl (readLoop_err _ _ _ _ h)
  · simp at h; exact .inr h.symm

theorem borshShape_mem {rows : List BorshDeRow} {k : HipKind} {sh : BorshDe}
    (h : borshShape rows k = some sh) : ∃ r ∈ rows, r.kind = k ∧ r.shape = sh := by
  unfold borshShape at h
  cases hf : rows.find? (·.kind == k) with
  | none => simp [hf] at h
  | some r =>
    simp [hf] at h
    have hm := List.mem_of_find?_eq_some hf
    have hp := List.find?_some hf
    exact ⟨r, hm, by simpa using hp, h⟩

/-- Under the row predicate the bytes row's shape satisfies `shapeOk`. -/
theorem bytShape_ok {limit : Nat} {rows : List BorshDeRow}
    (hok : rows.all (borshShapeRowOk limit) = true) {sh : BorshDe}
    (h : borshShape rows .byt = some sh) : shapeOk limit sh = true := by
  obtain ⟨r, hm, hk, rfl⟩ := borshShape_mem h
  exact shapeOk_of_rowOk (List.all_eq_true.mp hok r hm) hk

/-- Under the row predicate the string row validates through the bytes reader. -/
theorem strShape_ok {limit : Nat} {rows : List BorshDeRow}
    (hok : rows.all (borshShapeRowOk limit) = true) {sh : BorshDe}
    (h : borshShape rows .str = some sh) : sh = .viaBytThenValidate := by
  obtain ⟨r, hm, hk, rfl⟩ := borshShape_mem h
  have := List.all_eq_true.mp hok r hm
  unfold borshShapeRowOk at this
  split at this <;> simp_all

/-! ## `borshDe` following a table whose rows pass `borshShapeRowOk` -/

section Table
variable {limit : Nat} {rows : List BorshDeRow} (valid : List UInt8 → Bool)

theorem borshDe_byt (hok : rows.all (borshShapeRowOk limit) = true) {sh : BorshDe}
    (h : borshShape rows .byt = some sh) (input : List UInt8) :
    borshDe valid rows .byt input = deShape sh input := by
  have hs := bytShape_ok hok h
  unfold shapeOk at hs
  split at hs <;> try contradiction
  simp [borshDe, h]

theorem borshDe_str (hok : rows.all (borshShapeRowOk limit) = true) {sh : BorshDe}
    (hb : borshShape rows .byt = some sh) (hs : (borshShape rows .str).isSome = true)
    (input : List UInt8) :
    borshDe valid rows .str input =
      (let o := deShape sh input
       match o.result with
       | .ok (b, rest) =>
         if valid b then ⟨.ok (b, rest), o.reqs⟩ else ⟨.error .invalidData, o.reqs⟩
       | .error e => ⟨.error e, o.reqs⟩) := by
  obtain ⟨s, hs'⟩ := Option.isSome_iff_exists.mp hs
  have := strShape_ok hok hs'
  subst this
  simp only [borshDe, hs', hb]
  rfl

theorem borshDe_bound (hok : rows.all (borshShapeRowOk limit) = true) (k : HipKind)
    (input : List UInt8) :
    (borshDe valid rows k input).maxRequest ≤ limit + 2 * input.length := by
  have key : ∀ sh, borshShape rows .byt = some sh →
      maxOf (deShape sh input).reqs ≤ limit + 2 * input.length :=
    fun sh h => deShape_bound (bytShape_ok hok h) input
  unfold borshDe DeOut.maxRequest
  split
  · split
    · rename_i sh hb
      have := key sh hb
      dsimp only
      split
      · split <;> exact this
      · exact this
    · simp [maxOf]
  · split
    · rename_i sh hb; exact key sh hb
    · simp [maxOf]
  · rename_i sh h1 h2 hsome
    obtain ⟨r, hm, hk, rfl⟩ := borshShape_mem hsome
    have hr := List.all_eq_true.mp hok r hm
    cases k with
    | byt => exact key _ hsome
    | str | os | path =>
      unfold borshShapeRowOk at hr
      split at hr <;> simp_all
  · simp [maxOf]

theorem borshDe_err (hok : rows.all (borshShapeRowOk limit) = true) (k : HipKind)
    (hb : (borshShape rows .byt).isSome = true) (hk : (borshShape rows k).isSome = true)
    (input : List UInt8) (e : Err) (h : (borshDe valid rows k input).result = .error e) :
    e = .eof ∨ (k = .str ∧ e = .invalidData) := by
  obtain ⟨sb, hsb⟩ := Option.isSome_iff_exists.mp hb
  obtain ⟨sk, hsk⟩ := Option.isSome_iff_exists.mp hk
  have hokb := bytShape_ok hok hsb
  have noimpl : ∀ e, (deShape sb input).result = .error e → e = .eof := by
    intro e he
    rcases deShape_err input e he with h | h
    · exact h
    · unfold shapeOk at hokb
      split at hokb <;> try contradiction
      subst h
      unfold deShape at he
      simp only at he
      split at he
      · simp at he
      · split at he
        · simp at he
        · exact readLoop_err _ _ _ _ he
  obtain ⟨r, hm, hrk, rfl⟩ := borshShape_mem hsk
  have hr := List.all_eq_true.mp hok r hm
  cases k with
  | byt =>
    rw [borshDe_byt valid hok hsb] at h
    exact .inl (noimpl e h)
  | str =>
    rw [borshDe_str valid hok hsb hk] at h
    dsimp only at h
    split at h
    · split at h
      · simp at h
      · simp at h; exact .inr ⟨rfl, h.symm⟩
    · rename_i e' he'
      simp at h; subst h
      exact .inl (noimpl _ he')
  | os | path =>
    unfold borshShapeRowOk at hr
    split at hr <;> simp_all

end Table

/-! ## Visitors -/

theorem findBody_mem {ms : List MethodRow} {m : Method} {b : Body} (h : findBody ms m = some b) :
    ∃ r ∈ ms, r.method = m ∧ r.body = b := by
  unfold findBody at h
  cases hf : ms.find? (·.method == m) with
  | none => simp [hf] at h
  | some r =>
    simp [hf] at h
    exact ⟨r, List.mem_of_find?_eq_some hf, by simpa using List.find?_some hf, h⟩

theorem resolve_mem {ms : List MethodRow} {m m' : Method} {b : Body}
    (h : resolve ms m = some (m', b)) :
    (∃ r ∈ ms, r.method = m' ∧ r.body = b) ∧ (m' = m ∨ m.fallback = some m') := by
  unfold resolve at h
  split at h
  · rename_i b0 hb
    simp at h
    obtain ⟨rfl, rfl⟩ := h
    exact ⟨findBody_mem hb, .inl rfl⟩
  · split at h
    · rename_i m2 hm2
      cases hb : findBody ms m2 with
      | none => simp [hb] at h
      | some b2 =>
        simp [hb] at h
        obtain ⟨rfl, rfl⟩ := h
        exact ⟨findBody_mem hb, .inr hm2⟩
    · cases h

theorem runBody_sound (valid : List UInt8 → Bool) (b : Body) (p c : List UInt8) (br : Bool)
    (h : runBody valid b p = .ok (c, br)) :
    c = p ∧ (b.validates = true → valid p = true) ∧ (br = true → b.hasBorrow = true) := by
  induction b with
  | copy | take => simp [runBody] at h; simp [h, Body.validates]
  | borrow => simp [runBody] at h; simp [h, Body.validates, Body.hasBorrow]
  | validateThen b ih =>
    simp only [runBody] at h
    split at h
    · rename_i hv
      have := ih h
      exact ⟨this.1, fun _ => hv, by simpa [Body.hasBorrow] using this.2.2⟩
    · cases h
  | seq _ => simp [runBody] at h
  | error => simp [runBody] at h

theorem runBody_plain (valid : List UInt8 → Bool) (b : Body) (p : List UInt8)
    (hp : b.plain = true) (hv : b.validates = true → valid p = true) :
    runBody valid b p = .ok (p, b.hasBorrow) := by
  induction b with
  | copy | take | borrow => rfl
  | validateThen b ih =>
    have hvp : valid p = true := hv rfl
    simp only [runBody, hvp, if_true, Body.hasBorrow]
    cases b with
    | validateThen b' =>
      exact ih (by simpa [Body.plain] using hp) (fun _ => hvp)
    | copy | take | borrow => rfl
    | seq _ | error => simp [Body.plain] at hp
  | seq _ | error => simp [Body.plain] at hp

section Visitor
variable {limit : Nat} {v : VisitorRow} (valid : List UInt8 → Bool)

/-- Components of `visitorOk`. -/
theorem visitorOk_methods (h : visitorOk limit v = true) :
    ∀ r ∈ v.methods, methodOk limit v r = true := by
  simp only [visitorOk, Bool.and_eq_true] at h
  exact List.all_eq_true.mp h.1.1.2

theorem visitorOk_kind (h : visitorOk limit v = true) : v.kind = .byt ∨ v.kind = .str := by
  simp only [visitorOk, Bool.and_eq_true] at h
  simpa using h.1.1.1.1

theorem visitorOk_answers (h : visitorOk limit v = true) :
    ∀ m ∈ (if v.kind == .str then strMethods else bytMethods), answers v m = true := by
  simp only [visitorOk, Bool.and_eq_true] at h
  exact List.all_eq_true.mp h.1.2

theorem visitorOk_borrows (h : visitorOk limit v = true) (hb : v.borrowsDe = true) :
    borrowsOn v .borrowedStr = true ∧ borrowsOn v .borrowedBytes = true := by
  simp only [visitorOk, Bool.and_eq_true] at h
  simpa [hb] using h.2

/-- What `methodOk` says about a resolved non-sequence method whose body ran successfully. -/
theorem methodOk_data {r : MethodRow} (h : methodOk limit v r = true) (hm : r.method ≠ .seq)
    (hne : r.body ≠ .error) :
    r.body.plain = true ∧
    (v.kind = .str → r.method.isStr = false → r.body.validates = true) ∧
    (v.kind = .byt → r.body.validates = false) ∧
    (r.body.hasBorrow = true → v.borrowsDe = true ∧ r.method.isBorrowed = true) := by
  unfold methodOk at h
  have hm' : (r.method == Method.seq) = false := by simpa using hm
  simp only [hm', Bool.false_eq_true, if_false, dataBodyOk, Bool.and_eq_true, Bool.or_eq_true,
    Bool.not_eq_true', beq_iff_eq, bne_iff_ne, ne_eq] at h
  obtain ⟨h1, h2⟩ := h
  have hb : r.body.hasBorrow = true → v.borrowsDe = true ∧ r.method.isBorrowed = true := by
    intro hb
    rcases h1 with h1 | h1
    · rw [hb] at h1; cases h1
    · exact h1
  rcases h2 with h2 | ⟨⟨hp, hs⟩, hbyt⟩
  · exact absurd h2 hne
  · refine ⟨hp, ?_, ?_, hb⟩
    · intro hk hstr
      rcases hs with (h | h) | h
      · exact absurd hk h
      · rw [hstr] at h; cases h
      · exact h
    · intro hk
      rcases hbyt with h | h
      · exact absurd hk h
      · exact h

theorem fallback_not_borrowed {m m' : Method} (h : m.fallback = some m') :
    m'.isBorrowed = false ∧ m' ≠ .seq ∧ m ≠ .seq ∧ m'.isStr = m.isStr := by
  cases m <;> simp [Method.fallback] at h <;> subst h <;> simp [Method.isBorrowed, Method.isStr]

/-- Soundness of a non-sequence visitor call. -/
theorem visitData_sound (hv : visitorOk limit v = true) (m : Method) (hm : m ≠ .seq)
    (p c : List UInt8) (br : Bool) (h : visitData valid v m p = .ok (c, br)) :
    c = p ∧ (v.kind = .str → m.isStr = false → valid p = true) ∧
      (br = true → m.isBorrowed = true ∧ v.borrowsDe = true) := by
  unfold visitData at h
  split at h
  · rename_i m' b hr
    obtain ⟨⟨r, hrm, hrm', hrb⟩, hfb⟩ := resolve_mem hr
    have hok := visitorOk_methods hv r hrm
    obtain ⟨hc, hval, hbr⟩ := runBody_sound valid b p c br h
    have hne : r.body ≠ .error := by rw [hrb]; intro hb; rw [hb] at h; simp [runBody] at h
    have hm' : r.method ≠ .seq ∧ r.method.isStr = m.isStr ∧
        (r.method.isBorrowed = true → r.method = m) := by
      rw [hrm']
      rcases hfb with rfl | hf
      · exact ⟨hm, rfl, fun _ => rfl⟩
      · have := fallback_not_borrowed hf
        exact ⟨this.2.1, this.2.2.2, fun h => by rw [this.1] at h; cases h⟩
    obtain ⟨_, hs, _, hb⟩ := methodOk_data hok hm'.1 hne
    refine ⟨hc, ?_, ?_⟩
    · intro hk hstr
      exact hval (by rw [← hrb]; exact hs hk (by rw [hm'.2.1]; exact hstr))
    · intro hbt
      have := hb (by rw [hrb]; exact hbr hbt)
      have heq := hm'.2.2 this.2
      rw [← heq]; exact ⟨this.2, this.1⟩
  · cases h

/-- `visit_sound` for any visitor row passing `visitorOk`. -/
theorem visit_sound_of_ok (hv : visitorOk limit v = true) (t : Token) (ht : t.wf valid = true)
    (c : List UInt8) (br : Bool) (h : visit valid v t = .ok (c, br)) :
    t.content = some c ∧ (v.kind = .str → valid c = true) ∧
      (br = true → t.isBorrowed = true ∧ v.borrowsDe = true) := by
  cases t with
  | other => simp [visit] at h
  | seq hint xs =>
    simp only [visit, seqOutcome, collectOutcome] at h
    split at h
    · rename_i m' cap hr
      obtain ⟨⟨r, hrm, hrm', hrb⟩, hfb⟩ := resolve_mem hr
      have hm : m' = .seq := by
        rcases hfb with h | h
        · exact h
        · simp [Method.fallback] at h
      have hok := visitorOk_methods hv r hrm
      unfold methodOk at hok
      rw [hrm', hm, hrb] at hok
      simp only [beq_self_eq_true, if_true, Bool.and_eq_true] at hok
      replace hok := hok.2
      split at h
      · rename_i bs hbs
        simp at h
        obtain ⟨rfl, rfl⟩ := h
        refine ⟨hbs, ?_, by simp⟩
        intro hk
        cases cap <;> simp [seqBodyOk, hk] at hok
      · cases h
    · cases h
    · cases h
  | str p =>
    have := visitData_sound valid hv .str (by simp) p c br h
    exact ⟨by simp [Token.content, this.1], fun _ => by rw [this.1]; exact ht,
      fun hb => by simpa [Method.isBorrowed] using (this.2.2 hb).1⟩
  | string p =>
    have := visitData_sound valid hv .string (by simp) p c br h
    exact ⟨by simp [Token.content, this.1], fun _ => by rw [this.1]; exact ht,
      fun hb => by simpa [Method.isBorrowed] using (this.2.2 hb).1⟩
  | char p =>
    have := visitData_sound valid hv .char (by simp) p c br h
    exact ⟨by simp [Token.content, this.1], fun _ => by rw [this.1]; exact ht,
      fun hb => by simpa [Method.isBorrowed] using (this.2.2 hb).1⟩
  | borrowedStr p =>
    have := visitData_sound valid hv .borrowedStr (by simp) p c br h
    exact ⟨by simp [Token.content, this.1], fun _ => by rw [this.1]; exact ht,
      fun hb => ⟨rfl, (this.2.2 hb).2⟩⟩
  | bytes p =>
    have := visitData_sound valid hv .bytes (by simp) p c br h
    exact ⟨by simp [Token.content, this.1], fun hk => by rw [this.1]; exact this.2.1 hk rfl,
      fun hb => by simpa [Method.isBorrowed] using (this.2.2 hb).1⟩
  | byteBuf p =>
    have := visitData_sound valid hv .byteBuf (by simp) p c br h
    exact ⟨by simp [Token.content, this.1], fun hk => by rw [this.1]; exact this.2.1 hk rfl,
      fun hb => by simpa [Method.isBorrowed] using (this.2.2 hb).1⟩
  | borrowedBytes p =>
    have := visitData_sound valid hv .borrowedBytes (by simp) p c br h
    exact ⟨by simp [Token.content, this.1], fun hk => by rw [this.1]; exact this.2.1 hk rfl,
      fun hb => ⟨rfl, (this.2.2 hb).2⟩⟩

end Visitor

/-! ## Acceptance, borrowing, owned/borrowed agreement -/

section Accept
variable {limit : Nat} {v : VisitorRow} (valid : List UInt8 → Bool)

/-- A non-sequence method the visitor answers runs a plain body on any payload that is valid
whenever the body validates. -/
theorem visitData_answers (hv : visitorOk limit v = true) (m : Method) (hm : m ≠ .seq)
    (ha : answers v m = true) (p : List UInt8)
    (hp : v.kind = .str → valid p = true) :
    ∃ br, visitData valid v m p = .ok (p, br) ∧ (br = borrowsOn v m) := by
  unfold answers at ha
  unfold visitData borrowsOn
  cases hr : resolve v.methods m with
  | none => simp [hr] at ha
  | some mb =>
    obtain ⟨m', b⟩ := mb
    obtain ⟨⟨r, hrm, hrm', hrb⟩, hfb⟩ := resolve_mem hr
    have hne : r.body ≠ .error := by
      rw [hrb]; intro hb; subst hb; simp [hr] at ha
    have hm' : r.method ≠ .seq := by
      rw [hrm']
      rcases hfb with rfl | hf
      · exact hm
      · exact (fallback_not_borrowed hf).2.1
    obtain ⟨hpl, _, hbyt, _⟩ := methodOk_data (visitorOk_methods hv r hrm) hm' hne
    rw [hrb] at hpl hbyt
    refine ⟨b.hasBorrow, ?_, rfl⟩
    simp only
    apply runBody_plain valid b p hpl
    intro hval
    rcases visitorOk_kind hv with hk | hk
    · rw [hbyt hk] at hval; cases hval
    · exact hp hk

theorem collect_map_some (c : List UInt8) : collect (c.map some) = some c := by
  induction c with
  | nil => rfl
  | cons x xs ih => simp [collect, ih]

/-- The sequence method of a `HipByt` visitor. -/
theorem visit_seq_ok (hv : visitorOk limit v = true) (hk : v.kind = .byt) (hint : Option Nat)
    (xs : List (Option UInt8)) :
    (∃ c, c ≤ limit ∧ seqCapOf v = some (some c)) ∧
    visit valid v (.seq hint xs) = collectOutcome xs := by
  have ha := visitorOk_answers hv .seq (by simp [hk, bytMethods])
  unfold answers at ha
  cases hr : resolve v.methods .seq with
  | none => simp [hr] at ha
  | some mb =>
    obtain ⟨m', b⟩ := mb
    obtain ⟨⟨r, hrm, hrm', hrb⟩, hfb⟩ := resolve_mem hr
    have hm : m' = .seq := by
      rcases hfb with h | h
      · exact h
      · simp [Method.fallback] at h
    have hok := visitorOk_methods hv r hrm
    unfold methodOk at hok
    rw [hrm', hm, hrb] at hok
    simp only [beq_self_eq_true, if_true, Bool.and_eq_true] at hok
    replace hok := hok.2
    cases b with
    | seq cap =>
      cases cap with
      | none => simp [seqBodyOk] at hok
      | some c =>
        simp [seqBodyOk] at hok
        refine ⟨⟨c, hok.2, by simp [seqCapOf, hr]⟩, ?_⟩
        simp only [visit, hr, seqOutcome]
    | error => simp [hr] at ha
    | copy | take | borrow | validateThen _ => simp [seqBodyOk] at hok

/-- Every token std's `String` visitor accepts is accepted, with the same content. -/
theorem accepts_string_of_ok (hv : visitorOk limit v = true) (hk : v.kind = .str) (t : Token)
    (ht : t.wf valid = true) (c : List UInt8) (h : Spec.Codec.stringDe valid t = some c) :
    ∃ br, visit valid v t = .ok (c, br) := by
  have ha := visitorOk_answers hv
  simp only [hk, beq_self_eq_true, if_true] at ha
  cases t with
  | other | seq _ _ => simp [Spec.Codec.stringDe] at h
  | str p =>
    simp [Spec.Codec.stringDe] at h; subst h
    obtain ⟨br, h, _⟩ := visitData_answers valid hv .str (by simp) (ha _ (by simp [strMethods])) p
      (fun _ => ht)
    exact ⟨br, h⟩
  | borrowedStr p =>
    simp [Spec.Codec.stringDe] at h; subst h
    obtain ⟨br, h, _⟩ := visitData_answers valid hv .borrowedStr (by simp)
      (ha _ (by simp [strMethods])) p (fun _ => ht)
    exact ⟨br, h⟩
  | string p =>
    simp [Spec.Codec.stringDe] at h; subst h
    obtain ⟨br, h, _⟩ := visitData_answers valid hv .string (by simp)
      (ha _ (by simp [strMethods])) p (fun _ => ht)
    exact ⟨br, h⟩
  | char p =>
    simp [Spec.Codec.stringDe] at h; subst h
    obtain ⟨br, h, _⟩ := visitData_answers valid hv .char (by simp)
      (ha _ (by simp [strMethods])) p (fun _ => ht)
    exact ⟨br, h⟩
  | bytes p =>
    simp [Spec.Codec.stringDe] at h
    obtain ⟨hvp, rfl⟩ := h
    obtain ⟨br, h, _⟩ := visitData_answers valid hv .bytes (by simp)
      (ha _ (by simp [strMethods])) p (fun _ => hvp)
    exact ⟨br, h⟩
  | borrowedBytes p =>
    simp [Spec.Codec.stringDe] at h
    obtain ⟨hvp, rfl⟩ := h
    obtain ⟨br, h, _⟩ := visitData_answers valid hv .borrowedBytes (by simp)
      (ha _ (by simp [strMethods])) p (fun _ => hvp)
    exact ⟨br, h⟩
  | byteBuf p =>
    simp [Spec.Codec.stringDe] at h
    obtain ⟨hvp, rfl⟩ := h
    obtain ⟨br, h, _⟩ := visitData_answers valid hv .byteBuf (by simp)
      (ha _ (by simp [strMethods])) p (fun _ => hvp)
    exact ⟨br, h⟩

/-- Every token std's `Vec<u8>` visitor accepts is accepted, with the same content. -/
theorem accepts_vec_of_ok (hv : visitorOk limit v = true) (hk : v.kind = .byt) (t : Token)
    (c : List UInt8) (h : Spec.Codec.vecU8De t = some c) : visit valid v t = .ok (c, false) := by
  cases t with
  | seq hint xs =>
    simp [Spec.Codec.vecU8De] at h
    rw [(visit_seq_ok valid hv hk hint xs).2]; simp [collectOutcome, h]
  | _ => simp [Spec.Codec.vecU8De] at h

/-- A `HipByt` visitor accepts every byte-string token. -/
theorem accepts_bytes_of_ok (hv : visitorOk limit v = true) (hk : v.kind = .byt) (m : Method)
    (hm : m = .bytes ∨ m = .borrowedBytes ∨ m = .byteBuf) (p : List UInt8) :
    ∃ br, visitData valid v m p = .ok (p, br) := by
  have ha := visitorOk_answers hv m (by
    rcases hm with rfl | rfl | rfl <;> simp [hk, bytMethods])
  obtain ⟨br, h, _⟩ := visitData_answers valid hv m (by rcases hm with rfl | rfl | rfl <;> simp)
    ha p (fun h => by rw [hk] at h; cases h)
  exact ⟨br, h⟩

/-- `borrow_when_offered` for any borrowed visitor row passing `visitorOk`. -/
theorem borrow_when_offered_of_ok (hv : visitorOk limit v = true) (hb : v.borrowsDe = true)
    (t : Token) (hbt : t.isBorrowed = true) (ht : t.wf valid = true) (p : List UInt8)
    (hc : t.content = some p) (hp : v.kind = .str → valid p = true) :
    visit valid v t = .ok (p, true) := by
  obtain ⟨hs, hby⟩ := visitorOk_borrows hv hb
  have answers_of : ∀ m, borrowsOn v m = true → answers v m = true := by
    intro m h
    unfold borrowsOn at h
    unfold answers
    split at h
    · rename_i m' b hr
      rw [hr]
      cases b <;> simp_all [Body.hasBorrow]
    · cases h
  cases t with
  | borrowedStr q =>
    simp [Token.content] at hc; subst hc
    obtain ⟨br, h, hbr⟩ := visitData_answers valid hv .borrowedStr (by simp) (answers_of _ hs) q hp
    rw [hbr, hs] at h
    exact h
  | borrowedBytes q =>
    simp [Token.content] at hc; subst hc
    obtain ⟨br, h, hbr⟩ :=
      visitData_answers valid hv .borrowedBytes (by simp) (answers_of _ hby) q hp
    rw [hbr, hby] at h
    exact h
  | _ => simp [Token.isBorrowed] at hbt

end Accept

/-! ### Owned and borrowed visitors agree on content -/

/-- The content-level outcome of a body is a function of its shape. -/
def shapeResult (valid : List UInt8 → Bool) (p : List UInt8) : Shape → Except Err (List UInt8)
  | .none => .error .invalidType
  | .fail => .error .custom
  | .plain false => .ok p
  | .plain true => if valid p then .ok p else .error .invalidValue
  | .seq => .error .invalidType
  | .odd b => (runBody valid b p).map Prod.fst

theorem runBody_shapeResult (valid : List UInt8 → Bool) (b : Body) (p : List UInt8) :
    (runBody valid b p).map Prod.fst = shapeResult valid p b.shape := by
  cases b with
  | copy | take | borrow | seq _ | error => rfl
  | validateThen b =>
    simp only [Body.shape]
    split
    · rename_i hp
      simp only [runBody, shapeResult]
      split
      · rename_i hv
        rw [runBody_plain valid b p hp (fun _ => hv)]; rfl
      · rfl
    · rfl

theorem runBody_shape (valid : List UInt8 → Bool) (b1 b2 : Body) (p : List UInt8)
    (h : b1.shape = b2.shape) :
    (runBody valid b1 p).map Prod.fst = (runBody valid b2 p).map Prod.fst := by
  rw [runBody_shapeResult, runBody_shapeResult, h]

theorem shape_ne_none (b : Body) : b.shape ≠ .none := by
  cases b <;> simp [Body.shape]
  split <;> simp

theorem methodShape_eq {vo vb : VisitorRow} (h : pairOk vo vb = true) (m : Method) :
    methodShape vo m = methodShape vb m := by
  simp only [pairOk, Bool.and_eq_true] at h
  have := List.all_eq_true.mp h.2 m (by cases m <;> simp [allMethods])
  simpa using this

theorem visitData_pair (valid : List UInt8 → Bool) {vo vb : VisitorRow}
    (h : pairOk vo vb = true) (m : Method) (p : List UInt8) :
    (visitData valid vo m p).map Prod.fst = (visitData valid vb m p).map Prod.fst := by
  have hs := methodShape_eq h m
  unfold methodShape at hs
  unfold visitData
  cases h1 : resolve vo.methods m with
  | none =>
    cases h2 : resolve vb.methods m with
    | none => rfl
    | some mb => simp only [h1, h2] at hs; exact absurd hs.symm (shape_ne_none _)
  | some mb1 =>
    cases h2 : resolve vb.methods m with
    | none => simp only [h1, h2] at hs; exact absurd hs (shape_ne_none _)
    | some mb2 =>
      simp only [h1, h2] at hs
      exact runBody_shape valid mb1.2 mb2.2 p hs

/-- The outcome of a `visit_seq` call as a function of the resolved body's shape. -/
def seqOutcomeShape (xs : List (Option UInt8)) : Shape → Except Err (List UInt8 × Bool)
  | .seq => collectOutcome xs
  | .fail => .error .custom
  | _ => .error .invalidType

theorem seqOutcome_shape (r : Option (Method × Body)) (xs : List (Option UInt8)) :
    seqOutcome r xs =
      seqOutcomeShape xs (match r with | some (_, b) => b.shape | none => Shape.none) := by
  cases r with
  | none => rfl
  | some mb =>
    obtain ⟨m, b⟩ := mb
    cases b with
    | copy | take | borrow | seq _ | error => rfl
    | validateThen b =>
      by_cases hp : b.plain = true <;> simp [seqOutcome, seqOutcomeShape, Body.shape, hp]

/-- `owned_eq_borrowed` for any pair of rows passing `pairOk`. -/
theorem owned_eq_borrowed_of_ok (valid : List UInt8 → Bool) {vo vb : VisitorRow}
    (h : pairOk vo vb = true) (t : Token) :
    (visit valid vo t).map Prod.fst = (visit valid vb t).map Prod.fst := by
  cases t with
  | other => rfl
  | seq hint xs =>
    have hs := methodShape_eq h .seq
    simp only [visit]
    rw [seqOutcome_shape, seqOutcome_shape]
    show (seqOutcomeShape xs (methodShape vo .seq)).map Prod.fst =
      (seqOutcomeShape xs (methodShape vb .seq)).map Prod.fst
    rw [hs]
  | str p => exact visitData_pair valid h _ p
  | borrowedStr p => exact visitData_pair valid h _ p
  | string p => exact visitData_pair valid h _ p
  | bytes p => exact visitData_pair valid h _ p
  | borrowedBytes p => exact visitData_pair valid h _ p
  | byteBuf p => exact visitData_pair valid h _ p
  | char p => exact visitData_pair valid h _ p

/-! ## Sequence path allocation -/

theorem foldl_push_inv {c0 : Nat} (bs : List UInt8) (v : VecSt) (h : VInv c0 v) :
    VInv c0 (bs.foldl VecSt.push v) ∧ (bs.foldl VecSt.push v).len = v.len + bs.length := by
  induction bs generalizing v with
  | nil => exact ⟨h, rfl⟩
  | cons b bs ih =>
    have := ih (v.push b) (VInv_push h b)
    simp only [List.foldl_cons, List.length_cons]
    rw [push_len] at this
    exact ⟨this.1, by omega⟩

/-- Every capacity request on the sequence path is the reservation or at most `2 n + 6`. -/
theorem seqRequests_bound (cap0 n : Nat) : maxOf (seqRequests cap0 n) ≤ max cap0 (2 * n + 6) := by
  unfold seqRequests
  have := foldl_push_inv (List.replicate n (0 : UInt8)) _ (VInv_withCapacity cap0)
  have h2 := this.1.2
  rw [this.2] at h2
  simpa [VecSt.withCapacity] using h2

/-! ## bstr conversions -/

theorem bstr_sound_of_ok (valid : List UInt8 → Bool) (r : BstrRow) (h : bstrRowOk r = true)
    (p c : List UInt8) (br : Bool) (hc : bstrConv valid r p = .ok (c, br)) :
    c = p ∧ (r.kind = .str → valid c = true) ∧
      (br = true → r.src = .bstrRef ∨ r.src = .cowBorrowed) := by
  obtain ⟨h1, h2, h3⟩ := runBody_sound valid r.body p c br hc
  simp only [bstrRowOk, Bool.and_eq_true, Bool.or_eq_true, Bool.not_eq_true', bne_iff_ne, ne_eq,
    beq_iff_eq] at h
  refine ⟨h1, ?_, ?_⟩
  · intro hk
    rcases h.1.2 with h | h
    · exact absurd hk h
    · rw [h1]; exact h2 h.1
  · intro hb
    rcases h.2 with (h | h) | h
    · rw [h3 hb] at h; cases h
    · exact .inl h
    · exact .inr h

/-! ## The reader only accepts encodings -/

theorem leBytes_fromLe (l : List UInt8) : leBytes l.length (fromLe l) = l := by
  induction l with
  | nil => rfl
  | cons b bs ih =>
    have hb := UInt8.toNat_lt b
    have h1 : (b.toNat + 256 * fromLe bs) % 256 = b.toNat := by omega
    have h2 : (b.toNat + 256 * fromLe bs) / 256 = fromLe bs := by omega
    simp only [List.length_cons, leBytes, fromLe, h1, h2, ih]
    simp

theorem readPrefix_inv {k : Nat} {input rest : List UInt8} {n : Nat}
    (h : readPrefix k input = some (n, rest)) : input = leBytes k n ++ rest := by
  unfold readPrefix at h
  split at h
  · cases h
  · rename_i hl
    simp at h
    obtain ⟨rfl, rfl⟩ := h
    have hlen : (input.take k).length = k := by simp; omega
    have := leBytes_fromLe (input.take k)
    rw [hlen] at this
    rw [this, List.take_append_drop]

/-- Whatever the reader accepts is the encoding of the value it returns, followed by the rest. -/
theorem deShape_inv {limit : Nat} {sh : BorshDe} (hs : shapeOk limit sh = true)
    (input c rest : List UInt8) (h : (deShape sh input).result = .ok (c, rest)) :
    input = ser c ++ rest := by
  unfold shapeOk at hs
  split at hs <;> try contradiction
  rename_i k z cap p ct
  simp at hs
  obtain ⟨⟨rfl, _⟩, _⟩ := hs
  simp only [deShape] at h
  split at h
  · cases h
  · rename_i len rest0 hp
    have hin := readPrefix_inv hp
    split at h
    · rename_i h0
      simp at h0 h
      obtain ⟨rfl, rfl⟩ := h
      rw [hin, h0.2]; simp [ser]
    · obtain ⟨hc, hr, hn⟩ := readLoop_ok _ _ _ _ _ h
      simp [VecSt.bytes, VecSt.withCapacity] at hc
      have hlen : c.length = len := by rw [hc]; simp; omega
      rw [hin, hr, ser, hlen, hc, List.append_assoc, List.take_append_drop]

section Table2
variable {limit : Nat} {rows : List BorshDeRow} (valid : List UInt8 → Bool)

theorem borshDe_str_ok (hok : rows.all (borshShapeRowOk limit) = true) {sh : BorshDe}
    (hb : borshShape rows .byt = some sh) (hs : (borshShape rows .str).isSome = true)
    (input s rest : List UInt8) (h : (borshDe valid rows .str input).result = .ok (s, rest)) :
    valid s = true ∧ (deShape sh input).result = .ok (s, rest) := by
  rw [borshDe_str valid hok hb hs] at h
  dsimp only at h
  split at h
  · rename_i b r hres
    split at h
    · rename_i hv
      simp at h
      obtain ⟨rfl, rfl⟩ := h
      exact ⟨hv, hres⟩
    · simp at h
  · simp at h

theorem borshDe_str_of_ok (hok : rows.all (borshShapeRowOk limit) = true) {sh : BorshDe}
    (hb : borshShape rows .byt = some sh) (hs : (borshShape rows .str).isSome = true)
    (input s rest : List UInt8) (hv : valid s = true)
    (h : (deShape sh input).result = .ok (s, rest)) :
    (borshDe valid rows .str input).result = .ok (s, rest) := by
  rw [borshDe_str valid hok hb hs]
  dsimp only
  rw [h]
  simp [hv]

end Table2

/-- The full row predicate implies the shape predicate the lemmas above are stated with. -/
theorem all_shape_of_all_ok {limit : Nat} {rows : List BorshDeRow}
    (h : rows.all (borshDeRowOk limit) = true) : rows.all (borshShapeRowOk limit) = true := by
  rw [List.all_eq_true] at h ⊢
  intro r hr
  have := h r hr
  simp only [borshDeRowOk, Bool.and_eq_true] at this
  exact this.1.1

end HipVerif.Codec
