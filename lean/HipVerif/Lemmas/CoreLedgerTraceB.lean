/-
Trace-level consequences of `Accepted`: what a history whose every event passed its ledger check
looks like (each buffer enters at most once, leaves at most once, never after it left, …).
State-independent.
-/
import HipVerif.Lemmas.CoreLedgerB

namespace HipVerif.Core

/-- the buffer an event brings INTO the system, with its capacity -/
def entersWith : Event → Option (Nat × Nat)
  | .allocBuf b c => some (b, c)
  | .importBuf b c => some (b, c)
  | .growBuf _ new c => some (new, c)
  | _ => none

def entersId (e : Event) : Option Nat := (entersWith e).map (·.1)

/-- the buffer an event takes OUT of the system -/
def leavesId : Event → Option Nat
  | .freeBuf b => some b
  | .exportBuf b => some b
  | .growBuf old _ _ => some old
  | _ => none

/-- a ledger is coherent: no identity is both in and gone, none is in twice -/
structure LedgerWf (L : Ledger) : Prop where
  nodup : L.liveIds.Nodup
  disj : ∀ b, b ∈ L.liveIds → b ∉ L.gone

theorem ledgerWf_empty : LedgerWf Ledger.empty := ⟨List.nodup_nil, fun _ h => by cases h⟩

namespace Ledger

theorem liveIds_enter (L : Ledger) (b c : Nat) : (L.enter b c).liveIds = b :: L.liveIds := rfl
theorem gone_enter (L : Ledger) (b c : Nat) : (L.enter b c).gone = L.gone := rfl
theorem gone_leave (L : Ledger) (b : Nat) : (L.leave b).gone = b :: L.gone := rfl

theorem mem_liveIds_leave {L : Ledger} {b b0 : Nat} : b ∈ (L.leave b0).liveIds ↔ b ∈ L.liveIds ∧ b ≠ b0 := by
  simp only [liveIds, leave, List.mem_map, List.mem_filter, bne_iff_ne, ne_eq]
  constructor
  · rintro ⟨p, ⟨hp, hne⟩, rfl⟩; exact ⟨⟨p, hp, rfl⟩, hne⟩
  · rintro ⟨⟨p, hp, rfl⟩, hne⟩; exact ⟨p, ⟨hp, hne⟩, rfl⟩

theorem gone_mono (L : Ledger) (e : Event) {b : Nat} (h : b ∈ L.gone) : b ∈ (L.apply e).gone := by
  cases e <;> simp [apply, enter, leave, h]

theorem ids_mono (L : Ledger) (e : Event) {b : Nat} (h : b ∈ L.ids) : b ∈ (L.apply e).ids := by
  have key : ∀ b0, b ∈ (L.leave b0).ids := by
    intro b0
    rcases List.mem_append.mp h with h | h
    · by_cases hb : b = b0
      · subst hb; exact List.mem_append.mpr (Or.inr (by simp [leave]))
      · exact List.mem_append.mpr (Or.inl (mem_liveIds_leave.mpr ⟨h, hb⟩))
    · exact List.mem_append.mpr (Or.inr (by simp [leave, h]))
  have key2 : ∀ (L' : Ledger) b0 c0, b ∈ L'.ids → b ∈ (L'.enter b0 c0).ids := by
    intro L' b0 c0 h'
    rcases List.mem_append.mp h' with h' | h'
    · exact List.mem_append.mpr (Or.inl (by rw [liveIds_enter]; exact List.mem_cons_of_mem _ h'))
    · exact List.mem_append.mpr (Or.inr h')
  cases e with
  | allocBuf b0 c0 => exact key2 L b0 c0 h
  | importBuf b0 c0 => exact key2 L b0 c0 h
  | growBuf old new c => exact key2 _ new c (key old)
  | freeBuf b0 => exact key b0
  | exportBuf b0 => exact key b0
  | allocInner _ => exact h
  | freeInner _ => exact h
  | write _ _ _ => exact h

theorem gone_mono_run (evs : List Event) : ∀ (L : Ledger) {b : Nat}, b ∈ L.gone → b ∈ (L.run evs).gone := by
  induction evs with
  | nil => intro L b h; exact h
  | cons e r ih => intro L b h; exact ih _ (gone_mono L e h)

theorem leaves_gone (L : Ledger) {e : Event} {b : Nat} (h : leavesId e = some b) : b ∈ (L.apply e).gone := by
  cases e <;> simp [leavesId] at h <;> subst h <;> simp [apply, enter, leave]

theorem enters_ids (L : Ledger) {e : Event} {b : Nat} (h : entersId e = some b) : b ∈ (L.apply e).ids := by
  cases e <;> simp [entersId, entersWith] at h <;> subst h <;> simp [apply, ids, liveIds, enter]

end Ledger

theorem ledgerWf_apply {L : Ledger} (hw : LedgerWf L) {e : Event} (he : EvGood L e) : LedgerWf (L.apply e) := by
  have hleave : ∀ b0, LedgerWf (L.leave b0) := by
    intro b0
    constructor
    · have : (L.leave b0).liveIds = L.liveIds.filter (fun b => b != b0) := by
        simp [Ledger.liveIds, Ledger.leave, List.filter_map, Function.comp_def]
      rw [this]; exact hw.nodup.filter _
    · intro b hb
      obtain ⟨h1, h2⟩ := Ledger.mem_liveIds_leave.mp hb
      simp only [Ledger.gone_leave, List.mem_cons, not_or]
      exact ⟨h2, hw.disj b h1⟩
  have henter : ∀ (L' : Ledger) b0 c0, LedgerWf L' → b0 ∉ L'.ids → LedgerWf (L'.enter b0 c0) := by
    intro L' b0 c0 hw' hn
    constructor
    · rw [Ledger.liveIds_enter]
      exact List.nodup_cons.mpr ⟨fun h => hn (List.mem_append.mpr (Or.inl h)), hw'.nodup⟩
    · intro b hb
      rw [Ledger.liveIds_enter] at hb
      rw [Ledger.gone_enter]
      rcases List.mem_cons.mp hb with rfl | hb
      · exact fun h => hn (List.mem_append.mpr (Or.inr h))
      · exact hw'.disj b hb
  cases e with
  | allocBuf b0 c0 => exact henter L b0 c0 hw he.2
  | importBuf b0 c0 => exact henter L b0 c0 hw he.2
  | growBuf old new c =>
    refine henter _ new c (hleave old) ?_
    intro hm
    obtain ⟨hold, hnew, _⟩ := he
    rcases List.mem_append.mp hm with hm | hm
    · exact hnew (List.mem_append.mpr (Or.inl (Ledger.mem_liveIds_leave.mp hm).1))
    · rw [Ledger.gone_leave] at hm
      rcases List.mem_cons.mp hm with rfl | hm
      · exact hnew (List.mem_append.mpr (Or.inl hold))
      · exact hnew (List.mem_append.mpr (Or.inr hm))
  | freeBuf b0 => exact hleave b0
  | exportBuf b0 => exact hleave b0
  | allocInner _ => exact hw
  | freeInner _ => exact hw
  | write _ _ _ => exact hw

theorem ledgerWf_run {evs : List Event} : ∀ {L : Ledger}, LedgerWf L → Accepted L evs → LedgerWf (L.run evs) := by
  induction evs with
  | nil => intro L hw _; exact hw
  | cons e r ih => intro L hw ha; exact ih (ledgerWf_apply hw ha.1) ha.2

theorem accepted_split {L : Ledger} {pre post : List Event} {e : Event}
    (h : Accepted L (pre ++ e :: post)) :
    Accepted L pre ∧ EvGood (L.run pre) e ∧ Accepted ((L.run pre).apply e) post := by
  obtain ⟨h1, h2⟩ := accepted_append.mp h
  exact ⟨h1, h2.1, h2.2⟩

/-- **every buffer identity enters at most once** (and never one the ledger has already seen) -/
theorem enters_at_most_once (evs : List Event) : ∀ {L : Ledger}, Accepted L evs → ∀ b,
    evs.countP (fun e => entersId e == some b) ≤ (if b ∈ L.ids then 0 else 1) := by
  induction evs with
  | nil => intro L _ b; simp
  | cons e r ih =>
    intro L ha b
    have hr := ih ha.2 b
    rw [List.countP_cons]
    by_cases he : entersId e = some b
    · have hin : b ∈ (L.apply e).ids := Ledger.enters_ids L he
      have hnot : b ∉ L.ids := by
        have hg := ha.1
        cases e <;> simp [entersId, entersWith] at he <;> subst he
        · exact hg.2
        · exact hg.2.1
        · exact hg.2
      simp only [hin, if_true] at hr
      simp only [he, beq_self_eq_true, if_true, hnot, if_false]
      omega
    · have : (entersId e == some b) = false := by simpa using he
      simp only [this, Bool.false_eq_true, if_false, Nat.add_zero]
      by_cases hb : b ∈ L.ids
      · have := Ledger.ids_mono L e hb
        simp only [this, if_true] at hr
        simp only [hb, if_true]
        omega
      · simp only [hb, if_false]
        split at hr <;> omega

/-- **every buffer identity leaves at most once** -/
theorem leaves_at_most_once (evs : List Event) : ∀ {L : Ledger}, LedgerWf L → Accepted L evs → ∀ b,
    evs.countP (fun e => leavesId e == some b) ≤ (if b ∈ L.gone then 0 else 1) := by
  induction evs with
  | nil => intro L _ _ b; simp
  | cons e r ih =>
    intro L hw ha b
    have hr := ih (ledgerWf_apply hw ha.1) ha.2 b
    rw [List.countP_cons]
    by_cases he : leavesId e = some b
    · have hin : b ∈ (L.apply e).gone := Ledger.leaves_gone L he
      have hnot : b ∉ L.gone := by
        have hg := ha.1
        cases e <;> simp [leavesId] at he <;> subst he
        · exact hw.disj _ hg
        · exact hw.disj _ hg.1
        · exact hw.disj _ hg
      simp only [hin, if_true] at hr
      simp only [he, beq_self_eq_true, if_true, hnot, if_false]
      omega
    · have : (leavesId e == some b) = false := by simpa using he
      simp only [this, Bool.false_eq_true, if_false, Nat.add_zero]
      by_cases hb : b ∈ L.gone
      · have := Ledger.gone_mono L e hb
        simp only [this, if_true] at hr
        simp only [hb, if_true]
        omega
      · simp only [hb, if_false]
        split at hr <;> omega

/-- a buffer that is in the ledger after `pre` was in before or entered during `pre` -/
theorem live_entered (pre : List Event) : ∀ (L : Ledger) (b c : Nat), (b, c) ∈ (L.run pre).live →
    (b, c) ∈ L.live ∨ ∃ e, e ∈ pre ∧ entersWith e = some (b, c) := by
  induction pre with
  | nil => intro L b c h; exact Or.inl h
  | cons e r ih =>
    intro L b c h
    rcases ih (L.apply e) b c h with h1 | ⟨e', he', hw⟩
    · have hle : ∀ (L' : Ledger) b0, (b, c) ∈ (L'.leave b0).live → (b, c) ∈ L'.live :=
        fun L' b0 hm => (Ledger.mem_leave_live.mp hm).1
      cases e with
      | allocBuf b0 c0 =>
        simp only [Ledger.apply, Ledger.enter, List.mem_cons, Prod.mk.injEq] at h1
        rcases h1 with ⟨rfl, rfl⟩ | h1
        · exact Or.inr ⟨_, List.mem_cons_self .., rfl⟩
        · exact Or.inl h1
      | importBuf b0 c0 =>
        simp only [Ledger.apply, Ledger.enter, List.mem_cons, Prod.mk.injEq] at h1
        rcases h1 with ⟨rfl, rfl⟩ | h1
        · exact Or.inr ⟨_, List.mem_cons_self .., rfl⟩
        · exact Or.inl h1
      | growBuf old new c0 =>
        simp only [Ledger.apply, Ledger.enter, List.mem_cons, Prod.mk.injEq] at h1
        rcases h1 with ⟨rfl, rfl⟩ | h1
        · exact Or.inr ⟨_, List.mem_cons_self .., rfl⟩
        · exact Or.inl (hle L old h1)
      | freeBuf b0 => exact Or.inl (hle L b0 h1)
      | exportBuf b0 => exact Or.inl (hle L b0 h1)
      | allocInner _ => exact Or.inl h1
      | freeInner _ => exact Or.inl h1
      | write _ _ _ => exact Or.inl h1
    · exact Or.inr ⟨e', List.mem_cons_of_mem _ he', hw⟩

/-- **no write after leaving**: once a buffer is gone no later accepted event writes it -/
theorem no_write_when_gone (evs : List Event) : ∀ {L : Ledger}, LedgerWf L → Accepted L evs → ∀ b,
    b ∈ L.gone → ∀ lo hi, Event.write b lo hi ∉ evs := by
  induction evs with
  | nil => intro L _ _ b _ lo hi h; cases h
  | cons e r ih =>
    intro L hw ha b hb lo hi hm
    rcases List.mem_cons.mp hm with rfl | hm
    · obtain ⟨_, c, hc, _⟩ := ha.1
      exact hw.disj b (Ledger.mem_liveIds.mpr ⟨c, hc⟩) hb
    · exact ih (ledgerWf_apply hw ha.1) ha.2 b (Ledger.gone_mono L e hb) lo hi hm

theorem ids_mono_run (evs : List Event) : ∀ (L : Ledger) {b : Nat}, b ∈ L.ids → b ∈ (L.run evs).ids := by
  induction evs with
  | nil => intro L b h; exact h
  | cons e r ih => intro L b h; exact ih _ (Ledger.ids_mono L e h)

/-- **a buffer leaves only after it entered** -/
theorem leaves_after_enter {evs pre post : List Event} {e : Event} {b : Nat}
    (hacc : Accepted Ledger.empty evs) (hsplit : evs = pre ++ e :: post) (hleave : leavesId e = some b) :
    ∃ e', e' ∈ pre ∧ entersId e' = some b := by
  rw [hsplit] at hacc
  obtain ⟨_, hgood, _⟩ := accepted_split hacc
  have hin : b ∈ (Ledger.empty.run pre).liveIds := by
    cases e <;> simp [leavesId] at hleave <;> subst hleave
    · exact hgood
    · exact hgood.1
    · exact hgood
  obtain ⟨c, hc⟩ := Ledger.mem_liveIds.mp hin
  rcases live_entered pre Ledger.empty b c hc with h | ⟨e', he', hw⟩
  · cases h
  · exact ⟨e', he', by simp [entersId, hw]⟩

/-- **balance of an accepted history**: for every buffer identity,
`#leaves ≤ #enters ≤ 1` -/
theorem enter_leave_counts {evs : List Event} (hacc : Accepted Ledger.empty evs) (b : Nat) :
    evs.countP (fun e => leavesId e == some b) ≤ evs.countP (fun e => entersId e == some b) ∧
    evs.countP (fun e => entersId e == some b) ≤ 1 := by
  have h1 := enters_at_most_once evs hacc b
  have h2 := leaves_at_most_once evs ledgerWf_empty hacc b
  have h1' : evs.countP (fun e => entersId e == some b) ≤ 1 := by split at h1 <;> omega
  have h2' : evs.countP (fun e => leavesId e == some b) ≤ 1 := by split at h2 <;> omega
  refine ⟨?_, h1'⟩
  by_cases hz : evs.countP (fun e => leavesId e == some b) = 0
  · omega
  · obtain ⟨e, he, hp⟩ := List.countP_pos_iff.mp (Nat.pos_of_ne_zero hz)
    obtain ⟨pre, post, hsplit⟩ := List.append_of_mem he
    obtain ⟨e', he', hent⟩ := leaves_after_enter hacc hsplit (by simpa using hp)
    have : 0 < evs.countP (fun e => entersId e == some b) :=
      List.countP_pos_iff.mpr ⟨e', by rw [hsplit]; exact List.mem_append.mpr (Or.inl he'), by simp [hent]⟩
    omega

/-- a buffer that is in the ledger at the end entered exactly once and never left -/
theorem live_entered_once_never_left {evs : List Event} (hacc : Accepted Ledger.empty evs) {b c : Nat}
    (hin : (b, c) ∈ (Ledger.empty.run evs).live) :
    evs.countP (fun e => entersId e == some b) = 1 ∧ evs.countP (fun e => leavesId e == some b) = 0 ∧
    ∃ e, e ∈ evs ∧ entersWith e = some (b, c) := by
  have hent : ∃ e, e ∈ evs ∧ entersWith e = some (b, c) := by
    rcases live_entered evs Ledger.empty b c hin with h | h
    · cases h
    · exact h
  obtain ⟨e0, he0, hw0⟩ := hent
  have hpos : 0 < evs.countP (fun e => entersId e == some b) :=
    List.countP_pos_iff.mpr ⟨e0, he0, by simp [entersId, hw0]⟩
  have hle := (enter_leave_counts hacc b).2
  refine ⟨by omega, ?_, e0, he0, hw0⟩
  apply Classical.byContradiction
  intro hz
  obtain ⟨e, he, hp⟩ := List.countP_pos_iff.mp (Nat.pos_of_ne_zero hz)
  obtain ⟨pre, post, hsplit⟩ := List.append_of_mem he
  have hacc' := hacc
  rw [hsplit] at hacc'
  obtain ⟨hpre, hgood, hpost⟩ := accepted_split hacc'
  have hgone : b ∈ ((Ledger.empty.run pre).apply e).gone := Ledger.leaves_gone _ (by simpa using hp)
  have hgone' : b ∈ (Ledger.empty.run evs).gone := by
    rw [hsplit, Ledger.run_append]
    exact Ledger.gone_mono_run post _ hgone
  exact (ledgerWf_run ledgerWf_empty hacc).disj b (Ledger.mem_liveIds.mpr ⟨c, hin⟩) hgone'

end HipVerif.Core
