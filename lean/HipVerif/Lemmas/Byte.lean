/-
  Byte-level facts: the `UInt8` quantifier bridge and the UTF-8 byte classes of
  `HipVerif/Model/Utf8.lean` (all proved by `decide +kernel` over the 256 bytes or by
  unfolding to `Nat` comparisons).

  Normal form: Bool-valued predicates are stated as `… = true` / `… = false`.
-/
import HipVerif.Model.Utf8

/-- Bridge: a property of all bytes follows from the property of the 256 numerals, which is
`Decidable` (`Nat.decidableBallLT`) and can be discharged by `decide +kernel`. -/
theorem UInt8.forall_of_forall_lt (P : UInt8 → Prop)
    (h : ∀ n, n < 256 → P (UInt8.ofNat n)) : ∀ b, P b := by
  intro b
  simpa using h b.toNat (UInt8.toNat_lt b)

namespace HipVerif.Utf8

/-! ### `isCont` -/

theorem isCont_iff_toNat (b : UInt8) : isCont b = true ↔ 0x80 ≤ b.toNat ∧ b.toNat ≤ 0xBF := by
  revert b; apply UInt8.forall_of_forall_lt; decide +kernel

theorem isCont_iff_le (b : UInt8) : isCont b = true ↔ 0x80 ≤ b ∧ b ≤ 0xBF := by
  revert b; apply UInt8.forall_of_forall_lt; decide +kernel

theorem isCont_false_iff_toNat (b : UInt8) :
    isCont b = false ↔ b.toNat < 0x80 ∨ 0xBF < b.toNat := by
  revert b; apply UInt8.forall_of_forall_lt; decide +kernel

theorem isCont_ofNat {n : Nat} (h1 : 0x80 ≤ n) (h2 : n ≤ 0xBF) : isCont (UInt8.ofNat n) = true := by
  rw [isCont_iff_toNat]
  have : (UInt8.ofNat n).toNat = n := by simp [UInt8.toNat_ofNat']; omega
  omega

/-- ASCII bytes are not continuation bytes. -/
theorem isCont_of_lt_0x80 {b : UInt8} (h : b.toNat < 0x80) : isCont b = false := by
  rw [isCont_false_iff_toNat]; exact Or.inl h

/-! ### `leadLen` -/

theorem leadLen_le_four (b : UInt8) : leadLen b ≤ 4 := by
  revert b; apply UInt8.forall_of_forall_lt; decide +kernel

/-- A lead byte is not a continuation byte. -/
theorem isCont_false_of_leadLen_ne_zero (b : UInt8) : leadLen b ≠ 0 → isCont b = false := by
  revert b; apply UInt8.forall_of_forall_lt; decide +kernel

theorem leadLen_eq_one_iff (b : UInt8) : leadLen b = 1 ↔ b.toNat < 0x80 := by
  revert b; apply UInt8.forall_of_forall_lt; decide +kernel

theorem leadLen_eq_two_iff (b : UInt8) : leadLen b = 2 ↔ 0xC2 ≤ b.toNat ∧ b.toNat ≤ 0xDF := by
  revert b; apply UInt8.forall_of_forall_lt; decide +kernel

theorem leadLen_eq_three_iff (b : UInt8) : leadLen b = 3 ↔ 0xE0 ≤ b.toNat ∧ b.toNat ≤ 0xEF := by
  revert b; apply UInt8.forall_of_forall_lt; decide +kernel

theorem leadLen_eq_four_iff (b : UInt8) : leadLen b = 4 ↔ 0xF0 ≤ b.toNat ∧ b.toNat ≤ 0xF4 := by
  revert b; apply UInt8.forall_of_forall_lt; decide +kernel

theorem leadLen_eq_zero_iff (b : UInt8) :
    leadLen b = 0 ↔ (0x80 ≤ b.toNat ∧ b.toNat < 0xC2) ∨ 0xF4 < b.toNat := by
  revert b; apply UInt8.forall_of_forall_lt; decide +kernel

/-- A byte `≥ 0x80` is never a one-byte sequence; used for ASCII-only edits. -/
theorem leadLen_ne_one_of_ge {b : UInt8} (h : 0x80 ≤ b.toNat) : leadLen b ≠ 1 := by
  rw [Ne, leadLen_eq_one_iff]; omega

/-! ### `secondOk` -/

theorem secondLo_toNat (b0 : UInt8) :
    (secondLo b0).toNat = if b0.toNat = 0xE0 then 0xA0 else if b0.toNat = 0xF0 then 0x90 else 0x80 := by
  revert b0; apply UInt8.forall_of_forall_lt; decide +kernel

theorem secondHi_toNat (b0 : UInt8) :
    (secondHi b0).toNat = if b0.toNat = 0xED then 0x9F else if b0.toNat = 0xF4 then 0x8F else 0xBF := by
  revert b0; apply UInt8.forall_of_forall_lt; decide +kernel

theorem secondLo_toNat_ge (b0 : UInt8) : 0x80 ≤ (secondLo b0).toNat := by
  revert b0; apply UInt8.forall_of_forall_lt; decide +kernel

theorem secondHi_toNat_le (b0 : UInt8) : (secondHi b0).toNat ≤ 0xBF := by
  revert b0; apply UInt8.forall_of_forall_lt; decide +kernel

/-- The special second-byte ranges only concern the (non-ASCII) leads `E0`, `ED`, `F0`, `F4`. -/
theorem secondLo_of_ascii (b0 : UInt8) : b0.toNat < 0x80 → secondLo b0 = 0x80 := by
  revert b0; apply UInt8.forall_of_forall_lt; decide +kernel

theorem secondHi_of_ascii (b0 : UInt8) : b0.toNat < 0x80 → secondHi b0 = 0xBF := by
  revert b0; apply UInt8.forall_of_forall_lt; decide +kernel

theorem secondOk_iff_lo_hi (b0 b1 : UInt8) :
    secondOk b0 b1 = true ↔ (secondLo b0).toNat ≤ b1.toNat ∧ b1.toNat ≤ (secondHi b0).toNat := by
  simp only [secondOk, Bool.and_eq_true, decide_eq_true_eq, UInt8.le_iff_toNat_le]

/-- `secondOk` in terms of `Nat` ranges (Table 3-7, second column). -/
theorem secondOk_iff_toNat (b0 b1 : UInt8) :
    secondOk b0 b1 = true ↔
      (if b0.toNat = 0xE0 then 0xA0 else if b0.toNat = 0xF0 then 0x90 else 0x80) ≤ b1.toNat ∧
      b1.toNat ≤ (if b0.toNat = 0xED then 0x9F else if b0.toNat = 0xF4 then 0x8F else 0xBF) := by
  simp only [secondOk, Bool.and_eq_true, decide_eq_true_eq, UInt8.le_iff_toNat_le,
    secondLo_toNat, secondHi_toNat]

/-- An admissible second byte is a continuation byte. -/
theorem isCont_of_secondOk {b0 b1 : UInt8} (h : secondOk b0 b1 = true) : isCont b1 = true := by
  rw [secondOk_iff_toNat] at h
  rw [isCont_iff_toNat]
  split at h <;> split at h <;> (try split at h) <;> (try split at h) <;> omega

/-- Outside the four special leads every continuation byte is admissible. -/
theorem secondOk_of_isCont {b0 b1 : UInt8} (h0 : b0.toNat ≠ 0xE0) (h1 : b0.toNat ≠ 0xED)
    (h2 : b0.toNat ≠ 0xF0) (h3 : b0.toNat ≠ 0xF4) (h : isCont b1 = true) :
    secondOk b0 b1 = true := by
  rw [secondOk_iff_toNat]
  rw [isCont_iff_toNat] at h
  simp only [h0, h1, h2, h3, if_false]
  exact h

/-! ### ASCII case maps -/

/-- `asciiLower` only moves bytes inside the ASCII range. -/
theorem asciiLower_spec (b : UInt8) :
    (0x80 ≤ b.toNat → asciiLower b = b) ∧ (b.toNat < 0x80 → (asciiLower b).toNat < 0x80) := by
  revert b; apply UInt8.forall_of_forall_lt; decide +kernel

/-- `asciiUpper` only moves bytes inside the ASCII range. -/
theorem asciiUpper_spec (b : UInt8) :
    (0x80 ≤ b.toNat → asciiUpper b = b) ∧ (b.toNat < 0x80 → (asciiUpper b).toNat < 0x80) := by
  revert b; apply UInt8.forall_of_forall_lt; decide +kernel

theorem asciiLower_toNat (b : UInt8) :
    (asciiLower b).toNat = if 0x41 ≤ b.toNat ∧ b.toNat ≤ 0x5A then b.toNat + 0x20 else b.toNat := by
  revert b; apply UInt8.forall_of_forall_lt; decide +kernel

theorem asciiUpper_toNat (b : UInt8) :
    (asciiUpper b).toNat = if 0x61 ≤ b.toNat ∧ b.toNat ≤ 0x7A then b.toNat - 0x20 else b.toNat := by
  revert b; apply UInt8.forall_of_forall_lt; decide +kernel

theorem asciiLower_idem (b : UInt8) : asciiLower (asciiLower b) = asciiLower b := by
  revert b; apply UInt8.forall_of_forall_lt; decide +kernel

theorem asciiUpper_idem (b : UInt8) : asciiUpper (asciiUpper b) = asciiUpper b := by
  revert b; apply UInt8.forall_of_forall_lt; decide +kernel

theorem isCont_asciiLower (b : UInt8) : isCont (asciiLower b) = isCont b := by
  revert b; apply UInt8.forall_of_forall_lt; decide +kernel

theorem isCont_asciiUpper (b : UInt8) : isCont (asciiUpper b) = isCont b := by
  revert b; apply UInt8.forall_of_forall_lt; decide +kernel

theorem leadLen_asciiLower (b : UInt8) : leadLen (asciiLower b) = leadLen b := by
  revert b; apply UInt8.forall_of_forall_lt; decide +kernel

theorem leadLen_asciiUpper (b : UInt8) : leadLen (asciiUpper b) = leadLen b := by
  revert b; apply UInt8.forall_of_forall_lt; decide +kernel

end HipVerif.Utf8
