/-
A frame calculus for the Core state machine: what a step may do to the list of boxes
(`inners`) and which `freeInner` events it emits.  Used by `CoreExtraB.lean` (C02/C03 facts).
-/
import HipVerif.Lemmas.CoreStep

namespace HipVerif.Core
open HipVerif.Spec.Std

/-! ### the boxes freed according to an event list -/

/-- the boxes an event list reports as freed, in order -/
def freesOf : List Event → List Nat
  | [] => []
  | .freeInner i :: r => i :: freesOf r
  | .allocInner _ :: r => freesOf r
  | .allocBuf _ _ :: r => freesOf r
  | .freeBuf _ :: r => freesOf r
  | .growBuf _ _ _ :: r => freesOf r
  | .importBuf _ _ :: r => freesOf r
  | .exportBuf _ :: r => freesOf r
  | .write _ _ _ :: r => freesOf r

@[simp] theorem freesOf_nil : freesOf [] = [] := rfl

@[simp] theorem freesOf_append (a b : List Event) : freesOf (a ++ b) = freesOf a ++ freesOf b := by
  induction a with
  | nil => rfl
  | cons e r ih => cases e <;> simp [freesOf, ih]

theorem mem_freesOf {i : Nat} {ev : List Event} : Event.freeInner i ∈ ev ↔ i ∈ freesOf ev := by
  induction ev with
  | nil => simp
  | cons e r ih => cases e <;> simp [freesOf, ih]

theorem count_freesOf (i : Nat) (ev : List Event) : ev.count (.freeInner i) = (freesOf ev).count i := by
  induction ev with
  | nil => rfl
  | cons e r ih =>
    cases e <;> simp [freesOf, List.count_cons, ih]

@[simp] theorem freesOf_ite (c : Prop) [Decidable c] (a b : List Event) :
    freesOf (if c then a else b) = if c then freesOf a else freesOf b := by
  split <;> rfl

/-! ### frames -/

/-- `Frame s s' fs ws`: every box of `s` still exists in `s'`; a box that was already freed is
untouched; liveness changes only for the boxes in `fs`; the owner `Vec` (bytes, capacity, buffer)
changes only for the boxes in `ws`. -/
def Frame (s s' : State) (fs ws : List Nat) : Prop :=
  ∀ i x, getI s i = some x → ∃ y, getI s' i = some y ∧ (x.live = false → y = x) ∧
    (i ∉ fs → y.live = x.live) ∧ (i ∉ ws → y.data = x.data ∧ y.cap = x.cap ∧ y.buf = x.buf)

theorem frame_of_getI {s s' : State} (h : ∀ i, getI s' i = getI s i) : Frame s s' [] [] := by
  intro i x hx
  exact ⟨x, by rw [h]; exact hx, fun _ => rfl, fun _ => rfl, fun _ => ⟨rfl, rfl, rfl⟩⟩

theorem frame_refl (s : State) : Frame s s [] [] := frame_of_getI (fun _ => rfl)

theorem Frame.trans {s s1 s2 : State} {fs1 ws1 fs2 ws2 : List Nat} (f1 : Frame s s1 fs1 ws1)
    (f2 : Frame s1 s2 fs2 ws2) : Frame s s2 (fs1 ++ fs2) (ws1 ++ ws2) := by
  intro i x hx
  obtain ⟨y, hy, hd1, hl1, hw1⟩ := f1 i x hx
  obtain ⟨z, hz, hd2, hl2, hw2⟩ := f2 i y hy
  refine ⟨z, hz, ?_, ?_, ?_⟩
  · intro hdead
    have := hd1 hdead; subst this
    exact hd2 hdead
  · intro hni
    simp only [List.mem_append, not_or] at hni
    rw [hl2 hni.2, hl1 hni.1]
  · intro hni
    simp only [List.mem_append, not_or] at hni
    obtain ⟨a1, a2, a3⟩ := hw1 hni.1
    obtain ⟨b1, b2, b3⟩ := hw2 hni.2
    exact ⟨b1.trans a1, b2.trans a2, b3.trans a3⟩

theorem Frame.mono {s s' : State} {fs ws fs' ws' : List Nat} (f : Frame s s' fs ws)
    (hf : ∀ i, i ∈ fs → i ∈ fs') (hw : ∀ i, i ∈ ws → i ∈ ws') : Frame s s' fs' ws' := by
  intro i x hx
  obtain ⟨y, hy, hd, hl, hwd⟩ := f i x hx
  exact ⟨y, hy, hd, fun hn => hl (fun hm => hn (hf i hm)), fun hn => hwd (fun hm => hn (hw i hm))⟩

/-- boxes that do not exist in `s` are irrelevant to a frame -/
theorem Frame.restrict {s s' : State} {fs ws : List Nat} (f : Frame s s' fs ws) :
    Frame s s' fs (ws.filter (fun o => decide (o < s.inners.length))) := by
  intro i x hx
  obtain ⟨y, hy, hd, hl, hwd⟩ := f i x hx
  refine ⟨y, hy, hd, hl, fun hn => hwd (fun hm => hn ?_)⟩
  simp only [List.mem_filter, decide_eq_true_eq]
  exact ⟨hm, getI_some_lt hx⟩

theorem frame_append (s : State) (x : Inner) : Frame s { s with inners := s.inners ++ [x] } [] [] := by
  intro i y hy
  exact ⟨y, by rw [getI_append_lt _ _ _ (getI_some_lt hy)]; exact hy, fun _ => rfl, fun _ => rfl,
    fun _ => ⟨rfl, rfl, rfl⟩⟩

theorem frame_boxVec (s : State) (data : List UInt8) (cap buf : Nat) :
    Frame s (boxVec s data cap buf).1 [] [] := frame_append s _

theorem frame_newHeap (s : State) (data : List UInt8) (cap : Nat) :
    Frame s (newHeap s data cap).1 [] [] := by
  intro i y hy
  have := frame_append { s with nextBuf := s.nextBuf + 1 } { count := 0, data := data, cap := cap, buf := s.nextBuf, live := true } i y hy
  exact this

theorem frame_setI {s : State} {o : Nat} {x x' : Inner} (hx : getI s o = some x) (hl : x.live = true)
    (hl' : x'.live = true) : Frame s (setI s o x') [] [o] := by
  intro i y hy
  by_cases hio : o = i
  · subst hio
    rw [hx] at hy; cases hy
    refine ⟨x', getI_setI_same _ _ _ (getI_some_lt hx), ?_, fun _ => by rw [hl, hl'], fun hn => absurd (List.mem_singleton.mpr rfl) hn⟩
    intro hd; rw [hl] at hd; cases hd
  · exact ⟨y, by rw [getI_setI_other _ _ _ _ hio]; exact hy, fun _ => rfl, fun _ => rfl, fun _ => ⟨rfl, rfl, rfl⟩⟩

theorem frame_setI_count {s : State} {o : Nat} {x : Inner} (hx : getI s o = some x) (hl : x.live = true)
    (c : Nat) : Frame s (setI s o { x with count := c }) [] [] := by
  intro i y hy
  by_cases hio : o = i
  · subst hio
    rw [hx] at hy; cases hy
    refine ⟨_, getI_setI_same _ _ _ (getI_some_lt hx), ?_, fun _ => rfl, fun _ => ⟨rfl, rfl, rfl⟩⟩
    intro hd; rw [hl] at hd; cases hd
  · exact ⟨y, by rw [getI_setI_other _ _ _ _ hio]; exact hy, fun _ => rfl, fun _ => rfl, fun _ => ⟨rfl, rfl, rfl⟩⟩

theorem frame_kill {s : State} {o : Nat} {x : Inner} (hx : getI s o = some x) (hl : x.live = true) :
    Frame s (setI s o { x with live := false }) [o] [] := by
  intro i y hy
  by_cases hio : o = i
  · subst hio
    rw [hx] at hy; cases hy
    refine ⟨_, getI_setI_same _ _ _ (getI_some_lt hx), ?_, fun hn => absurd (List.mem_singleton.mpr rfl) hn,
      fun _ => ⟨rfl, rfl, rfl⟩⟩
    intro hd; rw [hl] at hd; cases hd
  · exact ⟨y, by rw [getI_setI_other _ _ _ _ hio]; exact hy, fun _ => rfl, fun _ => rfl, fun _ => ⟨rfl, rfl, rfl⟩⟩

theorem frame_incr {cfg : Cfg} {s s1 : State} {o : Nat} {b : Bool} (hi : incr cfg s o = (s1, b))
    (hlive : ∀ x, getI s o = some x → x.live = true) : Frame s s1 [] [] := by
  cases b with
  | false => rw [incr_false hi]; exact frame_refl s
  | true =>
    obtain ⟨_, x, hx, _, rfl⟩ := incr_true hi
    exact frame_setI_count hx (hlive x hx) _

/-- what `release` reports as freed: the owner, iff this was the last share -/
theorem freesOf_release (cfg : Cfg) (s : State) (o : Nat) :
    freesOf (release cfg s o).2 =
      match getI s o with
      | some x => if cfg.backend == .unique || x.count == 0 then [o] else []
      | none => [] := by
  unfold release
  cases getI s o with
  | none => rfl
  | some x =>
    simp only
    split
    · split <;> rfl
    · rfl

theorem frame_release {cfg : Cfg} {s : State} {o : Nat} (hlive : ∀ x, getI s o = some x → x.live = true) :
    Frame s (release cfg s o).1 (freesOf (release cfg s o).2) [] := by
  rw [freesOf_release]
  unfold release
  cases hx : getI s o with
  | none => exact frame_refl s
  | some x =>
    simp only
    split
    · exact frame_kill hx (hlive x hx)
    · exact frame_setI_count hx (hlive x hx) _

/-! ### effects: a frame plus the justification of every `freeInner` -/

/-- `Eff cfg s s' fs ws`: the transition `s → s'` frees exactly the boxes `fs` (at most one), each
of them live before with its last share being released, and dead afterwards. -/
structure Eff (cfg : Cfg) (s s' : State) (fs ws : List Nat) : Prop where
  frame : Frame s s' fs ws
  once : fs.length ≤ 1
  freed : ∀ o, o ∈ fs → ∃ x y, getI s o = some x ∧ x.live = true ∧
    (cfg.backend = .unique ∨ x.count = 0) ∧ getI s' o = some y ∧ y.live = false

theorem eff_of_frame {cfg : Cfg} {s s' : State} {ws : List Nat} (f : Frame s s' [] ws) : Eff cfg s s' [] ws :=
  ⟨f, Nat.zero_le _, fun _ h => by cases h⟩

theorem Eff.then_frame {cfg : Cfg} {s s1 s2 : State} {fs ws ws2 : List Nat} (e : Eff cfg s s1 fs ws)
    (f : Frame s1 s2 [] ws2) : Eff cfg s s2 fs (ws ++ ws2) := by
  refine ⟨by simpa using e.frame.trans f, e.once, ?_⟩
  intro o ho
  obtain ⟨x, y, hx, hl, hc, hy, hyd⟩ := e.freed o ho
  obtain ⟨z, hz, hzd, _, _⟩ := f o y hy
  have := hzd hyd; subst this
  exact ⟨x, z, hx, hl, hc, hz, hyd⟩

theorem Eff.after_frame {cfg : Cfg} {s s1 s2 : State} {fs ws ws1 : List Nat} (f : Frame s s1 [] ws1)
    (e : Eff cfg s1 s2 fs ws) (hsame : ∀ o, o ∈ fs → getI s1 o = getI s o) : Eff cfg s s2 fs (ws1 ++ ws) := by
  refine ⟨by simpa using f.trans e.frame, e.once, ?_⟩
  intro o ho
  obtain ⟨x, y, hx, hl, hc, hy, hyd⟩ := e.freed o ho
  rw [hsame o ho] at hx
  exact ⟨x, y, hx, hl, hc, hy, hyd⟩

theorem Eff.cast {cfg : Cfg} {s s' : State} {fs fs' ws ws' : List Nat} (e : Eff cfg s s' fs ws)
    (hf : fs = fs') (hw : ∀ i, i ∈ ws → i ∈ ws') : Eff cfg s s' fs' ws' := by
  subst hf
  exact ⟨e.frame.mono (fun _ h => h) hw, e.once, e.freed⟩

theorem eff_release {cfg : Cfg} {s : State} {o : Nat} {x : Inner} (hx : getI s o = some x)
    (hl : x.live = true) : Eff cfg s (release cfg s o).1 (freesOf (release cfg s o).2) [] := by
  refine ⟨frame_release (fun y hy => by rw [hx] at hy; cases hy; exact hl), ?_, ?_⟩
  · rw [freesOf_release, hx]; simp only; split <;> simp
  · intro o' ho'
    rw [freesOf_release, hx] at ho'
    simp only at ho'
    split at ho'
    · rename_i hlast
      simp only [List.mem_singleton] at ho'; subst ho'
      refine ⟨x, { x with live := false }, hx, hl, ?_, ?_, rfl⟩
      · rcases Bool.or_eq_true .. |>.mp hlast with hu | hz
        · left; simpa using hu
        · right; simpa using hz
      · unfold release; rw [hx]; simp only [hlast, if_true]
        exact getI_setI_same _ _ _ (getI_some_lt hx)
    · cases ho'

theorem eff_kill {cfg : Cfg} {s : State} {o : Nat} {x : Inner} (hx : getI s o = some x)
    (hl : x.live = true) (hc : cfg.backend = .unique ∨ x.count = 0) :
    Eff cfg s (setI s o { x with live := false }) [o] [] :=
  ⟨frame_kill hx hl, Nat.le_refl _, fun o' ho' => by
    simp only [List.mem_singleton] at ho'; subst ho'
    exact ⟨x, _, hx, hl, hc, getI_setI_same _ _ _ (getI_some_lt hx), rfl⟩⟩

/-! ### the helper functions of `step` -/

@[simp] theorem freesOf_newHeap (s : State) (data : List UInt8) (cap : Nat) :
    freesOf (newHeap s data cap).2.2 = [] := by
  simp only [newHeap, boxVec, freesOf_append, freesOf_ite]
  split <;> split <;> rfl

@[simp] theorem freesOf_boxVec (s : State) (data : List UInt8) (cap buf : Nat) :
    freesOf (boxVec s data cap buf).2.2 = [] := rfl

theorem getI_newHeap_old {s : State} {o : Nat} (data : List UInt8) (cap : Nat) (hlt : o < s.inners.length) :
    getI (newHeap s data cap).1 o = getI s o :=
  getI_append_lt { s with nextBuf := s.nextBuf + 1 } _ o hlt

theorem eff_dropRepr {cfg : Cfg} {s : State} {r : Rep}
    (hlive : ∀ o pb off len, r = .heap o pb off len → ∃ x, getI s o = some x ∧ x.live = true) :
    Eff cfg s (dropRepr cfg s r).1 (freesOf (dropRepr cfg s r).2) [] := by
  cases r with
  | inline bs => exact eff_of_frame (frame_refl s)
  | borrowed a b c => exact eff_of_frame (frame_refl s)
  | heap o pb off len =>
    obtain ⟨x, hx, hl⟩ := hlive o pb off len rfl
    exact eff_release hx hl

theorem handleOk_live {cfg : Cfg} {s : State} {hd : Handle} (hok : HandleOk cfg s hd) :
    ∀ o pb off len, hd.repr = .heap o pb off len → ∃ x, getI s o = some x ∧ x.live = true := by
  intro o pb off len hr
  unfold HandleOk at hok; rw [hr] at hok
  obtain ⟨x, hx, hl, _⟩ := hok
  exact ⟨x, hx, hl⟩

/-- `newHeap`, then drop a representation whose owner (if any) is a live box of `s` -/
theorem eff_newHeap_drop {cfg : Cfg} {s : State} {r : Rep} (data : List UInt8) (cap : Nat)
    (hlive : ∀ o pb off len, r = .heap o pb off len → ∃ x, getI s o = some x ∧ x.live = true) :
    Eff cfg s (dropRepr cfg (newHeap s data cap).1 r).1
      (freesOf ((newHeap s data cap).2.2 ++ (dropRepr cfg (newHeap s data cap).1 r).2)) [] := by
  rw [freesOf_append, freesOf_newHeap, List.nil_append]
  have hl2 : ∀ o pb off len, r = .heap o pb off len →
      ∃ x, getI (newHeap s data cap).1 o = some x ∧ x.live = true := by
    intro o pb off len hr
    obtain ⟨x, hx, hl⟩ := hlive o pb off len hr
    exact ⟨x, by rw [getI_newHeap_old _ _ (getI_some_lt hx)]; exact hx, hl⟩
  have e := Eff.after_frame (frame_newHeap s data cap) (eff_dropRepr (cfg := cfg) hl2) ?_
  · simpa using e
  · intro o ho
    cases r with
    | inline bs => cases ho
    | borrowed a b c => cases ho
    | heap o' pb off len =>
      obtain ⟨x, hx, hl⟩ := hlive o' pb off len rfl
      have hx2 : getI (newHeap s data cap).1 o' = some x := by
        rw [getI_newHeap_old _ _ (getI_some_lt hx)]; exact hx
      have : o = o' := by
        change o ∈ freesOf (release cfg _ o').2 at ho
        rw [freesOf_release, hx2] at ho
        simp only at ho
        split at ho
        · simpa using ho
        · cases ho
      subst this
      exact getI_newHeap_old _ _ (getI_some_lt hx)

@[simp] theorem freesOf_fromSliceRepr (cfg : Cfg) (s : State) (bs : List UInt8) :
    freesOf (fromSliceRepr cfg s bs).2.2 = [] := by
  unfold fromSliceRepr
  split
  · rfl
  · split
    · rfl
    · exact freesOf_newHeap ..

theorem frame_fromSliceRepr (cfg : Cfg) (s : State) (bs : List UInt8) :
    Frame s (fromSliceRepr cfg s bs).1 [] [] := by
  unfold fromSliceRepr
  split
  · exact frame_refl s
  · split
    · exact frame_refl s
    · exact frame_newHeap _ _ _

@[simp] theorem freesOf_fromVecRepr (cfg : Cfg) (s : State) (bs : List UInt8) (cap buf : Nat) :
    freesOf (fromVecRepr cfg s bs cap buf).2.2 = [] := by
  unfold fromVecRepr
  split
  · simp only; split <;> rfl
  · rfl

theorem frame_fromVecRepr (cfg : Cfg) (s : State) (bs : List UInt8) (cap buf : Nat) :
    Frame s (fromVecRepr cfg s bs cap buf).1 [] [] := by
  unfold fromVecRepr
  split
  · exact frame_refl s
  · exact frame_boxVec _ _ _ _

@[simp] theorem freesOf_cloneRepr (cfg : Cfg) (s : State) (hd : Handle) :
    freesOf (cloneRepr cfg s hd).2.2 = [] := by
  unfold cloneRepr
  cases hd.repr with
  | inline bs => rfl
  | borrowed a b c => rfl
  | heap o pb off len =>
    simp only
    split
    · rfl
    · exact freesOf_newHeap ..

theorem frame_cloneRepr {cfg : Cfg} {s : State} {hd : Handle} (hok : HandleOk cfg s hd) :
    Frame s (cloneRepr cfg s hd).1 [] [] := by
  have hlive := handleOk_live hok
  unfold cloneRepr
  cases hr : hd.repr with
  | inline bs => exact frame_refl s
  | borrowed a b c => exact frame_refl s
  | heap o pb off len =>
    simp only
    obtain ⟨x, hx, hl⟩ := hlive o pb off len hr
    split
    · exact frame_incr (b := (incr cfg s o).2) rfl (fun y hy => by rw [hx] at hy; cases hy; exact hl)
    · exact frame_newHeap _ _ _

@[simp] theorem freesOf_rangeRepr (cfg : Cfg) (s : State) (hd : Handle) (a b : Nat) :
    freesOf (rangeRepr cfg s hd a b).2.2 = [] := by
  unfold rangeRepr
  cases hd.repr with
  | inline bs => rfl
  | borrowed a b c => rfl
  | heap o pb off len =>
    simp only
    split
    · rfl
    · split
      · rfl
      · exact freesOf_newHeap ..

theorem frame_rangeRepr {cfg : Cfg} {s : State} {hd : Handle} (hok : HandleOk cfg s hd) (a b : Nat) :
    Frame s (rangeRepr cfg s hd a b).1 [] [] := by
  have hlive := handleOk_live hok
  unfold rangeRepr
  cases hr : hd.repr with
  | inline bs => exact frame_refl s
  | borrowed a b c => exact frame_refl s
  | heap o pb off len =>
    simp only
    obtain ⟨x, hx, hl⟩ := hlive o pb off len hr
    split
    · exact frame_refl s
    · split
      · exact frame_incr (b := (incr cfg s o).2) rfl (fun y hy => by rw [hx] at hy; cases hy; exact hl)
      · exact frame_newHeap _ _ _

/-- the box a representation points into -/
def ownerOf : Rep → List Nat
  | .heap o _ _ _ => [o]
  | _ => []

@[simp] theorem freesOf_writeView (s : State) (r : Rep) (f : List UInt8 → List UInt8) :
    freesOf (writeView s r f).2.2 = [] := by
  unfold writeView
  cases r with
  | inline bs => rfl
  | borrowed a b c => rfl
  | heap o pb off len =>
    simp only
    cases getI s o with
    | none => rfl
    | some x => simp only; split <;> rfl

theorem frame_writeView {s : State} {r : Rep} (f : List UInt8 → List UInt8)
    (hlive : ∀ o pb off len, r = .heap o pb off len → ∃ x, getI s o = some x ∧ x.live = true) :
    Frame s (writeView s r f).1 [] (ownerOf r) := by
  unfold writeView
  cases r with
  | inline bs => exact frame_refl s
  | borrowed a b c => exact frame_refl s
  | heap o pb off len =>
    obtain ⟨x, hx, hl⟩ := hlive o pb off len rfl
    simp only [hx]
    exact frame_setI hx hl hl

theorem eff_makeUnique {cfg : Cfg} {s : State} {hd : Handle} (hok : HandleOk cfg s hd) :
    Eff cfg s (makeUnique cfg s hd).1 (freesOf (makeUnique cfg s hd).2.2) [] := by
  have hlive := handleOk_live hok
  unfold makeUnique
  cases hr : hd.repr with
  | inline bs => exact eff_of_frame (frame_refl s)
  | borrowed a b c =>
    simp only
    rw [freesOf_fromSliceRepr]
    exact eff_of_frame (frame_fromSliceRepr _ _ _)
  | heap o pb off len =>
    simp only
    split
    · exact eff_of_frame (frame_refl s)
    · exact eff_newHeap_drop (r := .heap o pb off len) _ _
        (by intro o' pb' off' len' he; cases he; exact hlive o pb off len hr)

theorem Eff.of_getI_left {cfg : Cfg} {s s0 s' : State} {fs ws : List Nat} (e : Eff cfg s0 s' fs ws)
    (h : ∀ i, getI s0 i = getI s i) : Eff cfg s s' fs ws := by
  have := Eff.after_frame (frame_of_getI h) e (fun o _ => h o)
  simpa using this

theorem Eff.of_getI_right {cfg : Cfg} {s s1 s' : State} {fs ws : List Nat} (e : Eff cfg s s1 fs ws)
    (h : ∀ i, getI s' i = getI s1 i) : Eff cfg s s' fs ws := by
  have := e.then_frame (frame_of_getI h)
  simpa using this

theorem eff_takeVec {cfg : Cfg} {s : State} (w : Wf cfg s) {h : Nat} {hd : Handle}
    (hg : getH s h = some hd) :
    Eff cfg s (takeVec cfg s h hd).1 (freesOf (takeVec cfg s h hd).2.2) [] := by
  have hlive := handleOk_live (w.handles h hd hg)
  have hco : Eff cfg s
      (setH (dropRepr cfg { s with nextBuf := s.nextBuf + 1 } hd.repr).1 h (some { hd with repr := .inline [] }))
      (freesOf ((if (view s hd).length > 0 then
          [Event.allocBuf s.nextBuf (view s hd).length, Event.write s.nextBuf 0 (view s hd).length] else []) ++
        (dropRepr cfg { s with nextBuf := s.nextBuf + 1 } hd.repr).2)) [] := by
    have e := eff_dropRepr (cfg := cfg) (s := { s with nextBuf := s.nextBuf + 1 }) (r := hd.repr) hlive
    have e2 := (e.of_getI_left (s := s) (fun _ => rfl)).of_getI_right
      (s' := setH (dropRepr cfg { s with nextBuf := s.nextBuf + 1 } hd.repr).1 h (some { hd with repr := .inline [] }))
      (fun _ => rfl)
    refine e2.cast ?_ (fun _ h => h)
    rw [freesOf_append, freesOf_ite]
    split <;> rfl
  unfold takeVec
  cases hr : hd.repr with
  | inline bs => simp only; rw [hr] at hco; exact hco
  | borrowed a b c => simp only; rw [hr] at hco; exact hco
  | heap o pb off len =>
    simp only
    cases hx : getI s o with
    | none => simp only; rw [hr] at hco; exact hco
    | some x =>
      simp only
      split
      · rename_i hcond
        have hu : ownerUnique cfg s o = true := by simp at hcond; exact hcond.2
        obtain ⟨x1, hx1, hl⟩ := hlive o pb off len hr
        rw [hx] at hx1; cases hx1
        have hc := ownerUnique_count ((wf_iff_wfx _ _).mp w) hx hl hu
        exact (eff_kill (cfg := cfg) hx hl (Or.inr hc)).of_getI_right (fun _ => rfl)
      · rw [hr] at hco; exact hco

theorem eff_truncateOp {cfg : Cfg} {s : State} (w : Wf cfg s) {h : Nat} {hd : Handle}
    (hg : getH s h = some hd) (n : Nat) (ret : Ret) :
    Eff cfg s (truncateOp cfg s h hd n ret).1 (freesOf (truncateOp cfg s h hd n ret).2.events) [] := by
  have hlive := handleOk_live (w.handles h hd hg)
  unfold truncateOp
  split
  · simp only
    split
    · split
      · exact eff_of_frame (frame_refl s)
      · cases hr : hd.repr with
        | inline bs => exact eff_of_frame (frame_refl s)
        | borrowed a b c => exact eff_of_frame (frame_refl s)
        | heap o pb off len =>
          simp only
          obtain ⟨x, hx, hl⟩ := hlive o pb off len hr
          split
          · exact (eff_release (cfg := cfg) hx hl).of_getI_right (fun _ => rfl)
          · exact eff_of_frame (frame_refl s)
    · cases hr : hd.repr with
      | inline bs => exact eff_of_frame (frame_refl s)
      | borrowed a b c => exact eff_of_frame (frame_refl s)
      | heap o pb off len =>
        simp only
        obtain ⟨x, hx, hl⟩ := hlive o pb off len hr
        split
        · exact (eff_release (cfg := cfg) hx hl).of_getI_right (fun _ => rfl)
        · exact eff_of_frame (frame_refl s)
  · exact eff_of_frame (frame_refl s)

theorem eff_shrinkToOp {cfg : Cfg} {s : State} (w : Wf cfg s) {h : Nat} {hd : Handle}
    (hg : getH s h = some hd) (n : Nat) :
    Eff cfg s (shrinkToOp cfg s h hd n).1 (freesOf (shrinkToOp cfg s h hd n).2.events) [] := by
  have hlive := handleOk_live (w.handles h hd hg)
  unfold shrinkToOp
  cases hr : hd.repr with
  | inline bs => exact eff_of_frame (frame_refl s)
  | borrowed a b c => exact eff_of_frame (frame_refl s)
  | heap o pb off len =>
    simp only
    obtain ⟨x, hx, hl⟩ := hlive o pb off len hr
    split
    · simp only [hx]
      split
      · exact eff_of_frame (frame_refl s)
      · have e := eff_newHeap_drop (cfg := cfg) (s := s) (r := .heap o pb off len) (view s hd) (max n len)
          (by intro o' pb' off' len' he; cases he; exact ⟨x, hx, hl⟩)
        exact e.of_getI_right (fun _ => rfl)
    · exact (eff_release (cfg := cfg) hx hl).of_getI_right (fun _ => rfl)

/-- `make_unique` never frees a box: it releases a share only when the box is shared -/
@[simp] theorem freesOf_makeUnique (cfg : Cfg) (s : State) (hd : Handle) :
    freesOf (makeUnique cfg s hd).2.2 = [] := by
  unfold makeUnique
  cases hd.repr with
  | inline bs => rfl
  | borrowed a b c => exact freesOf_fromSliceRepr ..
  | heap o pb off len =>
    simp only
    split
    · rfl
    · rename_i hu
      rw [freesOf_append, freesOf_newHeap, List.nil_append, freesOf_release]
      cases hx : getI (newHeap s (view s hd) (view s hd).length).1 o with
      | none => rfl
      | some x =>
        simp only
        split
        · rename_i hlast
          exfalso
          apply hu
          unfold ownerUnique
          by_cases hlt : o < s.inners.length
          · rw [getI_newHeap_old _ _ hlt] at hx
            cases hb : cfg.backend <;> simp_all
          · have : getI s o = none := by
              unfold getI; exact List.getElem?_eq_none (Nat.le_of_not_lt hlt)
            cases hb : cfg.backend <;> simp [this]
        · rfl

theorem frame_makeUnique {cfg : Cfg} {s : State} {hd : Handle}
    (hlive : ∀ o pb off len, hd.repr = .heap o pb off len → ∃ x, getI s o = some x ∧ x.live = true) :
    Frame s (makeUnique cfg s hd).1 [] [] := by
  unfold makeUnique
  cases hr : hd.repr with
  | inline bs => exact frame_refl s
  | borrowed a b c => exact frame_fromSliceRepr _ _ _
  | heap o pb off len =>
    simp only
    split
    · exact frame_refl s
    · have e := eff_newHeap_drop (cfg := cfg) (s := s) (r := .heap o pb off len) (view s hd) (view s hd).length
        (by intro o' pb' off' len' he; cases he; exact hlive o pb off len hr)
      have h0 := freesOf_makeUnique cfg s hd
      unfold makeUnique at h0
      rw [hr] at h0
      simp only at h0
      rename_i hu
      simp only [hu, Bool.false_eq_true, if_false] at h0
      have h0' : freesOf ((newHeap s (view s hd) (view s hd).length).2.2 ++
          (dropRepr cfg (newHeap s (view s hd) (view s hd).length).1 (.heap o pb off len)).2) = [] := h0
      have := e.frame
      rw [h0'] at this
      exact this

/-- the representation `make_unique` returns points into a live box -/
theorem makeUnique_live {cfg : Cfg} {s : State} {hd : Handle}
    (hlive : ∀ o pb off len, hd.repr = .heap o pb off len → ∃ x, getI s o = some x ∧ x.live = true) :
    ∀ o pb off len, (makeUnique cfg s hd).2.1 = .heap o pb off len →
      ∃ x, getI (makeUnique cfg s hd).1 o = some x ∧ x.live = true := by
  have hnew : ∀ (data : List UInt8) (cap : Nat), getI (newHeap s data cap).1 s.inners.length =
      some { count := 0, data := data, cap := cap, buf := s.nextBuf, live := true } :=
    fun data cap => getI_append_same { s with nextBuf := s.nextBuf + 1 } _
  unfold makeUnique
  cases hr : hd.repr with
  | inline bs => intro o pb off len he; cases he
  | borrowed a b c =>
    simp only
    unfold fromSliceRepr
    split
    · intro o pb off len he; cases he
    · split
      · intro o pb off len he; cases he
      · intro o pb off len he
        cases he
        exact ⟨_, hnew _ _, rfl⟩
  | heap o pb off len =>
    simp only
    split
    · intro o' pb' off' len' he; cases he; exact hlive o pb off len hr
    · intro o' pb' off' len' he
      cases he
      obtain ⟨x, hx, _⟩ := hlive o pb off len hr
      have hne : o ≠ s.inners.length := by have := getI_some_lt hx; omega
      exact ⟨_, by rw [release_getI_other _ _ _ _ hne]; exact hnew _ _, rfl⟩

/-- the box `make_unique` returns is either fresh or the value's own, solely owned box -/
theorem makeUnique_owner {cfg : Cfg} {s : State} {hd : Handle} :
    ∀ o pb off len, (makeUnique cfg s hd).2.1 = .heap o pb off len → o < s.inners.length →
      ownerUnique cfg s o = true ∧ ∃ pb' off' len', hd.repr = .heap o pb' off' len' := by
  unfold makeUnique
  cases hr : hd.repr with
  | inline bs => intro o pb off len he; cases he
  | borrowed a b c =>
    simp only
    unfold fromSliceRepr
    split
    · intro o pb off len he; cases he
    · split
      · intro o pb off len he; cases he
      · intro o pb off len he hlt
        cases he
        exact absurd hlt (Nat.lt_irrefl _)
  | heap o pb off len =>
    simp only
    split
    · rename_i hu
      intro o' pb' off' len' he _; cases he; exact ⟨hu, _, _, _, rfl⟩
    · intro o' pb' off' len' he hlt
      cases he
      exact absurd hlt (Nat.lt_irrefl _)

/-! ### every step -/

/-- the pool slots an operation reads (`h`) or writes (`d`) -/
def targets : Op → List Nat
  | .new d | .fromSlice d _ | .fromVec d _ _ | .borrowed d _ _ _ | .withCapacity d _
  | .inline d _ | .tryInline d _ => [d]
  | .clone h d | .slice h d _ _ | .trySlice h d _ _ | .trySliceRef h d _ _ _ | .sliceRef h d _ _ _
  | .adopt h d _ _ | .toAsciiLower h d | .toAsciiUpper h d | .intoOwned h d | .repeat h d _ => [h, d]
  | .pushSlice h _ | .pop h | .truncate h _ | .clear h | .shrinkTo h _ | .shrinkToFit h
  | .asMutWrite h _ _ | .toMutWrite h _ _ | .makeAsciiLower h | .makeAsciiUpper h
  | .mutate h _ | .mutateLeak h _ | .intoVec h | .toVec h | .intoBorrowed h | .spareCapacity h
  | .drop h => [h]

/-- every box of `s` whose Vec may have been written is solely owned by a handle the op targets -/
def WsOk (s : State) (tg ws : List Nat) : Prop :=
  ∀ o, o ∈ ws → o < s.inners.length → refsTo s o = 1 ∧ ∃ h, h ∈ tg ∧ pointsTo o (getH s h) = true

def StepEff (cfg : Cfg) (s : State) (r : State × Out) (tg : List Nat) : Prop :=
  ∃ ws, Eff cfg s r.1 (freesOf r.2.events) ws ∧ WsOk s tg ws

theorem stepEff_of_eff {cfg : Cfg} {s s' : State} {ev : List Event} {ret : Ret} {tg : List Nat}
    (e : Eff cfg s s' (freesOf ev) []) : StepEff cfg s (ok s' ret ev) tg :=
  ⟨[], e, fun _ h => by cases h⟩

theorem stepEff_quiet {cfg : Cfg} {s s' : State} {ev : List Event} {ret : Ret} {tg : List Nat}
    (f : Frame s s' [] []) (hev : freesOf ev = []) : StepEff cfg s (ok s' ret ev) tg :=
  stepEff_of_eff (by rw [hev]; exact eff_of_frame f)

theorem stepEff_refl {cfg : Cfg} {s : State} {ret : Ret} {tg : List Nat} : StepEff cfg s (ok s ret []) tg :=
  stepEff_quiet (frame_refl s) rfl

/-- a write through the sole owner: the only box of `s` touched is `o` -/
theorem stepEff_write {cfg : Cfg} {s s' : State} {ev : List Event} {ret : Ret} {tg ws : List Nat}
    (f : Frame s s' [] ws) (hev : freesOf ev = []) (hws : WsOk s tg ws) : StepEff cfg s (ok s' ret ev) tg :=
  ⟨ws, by show Eff cfg s s' (freesOf ev) ws; rw [hev]; exact eff_of_frame f, hws⟩

syntax "quiet_op " ident : tactic
macro_rules
  | `(tactic| quiet_op $w) => `(tactic| (
      simp only [step]
      repeat' split
      all_goals first
        | exact stepEff_refl
        | exact stepEff_quiet (frame_refl _) (by simp)
        | exact stepEff_quiet (frame_newHeap _ _ _) (by simp)
        | exact stepEff_quiet (frame_fromSliceRepr _ _ _) (by simp)
        | exact stepEff_quiet (frame_cloneRepr (Wf.handles $w _ _ (by assumption))) (by simp)
        | exact stepEff_quiet (frame_rangeRepr (Wf.handles $w _ _ (by assumption)) _ _) (by simp)))

theorem step_eff_A1 {cfg : Cfg} {s : State} (w : Wf cfg s) :
    (∀ d, StepEff cfg s (step cfg s (.new d)) [d]) ∧
    (∀ d bs, StepEff cfg s (step cfg s (.fromSlice d bs)) [d]) ∧
    (∀ d a b c, StepEff cfg s (step cfg s (.borrowed d a b c)) [d]) ∧
    (∀ d n, StepEff cfg s (step cfg s (.withCapacity d n)) [d]) ∧
    (∀ d bs, StepEff cfg s (step cfg s (.inline d bs)) [d]) ∧
    (∀ d bs, StepEff cfg s (step cfg s (.tryInline d bs)) [d]) ∧
    (∀ h d, StepEff cfg s (step cfg s (.clone h d)) [h, d]) ∧
    (∀ h d, StepEff cfg s (step cfg s (.intoOwned h d)) [h, d]) ∧
    (∀ h, StepEff cfg s (step cfg s (.intoBorrowed h)) [h]) ∧
    (∀ h d n, StepEff cfg s (step cfg s (.repeat h d n)) [h, d]) := by
  refine ⟨?_, ?_, ?_, ?_, ?_, ?_, ?_, ?_, ?_, ?_⟩
  · intro d; quiet_op w
  · intro d bs; quiet_op w
  · intro d a b c; quiet_op w
  · intro d n; quiet_op w
  · intro d bs; quiet_op w
  · intro d bs; quiet_op w
  · intro h d; quiet_op w
  · intro h d; quiet_op w
  · intro h; quiet_op w
  · intro h d n; quiet_op w

theorem step_eff_A2 {cfg : Cfg} {s : State} (w : Wf cfg s) :
    (∀ h d sb eb, StepEff cfg s (step cfg s (.slice h d sb eb)) [h, d]) ∧
    (∀ h d sb eb, StepEff cfg s (step cfg s (.trySlice h d sb eb)) [h, d]) ∧
    (∀ h d rn rel plen, StepEff cfg s (step cfg s (.trySliceRef h d rn rel plen)) [h, d]) ∧
    (∀ h d rn rel plen, StepEff cfg s (step cfg s (.sliceRef h d rn rel plen)) [h, d]) ∧
    (∀ h d a n, StepEff cfg s (step cfg s (.adopt h d a n)) [h, d]) := by
  refine ⟨?_, ?_, ?_, ?_, ?_⟩
  · intro h d sb eb; quiet_op w
  · intro h d sb eb; quiet_op w
  · intro h d rn rel plen; quiet_op w
  · intro h d rn rel plen; quiet_op w
  · intro h d a n; quiet_op w

end HipVerif.Core
