/-
The slot-level ThinVec operations, fault-free, against the list-level model `TV.step`
(Model/Vecs.lean): scope `Small`, abstraction `absTV`, operation mapping `toTVOp`, and
`tStep_refines` (contents, returned values, panics and capacity).
-/
import HipVerif.Lemmas.SlotsRefineTV
namespace HipVerif.Slots
variable {fl : Bool}
open HipVerif.Vecs (IV TV Outcome Val Reason PanicClass DrainEnd Src TVParams)
open HipVerif.Spec.Vec (Bnd Side)

/-- the numeric argument by which an operation may grow the vector -/
def Op.size : Op → Nat
  | .resize n | .resizeWith n | .extSlice n | .append n | .reserve n => n
  | .extWithin _ b => b
  | .extIter h n => max h n
  | _ => 0

/-- Scope of the ThinVec refinement: the slot model has unbounded capacities and does not model
the "capacity overflow" / "buffer too large" panics of requests above `isize::MAX` bytes; the two
models are compared while capacities and arguments stay below `2^40` elements of at most 1 KiB. -/
def Small (s : St) (op : Op) : Prop :=
  s.v.cap ≤ smallBound ∧ op.size ≤ smallBound ∧ s.v.h.esz ≤ 1024

/-- the list-level ThinVec that a slot-level state stands for -/
def absTV (alT : Nat) (s : St) : TV Nat := ⟨s.v.cap, absL s, s.v.h.esz, alT, 8, 8⟩

/-- The list-model operation that a slot-model operation on a ThinVec stands for (see `toIVOp`).
`resize` appends `n - len - 1` clones and then the value itself; the list model is told these ids. -/
def toTVOp (s : St) : Op → Option (Vecs.Op Nat)
  | .push => some (.push s.mem.next)
  | .pop => some .pop
  | .insert i => some (.insert i s.mem.next)
  | .remove i => some (.remove i)
  | .swapRemove i => some (.swapRemove i)
  | .truncate n => some (.truncate n)
  | .clear => some .clear
  | .resize n =>
    if n > s.v.len then
      some (.extendFromSlice (List.range' (s.mem.next + 1) (n - s.v.len - 1) ++ [s.mem.next]))
    else some (.truncate n)
  | .extSlice n => some (.extendFromSlice (List.range' (s.mem.next + n) n))
  | .extWithin a b =>
    if a ≤ b ∧ b ≤ s.v.len then some (.extendFromSlice (List.range' s.mem.next (b - a)))
    else some (.extendFromWithin (.incl a) (.excl b))
  | .extIter h n => some (.extend h (List.range' s.mem.next n))
  | .append n => some (.append (List.range' s.mem.next n))
  | .splitOff a => some (.splitOff a)
  | .drain a b sc f => some (.drain (.incl a) (.excl b) (sc.flatMap sidesOf) (finOf f))
  | .reserve n => some (.reserve n)
  | .shrinkFit => some .shrinkToFit
  | .roundtrip => if s.v.len ≤ rtCap then some (.from .other 0 (absL s)) else none
  | .tryPush | .tryInsert _ | .resizeWith _ | .intoIter _ _ | .clone | .dropVec | .popIf _
  | .fromIter _ _ => none

theorem afterReserve_bridge {v : Vec} {alT add : Nat} (xs : List Nat)
    (f : TV Nat → Outcome Nat × TV Nat) (hlen : v.len = xs.length)
    (hpos : 0 < v.h.esz) (ha : AlignOk alT) (he : v.h.esz ≤ 1024) (hc : v.cap ≤ 8 * smallBound)
    (hadd : v.len + add ≤ 16 * smallBound) :
    TV.afterReserve (⟨v.cap, xs, v.h.esz, alT, 8, 8⟩ : TV Nat) add f =
      f ⟨(v.reserve add).cap, xs, v.h.esz, alT, 8, 8⟩ := by
  unfold TV.afterReserve
  rw [reserve_bridge xs hlen hpos ha he hc hadd]

theorem withCapacity_bridge {esz alT n : Nat} (hpos : 0 < esz) (ha : AlignOk alT)
    (he : esz ≤ 1024) (hn : n ≤ smallBound) :
    (TV.withCapacity (tvParams esz alT) n : Option (TV Nat)) =
      some ⟨roundCap esz (max n (minCap esz)), [], esz, alT, 8, 8⟩ := by
  unfold TV.withCapacity
  have hmin : Vecs.minimalCapacity esz = minCap esz := by
    simp only [Vecs.minimalCapacity, minCap, show ¬ esz = 0 by omega, if_false]
  have hmc : minCap esz ≤ 32 := by
    simp only [minCap, show ¬ esz = 0 by omega, if_false]
    split
    · omega
    · split
      · omega
      · exact Nat.div_le_self 32 esz
  have hl := layout_bridge (n := max n (minCap esz)) hpos ha he
    (by simp only [smallBound] at hn ⊢; omega)
  simp only [tvParams] at hl ⊢
  rw [hmin, hl]

theorem roundCap_le {esz : Nat} (hpos : 0 < esz) (n : Nat) : roundCap esz n ≤ n + 7 := by
  unfold roundCap
  rw [if_neg (by omega)]
  simp only [hdr]
  have h1 : (24 + n * esz + 7) / 8 * 8 - 24 ≤ n * esz + 7 := by omega
  calc ((24 + n * esz + 7) / 8 * 8 - 24) / esz ≤ (n * esz + 7) / esz := Nat.div_le_div_right h1
    _ ≤ (n * esz + 7 * esz) / esz := Nat.div_le_div_right (by
        have : 7 ≤ 7 * esz := Nat.le_mul_of_pos_right 7 hpos
        omega)
    _ = n + 7 := by rw [← Nat.add_mul, Nat.mul_div_cancel _ hpos]

/-- capacity after `reserve(1)` stays within twice the length (plus rounding) -/
theorem reserve_one_cap_le {v : Vec} (hpos : 0 < v.h.esz) (hle : v.len ≤ v.cap) :
    (v.reserve 1).cap ≤ max v.cap (2 * v.len + 8) := by
  rw [Vec.reserve_cap]
  split
  · rename_i h
    have hc : v.cap = v.len := by omega
    rw [Vec.setCapacity_cap]
    split
    · omega
    · have := roundCap_le hpos (max (v.len + 1) (v.cap * 2))
      omega
  · omega

theorem OwnL.esz_pos {s loc locB} (h : OwnL fl s loc locB) (ht : s.v.h.thin = true)
    (hal : s.v.h.alive = true) : 0 < s.v.h.esz := by
  obtain ⟨_, _, _, _, hk, _⟩ := h
  exact (hk.2 ht hal).1

/-- the loop of `extend_iter`, slot model against list model, fault-free -/
theorem tExtIterLoop_refines (alT mn : Nat) (ha : AlignOk alT) : ∀ (k i : Nat) (s : St)
    (L loc locB : List Nat), OwnL fl s loc locB → LocalVec s.v L → s.mem.budget = none →
    s.v.h.thin = true → s.v.h.alive = true → s.v.h.esz ≤ 1024 → s.v.cap ≤ 8 * smallBound →
    L.length + k ≤ 2 * smallBound → (i < mn → L.length + (mn - i) ≤ s.v.cap) →
    (tExtIterLoop mn i k s).1 = false ∧
    ∃ L', LocalVec (tExtIterLoop mn i k s).2.v L' ∧
      HdrKeep s.v.h (tExtIterLoop mn i k s).2.v.h ∧
      TV.extendLoop (⟨s.v.cap, L, s.v.h.esz, alT, 8, 8⟩ : TV Nat) mn i
          (List.range' s.mem.next k) =
        (.ok .unit, ⟨(tExtIterLoop mn i k s).2.v.cap, L', s.v.h.esz, alT, 8, 8⟩)
  | 0, i, s, L, loc, locB, h, hv, hb, ht, hal, he, hc, hk, hroom => by
    simp only [tExtIterLoop, List.range'_zero, TV.extendLoop]
    exact ⟨(Mem.tick_of_none hb).1, L, hv, HdrKeep.of_eq rfl, rfl⟩
  | k + 1, i, s, L, loc, locB, h, hv, hb, ht, hal, he, hc, hk, hroom => by
    unfold tExtIterLoop
    have hpos := h.esz_pos ht hal
    have hle := hv.len_le
    have h1 := h.genVal
    obtain ⟨m', e1, e2, e3, e4⟩ := Mem.genVal_of_none hb
    simp only [St.onMem_eq, e1] at h1 ⊢
    simp only [List.range'_succ, TV.extendLoop]
    by_cases hge : i ≥ mn
    · simp only [hge, if_true]
      obtain ⟨f1, f2, f3, f4, f5⟩ := reserve_facts 1 h1.1 (s := { s with mem := m' }) hv ht hal
      rw [reserve_bridge L hv.1 hpos ha he hc (by rw [hv.1]; simp only [smallBound] at hk ⊢; omega)]
      simp only
      have hp := St.store_post (s := ({ s with mem := m' } : St).reserve 1) s.mem.next f1 (by omega)
      have hmem : (St.store s.mem.next (({ s with mem := m' } : St).reserve 1)).mem = m' := by
        rw [St.store_eq (by rw [f1.1]; omega), f5]
      have hcap' : (s.v.reserve 1).cap ≤ 8 * smallBound := by
        have := reserve_one_cap_le hpos (by rw [hv.1]; exact hle)
        rw [hv.1] at this
        simp only [smallBound] at hk hc this ⊢; omega
      have ih := tExtIterLoop_refines alT mn ha k (i + 1) _ (L ++ [s.mem.next]) loc locB
        ((reserve_facts 1 h1.1 (s := { s with mem := m' }) hv ht hal |> fun _ =>
          (h1.1.reserve 1 ht hal).1).store (by rw [f1.1]; omega))
        hp.view (by rw [hmem]; exact e2) (by rw [hp.hdr, f3]; exact ht)
        (by rw [hp.hdr, f3]; exact hal) (by rw [hp.hdr, f3]; exact he)
        (by rw [hp.cap, f2]; exact hcap') (by simp; omega) (by intro; omega)
      rw [hmem, e4, hp.cap, f2, hp.hdr, f3] at ih
      obtain ⟨r1, L', r2, r3, r4⟩ := ih
      exact ⟨r1, L', r2, r3, r4⟩
    · simp only [hge, if_false]
      have hroom' := hroom (by omega)
      have hp := St.store_post (s := ({ s with mem := m' } : St)) s.mem.next hv (by simp only; omega)
      have hmem : (St.store s.mem.next ({ s with mem := m' } : St)).mem = m' := by
        rw [St.store_eq (by simp only; rw [hv.1]; omega)]
      have ih := tExtIterLoop_refines alT mn ha k (i + 1) _ (L ++ [s.mem.next]) loc locB
        (h1.1.store (by simp only; rw [hv.1]; omega))
        hp.view (by rw [hmem]; exact e2) (by rw [hp.hdr]; exact ht)
        (by rw [hp.hdr]; exact hal) (by rw [hp.hdr]; exact he)
        (by rw [hp.cap]; exact hc) (by simp; omega) (by intro; rw [hp.cap]; simp; omega)
      rw [hmem, e4, hp.cap, hp.hdr] at ih
      obtain ⟨r1, L', r2, r3, r4⟩ := ih
      exact ⟨r1, L', r2, r3, r4⟩

theorem tExtIterLoop_budget (mn : Nat) : ∀ (k i : Nat) (s : St), s.mem.budget = none →
    (tExtIterLoop mn i k s).2.mem.budget = none
  | 0, i, s, hb => by
    simp only [tExtIterLoop]; exact (Mem.tick_of_none hb).2
  | k + 1, i, s, hb => by
    unfold tExtIterLoop
    obtain ⟨m', e1, e2, _, _⟩ := Mem.genVal_of_none hb
    simp only [St.onMem_eq, e1]
    refine tExtIterLoop_budget mn k (i + 1) _ ?_
    simp only [St.store, St.wr, St.setLen]
    split <;> split <;> first | exact e2 | rfl

theorem reserve_cap_le {v : Vec} (add : Nat) (hpos : 0 < v.h.esz) :
    (v.reserve add).cap ≤ max v.cap (max (v.len + add) (v.cap * 2) + 7) := by
  rw [Vec.reserve_cap]
  split
  · rw [Vec.setCapacity_cap]
    split
    · omega
    · have := roundCap_le hpos (max (v.len + add) (v.cap * 2)); omega
  · omega

/-- `extend_iter` after its two leading user calls: `reserve(hint)` and the loop -/
theorem tExtIter_refines {s loc locB} {L : List Nat} (alT hint n : Nat) (h : OwnL fl s loc locB)
    (hv : LocalVec s.v L) (hb : s.mem.budget = none) (ht : s.v.h.thin = true)
    (hal : s.v.h.alive = true) (ha : AlignOk alT) (he : s.v.h.esz ≤ 1024)
    (hc : s.v.cap ≤ smallBound) (hsz : max hint n ≤ smallBound) :
    (tExtIter hint n s).1 = false ∧
    ∃ L', LocalVec (tExtIter hint n s).2.v L' ∧ HdrKeep s.v.h (tExtIter hint n s).2.v.h ∧
      TV.afterReserve (⟨s.v.cap, L, s.v.h.esz, alT, 8, 8⟩ : TV Nat) hint
          (fun s' => s'.extendLoop hint 0 (List.range' s.mem.next n)) =
        (.ok .unit, ⟨(tExtIter hint n s).2.v.cap, L', s.v.h.esz, alT, 8, 8⟩) ∧
      (tExtIter hint n s).2.mem.budget = none := by
  have hle := hv.len_le
  have hpos := h.esz_pos ht hal
  have hc8 : s.v.cap ≤ 8 * smallBound := by omega
  rw [show tExtIter hint n s = tExtIterLoop hint 0 n (s.reserve hint) from rfl]
  rw [afterReserve_bridge L _ hv.1 hpos ha he hc8
    (by rw [hv.1]; simp only [smallBound] at hc hsz ⊢; omega)]
  have f0 := (h.reserve hint ht hal).1
  obtain ⟨f1, f2, f3, f4, f5⟩ := reserve_facts hint h hv ht hal
  have hcapr : (s.v.reserve hint).cap ≤ 8 * smallBound := by
    have := reserve_cap_le (v := s.v) hint hpos
    rw [hv.1] at this
    simp only [smallBound] at hc hsz this ⊢; omega
  have key := tExtIterLoop_refines alT hint ha n 0 (s.reserve hint) L loc locB f0 f1
    (by rw [f5]; exact hb) (by rw [f3]; exact ht) (by rw [f3]; exact hal)
    (by rw [f3]; exact he) (by rw [f2]; exact hcapr)
    (by simp only [smallBound] at hc hsz ⊢; omega) (by intro; omega)
  rw [f5, f2, f3] at key
  obtain ⟨r1, L', r2, r3, r4⟩ := key
  exact ⟨r1, L', r2, r3, r4, tExtIterLoop_budget hint n 0 _ (by rw [f5]; exact hb)⟩

theorem tStep_refines {s loc locB} {L : List Nat} (alT : Nat) (op : Op) (vop : Vecs.Op Nat)
    (h : OwnL fl s loc locB) (hv : LocalVec s.v L) (hb : s.mem.budget = none)
    (ht : s.v.h.thin = true) (hal : s.v.h.alive = true) (ha : AlignOk alT) (hsm : Small s op)
    (hmap : toTVOp s op = some vop) :
    retMatch (tStep op s).1 ((⟨s.v.cap, L, s.v.h.esz, alT, 8, 8⟩ : TV Nat).step vop).1 ∧
    ∃ L', LocalVec (tStep op s).2.v L' ∧ HdrKeep s.v.h (tStep op s).2.v.h ∧
      ((⟨s.v.cap, L, s.v.h.esz, alT, 8, 8⟩ : TV Nat).step vop).2 =
        ⟨(tStep op s).2.v.cap, L', s.v.h.esz, alT, 8, 8⟩ := by
  have hle := hv.len_le
  have hpos := h.esz_pos ht hal
  obtain ⟨hc, hsz, he⟩ := hsm
  have hc8 : s.v.cap ≤ 8 * smallBound := by omega
  have hout := h.view_notout hv
  cases op <;> simp only [toTVOp, Option.some.injEq, reduceCtorEq] at hmap
  case push =>
    subst hmap
    obtain ⟨r, p⟩ := tPush_spec h hv ht hal
    simp only [tStep, TV.step, TV.push]
    rw [r, afterReserve_bridge L _ hv.1 hpos ha he hc8
      (by rw [hv.1]; simp only [smallBound] at hc ⊢; omega)]
    exact ⟨trivial, _, p.view, p.hdr, by rw [p.cap]⟩
  case pop =>
    subst hmap
    obtain ⟨r, p⟩ := iPop_spec hv
    simp only [tStep, TV.step]
    rw [r, TV.pop_spec]
    refine ⟨?_, _, p.view, HdrKeep.of_eq p.hdr, by rw [p.cap]; rfl⟩
    simp only [HipVerif.Spec.Vec.pop]
    cases L.getLast? <;> simp [retMatch]
  case insert i =>
    subst hmap
    obtain ⟨r, p⟩ := tInsert_spec i h hv ht hal
    simp only [tStep, TV.step, TV.insert]
    rw [r]
    by_cases hi : i ≤ L.length
    · simp only [hi, if_true] at p ⊢
      rw [afterReserve_bridge L _ hv.1 hpos ha he hc8
        (by rw [hv.1]; simp only [smallBound] at hc ⊢; omega)]
      exact ⟨trivial, _, p.view, p.hdr, by rw [p.cap]⟩
    · simp only [hi, if_false] at p ⊢
      exact ⟨by simp [retMatch], _, p.view, p.hdr, by rw [p.cap]⟩
  case remove i =>
    subst hmap
    obtain ⟨r, p⟩ := iRemove_spec i hv
    simp only [tStep, TV.step, TV.remove]
    rw [r]
    by_cases hi : i < L.length
    · simp only [hi, if_true, List.getElem?_eq_getElem hi]
      exact ⟨by simp [retMatch], _, p.view, HdrKeep.of_eq p.hdr, by rw [p.cap]⟩
    · have hn : L[i]? = none := by simp; omega
      simp only [hi, if_false, hn]
      refine ⟨by simp [retMatch], _, p.view, HdrKeep.of_eq p.hdr, ?_⟩
      rw [p.cap, List.take_of_length_le (by omega), List.drop_of_length_le (by omega)]; simp
  case swapRemove i =>
    subst hmap
    obtain ⟨r, p⟩ := tSwapRemove_spec i hv
    simp only [tStep, TV.step, TV.swapRemove]
    rw [r]
    by_cases hi : i < L.length
    · have hl : L.length - 1 < L.length := by omega
      have hgl : L.getLast? = some L[L.length - 1] := by
        rw [List.getLast?_eq_getElem?, List.getElem?_eq_getElem hl]
      simp only [hi, if_true, List.getElem?_eq_getElem hi, List.getElem?_eq_getElem hl, hgl] at p ⊢
      refine ⟨by simp [retMatch], _, p.view, HdrKeep.of_eq p.hdr, ?_⟩
      rw [p.cap, List.dropLast_eq_take, List.length_set]
    · have hn : L[i]? = none := by simp; omega
      simp only [hi, if_false, hn] at p ⊢
      exact ⟨by simp [retMatch], _, p.view, HdrKeep.of_eq p.hdr, by rw [p.cap]⟩
  case truncate n =>
    subst hmap
    obtain ⟨r, p, -⟩ := tTruncate_spec n hv hb
    simp only [tStep, liftB, boolRet, TV.step, TV.truncate]
    rw [r]
    refine ⟨by simp only [Bool.false_eq_true, if_false]; split <;> simp [retMatch], _, p.view,
      HdrKeep.of_eq p.hdr, ?_⟩
    rw [p.cap]
    split
    · rw [List.take_of_length_le (by omega)]
    · rfl
  case clear =>
    subst hmap
    obtain ⟨r, p⟩ := tClear_spec hv hb
    simp only [tStep, liftB, boolRet, TV.step, TV.clear]
    rw [r]
    exact ⟨by simp [retMatch], _, p.view, HdrKeep.of_eq p.hdr, by rw [p.cap]⟩
  case resize n =>
    obtain ⟨r, p⟩ := tResize_spec n h hv hb ht hal
    rw [hv.1] at hmap
    simp only [tStep, liftB, boolRet]
    rw [r]
    by_cases h1 : n > L.length
    · rw [if_pos h1] at hmap
      simp only [Option.some.injEq] at hmap
      subst hmap
      simp only [h1, if_true] at p
      simp only [TV.step, TV.extendFromSlice]
      have hlen : (List.range' (s.mem.next + 1) (n - L.length - 1) ++ [s.mem.next]).length
          = n - L.length := by simp; omega
      rw [hlen, afterReserve_bridge L _ hv.1 hpos ha he hc8
        (by rw [hv.1]; simp only [Op.size, smallBound] at hc hsz ⊢; omega)]
      refine ⟨by simp [retMatch], _, p.view, p.hdr, ?_⟩
      rw [p.cap]; simp
    · rw [if_neg h1] at hmap
      simp only [Option.some.injEq] at hmap
      subst hmap
      simp only [h1, if_false] at p
      simp only [TV.step, TV.truncate]
      refine ⟨by simp only [Bool.false_eq_true, if_false]; split <;> simp [retMatch], _, p.view,
        p.hdr, ?_⟩
      rw [p.cap]
      split
      · rw [List.take_of_length_le (by omega)]
      · rfl
  case extSlice n =>
    subst hmap
    obtain ⟨r, p⟩ := tExtSlice_spec n h hv hb ht hal
    simp only [tStep, liftB, boolRet, TV.step, TV.extendFromSlice, List.length_range']
    rw [r, afterReserve_bridge L _ hv.1 hpos ha he hc8
      (by rw [hv.1]; simp only [Op.size, smallBound] at hc hsz ⊢; omega)]
    exact ⟨by simp [retMatch], _, p.view, p.hdr, by rw [p.cap]⟩
  case extWithin a b =>
    obtain ⟨r, p⟩ := tExtWithin_spec a b h hv hb ht hal
    rw [hv.1] at hmap
    simp only [tStep, liftB, boolRet]
    rw [r]
    by_cases h1 : a ≤ b ∧ b ≤ L.length
    · rw [if_pos h1] at hmap
      simp only [Option.some.injEq] at hmap
      subst hmap
      simp only [h1, and_self, if_true] at p
      simp only [TV.step, TV.extendFromSlice, List.length_range']
      rw [afterReserve_bridge L _ hv.1 hpos ha he hc8
        (by rw [hv.1]; simp only [Op.size, smallBound] at hc hsz ⊢; omega)]
      exact ⟨by simp [h1, retMatch], _, p.view, p.hdr, by rw [p.cap]⟩
    · rw [if_neg h1] at hmap
      simp only [Option.some.injEq] at hmap
      subst hmap
      simp only [h1, if_false] at p
      obtain ⟨e, he'⟩ := rangeMono_invalid (len := L.length) h1
      simp only [TV.step, TV.extendFromWithin, TV.tryExtendFromWithin, he']
      exact ⟨by simp [h1, retMatch], _, p.view, p.hdr, by rw [p.cap]⟩
  case extIter hint n =>
    subst hmap
    simp only [tStep, liftB, boolRet, TV.step, TV.extend]
    simp only [Op.size] at hsz
    -- the two user calls before the loop (`into_iter`, `size_hint`) only move the call counter
    unfold tExtend
    obtain ⟨t1, t2, t3, t4, t5⟩ := St.tick_quiet hb
    have h1 := h.tick
    generalize s.onMem Mem.tick = r at t1 t2 t3 t4 t5 h1
    obtain ⟨p0, s1⟩ := r
    simp only at t1 t2 t3 t4 t5 h1 ⊢
    subst t1
    obtain ⟨u1, u2, u3, u4, u5⟩ := St.tick_quiet t4
    have h2 := h1.tick
    generalize s1.onMem Mem.tick = r at u1 u2 u3 u4 u5 h2
    obtain ⟨p1, s2⟩ := r
    simp only at u1 u2 u3 u4 u5 h2 ⊢
    subst u1
    simp only [Bool.false_eq_true, if_false]
    have hvs : s2.v = s.v := by rw [u2, t2]
    have key := tExtIter_refines (s := s2) (L := L) alT hint n h2 (by rw [hvs]; exact hv) u4
      (by rw [hvs]; exact ht) (by rw [hvs]; exact hal) ha (by rw [hvs]; exact he)
      (by rw [hvs]; exact hc) hsz
    rw [hvs, u3, t3] at key
    obtain ⟨r1, L', r2, r3, r4, r5⟩ := key
    rw [r4, r1, (St.tick_quiet r5).1]
    exact ⟨by simp [retMatch], L', by rw [St.onMem_v]; exact r2, by rw [St.onMem_v]; exact r3,
      by rw [St.onMem_v]⟩
  case append n =>
    subst hmap
    obtain ⟨r, p⟩ := tAppend_spec n h hv ht hal
    simp only [tStep, liftB, boolRet, TV.step, TV.append, List.length_range']
    rw [r, afterReserve_bridge L _ hv.1 hpos ha he hc8
      (by rw [hv.1]; simp only [Op.size, smallBound] at hc hsz ⊢; omega)]
    exact ⟨by simp [retMatch], _, p.view, p.hdr, by rw [p.cap]⟩
  case splitOff a =>
    subst hmap
    obtain ⟨r, p⟩ := tSplitOff_spec a hv hb
    simp only [tStep, liftB, boolRet, TV.step, TV.splitOff]
    rw [r]
    by_cases h1 : a ≤ L.length
    · have hw := withCapacity_bridge (n := L.length - a) hpos ha he
        (by simp only [smallBound] at hc ⊢; omega)
      simp only [tvParams] at hw
      simp only [h1, if_true, TV.params, hw]
      exact ⟨by simp [show ¬ L.length < a by omega, retMatch], _, p.view, HdrKeep.of_eq p.hdr,
        by rw [p.cap]⟩
    · simp only [h1, if_false]
      refine ⟨by simp [show L.length < a by omega, retMatch], _, p.view, HdrKeep.of_eq p.hdr, ?_⟩
      rw [p.cap, List.take_of_length_le (by omega)]
  case drain a b sc f =>
    subst hmap
    obtain ⟨r, p⟩ := drainOp_spec a b sc f hv hb
    simp only [tStep, liftB, boolRet, TV.step, TV.drain, TV.drainCore]
    rw [r]
    by_cases h1 : a ≤ b ∧ b ≤ L.length
    · have hrm := rangeMono_valid (len := L.length) h1
      simp only [h1, and_self, if_true, hrm] at p ⊢
      cases f <;> exact ⟨by simp [finOf, retMatch], _, p.view, HdrKeep.of_eq p.hdr, by rw [p.cap]; rfl⟩
    · obtain ⟨e, he'⟩ := rangeMono_invalid (len := L.length) h1
      simp only [h1, if_false, he'] at p ⊢
      exact ⟨by simp [retMatch], _, p.view, HdrKeep.of_eq p.hdr, by rw [p.cap]⟩
  case reserve n =>
    subst hmap
    have p := tReserve_spec n hv
    simp only [tStep, TV.step]
    rw [reserve_bridge L hv.1 hpos ha he hc8
      (by rw [hv.1]; simp only [Op.size, smallBound] at hc hsz ⊢; omega)]
    exact ⟨trivial, _, p.view, p.hdr, by rw [p.cap]⟩
  case shrinkFit =>
    subst hmap
    have p := tShrinkFit_spec hv
    simp only [tStep, TV.step, TV.shrinkToFit]
    by_cases h1 : L.length = s.v.cap
    · simp only [h1, if_true] at p ⊢
      exact ⟨trivial, _, p.view, p.hdr, by rw [p.cap]⟩
    · simp only [h1, if_false] at p ⊢
      rw [setCapacity_bridge L hpos ha he (by simp only [smallBound] at hc ⊢; omega)
        (by simp only [smallBound] at hc ⊢; omega), ← Vec.setCapacity_cap]
      exact ⟨trivial, _, p.view, p.hdr, by rw [p.cap]⟩
  case roundtrip =>
    rw [hv.1] at hmap
    by_cases h16 : L.length ≤ rtCap
    · rw [if_pos h16] at hmap
      simp only [Option.some.injEq] at hmap
      subst hmap
      obtain ⟨s', e1, p⟩ := tRoundtrip_spec hv hb h16 ht hal
      have hw := withCapacity_bridge (n := L.length) hpos ha he
        (by simp only [smallBound] at hc ⊢; omega)
      simp only [tvParams] at hw
      simp only [tStep, e1, liftB, boolRet, TV.step, TV.from_, TV.params, absL_of_view hv, hw]
      exact ⟨by simp [retMatch], _, p.view, p.hdr, by rw [p.cap]⟩
    · rw [if_neg h16] at hmap
      cases hmap




end HipVerif.Slots
