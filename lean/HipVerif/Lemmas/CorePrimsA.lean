/-
Shared primitive lemmas for the constructor / clone / slice / to-owned family of Core ops
(`CoreOpsA*.lean`): `view_length`, list-window facts, `WfX` up to permutation of the held owners,
in-place data replacement on a uniquely held inner, and the `Built` package: "a freshly built
representation `(s1, r)` over `s` reading `v`", with what `install` needs.
-/
import HipVerif.Lemmas.CoreRefOps
import HipVerif.Props.C08

namespace HipVerif.Core.A
open HipVerif.Spec.Std HipVerif.RangeTy HipVerif.Spec.Range

/-! ### views -/

theorem view_length {cfg : Cfg} {s : State} {hd : Handle} (hok : HandleOk cfg s hd) :
    (view s hd).length = hlen hd := by
  unfold HandleOk at hok
  unfold view hlen
  cases hr : hd.repr with
  | inline bs => rfl
  | borrowed a b c => rw [hr] at hok; simp; omega
  | heap o pb off len =>
    rw [hr] at hok
    obtain ⟨x, hx, _, _, hrng⟩ := hok
    simp [hx]; omega

theorem view_repr (s : State) {hd hd' : Handle} (h : hd.repr = hd'.repr) : view s hd = view s hd' := by
  unfold view; rw [h]

theorem handleOk_repr (cfg : Cfg) (s : State) {hd hd' : Handle} (h : hd.repr = hd'.repr) :
    HandleOk cfg s hd ↔ HandleOk cfg s hd' := by
  unfold HandleOk; rw [h]

theorem isNormalized_repr (cfg : Cfg) {hd hd' : Handle} (h : hd.repr = hd'.repr) :
    isNormalized cfg hd = isNormalized cfg hd' := by
  unfold isNormalized isInline isBorrowed hlen; rw [h]

/-! ### list windows -/

theorem window_sub (l : List UInt8) (off len a b : Nat) (hb : b ≤ len) :
    (((l.drop off).take len).drop a).take (b - a) = (l.drop (off + a)).take (b - a) := by
  rw [List.drop_take, List.take_take, List.drop_drop]
  congr 1
  omega

theorem window_write (l m : List UInt8) (off len : Nat) (hoff : off ≤ l.length) (hm : m.length = len) :
    ((l.take off ++ m ++ l.drop (off + len)).drop off).take len = m := by
  have h1 : (l.take off).length = off := by simp; omega
  rw [List.append_assoc, List.drop_append_of_le_length (by omega)]
  have : List.drop off (List.take off l) = [] := by
    apply List.drop_eq_nil_of_le; omega
  rw [this, List.nil_append, List.take_append_of_le_length (by omega), ← hm, List.take_length]

theorem window_write_length (l m : List UInt8) (off len : Nat) (hr : off + len ≤ l.length) (hm : m.length = len) :
    (l.take off ++ m ++ l.drop (off + len)).length = l.length := by
  simp; omega

/-! ### the generated range functions only accept ranges inside the value (no side condition) -/

theorem simplify_ok_bounds (sb eb : Bound) (len a b : Nat)
    (h : Gen.Ranges.simplifyRangeMono sb eb len = .ok (a, b)) : a ≤ b ∧ b ≤ len := by
  cases sb <;> cases eb <;>
    simp only [Gen.Ranges.simplifyRangeMono, R.pure_eq, R.bind_ok] at h <;> grind

theorem range_of_ok_bounds (whole slice : Slice) (a b : Nat)
    (h : Gen.Ranges.tryRangeOf whole slice = .ok (some (a, b))) : a ≤ b ∧ b ≤ whole.len := by
  simp only [Gen.Ranges.tryRangeOf, R.pure_eq, unwrap_tryInto_offsetFrom, uadd, R.ite_bind, R.bind_ok, R.bind_ub,
    R.bind_overflow, ptrRange] at h
  grind

/-! ### `WfX` only depends on the multiset of held owners -/

theorem wfx_perm {cfg : Cfg} {s : State} {ex ex' : List Nat} (w : WfX cfg s ex)
    (hp : ∀ i, ex'.count i = ex.count i) : WfX cfg s ex' := by
  refine { handles := w.handles, held := ?_, counts := ?_, uniq := w.uniq, ceil := w.ceil, dead := w.dead,
           datacap := w.datacap, bufFresh := w.bufFresh, bufDistinct := w.bufDistinct }
  · intro i hi
    have h1 := List.count_pos_iff.mpr hi
    rw [hp] at h1
    exact w.held i (List.count_pos_iff.mp h1)
  · intro i x hx hl
    rw [hp]; exact w.counts i x hx hl

theorem wfx_swap {cfg : Cfg} {s : State} {ex : List Nat} {a b : Nat} (w : WfX cfg s (a :: b :: ex)) :
    WfX cfg s (b :: a :: ex) := by
  apply wfx_perm w
  intro i; simp only [List.count_cons]; omega

/-! ### replacing the data of an inner whose only reference is held locally -/

theorem held_unique {cfg : Cfg} {s : State} {ex : List Nat} {o : Nat} (w : WfX cfg s (o :: ex))
    {x : Inner} (hx : getI s o = some x) (hc : x.count = 0) : refsTo s o = 0 ∧ ex.count o = 0 := by
  obtain ⟨x', hx', hlive⟩ := w.held o (List.mem_cons_self ..)
  rw [hx] at hx'; cases hx'
  have := w.counts o x hx hlive
  rw [List.count_cons] at this
  simp only [beq_self_eq_true, if_true] at this
  omega

theorem wfx_setData {cfg : Cfg} {s : State} {ex : List Nat} {o : Nat} (w : WfX cfg s (o :: ex))
    {x : Inner} (hx : getI s o = some x) (hc : x.count = 0) (data' : List UInt8)
    (hcap : data'.length ≤ x.cap) :
    WfX cfg (setI s o { x with data := data' }) (o :: ex) := by
  obtain ⟨hr0, _⟩ := held_unique w hx hc
  obtain ⟨x', hx', hlive⟩ := w.held o (List.mem_cons_self ..)
  rw [hx] at hx'; cases hx'
  have hlt := getI_some_lt hx
  refine { handles := ?_, held := ?_, counts := ?_, uniq := ?_, ceil := ?_, dead := ?_,
           datacap := ?_, bufFresh := ?_, bufDistinct := ?_ }
  · intro h hd hg
    simp only [getH_setI] at hg
    have hok := w.handles h hd hg
    have hnp := no_ref_of_refsTo_zero hr0 hg
    unfold HandleOk at hok ⊢
    cases hrp : hd.repr with
    | inline bs => rw [hrp] at hok; exact hok
    | borrowed a b c => rw [hrp] at hok; simpa using hok
    | heap ow pb off len =>
      rw [hrp] at hok
      have hne : o ≠ ow := by
        intro he; subst he
        cases hd; simp_all [pointsTo]
      simpa [getI_setI_other _ _ _ _ hne] using hok
  · intro i hi
    by_cases hne : o = i
    · subst hne; exact ⟨_, getI_setI_same _ _ _ hlt, hlive⟩
    · obtain ⟨y, hy, hyl⟩ := w.held i hi
      exact ⟨y, by simpa [getI_setI_other _ _ _ _ hne] using hy, hyl⟩
  · intro i y hy hyl
    simp only [refsTo_setI]
    by_cases hne : o = i
    · subst hne; rw [getI_setI_same _ _ _ hlt] at hy; cases hy
      exact w.counts o x hx hlive
    · rw [getI_setI_other _ _ _ _ hne] at hy; exact w.counts i y hy hyl
  · intro hu i y hy hyl
    by_cases hne : o = i
    · subst hne; rw [getI_setI_same _ _ _ hlt] at hy; cases hy; exact hc
    · rw [getI_setI_other _ _ _ _ hne] at hy; exact w.uniq hu i y hy hyl
  · intro i y hy hyl
    by_cases hne : o = i
    · subst hne; rw [getI_setI_same _ _ _ hlt] at hy; cases hy; exact w.ceil o x hx hlive
    · rw [getI_setI_other _ _ _ _ hne] at hy; exact w.ceil i y hy hyl
  · intro i y hy hyd
    simp only [refsTo_setI]
    by_cases hne : o = i
    · subst hne; exact hr0
    · rw [getI_setI_other _ _ _ _ hne] at hy; exact w.dead i y hy hyd
  · intro i y hy hyl
    by_cases hne : o = i
    · subst hne; rw [getI_setI_same _ _ _ hlt] at hy; cases hy; exact hcap
    · rw [getI_setI_other _ _ _ _ hne] at hy; exact w.datacap i y hy hyl
  · intro i y hy
    simp only [nextBuf_setI]
    by_cases hne : o = i
    · subst hne; rw [getI_setI_same _ _ _ hlt] at hy; cases hy; exact w.bufFresh o x hx
    · rw [getI_setI_other _ _ _ _ hne] at hy; exact w.bufFresh i y hy
  · intro i j y z hy hz hij hyl hzl
    by_cases hi : o = i
    · subst hi
      rw [getI_setI_same _ _ _ hlt] at hy; cases hy
      rw [getI_setI_other _ _ _ _ hij] at hz
      exact w.bufDistinct o j x z hx hz hij hlive hzl
    · by_cases hj : o = j
      · subst hj
        rw [getI_setI_same _ _ _ hlt] at hz; cases hz
        rw [getI_setI_other _ _ _ _ hi] at hy
        exact w.bufDistinct i o y x hy hx hij hyl hlive
      · rw [getI_setI_other _ _ _ _ hi] at hy; rw [getI_setI_other _ _ _ _ hj] at hz
        exact w.bufDistinct i j y z hy hz hij hyl hzl

/-- a pool handle does not read an inner nobody in the pool points to -/
theorem view_setI_unref {s : State} {o : Nat} (x' : Inner) (hr0 : refsTo s o = 0)
    {k : Nat} {hd : Handle} (hg : getH s k = some hd) : view (setI s o x') hd = view s hd := by
  have hnp := no_ref_of_refsTo_zero hr0 hg
  unfold view
  cases hrp : hd.repr with
  | inline bs => rfl
  | borrowed a b c => rfl
  | heap ow pb off len =>
    have hne : o ≠ ow := by
      intro he; subst he
      cases hd; simp_all [pointsTo]
    simp [getI_setI_other _ _ _ _ hne]

/-! ### `srcs` and `pool` through the representation builders (unconditional) -/

theorem incr_srcs (cfg : Cfg) (s : State) (o : Nat) : (incr cfg s o).1.srcs = s.srcs := by
  rcases hi : incr cfg s o with ⟨s1, b⟩
  cases b with
  | false => rw [incr_false hi]
  | true => obtain ⟨_, x, _, _, rfl⟩ := incr_true hi; rfl

theorem incr_pool' (cfg : Cfg) (s : State) (o : Nat) : (incr cfg s o).1.pool = s.pool := by
  rcases hi : incr cfg s o with ⟨s1, b⟩
  exact incr_pool hi

theorem fromSliceRepr_srcs (cfg : Cfg) (s : State) (bs : List UInt8) : (fromSliceRepr cfg s bs).1.srcs = s.srcs := by
  unfold fromSliceRepr; split
  · rfl
  · split <;> rfl

theorem fromSliceRepr_pool (cfg : Cfg) (s : State) (bs : List UInt8) : (fromSliceRepr cfg s bs).1.pool = s.pool := by
  unfold fromSliceRepr; split
  · rfl
  · split <;> rfl

theorem cloneRepr_srcs (cfg : Cfg) (s : State) (hd : Handle) : (cloneRepr cfg s hd).1.srcs = s.srcs := by
  unfold cloneRepr
  cases hd.repr with
  | inline bs => rfl
  | borrowed a b c => rfl
  | heap o pb off len =>
    simp only
    split
    · exact incr_srcs cfg s o
    · rfl

theorem cloneRepr_pool (cfg : Cfg) (s : State) (hd : Handle) : (cloneRepr cfg s hd).1.pool = s.pool := by
  unfold cloneRepr
  cases hd.repr with
  | inline bs => rfl
  | borrowed a b c => rfl
  | heap o pb off len =>
    simp only
    split
    · exact incr_pool' cfg s o
    · rfl

theorem rangeRepr_srcs (cfg : Cfg) (s : State) (hd : Handle) (a b : Nat) : (rangeRepr cfg s hd a b).1.srcs = s.srcs := by
  unfold rangeRepr
  cases hd.repr with
  | inline bs => rfl
  | borrowed a b c => rfl
  | heap o pb off len =>
    simp only
    split
    · rfl
    · split
      · exact incr_srcs cfg s o
      · rfl

theorem rangeRepr_pool (cfg : Cfg) (s : State) (hd : Handle) (a b : Nat) : (rangeRepr cfg s hd a b).1.pool = s.pool := by
  unfold rangeRepr
  cases hd.repr with
  | inline bs => rfl
  | borrowed a b c => rfl
  | heap o pb off len =>
    simp only
    split
    · rfl
    · split
      · exact incr_pool' cfg s o
      · rfl

theorem makeUnique_srcs (cfg : Cfg) (s : State) (hd : Handle) : (makeUnique cfg s hd).1.srcs = s.srcs := by
  unfold makeUnique
  cases hd.repr with
  | inline bs => rfl
  | borrowed a b c => exact fromSliceRepr_srcs ..
  | heap o pb off len =>
    simp only
    split
    · rfl
    · exact release_srcs ..

theorem makeUnique_pool (cfg : Cfg) (s : State) (hd : Handle) : (makeUnique cfg s hd).1.pool = s.pool := by
  unfold makeUnique
  cases hd.repr with
  | inline bs => rfl
  | borrowed a b c => exact fromSliceRepr_pool ..
  | heap o pb off len =>
    simp only
    split
    · rfl
    · exact release_pool ..

theorem writeView_srcs (s : State) (r : Rep) (f : List UInt8 → List UInt8) : (writeView s r f).1.srcs = s.srcs := by
  unfold writeView
  cases r with
  | inline bs => rfl
  | borrowed a b c => rfl
  | heap o pb off len => simp only; split <;> rfl

theorem writeView_pool (s : State) (r : Rep) (f : List UInt8 → List UInt8) : (writeView s r f).1.pool = s.pool := by
  unfold writeView
  cases r with
  | inline bs => rfl
  | borrowed a b c => rfl
  | heap o pb off len => simp only; split <;> rfl

/-! ### `Built`: a freshly built representation, not yet installed -/

/-- what `install` needs of the state `s1` and the representation `r` built over it: a heap
descriptor's owner is held locally and the descriptor is valid; anything else is a valid
non-heap representation -/
def BuiltWf (cfg : Cfg) (s1 : State) : Rep → Prop
  | .heap o b off len => WfX cfg s1 [o] ∧ ∃ x, getI s1 o = some x ∧ b = x.buf ∧ off + len ≤ x.data.length
  | .inline bs => WfX cfg s1 [] ∧ bs.length ≤ cfg.icap
  | .borrowed src off len => WfX cfg s1 [] ∧ off + len ≤ (s1.srcs[src]?.getD []).length

/-- `(s1, r)` was built from the well-formed `s` without touching the pool; `r` reads `v` and every
pool handle reads what it read before -/
structure Built (cfg : Cfg) (s s1 : State) (r : Rep) (v : List UInt8) : Prop where
  pool : s1.pool = s.pool
  srcs : s1.srcs = s.srcs
  views : ∀ k hd, getH s k = some hd → view s1 hd = view s hd
  view_new : view s1 ⟨r, false⟩ = v
  wf : BuiltWf cfg s1 r

theorem Built.getH_eq {cfg : Cfg} {s s1 : State} {r : Rep} {v : List UInt8} (b : Built cfg s s1 r v) (k : Nat) :
    getH s1 k = getH s k := by unfold getH; rw [b.pool]

theorem Built.wfx {cfg : Cfg} {s s1 : State} {r : Rep} {v : List UInt8} (b : Built cfg s s1 r v) :
    ∃ ex, WfX cfg s1 ex := by
  have := b.wf
  cases r <;> exact ⟨_, this.1⟩

theorem Built.trans {cfg : Cfg} {s s0 s1 : State} {r0 r : Rep} {v0 v : List UInt8}
    (b0 : Built cfg s s0 r0 v0) (b1 : Built cfg s0 s1 r v) : Built cfg s s1 r v :=
  { pool := b1.pool.trans b0.pool, srcs := b1.srcs.trans b0.srcs,
    views := fun k hd hg => (b1.views k hd (by rw [b0.getH_eq]; exact hg)).trans (b0.views k hd hg),
    view_new := b1.view_new, wf := b1.wf }

/-- installing a built representation in a free slot: invariant and abstraction -/
theorem Built.installed {cfg : Cfg} {s s1 : State} {r : Rep} {v : List UInt8} (b : Built cfg s s1 r v)
    {d : Nat} (hfree : slotFree s d = true) (t : Bool) (ret : Ret) (ev : List Event) :
    Wf cfg (install s1 d r t ret ev).1 ∧ abs (install s1 d r t ret ev).1 = (abs s).set d (some v) := by
  obtain ⟨hl, hnone⟩ := slotFree_iff.mp hfree
  have hl1 : d < s1.pool.length := by rw [b.pool]; exact hl
  have hnone1 : getH s1 d = none := by rw [b.getH_eq]; exact hnone
  constructor
  · have hw := b.wf
    cases r with
    | heap o pb off len =>
      obtain ⟨w1, x, hx, hb, hr⟩ := hw
      exact wfx_install_heap w1 hnone1 hl1 hx hb hr _ _ _
    | inline bs =>
      exact wfx_install_nonheap hw.1 hnone1 hl1 _ (by simpa [HandleOk] using hw.2) rfl _ _
    | borrowed a b c =>
      exact wfx_install_nonheap hw.1 hnone1 hl1 _ (by simpa [HandleOk] using hw.2) rfl _ _
  · unfold install ok
    simp only [abs_setH, Option.map_some]
    rw [abs_congr b.pool b.views, view_repr s1 (hd := ⟨r, t⟩) (hd' := ⟨r, false⟩) rfl, b.view_new]

/-- a valid non-heap representation is built over the unchanged state -/
theorem built_inline {cfg : Cfg} {s : State} (w : Wf cfg s) (bs : List UInt8) (h : bs.length ≤ cfg.icap) :
    Built cfg s s (.inline bs) bs :=
  { pool := rfl, srcs := rfl, views := fun _ _ _ => rfl, view_new := rfl,
    wf := ⟨(wf_iff_wfx cfg s).mp w, h⟩ }

theorem built_borrowed {cfg : Cfg} {s : State} (w : Wf cfg s) (src off len : Nat)
    (h : off + len ≤ (s.srcs[src]?.getD []).length) :
    Built cfg s s (.borrowed src off len) (((s.srcs[src]?.getD []).drop off).take len) :=
  { pool := rfl, srcs := rfl, views := fun _ _ _ => rfl, view_new := rfl,
    wf := ⟨(wf_iff_wfx cfg s).mp w, h⟩ }

theorem built_newHeap {cfg : Cfg} {s : State} (w : Wf cfg s) (data : List UInt8) (cap : Nat)
    (hc : data.length ≤ cap) : Built cfg s (newHeap s data cap).1 (newHeap s data cap).2.1 data := by
  obtain ⟨w2, hrep, hnew, _, hpool, hsrcs, _⟩ := wfx_newHeap ((wf_iff_wfx cfg s).mp w) data cap hc
  refine { pool := hpool, srcs := hsrcs, views := fun k hd hg => view_newHeap_old _ _ (w.handles k hd hg),
           view_new := view_newHeap_new s data cap false, wf := ?_ }
  rw [hrep]
  exact ⟨w2, _, hnew, rfl, by simp⟩

/-- one more share of a live owner `o`, for any window inside its data -/
theorem built_incr {cfg : Cfg} {s s1 : State} (w : Wf cfg s) {o : Nat} {x : Inner}
    (hx : getI s o = some x) (hlive : x.live = true) (hi : incr cfg s o = (s1, true))
    (pb off len : Nat) (hb : pb = x.buf) (hr : off + len ≤ x.data.length) :
    Built cfg s s1 (.heap o pb off len) ((x.data.drop off).take len) := by
  have w1 := wfx_incr ((wf_iff_wfx cfg s).mp w) (by intro y hy; rw [hx] at hy; cases hy; exact hlive) hi
  have hv := fun hd => view_incr hi hd
  obtain ⟨_, x', hx', _, rfl⟩ := incr_true hi
  rw [hx] at hx'; cases hx'
  have hnew := getI_setI_same s o { x with count := x.count + 1 } (getI_some_lt hx)
  refine { pool := rfl, srcs := rfl, views := fun k hd _ => hv hd, view_new := ?_, wf := ⟨w1, _, hnew, hb, hr⟩ }
  simp [view, hnew]

theorem built_fromSlice {cfg : Cfg} {s : State} (w : Wf cfg s) (bs : List UInt8) :
    Built cfg s (fromSliceRepr cfg s bs).1 (fromSliceRepr cfg s bs).2.1 bs := by
  unfold fromSliceRepr
  split
  · rename_i h0
    have : bs = [] := List.eq_nil_of_length_eq_zero h0
    subst this
    exact built_inline w [] (Nat.zero_le _)
  · split
    · rename_i h1; exact built_inline w bs h1
    · exact built_newHeap w bs bs.length (Nat.le_refl _)

theorem built_clone {cfg : Cfg} {s : State} (w : Wf cfg s) {hd : Handle} (hok : HandleOk cfg s hd) :
    Built cfg s (cloneRepr cfg s hd).1 (cloneRepr cfg s hd).2.1 (view s hd) := by
  unfold cloneRepr
  unfold HandleOk at hok
  cases hr : hd.repr with
  | inline bs =>
    rw [hr] at hok
    have : view s hd = bs := by simp [view, hr]
    rw [this]; exact built_inline w bs hok
  | borrowed a b c =>
    rw [hr] at hok
    have : view s hd = ((s.srcs[a]?.getD []).drop b).take c := by simp [view, hr]
    rw [this]; exact built_borrowed w a b c hok
  | heap o pb off len =>
    rw [hr] at hok
    obtain ⟨x, hx, hlive, hb, hrng⟩ := hok
    simp only
    cases hi : incr cfg s o with
    | mk s1 done =>
      cases done with
      | true =>
        simp only [if_true]
        have : view s hd = (x.data.drop off).take len := by simp [view, hr, hx]
        rw [this]
        exact built_incr w hx hlive hi pb off len hb hrng
      | false =>
        simp only [Bool.false_eq_true, if_false]
        exact built_newHeap w _ _ (Nat.le_refl _)

theorem built_range {cfg : Cfg} {s : State} (w : Wf cfg s) {hd : Handle} (hok : HandleOk cfg s hd)
    {a b : Nat} (hab : a ≤ b) (hb : b ≤ hlen hd) :
    Built cfg s (rangeRepr cfg s hd a b).1 (rangeRepr cfg s hd a b).2.1 (((view s hd).drop a).take (b - a)) := by
  have hvl := view_length hok
  unfold rangeRepr
  unfold HandleOk at hok
  unfold hlen at hb
  cases hr : hd.repr with
  | inline bs =>
    rw [hr] at hok hb
    have : view s hd = bs := by simp [view, hr]
    rw [this]
    exact built_inline w _ (by simp; omega)
  | borrowed src off len =>
    rw [hr] at hok hb
    simp only at hb
    have : view s hd = ((s.srcs[src]?.getD []).drop off).take len := by simp [view, hr]
    rw [this, window_sub _ _ _ _ _ hb]
    exact built_borrowed w src (off + a) (b - a) (by omega)
  | heap o pb off len =>
    rw [hr] at hok hb
    simp only at hb
    obtain ⟨x, hx, hlive, hpb, hrng⟩ := hok
    simp only
    split
    · rename_i hic
      exact built_inline w _ (by simp; omega)
    · cases hi : incr cfg s o with
      | mk s1 done =>
        cases done with
        | true =>
          simp only [if_true]
          have : view s hd = (x.data.drop off).take len := by simp [view, hr, hx]
          rw [this, window_sub _ _ _ _ _ hb]
          exact built_incr w hx hlive hi pb (off + a) (b - a) hpb (by omega)
        | false =>
          simp only [Bool.false_eq_true, if_false]
          exact built_newHeap w _ _ (by simp; exact Nat.min_le_left _ _)

/-! ### `make_unique` and in-place writes on a built representation -/

/-- the representation can be written through: inline, or a heap descriptor whose owner has no
other share -/
def Owned (s1 : State) : Rep → Prop
  | .inline _ => True
  | .borrowed .. => False
  | .heap o _ _ _ => ∃ x, getI s1 o = some x ∧ x.count = 0

theorem Built.wf_state {cfg : Cfg} {s s1 : State} {bs : List UInt8} {v : List UInt8}
    (b : Built cfg s s1 (.inline bs) v) : Wf cfg s1 := (wf_iff_wfx cfg s1).mpr b.wf.1

theorem Built.handleOk {cfg : Cfg} {s s1 : State} {r : Rep} {v : List UInt8} (b : Built cfg s s1 r v) (t : Bool) :
    HandleOk cfg s1 ⟨r, t⟩ := by
  have hw := b.wf
  unfold HandleOk
  cases r with
  | inline bs => exact hw.2
  | borrowed a b c => exact hw.2
  | heap o pb off len =>
    obtain ⟨w1, x, hx, hb, hr⟩ := hw
    obtain ⟨x', hx', hlive⟩ := w1.held o (List.mem_cons_self ..)
    rw [hx] at hx'; cases hx'
    exact ⟨x, hx, hlive, hb, hr⟩

theorem Built.length {cfg : Cfg} {s s1 : State} {r : Rep} {v : List UInt8} (b : Built cfg s s1 r v) (t : Bool) :
    v.length = hlen ⟨r, t⟩ := by
  rw [← b.view_new, view_repr s1 (hd := ⟨r, false⟩) (hd' := ⟨r, t⟩) rfl]
  exact view_length (b.handleOk t)

theorem owned_newHeap (s : State) (data : List UInt8) (cap : Nat) :
    Owned (newHeap s data cap).1 (newHeap s data cap).2.1 :=
  ⟨_, getI_append_same { s with nextBuf := s.nextBuf + 1 } _, rfl⟩

theorem owned_fromSlice (cfg : Cfg) (s : State) (bs : List UInt8) :
    Owned (fromSliceRepr cfg s bs).1 (fromSliceRepr cfg s bs).2.1 := by
  unfold fromSliceRepr
  split
  · trivial
  · split
    · trivial
    · exact owned_newHeap ..

theorem built_makeUnique {cfg : Cfg} {s s0 : State} {r0 : Rep} {v : List UInt8} (b : Built cfg s s0 r0 v)
    (t : Bool) :
    Built cfg s (makeUnique cfg s0 ⟨r0, t⟩).1 (makeUnique cfg s0 ⟨r0, t⟩).2.1 v ∧
      Owned (makeUnique cfg s0 ⟨r0, t⟩).1 (makeUnique cfg s0 ⟨r0, t⟩).2.1 := by
  have hv : view s0 ⟨r0, t⟩ = v := by
    rw [view_repr s0 (hd := ⟨r0, t⟩) (hd' := ⟨r0, false⟩) rfl]; exact b.view_new
  cases r0 with
  | inline bs => exact ⟨b, trivial⟩
  | borrowed a b' c =>
    have w0 : Wf cfg s0 := (wf_iff_wfx cfg s0).mpr b.wf.1
    have hm : makeUnique cfg s0 ⟨.borrowed a b' c, t⟩ = fromSliceRepr cfg s0 (view s0 ⟨.borrowed a b' c, t⟩) := rfl
    rw [hm, hv]
    exact ⟨b.trans (built_fromSlice w0 v), owned_fromSlice ..⟩
  | heap o pb off len =>
    obtain ⟨w0, x, hx, hpb, hrng⟩ := b.wf
    obtain ⟨x', hx', hlive⟩ := w0.held o (List.mem_cons_self ..)
    rw [hx] at hx'; cases hx'
    by_cases hu : ownerUnique cfg s0 o = true
    · have : makeUnique cfg s0 ⟨.heap o pb off len, t⟩ = (s0, .heap o pb off len, []) := by
        simp [makeUnique, hu]
      rw [this]
      refine ⟨b, x, hx, ?_⟩
      unfold ownerUnique at hu
      cases hb : cfg.backend with
      | unique => exact w0.uniq hb o x hx hlive
      | arc => simpa [hb, hx] using hu
      | rc => simpa [hb, hx] using hu
    · have : makeUnique cfg s0 ⟨.heap o pb off len, t⟩ =
          ((release cfg (newHeap s0 v v.length).1 o).1, (newHeap s0 v v.length).2.1,
            (newHeap s0 v v.length).2.2 ++ (release cfg (newHeap s0 v v.length).1 o).2) := by
        simp [makeUnique, hu, hv]
      rw [this]
      obtain ⟨w1, hrep, hnew, hold, hpool, hsrcs, _⟩ := wfx_newHeap w0 v v.length (Nat.le_refl _)
      have w2 := wfx_release (wfx_swap w1)
      have hne : o ≠ s0.inners.length := by have := getI_some_lt hx; omega
      have hnew2 : getI (release cfg (newHeap s0 v v.length).1 o).1 s0.inners.length = _ :=
        (release_getI_other cfg _ o _ hne).trans hnew
      simp only
      constructor
      · refine { pool := ?_, srcs := ?_, views := ?_, view_new := ?_, wf := ?_ }
        · rw [release_pool, hpool, b.pool]
        · rw [release_srcs, hsrcs, b.srcs]
        · intro k hd hg
          rw [view_release, view_newHeap_old _ _ (w0.handles k hd (by rw [b.getH_eq]; exact hg))]
          exact b.views k hd hg
        · rw [view_release]; exact view_newHeap_new s0 v v.length false
        · rw [hrep]
          exact ⟨w2, _, hnew2, rfl, by simp⟩
      · rw [hrep]; exact ⟨_, hnew2, rfl⟩

theorem built_writeView {cfg : Cfg} {s s1 : State} {r : Rep} {v : List UInt8} (b : Built cfg s s1 r v)
    (ho : Owned s1 r) (f : List UInt8 → List UInt8) (hf : ∀ w, (f w).length = w.length) :
    Built cfg s (writeView s1 r f).1 (writeView s1 r f).2.1 (f v) := by
  cases r with
  | inline bs =>
    have hv : bs = v := b.view_new
    subst hv
    exact { pool := b.pool, srcs := b.srcs, views := b.views, view_new := rfl,
            wf := ⟨b.wf.1, by rw [hf]; exact b.wf.2⟩ }
  | borrowed a b' c => exact absurd ho (by simp [Owned])
  | heap o pb off len =>
    obtain ⟨w1, x, hx, hpb, hrng⟩ := b.wf
    obtain ⟨x', hx', hc⟩ := ho
    rw [hx] at hx'; cases hx'
    have hv : (x.data.drop off).take len = v := by
      rw [← b.view_new]; simp [view, hx]
    have hwl : ((x.data.drop off).take len).length = len := by simp; omega
    have hfl : (f ((x.data.drop off).take len)).length = len := by rw [hf, hwl]
    have hdl := window_write_length x.data _ off len hrng hfl
    have : writeView s1 (.heap o pb off len) f =
        (setI s1 o { x with data := x.data.take off ++ f ((x.data.drop off).take len) ++ x.data.drop (off + len) },
          .heap o pb off len, if len > 0 then [Event.write x.buf off (off + len)] else []) := by
      simp [writeView, hx]
    rw [this]
    simp only
    obtain ⟨x'', hx'', hlive⟩ := w1.held o (List.mem_cons_self ..)
    rw [hx] at hx''; cases hx''
    have w2 := wfx_setData w1 hx hc _ (by rw [hdl]; exact w1.datacap o x hx hlive)
    have hr0 := (held_unique w1 hx hc).1
    have hnew := getI_setI_same s1 o
      { x with data := x.data.take off ++ f ((x.data.drop off).take len) ++ x.data.drop (off + len) }
      (getI_some_lt hx)
    refine { pool := b.pool, srcs := b.srcs, views := ?_, view_new := ?_, wf := ⟨w2, _, hnew, hpb, ?_⟩ }
    · intro k hd hg
      rw [view_setI_unref _ hr0 (by rw [b.getH_eq]; exact hg)]
      exact b.views k hd hg
    · rw [← hv]
      simp only [view, hnew, Option.map_some, Option.getD_some]
      exact window_write x.data _ off len (by omega) hfl
    · simp only; rw [hdl]; exact hrng

/-! ### normalisation of the built representations -/

theorem norm_newHeap (cfg : Cfg) (s : State) (data : List UInt8) (cap : Nat) (t : Bool)
    (h : data.length > cfg.icap) : isNormalized cfg ⟨(newHeap s data cap).2.1, t⟩ = true := by
  show isNormalized cfg ⟨.heap s.inners.length s.nextBuf 0 data.length, t⟩ = true
  simp [isNormalized, isInline, isBorrowed, hlen, h]

theorem norm_fromSlice (cfg : Cfg) (s : State) (bs : List UInt8) (t : Bool) :
    isNormalized cfg ⟨(fromSliceRepr cfg s bs).2.1, t⟩ = true := by
  unfold fromSliceRepr
  split
  · rfl
  · split
    · rfl
    · exact norm_newHeap cfg s bs _ t (by omega)

theorem norm_clone {cfg : Cfg} {s : State} {hd : Handle} (hok : HandleOk cfg s hd) (t : Bool) :
    isNormalized cfg ⟨(cloneRepr cfg s hd).2.1, t⟩ = isNormalized cfg hd := by
  have hvl := view_length hok
  unfold cloneRepr
  cases hr : hd.repr with
  | inline bs => exact isNormalized_repr cfg hr.symm
  | borrowed a b c => exact isNormalized_repr cfg hr.symm
  | heap o pb off len =>
    simp only
    split
    · exact isNormalized_repr cfg hr.symm
    · show isNormalized cfg ⟨.heap s.inners.length s.nextBuf 0 (view s hd).length, t⟩ = _
      rw [hvl]
      simp [isNormalized, isInline, isBorrowed, hlen, hr]

theorem norm_range {cfg : Cfg} {s : State} {hd : Handle} (hok : HandleOk cfg s hd)
    {a b : Nat} (hb : b ≤ hlen hd) (t : Bool) :
    isNormalized cfg ⟨(rangeRepr cfg s hd a b).2.1, t⟩ = true := by
  have hvl := view_length hok
  unfold rangeRepr
  cases hr : hd.repr with
  | inline bs => rfl
  | borrowed src off len => rfl
  | heap o pb off len =>
    simp only
    split
    · rfl
    · split
      · simp [isNormalized, isInline, isBorrowed, hlen]; omega
      · refine norm_newHeap cfg _ _ _ _ ?_
        simp only [List.length_take, List.length_drop, hvl]
        omega

theorem norm_makeUnique {cfg : Cfg} {s s0 : State} {r0 : Rep} {v : List UInt8} (b : Built cfg s s0 r0 v)
    (t t' : Bool) (hn : isNormalized cfg ⟨r0, t⟩ = true) :
    isNormalized cfg ⟨(makeUnique cfg s0 ⟨r0, t⟩).2.1, t'⟩ = true := by
  have hvl : (view s0 ⟨r0, t⟩).length = hlen ⟨r0, t⟩ := view_length (b.handleOk t)
  unfold makeUnique
  cases r0 with
  | inline bs => rfl
  | borrowed a b' c => exact norm_fromSlice ..
  | heap o pb off len =>
    simp only
    split
    · exact hn
    · show isNormalized cfg ⟨(newHeap s0 (view s0 ⟨.heap o pb off len, t⟩) (view s0 ⟨.heap o pb off len, t⟩).length).2.1, t'⟩ = true
      refine norm_newHeap cfg _ _ _ _ ?_
      rw [hvl]
      simpa [isNormalized, isInline, isBorrowed, hlen] using hn

theorem norm_writeView (cfg : Cfg) (s : State) (r : Rep) (f : List UInt8 → List UInt8) (t : Bool) :
    isNormalized cfg ⟨(writeView s r f).2.1, t⟩ = isNormalized cfg ⟨r, t⟩ := by
  unfold writeView
  cases r with
  | inline bs => rfl
  | borrowed a b c => rfl
  | heap o pb off len => simp only; split <;> rfl

end HipVerif.Core.A
