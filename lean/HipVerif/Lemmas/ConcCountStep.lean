import HipVerif.Lemmas.ConcCount

/-!
# C04, counting half: every step of the model preserves `Wf1`
-/

namespace HipVerif.Model.Conc
open HipVerif.Model

theorem canUse_iff {th : Thread} : canUse th = true ↔ 1 ≤ th.handles ∨ th.refs ≠ [] := by
  unfold canUse
  cases hr : th.refs <;> simp <;> omega

theorem canOwn_iff {s : State} {t : Nat} {th : Thread} :
    canOwn s t th = true ↔ 1 ≤ th.handles ∧ pinned s t = false := by
  unfold canOwn
  cases pinned s t <;> simp <;> omega

theorem PcSide.ofUse {pin : Bool} {th : Thread} {pc : Pc} (hk : pc.k = .clone ∨ pc.k = .count)
    (hu : 1 ≤ th.handles ∨ th.refs ≠ []) : PcSide pin th pc := by
  refine ⟨fun _ => hu, ?_, ?_⟩
  · intro h; rcases hk with hk | hk <;> rcases h with h | h <;> rw [hk] at h <;> simp at h
  · intro h1 h2; rcases hk with hk | hk
    · exact absurd hk h1
    · exact absurd hk h2

theorem PcSide.ofOwn {pin : Bool} {th : Thread} {pc : Pc} (hh : 1 ≤ th.handles) (hp : pin = false) :
    PcSide pin th pc := ⟨fun _ => Or.inl hh, fun _ => hh, fun _ _ => hp⟩

theorem PcSide.ofDrop {pin : Bool} {th : Thread} {pc : Pc} (hk : pc.k = .drop) (hp : pin = false) :
    PcSide pin th pc := by
  refine ⟨?_, ?_, fun _ _ => hp⟩ <;> intro h <;> rcases h with h | h <;> rw [hk] at h <;> simp at h

theorem Wf1.startStep {c : Cfg} (sh : Shape c) {s s' : State} (h : Wf1 c s) {t : Nat} {a : Action}
    (hs : startStep c s t a = some s') : Wf1 c s' := by
  unfold Conc.startStep at hs
  split at hs
  · simp at hs
  rename_i th ht
  split at hs
  · simp at hs
  rename_i hidle
  have hpc : th.pc = none := by simpa using hidle
  cases a <;> simp only at hs <;> split at hs <;> try (simp at hs; done)
  all_goals rename_i hcan
  all_goals simp only [Option.some.injEq] at hs
  all_goals subst hs
  · -- read
    refine h.upd ht rfl rfl rfl rfl ?_ (Nat.le_refl _) rfl (fun hh => Or.inl hh) ?_ ?_ ?_
    · simp [owned, hpc]
    · intro he; simp [excl, hpc] at he
    · intro he; simp [excl, hpc] at he
    · intro pc hp; simp [hpc] at hp
  · -- clone
    refine h.upd ht rfl rfl rfl rfl ?_ (Nat.le_refl _) rfl (fun hh => Or.inl hh) ?_ ?_ ?_
    · simp [owned, inflight, hpc, sh.hincr, norm, localRet]
    · intro he; simp [excl] at he
    · intro he; simp [excl, hpc] at he
    · intro pc hp
      simp at hp; subst hp
      exact ⟨Or.inl (by simp [sh.hincr, norm]), PcSide.ofUse (Or.inl rfl) (canUse_iff.1 hcan)⟩
  · -- drop
    obtain ⟨hh, hnp⟩ := canOwn_iff.1 hcan
    refine h.upd ht rfl rfl rfl rfl ?_ (Nat.le_refl _) rfl (fun _ => Or.inr hnp) ?_ ?_ ?_
    · simp [owned, inflight, hpc, sh.hdecr, norm, localRet]; omega
    · intro he; simp [excl, sh.hdecr, norm, localRet] at he
    · intro he; simp [excl, hpc] at he
    · intro pc hp
      simp at hp; subst hp
      exact ⟨Or.inl (by simp [sh.hdecr, norm]), PcSide.ofDrop rfl hnp⟩
  · -- mutate
    obtain ⟨hh, hnp⟩ := canOwn_iff.1 hcan
    refine h.upd ht rfl rfl rfl rfl ?_ (Nat.le_refl _) rfl (fun hh => Or.inl hh) ?_ ?_ ?_
    · simp [owned, inflight, hpc]
    · intro he; simp [excl, sh.huniq, norm, localRet] at he
    · intro he; simp [excl, hpc] at he
    · intro pc hp
      simp at hp; subst hp
      exact ⟨Or.inl (by simp [sh.huniq, norm]), PcSide.ofOwn hh hnp⟩
  · -- unwrap
    obtain ⟨hh, hnp⟩ := canOwn_iff.1 hcan
    refine h.upd ht rfl rfl rfl rfl ?_ (Nat.le_refl _) rfl (fun hh => Or.inl hh) ?_ ?_ ?_
    · simp [owned, inflight, hpc]
    · intro he; simp [excl, sh.huniq, norm, localRet] at he
    · intro he; simp [excl, hpc] at he
    · intro pc hp
      simp at hp; subst hp
      exact ⟨Or.inl (by simp [sh.huniq, norm]), PcSide.ofOwn hh hnp⟩
  · -- count
    refine h.upd ht rfl rfl rfl rfl ?_ (Nat.le_refl _) rfl (fun hh => Or.inl hh) ?_ ?_ ?_
    · simp [owned, inflight, hpc]
    · intro he; simp [excl] at he
    · intro he; simp [excl, hpc] at he
    · intro pc hp
      simp at hp; subst hp
      exact ⟨Or.inl (by simp [sh.hget, norm]), PcSide.ofUse (Or.inr rfl) (canUse_iff.1 hcan)⟩

theorem Wf1.sendStep {c : Cfg} {s s' : State} (h : Wf1 c s) {t u : Nat}
    (hs : sendStep s t u = some s') : Wf1 c s' := by
  unfold Conc.sendStep at hs
  split at hs
  · rename_i th uh ht hu
    split at hs
    · simp at hs
    · rename_i hc
      simp at hc
      obtain ⟨⟨⟨htu, hpt⟩, hpu⟩, hcan'⟩ := hc
      obtain ⟨hh, hnp⟩ := canOwn_iff.1 hcan'
      simp only [Option.some.injEq] at hs
      subst hs
      exact h.send ht hu htu hpt hpu hh hnp _ _ _ rfl rfl
  · simp at hs

theorem Wf1.borrowStep {c : Cfg} {s s' : State} (h : Wf1 c s) {t u : Nat}
    (hs : borrowStep s t u = some s') : Wf1 c s' := by
  unfold Conc.borrowStep at hs
  split at hs
  · rename_i th uh ht hu
    split at hs
    · simp at hs
    · rename_i hc
      simp at hc
      obtain ⟨⟨⟨htu, hpt⟩, hpu⟩, hh⟩ := hc
      simp only [Option.some.injEq] at hs
      subst hs
      exact h.borrow ht hu htu hpt hpu (by omega) _ _ rfl
  · simp at hs

theorem Wf1.unborrowStep {c : Cfg} {s s' : State} (h : Wf1 c s) {t u : Nat}
    (hs : unborrowStep s t u = some s') : Wf1 c s' := by
  unfold Conc.unborrowStep at hs
  split at hs
  · rename_i th uh ht hu
    split at hs
    · simp at hs
    · rename_i hc
      simp at hc
      obtain ⟨⟨⟨htu, hpt⟩, hpu⟩, hm'⟩ := hc
      simp only [Option.some.injEq] at hs
      subst hs
      exact h.unborrow ht hu htu hpt hpu hm' _ _ _ rfl rfl
  · simp at hs

/-- Return of a method that neither frees nor changes the owned handles. -/
theorem Wf1.retStep {c : Cfg} {s s' : State} (h : Wf1 c s) {t : Nat} {th th' : Thread}
    (ht : s.thr[t]? = some th) (hthr : s'.thr = s.thr.set t th') (hhist : s'.hist = s.hist)
    (hlast : s'.last = s.last) (hfreed : s'.freed = s.freed)
    (hown : owned th' = owned th) (hcoh : th'.coh = th.coh) (hpc : th'.pc = none)
    (hrefs : th'.refs = th.refs) (hhand : th.handles ≤ th'.handles)
    (hunexcl : excl th = true → 1 ≤ owned th) : Wf1 c s' := by
  refine h.upd ht hthr hhist hlast hfreed hown (by omega) hrefs (fun hh => Or.inl (by omega)) ?_ ?_ ?_
  · intro he; simp [excl, hpc] at he
  · intro he _; exact hunexcl he
  · intro pc hp; simp [hpc] at hp

theorem Wf1.microStep {c : Cfg} (sh : Shape c) {s s' : State} (h : Wf1 c s) {t ch : Nat}
    (hs : microStep c s t ch = some s') : Wf1 c s' := by
  unfold Conc.microStep at hs
  split at hs
  · simp at hs
  rename_i th ht
  split at hs
  · simp at hs
  rename_i pc hpc
  obtain ⟨k, code, old⟩ := pc
  obtain ⟨hok, hside⟩ := h.pcok t th _ ht hpc
  cases k
  · -- clone
    simp only [PcOk, sh.hincr, List.tail] at hok
    rcases hok with rfl | rfl | hl | hl
    · -- the initial load
      dsimp only at hs
      split at hs
      · rename_i hch
        simp only [Option.some.injEq] at hs; subst hs
        refine h.upd ht rfl rfl rfl rfl ?_ (by simpa using hch.1) (by simp) (fun hh => Or.inl (by simpa using hh)) ?_ ?_ ?_
        · simp [owned, inflight, hpc, norm, localRet]
        · intro he; simp [excl] at he
        · intro he; simp [excl, hpc] at he
        · intro pc hp
          simp at hp; subst hp
          exact ⟨Or.inr (Or.inl (by simp [sh.hincr, norm])), hside.congr rfl (by simp) (by simp) id⟩
      · simp at hs
    · -- the CAS loop
      dsimp only at hs
      split at hs
      · rename_i hlt
        split at hs
        · -- success
          split at hs
          · rename_i hval
            simp only [Option.some.injEq] at hs; subst hs
            exact h.casSucc ht hpc (by simp [localRet]) hval
              (Nat.lt_of_lt_of_le hlt sh.hbound) _
          · simp at hs
        · -- failure: a load
          split at hs
          · rename_i i hch
            simp only [Option.some.injEq] at hs; subst hs
            refine h.upd ht rfl rfl rfl rfl ?_ (by simpa using hch.1) (by simp) (fun hh => Or.inl (by simpa using hh)) ?_ ?_ ?_
            · simp [owned, inflight, hpc, localRet]
            · intro he; simp [excl] at he
            · intro he; simp [excl, hpc] at he
            · intro pc hp
              simp at hp; subst hp
              exact ⟨Or.inr (Or.inl (by simp [sh.hincr])), hside.congr rfl (by simp) (by simp) id⟩
          · simp at hs
      · -- loop exit
        split at hs
        · simp only [Option.some.injEq] at hs; subst hs
          refine h.upd ht rfl rfl rfl rfl ?_ (Nat.le_refl _) (by simp) (fun hh => Or.inl (by simpa using hh)) ?_ ?_ ?_
          · simp [owned, inflight, hpc, norm, localRet]
          · intro he; simp [excl] at he
          · intro he; simp [excl, hpc] at he
          · intro pc hp
            simp at hp; subst hp
            exact ⟨Or.inr (Or.inr (Or.inr (by simp [norm, localRet]))), hside.congr rfl (by simp) (by simp) id⟩
        · simp at hs
    · -- CAS succeeded, local code returning `Done`
      rcases localRet_cases hl with ⟨tl, rfl⟩ | ⟨o, rest, rfl, hr⟩
      · dsimp only at hs
        split at hs
        · simp only [finish, Option.some.injEq] at hs; subst hs
          refine h.retStep ht rfl rfl rfl rfl ?_ rfl rfl (by simp) (by simp) ?_
          · simp [owned, inflight, hpc, localRet]
          · intro he; simp [excl, hpc] at he
        · simp at hs
      · dsimp only at hs
        split at hs
        · simp only [Option.some.injEq] at hs; subst hs
          exact h.fenceStep sh ht hpc _
        · simp at hs
    · -- loop left, local code returning `Overflow`
      rcases localRet_cases hl with ⟨tl, rfl⟩ | ⟨o, rest, rfl, hr⟩
      · dsimp only at hs
        split at hs
        · simp only [finish, Option.some.injEq] at hs; subst hs
          refine h.retStep ht rfl rfl rfl rfl ?_ rfl rfl (by simp) (by simp) ?_
          · simp [owned, inflight, hpc, localRet]
          · intro he; simp [excl, hpc] at he
        · simp at hs
      · dsimp only at hs
        split at hs
        · simp only [Option.some.injEq] at hs; subst hs
          exact h.fenceStep sh ht hpc _
        · simp at hs
  · -- drop
    simp only [PcOk, sh.hdecr] at hok
    rcases hok with rfl | hl | hl
    · -- the decrement
      dsimp only at hs
      split at hs
      · simp only [Option.some.injEq] at hs; subst hs
        refine h.rmwSub ht hpc (by simp [localRet]) _ _ ?_
        simp only [norm, Cmp.eval, Bound.eval]
        by_cases hv : s.last.val = 0
        · simp [hv, localRet_armCode _ _ sh.hdthn]
        · simp [hv, localRet_armCode _ _ sh.hdels]
      · simp at hs
    · -- returning `Overflow`: free
      rcases localRet_cases hl with ⟨tl, rfl⟩ | ⟨o, rest, rfl, hr⟩
      · dsimp only at hs
        split at hs
        · simp only [finish, Option.some.injEq] at hs; subst hs
          have hx : excl th = true := by simp [excl, hpc, localRet]
          have hown := (h.X t th ht hx).2.1
          refine h.free ht hx rfl rfl ?_ rfl (by simp)
          simp [owned, inflight, hpc, localRet, exclOwn] at hown
          simp [owned, inflight, hown]
        · simp at hs
      · dsimp only at hs
        split at hs
        · simp only [Option.some.injEq] at hs; subst hs
          exact h.fenceStep sh ht hpc _
        · simp at hs
    · -- returning `Done`
      rcases localRet_cases hl with ⟨tl, rfl⟩ | ⟨o, rest, rfl, hr⟩
      · dsimp only at hs
        split at hs
        · simp only [finish, Option.some.injEq] at hs; subst hs
          refine h.retStep ht rfl rfl rfl rfl ?_ rfl rfl (by simp) (by simp) ?_
          · simp [owned, inflight, hpc, localRet]
          · intro he; simp [excl, hpc, localRet] at he
        · simp at hs
      · dsimp only at hs
        split at hs
        · simp only [Option.some.injEq] at hs; subst hs
          exact h.fenceStep sh ht hpc _
        · simp at hs
  · -- mutate
    simp only [PcOk, sh.huniq] at hok
    rcases hok with rfl | ⟨b, hl⟩
    · -- the load of `is_unique`
      dsimp only at hs
      split at hs
      · rename_i hch
        simp only [Option.some.injEq] at hs; subst hs
        have hh1 : 1 ≤ th.handles := hside.2.1 (by simp)
        have hownth : owned th = th.handles := by simp [owned, inflight, hpc]
        refine h.upd ht rfl rfl rfl rfl ?_ (by simpa using hch.1) (by simp) (fun hh => Or.inl (by simpa using hh)) ?_ ?_ ?_
        · simp [owned, inflight, hpc]
        · intro he
          right
          simp only [excl, norm, Cmp.eval, Bound.eval] at he
          by_cases hv : (s.msgAt ch).val = 0
          · -- a `0` was read: it is the last message and there is one handle
            have hlast : s.msgAt ch = s.last := by
              unfold State.msgAt
              cases hm : s.hist[ch]? with
              | none => rfl
              | some m =>
                exfalso
                simp [State.msgAt, hm] at hv
                have hnp : pinned s t = false := hside.2.2 (by simp) (by simp)
                rcases h.J ch m hm hv t th ht (by omega) with h1 | ⟨w, wh, hw, hmem, _⟩
                · omega
                · exact not_mem_of_not_pinned hnp hw hmem
            rw [hlast] at hv
            have hle := owned_le_total s t th ht
            have htr := h.track (by omega)
            refine ⟨by simp [excl, hpc, localRet], by omega, by omega, by simp [exclOwn]⟩
          · simp [hv, localRet_armCode _ _ sh.huels] at he
        · intro he; simp [excl, hpc, localRet] at he
        · intro pc hp
          simp at hp; subst hp
          refine ⟨Or.inr ?_, hside.congr rfl (by simp) (by simp) id⟩
          simp only [norm]
          split
          · exact ⟨_, localRet_armCode _ _ sh.huthn⟩
          · exact ⟨_, localRet_armCode _ _ sh.huels⟩
      · simp at hs
    · rcases localRet_cases hl with ⟨tl, rfl⟩ | ⟨o, rest, rfl, hr⟩
      · dsimp only at hs
        split at hs
        · cases b <;> simp only [finish, Option.some.injEq] at hs <;> subst hs
          · refine h.retStep ht rfl rfl rfl rfl ?_ rfl rfl (by simp) (by simp) ?_
            · simp [owned, inflight, hpc]
            · intro he; simp [excl, hpc, localRet] at he
          · refine h.retStep ht rfl rfl rfl rfl ?_ rfl rfl (by simp) (by simp) ?_
            · simp [owned, inflight, hpc]
            · intro _
              have hh1 : 1 ≤ th.handles := hside.2.1 (by simp)
              simp [owned]; omega
        · simp at hs
      · dsimp only at hs
        split at hs
        · simp only [Option.some.injEq] at hs; subst hs
          exact h.fenceStep sh ht hpc _
        · simp at hs
  · -- unwrap
    simp only [PcOk, sh.huniq] at hok
    rcases hok with rfl | ⟨b, hl⟩
    · dsimp only at hs
      split at hs
      · rename_i hch
        simp only [Option.some.injEq] at hs; subst hs
        have hh1 : 1 ≤ th.handles := hside.2.1 (by simp)
        have hownth : owned th = th.handles := by simp [owned, inflight, hpc]
        refine h.upd ht rfl rfl rfl rfl ?_ (by simpa using hch.1) (by simp) (fun hh => Or.inl (by simpa using hh)) ?_ ?_ ?_
        · simp [owned, inflight, hpc]
        · intro he
          right
          simp only [excl, norm, Cmp.eval, Bound.eval] at he
          by_cases hv : (s.msgAt ch).val = 0
          · have hlast : s.msgAt ch = s.last := by
              unfold State.msgAt
              cases hm : s.hist[ch]? with
              | none => rfl
              | some m =>
                exfalso
                simp [State.msgAt, hm] at hv
                have hnp : pinned s t = false := hside.2.2 (by simp) (by simp)
                rcases h.J ch m hm hv t th ht (by omega) with h1 | ⟨w, wh, hw, hmem, _⟩
                · omega
                · exact not_mem_of_not_pinned hnp hw hmem
            rw [hlast] at hv
            have hle := owned_le_total s t th ht
            have htr := h.track (by omega)
            refine ⟨by simp [excl, hpc, localRet], by omega, by omega, by simp [exclOwn]⟩
          · simp [hv, localRet_armCode _ _ sh.huels] at he
        · intro he; simp [excl, hpc, localRet] at he
        · intro pc hp
          simp at hp; subst hp
          refine ⟨Or.inr ?_, hside.congr rfl (by simp) (by simp) id⟩
          simp only [norm]
          split
          · exact ⟨_, localRet_armCode _ _ sh.huthn⟩
          · exact ⟨_, localRet_armCode _ _ sh.huels⟩
      · simp at hs
    · rcases localRet_cases hl with ⟨tl, rfl⟩ | ⟨o, rest, rfl, hr⟩
      · dsimp only at hs
        split at hs
        · cases b <;> simp only [finish, Option.some.injEq] at hs <;> subst hs
          · refine h.retStep ht rfl rfl rfl rfl ?_ rfl rfl (by simp) (by simp) ?_
            · simp [owned, inflight, hpc]
            · intro he; simp [excl, hpc, localRet] at he
          · have hx : excl th = true := by simp [excl, hpc, localRet]
            have hown := (h.X t th ht hx).2.1
            refine h.free ht hx rfl rfl ?_ rfl (by simp)
            simp [owned, inflight, hpc, exclOwn] at hown
            simp [owned, inflight, hown]
        · simp at hs
      · dsimp only at hs
        split at hs
        · simp only [Option.some.injEq] at hs; subst hs
          exact h.fenceStep sh ht hpc _
        · simp at hs
  · -- count
    simp only [PcOk, sh.hget] at hok
    rcases hok with rfl | ⟨b, hl⟩
    · dsimp only at hs
      split at hs
      · rename_i hch
        simp only [Option.some.injEq] at hs; subst hs
        refine h.upd ht rfl rfl rfl rfl ?_ (by simpa using hch.1) (by simp) (fun hh => Or.inl (by simpa using hh)) ?_ ?_ ?_
        · simp [owned, inflight, hpc]
        · intro he; simp [excl] at he
        · intro he; simp [excl, hpc] at he
        · intro pc hp
          simp at hp; subst hp
          exact ⟨Or.inr ⟨sh.gk, by simp [norm, localRet]⟩, hside.congr rfl (by simp) (by simp) id⟩
      · simp at hs
    · rcases localRet_cases hl with ⟨tl, rfl⟩ | ⟨o, rest, rfl, hr⟩
      · dsimp only at hs
        split at hs
        · simp only [finish, Option.some.injEq] at hs; subst hs
          refine h.retStep ht rfl rfl rfl rfl ?_ rfl rfl (by simp) (by simp) ?_
          · simp [owned, inflight, hpc]
          · intro he; simp [excl, hpc] at he
        · simp at hs
      · dsimp only at hs
        split at hs
        · simp only [Option.some.injEq] at hs; subst hs
          exact h.fenceStep sh ht hpc _
        · simp at hs

/-- Every step of the model preserves the counting invariant. -/
theorem Wf1.step {c : Cfg} (sh : Shape c) {s s' : State} (h : Wf1 c s) (l : Label)
    (hs : step c s l = some s') : Wf1 c s' := by
  cases l with
  | start t a => exact h.startStep sh hs
  | micro t ch => exact h.microStep sh hs
  | send t u => exact h.sendStep hs
  | borrow t u => exact h.borrowStep hs
  | unborrow t u => exact h.unborrowStep hs

theorem owned_init (n : Nat) : owned (Thread.init n) = n := by simp [owned, inflight, Thread.init]

theorem total_init (hs : List Nat) : total (init hs) = hs.sum := by
  simp only [total, init, List.map_map]
  congr 1
  induction hs with
  | nil => rfl
  | cons a l ih => simp [owned_init, ih]

/-- The initial states satisfy the counting invariant. -/
theorem Wf1.init {c : Cfg} (hs : List Nat) (h1 : 1 ≤ hs.sum) (h2 : hs.sum ≤ c.ceil + 1) :
    Wf1 c (init hs) := by
  have hpcn : ∀ (t : Nat) th, (Conc.init hs).thr[t]? = some th → th.pc = none := by
    intro t th ht
    simp only [Conc.init, List.getElem?_map, Option.map_eq_some_iff] at ht
    obtain ⟨n, _, rfl⟩ := ht
    rfl
  refine ⟨?_, ?_, ?_, ?_, ?_, ?_, ?_, ?_⟩
  · intro _; rw [total_init]; simp [Conc.init]; omega
  · intro _; simp [Conc.init]; omega
  · intro i m hi; simp [Conc.init] at hi
  · intro t th pc ht hp; rw [hpcn t th ht] at hp; simp at hp
  · intro w wh u hw hm
    simp only [Conc.init, List.getElem?_map, Option.map_eq_some_iff] at hw
    obtain ⟨n, _, rfl⟩ := hw
    simp [Thread.init] at hm
  · intro t th ht he; simp [excl, hpcn t th ht] at he
  · simp [Conc.init]
  · rw [total_init]; intro h0; omega

/-- `Wf1` holds after every schedule. -/
theorem Wf1.run {c : Cfg} (sh : Shape c) {s s' : State} (h : Wf1 c s) (ls : List Label)
    (hr : run c s ls = some s') : Wf1 c s' := by
  induction ls generalizing s with
  | nil => simp [Conc.run] at hr; subst hr; exact h
  | cons l ls ih =>
    simp only [Conc.run] at hr
    split at hr
    · simp at hr
    · rename_i s1 hs1
      exact ih (h.step sh l hs1) hr

end HipVerif.Model.Conc
