/-
  UTF-8 theory for property C06 ("HipStr is always well-formed UTF-8").

  Everything here is about the byte-level model of `HipVerif/Model/Utf8.lean` and holds for
  EVERY byte list (no length bound).  Main results:

  * `valid_append`, `valid_append_left_eq`, `valid_of_append_left/right`   (push_str, concat)
  * `valid_split_iff_boundary` (KEY), `valid_take_iff_boundary`, `valid_drop_iff_boundary`,
    `valid_take_of_boundary`, `valid_drop_of_boundary`, `valid_slice_of_boundaries`
                                                        (slice, try_slice, truncate, split_off)
  * `boundary_of_valid_window`                         (slice_ref / adoption of std pieces)
  * `valid_encode`, `encode_decode`, `decode_encode`   (push, pop's returned char)
  * `lastCharStart_spec`, `lastCharStart_append_scalar` (pop)
  * `AsciiOnly.valid_map`, `valid_map_asciiLower/Upper`, `isBoundary_map_asciiLower/Upper`
  * `valid_flatten`, `valid_replicate_flatten`, `valid_intercalate`   (concat, repeat, join)
  * `validUpTo_le`, `valid_take_validUpTo`, `valid_iff_validUpTo`     (from_utf8 errors)
  * `valid_decodeLossy`, `decodeLossy_of_valid`        (from_utf8_lossy)

  Normal form: all Bool-valued model functions (`valid`, `isBoundary`, `isCont`, `isScalar`,
  `isScalarEnc`, `secondOk`) appear in statements as `f x = true` / `f x = false` (which is what
  a coercion `(h : valid s)` elaborates to, so such hypotheses can be passed directly);
  equalities between Bools are used when both directions hold (`valid (a ++ b) = valid b`).

  Proof architecture: `firstCharLen` (Table 3-7) is the only place where the byte classes are
  inspected; five facts about it (`firstCharLen_le_length`, `firstCharLen_le_four`,
  `firstCharLen_take_append`, `head_not_cont`, `cont_inside`) feed `valid_step` and the
  induction principle `valid_induction` (peel one scalar at a time); everything else is generic
  reasoning about a prefix code whose non-first bytes are continuation bytes.
-/
import HipVerif.Lemmas.Byte

namespace HipVerif.Utf8

/-! ## `firstCharLen`: the five primitive facts -/

@[simp] theorem firstCharLen_nil : firstCharLen [] = 0 := rfl

theorem firstCharLen_le_length (s : List UInt8) : firstCharLen s ≤ s.length := by
  unfold firstCharLen
  split
  · simp
  · split <;> (try split) <;> simp

theorem firstCharLen_le_four (s : List UInt8) : firstCharLen s ≤ 4 := by
  unfold firstCharLen
  split
  · simp
  · split <;> (try split) <;> simp

/-- `firstCharLen` only looks at the bytes of the first scalar. -/
theorem firstCharLen_take_append (s x : List UInt8) (h : firstCharLen s ≠ 0) :
    firstCharLen (s.take (firstCharLen s) ++ x) = firstCharLen s := by
  unfold firstCharLen at h ⊢
  split at h
  · simp at h
  · split at h
    all_goals (try split at h)
    all_goals simp_all

theorem ne_nil_of_firstCharLen_ne_zero {s : List UInt8} (h : firstCharLen s ≠ 0) : s ≠ [] := by
  intro e; subst e; simp at h

theorem firstCharLen_append (s x : List UInt8) (h : firstCharLen s ≠ 0) :
    firstCharLen (s ++ x) = firstCharLen s := by
  have := firstCharLen_take_append s (s.drop (firstCharLen s) ++ x) h
  rwa [← List.append_assoc, List.take_append_drop] at this

theorem firstCharLen_take (s : List UInt8) (k : Nat) (h : firstCharLen s ≠ 0)
    (hk : firstCharLen s ≤ k) : firstCharLen (s.take k) = firstCharLen s := by
  have := firstCharLen_take_append s ((s.drop (firstCharLen s)).take (k - firstCharLen s)) h
  rw [← this]
  congr 1
  rw [List.take_drop]
  have : firstCharLen s + (k - firstCharLen s) = k := by omega
  rw [this]
  conv => lhs; rw [← List.take_append_drop (firstCharLen s) (s.take k)]
  rw [List.take_take, Nat.min_eq_left hk, List.drop_take]

/-- The head of a well-formed scalar is not a continuation byte. -/
theorem head_not_cont {s : List UInt8} (h : firstCharLen s ≠ 0) : isCont (s[0]?.getD 0) = false := by
  unfold firstCharLen at h
  split at h
  · simp at h
  · rename_i b0 t
    apply isCont_false_of_leadLen_ne_zero
    simp only [List.getElem?_cons_zero, Option.getD_some]
    intro h0
    rw [h0] at h
    simp at h

/-- Every non-first byte of a well-formed scalar is a continuation byte. -/
theorem cont_inside {s : List UInt8} {i : Nat} (h0 : 0 < i) (h : i < firstCharLen s) :
    isCont (s[i]?.getD 0) = true := by
  unfold firstCharLen at h
  split at h
  · simp at h
  · split at h
    all_goals (try split at h)
    all_goals (try (simp at h; done))
    all_goals (try omega)
    all_goals
      have hi : i = 1 ∨ i = 2 ∨ i = 3 := by omega
      rename_i hc
      (try simp only [Bool.and_eq_true] at hc)
      rcases hi with rfl | rfl | rfl
    all_goals first
      | omega
      | (simp
         first
          | exact isCont_of_secondOk hc
          | exact isCont_of_secondOk hc.1
          | exact isCont_of_secondOk hc.1.1
          | exact hc.2
          | exact hc.1.2)

/-! ## `valid`: unfolding, induction principle -/

theorem validFuel_congr : ∀ (f g : Nat) (s : List UInt8), s.length ≤ f → s.length ≤ g →
    validFuel f s = validFuel g s := by
  intro f
  induction f with
  | zero =>
    intro g s hf hg
    have : s = [] := List.eq_nil_of_length_eq_zero (by omega)
    subst this
    cases g <;> rfl
  | succ f ih =>
    intro g s hf hg
    cases s with
    | nil => cases g <;> rfl
    | cons b t =>
      cases g with
      | zero => simp at hg
      | succ g =>
        simp only [validFuel]
        split
        · rfl
        · rename_i n hn
          have h1 := firstCharLen_le_length (b :: t)
          have hpos : firstCharLen (b :: t) ≠ 0 := by intro e; exact hn e
          simp only [List.length_cons] at h1 hf hg
          apply ih
          · simp only [List.length_drop, List.length_cons]; omega
          · simp only [List.length_drop, List.length_cons]; omega

@[simp] theorem valid_nil : valid [] = true := rfl

/-- One unfolding step of `valid`: peel the first scalar. -/
theorem valid_step (s : List UInt8) (h : s ≠ []) :
    valid s = (firstCharLen s != 0 && valid (s.drop (firstCharLen s))) := by
  cases s with
  | nil => exact absurd rfl h
  | cons b t =>
    simp only [valid, List.length_cons, validFuel]
    split
    · rename_i h0; simp [h0]
    · rename_i n hn
      have h1 := firstCharLen_le_length (b :: t)
      have hpos : firstCharLen (b :: t) ≠ 0 := by intro e; exact hn e
      have hne : (firstCharLen (b :: t) != 0) = true := by simpa using hpos
      rw [hne, Bool.true_and]
      simp only [List.length_cons] at h1
      apply validFuel_congr
      · simp only [List.length_drop, List.length_cons]; omega
      · exact Nat.le_refl _

theorem valid_iff_step (s : List UInt8) :
    valid s = true ↔ s = [] ∨ (firstCharLen s ≠ 0 ∧ valid (s.drop (firstCharLen s)) = true) := by
  by_cases h : s = []
  · subst h; simp
  · rw [valid_step s h]; simp [h]

/-- A valid non-empty string starts with a well-formed scalar. -/
theorem firstCharLen_ne_zero_of_valid {s : List UInt8} (hv : valid s = true) (h : s ≠ []) :
    firstCharLen s ≠ 0 := by
  rw [valid_iff_step] at hv
  rcases hv with hv | hv
  · exact absurd hv h
  · exact hv.1

theorem firstCharLen_pos_of_valid {s : List UInt8} (hv : valid s = true) (h : s ≠ []) :
    0 < firstCharLen s := Nat.pos_of_ne_zero (firstCharLen_ne_zero_of_valid hv h)

theorem valid_drop_firstCharLen {s : List UInt8} (hv : valid s = true) :
    valid (s.drop (firstCharLen s)) = true := by
  rw [valid_iff_step] at hv
  rcases hv with hv | hv
  · subst hv; rfl
  · exact hv.2

/-- `c` is one scalar: unfolding of `isScalarEnc`. -/
theorem isScalarEnc_iff (c : List UInt8) :
    isScalarEnc c = true ↔ c ≠ [] ∧ firstCharLen c = c.length := by
  simp [isScalarEnc]

theorem isScalarEnc_take_firstCharLen {s : List UInt8} (h : firstCharLen s ≠ 0) :
    isScalarEnc (s.take (firstCharLen s)) = true := by
  rw [isScalarEnc_iff]
  have hl := firstCharLen_le_length s
  have ht := firstCharLen_take s (firstCharLen s) h (Nat.le_refl _)
  refine ⟨?_, ?_⟩
  · intro e
    rw [e] at ht
    exact h ht.symm
  · rw [ht, List.length_take, Nat.min_eq_left hl]

/-- Peeling a scalar `c` off the front: `valid (c ++ x) = valid x`. -/
theorem valid_scalar_append {c : List UInt8} (hc : isScalarEnc c = true) (x : List UInt8) :
    valid (c ++ x) = valid x := by
  rw [isScalarEnc_iff] at hc
  obtain ⟨hne, hlen⟩ := hc
  have h0 : firstCharLen c ≠ 0 := by
    rw [hlen]; intro e; exact hne (List.eq_nil_of_length_eq_zero e)
  have hcx : c ++ x ≠ [] := by simp [hne]
  rw [valid_step _ hcx, firstCharLen_append c x h0, hlen]
  have : (c.length != 0) = true := by rw [← hlen]; simpa using h0
  rw [this, Bool.true_and, List.drop_left]

/-- One well-formed scalar is a valid string. -/
theorem valid_of_isScalarEnc {c : List UInt8} (hc : isScalarEnc c = true) : valid c = true := by
  have := valid_scalar_append hc []
  simpa using this

/-- Induction over the scalars of a valid string. -/
theorem valid_induction {motive : List UInt8 → Prop} (nil : motive [])
    (step : ∀ c r, isScalarEnc c = true → valid r = true → motive r → motive (c ++ r)) :
    ∀ s, valid s = true → motive s := by
  intro s
  generalize hn : s.length = n
  induction n using Nat.strongRecOn generalizing s with
  | _ n ih =>
    intro hv
    by_cases hs : s = []
    · subst hs; exact nil
    · have h0 := firstCharLen_ne_zero_of_valid hv hs
      have hd := valid_drop_firstCharLen hv
      have hl := firstCharLen_le_length s
      have := step (s.take (firstCharLen s)) (s.drop (firstCharLen s))
        (isScalarEnc_take_firstCharLen h0) hd
        (ih (s.drop (firstCharLen s)).length (by rw [List.length_drop]; omega) _ rfl hd)
      rwa [List.take_append_drop] at this
/-! ## Concatenation and cancellation -/

/-- Prepending a valid string does not change validity of the rest. -/
theorem valid_append_left_eq {a : List UInt8} (ha : valid a = true) (b : List UInt8) :
    valid (a ++ b) = valid b := by
  revert ha
  refine valid_induction (motive := fun a => valid (a ++ b) = valid b) ?_ ?_ a
  · rfl
  · intro c r hc _ ih
    rw [List.append_assoc, valid_scalar_append hc, ih]

/-- `push_str`, `concat`: the concatenation of valid strings is valid. -/
theorem valid_append {a b : List UInt8} (ha : valid a = true) (hb : valid b = true) :
    valid (a ++ b) = true := by
  rw [valid_append_left_eq ha, hb]

/-- Left cancellation: a valid prefix leaves a valid rest. -/
theorem valid_of_append_left {a b : List UInt8} (hab : valid (a ++ b) = true)
    (ha : valid a = true) : valid b = true := by
  rwa [valid_append_left_eq ha] at hab

theorem valid_append_iff_of_left {a b : List UInt8} (ha : valid a = true) :
    valid (a ++ b) = true ↔ valid b = true := by
  rw [valid_append_left_eq ha]

/-! ## Char boundaries -/

@[simp] theorem boundary_zero (s : List UInt8) : isBoundary s 0 = true := by
  simp [isBoundary]

@[simp] theorem boundary_len (s : List UInt8) : isBoundary s s.length = true := by
  simp [isBoundary]

theorem not_boundary_gt_len {s : List UInt8} {i : Nat} (h : s.length < i) :
    isBoundary s i = false := by
  have h1 : i ≠ 0 := by omega
  have h2 : i ≥ s.length := by omega
  have h3 : i ≠ s.length := by omega
  simp [isBoundary, h1, h2, h3]

theorem boundary_le_len {s : List UInt8} {i : Nat} (h : isBoundary s i = true) : i ≤ s.length := by
  apply Nat.le_of_not_lt
  intro hlt
  rw [not_boundary_gt_len hlt] at h
  exact Bool.noConfusion h

/-- The specification of `is_char_boundary` as a proposition. -/
theorem isBoundary_iff (s : List UInt8) (i : Nat) :
    isBoundary s i = true ↔
      i = 0 ∨ i = s.length ∨ (i < s.length ∧ isCont (s[i]?.getD 0) = false) := by
  unfold isBoundary
  by_cases h0 : i = 0
  · simp [h0]
  · by_cases h1 : i ≥ s.length
    · simp only [h0, h1, if_false, if_true, beq_iff_eq, false_or]
      constructor
      · intro h; exact Or.inl h
      · rintro (h | ⟨h, _⟩)
        · exact h
        · omega
    · simp only [h0, h1, if_false, false_or, Bool.not_eq_eq_eq_not, Bool.not_true]
      constructor
      · intro h; exact Or.inr ⟨by omega, h⟩
      · rintro (h | ⟨_, h⟩)
        · omega
        · exact h

/-- Interior positions: boundary iff the byte there is not a continuation byte. -/
theorem isBoundary_interior {s : List UInt8} {i : Nat} (h0 : 0 < i) (h : i < s.length) :
    isBoundary s i = !isCont (s[i]?.getD 0) := by
  have h1 : i ≠ 0 := by omega
  have h2 : ¬ i ≥ s.length := by omega
  simp [isBoundary, h1, h2]

/-- A valid non-empty string does not start with a continuation byte. -/
theorem head_not_cont_of_valid {s : List UInt8} (hv : valid s = true) (h : s ≠ []) :
    isCont (s[0]?.getD 0) = false :=
  head_not_cont (firstCharLen_ne_zero_of_valid hv h)

/-- Boundaries of `a ++ b` strictly inside `a` are those of `a`. -/
theorem isBoundary_append_left_lt (a b : List UInt8) {i : Nat} (h : i < a.length) :
    isBoundary (a ++ b) i = isBoundary a i := by
  by_cases h0 : i = 0
  · subst h0; simp
  · rw [isBoundary_interior (by omega) (by rw [List.length_append]; omega),
      isBoundary_interior (by omega) h, List.getElem?_append_left h]

/-- Boundaries of `a ++ b` at or after `|a|` are those of `b` (for `b` valid, or more generally
`b` not starting with a continuation byte). -/
theorem isBoundary_append_right (a : List UInt8) {b : List UInt8} (hb : valid b = true) (j : Nat) :
    isBoundary (a ++ b) (a.length + j) = isBoundary b j := by
  by_cases hj : j = 0
  · subst hj
    rw [boundary_zero, Nat.add_zero]
    by_cases hb0 : b = []
    · subst hb0; simp
    · by_cases ha0 : a.length = 0
      · rw [ha0]; simp
      · have hbl : 0 < b.length := List.length_pos_iff.mpr hb0
        rw [isBoundary_interior (by omega) (by rw [List.length_append]; omega),
          List.getElem?_append_right (Nat.le_refl _), Nat.sub_self, head_not_cont_of_valid hb hb0]
        rfl
  · by_cases hlt : j < b.length
    · rw [isBoundary_interior (by omega) (by rw [List.length_append]; omega),
        isBoundary_interior (by omega) hlt, List.getElem?_append_right (by omega)]
      have : a.length + j - a.length = j := by omega
      rw [this]
    · by_cases he : j = b.length
      · subst he
        rw [← List.length_append, boundary_len, boundary_len]
      · rw [not_boundary_gt_len (s := b) (by omega),
          not_boundary_gt_len (s := a ++ b) (by rw [List.length_append]; omega)]

/-- Boundaries of `a ++ b` up to and including `|a|` are those of `a`, when `b` is valid. -/
theorem isBoundary_append_left (a : List UInt8) {b : List UInt8} (hb : valid b = true) {i : Nat}
    (h : i ≤ a.length) : isBoundary (a ++ b) i = isBoundary a i := by
  by_cases hlt : i < a.length
  · exact isBoundary_append_left_lt a b hlt
  · have : i = a.length + 0 := by omega
    rw [this, isBoundary_append_right a hb 0, Nat.add_zero, boundary_len, boundary_zero]

/-- The junction of two valid strings is a boundary. -/
theorem isBoundary_append_junction (a : List UInt8) {b : List UInt8} (hb : valid b = true) :
    isBoundary (a ++ b) a.length = true := by
  rw [isBoundary_append_left a hb (Nat.le_refl _), boundary_len]

/-- A strict prefix of a scalar (cut strictly inside) is not valid. -/
theorem not_valid_take_inside {s : List UInt8} {k : Nat} (h0 : 0 < k) (hk : k < firstCharLen s) :
    valid (s.take k) = false := by
  have hl := firstCharLen_le_length s
  have hne : s.take k ≠ [] := by
    intro e
    have := congrArg List.length e
    simp only [List.length_take, List.length_nil] at this
    omega
  rw [valid_step _ hne]
  have : firstCharLen (s.take k) = 0 := by
    apply Classical.byContradiction
    intro hn
    have h1 := firstCharLen_append (s.take k) (s.drop k) hn
    rw [List.take_append_drop] at h1
    have h2 := firstCharLen_le_length (s.take k)
    rw [List.length_take] at h2
    omega
  simp [this]

/-- **Key lemma.**  Inside a valid string, cutting at `i` yields two valid strings exactly when
`i` is a char boundary (`is_char_boundary`): this is what makes `slice`, `truncate`,
`split_off`… preserve validity, and what makes their rejections necessary. -/
theorem valid_split_iff_boundary {s : List UInt8} (hv : valid s = true) {i : Nat}
    (hi : i ≤ s.length) :
    (valid (s.take i) = true ∧ valid (s.drop i) = true) ↔ isBoundary s i = true := by
  revert i
  refine valid_induction
    (motive := fun s => ∀ {i : Nat}, i ≤ s.length →
      ((valid (s.take i) = true ∧ valid (s.drop i) = true) ↔ isBoundary s i = true)) ?_ ?_ s hv
  · intro i hi
    have : i = 0 := by simpa using hi
    subst this; simp
  · intro c r hc hr ih i hi
    have hcv := hc
    rw [isScalarEnc_iff] at hc
    obtain ⟨hne, hlen⟩ := hc
    have hcl : 0 < c.length := List.length_pos_iff.mpr hne
    by_cases h0 : i = 0
    · subst h0
      simp [valid_scalar_append hcv, hr]
    · by_cases hin : i < c.length
      · -- strictly inside the first scalar: not a boundary, and the prefix is not valid
        have hcont : isCont ((c ++ r)[i]?.getD 0) = true := by
          rw [List.getElem?_append_left hin]
          exact cont_inside (by omega) (by rw [hlen]; exact hin)
        have hb : isBoundary (c ++ r) i = false := by
          rw [isBoundary_interior (by omega) (by rw [List.length_append]; omega), hcont]; rfl
        have ht : valid ((c ++ r).take i) = false := by
          rw [List.take_append_of_le_length (by omega)]
          exact not_valid_take_inside (by omega) (by rw [hlen]; exact hin)
        rw [hb, ht]; simp
      · -- at or after the end of the first scalar: reduce to the rest
        obtain ⟨j, rfl⟩ : ∃ j, i = c.length + j := ⟨i - c.length, by omega⟩
        have hjl : j ≤ r.length := by rw [List.length_append] at hi; omega
        rw [isBoundary_append_right c hr, List.take_length_add_append,
          List.drop_length_add_append, valid_scalar_append hcv]
        exact ih hjl
/-! ## Corollaries of the key lemma: slicing -/

/-- `truncate(i)` / `&s[..i]` at a boundary keeps validity. -/
theorem valid_take_of_boundary {s : List UInt8} (hv : valid s = true) {i : Nat}
    (hb : isBoundary s i = true) : valid (s.take i) = true :=
  ((valid_split_iff_boundary hv (boundary_le_len hb)).mpr hb).1

/-- `&s[i..]` / `split_off(i)` at a boundary keeps validity. -/
theorem valid_drop_of_boundary {s : List UInt8} (hv : valid s = true) {i : Nat}
    (hb : isBoundary s i = true) : valid (s.drop i) = true :=
  ((valid_split_iff_boundary hv (boundary_le_len hb)).mpr hb).2

/-- Cutting a valid string into two valid halves can only happen at a boundary. -/
theorem boundary_of_valid_split {s : List UInt8} (hv : valid s = true) {i : Nat}
    (hi : i ≤ s.length) (ht : valid (s.take i) = true) (hd : valid (s.drop i) = true) :
    isBoundary s i = true :=
  (valid_split_iff_boundary hv hi).mp ⟨ht, hd⟩

/-- A cut at a non-boundary produces an ill-formed half (why `slice`/`truncate` must reject). -/
theorem not_valid_split_of_not_boundary {s : List UInt8} (hv : valid s = true) {i : Nat}
    (hi : i ≤ s.length) (hb : isBoundary s i = false) :
    valid (s.take i) = false ∨ valid (s.drop i) = false := by
  cases ht : valid (s.take i)
  · exact Or.inl rfl
  · cases hd : valid (s.drop i)
    · exact Or.inr rfl
    · rw [boundary_of_valid_split hv hi ht hd] at hb
      exact Bool.noConfusion hb

/-- Right cancellation: if the whole and the suffix are valid, so is the prefix. -/
theorem valid_of_append_right {a b : List UInt8} (hab : valid (a ++ b) = true)
    (hb : valid b = true) : valid a = true := by
  have := valid_take_of_boundary hab (isBoundary_append_junction a hb)
  rwa [List.take_left] at this

/-- `valid (a ++ b)` splits into `valid a ∧ valid b` as soon as one side is known valid. -/
theorem valid_append_iff_of_right {a b : List UInt8} (hb : valid b = true) :
    valid (a ++ b) = true ↔ valid a = true :=
  ⟨fun h => valid_of_append_right h hb, fun h => valid_append h hb⟩

/-- Boundaries of a suffix that is itself valid. -/
theorem isBoundary_drop {s : List UInt8} {a : Nat} (ha : a ≤ s.length)
    (hd : valid (s.drop a) = true) (j : Nat) :
    isBoundary (s.drop a) j = isBoundary s (a + j) := by
  have := isBoundary_append_right (s.take a) hd j
  rw [List.take_append_drop, List.length_take, Nat.min_eq_left ha] at this
  exact this.symm

/-- Boundaries of a prefix whose complement is valid. -/
theorem isBoundary_take {s : List UInt8} {a : Nat} (ha : a ≤ s.length)
    (hd : valid (s.drop a) = true) {i : Nat} (hi : i ≤ a) :
    isBoundary (s.take a) i = isBoundary s i := by
  have := isBoundary_append_left (s.take a) hd (i := i)
    (by rw [List.length_take, Nat.min_eq_left ha]; exact hi)
  rw [List.take_append_drop] at this
  exact this.symm

/-- `slice(a..b)` / `try_slice` between two boundaries keeps validity. -/
theorem valid_slice_of_boundaries {s : List UInt8} (hv : valid s = true) {a b : Nat}
    (ha : isBoundary s a = true) (hb : isBoundary s b = true) (hab : a ≤ b) :
    valid ((s.drop a).take (b - a)) = true := by
  have hd := valid_drop_of_boundary hv ha
  apply valid_take_of_boundary hd
  rw [isBoundary_drop (boundary_le_len ha) hd]
  have : a + (b - a) = b := by omega
  rw [this]; exact hb

/-- The form asked for in the brief (the bound `b ≤ s.length` is implied by `isBoundary s b`). -/
theorem valid_slice_of_boundaries' {s : List UInt8} (hv : valid s = true) {a b : Nat}
    (ha : isBoundary s a = true) (hb : isBoundary s b = true) (hab : a ≤ b)
    (_hbl : b ≤ s.length) : valid ((s.drop a).take (b - a)) = true :=
  valid_slice_of_boundaries hv ha hb hab

/-- Converse, for adopting std results (`slice_ref`, pieces from `split`/`trim`): a non-empty
window of a valid string whose own bytes are valid starts and ends on boundaries.
(`n > 0` is necessary: the empty window is valid at every offset.) -/
theorem boundary_of_valid_window {s : List UInt8} (hv : valid s = true) {a n : Nat}
    (hle : a + n ≤ s.length) (hw : valid ((s.drop a).take n) = true) (hn : n > 0) :
    isBoundary s a = true ∧ isBoundary s (a + n) = true := by
  have hwne : (s.drop a).take n ≠ [] := by
    intro e
    have := congrArg List.length e
    simp only [List.length_take, List.length_drop, List.length_nil] at this
    omega
  have hA : isBoundary s a = true := by
    by_cases h0 : a = 0
    · subst h0; simp
    · have hh := head_not_cont_of_valid hw hwne
      rw [List.getElem?_take_of_lt hn, List.getElem?_drop, Nat.add_zero] at hh
      rw [isBoundary_interior (by omega) (by omega), hh]; rfl
  refine ⟨hA, ?_⟩
  have hd := valid_drop_of_boundary hv hA
  have hrest : valid ((s.drop a).drop n) = true := by
    apply valid_of_append_left (a := (s.drop a).take n) _ hw
    rw [List.take_append_drop]; exact hd
  apply boundary_of_valid_split hv hle
  · have : s.take (a + n) = s.take a ++ (s.drop a).take n := by
      rw [List.take_add]
    rw [this]
    exact valid_append (valid_take_of_boundary hv hA) hw
  · rw [List.drop_drop] at hrest; exact hrest

/-- Window version of `boundary_of_valid_window` that also covers the empty window
(then only `a` must be known to be a boundary). -/
theorem boundary_end_of_valid_window {s : List UInt8} (hv : valid s = true) {a n : Nat}
    (hle : a + n ≤ s.length) (ha : isBoundary s a = true)
    (hw : valid ((s.drop a).take n) = true) : isBoundary s (a + n) = true := by
  by_cases hn : n = 0
  · subst hn; exact ha
  · exact (boundary_of_valid_window hv hle hw (Nat.pos_of_ne_zero hn)).2

/-- Inside a valid string a prefix is valid exactly when it ends on a boundary. -/
theorem valid_take_iff_boundary {s : List UInt8} (hv : valid s = true) {i : Nat}
    (hi : i ≤ s.length) : valid (s.take i) = true ↔ isBoundary s i = true := by
  constructor
  · intro ht
    have hd : valid (s.drop i) = true := by
      apply valid_of_append_left (a := s.take i) _ ht
      rw [List.take_append_drop]; exact hv
    exact boundary_of_valid_split hv hi ht hd
  · exact valid_take_of_boundary hv

/-- Inside a valid string a suffix is valid exactly when it starts on a boundary. -/
theorem valid_drop_iff_boundary {s : List UInt8} (hv : valid s = true) {i : Nat}
    (hi : i ≤ s.length) : valid (s.drop i) = true ↔ isBoundary s i = true := by
  constructor
  · intro hd
    have ht : valid (s.take i) = true := by
      apply valid_of_append_right (b := s.drop i) _ hd
      rw [List.take_append_drop]; exact hv
    exact boundary_of_valid_split hv hi ht hd
  · exact valid_drop_of_boundary hv

/-- An ASCII byte in front does not change validity. -/
theorem valid_cons_ascii {b : UInt8} (hb : b.toNat < 0x80) (t : List UInt8) :
    valid (b :: t) = valid t := by
  have h1 : isScalarEnc [b] = true := by
    rw [isScalarEnc_iff]
    exact ⟨by simp, by simp [firstCharLen, (leadLen_eq_one_iff b).mpr hb]⟩
  have := valid_scalar_append h1 t
  rwa [List.singleton_append] at this
/-! ## `encode` / `decode` -/

theorem toNat_ofNat_of_lt {n : Nat} (h : n < 256) : (UInt8.ofNat n).toNat = n := by
  simp [UInt8.toNat_ofNat']; omega

theorem isScalar_iff (c : Nat) : isScalar c = true ↔ c < 0xD800 ∨ (0xDFFF < c ∧ c < 0x110000) := by
  simp [isScalar]

theorem encode_length (c : Nat) :
    (encode c).length = if c < 0x80 then 1 else if c < 0x800 then 2 else if c < 0x10000 then 3 else 4 := by
  unfold encode
  split
  · rfl
  · split
    · rfl
    · split <;> rfl

theorem encode_length_mem (c : Nat) : (encode c).length ∈ [1, 2, 3, 4] := by
  rw [encode_length]
  split
  · simp
  · split
    · simp
    · split <;> simp

theorem encode_length_pos (c : Nat) : 0 < (encode c).length := by
  have := encode_length_mem c
  simp at this; omega

theorem encode_length_le_four (c : Nat) : (encode c).length ≤ 4 := by
  have := encode_length_mem c
  simp at this; omega

theorem encode_nonempty (c : Nat) : encode c ≠ [] :=
  List.length_pos_iff.mp (encode_length_pos c)

theorem firstCharLen_one {b0 : UInt8} (t : List UInt8) (hl : leadLen b0 = 1) :
    firstCharLen (b0 :: t) = 1 := by
  simp [firstCharLen, hl]

theorem firstCharLen_two {b0 b1 : UInt8} (t : List UInt8) (hl : leadLen b0 = 2)
    (hs : secondOk b0 b1 = true) : firstCharLen (b0 :: b1 :: t) = 2 := by
  simp [firstCharLen, hl, hs]

theorem firstCharLen_three {b0 b1 b2 : UInt8} (t : List UInt8) (hl : leadLen b0 = 3)
    (hs : secondOk b0 b1 = true) (h2 : isCont b2 = true) :
    firstCharLen (b0 :: b1 :: b2 :: t) = 3 := by
  simp [firstCharLen, hl, hs, h2]

theorem firstCharLen_four {b0 b1 b2 b3 : UInt8} (t : List UInt8) (hl : leadLen b0 = 4)
    (hs : secondOk b0 b1 = true) (h2 : isCont b2 = true) (h3 : isCont b3 = true) :
    firstCharLen (b0 :: b1 :: b2 :: b3 :: t) = 4 := by
  simp [firstCharLen, hl, hs, h2, h3]

/-- `char::encode_utf8` produces exactly one well-formed scalar. -/
theorem isScalarEnc_encode {c : Nat} (hc : isScalar c = true) : isScalarEnc (encode c) = true := by
  rw [isScalar_iff] at hc
  rw [isScalarEnc_iff]
  refine ⟨encode_nonempty c, ?_⟩
  unfold encode
  split
  · -- one byte
    rename_i h
    have h1 : leadLen (UInt8.ofNat c) = 1 := by
      rw [leadLen_eq_one_iff, toNat_ofNat_of_lt (by omega)]; exact h
    exact firstCharLen_one _ h1
  · split
    · -- two bytes
      rename_i h1 h2
      have hl : leadLen (UInt8.ofNat (0xC0 + c / 64)) = 2 := by
        rw [leadLen_eq_two_iff, toNat_ofNat_of_lt (by omega)]; omega
      have hs : secondOk (UInt8.ofNat (0xC0 + c / 64)) (UInt8.ofNat (0x80 + c % 64)) = true := by
        rw [secondOk_iff_toNat, toNat_ofNat_of_lt (by omega), toNat_ofNat_of_lt (by omega)]
        split <;> split <;> (try split) <;> (try split) <;> omega
      exact firstCharLen_two _ hl hs
    · split
      · -- three bytes
        rename_i h1 h2 h3
        have hl : leadLen (UInt8.ofNat (0xE0 + c / 4096)) = 3 := by
          rw [leadLen_eq_three_iff, toNat_ofNat_of_lt (by omega)]; omega
        have hs : secondOk (UInt8.ofNat (0xE0 + c / 4096)) (UInt8.ofNat (0x80 + c / 64 % 64)) = true := by
          rw [secondOk_iff_toNat, toNat_ofNat_of_lt (by omega), toNat_ofNat_of_lt (by omega)]
          split <;> split <;> (try split) <;> (try split) <;> omega
        have h2c : isCont (UInt8.ofNat (0x80 + c % 64)) = true := isCont_ofNat (by omega) (by omega)
        exact firstCharLen_three _ hl hs h2c
      · -- four bytes
        rename_i h1 h2 h3
        have hl : leadLen (UInt8.ofNat (0xF0 + c / 262144)) = 4 := by
          rw [leadLen_eq_four_iff, toNat_ofNat_of_lt (by omega)]; omega
        have hs : secondOk (UInt8.ofNat (0xF0 + c / 262144)) (UInt8.ofNat (0x80 + c / 4096 % 64)) = true := by
          rw [secondOk_iff_toNat, toNat_ofNat_of_lt (by omega), toNat_ofNat_of_lt (by omega)]
          split <;> split <;> (try split) <;> (try split) <;> omega
        have h2c : isCont (UInt8.ofNat (0x80 + c / 64 % 64)) = true := isCont_ofNat (by omega) (by omega)
        have h3c : isCont (UInt8.ofNat (0x80 + c % 64)) = true := isCont_ofNat (by omega) (by omega)
        exact firstCharLen_four _ hl hs h2c h3c

/-- `push(ch)`: the encoding of a scalar value is valid UTF-8. -/
theorem valid_encode {c : Nat} (hc : isScalar c = true) : valid (encode c) = true :=
  valid_of_isScalarEnc (isScalarEnc_encode hc)

theorem firstCharLen_encode {c : Nat} (hc : isScalar c = true) :
    firstCharLen (encode c) = (encode c).length :=
  ((isScalarEnc_iff _).mp (isScalarEnc_encode hc)).2
/-- Shape of a single well-formed scalar (Table 3-7 row by row). -/
theorem isScalarEnc_cases {c : List UInt8} (h : isScalarEnc c = true) :
    (∃ b0, c = [b0] ∧ leadLen b0 = 1) ∨
    (∃ b0 b1, c = [b0, b1] ∧ leadLen b0 = 2 ∧ secondOk b0 b1 = true) ∨
    (∃ b0 b1 b2, c = [b0, b1, b2] ∧ leadLen b0 = 3 ∧ secondOk b0 b1 = true ∧ isCont b2 = true) ∨
    (∃ b0 b1 b2 b3, c = [b0, b1, b2, b3] ∧ leadLen b0 = 4 ∧ secondOk b0 b1 = true ∧
      isCont b2 = true ∧ isCont b3 = true) := by
  rw [isScalarEnc_iff] at h
  obtain ⟨hne, hl⟩ := h
  unfold firstCharLen at hl
  split at hl
  · exact absurd rfl hne
  · split at hl
    · rename_i _ b0 t _ _ h1
      have : t = [] := List.eq_nil_of_length_eq_zero (by simp only [List.length_cons] at hl; omega)
      subst this
      exact Or.inl ⟨b0, rfl, h1⟩
    · rename_i _ b0 _ _ b1 t h2
      split at hl
      · rename_i hs
        have : t = [] := List.eq_nil_of_length_eq_zero (by simp only [List.length_cons] at hl; omega)
        subst this
        exact Or.inr (Or.inl ⟨b0, b1, rfl, h2, hs⟩)
      · simp at hl
    · rename_i _ b0 _ _ b1 b2 t h3
      split at hl
      · rename_i hs
        have : t = [] := List.eq_nil_of_length_eq_zero (by simp only [List.length_cons] at hl; omega)
        subst this
        simp only [Bool.and_eq_true] at hs
        exact Or.inr (Or.inr (Or.inl ⟨b0, b1, b2, rfl, h3, hs.1, hs.2⟩))
      · simp at hl
    · rename_i _ b0 _ _ b1 b2 b3 t h4
      split at hl
      · rename_i hs
        have : t = [] := List.eq_nil_of_length_eq_zero (by simp only [List.length_cons] at hl; omega)
        subst this
        simp only [Bool.and_eq_true] at hs
        exact Or.inr (Or.inr (Or.inr ⟨b0, b1, b2, b3, rfl, h4, hs.1.1, hs.1.2, hs.2⟩))
      · simp at hl
    · simp at hl

/-- A well-formed scalar has 1 to 4 bytes. -/
theorem isScalarEnc_length {c : List UInt8} (h : isScalarEnc c = true) :
    1 ≤ c.length ∧ c.length ≤ 4 := by
  rcases isScalarEnc_cases h with ⟨_, rfl, _⟩ | ⟨_, _, rfl, _⟩ | ⟨_, _, _, rfl, _⟩ | ⟨_, _, _, _, rfl, _⟩ <;>
    simp

theorem decode_one {b0 : UInt8} (t : List UInt8) (hl : leadLen b0 = 1) :
    decode (b0 :: t) = b0.toNat := by
  simp [decode, firstCharLen_one t hl]

theorem decode_two {b0 b1 : UInt8} (t : List UInt8) (hl : leadLen b0 = 2)
    (hs : secondOk b0 b1 = true) :
    decode (b0 :: b1 :: t) = (b0.toNat - 0xC0) * 64 + (b1.toNat - 0x80) := by
  simp [decode, firstCharLen_two t hl hs]

theorem decode_three {b0 b1 b2 : UInt8} (t : List UInt8) (hl : leadLen b0 = 3)
    (hs : secondOk b0 b1 = true) (h2 : isCont b2 = true) :
    decode (b0 :: b1 :: b2 :: t) =
      (b0.toNat - 0xE0) * 4096 + (b1.toNat - 0x80) * 64 + (b2.toNat - 0x80) := by
  simp [decode, firstCharLen_three t hl hs h2]

theorem decode_four {b0 b1 b2 b3 : UInt8} (t : List UInt8) (hl : leadLen b0 = 4)
    (hs : secondOk b0 b1 = true) (h2 : isCont b2 = true) (h3 : isCont b3 = true) :
    decode (b0 :: b1 :: b2 :: b3 :: t) =
      (b0.toNat - 0xF0) * 262144 + (b1.toNat - 0x80) * 4096 + (b2.toNat - 0x80) * 64
        + (b3.toNat - 0x80) := by
  simp [decode, firstCharLen_four t hl hs h2 h3]

/-- Decoding one well-formed scalar gives a scalar value whose encoding is the same bytes:
every well-formed scalar is `encode c` for a unique Unicode scalar value `c`. -/
theorem encode_decode {s : List UInt8} (h : isScalarEnc s = true) :
    isScalar (decode s) = true ∧ encode (decode s) = s := by
  rcases isScalarEnc_cases h with ⟨b0, rfl, h1⟩ | ⟨b0, b1, rfl, h2, hs⟩ |
      ⟨b0, b1, b2, rfl, h3, hs, hc2⟩ | ⟨b0, b1, b2, b3, rfl, h4, hs, hc2, hc3⟩
  · have hd : decode [b0] = b0.toNat := decode_one _ h1
    rw [leadLen_eq_one_iff] at h1
    rw [hd, isScalar_iff]
    refine ⟨by omega, ?_⟩
    unfold encode
    rw [if_pos h1, UInt8.ofNat_toNat]
  · have hd : decode [b0, b1] = (b0.toNat - 0xC0) * 64 + (b1.toNat - 0x80) :=
      decode_two _ h2 hs
    have hc1 := isCont_of_secondOk hs
    rw [leadLen_eq_two_iff] at h2
    rw [isCont_iff_toNat] at hc1
    generalize decode [b0, b1] = c at hd ⊢
    rw [isScalar_iff]
    refine ⟨by omega, ?_⟩
    unfold encode
    rw [if_neg (by omega), if_pos (by omega)]
    have e0 : 0xC0 + c / 64 = b0.toNat := by omega
    have e1 : 0x80 + c % 64 = b1.toNat := by omega
    rw [e0, e1, UInt8.ofNat_toNat, UInt8.ofNat_toNat]
  · have hd : decode [b0, b1, b2] =
        (b0.toNat - 0xE0) * 4096 + (b1.toNat - 0x80) * 64 + (b2.toNat - 0x80) :=
      decode_three _ h3 hs hc2
    have hc1 := isCont_of_secondOk hs
    rw [secondOk_iff_toNat] at hs
    rw [leadLen_eq_three_iff] at h3
    rw [isCont_iff_toNat] at hc1 hc2
    generalize decode [b0, b1, b2] = c at hd ⊢
    have hlo : 0x800 ≤ c := by
      split at hs <;> omega
    have hsur : c < 0xD800 ∨ 0xDFFF < c := by
      obtain ⟨_, hs2⟩ := hs
      split at hs2
      · omega
      · omega
    rw [isScalar_iff]
    refine ⟨by omega, ?_⟩
    unfold encode
    rw [if_neg (by omega), if_neg (by omega), if_pos (by omega)]
    have e0 : 0xE0 + c / 4096 = b0.toNat := by omega
    have e1 : 0x80 + c / 64 % 64 = b1.toNat := by omega
    have e2 : 0x80 + c % 64 = b2.toNat := by omega
    rw [e0, e1, e2, UInt8.ofNat_toNat, UInt8.ofNat_toNat, UInt8.ofNat_toNat]
  · have hd : decode [b0, b1, b2, b3] =
        (b0.toNat - 0xF0) * 262144 + (b1.toNat - 0x80) * 4096 + (b2.toNat - 0x80) * 64
          + (b3.toNat - 0x80) :=
      decode_four _ h4 hs hc2 hc3
    have hc1 := isCont_of_secondOk hs
    rw [secondOk_iff_toNat] at hs
    rw [leadLen_eq_four_iff] at h4
    rw [isCont_iff_toNat] at hc1 hc2 hc3
    generalize decode [b0, b1, b2, b3] = c at hd ⊢
    have hlo : 0x10000 ≤ c := by
      obtain ⟨hs1, _⟩ := hs
      split at hs1
      · omega
      · split at hs1 <;> omega
    have hhi : c < 0x110000 := by
      obtain ⟨_, hs2⟩ := hs
      split at hs2
      · omega
      · split at hs2 <;> omega
    rw [isScalar_iff]
    refine ⟨by omega, ?_⟩
    unfold encode
    rw [if_neg (by omega), if_neg (by omega), if_neg (by omega)]
    have e0 : 0xF0 + c / 262144 = b0.toNat := by omega
    have e1 : 0x80 + c / 4096 % 64 = b1.toNat := by omega
    have e2 : 0x80 + c / 64 % 64 = b2.toNat := by omega
    have e3 : 0x80 + c % 64 = b3.toNat := by omega
    rw [e0, e1, e2, e3, UInt8.ofNat_toNat, UInt8.ofNat_toNat, UInt8.ofNat_toNat, UInt8.ofNat_toNat]

/-- Every well-formed scalar is the encoding of a Unicode scalar value. -/
theorem exists_scalar_of_isScalarEnc {s : List UInt8} (h : isScalarEnc s = true) :
    ∃ c, isScalar c = true ∧ s = encode c :=
  ⟨decode s, (encode_decode h).1, (encode_decode h).2.symm⟩

/-- `decode` inverts `encode` on scalar values. -/
theorem decode_encode {c : Nat} (hc : isScalar c = true) : decode (encode c) = c := by
  have hE := isScalarEnc_encode hc
  rw [isScalar_iff] at hc
  revert hE
  unfold encode
  split
  · intro hE
    rcases isScalarEnc_cases hE with ⟨b0, he, h1⟩ | ⟨_, _, he, _⟩ | ⟨_, _, _, he, _⟩ | ⟨_, _, _, _, he, _⟩ <;>
      simp only [List.cons.injEq, List.cons_ne_nil, List.nil_eq, and_false, and_true] at he
    subst he
    rw [decode_one _ h1]
    exact toNat_ofNat_of_lt (by omega)
  · split
    · intro hE
      rcases isScalarEnc_cases hE with ⟨_, he, _⟩ | ⟨b0, b1, he, h2, hs⟩ | ⟨_, _, _, he, _⟩ | ⟨_, _, _, _, he, _⟩ <;>
        simp only [List.cons.injEq, List.cons_ne_nil, List.nil_eq, and_false, and_true] at he
      obtain ⟨rfl, rfl⟩ := he
      rw [decode_two _ h2 hs, toNat_ofNat_of_lt (by omega), toNat_ofNat_of_lt (by omega)]
      omega
    · split
      · intro hE
        rcases isScalarEnc_cases hE with ⟨_, he, _⟩ | ⟨_, _, he, _⟩ | ⟨b0, b1, b2, he, h3, hs, hc2⟩ | ⟨_, _, _, _, he, _⟩ <;>
          simp only [List.cons.injEq, List.cons_ne_nil, List.nil_eq, and_false, and_true] at he
        obtain ⟨rfl, rfl, rfl⟩ := he
        rw [decode_three _ h3 hs hc2, toNat_ofNat_of_lt (by omega), toNat_ofNat_of_lt (by omega),
          toNat_ofNat_of_lt (by omega)]
        omega
      · intro hE
        rcases isScalarEnc_cases hE with ⟨_, he, _⟩ | ⟨_, _, he, _⟩ | ⟨_, _, _, he, _⟩ | ⟨b0, b1, b2, b3, he, h4, hs, hc2, hc3⟩ <;>
          simp only [List.cons.injEq, List.cons_ne_nil, and_false, and_true] at he
        obtain ⟨rfl, rfl, rfl, rfl⟩ := he
        rw [decode_four _ h4 hs hc2 hc3, toNat_ofNat_of_lt (by omega), toNat_ofNat_of_lt (by omega),
          toNat_ofNat_of_lt (by omega), toNat_ofNat_of_lt (by omega)]
        omega

/-- `encode` is injective on scalar values. -/
theorem encode_injective {c d : Nat} (hc : isScalar c = true) (hd : isScalar d = true)
    (h : encode c = encode d) : c = d := by
  rw [← decode_encode hc, ← decode_encode hd, h]
/-! ## ASCII-only byte maps (`make_ascii_lowercase`, `make_ascii_uppercase`) -/

/-- A byte map that fixes every non-ASCII byte and keeps ASCII bytes ASCII.  Mapping such a
function over a string changes neither validity nor char boundaries. -/
def AsciiOnly (f : UInt8 → UInt8) : Prop :=
  ∀ b, (0x80 ≤ b.toNat → f b = b) ∧ (b.toNat < 0x80 → (f b).toNat < 0x80)

theorem asciiOnly_asciiLower : AsciiOnly asciiLower := asciiLower_spec
theorem asciiOnly_asciiUpper : AsciiOnly asciiUpper := asciiUpper_spec
theorem asciiOnly_id : AsciiOnly id := fun _ => ⟨fun _ => rfl, fun h => h⟩

theorem AsciiOnly.comp {f g : UInt8 → UInt8} (hf : AsciiOnly f) (hg : AsciiOnly g) :
    AsciiOnly (f ∘ g) := by
  intro b
  obtain ⟨g1, g2⟩ := hg b
  constructor
  · intro h; simp only [Function.comp, g1 h, (hf b).1 h]
  · intro h; exact (hf (g b)).2 (g2 h)

theorem AsciiOnly.isCont {f : UInt8 → UInt8} (hf : AsciiOnly f) (b : UInt8) :
    isCont (f b) = isCont b := by
  obtain ⟨h1, h2⟩ := hf b
  by_cases c : 0x80 ≤ b.toNat
  · rw [h1 c]
  · rw [isCont_of_lt_0x80 (h2 (by omega)), isCont_of_lt_0x80 (by omega)]

theorem AsciiOnly.leadLen {f : UInt8 → UInt8} (hf : AsciiOnly f) (b : UInt8) :
    leadLen (f b) = leadLen b := by
  obtain ⟨h1, h2⟩ := hf b
  by_cases c : 0x80 ≤ b.toNat
  · rw [h1 c]
  · rw [(leadLen_eq_one_iff _).mpr (h2 (by omega)), (leadLen_eq_one_iff _).mpr (by omega)]

theorem AsciiOnly.secondOk {f : UInt8 → UInt8} (hf : AsciiOnly f) (b0 b1 : UInt8) :
    secondOk (f b0) (f b1) = secondOk b0 b1 := by
  have hlo : secondLo (f b0) = secondLo b0 := by
    obtain ⟨h1, h2⟩ := hf b0
    by_cases c : 0x80 ≤ b0.toNat
    · rw [h1 c]
    · rw [secondLo_of_ascii _ (h2 (by omega)), secondLo_of_ascii _ (by omega)]
  have hhi : secondHi (f b0) = secondHi b0 := by
    obtain ⟨h1, h2⟩ := hf b0
    by_cases c : 0x80 ≤ b0.toNat
    · rw [h1 c]
    · rw [secondHi_of_ascii _ (h2 (by omega)), secondHi_of_ascii _ (by omega)]
  rw [Bool.eq_iff_iff, secondOk_iff_lo_hi, secondOk_iff_lo_hi, hlo, hhi]
  obtain ⟨h1, h2⟩ := hf b1
  have := secondLo_toNat_ge b0
  by_cases c : 0x80 ≤ b1.toNat
  · rw [h1 c]
  · have := h2 (by omega)
    constructor <;> intro h <;> omega

theorem AsciiOnly.firstCharLen {f : UInt8 → UInt8} (hf : AsciiOnly f) (s : List UInt8) :
    firstCharLen (s.map f) = firstCharLen s := by
  match s with
  | [] => rfl
  | b0 :: t =>
    have h4 := leadLen_le_four b0
    have hc : Utf8.leadLen b0 = 0 ∨ Utf8.leadLen b0 = 1 ∨ Utf8.leadLen b0 = 2 ∨
        Utf8.leadLen b0 = 3 ∨ Utf8.leadLen b0 = 4 := by omega
    match t with
    | [] => rcases hc with h | h | h | h | h <;> simp [Utf8.firstCharLen, hf.leadLen, h]
    | [b1] =>
      rcases hc with h | h | h | h | h <;> simp [Utf8.firstCharLen, hf.leadLen, hf.secondOk, h]
    | [b1, b2] =>
      rcases hc with h | h | h | h | h <;>
        simp [Utf8.firstCharLen, hf.leadLen, hf.secondOk, hf.isCont, h]
    | b1 :: b2 :: b3 :: t =>
      rcases hc with h | h | h | h | h <;>
        simp [Utf8.firstCharLen, hf.leadLen, hf.secondOk, hf.isCont, h]

/-- ASCII-only maps preserve (in)validity. -/
theorem AsciiOnly.valid_map {f : UInt8 → UInt8} (hf : AsciiOnly f) (s : List UInt8) :
    valid (s.map f) = valid s := by
  generalize hn : s.length = n
  induction n using Nat.strongRecOn generalizing s with
  | _ n ih =>
    by_cases hs : s = []
    · subst hs; rfl
    · have hs' : s.map f ≠ [] := by simpa using hs
      rw [valid_step _ hs, valid_step _ hs', hf.firstCharLen]
      by_cases h0 : Utf8.firstCharLen s = 0
      · simp [h0]
      · rw [← List.map_drop]
        rw [ih (s.drop (Utf8.firstCharLen s)).length (by
          have := List.length_pos_iff.mpr hs
          rw [List.length_drop]; omega) _ rfl]

/-- ASCII-only maps preserve char boundaries. -/
theorem AsciiOnly.isBoundary_map {f : UInt8 → UInt8} (hf : AsciiOnly f) (s : List UInt8) (i : Nat) :
    isBoundary (s.map f) i = isBoundary s i := by
  unfold isBoundary
  rw [List.length_map]
  by_cases h0 : i = 0
  · simp [h0]
  · by_cases h1 : i ≥ s.length
    · simp [h0, h1]
    · have hi : i < s.length := by omega
      simp only [h0, h1, if_false]
      rw [List.getElem?_map, List.getElem?_eq_getElem hi]
      simp [hf.isCont]

/-- `make_ascii_lowercase` keeps a `HipStr` valid. -/
theorem valid_map_asciiLower {s : List UInt8} (h : valid s = true) :
    valid (s.map asciiLower) = true := by
  rw [asciiOnly_asciiLower.valid_map]; exact h

/-- `make_ascii_uppercase` keeps a `HipStr` valid. -/
theorem valid_map_asciiUpper {s : List UInt8} (h : valid s = true) :
    valid (s.map asciiUpper) = true := by
  rw [asciiOnly_asciiUpper.valid_map]; exact h

theorem valid_map_asciiLower_eq (s : List UInt8) : valid (s.map asciiLower) = valid s :=
  asciiOnly_asciiLower.valid_map s

theorem valid_map_asciiUpper_eq (s : List UInt8) : valid (s.map asciiUpper) = valid s :=
  asciiOnly_asciiUpper.valid_map s

theorem isBoundary_map_asciiLower (s : List UInt8) (i : Nat) :
    isBoundary (s.map asciiLower) i = isBoundary s i :=
  asciiOnly_asciiLower.isBoundary_map s i

theorem isBoundary_map_asciiUpper (s : List UInt8) (i : Nat) :
    isBoundary (s.map asciiUpper) i = isBoundary s i :=
  asciiOnly_asciiUpper.isBoundary_map s i
/-! ## `lastCharStart` (`pop`) -/

theorem contRun_le (l : List UInt8) : contRun l ≤ l.length := by
  induction l with
  | nil => simp [contRun]
  | cons b t ih =>
    simp only [contRun, List.length_cons]
    split <;> omega

theorem contRun_spec_lt (l : List UInt8) {j : Nat} (h : j < contRun l) :
    isCont (l[j]?.getD 0) = true := by
  induction l generalizing j with
  | nil => simp [contRun] at h
  | cons b t ih =>
    simp only [contRun] at h
    split at h
    · rename_i hb
      cases j with
      | zero => simpa using hb
      | succ j => simpa using ih (by omega)
    · omega

theorem contRun_spec_at (l : List UInt8) (h : contRun l < l.length) :
    isCont (l[contRun l]?.getD 0) = false := by
  induction l with
  | nil => simp at h
  | cons b t ih =>
    simp only [contRun, List.length_cons] at h ⊢
    split
    · rename_i hb
      rw [if_pos hb] at h
      simpa using ih (by omega)
    · rename_i hb
      simpa using hb

theorem lastCharStart_nil : lastCharStart [] = 0 := rfl

/-- `lastCharStart` is an index into the string. -/
theorem lastCharStart_lt {s : List UInt8} (h : s ≠ []) : lastCharStart s < s.length := by
  have := List.length_pos_iff.mpr h
  unfold lastCharStart; omega

/-- Every byte after `lastCharStart` is a continuation byte. -/
theorem isCont_after_lastCharStart {s : List UInt8} {i : Nat} (h1 : lastCharStart s < i)
    (h2 : i < s.length) : isCont (s[i]?.getD 0) = true := by
  have hk := contRun_le s.reverse
  rw [List.length_reverse] at hk
  unfold lastCharStart at h1
  have hj : s.length - 1 - i < contRun s.reverse := by omega
  have := contRun_spec_lt s.reverse hj
  rw [List.getElem?_reverse (by omega)] at this
  have e : s.length - 1 - (s.length - 1 - i) = i := by omega
  rwa [e] at this

/-- In a valid non-empty string the byte at `lastCharStart` is a lead byte (not a continuation). -/
theorem not_isCont_at_lastCharStart {s : List UInt8} (hv : valid s = true) (hs : s ≠ []) :
    isCont (s[lastCharStart s]?.getD 0) = false := by
  have hlen := List.length_pos_iff.mpr hs
  have hk := contRun_le s.reverse
  rw [List.length_reverse] at hk
  by_cases hall : contRun s.reverse = s.length
  · -- all bytes would be continuation bytes, including the first one
    have : isCont (s[0]?.getD 0) = true := by
      have := contRun_spec_lt s.reverse (j := s.length - 1) (by omega)
      rw [List.getElem?_reverse (by omega)] at this
      have e : s.length - 1 - (s.length - 1) = 0 := by omega
      rwa [e] at this
    rw [head_not_cont_of_valid hv hs] at this
    exact Bool.noConfusion this
  · have hlt : contRun s.reverse < s.reverse.length := by rw [List.length_reverse]; omega
    have := contRun_spec_at s.reverse hlt
    rw [List.getElem?_reverse (by omega)] at this
    unfold lastCharStart
    have e : s.length - 1 - contRun s.reverse = s.length - contRun s.reverse - 1 := by omega
    rwa [e] at this

/-- `pop` cuts at a char boundary. -/
theorem isBoundary_lastCharStart {s : List UInt8} (hv : valid s = true) (hs : s ≠ []) :
    isBoundary s (lastCharStart s) = true := by
  rw [isBoundary_iff]
  by_cases h0 : lastCharStart s = 0
  · exact Or.inl h0
  · exact Or.inr (Or.inr ⟨lastCharStart_lt hs, not_isCont_at_lastCharStart hv hs⟩)

/-- `pop` keeps validity: the string without its last scalar is valid. -/
theorem valid_take_lastCharStart {s : List UInt8} (hv : valid s = true) :
    valid (s.take (lastCharStart s)) = true := by
  by_cases hs : s = []
  · subst hs; rfl
  · exact valid_take_of_boundary hv (isBoundary_lastCharStart hv hs)

/-- What `pop` removes is exactly one well-formed scalar. -/
theorem isScalarEnc_drop_lastCharStart {s : List UInt8} (hv : valid s = true) (hs : s ≠ []) :
    isScalarEnc (s.drop (lastCharStart s)) = true := by
  have hp := lastCharStart_lt hs
  have hd := valid_drop_of_boundary hv (isBoundary_lastCharStart hv hs)
  have hne : s.drop (lastCharStart s) ≠ [] := by
    intro e
    have := congrArg List.length e
    simp only [List.length_drop, List.length_nil] at this
    omega
  have h0 := firstCharLen_ne_zero_of_valid hd hne
  have hle := firstCharLen_le_length (s.drop (lastCharStart s))
  rw [isScalarEnc_iff]
  refine ⟨hne, ?_⟩
  apply Classical.byContradiction
  intro hneq
  have hlt : firstCharLen (s.drop (lastCharStart s)) < (s.drop (lastCharStart s)).length := by omega
  -- the rest after the first scalar is valid and non-empty, so it starts with a non-continuation
  have hrest := valid_drop_firstCharLen hd
  have hrne : (s.drop (lastCharStart s)).drop (firstCharLen (s.drop (lastCharStart s))) ≠ [] := by
    intro e
    have := congrArg List.length e
    simp only [List.length_drop, List.length_nil] at this hlt
    omega
  have hh := head_not_cont_of_valid hrest hrne
  rw [List.drop_drop, List.getElem?_drop, Nat.add_zero] at hh
  rw [List.length_drop] at hlt
  rw [isCont_after_lastCharStart (by omega) (by omega)] at hh
  exact Bool.noConfusion hh

/-- Summary for `pop`: on a valid non-empty string, `lastCharStart` is an in-range boundary,
the remaining prefix is valid, and the removed tail is the encoding of one scalar value. -/
theorem lastCharStart_spec {s : List UInt8} (hv : valid s = true) (hs : s ≠ []) :
    isBoundary s (lastCharStart s) = true ∧ lastCharStart s < s.length ∧
    valid (s.take (lastCharStart s)) = true ∧
    ∃ c, isScalar c = true ∧ s.drop (lastCharStart s) = encode c :=
  ⟨isBoundary_lastCharStart hv hs, lastCharStart_lt hs, valid_take_lastCharStart hv,
    exists_scalar_of_isScalarEnc (isScalarEnc_drop_lastCharStart hv hs)⟩

/-- The char returned by `pop` is `decode` of the removed tail. -/
theorem encode_decode_drop_lastCharStart {s : List UInt8} (hv : valid s = true) (hs : s ≠ []) :
    encode (decode (s.drop (lastCharStart s))) = s.drop (lastCharStart s) :=
  (encode_decode (isScalarEnc_drop_lastCharStart hv hs)).2

/-- `pop` after `push`: the last scalar of `a ++ c` (with `c` one scalar) starts at `|a|`. -/
theorem lastCharStart_append_scalar {a c : List UInt8} (ha : valid a = true)
    (hc : isScalarEnc c = true) : lastCharStart (a ++ c) = a.length := by
  have hcv := valid_of_isScalarEnc hc
  have hv := valid_append ha hcv
  obtain ⟨hcne, hclen⟩ := (isScalarEnc_iff c).mp hc
  have hcl := List.length_pos_iff.mpr hcne
  have hs : a ++ c ≠ [] := by simp [hcne]
  have hp := lastCharStart_lt hs
  rw [List.length_append] at hp
  apply Nat.le_antisymm
  · -- otherwise `lastCharStart` would be a boundary strictly inside `c`
    apply Nat.le_of_not_lt
    intro hgt
    have hb := isBoundary_lastCharStart hv hs
    obtain ⟨j, hj⟩ : ∃ j, lastCharStart (a ++ c) = a.length + j := ⟨_, (Nat.add_sub_cancel' (Nat.le_of_lt hgt)).symm⟩
    rw [hj, isBoundary_append_right a hcv, isBoundary_interior (by omega) (by omega),
      cont_inside (by omega) (by rw [hclen]; omega)] at hb
    exact Bool.noConfusion hb
  · -- otherwise `|a|` would be followed only by continuation bytes
    apply Nat.le_of_not_lt
    intro hlt
    have := isCont_after_lastCharStart hlt (by rw [List.length_append]; omega)
    rw [List.getElem?_append_right (Nat.le_refl _), Nat.sub_self, head_not_cont_of_valid hcv hcne] at this
    exact Bool.noConfusion this

/-- `pop` after `push(ch)`. -/
theorem lastCharStart_append_encode {a : List UInt8} (ha : valid a = true) {c : Nat}
    (hc : isScalar c = true) : lastCharStart (a ++ encode c) = a.length :=
  lastCharStart_append_scalar ha (isScalarEnc_encode hc)
/-! ## `concat`, `join`, `repeat` -/

/-- `concat`: the concatenation of valid pieces is valid. -/
theorem valid_flatten {ps : List (List UInt8)} (h : ∀ p ∈ ps, valid p = true) :
    valid ps.flatten = true := by
  induction ps with
  | nil => rfl
  | cons p ps ih =>
    rw [List.flatten_cons]
    exact valid_append (h p (List.mem_cons_self ..))
      (ih (fun q hq => h q (List.mem_cons_of_mem _ hq)))

/-- `repeat(n)`. -/
theorem valid_replicate_flatten {s : List UInt8} (h : valid s = true) (n : Nat) :
    valid (List.replicate n s).flatten = true :=
  valid_flatten (fun _ hp => by rw [List.eq_of_mem_replicate hp]; exact h)

theorem mem_intersperse_imp {α : Type} {sep : α} :
    ∀ {xs : List α} {p : α}, p ∈ xs.intersperse sep → p = sep ∨ p ∈ xs
  | [], _, h => by simp at h
  | [x], _, h => by
    simp only [List.intersperse_singleton, List.mem_singleton] at h
    exact Or.inr (by simp [h])
  | x :: y :: zs, p, h => by
    rw [List.intersperse_cons_cons] at h
    simp only [List.mem_cons] at h
    rcases h with h | h | h
    · exact Or.inr (by simp [h])
    · exact Or.inl h
    · rcases mem_intersperse_imp (xs := y :: zs) h with h | h
      · exact Or.inl h
      · exact Or.inr (List.mem_cons_of_mem _ h)

/-- `join(sep)`: joining valid pieces with a valid separator is valid. -/
theorem valid_intercalate {sep : List UInt8} {ps : List (List UInt8)} (hsep : valid sep = true)
    (h : ∀ p ∈ ps, valid p = true) : valid (sep.intercalate ps) = true := by
  rw [List.intercalate]
  apply valid_flatten
  intro p hp
  rcases mem_intersperse_imp hp with rfl | hp
  · exact hsep
  · exact h p hp

/-- Each piece of a valid concatenation of valid pieces sits between boundaries (used for
`concat`/`join` written in two passes). -/
theorem valid_append3 {a b c : List UInt8} (ha : valid a = true) (hb : valid b = true)
    (hc : valid c = true) : valid (a ++ b ++ c) = true :=
  valid_append (valid_append ha hb) hc

/-! ## ASCII strings -/

/-- A string of ASCII bytes is valid. -/
theorem valid_of_all_ascii {s : List UInt8} (h : ∀ b ∈ s, b.toNat < 0x80) : valid s = true := by
  induction s with
  | nil => rfl
  | cons b t ih =>
    have hb : isScalarEnc [b] = true := by
      rw [isScalarEnc_iff]
      exact ⟨by simp, firstCharLen_one [] ((leadLen_eq_one_iff b).mpr (h b (List.mem_cons_self ..)))⟩
    have := valid_scalar_append hb t
    rw [List.singleton_append] at this
    rw [this]
    exact ih (fun x hx => h x (List.mem_cons_of_mem _ hx))

/-- In a string of ASCII bytes every position up to the length is a boundary. -/
theorem isBoundary_of_all_ascii {s : List UInt8} (h : ∀ b ∈ s, b.toNat < 0x80) {i : Nat}
    (hi : i ≤ s.length) : isBoundary s i = true := by
  rw [isBoundary_iff]
  by_cases h1 : i = s.length
  · exact Or.inr (Or.inl h1)
  · have hlt : i < s.length := by omega
    refine Or.inr (Or.inr ⟨hlt, ?_⟩)
    rw [List.getElem?_eq_getElem hlt]
    exact isCont_of_lt_0x80 (h _ (List.getElem_mem hlt))
/-! ## `validUpTo` (`Utf8Error::valid_up_to`) -/

theorem validUpToFuel_congr : ∀ (f g : Nat) (s : List UInt8), s.length ≤ f → s.length ≤ g →
    validUpToFuel f s = validUpToFuel g s := by
  intro f
  induction f with
  | zero =>
    intro g s hf hg
    have : s = [] := List.eq_nil_of_length_eq_zero (by omega)
    subst this
    cases g <;> simp [validUpToFuel]
  | succ f ih =>
    intro g s hf hg
    cases g with
    | zero =>
      have : s = [] := List.eq_nil_of_length_eq_zero (by omega)
      subst this
      simp [validUpToFuel]
    | succ g =>
      simp only [validUpToFuel]
      split
      · rfl
      · rename_i n hn
        have h1 := firstCharLen_le_length s
        have hpos : firstCharLen s ≠ 0 := by intro e; exact hn e
        congr 1
        apply ih
        · rw [List.length_drop]; omega
        · rw [List.length_drop]; omega

/-- One unfolding step of `validUpTo`. -/
theorem validUpTo_step (s : List UInt8) :
    validUpTo s =
      if firstCharLen s = 0 then 0 else firstCharLen s + validUpTo (s.drop (firstCharLen s)) := by
  cases s with
  | nil => rfl
  | cons b t =>
    simp only [validUpTo, List.length_cons, validUpToFuel]
    split
    · rename_i h0; simp [h0]
    · rename_i n hn
      have h1 := firstCharLen_le_length (b :: t)
      have hpos : firstCharLen (b :: t) ≠ 0 := by intro e; exact hn e
      rw [if_neg hpos]
      simp only [List.length_cons] at h1
      congr 1
      apply validUpToFuel_congr
      · simp only [List.length_drop, List.length_cons]; omega
      · exact Nat.le_refl _

@[simp] theorem validUpTo_nil : validUpTo [] = 0 := rfl

/-- Joint specification, by induction on the length. -/
theorem validUpTo_spec (s : List UInt8) :
    validUpTo s ≤ s.length ∧ valid (s.take (validUpTo s)) = true ∧
    firstCharLen (s.drop (validUpTo s)) = 0 := by
  generalize hn : s.length = n
  induction n using Nat.strongRecOn generalizing s with
  | _ n ih =>
    rw [validUpTo_step]
    by_cases h0 : firstCharLen s = 0
    · rw [if_pos h0]
      exact ⟨Nat.zero_le _, by simp, by simpa using h0⟩
    · rw [if_neg h0]
      have hl := firstCharLen_le_length s
      obtain ⟨i1, i2, i3⟩ := ih (s.drop (firstCharLen s)).length
        (by rw [List.length_drop]; omega) (s.drop (firstCharLen s)) rfl
      rw [List.length_drop] at i1
      refine ⟨by omega, ?_, ?_⟩
      · rw [List.take_add]
        exact valid_append (valid_of_isScalarEnc (isScalarEnc_take_firstCharLen h0)) i2
      · rw [← List.drop_drop]; exact i3

theorem validUpTo_le (s : List UInt8) : validUpTo s ≤ s.length := (validUpTo_spec s).1

/-- The prefix reported by `valid_up_to` is valid (so `from_utf8(&b[..e.valid_up_to()])`
succeeds). -/
theorem valid_take_validUpTo (s : List UInt8) : valid (s.take (validUpTo s)) = true :=
  (validUpTo_spec s).2.1

/-- … and it is maximal: what follows does not start with a well-formed scalar. -/
theorem firstCharLen_drop_validUpTo (s : List UInt8) :
    firstCharLen (s.drop (validUpTo s)) = 0 := (validUpTo_spec s).2.2

theorem validUpTo_of_valid {s : List UInt8} (hv : valid s = true) : validUpTo s = s.length := by
  revert hv
  refine valid_induction (motive := fun s => validUpTo s = s.length) rfl ?_ s
  intro c r hc _ ih
  obtain ⟨hne, hlen⟩ := (isScalarEnc_iff c).mp hc
  have h0 : firstCharLen c ≠ 0 := by
    rw [hlen]; intro e; exact hne (List.eq_nil_of_length_eq_zero e)
  rw [validUpTo_step, firstCharLen_append c r h0, if_neg h0, hlen, List.drop_left, ih,
    List.length_append]

/-- `from_utf8` succeeds iff `valid_up_to` would be the whole length. -/
theorem valid_iff_validUpTo (s : List UInt8) : valid s = true ↔ validUpTo s = s.length := by
  constructor
  · exact validUpTo_of_valid
  · intro h
    have := valid_take_validUpTo s
    rwa [h, List.take_length] at this

theorem validUpTo_lt_of_not_valid {s : List UInt8} (h : valid s = false) :
    validUpTo s < s.length := by
  have h1 := validUpTo_le s
  have h2 : validUpTo s ≠ s.length := by
    intro e
    rw [(valid_iff_validUpTo s).mpr e] at h
    exact Bool.noConfusion h
  omega

/-- A valid prefix is skipped whole. -/
theorem validUpTo_append_of_valid {a : List UInt8} (ha : valid a = true) (b : List UInt8) :
    validUpTo (a ++ b) = a.length + validUpTo b := by
  revert ha
  refine valid_induction (motive := fun a => validUpTo (a ++ b) = a.length + validUpTo b) ?_ ?_ a
  · simp
  · intro c r hc _ ih
    obtain ⟨hne, hlen⟩ := (isScalarEnc_iff c).mp hc
    have h0 : firstCharLen c ≠ 0 := by
      rw [hlen]; intro e; exact hne (List.eq_nil_of_length_eq_zero e)
    rw [List.append_assoc, validUpTo_step, firstCharLen_append c _ h0, if_neg h0, hlen,
      List.drop_left, ih, List.length_append]
    omega

/-- `valid_up_to` is a char boundary of the valid prefix/rest decomposition: it is the largest
`k` such that `s.take k` is valid and consists of whole scalars of `s`. -/
theorem validUpTo_take_validUpTo (s : List UInt8) :
    validUpTo (s.take (validUpTo s)) = validUpTo s := by
  have h := validUpTo_of_valid (valid_take_validUpTo s)
  rw [h, List.length_take, Nat.min_eq_left (validUpTo_le s)]
/-! ## `decodeLossy` (`from_utf8_lossy`) -/

theorem valid_replacement : valid replacement = true := by decide

theorem valid_decodeLossyFuel : ∀ (f : Nat) (s : List UInt8), valid (decodeLossyFuel f s) = true := by
  intro f
  induction f with
  | zero => intro s; cases s <;> rfl
  | succ f ih =>
    intro s
    cases s with
    | nil => rfl
    | cons b t =>
      simp only [decodeLossyFuel]
      split
      · split
        · exact valid_replacement
        · exact valid_append valid_replacement (ih _)
      · rename_i n hn
        have hpos : firstCharLen (b :: t) ≠ 0 := by intro e; exact hn e
        exact valid_append (valid_of_isScalarEnc (isScalarEnc_take_firstCharLen hpos)) (ih _)

/-- `from_utf8_lossy` always produces valid UTF-8. -/
theorem valid_decodeLossy (s : List UInt8) : valid (decodeLossy s) = true :=
  valid_decodeLossyFuel _ _

theorem decodeLossyFuel_of_valid : ∀ (f : Nat) (s : List UInt8), s.length ≤ f → valid s = true →
    decodeLossyFuel f s = s := by
  intro f
  induction f with
  | zero =>
    intro s hf _
    have : s = [] := List.eq_nil_of_length_eq_zero (by omega)
    subst this; rfl
  | succ f ih =>
    intro s hf hv
    cases s with
    | nil => rfl
    | cons b t =>
      have h0 := firstCharLen_ne_zero_of_valid hv (List.cons_ne_nil b t)
      have hd := valid_drop_firstCharLen hv
      have hl := firstCharLen_le_length (b :: t)
      simp only [List.length_cons] at hf
      have hlen : (List.drop (firstCharLen (b :: t)) (b :: t)).length ≤ f := by
        rw [List.length_drop, List.length_cons]; omega
      simp only [decodeLossyFuel]
      rw [ih _ hlen hd, List.take_append_drop]

/-- `from_utf8_lossy` is the identity on valid input (the `Cow::Borrowed` case). -/
theorem decodeLossy_of_valid {s : List UInt8} (hv : valid s = true) : decodeLossy s = s :=
  decodeLossyFuel_of_valid _ _ (Nat.le_refl _) hv

/-! ## Sanity: the model reduces in the kernel on concrete inputs -/

-- "aé€🦀"
example : valid [0x61, 0xC3, 0xA9, 0xE2, 0x82, 0xAC, 0xF0, 0x9F, 0xA6, 0x80] = true := by decide
example : valid [0xED, 0xA0, 0x80] = false := by decide          -- surrogate
example : valid [0xC0, 0x80] = false := by decide                -- overlong
example : valid [0xF4, 0x90, 0x80, 0x80] = false := by decide    -- > U+10FFFF
example : valid [0xE2, 0x82] = false := by decide                -- truncated
example : (List.range 12).map (isBoundary [0x61, 0xC3, 0xA9, 0xE2, 0x82, 0xAC, 0xF0, 0x9F, 0xA6, 0x80])
    = [true, true, false, true, false, false, true, false, false, false, true, false] := by decide
example : lastCharStart [0x61, 0xC3, 0xA9, 0xE2, 0x82, 0xAC, 0xF0, 0x9F, 0xA6, 0x80] = 6 := by decide
example : encode 0x1F980 = [0xF0, 0x9F, 0xA6, 0x80] := by decide
example : decode [0xE2, 0x82, 0xAC] = 0x20AC := by decide
example : validUpTo [0x61, 0xC3, 0xA9, 0xE2, 0x82, 0x41] = 3 := by decide
example : errorLen [0x61, 0xC3, 0xA9, 0xE2, 0x82, 0x41] = some 2 := by decide
example : errorLen [0x61, 0xE2, 0x82] = none := by decide
example : decodeLossy [0x61, 0xE2, 0x82, 0x41, 0xFF] = [0x61, 0xEF, 0xBF, 0xBD, 0x41, 0xEF, 0xBF, 0xBD] := by decide
example : [0x41, 0xC3, 0x89, 0x5A].map asciiLower = [0x61, 0xC3, 0x89, 0x7A] := by decide

end HipVerif.Utf8
