/-
Refinement of the Core state machine to the std-side specification, op by op:
`Spec.Std.step icap srcs (abs s) op (retFlag ret) = (abs s', eraseRet ret)`.
-/
import HipVerif.Lemmas.CoreWfOps

namespace HipVerif.Core
open HipVerif.Spec.Std

/-! ### the abstraction function through pool updates -/

theorem abs_setH (s : State) (d : Nat) (v : Option Handle) :
    abs (setH s d v) = (abs s).set d (v.map (view s)) := by
  unfold abs
  have hv : ∀ hd, view (setH s d v) hd = view s hd := fun hd => view_setH s d v hd
  have hf : (Option.map (view (setH s d v))) = (Option.map (view s)) := by
    funext o; cases o <;> simp [hv]
  rw [hf]
  simp [setH, List.map_set]

theorem abs_congr {s s1 : State} (hp : s1.pool = s.pool)
    (hv : ∀ k hd, getH s k = some hd → view s1 hd = view s hd) : abs s1 = abs s := by
  unfold abs
  rw [hp]
  apply List.map_congr_left
  intro o ho
  cases o with
  | none => rfl
  | some hd =>
    obtain ⟨k, hk, hke⟩ := List.getElem_of_mem ho
    have hg : getH s k = some hd := by rw [getH_eq_getElem hk, hke]
    simp only [Option.map_some]
    exact congrArg some (hv k hd hg)

theorem sget_abs (s : State) (h : Nat) : sget (abs s) h = (getH s h).map (view s) := by
  unfold sget abs getH
  by_cases hl : h < s.pool.length
  · simp [hl]
  · have h1 : s.pool[h]? = none := List.getElem?_eq_none (Nat.le_of_not_lt hl)
    simp [h1]

theorem abs_length (s : State) : (abs s).length = s.pool.length := by simp [abs]

theorem sfree_abs (s : State) (d : Nat) : sfree (abs s) d = slotFree s d := by
  unfold sfree slotFree
  rw [abs_length, sget_abs]
  cases getH s d <;> rfl

/-! ### views through the primitives -/

theorem view_newHeap_old {cfg : Cfg} {s : State} {hd : Handle} (data : List UInt8) (cap : Nat)
    (hok : HandleOk cfg s hd) : view (newHeap s data cap).1 hd = view s hd := by
  unfold view
  unfold HandleOk at hok
  cases hr : hd.repr with
  | inline bs => rfl
  | borrowed a b c => rfl
  | heap o pb off len =>
    rw [hr] at hok
    obtain ⟨x, hx, _⟩ := hok
    have hlt := getI_some_lt hx
    have : getI (newHeap s data cap).1 o = getI s o :=
      getI_append_lt { s with nextBuf := s.nextBuf + 1 } _ o hlt
    simp [this]

theorem view_newHeap_new (s : State) (data : List UInt8) (cap : Nat) (t : Bool) :
    view (newHeap s data cap).1 { repr := (newHeap s data cap).2.1, tainted := t } = data := by
  have : getI (newHeap s data cap).1 s.inners.length =
      some { count := 0, data := data, cap := cap, buf := s.nextBuf, live := true } :=
    getI_append_same { s with nextBuf := s.nextBuf + 1 } _
  show view (newHeap s data cap).1 { repr := .heap s.inners.length s.nextBuf 0 data.length, tainted := t } = data
  simp [view, this]

/-! ### `clone` -/

theorem ref_clone {cfg : Cfg} {s : State} (w : Wf cfg s) {h d : Nat} {hd : Handle}
    (hg : getH s h = some hd) (hfree : slotFree s d = true) :
    abs (install (cloneRepr cfg s hd).1 d (cloneRepr cfg s hd).2.1 hd.tainted .unit
      (cloneRepr cfg s hd).2.2).1 = (abs s).set d (some (view s hd)) := by
  have hok := w.handles h hd hg
  unfold install ok
  simp only [abs_setH, Option.map_some]
  unfold cloneRepr
  cases hr : hd.repr with
  | inline bs => simp [view, hr]
  | borrowed a b c => simp [view, hr]
  | heap o pb off len =>
    simp only
    cases hi : incr cfg s o with
    | mk s1 done =>
      cases done with
      | true =>
        simp only [if_true]
        rw [abs_congr (incr_pool hi) (fun k hd' _ => view_incr hi hd'), view_incr hi]
        simp [view, hr]
      | false =>
        simp only [Bool.false_eq_true, if_false]
        rw [abs_congr (s := s) (s1 := (newHeap s (view s hd) (view s hd).length).1) rfl
            (fun k hd' hg' => view_newHeap_old _ _ (w.handles k hd' hg')),
          view_newHeap_new]

end HipVerif.Core
