/-
The `HipStr` API layer (`Str.strStep`: the checks the code performs, then the byte-level
operation) over the Core state machine: invariant, UTF-8 well-formedness WITHOUT assuming the
boundary side conditions (the layer's own checks establish them), rejected calls leave the state
unchanged, agreement with `String`/`str` on accepted calls, and the lift to histories.
-/
import HipVerif.Lemmas.CoreRun
import HipVerif.Lemmas.CoreStr

namespace HipVerif.Str
open HipVerif.Utf8 HipVerif.Core HipVerif.Spec.Std HipVerif.Spec.Range HipVerif.RangeTy

/-! ## definitions -/

/-- Side condition of a `HipStr` call: the `OpOk` condition of the byte-level operation it ends
in (bound values are `usize`s and lengths are at most `isize::MAX` for `slice`/`try_slice`;
`OpOk s op` for a plain byte-level operation; nothing for the others, whose byte-level operation
has no side condition). -/
def StrOk (s : State) : StrOp → Prop
  | .byte op => OpOk s op
  | .trySlice h d sb eb => OpOk s (.trySlice h d sb eb)
  | .slice h d sb eb => OpOk s (.slice h d sb eb)
  | _ => True

/-- a history of `HipStr` calls -/
def strRun (cfg : Cfg) (s : State) : List StrOp → State × List StrRet
  | [] => (s, [])
  | op :: ops =>
    let (s1, r) := strStep cfg s op
    let (s2, rs) := strRun cfg s1 ops
    (s2, r :: rs)

/-- along a history every call is one a Rust program can make (`StrOk`) with arguments of the
right Rust type (`StrArgsOk`), in the state in which it is made -/
def AllStrOk (cfg : Cfg) (s : State) : List StrOp → Prop
  | [] => True
  | op :: ops => (StrOk s op ∧ StrArgsOk s op) ∧ AllStrOk cfg (strStep cfg s op).1 ops

/-! ## helpers -/

/-- a spec-pool entry is the view of a model handle -/
theorem sget_abs_some {s : State} {h : Nat} {v : List UInt8} (hg : sget (Core.abs s) h = some v) :
    ∃ hd, getH s h = some hd ∧ view s hd = v := by
  rw [sget_abs] at hg
  cases hgh : getH s h with
  | none => rw [hgh] at hg; cases hg
  | some hd => rw [hgh] at hg; exact ⟨hd, rfl, by simpa using hg⟩

theorem sget_abs_of_getH {s : State} {h : Nat} {hd : Handle} (hg : getH s h = some hd) :
    sget (Core.abs s) h = some (view s hd) := by
  rw [sget_abs, hg]; rfl

/-- one byte-level step keeps every value well-formed under `StrSafe` (C06 `utf8_step`) -/
theorem valid_core_step {cfg : Cfg} {s : State} (op : Op) (w : Wf cfg s) (hok : OpOk s op)
    (hv : AllValid (Core.abs s)) (hs : StrSafe s.srcs (Core.abs s) op) :
    AllValid (Core.abs (Core.step cfg s op).1) := by
  have h := spec_valid_step cfg.icap s.srcs (Core.abs s) op (retFlag (Core.step cfg s op).2.ret) hv hs
  rw [refines cfg s op w hok] at h
  exact h

/-- the accepted range of `try_slice`/`slice` is std's -/
theorem simplify_stdGet {s : State} {h d : Nat} {sb eb : Bound} {hd : Handle}
    (hok : OpOk s (.trySlice h d sb eb)) (hg : getH s h = some hd) (w : ∃ cfg, Wf cfg s) (a b : Nat) :
    Gen.Ranges.simplifyRangeMono sb eb (view s hd).length = .ok (a, b) ↔
      stdGet sb eb (view s hd).length = some (a, b) := by
  obtain ⟨cfg, w⟩ := w
  obtain ⟨hfs, hfe, hl⟩ := hok
  rw [A.view_length (w.handles h hd hg)]
  exact Props.C08.simplify_iff sb eb _ a b hfs hfe (hl hd hg)

/-! ## `strStep`, branch by branch -/

variable {cfg : Cfg} {s : State}

theorem strStep_byte (op : Op) :
    strStep cfg s (.byte op) = ((Core.step cfg s op).1, .byte (Core.step cfg s op).2.ret) := rfl

theorem strStep_pushStr (h : Nat) (bs : List UInt8) :
    strStep cfg s (.pushStr h bs) =
      ((Core.step cfg s (.pushSlice h bs)).1, .byte (Core.step cfg s (.pushSlice h bs)).2.ret) := rfl

theorem strStep_pushChar (h c : Nat) :
    strStep cfg s (.pushChar h c) =
      ((Core.step cfg s (.pushSlice h (encode c))).1, .byte (Core.step cfg s (.pushSlice h (encode c))).2.ret) := rfl

theorem strStep_popChar (h : Nat) :
    strStep cfg s (.popChar h) =
      match getH s h with
      | some hd =>
        if (view s hd).length = 0 then (s, .char none)
        else if isBoundary (view s hd) (lastCharStart (view s hd)) then
          ((Core.step cfg s (.truncate h (lastCharStart (view s hd)))).1,
            .char (some ((view s hd).drop (lastCharStart (view s hd)))))
        else (s, .panic)
      | none => (s, .byte .badOp) := rfl

theorem strStep_truncate (h n : Nat) :
    strStep cfg s (.truncate h n) =
      match getH s h with
      | some hd =>
        if n ≤ (view s hd).length then
          if isBoundary (view s hd) n then
            ((Core.step cfg s (.truncate h n)).1, .byte (Core.step cfg s (.truncate h n)).2.ret)
          else (s, .panic)
        else (s, .byte .unit)
      | none => (s, .byte .badOp) := rfl

theorem strStep_trySlice (h d : Nat) (sb eb : Bound) :
    strStep cfg s (.trySlice h d sb eb) =
      match getH s h with
      | some hd =>
        match Gen.Ranges.simplifyRangeMono sb eb (view s hd).length with
        | .ok (a, b) =>
          if !isBoundary (view s hd) a then (s, .sliceErr (.startNotBoundary a b))
          else if !isBoundary (view s hd) b then (s, .sliceErr (.endNotBoundary a b))
          else ((Core.step cfg s (.trySlice h d sb eb)).1, .byte (Core.step cfg s (.trySlice h d sb eb)).2.ret)
        | .err (a, b, k) => (s, .sliceErr (.range a b k))
        | _ => (s, .panic)
      | none => (s, .byte .badOp) := rfl

theorem strStep_slice (h d : Nat) (sb eb : Bound) :
    strStep cfg s (.slice h d sb eb) =
      match getH s h with
      | some hd =>
        match Gen.Ranges.simplifyRangeMono sb eb (view s hd).length with
        | .ok (a, b) =>
          if isBoundary (view s hd) a && isBoundary (view s hd) b then
            ((Core.step cfg s (.slice h d sb eb)).1, .byte (Core.step cfg s (.slice h d sb eb)).2.ret)
          else (s, .panic)
        | _ => (s, .panic)
      | none => (s, .byte .badOp) := rfl

theorem strStep_fromUtf8 (d : Nat) (bs : List UInt8) :
    strStep cfg s (.fromUtf8 d bs) =
      if valid bs then ((Core.step cfg s (.fromSlice d bs)).1, .byte (Core.step cfg s (.fromSlice d bs)).2.ret)
      else (s, .utf8Err (validUpTo bs)) := rfl

/-! ## S1 — the invariant -/

/-- **S1.** Every `HipStr` call preserves the representation invariant: it is either a
byte-level step or leaves the state alone. -/
theorem strStep_wf (sop : StrOp) (w : Wf cfg s) : Wf cfg (strStep cfg s sop).1 := by
  cases sop with
  | byte op => exact wf_step cfg s op w
  | pushStr h bs => exact wf_step cfg s (.pushSlice h bs) w
  | pushChar h c => exact wf_step cfg s (.pushSlice h (encode c)) w
  | popChar h =>
    rw [strStep_popChar]
    cases getH s h with
    | none => exact w
    | some hd =>
      simp only
      split
      · exact w
      · split
        · exact wf_step cfg s (.truncate h _) w
        · exact w
  | truncate h n =>
    rw [strStep_truncate]
    cases getH s h with
    | none => exact w
    | some hd =>
      simp only
      split
      · split
        · exact wf_step cfg s _ w
        · exact w
      · exact w
  | trySlice h d sb eb =>
    rw [strStep_trySlice]
    cases getH s h with
    | none => exact w
    | some hd =>
      simp only
      split
      · split
        · exact w
        · split
          · exact w
          · exact wf_step cfg s _ w
      · exact w
      · exact w
  | slice h d sb eb =>
    rw [strStep_slice]
    cases getH s h with
    | none => exact w
    | some hd =>
      simp only
      split
      · split
        · exact wf_step cfg s _ w
        · exact w
      · exact w
  | fromUtf8 d bs =>
    rw [strStep_fromUtf8]
    split
    · exact wf_step cfg s _ w
    · exact w

/-! ## S2 — the checks are sufficient for UTF-8 well-formedness -/

/-- **S2.** Every `HipStr` call keeps every value well-formed UTF-8, assuming only what Rust's
types give (`StrArgsOk`: `&str` arguments are valid, `char`s are scalar values) and that the call
can be made at all (`StrOk`).  No boundary hypothesis: for `push(char)`, `pop`, `truncate`,
`try_slice`, `slice`, `from_utf8` the checks performed by the layer itself establish what the
byte-level operation needs. -/
theorem strStep_valid (sop : StrOp) (w : Wf cfg s) (hok : StrOk s sop)
    (hv : AllValid (Core.abs s)) (ha : StrArgsOk s sop) : AllValid (Core.abs (strStep cfg s sop).1) := by
  cases sop with
  | byte op => rw [strStep_byte]; exact valid_core_step op w hok hv ha
  | pushStr h bs => rw [strStep_pushStr]; exact valid_core_step (.pushSlice h bs) w trivial hv ha
  | pushChar h c =>
    rw [strStep_pushChar]; exact valid_core_step (.pushSlice h (encode c)) w trivial hv (valid_encode ha)
  | popChar h =>
    rw [strStep_popChar]
    cases hg : getH s h with
    | none => exact hv
    | some hd =>
      simp only
      split
      · exact hv
      · split
        · rename_i hb
          refine valid_core_step (.truncate h (lastCharStart (view s hd))) w trivial hv ?_
          intro v' hg' _
          rw [sget_abs_of_getH hg] at hg'; cases hg'
          exact hb
        · exact hv
  | truncate h n =>
    rw [strStep_truncate]
    cases hg : getH s h with
    | none => exact hv
    | some hd =>
      simp only
      split
      · split
        · rename_i hb
          refine valid_core_step (.truncate h n) w trivial hv ?_
          intro v' hg' _
          rw [sget_abs_of_getH hg] at hg'; cases hg'
          exact hb
        · exact hv
      · exact hv
  | trySlice h d sb eb =>
    rw [strStep_trySlice]
    cases hg : getH s h with
    | none => exact hv
    | some hd =>
      simp only
      split
      · rename_i a b hsim
        split
        · exact hv
        · rename_i hba
          split
          · exact hv
          · rename_i hbb
            refine valid_core_step (.trySlice h d sb eb) w hok hv ?_
            intro v' hg' a' b' hst
            rw [sget_abs_of_getH hg] at hg'; cases hg'
            have := (simplify_stdGet (d := d) hok hg ⟨cfg, w⟩ a b).mp hsim
            rw [this] at hst; cases hst
            exact ⟨by simpa using hba, by simpa using hbb⟩
      · exact hv
      · exact hv
  | slice h d sb eb =>
    rw [strStep_slice]
    cases hg : getH s h with
    | none => exact hv
    | some hd =>
      simp only
      split
      · rename_i a b hsim
        split
        · rename_i hb
          refine valid_core_step (.slice h d sb eb) w hok hv ?_
          intro v' hg' a' b' hst
          rw [sget_abs_of_getH hg] at hg'; cases hg'
          have := (simplify_stdGet (d := d) hok hg ⟨cfg, w⟩ a b).mp hsim
          rw [this] at hst; cases hst
          simpa using hb
        · exact hv
      · exact hv
  | fromUtf8 d bs =>
    rw [strStep_fromUtf8]
    split
    · rename_i hvb
      exact valid_core_step (.fromSlice d bs) w trivial hv hvb
    · exact hv

/-! ## S3 — rejected calls leave the state unchanged -/

/-- every `HipStr` call either leaves the state alone or answers with a byte-level result or a
popped `char` -/
theorem strStep_cases (cfg : Cfg) (s : State) (sop : StrOp) :
    (strStep cfg s sop).1 = s ∨ (∃ r, (strStep cfg s sop).2 = .byte r) ∨ (∃ c, (strStep cfg s sop).2 = .char c) := by
  cases sop with
  | byte op => exact Or.inr (Or.inl ⟨_, rfl⟩)
  | pushStr h bs => exact Or.inr (Or.inl ⟨_, rfl⟩)
  | pushChar h c => exact Or.inr (Or.inl ⟨_, rfl⟩)
  | popChar h =>
    rw [strStep_popChar]
    cases getH s h with
    | none => exact Or.inl rfl
    | some hd =>
      simp only
      split
      · exact Or.inl rfl
      · split
        · exact Or.inr (Or.inr ⟨_, rfl⟩)
        · exact Or.inl rfl
  | truncate h n =>
    rw [strStep_truncate]
    cases getH s h with
    | none => exact Or.inl rfl
    | some hd =>
      simp only
      split
      · split
        · exact Or.inr (Or.inl ⟨_, rfl⟩)
        · exact Or.inl rfl
      · exact Or.inl rfl
  | trySlice h d sb eb =>
    rw [strStep_trySlice]
    cases getH s h with
    | none => exact Or.inl rfl
    | some hd =>
      simp only
      split
      · split
        · exact Or.inl rfl
        · split
          · exact Or.inl rfl
          · exact Or.inr (Or.inl ⟨_, rfl⟩)
      · exact Or.inl rfl
      · exact Or.inl rfl
  | slice h d sb eb =>
    rw [strStep_slice]
    cases getH s h with
    | none => exact Or.inl rfl
    | some hd =>
      simp only
      split
      · split
        · exact Or.inr (Or.inl ⟨_, rfl⟩)
        · exact Or.inl rfl
      · exact Or.inl rfl
  | fromUtf8 d bs =>
    rw [strStep_fromUtf8]
    split
    · exact Or.inr (Or.inl ⟨_, rfl⟩)
    · exact Or.inl rfl

/-- **S3.** A `HipStr` call that is rejected by the layer — a panic (`truncate`/`slice` off a char
boundary or out of range), a `try_slice` error, a `from_utf8` error — leaves the whole state
(every value, every reference count, every buffer) exactly as it was. -/
theorem strStep_reject_unchanged (cfg : Cfg) (s : State) (sop : StrOp)
    (hr : (strStep cfg s sop).2 = .panic ∨ (∃ e, (strStep cfg s sop).2 = .sliceErr e) ∨
      (∃ n, (strStep cfg s sop).2 = .utf8Err n)) : (strStep cfg s sop).1 = s := by
  rcases strStep_cases cfg s sop with h | ⟨r, h⟩ | ⟨c, h⟩
  · exact h
  · rw [h] at hr; rcases hr with h' | ⟨_, h'⟩ | ⟨_, h'⟩ <;> cases h'
  · rw [h] at hr; rcases hr with h' | ⟨_, h'⟩ | ⟨_, h'⟩ <;> cases h'

/-! ## S4 — agreement with `String` / `str` on accepted calls -/

theorem sget_some_lt {p : SPool} {h : Nat} {v : List UInt8} (hg : sget p h = some v) : h < p.length := by
  unfold sget at hg
  by_cases hl : h < p.length
  · exact hl
  · rw [List.getElem?_eq_none (Nat.le_of_not_lt hl)] at hg; cases hg

/-- `eraseRet` only forgets capacities -/
theorem eraseRet_eq {r r' : Ret} (h : eraseRet r = r') (hn : ∀ n, r' ≠ .nat n) : r = r' := by
  cases r with
  | nat n => exact absurd h.symm (hn 0)
  | _ => exact h

/-- the refinement theorem, split into its two components -/
theorem core_refines (op : Op) (w : Wf cfg s) (hok : OpOk s op) :
    Core.abs (Core.step cfg s op).1 =
      (Spec.Std.step cfg.icap s.srcs (Core.abs s) op (retFlag (Core.step cfg s op).2.ret)).1 ∧
    eraseRet (Core.step cfg s op).2.ret =
      (Spec.Std.step cfg.icap s.srcs (Core.abs s) op (retFlag (Core.step cfg s op).2.ret)).2 := by
  rw [refines cfg s op w hok]; exact ⟨rfl, rfl⟩

/-- **S4, `truncate`.** `HipStr::truncate(n)` with `n ≤ len` on a char boundary behaves like
`String::truncate`: it returns normally and the value becomes its first `n` bytes. -/
theorem strStep_truncate_spec (w : Wf cfg s) {h n : Nat} {v : List UInt8}
    (hg : sget (Core.abs s) h = some v) (hn : n ≤ v.length) (hb : isBoundary v n = true) :
    (strStep cfg s (.truncate h n)).2 = .byte .unit ∧
    Core.abs (strStep cfg s (.truncate h n)).1 = (Core.abs s).set h (some (v.take n)) ∧
    sget (Core.abs (strStep cfg s (.truncate h n)).1) h = some (v.take n) := by
  obtain ⟨hd, hgh, hview⟩ := sget_abs_some hg
  obtain ⟨r1, r2⟩ := core_refines (cfg := cfg) (.truncate h n) w trivial
  simp only [Spec.Std.step, hg] at r1 r2
  rw [strStep_truncate, hgh]
  simp only [hview, hn, hb, if_true]
  refine ⟨congrArg StrRet.byte (eraseRet_eq r2 (fun _ => Ret.noConfusion)), r1, ?_⟩
  rw [r1]; exact sget_set_same _ _ _ (sget_some_lt hg)

/-- `truncate(n)` beyond the length is a no-op, like `String::truncate`. -/
theorem strStep_truncate_noop {h n : Nat} {v : List UInt8}
    (hg : sget (Core.abs s) h = some v) (hn : v.length < n) :
    strStep cfg s (.truncate h n) = (s, .byte .unit) := by
  obtain ⟨hd, hgh, hview⟩ := sget_abs_some hg
  rw [strStep_truncate, hgh]
  have : ¬ n ≤ v.length := by omega
  simp only [hview, this, if_false]

/-- **S4, `pop`, the unreachable branch.** On a well-formed value `pop` never panics: the boundary
re-check inside the `truncate` it calls always succeeds (`lastCharStart` is a boundary). -/
theorem strStep_popChar_no_panic {h : Nat} (hv : AllValid (Core.abs s)) :
    (strStep cfg s (.popChar h)).2 ≠ .panic := by
  rw [strStep_popChar]
  cases hgh : getH s h with
  | none => exact StrRet.noConfusion
  | some hd =>
    have hval := hv h _ (sget_abs_of_getH hgh)
    simp only
    split
    · exact StrRet.noConfusion
    · rename_i hne
      have hne' : view s hd ≠ [] := by intro e; rw [e] at hne; exact hne rfl
      rw [if_pos (lastCharStart_spec hval hne').1]
      exact StrRet.noConfusion

/-- **S4, `pop`.** On a non-empty well-formed value, `HipStr::pop` returns exactly the encoding of
the last scalar value (`v.drop (lastCharStart v) = encode c` for a scalar `c`) and leaves the
value without it, like `String::pop`. -/
theorem strStep_popChar_spec (w : Wf cfg s) {h : Nat} {v : List UInt8}
    (hg : sget (Core.abs s) h = some v) (hval : valid v = true) (hne : v ≠ []) :
    (strStep cfg s (.popChar h)).2 = .char (some (v.drop (lastCharStart v))) ∧
    (∃ c, isScalar c = true ∧ v.drop (lastCharStart v) = encode c) ∧
    Core.abs (strStep cfg s (.popChar h)).1 = (Core.abs s).set h (some (v.take (lastCharStart v))) ∧
    sget (Core.abs (strStep cfg s (.popChar h)).1) h = some (v.take (lastCharStart v)) := by
  obtain ⟨hd, hgh, hview⟩ := sget_abs_some hg
  obtain ⟨hb, _, _, hc⟩ := lastCharStart_spec hval hne
  obtain ⟨r1, _⟩ := core_refines (cfg := cfg) (.truncate h (lastCharStart v)) w trivial
  simp only [Spec.Std.step, hg] at r1
  have hl : ¬ v.length = 0 := by intro e; exact hne (List.eq_nil_of_length_eq_zero e)
  rw [strStep_popChar, hgh]
  simp only [hview, hl, hb, if_false, if_true]
  refine ⟨trivial, hc, r1, ?_⟩
  rw [r1]; exact sget_set_same _ _ _ (sget_some_lt hg)

/-- `pop` on an empty value returns `None` and changes nothing. -/
theorem strStep_popChar_empty {h : Nat} (hg : sget (Core.abs s) h = some []) :
    strStep cfg s (.popChar h) = (s, .char none) := by
  obtain ⟨hd, hgh, hview⟩ := sget_abs_some hg
  rw [strStep_popChar, hgh]
  simp only [hview, List.length_nil, if_true]

/-- **S4, `push(char)`.** `HipStr::push(c)` appends exactly `encode c` (`char::encode_utf8`). -/
theorem strStep_pushChar_spec (w : Wf cfg s) {h c : Nat} {v : List UInt8}
    (hg : sget (Core.abs s) h = some v) :
    (strStep cfg s (.pushChar h c)).2 = .byte .unit ∧
    Core.abs (strStep cfg s (.pushChar h c)).1 = (Core.abs s).set h (some (v ++ encode c)) ∧
    sget (Core.abs (strStep cfg s (.pushChar h c)).1) h = some (v ++ encode c) := by
  obtain ⟨r1, r2⟩ := core_refines (cfg := cfg) (.pushSlice h (encode c)) w trivial
  simp only [Spec.Std.step, hg] at r1 r2
  rw [strStep_pushChar]
  refine ⟨congrArg StrRet.byte (eraseRet_eq r2 (fun _ => Ret.noConfusion)), r1, ?_⟩
  rw [r1]; exact sget_set_same _ _ _ (sget_some_lt hg)

/-- **S4, `push_str`.** `HipStr::push_str(t)` appends exactly the bytes of `t`. -/
theorem strStep_pushStr_spec (w : Wf cfg s) {h : Nat} {bs v : List UInt8}
    (hg : sget (Core.abs s) h = some v) :
    (strStep cfg s (.pushStr h bs)).2 = .byte .unit ∧
    Core.abs (strStep cfg s (.pushStr h bs)).1 = (Core.abs s).set h (some (v ++ bs)) ∧
    sget (Core.abs (strStep cfg s (.pushStr h bs)).1) h = some (v ++ bs) := by
  obtain ⟨r1, r2⟩ := core_refines (cfg := cfg) (.pushSlice h bs) w trivial
  simp only [Spec.Std.step, hg] at r1 r2
  rw [strStep_pushStr]
  refine ⟨congrArg StrRet.byte (eraseRet_eq r2 (fun _ => Ret.noConfusion)), r1, ?_⟩
  rw [r1]; exact sget_set_same _ _ _ (sget_some_lt hg)

/-- **S4, `try_slice`, complete case analysis** (slot `d` free): with `stdGet` the range std's
`get` accepts, `try_slice` answers `StartNotACharBoundary` / `EndNotACharBoundary` when that range is
not on boundaries (in this order), the range error std's bound checks name when there is no such
range, and otherwise `Ok` with slot `d` holding exactly `v[a..b]`; errors leave the state alone. -/
theorem strStep_trySlice_spec (w : Wf cfg s) {h d : Nat} {sb eb : Bound} {v : List UInt8}
    (hok : StrOk s (.trySlice h d sb eb)) (hg : sget (Core.abs s) h = some v) (hf : slotFree s d = true) :
    match stdGet sb eb v.length with
    | some (a, b) =>
      if isBoundary v a = false then strStep cfg s (.trySlice h d sb eb) = (s, .sliceErr (.startNotBoundary a b))
      else if isBoundary v b = false then
        strStep cfg s (.trySlice h d sb eb) = (s, .sliceErr (.endNotBoundary a b))
      else
        (strStep cfg s (.trySlice h d sb eb)).2 = .byte (.bool true) ∧
        Core.abs (strStep cfg s (.trySlice h d sb eb)).1 = (Core.abs s).set d (some ((v.drop a).take (b - a))) ∧
        sget (Core.abs (strStep cfg s (.trySlice h d sb eb)).1) d = some ((v.drop a).take (b - a))
    | none =>
      ∃ a b k, Spec.Std.sliceErrOf sb eb v.length = .sliceErr a b k ∧
        strStep cfg s (.trySlice h d sb eb) = (s, .sliceErr (.range a b k)) := by
  obtain ⟨hd, hgh, hview⟩ := sget_abs_some hg
  have hiff := simplify_stdGet (d := d) hok hgh ⟨cfg, w⟩
  rw [hview] at hiff
  obtain ⟨hfs, hfe, hl⟩ := id hok
  have hlen : v.length ≤ isizeMax := by
    rw [← hview, A.view_length (w.handles h hd hgh)]; exact hl hd hgh
  rw [strStep_trySlice, hgh]
  simp only [hview]
  cases hst : stdGet sb eb v.length with
  | some p =>
    obtain ⟨a, b⟩ := p
    rw [(hiff a b).mpr hst]
    simp only
    by_cases ha : isBoundary v a = false
    · simp only [ha, Bool.not_false, if_true]
    · by_cases hb : isBoundary v b = false
      · simp only [Bool.not_eq_false] at ha
        simp only [ha, hb, Bool.not_true, Bool.not_false, Bool.false_eq_true, Bool.true_eq_false, if_false, if_true]
      · simp only [Bool.not_eq_false] at ha hb
        simp only [ha, hb, Bool.not_true, Bool.false_eq_true, Bool.true_eq_false, if_false]
        obtain ⟨r1, r2⟩ := core_refines (cfg := cfg) (.trySlice h d sb eb) w hok
        simp only [Spec.Std.step, hg, sfree_abs, hf, if_true, hst] at r1 r2
        refine ⟨congrArg StrRet.byte (eraseRet_eq r2 (fun _ => Ret.noConfusion)), r1, ?_⟩
        rw [r1]
        exact sget_set_same _ _ _ (by rw [abs_length]; exact (slotFree_iff.mp hf).1)
  | none =>
    simp only
    rcases Props.C08.simplify_ok_or_err sb eb v.length with ⟨⟨a, b⟩, hsim⟩ | ⟨⟨a, b, k⟩, hsim⟩
    · rw [(hiff a b).mp hsim] at hst; cases hst
    · rw [hsim]
      exact ⟨a, b, k, A.sliceErrOf_eq sb eb _ a b k hfs hfe hlen hsim, rfl⟩

/-- **S4, `try_slice` accepted ⇔ std accepts the range and both ends are char boundaries.** -/
theorem strStep_trySlice_accepted_iff (w : Wf cfg s) {h d : Nat} {sb eb : Bound} {v : List UInt8}
    (hok : StrOk s (.trySlice h d sb eb)) (hg : sget (Core.abs s) h = some v) (hf : slotFree s d = true) :
    (strStep cfg s (.trySlice h d sb eb)).2 = .byte (.bool true) ↔
      ∃ a b, stdGet sb eb v.length = some (a, b) ∧ isBoundary v a = true ∧ isBoundary v b = true := by
  have hspec := strStep_trySlice_spec (cfg := cfg) w hok hg hf
  cases hst : stdGet sb eb v.length with
  | none =>
    rw [hst] at hspec
    obtain ⟨a, b, k, _, he⟩ := hspec
    rw [he]
    constructor
    · intro h'; cases h'
    · rintro ⟨_, _, h', _⟩; cases h'
  | some p =>
    obtain ⟨a, b⟩ := p
    rw [hst] at hspec
    simp only at hspec
    by_cases ha : isBoundary v a = false
    · rw [if_pos ha] at hspec
      rw [hspec]
      constructor
      · intro h'; cases h'
      · rintro ⟨a', b', h', ha', _⟩; cases h'; rw [ha] at ha'; cases ha'
    · rw [if_neg ha] at hspec
      by_cases hb : isBoundary v b = false
      · rw [if_pos hb] at hspec
        rw [hspec]
        constructor
        · intro h'; cases h'
        · rintro ⟨a', b', h', _, hb'⟩; cases h'; rw [hb] at hb'; cases hb'
      · rw [if_neg hb] at hspec
        simp only [Bool.not_eq_false] at ha hb
        exact ⟨fun _ => ⟨a, b, rfl, ha, hb⟩, fun _ => hspec.1⟩

/-- **S4, `slice`, complete case analysis** (slot `d` free): `slice` returns `v[a..b]` in slot `d`
exactly when std's indexing accepts the range and both ends are char boundaries, and panics —
leaving the state alone — otherwise (like `&s[a..b]`). -/
theorem strStep_slice_spec (w : Wf cfg s) {h d : Nat} {sb eb : Bound} {v : List UInt8}
    (hok : StrOk s (.slice h d sb eb)) (hg : sget (Core.abs s) h = some v) (hf : slotFree s d = true) :
    match stdGet sb eb v.length with
    | some (a, b) =>
      if isBoundary v a = true ∧ isBoundary v b = true then
        (strStep cfg s (.slice h d sb eb)).2 = .byte .unit ∧
        Core.abs (strStep cfg s (.slice h d sb eb)).1 = (Core.abs s).set d (some ((v.drop a).take (b - a))) ∧
        sget (Core.abs (strStep cfg s (.slice h d sb eb)).1) d = some ((v.drop a).take (b - a))
      else strStep cfg s (.slice h d sb eb) = (s, .panic)
    | none => strStep cfg s (.slice h d sb eb) = (s, .panic) := by
  obtain ⟨hd, hgh, hview⟩ := sget_abs_some hg
  have hiff := simplify_stdGet (d := d) hok hgh ⟨cfg, w⟩
  rw [hview] at hiff
  rw [strStep_slice, hgh]
  simp only [hview]
  cases hst : stdGet sb eb v.length with
  | some p =>
    obtain ⟨a, b⟩ := p
    rw [(hiff a b).mpr hst]
    simp only
    by_cases hab : isBoundary v a = true ∧ isBoundary v b = true
    · rw [if_pos hab]
      simp only [hab.1, hab.2, Bool.and_self, if_true]
      obtain ⟨r1, r2⟩ := core_refines (cfg := cfg) (.slice h d sb eb) w hok
      simp only [Spec.Std.step, hg, sfree_abs, hf, if_true, hst] at r1 r2
      refine ⟨congrArg StrRet.byte (eraseRet_eq r2 (fun _ => Ret.noConfusion)), r1, ?_⟩
      rw [r1]
      exact sget_set_same _ _ _ (by rw [abs_length]; exact (slotFree_iff.mp hf).1)
    · rw [if_neg hab]
      have : (isBoundary v a && isBoundary v b) = false := by
        cases h1 : isBoundary v a <;> cases h2 : isBoundary v b <;> simp_all
      simp only [this, Bool.false_eq_true, if_false]
  | none =>
    simp only
    rcases Props.C08.simplify_ok_or_err sb eb v.length with ⟨⟨a, b⟩, hsim⟩ | ⟨x, hsim⟩
    · rw [(hiff a b).mp hsim] at hst; cases hst
    · rw [hsim]

/-- **S4, `from_utf8`.** Ill-formed bytes are rejected with `valid_up_to` = the length of the
longest well-formed prefix, and nothing changes; well-formed bytes are accepted and (slot `d`
free) the new value is exactly those bytes. -/
theorem strStep_fromUtf8_spec (w : Wf cfg s) (d : Nat) (bs : List UInt8) :
    (valid bs = false → strStep cfg s (.fromUtf8 d bs) = (s, .utf8Err (validUpTo bs))) ∧
    (valid bs = true → slotFree s d = true →
      (strStep cfg s (.fromUtf8 d bs)).2 = .byte .unit ∧
      Core.abs (strStep cfg s (.fromUtf8 d bs)).1 = (Core.abs s).set d (some bs) ∧
      sget (Core.abs (strStep cfg s (.fromUtf8 d bs)).1) d = some bs) := by
  rw [strStep_fromUtf8]
  constructor
  · intro hv; simp only [hv, Bool.false_eq_true, if_false]
  · intro hv hf
    simp only [hv, if_true]
    obtain ⟨r1, r2⟩ := core_refines (cfg := cfg) (.fromSlice d bs) w trivial
    simp only [Spec.Std.step, sfree_abs, hf, if_true] at r1 r2
    refine ⟨congrArg StrRet.byte (eraseRet_eq r2 (fun _ => Ret.noConfusion)), r1, ?_⟩
    rw [r1]
    exact sget_set_same _ _ _ (by rw [abs_length]; exact (slotFree_iff.mp hf).1)

/-- **S4, `from_utf8` accepted ⇔ the bytes are well-formed UTF-8** (an accepted call answers with a
byte-level result, a rejected one with `Utf8Error { valid_up_to }`). -/
theorem strStep_fromUtf8_accepted_iff (d : Nat) (bs : List UInt8) :
    (∃ r, (strStep cfg s (.fromUtf8 d bs)).2 = .byte r) ↔ valid bs = true := by
  rw [strStep_fromUtf8]
  cases hv : valid bs with
  | true => simp
  | false =>
    simp only [Bool.false_eq_true, if_false]
    constructor
    · rintro ⟨_, h'⟩; cases h'
    · intro h'; cases h'

/-! ## S5 — histories -/

theorem strRun_nil (cfg : Cfg) (s : State) : strRun cfg s [] = (s, []) := rfl

theorem strRun_cons (cfg : Cfg) (s : State) (op : StrOp) (ops : List StrOp) :
    strRun cfg s (op :: ops) =
      ((strRun cfg (strStep cfg s op).1 ops).1, (strStep cfg s op).2 :: (strRun cfg (strStep cfg s op).1 ops).2) := rfl

/-- **S5.** The representation invariant holds after any history of `HipStr` calls. -/
theorem strRun_wf (cfg : Cfg) (ops : List StrOp) : ∀ s, Wf cfg s → Wf cfg (strRun cfg s ops).1 := by
  induction ops with
  | nil => intro s w; exact w
  | cons op ops ih => intro s w; rw [strRun_cons]; exact ih _ (strStep_wf op w)

/-- **S5.** Through ANY history of `HipStr` calls a Rust program can make (bounds are `usize`s,
`&str`/`char` arguments are what their types say) every value stays well-formed UTF-8 — the only
hypotheses are about argument TYPES, never about char boundaries. -/
theorem strRun_valid (cfg : Cfg) (ops : List StrOp) :
    ∀ s, Wf cfg s → AllStrOk cfg s ops → AllValid (Core.abs s) → AllValid (Core.abs (strRun cfg s ops).1) := by
  induction ops with
  | nil => intro s _ _ hv; exact hv
  | cons op ops ih =>
    intro s w hok hv
    rw [strRun_cons]
    exact ih _ (strStep_wf op w) hok.2 (strStep_valid op w hok.1.1 hv hok.1.2)

/-- the empty pool is (vacuously) all well-formed -/
theorem allValid_init (srcs : List (List UInt8)) (n : Nat) : AllValid (Core.abs (Core.init srcs n)) := by
  intro h v hg
  obtain ⟨hd, hgh, _⟩ := sget_abs_some hg
  have : getH (Core.init srcs n) h = none := by
    simp only [getH, Core.init]
    by_cases hl : h < n
    · simp [hl]
    · have : (List.replicate n (none : Option Handle))[h]? = none :=
        List.getElem?_eq_none (by simpa using Nat.le_of_not_lt hl)
      simp [this]
  rw [this] at hgh; cases hgh

/-- **S5, from the initial state.** Every state reachable from the empty pool by `HipStr` calls
satisfies the invariant and holds only well-formed UTF-8. -/
theorem strRun_init_valid (cfg : Cfg) (srcs : List (List UInt8)) (n : Nat) (ops : List StrOp)
    (hok : AllStrOk cfg (Core.init srcs n) ops) :
    Wf cfg (strRun cfg (Core.init srcs n) ops).1 ∧ AllValid (Core.abs (strRun cfg (Core.init srcs n) ops).1) :=
  ⟨strRun_wf cfg ops _ (wf_init cfg srcs n),
    strRun_valid cfg ops _ (wf_init cfg srcs n) hok (allValid_init srcs n)⟩

end HipVerif.Str
