/-
`Wf`, refinement, `srcs` and `NormOk` through the in-place / consuming operations of the Core
state machine: `pushSlice`, `pop`, `truncate`, `clear`, `shrinkTo`, `shrinkToFit`, `asMutWrite`,
`toMutWrite`, `makeAsciiLower`, `makeAsciiUpper`, `mutate`, `mutateLeak`, `intoVec`, `toVec`,
`spareCapacity`.
-/
import HipVerif.Lemmas.CorePrimsB

namespace HipVerif.Core
open HipVerif.Spec.Std

/-! ### `truncate` / `clear` / `pop` -/

theorem truncateOp_srcs (cfg : Cfg) (s : State) (h : Nat) (hd : Handle) (n : Nat) (ret : Ret) :
    (truncateOp cfg s h hd n ret).1.srcs = s.srcs := by
  unfold truncateOp
  split
  · simp only
    split
    · split
      · rfl
      · cases hd.repr with
        | inline bs => rfl
        | borrowed a b c => rfl
        | heap o pb off len =>
          simp only
          split
          · simp [ok, release_srcs]
          · rfl
    · cases hd.repr with
      | inline bs => rfl
      | borrowed a b c => rfl
      | heap o pb off len =>
        simp only
        split
        · simp [ok, release_srcs]
        · rfl
  · rfl

theorem truncateOp_spec {cfg : Cfg} {s : State} (w : Wf cfg s) {h : Nat} {hd : Handle}
    (hg : getH s h = some hd) (n : Nat) (ret : Ret) :
    Wf cfg (truncateOp cfg s h hd n ret).1 ∧
    abs (truncateOp cfg s h hd n ret).1 = (abs s).set h (some ((view s hd).take n)) ∧
    (truncateOp cfg s h hd n ret).2.ret = ret ∧
    (NormOk cfg s → NormOk cfg (truncateOp cfg s h hd n ret).1) := by
  have hl := getH_some_lt hg
  have hok := w.handles h hd hg
  have hvl := hlen_eq_view_length hok
  unfold truncateOp
  by_cases hn : n < hlen hd
  · simp only [hn, if_true]
    -- every branch stores a normalised handle, so the debug assertion never fires
    have key : ∀ (s1 : State) (hd' : Handle) (ev : List Event), s1.pool = s.pool →
        getH (ok (setH s1 h (some hd')) ret ev).1 h = some hd' := by
      intro s1 hd' ev hp
      exact getH_setH_same _ _ _ (by rw [hp]; exact hl)
    cases hr : hd.repr with
    | inline bs =>
      simp only
      have hnm : isNormalized cfg { hd with repr := .inline (bs.take n) } = true := rfl
      simp only [key s _ [] rfl, dbgFails, hnm, Bool.not_true, Bool.and_false, Bool.false_eq_true, if_false]
      have hd0 : dropRepr cfg s hd.repr = (s, []) := by rw [hr]; rfl
      unfold HandleOk at hok; rw [hr] at hok
      refine ⟨?_, ?_, rfl, ?_⟩
      · have := wf_drop_put_nonheap w hg (hd' := { hd with repr := .inline (bs.take n) })
          (by show (bs.take n).length ≤ cfg.icap; simp only [List.length_take]; omega) rfl
        rw [hd0] at this; exact this
      · simp only [ok, abs_setH, Option.map_some, view_inline_eq hr]; rfl
      · intro hno; exact normOk_setH_b hno rfl (fun _ he _ => by cases he; exact hnm)
    | borrowed a b c =>
      simp only
      have hnm : isNormalized cfg { hd with repr := .borrowed a b n } = true := rfl
      simp only [key s _ [] rfl, dbgFails, hnm, Bool.not_true, Bool.and_false, Bool.false_eq_true, if_false]
      have hd0 : dropRepr cfg s hd.repr = (s, []) := by rw [hr]; rfl
      unfold HandleOk at hok; rw [hr] at hok
      have hnc : n < c := by unfold hlen at hn; rw [hr] at hn; exact hn
      refine ⟨?_, ?_, rfl, ?_⟩
      · have := wf_drop_put_nonheap w hg (hd' := { hd with repr := .borrowed a b n })
          (by show b + n ≤ _; omega) rfl
        rw [hd0] at this; exact this
      · simp only [ok, abs_setH, Option.map_some]
        congr 2
        simp only [view, hr, List.take_take]
        congr 1; omega
      · intro hno; exact normOk_setH_b hno rfl (fun _ he _ => by cases he; exact hnm)
    | heap o pb off len =>
      simp only
      have hnc : n < len := by unfold hlen at hn; rw [hr] at hn; exact hn
      unfold HandleOk at hok; rw [hr] at hok
      obtain ⟨x, hx, hlive, hpb, hrng⟩ := hok
      by_cases hi : n ≤ cfg.icap
      · simp only [hi, if_true]
        have hnm : isNormalized cfg { hd with repr := .inline ((view s hd).take n) } = true := rfl
        simp only [key _ _ _ (release_pool cfg s o), dbgFails, hnm, Bool.not_true, Bool.and_false,
          Bool.false_eq_true, if_false]
        have hd0 : dropRepr cfg s hd.repr = release cfg s o := by rw [hr]; rfl
        refine ⟨?_, ?_, rfl, ?_⟩
        · have := wf_drop_put_nonheap w hg (hd' := { hd with repr := .inline ((view s hd).take n) })
            (by show ((view s hd).take n).length ≤ cfg.icap; simp only [List.length_take]; omega) rfl
          rw [hd0] at this; exact this
        · have := abs_drop_put (cfg := cfg) (s := s) (h := h) (hd := hd)
            { hd with repr := .inline ((view s hd).take n) }
          rw [hd0] at this
          exact this
        · intro hno
          exact normOk_setH_b hno (release_pool cfg s o) (fun _ he _ => by cases he; exact hnm)
      · simp only [hi, if_false]
        have hnm : isNormalized cfg { hd with repr := .heap o pb off n } = true := by
          simp [isNormalized, hlen]; omega
        simp only [key s _ [] rfl, dbgFails, hnm, Bool.not_true, Bool.and_false, Bool.false_eq_true, if_false]
        refine ⟨?_, ?_, rfl, ?_⟩
        · rw [wf_iff_wfx]
          have wx := (wf_iff_wfx _ _).mp w
          have w1 := wfx_take_heap wx hg hr
          have w2 := wfx_put_heap w1 (d := h) (getH_setH_same _ _ _ hl) (by simpa using hl)
            (x := x) (by simpa using hx) (b := pb) (off := off) (len := n) hpb (by omega) hd.tainted
          rw [setH_setH] at w2
          exact w2
        · simp only [ok, abs_setH, Option.map_some]
          congr 2
          simp only [view, hr, List.take_take]
          congr 1; omega
        · intro hno
          exact normOk_setH_b hno rfl (fun _ he _ => by cases he; exact hnm)
  · simp only [hn, if_false]
    refine ⟨w, ?_, rfl, fun hno => hno⟩
    show abs s = _
    rw [List.take_of_length_le (by omega), abs_set_self hg]

theorem wf_op_truncate {cfg : Cfg} {s : State} (h n : Nat) :
    Wf cfg s → Wf cfg (step cfg s (.truncate h n)).1 := by
  intro w
  simp only [step]
  cases hg : getH s h with
  | none => exact w
  | some hd => exact (truncateOp_spec w hg n .unit).1

theorem ref_op_truncate {cfg : Cfg} {s : State} (h n : Nat) :
    Wf cfg s → OpOk s (.truncate h n) →
    Spec.Std.step cfg.icap s.srcs (abs s) (.truncate h n) (retFlag (step cfg s (.truncate h n)).2.ret) =
      (abs (step cfg s (.truncate h n)).1, eraseRet (step cfg s (.truncate h n)).2.ret) := by
  intro w _
  simp only [step, Spec.Std.step, sget_abs]
  cases hg : getH s h with
  | none => rfl
  | some hd =>
    obtain ⟨_, ha, hr, _⟩ := truncateOp_spec w hg n .unit
    simp only [Option.map_some, ha, hr]; rfl

theorem srcs_op_truncate {cfg : Cfg} {s : State} (h n : Nat) :
    (step cfg s (.truncate h n)).1.srcs = s.srcs := by
  simp only [step]
  cases getH s h with
  | none => rfl
  | some hd => exact truncateOp_srcs ..

theorem norm_op_truncate {cfg : Cfg} {s : State} (h n : Nat) :
    Wf cfg s → NormOk cfg s → NormOk cfg (step cfg s (.truncate h n)).1 := by
  intro w hn
  simp only [step]
  cases hg : getH s h with
  | none => exact hn
  | some hd => exact (truncateOp_spec w hg n .unit).2.2.2 hn

theorem wf_op_clear {cfg : Cfg} {s : State} (h : Nat) :
    Wf cfg s → Wf cfg (step cfg s (.clear h)).1 := by
  intro w
  simp only [step]
  cases hg : getH s h with
  | none => exact w
  | some hd => exact (truncateOp_spec w hg 0 .unit).1

theorem ref_op_clear {cfg : Cfg} {s : State} (h : Nat) :
    Wf cfg s → OpOk s (.clear h) →
    Spec.Std.step cfg.icap s.srcs (abs s) (.clear h) (retFlag (step cfg s (.clear h)).2.ret) =
      (abs (step cfg s (.clear h)).1, eraseRet (step cfg s (.clear h)).2.ret) := by
  intro w _
  simp only [step, Spec.Std.step, sget_abs]
  cases hg : getH s h with
  | none => rfl
  | some hd =>
    obtain ⟨_, ha, hr, _⟩ := truncateOp_spec w hg 0 .unit
    simp only [Option.map_some, ha, hr]; rfl

theorem srcs_op_clear {cfg : Cfg} {s : State} (h : Nat) :
    (step cfg s (.clear h)).1.srcs = s.srcs := by
  simp only [step]
  cases getH s h with
  | none => rfl
  | some hd => exact truncateOp_srcs ..

theorem norm_op_clear {cfg : Cfg} {s : State} (h : Nat) :
    Wf cfg s → NormOk cfg s → NormOk cfg (step cfg s (.clear h)).1 := by
  intro w hn
  simp only [step]
  cases hg : getH s h with
  | none => exact hn
  | some hd => exact (truncateOp_spec w hg 0 .unit).2.2.2 hn

theorem wf_op_pop {cfg : Cfg} {s : State} (h : Nat) :
    Wf cfg s → Wf cfg (step cfg s (.pop h)).1 := by
  intro w
  simp only [step]
  cases hg : getH s h with
  | none => exact w
  | some hd =>
    simp only
    split
    · exact w
    · exact (truncateOp_spec w hg _ _).1

theorem ref_op_pop {cfg : Cfg} {s : State} (h : Nat) :
    Wf cfg s → OpOk s (.pop h) →
    Spec.Std.step cfg.icap s.srcs (abs s) (.pop h) (retFlag (step cfg s (.pop h)).2.ret) =
      (abs (step cfg s (.pop h)).1, eraseRet (step cfg s (.pop h)).2.ret) := by
  intro w _
  simp only [step, Spec.Std.step, sget_abs]
  cases hg : getH s h with
  | none => rfl
  | some hd =>
    simp only [Option.map_some]
    by_cases h0 : (view s hd).length = 0
    · simp only [h0, if_true]; rfl
    · obtain ⟨_, ha, hr, _⟩ := truncateOp_spec w hg ((view s hd).length - 1) (.optByte (view s hd).getLast?)
      simp only [h0, if_false, ha, hr, List.dropLast_eq_take]; rfl

theorem srcs_op_pop {cfg : Cfg} {s : State} (h : Nat) :
    (step cfg s (.pop h)).1.srcs = s.srcs := by
  simp only [step]
  cases getH s h with
  | none => rfl
  | some hd =>
    simp only
    split
    · rfl
    · exact truncateOp_srcs ..

theorem norm_op_pop {cfg : Cfg} {s : State} (h : Nat) :
    Wf cfg s → NormOk cfg s → NormOk cfg (step cfg s (.pop h)).1 := by
  intro w hn
  simp only [step]
  cases hg : getH s h with
  | none => exact hn
  | some hd =>
    simp only
    split
    · exact hn
    · exact (truncateOp_spec w hg _ _).2.2.2 hn

/-! ### `shrink_to` / `shrink_to_fit` -/

theorem shrinkToOp_srcs (cfg : Cfg) (s : State) (h : Nat) (hd : Handle) (n : Nat) :
    (shrinkToOp cfg s h hd n).1.srcs = s.srcs := by
  unfold shrinkToOp
  cases hd.repr with
  | inline bs => rfl
  | borrowed a b c => rfl
  | heap o pb off len =>
    simp only
    split
    · cases getI s o with
      | none => rfl
      | some x =>
        simp only
        split
        · rfl
        · simp [ok, release_srcs]; rfl
    · simp [ok, release_srcs]

theorem shrinkToOp_spec {cfg : Cfg} {s : State} (w : Wf cfg s) {h : Nat} {hd : Handle}
    (hg : getH s h = some hd) (n : Nat) :
    Wf cfg (shrinkToOp cfg s h hd n).1 ∧
    abs (shrinkToOp cfg s h hd n).1 = abs s ∧
    (shrinkToOp cfg s h hd n).2.ret = .unit ∧
    (NormOk cfg s → NormOk cfg (shrinkToOp cfg s h hd n).1) := by
  have hl := getH_some_lt hg
  have hok := w.handles h hd hg
  have hvl := hlen_eq_view_length hok
  unfold shrinkToOp
  cases hr : hd.repr with
  | inline bs => exact ⟨w, rfl, rfl, fun hn => hn⟩
  | borrowed a b c => exact ⟨w, rfl, rfl, fun hn => hn⟩
  | heap o pb off len =>
    simp only
    have hlen : hlen hd = len := by unfold hlen; rw [hr]
    unfold HandleOk at hok; rw [hr] at hok
    obtain ⟨x, hx, hlive, hpb, hrng⟩ := hok
    have hd0 : ∀ X, dropRepr cfg X hd.repr = release cfg X o := by intro X; rw [hr]; rfl
    by_cases hm : max n len > cfg.icap
    · simp only [hm, if_true, hx]
      by_cases hcap : x.cap ≤ max n len
      · simp only [hcap, if_true]
        exact ⟨w, rfl, rfl, fun hn => hn⟩
      · simp only [hcap, if_false]
        refine ⟨?_, ?_, rfl, ?_⟩
        · have := wf_reheap w hg (view s hd) (max n len) (by omega) hd.tainted
          rw [hd0] at this; exact this
        · have := abs_reheap (cfg := cfg) w (h := h) hd.repr (view s hd) (max n len) hd.tainted
          rw [hd0, abs_set_self hg] at this; exact this
        · intro hno
          refine normOk_setH_b hno (by rw [release_pool]; rfl) ?_
          intro hd' he ht
          cases he
          have := hno h hd hg ht
          simp only [isNormalized, isInline, isBorrowed, hr, Bool.false_or, decide_eq_true_eq] at this
          show (false || false || decide ((view s hd).length > cfg.icap)) = true
          simp; omega
    · simp only [hm, if_false]
      have hfit : (view s hd).length ≤ cfg.icap := by omega
      refine ⟨?_, ?_, rfl, ?_⟩
      · have := wf_drop_put_nonheap w hg (hd' := { hd with repr := .inline (view s hd) }) hfit rfl
        rw [hd0] at this; exact this
      · have := abs_drop_put (cfg := cfg) (s := s) (h := h) (hd := hd) { hd with repr := .inline (view s hd) }
        rw [hd0] at this
        have hv : view s { hd with repr := .inline (view s hd) } = view s hd := rfl
        rw [hv, abs_set_self hg] at this
        exact this
      · intro hno
        exact normOk_setH_b hno (release_pool cfg s o) (fun _ he _ => by cases he; rfl)

theorem wf_op_shrinkTo {cfg : Cfg} {s : State} (h n : Nat) :
    Wf cfg s → Wf cfg (step cfg s (.shrinkTo h n)).1 := by
  intro w
  simp only [step]
  cases hg : getH s h with
  | none => exact w
  | some hd => exact (shrinkToOp_spec w hg n).1

theorem ref_op_shrinkTo {cfg : Cfg} {s : State} (h n : Nat) :
    Wf cfg s → OpOk s (.shrinkTo h n) →
    Spec.Std.step cfg.icap s.srcs (abs s) (.shrinkTo h n) (retFlag (step cfg s (.shrinkTo h n)).2.ret) =
      (abs (step cfg s (.shrinkTo h n)).1, eraseRet (step cfg s (.shrinkTo h n)).2.ret) := by
  intro w _
  simp only [step, Spec.Std.step, sget_abs]
  cases hg : getH s h with
  | none => rfl
  | some hd =>
    obtain ⟨_, ha, hr, _⟩ := shrinkToOp_spec w hg n
    simp only [Option.map_some, ha, hr]; rfl

theorem srcs_op_shrinkTo {cfg : Cfg} {s : State} (h n : Nat) :
    (step cfg s (.shrinkTo h n)).1.srcs = s.srcs := by
  simp only [step]
  cases getH s h with
  | none => rfl
  | some hd => exact shrinkToOp_srcs ..

theorem norm_op_shrinkTo {cfg : Cfg} {s : State} (h n : Nat) :
    Wf cfg s → NormOk cfg s → NormOk cfg (step cfg s (.shrinkTo h n)).1 := by
  intro w hn
  simp only [step]
  cases hg : getH s h with
  | none => exact hn
  | some hd => exact (shrinkToOp_spec w hg n).2.2.2 hn

theorem wf_op_shrinkToFit {cfg : Cfg} {s : State} (h : Nat) :
    Wf cfg s → Wf cfg (step cfg s (.shrinkToFit h)).1 := by
  intro w
  simp only [step]
  cases hg : getH s h with
  | none => exact w
  | some hd => exact (shrinkToOp_spec w hg _).1

theorem ref_op_shrinkToFit {cfg : Cfg} {s : State} (h : Nat) :
    Wf cfg s → OpOk s (.shrinkToFit h) →
    Spec.Std.step cfg.icap s.srcs (abs s) (.shrinkToFit h) (retFlag (step cfg s (.shrinkToFit h)).2.ret) =
      (abs (step cfg s (.shrinkToFit h)).1, eraseRet (step cfg s (.shrinkToFit h)).2.ret) := by
  intro w _
  simp only [step, Spec.Std.step, sget_abs]
  cases hg : getH s h with
  | none => rfl
  | some hd =>
    obtain ⟨_, ha, hr, _⟩ := shrinkToOp_spec w hg (hlen hd)
    simp only [Option.map_some, ha, hr]; rfl

theorem srcs_op_shrinkToFit {cfg : Cfg} {s : State} (h : Nat) :
    (step cfg s (.shrinkToFit h)).1.srcs = s.srcs := by
  simp only [step]
  cases getH s h with
  | none => rfl
  | some hd => exact shrinkToOp_srcs ..

theorem norm_op_shrinkToFit {cfg : Cfg} {s : State} (h : Nat) :
    Wf cfg s → NormOk cfg s → NormOk cfg (step cfg s (.shrinkToFit h)).1 := by
  intro w hn
  simp only [step]
  cases hg : getH s h with
  | none => exact hn
  | some hd => exact (shrinkToOp_spec w hg _).2.2.2 hn

/-! ### `as_mut_slice` / `to_mut_slice` / `make_ascii_*` -/

theorem setAt_length (i : Nat) (b : UInt8) (l : List UInt8) : (setAt l i b).length = l.length := by
  simp [setAt]

theorem map_length' (g : UInt8 → UInt8) (l : List UInt8) : (l.map g).length = l.length := by simp

/-- the granted branch of `as_mut_slice` followed by one write -/
theorem asMut_granted_spec {cfg : Cfg} {s : State} (w : Wf cfg s) {h : Nat} {hd : Handle}
    (hg : getH s h = some hd) (hnb : isBorrowed hd = false)
    (hu : ∀ o pb off len, hd.repr = .heap o pb off len → ownerUnique cfg s o = true) (i : Nat) (b : UInt8) :
    Wf cfg (if i < hlen hd then
        ok (setH (writeView s hd.repr (fun w => setAt w i b)).1 h
          (some { hd with repr := (writeView s hd.repr (fun w => setAt w i b)).2.1 })) (.bool true)
          (writeView s hd.repr (fun w => setAt w i b)).2.2
      else ok s (.bool true) []).1 ∧
    abs (if i < hlen hd then
        ok (setH (writeView s hd.repr (fun w => setAt w i b)).1 h
          (some { hd with repr := (writeView s hd.repr (fun w => setAt w i b)).2.1 })) (.bool true)
          (writeView s hd.repr (fun w => setAt w i b)).2.2
      else ok s (.bool true) []).1 = (abs s).set h (some ((view s hd).set i b)) ∧
    (NormOk cfg s → NormOk cfg (if i < hlen hd then
        ok (setH (writeView s hd.repr (fun w => setAt w i b)).1 h
          (some { hd with repr := (writeView s hd.repr (fun w => setAt w i b)).2.1 })) (.bool true)
          (writeView s hd.repr (fun w => setAt w i b)).2.2
      else ok s (.bool true) []).1) := by
  have hvl := hlen_eq_view_length (w.handles h hd hg)
  by_cases hi : i < hlen hd
  · simp only [hi, if_true]
    obtain ⟨h1, h2, h3⟩ := writeView_spec w hg hnb hu (fun w => setAt w i b) (setAt_length i b)
    refine ⟨h1, h2, fun hno => ?_⟩
    refine normOk_setH_b hno (writeView_pool_b ..) ?_
    intro hd' he ht
    cases he
    rw [h3]; exact hno h hd hg ht
  · simp only [hi, if_false]
    refine ⟨w, ?_, fun hno => hno⟩
    show abs s = _
    rw [List.set_eq_of_length_le (l := view s hd) (by omega), abs_set_self hg]

theorem asMutWrite_spec {cfg : Cfg} {s : State} (w : Wf cfg s) {h : Nat} {hd : Handle}
    (hg : getH s h = some hd) (i : Nat) (b : UInt8) :
    Wf cfg (step cfg s (.asMutWrite h i b)).1 ∧
    (((step cfg s (.asMutWrite h i b)).2.ret = .bool true ∧
        abs (step cfg s (.asMutWrite h i b)).1 = (abs s).set h (some ((view s hd).set i b))) ∨
      ((step cfg s (.asMutWrite h i b)).2.ret = .bool false ∧ (step cfg s (.asMutWrite h i b)).1 = s)) ∧
    (NormOk cfg s → NormOk cfg (step cfg s (.asMutWrite h i b)).1) := by
  simp only [step, hg]
  cases hr : hd.repr with
  | inline bs =>
    simp only [if_true]
    have := asMut_granted_spec w hg (by unfold isBorrowed; rw [hr])
      (by intro o pb off len he; rw [hr] at he; cases he) i b
    rw [hr] at this
    refine ⟨this.1, Or.inl ⟨?_, this.2.1⟩, this.2.2⟩
    split <;> rfl
  | borrowed a b' c => exact ⟨w, Or.inr ⟨rfl, rfl⟩, fun hno => hno⟩
  | heap o pb off len =>
    simp only
    by_cases hu : ownerUnique cfg s o = true
    · simp only [hu, if_true]
      have := asMut_granted_spec w hg (by unfold isBorrowed; rw [hr])
        (by intro o' pb' off' len' he; rw [hr] at he; cases he; exact hu) i b
      rw [hr] at this
      refine ⟨this.1, Or.inl ⟨?_, this.2.1⟩, this.2.2⟩
      split <;> rfl
    · simp only [hu]
      exact ⟨w, Or.inr ⟨rfl, rfl⟩, fun hno => hno⟩

theorem wf_op_asMutWrite {cfg : Cfg} {s : State} (h i : Nat) (b : UInt8) :
    Wf cfg s → Wf cfg (step cfg s (.asMutWrite h i b)).1 := by
  intro w
  cases hg : getH s h with
  | none => simp only [step, hg]; exact w
  | some hd => exact (asMutWrite_spec w hg i b).1

theorem ref_op_asMutWrite {cfg : Cfg} {s : State} (h i : Nat) (b : UInt8) :
    Wf cfg s → OpOk s (.asMutWrite h i b) →
    Spec.Std.step cfg.icap s.srcs (abs s) (.asMutWrite h i b) (retFlag (step cfg s (.asMutWrite h i b)).2.ret) =
      (abs (step cfg s (.asMutWrite h i b)).1, eraseRet (step cfg s (.asMutWrite h i b)).2.ret) := by
  intro w _
  cases hg : getH s h with
  | none => simp only [step, Spec.Std.step, sget_abs, hg]; rfl
  | some hd =>
    simp only [Spec.Std.step, sget_abs, hg, Option.map_some]
    rcases (asMutWrite_spec w hg i b).2.1 with ⟨hr, ha⟩ | ⟨hr, hs⟩
    · rw [hr, ha]; rfl
    · rw [hr, hs]; rfl

theorem srcs_op_asMutWrite {cfg : Cfg} {s : State} (h i : Nat) (b : UInt8) :
    (step cfg s (.asMutWrite h i b)).1.srcs = s.srcs := by
  simp only [step]
  cases getH s h with
  | none => rfl
  | some hd =>
    simp only
    repeat' split
    all_goals first | rfl | simp only [ok, srcs_setH, writeView_srcs_b]

theorem norm_op_asMutWrite {cfg : Cfg} {s : State} (h i : Nat) (b : UInt8) :
    Wf cfg s → NormOk cfg s → NormOk cfg (step cfg s (.asMutWrite h i b)).1 := by
  intro w hno
  cases hg : getH s h with
  | none => simp only [step, hg]; exact hno
  | some hd => exact (asMutWrite_spec w hg i b).2.2 hno

theorem toMutWrite_spec {cfg : Cfg} {s : State} (w : Wf cfg s) {h : Nat} {hd : Handle}
    (hg : getH s h = some hd) (i : Nat) (b : UInt8) :
    Wf cfg (step cfg s (.toMutWrite h i b)).1 ∧
    (step cfg s (.toMutWrite h i b)).2.ret = .unit ∧
    abs (step cfg s (.toMutWrite h i b)).1 = (abs s).set h (some ((view s hd).set i b)) ∧
    (NormOk cfg s → NormOk cfg (step cfg s (.toMutWrite h i b)).1) := by
  have hvl := hlen_eq_view_length (w.handles h hd hg)
  simp only [step, hg]
  by_cases hi : i < hlen hd
  · simp only [hi, if_true]
    obtain ⟨h1, h2, _, h4⟩ := makeUnique_write_spec w hg (fun w => setAt w i b) (setAt_length i b)
    refine ⟨h1, rfl, h2, fun hno => ?_⟩
    refine normOk_setH_b hno (by rw [writeView_pool_b, makeUnique_pool_b]) ?_
    intro hd' he ht
    cases he
    exact h4 (hno h hd hg ht)
  · simp only [hi, if_false]
    have ri := makeUnique_spec w hg
    refine ⟨ri.wf, rfl, ?_, fun hno => ?_⟩
    · show abs (setH _ h _) = _
      rw [ri.abs_eq, List.set_eq_of_length_le (l := view s hd) (by omega), abs_set_self hg]
    · refine normOk_setH_b hno (makeUnique_pool_b ..) ?_
      intro hd' he ht
      cases he
      exact ri.norm (hno h hd hg ht)

theorem wf_op_toMutWrite {cfg : Cfg} {s : State} (h i : Nat) (b : UInt8) :
    Wf cfg s → Wf cfg (step cfg s (.toMutWrite h i b)).1 := by
  intro w
  cases hg : getH s h with
  | none => simp only [step, hg]; exact w
  | some hd => exact (toMutWrite_spec w hg i b).1

theorem ref_op_toMutWrite {cfg : Cfg} {s : State} (h i : Nat) (b : UInt8) :
    Wf cfg s → OpOk s (.toMutWrite h i b) →
    Spec.Std.step cfg.icap s.srcs (abs s) (.toMutWrite h i b) (retFlag (step cfg s (.toMutWrite h i b)).2.ret) =
      (abs (step cfg s (.toMutWrite h i b)).1, eraseRet (step cfg s (.toMutWrite h i b)).2.ret) := by
  intro w _
  cases hg : getH s h with
  | none => simp only [step, Spec.Std.step, sget_abs, hg]; rfl
  | some hd =>
    simp only [Spec.Std.step, sget_abs, hg, Option.map_some]
    obtain ⟨_, hr, ha, _⟩ := toMutWrite_spec w hg i b
    rw [hr, ha]; rfl

theorem srcs_op_toMutWrite {cfg : Cfg} {s : State} (h i : Nat) (b : UInt8) :
    (step cfg s (.toMutWrite h i b)).1.srcs = s.srcs := by
  simp only [step]
  cases getH s h with
  | none => rfl
  | some hd =>
    simp only
    repeat' split
    all_goals first | rfl | simp only [ok, srcs_setH, writeView_srcs_b, makeUnique_srcs_b]

theorem norm_op_toMutWrite {cfg : Cfg} {s : State} (h i : Nat) (b : UInt8) :
    Wf cfg s → NormOk cfg s → NormOk cfg (step cfg s (.toMutWrite h i b)).1 := by
  intro w hno
  cases hg : getH s h with
  | none => simp only [step, hg]; exact hno
  | some hd => exact (toMutWrite_spec w hg i b).2.2.2 hno

theorem makeAsciiLower_spec {cfg : Cfg} {s : State} (w : Wf cfg s) {h : Nat} {hd : Handle}
    (hg : getH s h = some hd) :
    Wf cfg (step cfg s (.makeAsciiLower h)).1 ∧
    (step cfg s (.makeAsciiLower h)).2.ret = .unit ∧
    abs (step cfg s (.makeAsciiLower h)).1 = (abs s).set h (some ((view s hd).map asciiLower)) ∧
    (NormOk cfg s → NormOk cfg (step cfg s (.makeAsciiLower h)).1) := by
  simp only [step, hg]
  obtain ⟨h1, h2, _, h4⟩ := makeUnique_write_spec w hg (fun w => w.map asciiLower) (map_length' asciiLower)
  refine ⟨h1, rfl, h2, fun hno => ?_⟩
  refine normOk_setH_b hno (by rw [writeView_pool_b, makeUnique_pool_b]) ?_
  intro hd' he ht
  cases he
  exact h4 (hno h hd hg ht)

theorem wf_op_makeAsciiLower {cfg : Cfg} {s : State} (h : Nat) :
    Wf cfg s → Wf cfg (step cfg s (.makeAsciiLower h)).1 := by
  intro w
  cases hg : getH s h with
  | none => simp only [step, hg]; exact w
  | some hd => exact (makeAsciiLower_spec w hg).1

theorem ref_op_makeAsciiLower {cfg : Cfg} {s : State} (h : Nat) :
    Wf cfg s → OpOk s (.makeAsciiLower h) →
    Spec.Std.step cfg.icap s.srcs (abs s) (.makeAsciiLower h) (retFlag (step cfg s (.makeAsciiLower h)).2.ret) =
      (abs (step cfg s (.makeAsciiLower h)).1, eraseRet (step cfg s (.makeAsciiLower h)).2.ret) := by
  intro w _
  cases hg : getH s h with
  | none => simp only [step, Spec.Std.step, sget_abs, hg]; rfl
  | some hd =>
    simp only [Spec.Std.step, sget_abs, hg, Option.map_some]
    obtain ⟨_, hr, ha, _⟩ := makeAsciiLower_spec w hg
    rw [hr, ha]; rfl

theorem srcs_op_makeAsciiLower {cfg : Cfg} {s : State} (h : Nat) :
    (step cfg s (.makeAsciiLower h)).1.srcs = s.srcs := by
  simp only [step]
  cases getH s h with
  | none => rfl
  | some hd => simp only [ok, srcs_setH, writeView_srcs_b, makeUnique_srcs_b]

theorem norm_op_makeAsciiLower {cfg : Cfg} {s : State} (h : Nat) :
    Wf cfg s → NormOk cfg s → NormOk cfg (step cfg s (.makeAsciiLower h)).1 := by
  intro w hno
  cases hg : getH s h with
  | none => simp only [step, hg]; exact hno
  | some hd => exact (makeAsciiLower_spec w hg).2.2.2 hno

theorem makeAsciiUpper_spec {cfg : Cfg} {s : State} (w : Wf cfg s) {h : Nat} {hd : Handle}
    (hg : getH s h = some hd) :
    Wf cfg (step cfg s (.makeAsciiUpper h)).1 ∧
    (step cfg s (.makeAsciiUpper h)).2.ret = .unit ∧
    abs (step cfg s (.makeAsciiUpper h)).1 = (abs s).set h (some ((view s hd).map asciiUpper)) ∧
    (NormOk cfg s → NormOk cfg (step cfg s (.makeAsciiUpper h)).1) := by
  simp only [step, hg]
  obtain ⟨h1, h2, _, h4⟩ := makeUnique_write_spec w hg (fun w => w.map asciiUpper) (map_length' asciiUpper)
  refine ⟨h1, rfl, h2, fun hno => ?_⟩
  refine normOk_setH_b hno (by rw [writeView_pool_b, makeUnique_pool_b]) ?_
  intro hd' he ht
  cases he
  exact h4 (hno h hd hg ht)

theorem wf_op_makeAsciiUpper {cfg : Cfg} {s : State} (h : Nat) :
    Wf cfg s → Wf cfg (step cfg s (.makeAsciiUpper h)).1 := by
  intro w
  cases hg : getH s h with
  | none => simp only [step, hg]; exact w
  | some hd => exact (makeAsciiUpper_spec w hg).1

theorem ref_op_makeAsciiUpper {cfg : Cfg} {s : State} (h : Nat) :
    Wf cfg s → OpOk s (.makeAsciiUpper h) →
    Spec.Std.step cfg.icap s.srcs (abs s) (.makeAsciiUpper h) (retFlag (step cfg s (.makeAsciiUpper h)).2.ret) =
      (abs (step cfg s (.makeAsciiUpper h)).1, eraseRet (step cfg s (.makeAsciiUpper h)).2.ret) := by
  intro w _
  cases hg : getH s h with
  | none => simp only [step, Spec.Std.step, sget_abs, hg]; rfl
  | some hd =>
    simp only [Spec.Std.step, sget_abs, hg, Option.map_some]
    obtain ⟨_, hr, ha, _⟩ := makeAsciiUpper_spec w hg
    rw [hr, ha]; rfl

theorem srcs_op_makeAsciiUpper {cfg : Cfg} {s : State} (h : Nat) :
    (step cfg s (.makeAsciiUpper h)).1.srcs = s.srcs := by
  simp only [step]
  cases getH s h with
  | none => rfl
  | some hd => simp only [ok, srcs_setH, writeView_srcs_b, makeUnique_srcs_b]

theorem norm_op_makeAsciiUpper {cfg : Cfg} {s : State} (h : Nat) :
    Wf cfg s → NormOk cfg s → NormOk cfg (step cfg s (.makeAsciiUpper h)).1 := by
  intro w hno
  cases hg : getH s h with
  | none => simp only [step, hg]; exact hno
  | some hd => exact (makeAsciiUpper_spec w hg).2.2.2 hno

end HipVerif.Core
