/-
The slot-level ThinVec operations, fault-free: bridge between the capacity arithmetic of the two
models (`layout_bridge`, `reserve_bridge`) and "spec" lemmas of the ThinVec slot operations
(contents and capacity afterwards).
-/
import HipVerif.Lemmas.SlotsRefineIV
namespace HipVerif.Slots
variable {fl : Bool}
open HipVerif.Vecs (IV TV Outcome Val Reason PanicClass DrainEnd Src TVParams)
open HipVerif.Spec.Vec (Bnd Side)

/-- type parameters of the list-level ThinVec that a slot-level ThinVec with element size `esz`
stands for: 8-byte, 8-aligned prefix (`Reserved` or the tracked prefix of the harness) -/
def tvParams (esz alT : Nat) : TVParams := ⟨esz, alT, 8, 8⟩

/-- element alignments the slot model's fixed header layout (24 bytes, align 8) is right for -/
def AlignOk (alT : Nat) : Prop := alT = 1 ∨ alT = 2 ∨ alT = 4 ∨ alT = 8

/-- bound under which none of the list model's capacity-overflow checks can fire -/
def smallBound : Nat := 2 ^ 40

theorem roundUp24 {alT : Nat} (h : AlignOk alT) : Vecs.roundUp 24 alT = 24 := by
  rcases h with rfl | rfl | rfl | rfl <;> decide

/-- `ThinVec::layout` of the list model computes the slot model's `laySize` / `roundCap` as long
as the request is small (no `LayoutError`) -/
theorem layout_bridge {esz alT n : Nat} (hpos : 0 < esz) (ha : AlignOk alT)
    (he : esz ≤ 1024) (hn : n ≤ 16 * smallBound) :
    Vecs.layout (tvParams esz alT) n = some (⟨laySize esz n, 8⟩, 24, roundCap esz n) := by
  have hmul : esz * n ≤ 1024 * (16 * smallBound) := Nat.mul_le_mul he hn
  have ha8 : alT ≤ 8 := by rcases ha with rfl | rfl | rfl | rfl <;> omega
  have hmax : max 8 alT = 8 := by omega
  unfold Vecs.layout
  simp only [tvParams, Vecs.dataOffset, Vecs.hdrSize, Vecs.hdrAlign, Nat.max_self]
  have h24 : Vecs.roundUp (Vecs.roundUp 8 8 + 16) 8 = 24 := by decide
  rw [h24, roundUp24 ha, hmax]
  have c1 : ¬ esz * n > Vecs.isizeMax + 1 - alT := by
    simp only [Vecs.isizeMax, smallBound] at hmul ⊢; omega
  have c2 : ¬ 24 + esz * n > Vecs.isizeMax + 1 - 8 := by
    simp only [Vecs.isizeMax, smallBound] at hmul ⊢; omega
  simp only [c1, c2, if_false, show ¬ esz = 0 by omega]
  have : Vecs.roundUp (24 + esz * n) 8 = laySize esz n := by
    simp only [Vecs.roundUp, laySize, hdr, Nat.mul_comm esz n]
    rfl
  rw [this]
  simp only [roundCap, laySize, hdr, show ¬ esz = 0 by omega, if_false]

theorem Vec.setCapacity_cap (n : Nat) (v : Vec) :
    (v.setCapacity n).cap =
      if laySize v.h.esz v.cap = laySize v.h.esz n then v.cap else roundCap v.h.esz n := by
  unfold Vec.setCapacity
  split
  · rfl
  · simp only [Vec.cap, List.length_take, List.length_append, uninits, List.length_replicate]
    omega

theorem setCapacity_bridge {cap esz alT n : Nat} (xs : List Nat) (hpos : 0 < esz)
    (ha : AlignOk alT) (he : esz ≤ 1024) (hc : cap ≤ 16 * smallBound) (hn : n ≤ 16 * smallBound) :
    TV.setCapacity (⟨cap, xs, esz, alT, 8, 8⟩ : TV Nat) n =
      (.ok .unit, ⟨if laySize esz cap = laySize esz n then cap else roundCap esz n,
        xs, esz, alT, 8, 8⟩) := by
  unfold TV.setCapacity
  have h1 := layout_bridge (n := cap) hpos ha he hc
  have h2 := layout_bridge (n := n) hpos ha he hn
  simp only [TV.params, tvParams] at h1 h2 ⊢
  rw [h1, h2]
  simp only [Vecs.Layout.mk.injEq, and_true]
  split <;> rfl

theorem Vec.reserve_cap (add : Nat) (v : Vec) :
    (v.reserve add).cap = if add > v.cap - v.len then
      (v.setCapacity (max (v.len + add) (v.cap * 2))).cap else v.cap := by
  unfold Vec.reserve; split <;> rfl

theorem reserve_bridge {v : Vec} {alT add : Nat} (xs : List Nat) (hlen : v.len = xs.length)
    (hpos : 0 < v.h.esz) (ha : AlignOk alT) (he : v.h.esz ≤ 1024) (hc : v.cap ≤ 8 * smallBound)
    (hadd : v.len + add ≤ 16 * smallBound) :
    TV.reserve (⟨v.cap, xs, v.h.esz, alT, 8, 8⟩ : TV Nat) add =
      (.ok .unit, ⟨(v.reserve add).cap, xs, v.h.esz, alT, 8, 8⟩) := by
  unfold TV.reserve
  rw [Vec.reserve_cap]
  simp only [← hlen]
  by_cases h : add > v.cap - v.len
  · rw [if_pos h, if_pos h]
    have hsum : v.len + add ≤ Vecs.usizeMax := by
      simp only [Vecs.usizeMax, smallBound] at hc hadd ⊢; omega
    simp only [Vecs.checkedAdd, hsum, if_true]
    rw [setCapacity_bridge xs hpos ha he (by simp only [smallBound] at hc ⊢; omega)
      (by simp only [smallBound] at hc hadd ⊢; omega), Vec.setCapacity_cap]
  · rw [if_neg h, if_neg h]

/-- header fields that no operation changes (the prefix value and the buffer may be replaced by
the conversions) -/
structure HdrKeep (h h' : Hdr) : Prop where
  thin : h'.thin = h.thin
  esz : h'.esz = h.esz
  tracked : h'.tracked = h.tracked
  alive : h'.alive = h.alive

theorem HdrKeep.of_eq {h h' : Hdr} (e : h' = h) : HdrKeep h h' := by subst e; exact ⟨rfl, rfl, rfl, rfl⟩

/-- what a ThinVec slot operation leaves behind: contents and capacity -/
structure PostT (s s' : St) (L' : List Nat) (cap' : Nat) : Prop where
  view : LocalVec s'.v L'
  cap : s'.v.cap = cap'
  hdr : HdrKeep s.v.h s'.v.h

theorem Post.toT {s s' : St} {L' : List Nat} (p : Post s s' L') : PostT s s' L' s.v.cap :=
  ⟨p.view, p.cap, HdrKeep.of_eq p.hdr⟩

/-- the state after `reserve(add)`: same contents, the capacity of the reallocation rule, room
for `add` more elements -/
theorem reserve_facts {s loc locB} {L : List Nat} (add : Nat) (h : OwnL fl s loc locB)
    (hv : LocalVec s.v L) (ht : s.v.h.thin = true) (hal : s.v.h.alive = true) :
    LocalVec (s.reserve add).v L ∧ (s.reserve add).v.cap = (s.v.reserve add).cap ∧
      (s.reserve add).v.h = s.v.h ∧ L.length + add ≤ (s.reserve add).v.cap ∧
      (s.reserve add).mem = s.mem := by
  obtain ⟨_, g2, g3, g4, g5⟩ := h.reserve add ht hal
  exact ⟨hv.reserve add, rfl, g3, by rw [← hv.1]; exact g4, g5⟩

theorem tPush_spec {s loc locB} {L : List Nat} (h : OwnL fl s loc locB) (hv : LocalVec s.v L)
    (ht : s.v.h.thin = true) (hal : s.v.h.alive = true) :
    (tPush s).1 = .unit ∧ PostT s (tPush s).2 (L ++ [s.mem.next]) (s.v.reserve 1).cap := by
  unfold tPush
  have h1 := h.mkVal
  have hv' : (s.onMem Mem.mkVal).2.v = s.v := rfl
  have hx : (s.onMem Mem.mkVal).1 = s.mem.next := rfl
  generalize s.onMem Mem.mkVal = r at h1 hv' hx
  obtain ⟨x, s1⟩ := r
  simp only at h1 hv' hx ⊢
  subst hx
  obtain ⟨f1, f2, f3, f4, f5⟩ := reserve_facts 1 h1 (by rw [hv']; exact hv)
    (by rw [hv']; exact ht) (by rw [hv']; exact hal)
  have hp := St.store_post s.mem.next f1 (by omega)
  exact ⟨trivial, ⟨hp.view, by rw [hp.cap, f2, hv'], HdrKeep.of_eq (by rw [hp.hdr, f3, hv'])⟩⟩

theorem tInsert_spec {s loc locB} {L : List Nat} (i : Nat) (h : OwnL fl s loc locB)
    (hv : LocalVec s.v L) (ht : s.v.h.thin = true) (hal : s.v.h.alive = true) :
    (tInsert i s).1 = (if i ≤ L.length then .unit else .panic) ∧
    PostT s (tInsert i s).2 (if i ≤ L.length then L.take i ++ s.mem.next :: L.drop i else L)
      (if i ≤ L.length then (s.v.reserve 1).cap else s.v.cap) := by
  unfold tInsert
  have h1 := h.mkVal
  have hv' : (s.onMem Mem.mkVal).2.v = s.v := rfl
  have hx : (s.onMem Mem.mkVal).1 = s.mem.next := rfl
  generalize s.onMem Mem.mkVal = r at h1 hv' hx
  obtain ⟨x, s1⟩ := r
  simp only at h1 hv' hx ⊢
  subst hx
  have hv1 : LocalVec s1.v L := by rw [hv']; exact hv
  by_cases hi : i ≤ L.length
  · have hi' : i ≤ s1.v.len := by rw [hv', hv.1]; exact hi
    rw [if_pos hi', if_pos hi, if_pos hi, if_pos hi]
    obtain ⟨f1, f2, f3, f4, f5⟩ := reserve_facts 1 h1 hv1
      (by rw [hv']; exact ht) (by rw [hv']; exact hal)
    have key : (St.setLen (s1.v.len + 1)
        (St.wr i (Slot.init s.mem.next)
          (if i < s1.v.len then St.copyWithin i (i + 1) (s1.v.len - i) (s1.reserve 1)
           else s1.reserve 1))) = iInsertCore i s.mem.next (s1.reserve 1) := by
      have g2 : (s1.reserve 1).v.len = s1.v.len := by rw [f1.1, hv1.1]
      unfold iInsertCore
      simp only [g2]
      split
      · rfl
      · have : s1.v.len - i = 0 := by omega
        rw [this, St.copyWithin_zero (by rw [hv', hv.1] at hi'; omega)]
    rw [key]
    obtain ⟨c1, c2, _, c4⟩ := f1.insertCore s.mem.next i hi (by omega)
    exact ⟨rfl, ⟨c1, by rw [c2, f2, hv'], HdrKeep.of_eq (by rw [c4, f3, hv'])⟩⟩
  · have hi' : ¬ i ≤ s1.v.len := by rw [hv', hv.1]; exact hi
    rw [if_neg hi', if_neg hi, if_neg hi, if_neg hi]
    exact ⟨rfl, (Post.same hv (by rw [St.onMem_v, hv'])).toT⟩

theorem tResize_spec {s loc locB} {L : List Nat} (n : Nat) (h : OwnL fl s loc locB)
    (hv : LocalVec s.v L) (hb : s.mem.budget = none) (ht : s.v.h.thin = true)
    (hal : s.v.h.alive = true) :
    (tResize n s).1 = false ∧
    PostT s (tResize n s).2
      (if n > L.length then L ++ List.range' (s.mem.next + 1) (n - L.length - 1) ++ [s.mem.next]
        else L.take n)
      (if n > L.length then (s.v.reserve (n - L.length)).cap else s.v.cap) := by
  unfold tResize
  have h1 := h.mkVal
  have hv' : (s.onMem Mem.mkVal).2.v = s.v := rfl
  have hx : (s.onMem Mem.mkVal).1 = s.mem.next := rfl
  have hn : (s.onMem Mem.mkVal).2.mem.next = s.mem.next + 1 := rfl
  have hb' : (s.onMem Mem.mkVal).2.mem.budget = none := hb
  generalize s.onMem Mem.mkVal = r at h1 hv' hx hn hb'
  obtain ⟨x, s1⟩ := r
  simp only at h1 hv' hx hn hb' ⊢
  subst hx
  have hv1 : LocalVec s1.v L := by rw [hv']; exact hv
  by_cases h1n : n > L.length
  · have h1n' : n > s1.v.len := by rw [hv', hv.1]; exact h1n
    rw [if_pos h1n', if_pos h1n, if_pos h1n]
    have hlen1 : s1.v.len = L.length := by rw [hv', hv.1]
    rw [hlen1]
    obtain ⟨f1, f2, f3, f4, f5⟩ := reserve_facts (n - L.length) h1 hv1
      (by rw [hv']; exact ht) (by rw [hv']; exact hal)
    rw [tFillClone_eq]
    have := iFillClone_spec s.mem.next (n - L.length - 1) (s1.reserve (n - L.length)) L f1
      (by rw [f5]; exact hb') (by omega)
    obtain ⟨w1, w2, w3, w4, w5⟩ := this
    generalize iFillClone s.mem.next (n - L.length - 1) (s1.reserve (n - L.length)) = r2
      at w1 w2 w3 w4 w5
    obtain ⟨p, s2⟩ := r2
    simp only at w1 w2 w3 w4 w5
    subst w1
    simp only
    rw [f5, hn] at w2
    have hp := St.store_post s.mem.next w2.view
      (by rw [w2.cap]; simp only [List.length_append, List.length_range']; omega)
    exact ⟨trivial, ⟨hp.view, by rw [hp.cap, w2.cap, f2, hv'],
      HdrKeep.of_eq (by rw [hp.hdr, w2.hdr, f3, hv'])⟩⟩
  · have h1n' : ¬ n > s1.v.len := by rw [hv', hv.1]; exact h1n
    rw [if_neg h1n', if_neg h1n, if_neg h1n]
    obtain ⟨t1, t2, t3⟩ := tTruncate_spec n hv1 hb'
    refine ⟨by simp [t1, Mem.dropId_of_none t3], ?_⟩
    exact ⟨t2.view, by rw [St.onMem_v, t2.cap, hv'],
      HdrKeep.of_eq (by rw [St.onMem_v, t2.hdr, hv'])⟩


/-- fault-free `guarded_slice_clone`: every source is cloned into the spare capacity -/
theorem tGuardedClone_spec {L : List Nat} : ∀ (srcs : List Nat) (j : Nat) (s : St)
    (acc : List Nat) (rest : List Slot), s.v.slots = L.map .init ++ acc.map .init ++ rest →
    acc.length = j → srcs.length ≤ rest.length → s.mem.budget = none →
    (tGuardedClone L.length srcs j s).1 = false ∧
    (∃ rest', (tGuardedClone L.length srcs j s).2.v.slots
        = L.map .init ++ (acc ++ List.range' s.mem.next srcs.length).map .init ++ rest') ∧
    (tGuardedClone L.length srcs j s).2.v.len = s.v.len ∧
    (tGuardedClone L.length srcs j s).2.v.cap = s.v.cap ∧
    (tGuardedClone L.length srcs j s).2.v.h = s.v.h
  | [], j, s, acc, rest, hs, _, _, _ => by
    simp only [tGuardedClone, List.length_nil, List.range'_zero, List.append_nil]
    exact ⟨trivial, ⟨rest, hs⟩, trivial, trivial, trivial⟩
  | a :: as, j, s, acc, rest, hs, hj, hr, hb => by
    unfold tGuardedClone
    obtain ⟨m', e1, e2, e3, e4⟩ := Mem.cloneId_of_none a hb
    simp only [St.onMem_eq, e1]
    cases rest with
    | nil => simp at hr
    | cons r rest =>
      have hs' : s.v.slots = (L.map Slot.init ++ acc.map .init) ++ r :: rest := hs
      have hin : L.length + j < ({ s with mem := m' } : St).v.cap := by
        simp [Vec.cap, hs', hj]
      simp only [St.wr, if_pos hin]
      have hw := Vec.write_mid (x := .init s.mem.next) hs' (i := L.length + j) (by simp [hj])
      obtain ⟨r1, ⟨rest', r2⟩, r3, r4, r5⟩ := tGuardedClone_spec (L := L) as (j + 1)
        { mem := m', v := s.v.write (L.length + j) (.init s.mem.next) } (acc ++ [s.mem.next]) rest
        (by simp [hw]) (by simp [hj]) (by simp at hr; omega) e2
      refine ⟨r1, ⟨rest', ?_⟩, by rw [r3]; rfl, by rw [r4]; simp [Vec.cap, Vec.write], by rw [r5]; rfl⟩
      rw [r2]
      simp only [e4, List.length_cons, List.range'_succ, List.append_assoc, List.cons_append,
        List.nil_append]

theorem tExtSlice_spec {s loc locB} {L : List Nat} (n : Nat) (h : OwnL fl s loc locB)
    (hv : LocalVec s.v L) (hb : s.mem.budget = none) (ht : s.v.h.thin = true)
    (hal : s.v.h.alive = true) :
    (tExtSlice n s).1 = false ∧
    PostT s (tExtSlice n s).2 (L ++ List.range' (s.mem.next + n) n) (s.v.reserve n).cap := by
  unfold tExtSlice
  obtain ⟨m1, m2, m3, m4, -⟩ := mkVals_spec n s
  obtain ⟨_, _, ho⟩ := mkVals_own n s h
  generalize mkVals n s = r at m1 m2 m3 m4 ho
  obtain ⟨srcs, s1⟩ := r
  simp only at m1 m2 m3 m4 ho ⊢
  have hv1 : LocalVec s1.v L := by rw [m2]; exact hv
  have hl : srcs.length = n := by rw [m1]; simp
  obtain ⟨f1, f2, f3, f4, f5⟩ := reserve_facts n ho hv1 (by rw [m2]; exact ht)
    (by rw [m2]; exact hal)
  generalize s1.reserve n = s2 at f1 f2 f3 f4 f5
  obtain ⟨e1, rest, e2⟩ := f1
  have hrest : srcs.length ≤ rest.length := by
    simp [Vec.cap, e2] at f4; omega
  obtain ⟨r1, ⟨rest', r2⟩, r3, r4, r5⟩ := tGuardedClone_spec (L := L) srcs 0 s2 [] rest
    (by simp [e2]) rfl hrest (by rw [f5, m4]; exact hb)
  rw [← e1] at r1 r2 r3 r4 r5
  generalize tGuardedClone s2.v.len srcs 0 s2 = r at r1 r2 r3 r4 r5
  obtain ⟨p, s3⟩ := r
  simp only at r1 r2 r3 r4 r5 ⊢
  subst r1
  simp only [Bool.false_eq_true, if_false]
  refine ⟨trivial, ⟨⟨?_, rest', ?_⟩, ?_, HdrKeep.of_eq ?_⟩⟩
  · simp [St.setLen, Vec.setLen, r3, e1]
  · simp only [St.withMem_v, St.setLen_slots, r2, f5, m3, hl, List.nil_append, ← List.map_append]
  · simp only [St.withMem_v, St.setLen_cap, r4, f2, m2]
  · simp only [St.withMem_v, St.setLen_h, r5, f3, m2]

/-- fault-free loop of `try_extend_from_within` -/
theorem tWithinLoop_spec : ∀ (k i : Nat) (s : St) (L : List Nat), LocalVec s.v L →
    s.mem.budget = none → i + k ≤ L.length → L.length + k ≤ s.v.cap →
    (∀ x ∈ L, x ∉ s.mem.out) → (∀ x ∈ s.mem.out, x < s.mem.next) →
    Filled s (tWithinLoop i k s) L k
  | 0, i, s, L, hv, hb, _, _, _, _ => by
    have hp : Post s s (L ++ List.range' s.mem.next 0) := by simpa using Post.same hv rfl
    simp only [tWithinLoop]
    exact ⟨rfl, hp, hb, rfl, rfl⟩
  | k + 1, i, s, L, hv, hb, hi, hc, hout, hlt => by
    unfold tWithinLoop
    have hg := hv.get (i := i) (by omega)
    obtain ⟨m', e1, e2, e3, e4⟩ := Mem.cloneId_of_none L[i] hb
    have hcs : Mem.cloneSlot (s.v.get i) s.mem = (some s.mem.next, m') := by
      rw [hg]
      simp only [Mem.cloneSlot, if_neg (hout _ (List.getElem_mem ..)), e1]
    simp only [St.onMem_eq, hcs]
    refine Filled.step (s1 := { s with mem := m' }) rfl e4 e3 hv (by omega) ?_
    have hp := St.store_post (s := { s with mem := m' }) s.mem.next hv (by simp only; omega)
    have hmem : (St.store s.mem.next { s with mem := m' }).mem = m' := by
      rw [St.store_eq (by simp only; rw [hv.1]; omega)]
    exact tWithinLoop_spec k (i + 1) _ (L ++ [s.mem.next]) hp.view (by rw [hmem]; exact e2)
      (by simp; omega) (by rw [hp.cap]; simp; omega)
      (fun x hx => by
        rw [hmem, e3]
        simp only [List.mem_append, List.mem_singleton] at hx
        rcases hx with hx | rfl
        · exact hout x hx
        · exact fun hm => Nat.lt_irrefl _ (hlt _ hm))
      (fun x hx => by
        rw [hmem, e3] at hx; rw [hmem, e4]; exact Nat.lt_succ_of_lt (hlt x hx))

theorem OwnL.outlt {s loc locB} (h : OwnL fl s loc locB) : ∀ x ∈ s.mem.out, x < s.mem.next := by
  obtain ⟨_, _, _, _, _, ha⟩ := h
  exact ha.outlt

theorem OwnL.view_notout {s loc locB} {L : List Nat} (h : OwnL fl s loc locB)
    (hv : LocalVec s.v L) : ∀ x ∈ L, x ∉ s.mem.out := by
  obtain ⟨L0, rest, e1, e2, _, ha⟩ := h
  have : L0 = L := LocalVec.unique ⟨e1, rest, e2⟩ hv
  subst this
  intro x hx
  exact ha.notout x (by simp [hx])

theorem tExtWithin_spec {s loc locB} {L : List Nat} (a b : Nat) (h : OwnL fl s loc locB)
    (hv : LocalVec s.v L) (hb : s.mem.budget = none) (ht : s.v.h.thin = true)
    (hal : s.v.h.alive = true) :
    (tExtWithin a b s).1 = decide (¬ (a ≤ b ∧ b ≤ L.length)) ∧
    PostT s (tExtWithin a b s).2
      (if a ≤ b ∧ b ≤ L.length then L ++ List.range' s.mem.next (b - a) else L)
      (if a ≤ b ∧ b ≤ L.length then (s.v.reserve (b - a)).cap else s.v.cap) := by
  unfold tExtWithin
  rw [hv.1]
  by_cases h1 : a ≤ b ∧ b ≤ L.length
  · rw [if_pos h1, if_pos h1, if_pos h1]
    obtain ⟨f1, f2, f3, f4, f5⟩ := reserve_facts (b - a) h hv ht hal
    have := tWithinLoop_spec (b - a) a (s.reserve (b - a)) L f1 (by rw [f5]; exact hb) (by omega)
      f4 (by rw [f5]; exact h.view_notout hv) (by rw [f5]; exact h.outlt)
    dsimp only
    have hview := this.post.view
    rw [f5] at hview
    refine ⟨by rw [this.ok]; simp [h1], ⟨hview, by rw [this.post.cap, f2],
      HdrKeep.of_eq (by rw [this.post.hdr, f3])⟩⟩
  · rw [if_neg h1, if_neg h1, if_neg h1]
    exact ⟨by simp [h1], (Post.same hv rfl).toT⟩

theorem tAppend_spec {s loc locB} {L : List Nat} (n : Nat) (h : OwnL fl s loc locB)
    (hv : LocalVec s.v L) (ht : s.v.h.thin = true) (hal : s.v.h.alive = true) :
    (tAppend n s).1 = false ∧
    PostT s (tAppend n s).2 (L ++ List.range' s.mem.next n) (s.v.reserve n).cap := by
  unfold tAppend
  obtain ⟨m1, m2, m3, m4, -⟩ := mkVals_spec n s
  obtain ⟨_, _, ho⟩ := mkVals_own n s h
  generalize mkVals n s = r at m1 m2 m3 m4 ho
  obtain ⟨ids, s1⟩ := r
  simp only at m1 m2 m3 m4 ho ⊢
  have hl : ids.length = n := by rw [m1]; simp
  have h1 := ho.alloc
  have hv1 : (s1.onMem Mem.alloc).2.v = s1.v := rfl
  generalize s1.onMem Mem.alloc = r at h1 hv1
  obtain ⟨ob, s2⟩ := r
  simp only at h1 hv1 ⊢
  have hv2 : LocalVec s2.v L := by rw [hv1, m2]; exact hv
  obtain ⟨f1, f2, f3, f4, f5⟩ := reserve_facts n h1 hv2 (by rw [hv1, m2]; exact ht)
    (by rw [hv1, m2]; exact hal)
  have hr : ∀ (c : Nat) (hd : Hdr),
      ({ slots := ids.map Slot.init ++ uninits c, len := n, h := hd } : Vec).range 0 n
      = ids.map .init := fun c hd =>
    Vec.range_mid (A := []) (B := ids.map .init) (C := uninits c) (by simp) rfl (by simp [hl])
  simp only [hr, Vec.setLen, Vec.range_zero_zero, Mem.markDropSlots]
  generalize s2.reserve n = s3 at f1 f2 f3 f4 f5 ⊢
  have hb : s3.v.len + (ids.map Slot.init).length ≤ s3.v.cap := by rw [f1.1]; simp [hl]; omega
  simp only [St.wrChunk, if_pos hb]
  obtain ⟨c1, c2⟩ := f1.writeChunk (T := ids) s3.v.len (by rw [f1.1]; exact Nat.le_refl _)
    (by rw [hl, f1.1]; exact f4)
  rw [List.take_of_length_le (by rw [f1.1]; exact Nat.le_refl _), hl, m1] at c1
  rw [hl] at c2
  refine ⟨trivial, ⟨?_, ?_, HdrKeep.of_eq ?_⟩⟩
  · simpa [St.setLen, St.withMem, Vec.writeChunk, Vec.setLen, m1] using c1
  · show ((s3.v.writeChunk s3.v.len (ids.map .init)).setLen (s3.v.len + n)).cap = _
    rw [c2, f2, hv1, m2]
  · simp [St.setLen, St.withMem, Vec.setLen, Vec.writeChunk, f3, hv1, m2]

/-- fault-free `with_capacity`: always returns a fresh empty vector of the rounded capacity -/
theorem tWithCap_quiet {s : St} (c esz : Nat) (tracked : Bool) (hb : s.mem.budget = none) :
    ∃ o s', tWithCap c esz tracked s = (some o, s') ∧ s'.v = s.v ∧ s'.mem.budget = none ∧
      o.cap = roundCap esz (max c (minCap esz)) ∧ o.len = 0 ∧ o.h.thin = true ∧ o.h.esz = esz ∧
      o.h.tracked = tracked ∧ o.h.alive = true := by
  unfold tWithCap
  cases tracked with
  | false =>
    simp only [Bool.false_eq_true, if_false, St.onMem_eq]
    exact ⟨_, _, rfl, rfl, hb, by simp [Vec.cap, uninits], rfl, rfl, rfl, rfl, rfl⟩
  | true =>
    simp only [if_true, St.onMem_eq]
    have hb1 : (Mem.alloc s.mem).2.budget = none := hb
    obtain ⟨m', e1, e2, _, _⟩ := Mem.genVal_of_none hb1
    simp only [e1]
    exact ⟨_, _, rfl, rfl, e2, by simp [Vec.cap, uninits], rfl, rfl, rfl, rfl, rfl⟩

theorem tDropVec_budget (o : Vec) (s : St) (h : s.mem.budget = none) :
    (tDropVec o s).2.mem.budget = none := by
  unfold tDropVec
  simp only [St.onMem_eq, St.withMem]
  obtain ⟨h1, h2⟩ := Mem.dropSlice_of_none (o.range 0 o.len) s.mem h
  simp only [h1, Bool.false_eq_true, if_false]
  have hf : ∀ (b : Nat) (m : Mem), (m.free b).budget = m.budget := fun b m => by
    unfold Mem.free; split <;> rfl
  by_cases htr : o.h.tracked = true
  · obtain ⟨h3, h4⟩ := Mem.dropSlot_of_none (x := o.h.pref) h2
    simp [htr, h3, hf, h4]
  · simp [htr, hf, h2]

theorem tSplitOff_spec {s : St} {L : List Nat} (at_ : Nat) (hv : LocalVec s.v L)
    (hb : s.mem.budget = none) :
    (tSplitOff at_ s).1 = decide (L.length < at_) ∧ Post s (tSplitOff at_ s).2 (L.take at_) := by
  unfold tSplitOff
  rw [hv.1]
  by_cases h : at_ ≤ L.length
  · rw [if_pos h]
    dsimp only
    obtain ⟨o, s1, e1, e2, e3, -⟩ := tWithCap_quiet (L.length - at_) s.v.h.esz s.v.h.tracked hb
    rw [e1]
    simp only
    have hb2 : ((s1.chk (decide (L.length - at_ ≤ o.cap))).setLen at_).mem.budget = none := by
      rw [St.setLen_mem, St.chk_budget]; exact e3
    have hf := (tDropVec_frame ((o.writeChunk 0 ((s1.chk (decide (L.length - at_ ≤ o.cap))).v.range
      at_ L.length)).setLen (L.length - at_)) ((s1.chk (decide (L.length - at_ ≤ o.cap))).setLen at_)
      ((s1.chk (decide (L.length - at_ ≤ o.cap))).setLen at_).v).2
    refine ⟨by rw [tDropVec_of_none _ _ hb2]; simp; omega, ⟨?_, ?_, ?_⟩⟩
    · rw [hf, St.setLen, St.chk_v, e2]; exact hv.setLen_take at_ h
    · rw [hf]; simp [St.setLen, Vec.setLen, Vec.cap, St.chk_v, e2]
    · rw [hf]; simp [St.setLen, Vec.setLen, St.chk_v, e2]
  · rw [if_neg h, List.take_of_length_le (by omega)]
    exact ⟨by simp; omega, Post.same hv rfl⟩

theorem Vec.setCapacity_h (n : Nat) (v : Vec) : (v.setCapacity n).h = v.h := by
  unfold Vec.setCapacity; split <;> rfl

theorem Vec.reserve_h (n : Nat) (v : Vec) : (v.reserve n).h = v.h := by
  unfold Vec.reserve; split
  · exact Vec.setCapacity_h _ v
  · rfl

theorem tReserve_spec {s : St} {L : List Nat} (n : Nat) (hv : LocalVec s.v L) :
    PostT s (s.reserve n) L (s.v.reserve n).cap :=
  ⟨hv.reserve n, rfl, HdrKeep.of_eq (Vec.reserve_h n s.v)⟩

theorem tShrinkFit_spec {s : St} {L : List Nat} (hv : LocalVec s.v L) :
    PostT s (tShrinkFit s) L (if L.length = s.v.cap then s.v.cap else (s.v.setCapacity L.length).cap) := by
  unfold tShrinkFit
  rw [hv.1]
  split
  · exact (Post.same hv rfl).toT
  · exact ⟨hv.setCapacity _ (Nat.le_refl _), rfl, HdrKeep.of_eq (Vec.setCapacity_h _ s.v)⟩

theorem tRoundtrip_spec {s : St} {L : List Nat} (hv : LocalVec s.v L) (hb : s.mem.budget = none)
    (hlen : L.length ≤ rtCap) (ht : s.v.h.thin = true) (hal : s.v.h.alive = true) :
    ∃ s', tRoundtrip s = some (false, s') ∧
      PostT s s' L (roundCap s.v.h.esz (max L.length (minCap s.v.h.esz))) := by
  unfold tRoundtrip
  have e1 := hv.1
  rw [if_neg (by rw [e1]; omega)]
  obtain ⟨m1, m2, m3, m4⟩ := moveAll_spec (dst := HipVerif.Slots.iNew rtCap) hv
    (by simp [HipVerif.Slots.iNew, Vec.cap, uninits]; exact hlen)
  dsimp only
  generalize moveAll s.v (HipVerif.Slots.iNew rtCap) = r1 at m1 m2 m3 m4
  obtain ⟨i, v0⟩ := r1
  simp only at m1 m2 m3 m4 ⊢
  subst m4
  have d1 := tDropVec_of_none (s.v.setLen 0) s hb
  have d2 := tDropVec_budget (s.v.setLen 0) s hb
  generalize tDropVec (s.v.setLen 0) s = r2 at d1 d2
  obtain ⟨p, s1⟩ := r2
  simp only at d1 d2 ⊢
  subst d1
  simp only [Bool.false_eq_true, if_false]
  obtain ⟨o, s2, w1, w2, w3, w4, w5, w6, w7, w8, w9⟩ := tWithCap_quiet s.v.len s.v.h.esz
    s.v.h.tracked (s := { s1 with v := { s.v.setLen 0 with h :=
      { (s.v.setLen 0).h with alive := false } } }) d2
  rw [w1]
  simp only
  have hcap : L.length ≤ o.cap := by
    rw [w4, e1]; exact Nat.le_trans (Nat.le_max_left _ _) (roundCap_ge _ _)
  obtain ⟨n1, n2, n3, n4⟩ := moveAll_spec (dst := o) m1 hcap
  generalize moveAll i o = r3 at n1 n2 n3 n4
  obtain ⟨t, i0⟩ := r3
  simp only at n1 n2 n3 n4 ⊢
  refine ⟨_, rfl, ⟨n1, by rw [n3, w4, e1], ⟨?_, ?_, ?_, ?_⟩⟩⟩
  · show t.h.thin = s.v.h.thin
    rw [n2, w6, ht]
  · show t.h.esz = s.v.h.esz
    rw [n2, w7]
  · show t.h.tracked = s.v.h.tracked
    rw [n2, w8]
  · show t.h.alive = s.v.h.alive
    rw [n2, w9, hal]


end HipVerif.Slots
