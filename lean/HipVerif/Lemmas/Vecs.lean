/-
  Lemmas/Vecs.lean — bridge between the L1 vector model (`Model/Vecs.lean`) and the std `Vec`
  specification (`Spec/Vec.lean`), and the helper lemmas used by `Props/C13.lean`.
-/
import HipVerif.Model.Vecs
import HipVerif.Spec.Vec

namespace HipVerif.Vecs

open HipVerif.Spec.Vec (Bnd Side)
namespace S
export HipVerif.Spec.Vec (range push pop popIf insert remove swapRemove truncate clear resize
  resizeWith extend extendFromWithin append constAppend spareWrite splitOff consume drain intoIter
  clone fromItems keep)
end S

/-! ## The specification as a step function over the same operation alphabet -/

/-- The `RangeError` that documents why `slice::range` rejects the bounds (first failing
    condition, in the order start-overflow, end-overflow, start > end, end > len). -/
def rangeErrorOf (sb eb : Bnd) (len : Nat) : RangeError :=
  match sb, eb with
  | .excl s, _ => if usizeMax ≤ s then .startOverflows else
      match eb with
      | .incl e => if usizeMax ≤ e then .endOverflows
                   else if s + 1 > e + 1 then .startGreaterThanEnd (s + 1) (e + 1)
                   else .endOutOfBounds (e + 1) len
      | .excl e => if s + 1 > e then .startGreaterThanEnd (s + 1) e else .endOutOfBounds e len
      | .unb => if s + 1 > len then .startGreaterThanEnd (s + 1) len else .endOutOfBounds len len
  | .incl s, .incl e => if usizeMax ≤ e then .endOverflows
                        else if s > e + 1 then .startGreaterThanEnd s (e + 1)
                        else .endOutOfBounds (e + 1) len
  | .incl s, .excl e => if s > e then .startGreaterThanEnd s e else .endOutOfBounds e len
  | .incl s, .unb => if s > len then .startGreaterThanEnd s len else .endOutOfBounds len len
  | .unb, .incl e => if usizeMax ≤ e then .endOverflows else .endOutOfBounds (e + 1) len
  | .unb, .excl e => .endOutOfBounds e len
  | .unb, .unb => .endOutOfBounds len len

/-- One operation on a std `Vec` holding `xs`: outcome and contents afterwards. A `Vec` panic
    leaves the contents unchanged (std checks before it mutates). `try_` operations, which `Vec`
    does not have, succeed exactly when the plain operation does not panic. -/
def specStep (xs : List α) : Op α → Outcome α × List α
  | .push v | .tryPush v => (.ok .unit, S.push xs v)
  | .pop => (.ok (.opt (S.pop xs).1), (S.pop xs).2)
  | .popIf b => (.ok (.opt (S.popIf xs b).1), (S.popIf xs b).2)
  | .insert i v =>
    match S.insert xs i v with
    | some ys => (.ok .unit, ys)
    | none => (.panic .index, xs)
  | .tryInsert i v =>
    match S.insert xs i v with
    | some ys => (.ok .unit, ys)
    | none => (.err .outOfBounds (.elem v), xs)
  | .remove i =>
    match S.remove xs i with
    | some (a, ys) => (.ok (.elem a), ys)
    | none => (.panic .index, xs)
  | .swapRemove i =>
    match S.swapRemove xs i with
    | some (a, ys) => (.ok (.elem a), ys)
    | none => (.panic .index, xs)
  | .truncate n => (.ok .unit, S.truncate xs n)
  | .clear => (.ok .unit, S.clear xs)
  | .resize n v => (.ok .unit, S.resize xs n v)
  | .resizeWith n g => (.ok .unit, S.resizeWith xs n g)
  | .extendFromSlice l | .extendFromSliceCopy l | .extendFromArray l => (.ok .unit, S.extend xs l)
  | .extendFromWithin sb eb | .extendFromWithinCopy sb eb =>
    match S.extendFromWithin xs sb eb with
    | some ys => (.ok .unit, ys)
    | none => (.panic .range, xs)
  | .tryExtendFromWithin sb eb =>
    match S.extendFromWithin xs sb eb with
    | some ys => (.ok .unit, ys)
    | none => (.err (.range (rangeErrorOf sb eb xs.length)) .unit, xs)
  | .extend _ items => (.ok .unit, S.extend xs items)
  | .append other => (.ok (.items (S.append xs other).2), (S.append xs other).1)
  | .constAppend _ other => (.ok (.items (S.constAppend xs other).2), (S.constAppend xs other).1)
  | .spareWrite vals => (.ok .unit, S.spareWrite xs vals)
  | .splitOff n =>
    match S.splitOff xs n with
    | some (a, b) => (.ok (.items b), a)
    | none => (.panic .index, xs)
  | .drain sb eb sc fin =>
    match S.drain xs sb eb sc (fin == .leak) with
    | some (ys, zs) => (.ok (.items ys), zs)
    | none => (.panic .range, xs)
  | .tryDrain sb eb sc fin =>
    match S.drain xs sb eb sc (fin == .leak) with
    | some (ys, zs) => (.ok (.items ys), zs)
    | none => (.err (.range (rangeErrorOf sb eb xs.length)) .unit, xs)
  | .intoIter sc => (.ok (.items (S.intoIter xs sc)), [])
  | .clone => (.ok .unit, S.clone xs)
  | .reserve _ | .reserveExact _ | .shrinkTo _ | .shrinkToFit => (.ok .unit, S.keep xs)
  | .withCapacity _ => (.ok .unit, [])
  | .from _ _ items => (.ok .unit, S.fromItems items)

/-- `Vec` panics on this operation. -/
def specPanics (xs : List α) (op : Op α) : Prop := (specStep xs op).1.isPanic = true

/-- Number of elements the vector must be able to hold for the operation to go through
    (`0` when the operation does not grow the vector or when `Vec` itself rejects it). -/
def needs (xs : List α) : Op α → Nat
  | .push _ | .tryPush _ => xs.length + 1
  | .insert i _ | .tryInsert i _ => if i ≤ xs.length then xs.length + 1 else 0
  | .resize n _ | .resizeWith n _ => n
  | .extendFromSlice l | .extendFromSliceCopy l | .extendFromArray l => xs.length + l.length
  | .extendFromWithin sb eb | .extendFromWithinCopy sb eb | .tryExtendFromWithin sb eb =>
    match S.range sb eb xs.length with
    | some (a, b) => xs.length + (b - a)
    | none => 0
  | .extend _ items => xs.length + items.length
  | .append other | .constAppend _ other => xs.length + other.length
  | .spareWrite vals => xs.length + vals.length
  | .from src hint items => if src = .iter then max hint items.length else items.length
  | _ => 0

/-- The items an operation appends (for the "prefix" statement after a panic). -/
def appended : Op α → List α
  | .push v | .tryPush v | .insert _ v | .tryInsert _ v => [v]
  | .extendFromSlice l | .extendFromSliceCopy l | .extendFromArray l => l
  | .extend _ items => items
  | .append other | .constAppend _ other => other
  | .spareWrite vals => vals
  | .from _ _ items => items
  | _ => []

/-- `try_push` / `try_insert`: the operations that report a full vector as an error. -/
def Op.isTry : Op α → Bool
  | .tryPush _ | .tryInsert _ _ => true
  | _ => false

/-! ## List facts -/

theorem insertIdx_eq_take_drop (xs : List α) (i : Nat) (v : α) (h : i ≤ xs.length) :
    xs.insertIdx i v = xs.take i ++ v :: xs.drop i := by
  induction xs generalizing i with
  | nil => cases i <;> simp_all
  | cons x xs ih =>
    cases i with
    | zero => simp
    | succ i => simp at h; simp [List.insertIdx_succ_cons, ih i h]

theorem getLast?_eq_getElem?' (xs : List α) : xs.getLast? = xs[xs.length - 1]? :=
  List.getLast?_eq_getElem?

theorem checkedAdd_one (s : Nat) :
    checkedAdd s 1 = if usizeMax ≤ s then none else some (s + 1) := by
  unfold checkedAdd; split <;> split <;> first | rfl | omega

/-- `rangeMono` (hipstr) and `slice::range` (std) accept the same bounds with the same result;
    on rejection the error is the documented one. -/
theorem rangeMono_spec (sb eb : Bnd) (len : Nat) :
    rangeMono sb eb len =
      match S.range sb eb len with
      | some p => .ok p
      | none => .error (rangeErrorOf sb eb len) := by
  have hu : HipVerif.Spec.Vec.usizeMax = usizeMax := rfl
  cases sb with
  | incl s =>
    cases eb with
    | incl e => by_cases he : usizeMax ≤ e <;> simp [rangeMono, S.range, rangeErrorOf, checkedAdd_one, he, hu] <;> (repeat' split) <;> simp_all <;> omega
    | excl e => simp [rangeMono, S.range, rangeErrorOf] <;> (repeat' split) <;> simp_all <;> omega
    | unb => simp [rangeMono, S.range, rangeErrorOf] <;> (repeat' split) <;> simp_all <;> omega
  | excl s =>
    by_cases hs : usizeMax ≤ s
    · cases eb <;> simp [rangeMono, S.range, rangeErrorOf, checkedAdd_one, hs, hu]
    · cases eb with
      | incl e => by_cases he : usizeMax ≤ e <;> simp [rangeMono, S.range, rangeErrorOf, checkedAdd_one, he, hs, hu] <;> (repeat' split) <;> simp_all <;> omega
      | excl e => simp [rangeMono, S.range, rangeErrorOf, checkedAdd_one, hs, hu] <;> (repeat' split) <;> simp_all <;> omega
      | unb => simp [rangeMono, S.range, rangeErrorOf, checkedAdd_one, hs, hu] <;> (repeat' split) <;> simp_all <;> omega
  | unb =>
    cases eb with
    | incl e => by_cases he : usizeMax ≤ e <;> simp [rangeMono, S.range, rangeErrorOf, checkedAdd_one, he, hu] <;> (repeat' split) <;> simp_all <;> omega
    | excl e => simp [rangeMono, S.range, rangeErrorOf] <;> (repeat' split) <;> simp_all <;> omega
    | unb => simp [rangeMono, S.range]

theorem range_bounds {sb eb : Bnd} {len a b : Nat} (h : S.range sb eb len = some (a, b)) :
    a ≤ b ∧ b ≤ len := by
  cases sb <;> cases eb <;> simp only [S.range] at h <;> (repeat' (split at h)) <;>
    simp_all <;> omega

/-! ## The draining iterator -/

theorem drop_take_cons (buf : List α) (lo hi : Nat) (h : lo < hi) (hh : hi ≤ buf.length) :
    (buf.drop lo).take (hi - lo) = buf[lo] :: (buf.drop (lo + 1)).take (hi - (lo + 1)) := by
  have hlo : lo < buf.length := by omega
  rw [List.drop_eq_getElem_cons hlo]
  have : hi - lo = (hi - (lo + 1)) + 1 := by omega
  rw [this, List.take_succ_cons]

theorem drop_take_getLast (buf : List α) (lo hi : Nat) (h : lo < hi) (hh : hi ≤ buf.length) :
    ((buf.drop lo).take (hi - lo)).getLast? = buf[hi - 1]? := by
  rw [List.getLast?_eq_getElem?]
  simp only [List.length_take, List.length_drop]
  have : min (hi - lo) (buf.length - lo) - 1 = hi - lo - 1 := by omega
  rw [this, List.getElem?_take]
  have : hi - lo - 1 < hi - lo := by omega
  simp [this]
  congr 1; omega

theorem drop_take_dropLast (buf : List α) (lo hi : Nat) (h : lo < hi) (hh : hi ≤ buf.length) :
    ((buf.drop lo).take (hi - lo)).dropLast = (buf.drop lo).take (hi - 1 - lo) := by
  rw [List.dropLast_eq_take, List.take_take]
  simp only [List.length_take, List.length_drop]
  congr 1; omega

theorem walk_eq_consume (buf : List α) (sc : List Side) (lo hi : Nat) (hh : hi ≤ buf.length) :
    walk buf sc lo hi = S.consume sc ((buf.drop lo).take (hi - lo)) := by
  induction sc generalizing lo hi with
  | nil => simp [walk, S.consume]
  | cons c r ih =>
    cases c with
    | front =>
      by_cases h : lo < hi
      · have hlo : lo < buf.length := by omega
        rw [drop_take_cons buf lo hi h hh]
        simp [walk, S.consume, h, List.getElem?_eq_getElem hlo, ih (lo + 1) hi hh]
      · have : hi - lo = 0 := by omega
        simp [walk, S.consume, h, this, ih lo hi hh]
    | back =>
      by_cases h : lo < hi
      · have hhi : hi - 1 < buf.length := by omega
        have e1 := drop_take_getLast buf lo hi h hh
        have e2 := drop_take_dropLast buf lo hi h hh
        rw [List.getElem?_eq_getElem hhi] at e1
        simp only [walk, S.consume, h, if_true, List.getElem?_eq_getElem hhi, e1, e2]
        rw [ih lo (hi - 1) (by omega)]
      · have : hi - lo = 0 := by omega
        simp [walk, S.consume, h, this, ih lo hi hh]

/-! ## InlineVec, operation by operation -/

theorem swap_last (xs : List α) (i : Nat) (h : i < xs.length) :
    ∃ a l, xs[i]? = some a ∧ xs.getLast? = some l ∧
      (swap xs i (xs.length - 1))[xs.length - 1]? = some a ∧
      (swap xs i (xs.length - 1)).take (xs.length - 1) = (xs.set i l).dropLast := by
  have hl : xs.length - 1 < xs.length := by omega
  refine ⟨xs[i], xs[xs.length - 1], List.getElem?_eq_getElem h, ?_, ?_, ?_⟩
  · rw [List.getLast?_eq_getElem?, List.getElem?_eq_getElem hl]
  · simp only [swap, List.getElem?_eq_getElem h, List.getElem?_eq_getElem hl]
    rw [List.getElem?_set_self (by simpa using hl)]
  · simp only [swap, List.getElem?_eq_getElem h, List.getElem?_eq_getElem hl]
    rw [List.dropLast_eq_take, List.length_set, List.take_set_of_le (Nat.le_refl _)]

theorem IV.pop_spec (s : IV α) :
    s.pop = (.ok (.opt (S.pop s.xs).1), ⟨s.cap, (S.pop s.xs).2⟩) := by
  unfold IV.pop S.pop
  by_cases h : s.xs.length = 0
  · have : s.xs = [] := List.eq_nil_of_length_eq_zero h
    cases s; simp_all
  · have hl : s.xs.length - 1 < s.xs.length := by omega
    simp [h, List.getLast?_eq_getElem?, List.getElem?_eq_getElem hl, List.dropLast_eq_take]

theorem IV.extend_spec (s : IV α) (items : List α) (h : s.xs.length + items.length ≤ s.cap) :
    s.extend items = (.ok .unit, ⟨s.cap, s.xs ++ items⟩) := by
  induction items generalizing s with
  | nil => cases s; simp [IV.extend]
  | cons v r ih =>
    simp only [List.length_cons] at h
    have hlt : s.xs.length < s.cap := by omega
    simp only [IV.extend, IV.push, IV.tryPush, hlt, if_true]
    rw [ih]
    · simp
    · simp; omega

/-- When the items do not fit, `extend` pushes what fits and panics. -/
theorem IV.extend_exceed (s : IV α) (items : List α) (hw : s.xs.length ≤ s.cap)
    (h : s.xs.length + items.length > s.cap) :
    s.extend items = (.panic .capacity, ⟨s.cap, s.xs ++ items.take (s.cap - s.xs.length)⟩) := by
  induction items generalizing s with
  | nil => simp at h; omega
  | cons v r ih =>
    simp only [List.length_cons] at h
    by_cases hlt : s.xs.length < s.cap
    · simp only [IV.extend, IV.push, IV.tryPush, hlt, if_true]
      rw [ih]
      · have : s.cap - s.xs.length = (s.cap - (s.xs.length + 1)) + 1 := by omega
        simp [this]
      · simp; omega
      · simp; omega
    · have : s.cap - s.xs.length = 0 := by omega
      simp only [IV.extend, IV.push, IV.tryPush, hlt, if_false, this]
      cases s; simp

theorem IV.step_spec (s : IV α) (op : Op α) (hw : s.xs.length ≤ s.cap) (hs : op.forIV = true)
    (hn : needs s.xs op ≤ s.cap) :
    s.step op = ((specStep s.xs op).1, ⟨s.cap, (specStep s.xs op).2⟩) := by
  cases op with
  | push v =>
    simp only [needs] at hn
    have : s.xs.length < s.cap := by omega
    simp [IV.step, IV.push, IV.tryPush, specStep, S.push, this]
  | tryPush v =>
    simp only [needs] at hn
    have : s.xs.length < s.cap := by omega
    simp [IV.step, IV.tryPush, specStep, S.push, this]
  | pop => simp [IV.step, specStep, IV.pop_spec]
  | popIf b =>
    simp only [IV.step, specStep, IV.popIf, S.popIf]
    by_cases h : s.xs.length = 0
    · have : s.xs = [] := List.eq_nil_of_length_eq_zero h
      cases s; simp_all
    · have hl : s.xs.length - 1 < s.xs.length := by omega
      cases b <;> simp [h, IV.pop_spec, S.pop, List.getLast?_eq_getElem?, List.getElem?_eq_getElem hl]
  | insert i v =>
    simp only [needs] at hn
    simp only [IV.step, specStep, IV.insert, IV.tryInsert, S.insert]
    by_cases h : i ≤ s.xs.length
    · simp only [h, if_true] at hn
      have h1 : ¬ i > s.xs.length := by omega
      have h2 : ¬ s.xs.length = s.cap := by omega
      simp [h, h1, h2, insertIdx_eq_take_drop _ _ _ h]
    · have h1 : i > s.xs.length := by omega
      simp [h, h1]
  | tryInsert i v =>
    simp only [needs] at hn
    simp only [IV.step, specStep, IV.tryInsert, S.insert]
    by_cases h : i ≤ s.xs.length
    · simp only [h, if_true] at hn
      have h1 : ¬ i > s.xs.length := by omega
      have h2 : ¬ s.xs.length = s.cap := by omega
      simp [h, h1, h2, insertIdx_eq_take_drop _ _ _ h]
    · have h1 : i > s.xs.length := by omega
      simp [h, h1]
  | remove i =>
    simp only [IV.step, specStep, IV.remove, S.remove]
    by_cases h : i < s.xs.length
    · simp [h, List.eraseIdx_eq_take_drop_succ]
    · have : s.xs[i]? = none := by simp; omega
      cases s; simp_all
  | swapRemove i =>
    simp only [IV.step, specStep, IV.swapRemove, S.swapRemove]
    by_cases h : i < s.xs.length
    · obtain ⟨a, l, h1, h2, h3, h4⟩ := swap_last s.xs i h
      have h5 : s.xs[i] = a := by simpa [List.getElem?_eq_getElem h] using h1
      simp [h, h2, h3, h4, h5]
    · simp [h]
  | truncate n =>
    simp only [IV.step, specStep, IV.truncate, S.truncate]
    by_cases h : n < s.xs.length
    · simp [h]
    · have : s.xs.take n = s.xs := List.take_of_length_le (by omega)
      cases s; simp_all
  | clear =>
    simp only [IV.step, specStep, IV.clear, IV.truncate, S.clear]
    by_cases h : 0 < s.xs.length
    · simp [h]
    · have : s.xs = [] := List.eq_nil_of_length_eq_zero (by omega)
      cases s; simp_all
  | resize n v =>
    simp only [needs] at hn
    simp only [IV.step, specStep, IV.resize, IV.resizeWith, IV.truncate, S.resize]
    by_cases h : n > s.xs.length
    · have h' : ¬ n ≤ s.xs.length := by omega
      simp [h, h', hn, List.map_const']
    · have h' : n ≤ s.xs.length := by omega
      by_cases h2 : n < s.xs.length
      · simp [h, h', h2]
      · have : s.xs.take n = s.xs := List.take_of_length_le (by omega)
        cases s; simp_all
  | resizeWith n g =>
    simp only [needs] at hn
    simp only [IV.step, specStep, IV.resizeWith, IV.truncate, S.resizeWith]
    by_cases h : n > s.xs.length
    · have h' : ¬ n ≤ s.xs.length := by omega
      simp [h, h', hn]
    · have h' : n ≤ s.xs.length := by omega
      by_cases h2 : n < s.xs.length
      · simp [h, h', h2]
      · have : s.xs.take n = s.xs := List.take_of_length_le (by omega)
        cases s; simp_all
  | extendFromSlice l =>
    simp only [needs] at hn
    simp [IV.step, specStep, IV.extendFromSlice, S.extend, hn]
  | extendFromSliceCopy l =>
    simp only [needs] at hn
    simp [IV.step, specStep, IV.extendFromSlice, S.extend, hn]
  | extendFromArray l =>
    simp only [needs] at hn
    simp [IV.step, specStep, IV.extendFromSlice, S.extend, hn]
  | extendFromWithin sb eb =>
    simp only [needs] at hn
    simp only [IV.step, specStep, IV.extendFromWithin, S.extendFromWithin, rangeMono_spec]
    cases hr : S.range sb eb s.xs.length with
    | none => simp
    | some p => obtain ⟨a, b⟩ := p; simp [hr] at hn; simp [hn]
  | extendFromWithinCopy sb eb =>
    simp only [needs] at hn
    simp only [IV.step, specStep, IV.extendFromWithin, S.extendFromWithin, rangeMono_spec]
    cases hr : S.range sb eb s.xs.length with
    | none => simp
    | some p => obtain ⟨a, b⟩ := p; simp [hr] at hn; simp [hn]
  | tryExtendFromWithin sb eb => simp [Op.forIV] at hs
  | extend hint items =>
    simp only [needs] at hn
    simp [IV.step, specStep, S.extend, IV.extend_spec s items hn]
  | append other =>
    simp only [needs] at hn
    simp [IV.step, specStep, IV.append, S.append, hn]
  | constAppend cap2 other =>
    simp only [needs] at hn
    simp [IV.step, specStep, IV.constAppend, S.constAppend, S.append, hn]
  | spareWrite vals =>
    simp only [needs] at hn
    simp [IV.step, specStep, IV.spareWrite, IV.extendFromSlice, S.spareWrite, hn]
  | splitOff n =>
    simp only [IV.step, specStep, IV.splitOff, S.splitOff]
    by_cases h : n ≤ s.xs.length <;> simp [h]
  | drain sb eb sc fin =>
    simp only [IV.step, specStep, IV.drain, S.drain, rangeMono_spec]
    cases hr : S.range sb eb s.xs.length with
    | none => simp
    | some p =>
      obtain ⟨a, b⟩ := p
      have hb := range_bounds hr
      cases fin <;> simp [walk_eq_consume _ _ _ _ hb.2]
  | tryDrain sb eb sc fin => simp [Op.forIV] at hs
  | intoIter sc =>
    simp [IV.step, specStep, IV.intoIter, S.intoIter, IV.new, walk_eq_consume _ _ _ _ (Nat.le_refl _)]
  | clone =>
    simp [IV.step, specStep, IV.clone, S.clone, IV.new, IV.extendFromSlice, hw]
  | reserve n => simp [Op.forIV] at hs
  | reserveExact n => simp [Op.forIV] at hs
  | shrinkTo n => simp [Op.forIV] at hs
  | shrinkToFit => simp [Op.forIV] at hs
  | withCapacity n => simp [Op.forIV] at hs
  | «from» src hint items =>
    simp only [needs] at hn
    cases src <;> simp at hn <;>
      simp [IV.step, specStep, IV.from_, S.fromItems, IV.new, IV.extendFromSlice, hn]
    have h2 := IV.extend_spec (IV.new s.cap) items (by simp [IV.new]; omega)
    simp [IV.new] at h2
    have : hint ≤ s.cap := by omega
    simp [h2, this]

/-- Shape of a state after an operation that may have appended a prefix of its items. -/
def IV.AfterPrefix (s s' : IV α) (op : Op α) : Prop :=
  ∃ pre, pre <+: appended op ∧ s' = ⟨s.cap, s.xs ++ pre⟩ ∧ s'.xs.length ≤ s.cap

theorem IV.afterPrefix_same (s : IV α) (op : Op α) (hw : s.xs.length ≤ s.cap) :
    IV.AfterPrefix s s op :=
  ⟨[], List.nil_prefix, by cases s; simp, hw⟩

/-- A growing operation whose needs exceed the fixed capacity: `try_` operations hand the value
    back with `Full` and change nothing; the others panic with class `capacity`, keeping the old
    elements followed by a prefix of the appended items. -/
theorem IV.step_exceed (s : IV α) (op : Op α) (hw : s.xs.length ≤ s.cap) (hs : op.forIV = true)
    (hn : s.cap < needs s.xs op) :
    (op.isTry = true → ∃ v, appended op = [v] ∧ s.step op = (.err .full (.elem v), s)) ∧
    (op.isTry = false → (s.step op).1 = .panic .capacity ∧ IV.AfterPrefix s (s.step op).2 op) := by
  cases op
  case push v =>
    simp only [needs] at hn
    have : ¬ s.xs.length < s.cap := by omega
    simp [Op.isTry, IV.step, IV.push, IV.tryPush, this, IV.afterPrefix_same _ _ hw]
  case tryPush v =>
    simp only [needs] at hn
    have : ¬ s.xs.length < s.cap := by omega
    simp [Op.isTry, IV.step, IV.tryPush, this, appended]
  case insert i v =>
    simp only [needs] at hn
    by_cases h : i ≤ s.xs.length
    · simp only [h, if_true] at hn
      have h1 : ¬ i > s.xs.length := by omega
      have h2 : s.xs.length = s.cap := by omega
      have h3 : ¬ s.cap < i := by omega
      simp [Op.isTry, IV.step, IV.insert, IV.tryInsert, h2, h3, IV.afterPrefix_same _ _ hw]
    · simp [h] at hn
  case tryInsert i v =>
    simp only [needs] at hn
    by_cases h : i ≤ s.xs.length
    · simp only [h, if_true] at hn
      have h1 : ¬ i > s.xs.length := by omega
      have h2 : s.xs.length = s.cap := by omega
      have h3 : ¬ s.cap < i := by omega
      simp [Op.isTry, IV.step, IV.tryInsert, h2, h3, appended]
    · simp [h] at hn
  case resize n v =>
    simp only [needs] at hn
    have h1 : n > s.xs.length := by omega
    have h2 : ¬ n ≤ s.cap := by omega
    simp [Op.isTry, IV.step, IV.resize, IV.resizeWith, h1, h2, IV.afterPrefix_same _ _ hw]
  case resizeWith n g =>
    simp only [needs] at hn
    have h1 : n > s.xs.length := by omega
    have h2 : ¬ n ≤ s.cap := by omega
    simp [Op.isTry, IV.step, IV.resizeWith, h1, h2, IV.afterPrefix_same _ _ hw]
  case extendFromSlice l =>
    simp only [needs] at hn
    have h2 : ¬ s.xs.length + l.length ≤ s.cap := by omega
    simp [Op.isTry, IV.step, IV.extendFromSlice, h2, IV.afterPrefix_same _ _ hw]
  case extendFromSliceCopy l =>
    simp only [needs] at hn
    have h2 : ¬ s.xs.length + l.length ≤ s.cap := by omega
    simp [Op.isTry, IV.step, IV.extendFromSlice, h2, IV.afterPrefix_same _ _ hw]
  case extendFromArray l =>
    simp only [needs] at hn
    have h2 : ¬ s.xs.length + l.length ≤ s.cap := by omega
    simp [Op.isTry, IV.step, IV.extendFromSlice, h2, IV.afterPrefix_same _ _ hw]
  case extendFromWithin sb eb =>
    simp only [needs] at hn
    cases hr : S.range sb eb s.xs.length with
    | none => simp [hr] at hn
    | some p =>
      obtain ⟨a, b⟩ := p
      simp [hr] at hn
      have h2 : ¬ s.xs.length + (b - a) ≤ s.cap := by omega
      simp [Op.isTry, IV.step, IV.extendFromWithin, rangeMono_spec, hr, h2, IV.afterPrefix_same _ _ hw]
  case extendFromWithinCopy sb eb =>
    simp only [needs] at hn
    cases hr : S.range sb eb s.xs.length with
    | none => simp [hr] at hn
    | some p =>
      obtain ⟨a, b⟩ := p
      simp [hr] at hn
      have h2 : ¬ s.xs.length + (b - a) ≤ s.cap := by omega
      simp [Op.isTry, IV.step, IV.extendFromWithin, rangeMono_spec, hr, h2, IV.afterPrefix_same _ _ hw]
  case extend hint items =>
    simp only [needs] at hn
    simp only [Op.isTry, IV.step, IV.extend_exceed s items hw hn]
    simp
    exact ⟨_, List.take_prefix _ _, rfl, by simp; omega⟩
  case append other =>
    simp only [needs] at hn
    have h2 : ¬ s.xs.length + other.length ≤ s.cap := by omega
    simp [Op.isTry, IV.step, IV.append, h2, IV.afterPrefix_same _ _ hw]
  case constAppend cap2 other =>
    simp only [needs] at hn
    have h2 : ¬ s.xs.length + other.length ≤ s.cap := by omega
    simp [Op.isTry, IV.step, IV.constAppend, h2, IV.afterPrefix_same _ _ hw]
  case spareWrite vals =>
    simp only [needs] at hn
    have h2 : ¬ s.xs.length + vals.length ≤ s.cap := by omega
    simp [Op.isTry, IV.step, IV.spareWrite, IV.extendFromSlice, h2, IV.afterPrefix_same _ _ hw]
  case «from» src hint items =>
    simp only [needs] at hn
    refine ⟨by simp [Op.isTry], fun _ => ?_⟩
    cases src <;> simp at hn <;>
      (try (have h2 : ¬ items.length ≤ s.cap := by omega)) <;>
      (try simp [IV.step, IV.from_, IV.new, IV.extendFromSlice, h2, IV.afterPrefix_same _ _ hw])
    by_cases hh : hint ≤ s.cap
    · have h3 : s.cap < items.length := by omega
      have h4 := IV.extend_exceed (IV.new s.cap) items (by simp [IV.new]) (by simp [IV.new]; omega)
      simp [IV.new] at h4
      simp [IV.step, IV.from_, IV.new, hh, h4, IV.afterPrefix_same _ _ hw]
    · simp [IV.step, IV.from_, IV.new, hh, IV.afterPrefix_same _ _ hw]
  case tryExtendFromWithin sb eb => simp [Op.forIV] at hs
  all_goals simp [needs] at hn

/-- A `Vec` never ends up longer than what the operation announced it needs. -/
theorem spec_length_le (xs : List α) (op : Op α) :
    (specStep xs op).2.length ≤ max xs.length (needs xs op) := by
  cases op
  case pop => exact Nat.le_trans (by simp [specStep, S.pop]) (Nat.le_max_left _ _)
  case popIf b =>
    refine Nat.le_trans ?_ (Nat.le_max_left _ _)
    simp only [specStep, S.popIf]
    split <;> (try split) <;> simp
  case insert i v =>
    simp only [specStep, S.insert, needs]
    by_cases h : i ≤ xs.length <;> simp [h, List.length_insertIdx]
  case tryInsert i v =>
    simp only [specStep, S.insert, needs]
    by_cases h : i ≤ xs.length <;> simp [h, List.length_insertIdx]
  case remove i =>
    refine Nat.le_trans ?_ (Nat.le_max_left _ _)
    simp only [specStep, S.remove]
    cases h : xs[i]? with
    | none => simp
    | some a => simp [List.length_eraseIdx]; split <;> omega
  case swapRemove i =>
    refine Nat.le_trans ?_ (Nat.le_max_left _ _)
    simp only [specStep, S.swapRemove]
    cases h : xs[i]? with
    | none => simp
    | some a =>
      cases h2 : xs.getLast? with
      | none => simp
      | some l => simp
  case resize n v =>
    simp only [specStep, S.resize, needs]
    split <;> simp <;> omega
  case resizeWith n g =>
    simp only [specStep, S.resizeWith, needs]
    split <;> simp <;> omega
  case extendFromWithin sb eb =>
    simp only [specStep, S.extendFromWithin, needs]
    cases S.range sb eb xs.length with
    | none => simp
    | some p => obtain ⟨a, b⟩ := p; simp; omega
  case extendFromWithinCopy sb eb =>
    simp only [specStep, S.extendFromWithin, needs]
    cases S.range sb eb xs.length with
    | none => simp
    | some p => obtain ⟨a, b⟩ := p; simp; omega
  case tryExtendFromWithin sb eb =>
    simp only [specStep, S.extendFromWithin, needs]
    cases S.range sb eb xs.length with
    | none => simp
    | some p => obtain ⟨a, b⟩ := p; simp; omega
  case splitOff n =>
    refine Nat.le_trans ?_ (Nat.le_max_left _ _)
    simp only [specStep, S.splitOff]
    by_cases h : n ≤ xs.length <;> simp [h]
  case drain sb eb sc fin =>
    simp only [specStep, S.drain]
    cases hr : S.range sb eb xs.length with
    | none => exact Nat.le_max_left _ _
    | some p =>
      obtain ⟨a, b⟩ := p
      have := range_bounds hr
      refine Nat.le_trans ?_ (Nat.le_max_left _ _)
      cases fin <;> simp <;> omega
  case tryDrain sb eb sc fin =>
    simp only [specStep, S.drain]
    cases hr : S.range sb eb xs.length with
    | none => exact Nat.le_max_left _ _
    | some p =>
      obtain ⟨a, b⟩ := p
      have := range_bounds hr
      refine Nat.le_trans ?_ (Nat.le_max_left _ _)
      cases fin <;> simp <;> omega
  case «from» src hint items =>
    simp only [specStep, S.fromItems, needs]
    split <;> omega
  all_goals simp [specStep, needs, S.push, S.truncate, S.clear, S.extend, S.append, S.constAppend, S.spareWrite, S.clone,
    S.keep, S.intoIter] <;> omega

theorem IV.step_unsupported (s : IV α) (op : Op α) (hs : op.forIV = false) :
    s.step op = (unsupported, s) := by
  cases op <;> simp [Op.forIV] at hs <;> rfl

/-- The invariant of an `InlineVec` (`len ≤ CAP`, `CAP` fixed) survives every operation,
    panicking or not. -/
theorem IV.step_wf (s : IV α) (op : Op α) (hw : s.xs.length ≤ s.cap) :
    (s.step op).2.cap = s.cap ∧ (s.step op).2.xs.length ≤ s.cap := by
  by_cases hs : op.forIV = true
  · by_cases hn : needs s.xs op ≤ s.cap
    · rw [IV.step_spec s op hw hs hn]
      refine ⟨rfl, Nat.le_trans (spec_length_le s.xs op) ?_⟩
      exact Nat.max_le.mpr ⟨hw, hn⟩
    · have he := IV.step_exceed s op hw hs (by omega)
      by_cases ht : op.isTry = true
      · obtain ⟨v, _, h⟩ := he.1 ht
        rw [h]; exact ⟨rfl, hw⟩
      · obtain ⟨_, pre, _, h, hl⟩ := he.2 (by simpa using ht)
        exact ⟨by rw [h], hl⟩
  · rw [IV.step_unsupported s op (by simpa using hs)]
    exact ⟨rfl, hw⟩

/-- Every state reached from `new()` satisfies the invariant. -/
theorem IV.run_wf (s : IV α) (ops : List (Op α)) (hw : s.xs.length ≤ s.cap) :
    (s.run ops).2.cap = s.cap ∧ (s.run ops).2.xs.length ≤ s.cap := by
  induction ops generalizing s with
  | nil => exact ⟨rfl, hw⟩
  | cons op rest ih =>
    have h1 := IV.step_wf s op hw
    have h2 := ih (s.step op).2 (by rw [h1.1]; exact h1.2)
    simp only [IV.run]
    rw [h1.1] at h2
    exact h2

/-- When `needs > 0` the `Vec` operation goes through (`ok`). -/
theorem spec_ok_of_needs (xs : List α) (op : Op α) (h : 0 < needs xs op) :
    ∃ v, (specStep xs op).1 = .ok v := by
  cases op
  case insert i v =>
    simp only [needs] at h
    by_cases hi : i ≤ xs.length <;> simp [hi] at h
    exact ⟨.unit, by simp [specStep, S.insert, hi]⟩
  case tryInsert i v =>
    simp only [needs] at h
    by_cases hi : i ≤ xs.length <;> simp [hi] at h
    exact ⟨.unit, by simp [specStep, S.insert, hi]⟩
  case extendFromWithin sb eb =>
    simp only [needs] at h
    cases hr : S.range sb eb xs.length <;> simp [hr] at h
    exact ⟨.unit, by simp [specStep, S.extendFromWithin, hr]⟩
  case extendFromWithinCopy sb eb =>
    simp only [needs] at h
    cases hr : S.range sb eb xs.length <;> simp [hr] at h
    exact ⟨.unit, by simp [specStep, S.extendFromWithin, hr]⟩
  case tryExtendFromWithin sb eb =>
    simp only [needs] at h
    cases hr : S.range sb eb xs.length <;> simp [hr] at h
    exact ⟨.unit, by simp [specStep, S.extendFromWithin, hr]⟩
  all_goals first | (simp [needs] at h; done) | exact ⟨_, rfl⟩

/-! ## Layout arithmetic -/

theorem roundUp_mod (n a : Nat) : roundUp n a % a = 0 := by
  unfold roundUp; exact Nat.mul_mod_left _ _

theorem roundUp_ge (n a : Nat) (ha : 0 < a) : n ≤ roundUp n a := by
  unfold roundUp
  have h1 := Nat.div_add_mod (n + a - 1) a
  have h2 := Nat.mod_lt (n + a - 1) ha
  rw [Nat.mul_comm] at h1
  omega

theorem roundUp_lt (n a : Nat) (ha : 0 < a) : roundUp n a < n + a := by
  unfold roundUp
  have h1 := Nat.div_add_mod (n + a - 1) a
  rw [Nat.mul_comm] at h1
  omega

/-- A multiple of `a` in `[n, n + a)` is `roundUp n a`. -/
theorem roundUp_unique (n a m : Nat) (ha : 0 < a) (hm : m % a = 0) (h1 : n ≤ m) (h2 : m < n + a) :
    roundUp n a = m := by
  unfold roundUp
  have hk : m = m / a * a := by
    have := Nat.div_add_mod m a
    rw [Nat.mul_comm] at this; omega
  have : (n + a - 1) / a = m / a := by
    apply Nat.div_eq_of_lt_le
    · rw [← hk]; omega
    · rw [Nat.add_mul, ← hk]; omega
  rw [this, ← hk]

/-- Two multiples of `a`, one strictly below the other, are at least `a` apart. -/
theorem mult_gap (s b a : Nat) (_ha : 0 < a) (hs : s % a = 0) (hb : b % a = 0) (h : s < b) :
    s + a ≤ b := by
  have e1 := Nat.div_add_mod s a
  have e2 := Nat.div_add_mod b a
  rw [hs] at e1; rw [hb] at e2
  have hlt : s / a < b / a := by
    apply Nat.lt_of_mul_lt_mul_left (a := a); omega
  have : a * (s / a + 1) ≤ a * (b / a) := Nat.mul_le_mul_left a hlt
  rw [Nat.mul_add] at this
  omega

/-- Alignments are powers of two (at most `2^63`), as for every Rust type. -/
structure TVParams.Ok (p : TVParams) : Prop where
  alT : ∃ k, k ≤ 63 ∧ p.alT = 2 ^ k
  alP : ∃ k, k ≤ 63 ∧ p.alP = 2 ^ k

/-- Alignment of the whole allocation: `max(align_of::<Header>(), align_of::<T>())`. -/
def layoutAlign (p : TVParams) : Nat := max (hdrAlign p) p.alT

theorem max_pow2 (i j : Nat) : max (2 ^ i) (2 ^ j) = 2 ^ (max i j) := by
  by_cases h : i ≤ j
  · have := Nat.pow_le_pow_right (by decide : 0 < 2) h
    rw [Nat.max_eq_right this, Nat.max_eq_right h]
  · have h' : j ≤ i := by omega
    have := Nat.pow_le_pow_right (by decide : 0 < 2) h'
    rw [Nat.max_eq_left this, Nat.max_eq_left h']

theorem layoutAlign_ok (p : TVParams) (hp : p.Ok) :
    0 < layoutAlign p ∧ 2 ^ 63 % layoutAlign p = 0 ∧ p.alT ≤ layoutAlign p ∧ 0 < p.alT := by
  obtain ⟨k, hk, ek⟩ := hp.alT
  obtain ⟨j, hj, ej⟩ := hp.alP
  have e : layoutAlign p = 2 ^ (max (max j 3) k) := by
    unfold layoutAlign hdrAlign
    rw [ek, ej, show (8 : Nat) = 2 ^ 3 from rfl, max_pow2, max_pow2]
  have hm : max (max j 3) k ≤ 63 := by omega
  refine ⟨?_, ?_, ?_, ?_⟩
  · rw [e]; exact Nat.pow_pos (by decide)
  · rw [e]; exact Nat.mod_eq_zero_of_dvd (Nat.pow_dvd_pow 2 hm)
  · unfold layoutAlign; exact Nat.le_max_right _ _
  · rw [ek]; exact Nat.pow_pos (by decide)

/-- What a successful `layout(n)` says, spelled out. -/
theorem layout_some {p : TVParams} {n : Nat} {L : Layout} {off c : Nat}
    (h : layout p n = some (L, off, c)) :
    p.szT * n ≤ 2 ^ 63 - p.alT ∧ off = dataOffset p ∧ off + p.szT * n ≤ 2 ^ 63 - layoutAlign p ∧
    L = ⟨roundUp (off + p.szT * n) (layoutAlign p), layoutAlign p⟩ ∧
    c = if p.szT = 0 then usizeMax else (L.size - off) / p.szT := by
  unfold layout at h
  simp only [isizeMax, layoutAlign] at *
  by_cases c1 : p.szT * n > 2 ^ 63 - 1 + 1 - p.alT
  · simp [c1] at h
  · by_cases c2 : dataOffset p + p.szT * n > 2 ^ 63 - 1 + 1 - max (hdrAlign p) p.alT
    · simp [c1, c2] at h
    · simp only [c1, c2, if_false, Option.some.injEq, Prod.mk.injEq] at h
      obtain ⟨h1, h2, h3⟩ := h
      subst h1 h2 h3
      refine ⟨by omega, rfl, by omega, rfl, rfl⟩

theorem layout_of {p : TVParams} {n : Nat}
    (_h1 : p.szT * n ≤ 2 ^ 63 - p.alT) (h2 : dataOffset p + p.szT * n ≤ 2 ^ 63 - layoutAlign p) :
    layout p n = some (⟨roundUp (dataOffset p + p.szT * n) (layoutAlign p), layoutAlign p⟩,
      dataOffset p,
      if p.szT = 0 then usizeMax
      else (roundUp (dataOffset p + p.szT * n) (layoutAlign p) - dataOffset p) / p.szT) := by
  unfold layout
  simp only [isizeMax, layoutAlign] at *
  have c1 : ¬ p.szT * n > 2 ^ 63 - 1 + 1 - p.alT := by omega
  have c2 : ¬ dataOffset p + p.szT * n > 2 ^ 63 - 1 + 1 - max (hdrAlign p) p.alT := by omega
  simp [c1, c2]

/-- The rounded capacity is at least the requested one (`debug_assert!(payload <= round_up)`). -/
theorem layout_ge {p : TVParams} (hp : p.Ok) {n : Nat} {L : Layout} {off c : Nat}
    (h : layout p n = some (L, off, c)) (hn : n ≤ usizeMax) : n ≤ c := by
  obtain ⟨_, _, h3, h4, h5⟩ := layout_some h
  obtain ⟨hA, _, _, _⟩ := layoutAlign_ok p hp
  by_cases hz : p.szT = 0
  · simp [hz] at h5; omega
  · simp only [hz, if_false] at h5
    rw [h5, Nat.le_div_iff_mul_le (by omega)]
    have := roundUp_ge (off + p.szT * n) (layoutAlign p) hA
    rw [h4]; simp only
    rw [Nat.mul_comm]; omega

/-- `offset + cap * size_of::<T>() ≤ layout.size` and the first element is aligned: the buffer
    that `alloc`/`realloc` returns really holds `cap` elements at `DATA_OFFSET`. -/
theorem layout_fits {p : TVParams} (hp : p.Ok) {n : Nat} {L : Layout} {off c : Nat}
    (h : layout p n = some (L, off, c)) (hz : p.szT ≠ 0) :
    off + c * p.szT ≤ L.size ∧ off % p.alT = 0 := by
  obtain ⟨_, h2, h3, h4, h5⟩ := layout_some h
  obtain ⟨hA, _, _, _⟩ := layoutAlign_ok p hp
  simp only [hz, if_false] at h5
  refine ⟨?_, ?_⟩
  · have h6 := Nat.div_mul_le_self (L.size - off) p.szT
    have := roundUp_ge (off + p.szT * n) (layoutAlign p) hA
    rw [h5]
    have : off ≤ L.size := by rw [h4]; simp only; omega
    omega
  · rw [h2]; exact roundUp_mod _ _

/-- Zero-sized elements: the capacity is `usize::MAX` and the allocation is just the header. -/
theorem layout_zst {p : TVParams} {n : Nat} {L : Layout} {off c : Nat}
    (h : layout p n = some (L, off, c)) (hz : p.szT = 0) :
    c = usizeMax ∧ L.size = roundUp (dataOffset p) (layoutAlign p) := by
  obtain ⟨_, h2, _, h4, h5⟩ := layout_some h
  simp [hz] at h5
  subst h2
  simp [h4, h5, hz]

/-- Recomputing the layout from the rounded capacity gives the same layout (and the same rounded
    capacity): `current_layout()` is the layout the block was allocated with. -/
theorem layout_idem' {p : TVParams} (hp : p.Ok) {n : Nat} {L : Layout} {off c : Nat}
    (h : layout p n = some (L, off, c)) : layout p c = some (L, off, c) := by
  obtain ⟨h1, h2, h3, h4, h5⟩ := layout_some h
  obtain ⟨hA, hB, hle, hT⟩ := layoutAlign_ok p hp
  by_cases hz : p.szT = 0
  · rw [layout_of (by simp [hz]) (by simp [hz]; simp [hz] at h3; omega)]
    simp [hz] at h5 h4
    subst h2
    simp [hz, h4, h5]
  · simp only [hz, if_false] at h5
    -- S = size of the layout
    have hS : L.size = roundUp (off + p.szT * n) (layoutAlign p) := by rw [h4]
    have hge := roundUp_ge (off + p.szT * n) (layoutAlign p) hA
    have hlt := roundUp_lt (off + p.szT * n) (layoutAlign p) hA
    have hmod := roundUp_mod (off + p.szT * n) (layoutAlign p)
    rw [← hS] at hge hlt hmod
    have hAle : layoutAlign p ≤ 2 ^ 63 :=
      Nat.le_of_dvd (by decide) (Nat.dvd_of_mod_eq_zero hB)
    have hSB : L.size + layoutAlign p ≤ 2 ^ 63 :=
      mult_gap _ _ _ hA hmod hB (by omega)
    have hc1 : p.szT * c ≤ L.size - off := by
      rw [h5, Nat.mul_comm]; exact Nat.div_mul_le_self _ _
    have hnc : p.szT * n ≤ p.szT * c := by
      apply Nat.mul_le_mul_left
      rw [h5, Nat.le_div_iff_mul_le (by omega), Nat.mul_comm]; omega
    have hru : roundUp (off + p.szT * c) (layoutAlign p) = L.size :=
      roundUp_unique _ _ _ hA hmod (by omega) (by omega)
    subst h2
    rw [layout_of (by omega) (by omega), hru]
    simp only [hz, if_false, ← h5]
    rw [h4]

/-! ## ThinVec: invariant and growth policy -/

/-- A valid layout is at most `isize::MAX + 1 - align` bytes, also after padding. -/
theorem layout_size_le {p : TVParams} (hp : p.Ok) {n : Nat} {L : Layout} {off c : Nat}
    (h : layout p n = some (L, off, c)) : off ≤ L.size ∧ L.size + layoutAlign p ≤ 2 ^ 63 := by
  obtain ⟨h1, h2, h3, h4, h5⟩ := layout_some h
  obtain ⟨hA, hB, _, _⟩ := layoutAlign_ok p hp
  have hS : L.size = roundUp (off + p.szT * n) (layoutAlign p) := by rw [h4]
  have hge := roundUp_ge (off + p.szT * n) (layoutAlign p) hA
  have hlt := roundUp_lt (off + p.szT * n) (layoutAlign p) hA
  have hmod := roundUp_mod (off + p.szT * n) (layoutAlign p)
  rw [← hS] at hge hlt hmod
  have hAle : layoutAlign p ≤ 2 ^ 63 :=
    Nat.le_of_dvd (by decide) (Nat.dvd_of_mod_eq_zero hB)
  exact ⟨by omega, mult_gap _ _ _ hA hmod hB (by omega)⟩

theorem layout_ge_nz {p : TVParams} (hp : p.Ok) {n : Nat} {L : Layout} {off c : Nat}
    (h : layout p n = some (L, off, c)) (hz : p.szT ≠ 0) : n ≤ c ∧ c * 2 ≤ usizeMax := by
  obtain ⟨h1, h2, h3, h4, h5⟩ := layout_some h
  obtain ⟨hA, hB, _, _⟩ := layoutAlign_ok p hp
  have hf := (layout_fits hp h hz).1
  have ⟨hoff, hSB⟩ := layout_size_le hp h
  have hge := roundUp_ge (off + p.szT * n) (layoutAlign p) hA
  have hS : L.size = roundUp (off + p.szT * n) (layoutAlign p) := by rw [h4]
  rw [← hS] at hge
  have hcc : c ≤ c * p.szT := Nat.le_mul_of_pos_right c (by omega)
  refine ⟨?_, ?_⟩
  · rw [if_neg hz] at h5
    rw [h5, Nat.le_div_iff_mul_le (by omega), Nat.mul_comm]; omega
  · simp only [usizeMax]; omega

/-- Invariant of a `ThinVec`: sane type parameters, `len ≤ cap`, and `cap` is a capacity that
    `layout` produced (so that `current_layout()` is the allocation's layout). -/
structure TV.Wf (s : TV α) : Prop where
  ok : s.params.Ok
  len : s.xs.length ≤ s.cap
  fix : ∃ n L, layout s.params n = some (L, dataOffset s.params, s.cap)

theorem TV.Wf.cur {s : TV α} (hw : s.Wf) :
    ∃ L, layout s.params s.cap = some (L, dataOffset s.params, s.cap) := by
  obtain ⟨n, L, h⟩ := hw.fix
  exact ⟨L, layout_idem' hw.ok h⟩

theorem TV.Wf.zst {s : TV α} (hw : s.Wf) (hz : s.szT = 0) : s.cap = usizeMax := by
  obtain ⟨n, L, h⟩ := hw.fix
  exact (layout_zst h hz).1

theorem TV.Wf.cap2 {s : TV α} (hw : s.Wf) (hz : s.szT ≠ 0) : s.cap * 2 ≤ usizeMax := by
  obtain ⟨n, L, h⟩ := hw.fix
  exact (layout_ge_nz hw.ok h hz).2

/-- `set_capacity(n)` for `len ≤ n`: either the layout is too large (panic, nothing changed) or
    the vector now has a capacity `≥ n` that again comes from `layout`. -/
theorem TV.setCapacity_spec (s : TV α) (hw : s.Wf) (n : Nat) (hn : s.xs.length ≤ n)
    (hu : n ≤ usizeMax) :
    s.setCapacity n = (.panic .overflow, s) ∨
    ∃ c, s.setCapacity n = (.ok .unit, { s with cap := c }) ∧ n ≤ c ∧ ({ s with cap := c } : TV α).Wf := by
  obtain ⟨L, hc⟩ := hw.cur
  unfold TV.setCapacity
  rw [hc]
  cases hl : layout s.params n with
  | none => left; rfl
  | some r =>
    obtain ⟨nl, o, rc⟩ := r
    right
    have ho := (layout_some hl).2.1
    have hge : n ≤ rc := layout_ge hw.ok hl hu
    by_cases he : L = nl
    · refine ⟨s.cap, by simp [he], ?_, by cases s; exact hw⟩
      have e1 := (layout_some hl).2.2.2.2
      have e2 := (layout_some hc).2.2.2.2
      rw [he, ← ho] at e2
      rw [e2, ← e1]; exact hge
    · refine ⟨rc, by simp [he], hge, ⟨hw.ok, by simp only; omega, ⟨n, nl, ?_⟩⟩⟩
      rw [ho] at hl; exact hl

/-- `reserve(k)`: panics with a capacity overflow and changes nothing, or ends with
    `len + k ≤ cap` (never shrinking). -/
theorem TV.reserve_spec (s : TV α) (hw : s.Wf) (k : Nat) :
    s.reserve k = (.panic .overflow, s) ∨
    ∃ c, s.reserve k = (.ok .unit, { s with cap := c }) ∧ s.xs.length + k ≤ c ∧
      ({ s with cap := c } : TV α).Wf := by
  unfold TV.reserve
  by_cases hb : k > s.cap - s.xs.length
  · simp only [hb, if_true]
    unfold checkedAdd
    by_cases ho : s.xs.length + k ≤ usizeMax
    · simp only [ho, if_true]
      by_cases hz : s.szT = 0
      · have := hw.zst hz; have := hw.len; omega
      · have h2 := hw.cap2 hz
        have hl := hw.len
        rcases TV.setCapacity_spec s hw (max (s.xs.length + k) (s.cap * 2)) (by omega) (by omega) with h | ⟨c, h1, h3, h4⟩
        · left; exact h
        · right; exact ⟨c, h1, by omega, h4⟩
    · left; simp [ho]
  · right
    refine ⟨s.cap, by simp [hb], ?_, by cases s; exact hw⟩
    have := hw.len; omega

theorem TV.reserveExact_spec (s : TV α) (hw : s.Wf) (k : Nat) :
    s.reserveExact k = (.panic .overflow, s) ∨
    ∃ c, s.reserveExact k = (.ok .unit, { s with cap := c }) ∧ s.xs.length + k ≤ c ∧
      ({ s with cap := c } : TV α).Wf := by
  unfold TV.reserveExact
  by_cases hb : k > s.cap - s.xs.length
  · simp only [hb, if_true]
    unfold checkedAdd
    by_cases ho : s.xs.length + k ≤ usizeMax
    · simp only [ho, if_true]
      rcases TV.setCapacity_spec s hw (s.xs.length + k) (by omega) ho with h | ⟨c, h1, h3, h4⟩
      · left; exact h
      · right; exact ⟨c, h1, h3, h4⟩
    · left; simp [ho]
  · right
    refine ⟨s.cap, by simp [hb], ?_, by cases s; exact hw⟩
    have := hw.len; omega

theorem TV.afterReserve_spec (s : TV α) (hw : s.Wf) (k : Nat) (f : TV α → Outcome α × TV α) :
    s.afterReserve k f = (.panic .overflow, s) ∨
    ∃ c, s.xs.length + k ≤ c ∧ ({ s with cap := c } : TV α).Wf ∧
      s.afterReserve k f = f { s with cap := c } := by
  unfold TV.afterReserve
  rcases TV.reserve_spec s hw k with h | ⟨c, h1, h2, h3⟩
  · left; rw [h]
  · right; exact ⟨c, h2, h3, by rw [h1]⟩

/-- `with_capacity(n)`: panics (layout too large) or yields an empty vector with capacity
    `≥ n` (for zero-sized elements: `usize::MAX`). -/
theorem TV.withCapacity_spec (p : TVParams) (hp : p.Ok) (n : Nat) :
    (TV.withCapacity p n : Option (TV α)) = none ∨
    ∃ t : TV α, TV.withCapacity p n = some t ∧ t.Wf ∧ t.xs = [] ∧ t.params = p ∧
      (p.szT ≠ 0 → n ≤ t.cap) ∧ (p.szT = 0 → t.cap = usizeMax) := by
  unfold TV.withCapacity
  cases hl : layout p (max n (minimalCapacity p.szT)) with
  | none => left; simp only [hl]
  | some r =>
    obtain ⟨L, o, c⟩ := r
    right
    have ho := (layout_some hl).2.1
    refine ⟨⟨c, [], p.szT, p.alT, p.szP, p.alP⟩, by simp only [hl], ⟨hp, by simp, ⟨max n (minimalCapacity p.szT), L, ?_⟩⟩, rfl, rfl, ?_, ?_⟩
    · rw [ho] at hl; exact hl
    · intro hz
      have := (layout_ge_nz hp hl hz).1
      simp only; omega
    · intro hz; exact (layout_zst hl hz).1

/-- Arguments that are slices have a `usize` length (only matters for zero-sized elements, whose
    capacity is `usize::MAX`). -/
def Op.InRange : Op α → Prop
  | .from _ _ items => items.length ≤ usizeMax
  | _ => True

/-- One `ThinVec` step against the `Vec` specification: the invariant holds afterwards, the type
    parameters are those of the variable, and either the step panicked with a capacity overflow
    (keeping the old elements plus a prefix of what was being appended) or it returned what `Vec`
    returns and holds what `Vec` holds. -/
structure TV.Sim (s : TV α) (op : Op α) (r : Outcome α × TV α) : Prop where
  wf : r.2.Wf
  params : r.2.params = s.params
  res : (r.1 = .panic .overflow ∧ ∃ pre, pre <+: appended op ∧ r.2.xs = s.xs ++ pre) ∨
        (r.1 = (specStep s.xs op).1 ∧ r.2.xs = (specStep s.xs op).2)

theorem TV.sim_overflow (s : TV α) (hw : s.Wf) (op : Op α) : TV.Sim s op (.panic .overflow, s) :=
  ⟨hw, rfl, .inl ⟨rfl, [], List.nil_prefix, by simp⟩⟩

theorem TV.Wf.withXs {s : TV α} {c : Nat} (hw : ({ s with cap := c } : TV α).Wf) (ys : List α)
    (h : ys.length ≤ c) : ({ s with cap := c, xs := ys } : TV α).Wf :=
  ⟨hw.ok, h, hw.fix⟩

theorem TV.Wf.withXs' {s : TV α} (hw : s.Wf) (ys : List α)
    (h : ys.length ≤ s.cap) : ({ s with xs := ys } : TV α).Wf :=
  ⟨hw.ok, h, hw.fix⟩

/-- Result shape shared by the operations that reserve and then write. -/
theorem TV.sim_afterReserve (s : TV α) (hw : s.Wf) (op : Op α) (k : Nat) (o : Outcome α)
    (ys : List α → List α)
    (ho : o = (specStep s.xs op).1) (hy : ys s.xs = (specStep s.xs op).2)
    (hl : (ys s.xs).length ≤ s.xs.length + k) :
    TV.Sim s op (s.afterReserve k fun s' => (o, { s' with xs := ys s'.xs })) := by
  rcases TV.afterReserve_spec s hw k (fun s' => (o, { s' with xs := ys s'.xs })) with h | ⟨c, h1, h2, h3⟩
  · rw [h]; exact TV.sim_overflow s hw op
  · rw [h3]
    exact ⟨h2.withXs _ (by simp only; omega), rfl, .inr ⟨ho, hy⟩⟩

theorem TV.extendLoop_spec (s : TV α) (hw : s.Wf) (m i : Nat) (items : List α)
    (hroom : s.xs.length + min (m - i) items.length ≤ s.cap) :
    let r := s.extendLoop m i items
    r.2.Wf ∧ r.2.params = s.params ∧
    ((r.1 = .panic .overflow ∧ ∃ pre, pre <+: items ∧ r.2.xs = s.xs ++ pre) ∨
     (r.1 = .ok .unit ∧ r.2.xs = s.xs ++ items)) := by
  induction items generalizing s i with
  | nil => exact ⟨hw, rfl, .inr ⟨rfl, by simp [TV.extendLoop]⟩⟩
  | cons v rest ih =>
    simp only [TV.extendLoop]
    by_cases hi : i ≥ m
    · simp only [hi, if_true]
      rcases TV.reserve_spec s hw 1 with h | ⟨c, h1, h2, h3⟩
      · rw [h]; exact ⟨hw, rfl, .inl ⟨rfl, [], List.nil_prefix, by simp⟩⟩
      · rw [h1]
        have hw' : ({ s with cap := c, xs := s.xs ++ [v] } : TV α).Wf :=
          h3.withXs _ (by simp; omega)
        have := ih _ hw' (i + 1) (by simp; omega)
        obtain ⟨a, b, c'⟩ := this
        refine ⟨a, b, ?_⟩
        rcases c' with ⟨e1, pre, hp, e2⟩ | ⟨e1, e2⟩
        · exact .inl ⟨e1, v :: pre, List.cons_prefix_cons.mpr ⟨rfl, hp⟩, by simp [e2]⟩
        · exact .inr ⟨e1, by simp [e2]⟩
    · simp only [hi, if_false]
      simp only [List.length_cons] at hroom
      have hw' : ({ s with xs := s.xs ++ [v] } : TV α).Wf :=
        hw.withXs' _ (by simp; omega)
      have := ih _ hw' (i + 1) (by simp; omega)
      obtain ⟨a, b, c'⟩ := this
      refine ⟨a, b, ?_⟩
      rcases c' with ⟨e1, pre, hp, e2⟩ | ⟨e1, e2⟩
      · exact .inl ⟨e1, v :: pre, List.cons_prefix_cons.mpr ⟨rfl, hp⟩, by simp [e2]⟩
      · exact .inr ⟨e1, by simp [e2]⟩

theorem TV.pop_spec (s : TV α) :
    s.pop = (.ok (.opt (S.pop s.xs).1), { s with xs := (S.pop s.xs).2 }) := by
  unfold TV.pop S.pop
  by_cases h : s.xs.length = 0
  · have : s.xs = [] := List.eq_nil_of_length_eq_zero h
    cases s; simp_all
  · have hl : s.xs.length - 1 < s.xs.length := by omega
    simp [h, List.getLast?_eq_getElem?, List.getElem?_eq_getElem hl, List.dropLast_eq_take]

/-- Same contents, possibly another capacity: the simulation for operations that only touch
    the capacity. -/
theorem TV.sim_capOnly (s : TV α) (op : Op α) (c : Nat) (hw : ({ s with cap := c } : TV α).Wf)
    (h1 : (specStep s.xs op).1 = .ok .unit) (h2 : (specStep s.xs op).2 = s.xs) :
    TV.Sim s op (.ok .unit, { s with cap := c }) :=
  ⟨hw, rfl, .inr ⟨h1.symm, h2.symm⟩⟩

theorem TV.step_sim (s : TV α) (hw : s.Wf) (op : Op α) (hs : op.forTV = true) (hr : op.InRange) :
    TV.Sim s op (s.step op) := by
  have hlen := hw.len
  cases op
  case push v =>
    exact TV.sim_afterReserve s hw (.push v) 1 (.ok .unit) (fun xs => xs ++ [v]) rfl rfl (by simp)
  case pop =>
    simp only [TV.step, TV.pop_spec]
    exact ⟨hw.withXs' _ (by simp [S.pop]; omega), rfl, .inr ⟨rfl, rfl⟩⟩
  case insert i v =>
    simp only [TV.step, TV.insert]
    by_cases h : i ≤ s.xs.length
    · simp only [h, if_true]
      exact TV.sim_afterReserve s hw (.insert i v) 1 (.ok .unit) (fun xs => xs.take i ++ v :: xs.drop i)
        (by simp [specStep, S.insert, h]) (by simp [specStep, S.insert, h, insertIdx_eq_take_drop _ _ _ h])
        (by simp; omega)
    · simp only [h, if_false]
      exact ⟨hw, rfl, .inr ⟨by simp [specStep, S.insert, h], by simp [specStep, S.insert, h]⟩⟩
  case remove i =>
    simp only [TV.step, TV.remove]
    by_cases h : i < s.xs.length
    · simp only [h, if_true, List.getElem?_eq_getElem h]
      exact ⟨hw.withXs' _ (by simp; omega), rfl,
        .inr ⟨by simp [specStep, S.remove, h], by simp [specStep, S.remove, h, List.eraseIdx_eq_take_drop_succ]⟩⟩
    · have : s.xs[i]? = none := by simp; omega
      simp only [h, if_false]
      exact ⟨hw, rfl, .inr ⟨by simp [specStep, S.remove, this], by simp [specStep, S.remove, this]⟩⟩
  case swapRemove i =>
    simp only [TV.step, TV.swapRemove]
    by_cases h : i < s.xs.length
    · have hl : s.xs.length - 1 < s.xs.length := by omega
      simp only [h, if_true, List.getElem?_eq_getElem h, List.getElem?_eq_getElem hl]
      refine ⟨hw.withXs' _ (by simp; omega), rfl, .inr ⟨?_, ?_⟩⟩ <;>
        simp [specStep, S.swapRemove, h, List.getLast?_eq_getElem?, List.getElem?_eq_getElem hl,
          List.dropLast_eq_take]
    · have : s.xs[i]? = none := by simp; omega
      simp only [h, if_false]
      exact ⟨hw, rfl, .inr ⟨by simp [specStep, S.swapRemove, this], by simp [specStep, S.swapRemove, this]⟩⟩
  case truncate n =>
    simp only [TV.step, TV.truncate]
    by_cases h : n > s.xs.length
    · simp only [h, if_true]
      have : s.xs.take n = s.xs := List.take_of_length_le (by omega)
      exact ⟨hw, rfl, .inr ⟨rfl, by simp [specStep, S.truncate, this]⟩⟩
    · simp only [h, if_false]
      exact ⟨hw.withXs' _ (by simp; omega), rfl, .inr ⟨rfl, rfl⟩⟩
  case clear =>
    exact ⟨hw.withXs' _ (by simp), rfl, .inr ⟨rfl, rfl⟩⟩
  case resize n v =>
    simp only [TV.step, TV.resize, TV.truncate]
    by_cases h : n > s.xs.length
    · simp only [h, if_true]
      have h' : ¬ n ≤ s.xs.length := by omega
      exact TV.sim_afterReserve s hw (.resize n v) (n - s.xs.length) (.ok .unit)
        (fun xs => xs ++ List.replicate (n - s.xs.length) v) rfl (by simp [specStep, S.resize, h'])
        (by simp)
    · simp only [h, if_false]
      have h' : n ≤ s.xs.length := by omega
      exact ⟨hw.withXs' _ (by simp; omega), rfl, .inr ⟨rfl, by simp [specStep, S.resize, h']⟩⟩
  case extendFromSlice l =>
    exact TV.sim_afterReserve s hw (.extendFromSlice l) l.length (.ok .unit) (fun xs => xs ++ l) rfl rfl (by simp)
  case extendFromSliceCopy l =>
    exact TV.sim_afterReserve s hw (.extendFromSliceCopy l) l.length (.ok .unit) (fun xs => xs ++ l) rfl rfl (by simp)
  case extendFromWithin sb eb =>
    simp only [TV.step, TV.extendFromWithin, TV.tryExtendFromWithin, rangeMono_spec]
    cases hrg : S.range sb eb s.xs.length with
    | none =>
      exact ⟨hw, rfl, .inr ⟨by simp [specStep, S.extendFromWithin, hrg], by simp [specStep, S.extendFromWithin, hrg]⟩⟩
    | some p =>
      obtain ⟨a, b⟩ := p
      have := TV.sim_afterReserve s hw (.extendFromWithin sb eb) (b - a) (.ok .unit)
        (fun xs => xs ++ (xs.drop a).take (b - a))
        (by simp [specStep, S.extendFromWithin, hrg]) (by simp [specStep, S.extendFromWithin, hrg])
        (by simp; omega)
      rcases TV.afterReserve_spec s hw (b - a) (fun s' => (.ok .unit, { s' with xs := s'.xs ++ (s'.xs.drop a).take (b - a) })) with h | ⟨c, h1, h2, h3⟩
      · simp only [h]; exact TV.sim_overflow s hw _
      · simp only [h3] at this ⊢; exact this
  case tryExtendFromWithin sb eb =>
    simp only [TV.step, TV.tryExtendFromWithin, rangeMono_spec]
    cases hrg : S.range sb eb s.xs.length with
    | none =>
      exact ⟨hw, rfl, .inr ⟨by simp [specStep, S.extendFromWithin, hrg], by simp [specStep, S.extendFromWithin, hrg]⟩⟩
    | some p =>
      obtain ⟨a, b⟩ := p
      exact TV.sim_afterReserve s hw (.tryExtendFromWithin sb eb) (b - a) (.ok .unit)
        (fun xs => xs ++ (xs.drop a).take (b - a))
        (by simp [specStep, S.extendFromWithin, hrg]) (by simp [specStep, S.extendFromWithin, hrg])
        (by simp; omega)
  case extend hint items =>
    simp only [TV.step, TV.extend]
    rcases TV.afterReserve_spec s hw hint (fun s' => s'.extendLoop hint 0 items) with h | ⟨c, h1, h2, h3⟩
    · rw [h]; exact TV.sim_overflow s hw _
    · rw [h3]
      obtain ⟨a, b, r⟩ := TV.extendLoop_spec _ h2 hint 0 items (by simp only; omega)
      refine ⟨a, b, ?_⟩
      rcases r with ⟨e1, pre, hp, e2⟩ | ⟨e1, e2⟩
      · exact .inl ⟨e1, pre, hp, e2⟩
      · exact .inr ⟨e1, e2⟩
  case append other =>
    exact TV.sim_afterReserve s hw (.append other) other.length (.ok (.items [])) (fun xs => xs ++ other) rfl rfl (by simp)
  case spareWrite vals =>
    exact TV.sim_afterReserve s hw (.spareWrite vals) vals.length (.ok .unit) (fun xs => xs ++ vals) rfl rfl (by simp)
  case splitOff n =>
    simp only [TV.step, TV.splitOff]
    by_cases h : n ≤ s.xs.length
    · simp only [h, if_true]
      rcases TV.withCapacity_spec (α := α) s.params hw.ok (s.xs.length - n) with h0 | ⟨t, h1, _⟩
      · rw [h0]; exact TV.sim_overflow s hw _
      · rw [h1]
        exact ⟨hw.withXs' _ (by simp; omega), rfl,
          .inr ⟨by simp [specStep, S.splitOff, h], by simp [specStep, S.splitOff, h]⟩⟩
    · simp only [h, if_false]
      exact ⟨hw, rfl, .inr ⟨by simp [specStep, S.splitOff, h], by simp [specStep, S.splitOff, h]⟩⟩
  case drain sb eb sc fin =>
    simp only [TV.step, TV.drain, rangeMono_spec]
    cases hrg : S.range sb eb s.xs.length with
    | none =>
      exact ⟨hw, rfl, .inr ⟨by simp [specStep, S.drain, hrg], by simp [specStep, S.drain, hrg]⟩⟩
    | some p =>
      obtain ⟨a, b⟩ := p
      have hb := range_bounds hrg
      cases fin
      · exact ⟨hw.withXs' _ (by simp; omega), rfl,
          .inr ⟨by simp [TV.drainCore, specStep, S.drain, hrg, walk_eq_consume _ _ _ _ hb.2],
                by simp [TV.drainCore, specStep, S.drain, hrg]⟩⟩
      · exact ⟨hw.withXs' _ (by simp; omega), rfl,
          .inr ⟨by simp [TV.drainCore, specStep, S.drain, hrg, walk_eq_consume _ _ _ _ hb.2],
                by simp [TV.drainCore, specStep, S.drain, hrg]⟩⟩
  case tryDrain sb eb sc fin =>
    simp only [TV.step, TV.tryDrain, rangeMono_spec]
    cases hrg : S.range sb eb s.xs.length with
    | none =>
      exact ⟨hw, rfl, .inr ⟨by simp [specStep, S.drain, hrg], by simp [specStep, S.drain, hrg]⟩⟩
    | some p =>
      obtain ⟨a, b⟩ := p
      have hb := range_bounds hrg
      cases fin
      · exact ⟨hw.withXs' _ (by simp; omega), rfl,
          .inr ⟨by simp [TV.drainCore, specStep, S.drain, hrg, walk_eq_consume _ _ _ _ hb.2],
                by simp [TV.drainCore, specStep, S.drain, hrg]⟩⟩
      · exact ⟨hw.withXs' _ (by simp; omega), rfl,
          .inr ⟨by simp [TV.drainCore, specStep, S.drain, hrg, walk_eq_consume _ _ _ _ hb.2],
                by simp [TV.drainCore, specStep, S.drain, hrg]⟩⟩
  case reserve n =>
    simp only [TV.step]
    rcases TV.reserve_spec s hw n with h | ⟨c, h1, _, h3⟩
    · rw [h]; exact TV.sim_overflow s hw _
    · rw [h1]; exact TV.sim_capOnly s _ c h3 rfl rfl
  case reserveExact n =>
    simp only [TV.step]
    rcases TV.reserveExact_spec s hw n with h | ⟨c, h1, _, h3⟩
    · rw [h]; exact TV.sim_overflow s hw _
    · rw [h1]; exact TV.sim_capOnly s _ c h3 rfl rfl
  case shrinkTo n =>
    simp only [TV.step, TV.shrinkTo]
    have hcap : s.cap ≤ usizeMax := by
      by_cases hz : s.szT = 0
      · rw [hw.zst hz]; exact Nat.le_refl _
      · have := hw.cap2 hz; omega
    by_cases h : n ≥ s.cap
    · simp only [h, if_true]
      exact ⟨hw, rfl, .inr ⟨rfl, rfl⟩⟩
    · simp only [h, if_false]
      rcases TV.setCapacity_spec s hw (max n s.xs.length) (by omega) (by omega) with h0 | ⟨c, h1, _, h3⟩
      · rw [h0]; exact TV.sim_overflow s hw _
      · rw [h1]; exact TV.sim_capOnly s _ c h3 rfl rfl
  case shrinkToFit =>
    simp only [TV.step, TV.shrinkToFit]
    have hcap : s.cap ≤ usizeMax := by
      by_cases hz : s.szT = 0
      · rw [hw.zst hz]; exact Nat.le_refl _
      · have := hw.cap2 hz; omega
    by_cases h : s.xs.length = s.cap
    · simp only [h, if_true]
      exact ⟨hw, rfl, .inr ⟨rfl, rfl⟩⟩
    · simp only [h, if_false]
      rcases TV.setCapacity_spec s hw s.xs.length (Nat.le_refl _) (by omega) with h0 | ⟨c, h1, _, h3⟩
      · rw [h0]; exact TV.sim_overflow s hw _
      · rw [h1]; exact TV.sim_capOnly s _ c h3 rfl rfl
  case withCapacity n =>
    simp only [TV.step, TV.replaceWithCapacity]
    rcases TV.withCapacity_spec (α := α) s.params hw.ok n with h0 | ⟨t, h1, h2, h3, h4, _⟩
    · rw [h0]; exact TV.sim_overflow s hw _
    · rw [h1]; exact ⟨h2, h4, .inr ⟨rfl, h3⟩⟩
  case «from» src hint items =>
    simp only [Op.InRange] at hr
    by_cases hsrc : src = .iter
    · subst hsrc
      simp only [TV.step, TV.from_]
      rcases TV.withCapacity_spec (α := α) s.params hw.ok hint with h0 | ⟨t, h1, h2, h3, h4, h5, h6⟩
      · rw [h0]; exact TV.sim_overflow s hw _
      · rw [h1]
        dsimp only
        have hroom : t.xs.length + min (hint - 0) items.length ≤ t.cap := by
          rw [h3]
          by_cases hz : s.szT = 0
          · have := h6 hz; simp; omega
          · have := h5 hz; simp; omega
        obtain ⟨a, b, r⟩ := TV.extendLoop_spec t h2 hint 0 items hroom
        rcases r with ⟨e1, pre, hp, e2⟩ | ⟨e1, e2⟩
        · have : t.extendLoop hint 0 items = (.panic .overflow, (t.extendLoop hint 0 items).2) := by
            rw [← e1]
          rw [this]; exact TV.sim_overflow s hw _
        · have : t.extendLoop hint 0 items = (.ok .unit, (t.extendLoop hint 0 items).2) := by
            rw [← e1]
          rw [this]
          exact ⟨a, by rw [b, h4], .inr ⟨rfl, by simp [e2, h3, specStep, S.fromItems]⟩⟩
    · have : s.step (.from src hint items) =
          match (TV.withCapacity s.params items.length : Option (TV α)) with
          | none => (.panic .overflow, s)
          | some t => (.ok .unit, { t with xs := items }) := by
        cases src <;> first | rfl | exact absurd rfl hsrc
      rw [this]
      rcases TV.withCapacity_spec (α := α) s.params hw.ok items.length with h0 | ⟨t, h1, h2, h3, h4, h5, h6⟩
      · rw [h0]; exact TV.sim_overflow s hw _
      · rw [h1]
        have hfit : items.length ≤ t.cap := by
          by_cases hz : s.szT = 0
          · have := h6 hz; omega
          · exact h5 hz
        exact ⟨⟨h2.ok, hfit, h2.fix⟩, h4, .inr ⟨rfl, rfl⟩⟩
  all_goals simp [Op.forTV] at hs

theorem TV.step_unsupported (s : TV α) (op : Op α) (hs : op.forTV = false) :
    s.step op = (unsupported, s) := by
  cases op <;> simp [Op.forTV] at hs <;> rfl

/-- The `ThinVec` invariant survives every operation, panicking or not. -/
theorem TV.step_wf (s : TV α) (hw : s.Wf) (op : Op α) (hr : op.InRange) :
    (s.step op).2.Wf ∧ (s.step op).2.params = s.params := by
  by_cases hs : op.forTV = true
  · have := TV.step_sim s hw op hs hr
    exact ⟨this.wf, this.params⟩
  · rw [TV.step_unsupported s op (by simpa using hs)]
    exact ⟨hw, rfl⟩

theorem TV.run_wf (s : TV α) (hw : s.Wf) (ops : List (Op α)) (hr : ∀ op ∈ ops, op.InRange) :
    (s.run ops).2.Wf ∧ (s.run ops).2.params = s.params := by
  induction ops generalizing s with
  | nil => exact ⟨hw, rfl⟩
  | cons op rest ih =>
    have h1 := TV.step_wf s hw op (hr op (List.mem_cons_self ..))
    have h2 := ih (s.step op).2 h1.1 (fun o ho => hr o (List.mem_cons_of_mem _ ho))
    simp only [TV.run]
    exact ⟨h2.1, by rw [h2.2, h1.2]⟩

/-- `ThinVec::new()` satisfies the invariant. -/
theorem TV.new_wf (p : TVParams) (hp : p.Ok) (s : TV α) (h : TV.new p = some s) :
    s.Wf ∧ s.xs = [] ∧ s.params = p := by
  unfold TV.new at h
  rcases TV.withCapacity_spec (α := α) p hp (minimalCapacity p.szT) with h0 | ⟨t, h1, h2, h3, h4, _⟩
  · rw [h0] at h; simp at h
  · rw [h1] at h; simp at h; subst h; exact ⟨h2, h3, h4⟩

/-- A whole history on a std `Vec` (contents are kept after a panic, as `catch_unwind` shows). -/
def specRun (xs : List α) : List (Op α) → List (Outcome α) × List α
  | [] => ([], xs)
  | op :: rest =>
    let r := specStep xs op
    let q := specRun r.2 rest
    (r.1 :: q.1, q.2)

/-- `Vec` only ever panics with an index or a range panic, and then keeps its contents. -/
theorem spec_panic (xs : List α) (op : Op α) (c : PanicClass) (h : (specStep xs op).1 = .panic c) :
    (c = .index ∨ c = .range) ∧ (specStep xs op).2 = xs := by
  cases op
  case insert i v =>
    simp only [specStep] at h ⊢
    cases hh : S.insert xs i v <;> simp_all
  case remove i =>
    simp only [specStep] at h ⊢
    cases hh : S.remove xs i <;> simp_all
  case swapRemove i =>
    simp only [specStep] at h ⊢
    cases hh : S.swapRemove xs i <;> simp_all
  case extendFromWithin sb eb =>
    simp only [specStep] at h ⊢
    cases hh : S.extendFromWithin xs sb eb <;> simp_all
  case extendFromWithinCopy sb eb =>
    simp only [specStep] at h ⊢
    cases hh : S.extendFromWithin xs sb eb <;> simp_all
  case splitOff n =>
    simp only [specStep] at h ⊢
    cases hh : S.splitOff xs n <;> simp_all
  case drain sb eb sc fin =>
    simp only [specStep] at h ⊢
    cases hh : S.drain xs sb eb sc (fin == .leak) <;> simp_all
  case tryInsert i v =>
    simp only [specStep] at h
    cases hh : S.insert xs i v <;> simp_all
  case tryExtendFromWithin sb eb =>
    simp only [specStep] at h
    cases hh : S.extendFromWithin xs sb eb <;> simp_all
  case tryDrain sb eb sc fin =>
    simp only [specStep] at h
    cases hh : S.drain xs sb eb sc (fin == .leak) <;> simp_all
  all_goals simp [specStep] at h

/-! ## Histories and reachable states -/

/-- Along the history (followed on the `Vec` side) every operation exists on `InlineVec` and the
    fixed capacity suffices for it. -/
def IVFits (cap : Nat) (xs : List α) : List (Op α) → Prop
  | [] => True
  | op :: rest => op.forIV = true ∧ needs xs op ≤ cap ∧ IVFits cap (specStep xs op).2 rest

/-- Along the history (followed on the model) every operation exists on `ThinVec`, has `usize`
    arguments and does not hit a capacity overflow. -/
def TVQuiet (s : TV α) : List (Op α) → Prop
  | [] => True
  | op :: rest =>
    op.forTV = true ∧ op.InRange ∧ (s.step op).1 ≠ .panic .overflow ∧ TVQuiet (s.step op).2 rest

/-- States an `InlineVec<_, cap>` can reach from `new()`. -/
def IVReach (cap : Nat) (s : IV α) : Prop := ∃ ops, s = ((IV.new cap : IV α).run ops).2

/-- States a `ThinVec<T, P>` with sane type parameters can reach from `new()` with `usize`
    arguments. -/
def TVReach (p : TVParams) (s : TV α) : Prop :=
  p.Ok ∧ ∃ s0 ops, TV.new p = some s0 ∧ (∀ op ∈ ops, op.InRange) ∧ s = (s0.run ops).2

theorem IVReach.wf {cap : Nat} {s : IV α} (h : IVReach cap s) :
    s.cap = cap ∧ s.xs.length ≤ s.cap := by
  obtain ⟨ops, rfl⟩ := h
  have := IV.run_wf (IV.new cap : IV α) ops (by simp [IV.new])
  simp only [IV.new] at this ⊢
  exact ⟨this.1, by rw [this.1]; exact this.2⟩

theorem TVReach.wf {p : TVParams} {s : TV α} (h : TVReach p s) : s.Wf ∧ s.params = p := by
  obtain ⟨hp, s0, ops, h0, hr, rfl⟩ := h
  obtain ⟨w0, _, p0⟩ := TV.new_wf p hp s0 h0
  have := TV.run_wf s0 w0 ops hr
  exact ⟨this.1, by rw [this.2, p0]⟩

/-- A `ThinVec<u64, Reserved>` right after `new()`. -/
def tv0 : TV Nat := ⟨4, [], 8, 8, 8, 8⟩

theorem tv0_wf : tv0.Wf :=
  ⟨⟨⟨3, by decide, rfl⟩, ⟨3, by decide, rfl⟩⟩, by decide, ⟨4, ⟨56, 8⟩, by decide⟩⟩


/-! ## Counted payloads, `usize` arithmetic of the capacity checks -/

/-- `IV.stepRep` is `IV.step` on the replicated payload. -/
theorem IV.stepRep_eq (s : IV α) (hw : s.xs.length ≤ s.cap) (sh : RepShape) (n : Nat) (v : α) :
    s.stepRep sh n v = s.step (sh.toOp (List.replicate n v)) := by
  cases sh with
  | append => simp [IV.stepRep, RepShape.toOp, IV.step, IV.append]
  | extendFromSlice => simp [IV.stepRep, RepShape.toOp, IV.step, IV.extendFromSlice]
  | extendFromSliceCopy => simp [IV.stepRep, RepShape.toOp, IV.step, IV.extendFromSlice]
  | extend hint =>
    simp only [IV.stepRep, RepShape.toOp, IV.step]
    by_cases h : s.xs.length + n ≤ s.cap
    · rw [IV.extend_spec s _ (by simpa using h)]; simp [h]
    · rw [IV.extend_exceed s _ hw (by simp; omega)]
      have : min (s.cap - s.xs.length) n = s.cap - s.xs.length := by omega
      simp [h, List.take_replicate, this]
  | fromIter hint =>
    simp only [IV.stepRep, RepShape.toOp, IV.step, IV.from_]
    by_cases hh : hint ≤ s.cap
    · by_cases hn : n ≤ s.cap
      · have := IV.extend_spec (IV.new s.cap) (List.replicate n v) (by simp [IV.new]; omega)
        simp [IV.new] at this
        simp [hh, hn, IV.new, this]
      · have := IV.extend_exceed (IV.new s.cap) (List.replicate n v) (by simp [IV.new]) (by simp [IV.new]; omega)
        simp [IV.new] at this
        simp [hh, hn, IV.new, this]
    · simp [hh, IV.new]

/-- `TV.stepRep` is `TV.step` on the replicated payload. -/
theorem TV.stepRep_eq (s : TV α) (sh : RepShape) (n : Nat) (v : α) (h : ∀ k, sh ≠ .fromIter k) :
    s.stepRep sh n v = s.step (sh.toOp (List.replicate n v)) := by
  cases sh with
  | append => simp [TV.stepRep, RepShape.toOp, TV.step, TV.append]
  | extendFromSlice => simp [TV.stepRep, RepShape.toOp, TV.step, TV.extendFromSlice]
  | extendFromSliceCopy => simp [TV.stepRep, RepShape.toOp, TV.step, TV.extendFromSlice]
  | extend hint => simp [TV.stepRep, RepShape.toOp, TV.step, TV.extend]
  | fromIter k => exact absurd rfl (h k)

/-- The fixed check is the model's check, for EVERY `n` (no bound on the source's length). -/
theorem capOk_checked_iff (len n cap : Nat) (h : len ≤ cap) :
    capOk_checked len n cap ↔ len + n ≤ cap := by
  unfold capOk_checked; omega

/-- The wrapping check agrees with the model only below `2^64`. -/
theorem capOk_wrapping_iff (len n cap : Nat) (h : len + n < U) :
    capOk_wrapping len n cap ↔ len + n ≤ cap := by
  unfold capOk_wrapping; rw [Nat.mod_eq_of_lt h]

/-- The defect: with the wrapping check, a 7-slot vector holding 2 elements accepts
    `usize::MAX` more. -/
theorem capOk_wrapping_unfaithful : ¬ (∀ n, capOk_wrapping 2 n 7 → 2 + n ≤ 7) := by
  intro h
  have := h (2 ^ 64 - 1) (by decide)
  omega

end HipVerif.Vecs
