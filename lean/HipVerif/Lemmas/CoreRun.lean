/-
From single steps to every finite history: the invariant and the refinement, lifted by
induction over the operation list.
-/
import HipVerif.Lemmas.CoreStep

namespace HipVerif.Core
open HipVerif.Spec.Std

/-- side conditions along a history: every operation is a call a Rust program can make, in the
state in which it is made -/
def AllOk (cfg : Cfg) (s : State) : List Op → Prop
  | [] => True
  | op :: ops => OpOk s op ∧ AllOk cfg (step cfg s op).1 ops

/-- the specification run on a history, told at each step the representation-dependent answer
the implementation gave -/
def specRun (icap : Nat) (srcs : List (List UInt8)) (p : SPool) : List (Op × Bool) → SPool × List Ret
  | [] => (p, [])
  | (op, flag) :: rest =>
    let (p1, r) := Spec.Std.step icap srcs p op flag
    let (p2, rs) := specRun icap srcs p1 rest
    (p2, r :: rs)

theorem run_nil (cfg : Cfg) (s : State) : run cfg s [] = (s, []) := rfl

theorem run_cons (cfg : Cfg) (s : State) (op : Op) (ops : List Op) :
    run cfg s (op :: ops) =
      ((run cfg (step cfg s op).1 ops).1, (step cfg s op).2 :: (run cfg (step cfg s op).1 ops).2) := rfl

theorem wf_run (cfg : Cfg) (ops : List Op) : ∀ s, Wf cfg s → Wf cfg (run cfg s ops).1 := by
  induction ops with
  | nil => intro s w; exact w
  | cons op ops ih => intro s w; rw [run_cons]; exact ih _ (wf_step cfg s op w)

theorem srcs_run (cfg : Cfg) (ops : List Op) : ∀ s, (run cfg s ops).1.srcs = s.srcs := by
  induction ops with
  | nil => intro s; rfl
  | cons op ops ih => intro s; rw [run_cons]; simp only; rw [ih, srcs_step]

theorem norm_run (cfg : Cfg) (ops : List Op) :
    ∀ s, Wf cfg s → NormOk cfg s → NormOk cfg (run cfg s ops).1 := by
  induction ops with
  | nil => intro s _ n; exact n
  | cons op ops ih =>
    intro s w n; rw [run_cons]
    exact ih _ (wf_step cfg s op w) (norm_step cfg s op w n)

/-- the whole history refines the specification: same contents for every handle at the end,
same returned values at every step -/
theorem run_refines (cfg : Cfg) (ops : List Op) :
    ∀ s, Wf cfg s → AllOk cfg s ops →
      specRun cfg.icap s.srcs (abs s) (ops.zip ((run cfg s ops).2.map (fun o => retFlag o.ret))) =
        (abs (run cfg s ops).1, (run cfg s ops).2.map (fun o => eraseRet o.ret)) := by
  induction ops with
  | nil => intro s _ _; rfl
  | cons op ops ih =>
    intro s w hok
    rw [run_cons]
    simp only [List.map_cons, List.zip_cons_cons, specRun]
    rw [refines cfg s op w hok.1]
    simp only
    have := ih (step cfg s op).1 (wf_step cfg s op w) hok.2
    rw [srcs_step] at this
    rw [this]

end HipVerif.Core
