/-
Helper lemmas for the two-pass constructors (Model/Concat.lean).
-/
import HipVerif.Model.Concat

namespace HipVerif.Concat

theorem writeAt_length (dst : List (Option UInt8)) (pos : Nat) (src : List UInt8)
    (h : pos + src.length ≤ dst.length) : (writeAt dst pos src).length = dst.length := by
  simp only [writeAt, List.length_append, List.length_take, List.length_map, List.length_drop]
  omega

theorem writeAt_take (dst : List (Option UInt8)) (pos : Nat) (src : List UInt8)
    (h : pos + src.length ≤ dst.length) :
    (writeAt dst pos src).take (pos + src.length) = dst.take pos ++ src.map some := by
  have h1 : (dst.take pos ++ src.map some).length = pos + src.length := by
    simp only [List.length_append, List.length_take, List.length_map]; omega
  unfold writeAt
  rw [← h1, List.take_left']
  rfl

theorem total_nil : total [] = 0 := rfl
theorem total_cons (p : List UInt8) (ps : List (List UInt8)) : total (p :: ps) = p.length + total ps := by
  simp [total]
theorem total_eq_flatten_length (ps : List (List UInt8)) : total ps = ps.flatten.length := by
  induction ps with
  | nil => rfl
  | cons p ps ih => simp [total_cons, ih]

theorem foldl_panicked (checked : Bool) (final : Nat) (cs : List (List UInt8)) :
    cs.foldl (copyChunk checked final) .panicked = .panicked := by
  induction cs with
  | nil => rfl
  | cons c cs ih => simpa [copyChunk] using ih

theorem foldl_overran (checked : Bool) (final : Nat) (cs : List (List UInt8)) :
    cs.foldl (copyChunk checked final) .overran = .overran := by
  induction cs with
  | nil => rfl
  | cons c cs ih => simpa [copyChunk] using ih

/-- The copy pass, summarised: starting from a destination whose first `pos` slots hold `acc`,
folding `copyChunk` over `cs` either exits early, or ends with the first `pos + total cs` slots
holding `acc ++ cs.flatten` and the destination's size unchanged. -/
theorem fold_copy (checked : Bool) (final : Nat) (cs : List (List UInt8)) :
    ∀ (dst : List (Option UInt8)) (pos : Nat) (acc : List UInt8),
      pos ≤ dst.length → dst.take pos = acc.map some → acc.length = pos →
      (checked = true → pos ≤ final) →
      (cs.foldl (copyChunk checked final) (.run dst pos) = .panicked ∧ checked = true ∧ pos + total cs > final) ∨
      (cs.foldl (copyChunk checked final) (.run dst pos) = .overran ∧ pos + total cs > dst.length ∧
        (checked = true → final > dst.length)) ∨
      (∃ dst', cs.foldl (copyChunk checked final) (.run dst pos) = .run dst' (pos + total cs) ∧
        dst'.length = dst.length ∧ pos + total cs ≤ dst.length ∧
        (checked = true → pos + total cs ≤ final) ∧
        dst'.take (pos + total cs) = (acc ++ cs.flatten).map some) := by
  induction cs with
  | nil =>
    intro dst pos acc hle htake _ hck
    right; right
    exact ⟨dst, by simp [total], rfl, by simpa [total] using hle, by simpa [total] using hck,
      by simpa [total] using htake⟩
  | cons c cs ih =>
    intro dst pos acc hle htake hacc hck
    rw [List.foldl_cons, total_cons]
    by_cases h1 : checked = true ∧ pos + c.length > final
    · left
      have : copyChunk checked final (.run dst pos) c = .panicked := by
        simp [copyChunk, h1.1, h1.2]
      rw [this, foldl_panicked]
      exact ⟨rfl, h1.1, by omega⟩
    · by_cases h2 : pos + c.length > dst.length
      · right; left
        have : copyChunk checked final (.run dst pos) c = .overran := by
          simp only [copyChunk]
          split
          · rename_i h; simp at h; exact absurd ⟨h.1, by omega⟩ h1
          · simp [h2]
        rw [this, foldl_overran]
        refine ⟨rfl, by omega, ?_⟩
        intro hc
        by_cases h : pos + c.length > final
        · exact absurd ⟨hc, h⟩ h1
        · omega
      · have hstep : copyChunk checked final (.run dst pos) c = .run (writeAt dst pos c) (pos + c.length) := by
          simp only [copyChunk]
          split
          · rename_i h; simp at h; exact absurd ⟨h.1, by omega⟩ h1
          · simp [h2]
        have hle' : pos + c.length ≤ dst.length := by omega
        rw [hstep]
        have hlen := writeAt_length dst pos c hle'
        have htk := writeAt_take dst pos c hle'
        have hck' : checked = true → pos + c.length ≤ final := by
          intro hc
          by_cases h : pos + c.length > final
          · exact absurd ⟨hc, h⟩ h1
          · omega
        rcases ih (writeAt dst pos c) (pos + c.length) (acc ++ c) (by omega)
            (by rw [htk, htake]; simp) (by simp [hacc]) hck' with h | h | ⟨dst', h, hl, hb, hf, ht⟩
        · left; exact ⟨h.1, h.2.1, by omega⟩
        · right; left; exact ⟨h.1, by omega, by intro hc; have := h.2.2 hc; omega⟩
        · right; right
          refine ⟨dst', ?_, by omega, by omega, ?_, ?_⟩
          · rw [h]; congr 1; omega
          · intro hc; have := hf hc; omega
          · have e : pos + (c.length + total cs) = pos + c.length + total cs := by omega
            rw [e, ht]; simp

/-- the chunks the copy pass of `join` writes: first piece, then separator and piece alternately -/
def joinChunks (sep : List UInt8) : List (List UInt8) → List (List UInt8)
  | [] => []
  | first :: rest => first :: rest.flatMap (fun p => [sep, p])

theorem foldl_sep_piece (checked : Bool) (final : Nat) (sep : List UInt8) (rest : List (List UInt8)) :
    ∀ st, rest.foldl (fun st p => copyChunk checked final (copyChunk checked final st sep) p) st =
      (rest.flatMap (fun p => [sep, p])).foldl (copyChunk checked final) st := by
  induction rest with
  | nil => intro st; rfl
  | cons p rest ih => intro st; simp [List.flatMap_cons, ih]

theorem flatMap_sep_flatten (sep : List UInt8) (rest : List (List UInt8)) :
    (rest.flatMap (fun p => [sep, p])).flatten = (rest.map (fun p => sep ++ p)).flatten := by
  induction rest with
  | nil => rfl
  | cons p rest ih => simp [List.flatMap_cons, ih]

theorem intercalate_cons (sep first : List UInt8) (rest : List (List UInt8)) :
    sep.intercalate (first :: rest) = first ++ (rest.map (fun p => sep ++ p)).flatten := by
  induction rest generalizing first with
  | nil => simp [List.intercalate]
  | cons p rest ih =>
    have := ih p
    simp only [List.intercalate, List.intersperse_cons₂, List.flatten_cons, List.map_cons] at *
    rw [this]
    simp

theorem joinChunks_flatten (sep : List UInt8) (ps : List (List UInt8)) :
    (joinChunks sep ps).flatten = sep.intercalate ps := by
  cases ps with
  | nil => simp [joinChunks, List.intercalate]
  | cons first rest => simp [joinChunks, intercalate_cons, flatMap_sep_flatten]

theorem total_flatMap_sep (sep : List UInt8) (rest : List (List UInt8)) :
    total (rest.flatMap (fun p => [sep, p])) = rest.length * sep.length + total rest := by
  induction rest with
  | nil => simp [total]
  | cons p rest ih =>
    simp only [List.flatMap_cons, List.length_cons]
    have : total ([sep, p] ++ rest.flatMap (fun p => [sep, p])) =
        sep.length + (p.length + total (rest.flatMap (fun p => [sep, p]))) := by
      simp [total]
    rw [this, ih, total_cons, Nat.add_mul]
    omega

theorem total_joinChunks (sep : List UInt8) (ps : List (List UInt8)) (h : ps ≠ []) :
    total (joinChunks sep ps) = (ps.length - 1) * sep.length + total ps := by
  cases ps with
  | nil => exact absurd rfl h
  | cons first rest =>
    simp only [joinChunks, total_cons, total_flatMap_sep, List.length_cons, Nat.add_sub_cancel]
    omega

end HipVerif.Concat
