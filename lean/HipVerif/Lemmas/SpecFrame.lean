/-
Frame property of the std-side specification: an operation changes only the slots it writes.
Together with `refines` this gives handle independence (C02) for the representation model.
-/
import HipVerif.Lemmas.CoreStr

namespace HipVerif.Core
open HipVerif.Spec.Std HipVerif.Str

/-- the slots an operation may write (create, modify, consume) -/
def writes : Op → List Nat
  | .new d | .fromSlice d _ | .fromVec d _ _ | .borrowed d _ _ _ | .withCapacity d _
  | .inline d _ | .tryInline d _ => [d]
  | .clone _ d | .slice _ d _ _ | .trySlice _ d _ _ | .trySliceRef _ d _ _ _ | .sliceRef _ d _ _ _
  | .adopt _ d _ _ | .toAsciiLower _ d | .toAsciiUpper _ d | .repeat _ d _ => [d]
  | .pushSlice h _ | .pop h | .truncate h _ | .clear h | .shrinkTo h _ | .shrinkToFit h
  | .asMutWrite h _ _ | .toMutWrite h _ _ | .makeAsciiLower h | .makeAsciiUpper h
  | .mutate h _ | .mutateLeak h _ | .intoVec h | .toVec h | .intoBorrowed h | .spareCapacity h
  | .drop h => [h]
  | .intoOwned h d => [h, d]

theorem spec_frame (icap : Nat) (srcs : List (List UInt8)) (p : SPool) (op : Op) (flag : Bool)
    (k : Nat) (hk : k ∉ writes op) :
    sget (Spec.Std.step icap srcs p op flag).1 k = sget p k := by
  cases op <;> simp only [writes, List.mem_cons, List.mem_singleton, List.not_mem_nil, or_false, not_or] at hk <;>
    simp only [Spec.Std.step] <;> (repeat' split) <;>
    first
      | rfl
      | (rw [sget_set_other _ _ _ _ (by omega), sget_set_other _ _ _ _ (by omega)])
      | (rw [sget_set_other _ _ _ _ (by omega)])

end HipVerif.Core
