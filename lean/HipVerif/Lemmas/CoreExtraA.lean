/-
Property-level facts about the Core state machine, second round (agent A):
A1 debug assertions are unreachable from well-formed states (`debug_irrelevant`);
A2 what happens when the reference count cannot be incremented (C09) and when it can (C07);
A3 allocation / zero-copy facts behind the representation contract (C07).
-/
import HipVerif.Lemmas.CoreStep
import HipVerif.Gen.Consts

namespace HipVerif.Core
open HipVerif.Spec.Std HipVerif.RangeTy HipVerif.Spec.Range
open HipVerif.Core.A

/-! ## A1 — debug assertions never fire -/

/-- the same configuration with debug assertions switched on or off -/
def withDebug (cfg : Cfg) (b : Bool) : Cfg := { cfg with debug := b }

/-- the invariant does not mention `debug` -/
theorem A.wf_withDebug {cfg : Cfg} {s : State} (b : Bool) (w : Wf cfg s) : Wf (withDebug cfg b) s :=
  { handles := w.handles, counts := w.counts, uniq := w.uniq, ceil := w.ceil, dead := w.dead,
    datacap := w.datacap, bufFresh := w.bufFresh, bufDistinct := w.bufDistinct }

/-- `range_unchecked` + the `debug_assert!(is_normalized())` after it: same result whatever `debug` is -/
theorem A.rangeInstall_withDebug {cfg : Cfg} {s : State} {hd : Handle} (hok : HandleOk cfg s hd) (dbg : Bool)
    (d : Nat) {a b : Nat} (hb : b ≤ hlen hd) (ret : Ret) :
    A.rangeInstall (withDebug cfg dbg) s hd d a b ret = A.rangeInstall cfg s hd d a b ret := by
  rw [A.rangeInstall_eq (cfg := withDebug cfg dbg) hok d hb ret, A.rangeInstall_eq hok d hb ret]
  rfl

/-- `truncate`'s closing `debug_assert!(self.is_normalized())` holds on every branch -/
theorem A.truncateOp_withDebug {cfg : Cfg} {s : State} {h : Nat} {hd : Handle}
    (hg : getH s h = some hd) (dbg : Bool) (n : Nat) (ret : Ret) :
    truncateOp (withDebug cfg dbg) s h hd n ret = truncateOp (withDebug cfg false) s h hd n ret := by
  cases dbg with
  | false => rfl
  | true =>
    have hl := getH_some_lt hg
    have key : ∀ (s1 : State) (hd' : Handle) (ev : List Event), s1.pool = s.pool →
        getH (ok (setH s1 h (some hd')) ret ev).1 h = some hd' := by
      intro s1 hd' ev hp
      exact getH_setH_same _ _ _ (by rw [hp]; exact hl)
    unfold truncateOp
    by_cases hn : n < hlen hd
    · simp only [hn, if_true]
      cases hr : hd.repr with
      | inline bs =>
        simp only
        have hnm : ∀ c, isNormalized c { hd with repr := .inline (bs.take n) } = true := fun _ => rfl
        simp only [key s _ [] rfl, dbgFails, hnm, Bool.not_true, Bool.and_false, Bool.false_eq_true, if_false]
      | borrowed a b c =>
        simp only
        have hnm : ∀ c', isNormalized c' { hd with repr := .borrowed a b n } = true := fun _ => rfl
        simp only [key s _ [] rfl, dbgFails, hnm, Bool.not_true, Bool.and_false, Bool.false_eq_true, if_false]
      | heap o pb off len =>
        simp only
        by_cases hi : n ≤ cfg.icap
        · have hi' : ∀ b, n ≤ (withDebug cfg b).icap := fun _ => hi
          simp only [hi', if_true]
          have hnm : ∀ c', isNormalized c' { hd with repr := .inline ((view s hd).take n) } = true := fun _ => rfl
          have hrel : ∀ b, release (withDebug cfg b) s o = release cfg s o := fun _ => rfl
          simp only [hrel, key _ _ _ (release_pool cfg s o), dbgFails, hnm, Bool.not_true, Bool.and_false,
            Bool.false_eq_true, if_false]
        · have hi' : ∀ b, ¬ n ≤ (withDebug cfg b).icap := fun _ => hi
          simp only [hi', if_false]
          have hnm : ∀ b, isNormalized (withDebug cfg b) { hd with repr := .heap o pb off n } = true := by
            intro b
            have : cfg.icap < n := by omega
            simp [isNormalized, hlen, withDebug, this]
          simp only [key s _ [] rfl, dbgFails, hnm, Bool.not_true, Bool.and_false, Bool.false_eq_true, if_false]
    · simp only [hn, if_false]

/-- Generalisation of `debug_irrelevant`: from a well-formed state a step does not depend on the
`debug` switch at all. -/
theorem step_withDebug (cfg : Cfg) (s : State) (op : Op) (w : Wf cfg s) (dbg : Bool) :
    step (withDebug cfg dbg) s op = step (withDebug cfg false) s op := by
  cases op with
  | slice h d sb eb =>
    rw [A.step_slice, A.step_slice]
    cases hg : getH s h with
    | none => rfl
    | some hd =>
      by_cases hf : slotFree s d = true
      · simp only [hf, if_true]
        cases hsim : Gen.Ranges.simplifyRangeMono sb eb (hlen hd) with
        | ok p =>
          obtain ⟨a, b⟩ := p
          simp only
          rw [rangeInstall_withDebug (w.handles h hd hg) dbg d (A.simplify_ok_bounds _ _ _ _ _ hsim).2,
            rangeInstall_withDebug (w.handles h hd hg) false d (A.simplify_ok_bounds _ _ _ _ _ hsim).2]
        | err x => rfl
        | overflow => rfl
        | ub => rfl
      · simp only [hf, Bool.false_eq_true, if_false]
  | trySlice h d sb eb =>
    rw [A.step_trySlice, A.step_trySlice]
    cases hg : getH s h with
    | none => rfl
    | some hd =>
      by_cases hf : slotFree s d = true
      · simp only [hf, if_true]
        cases hsim : Gen.Ranges.simplifyRangeMono sb eb (hlen hd) with
        | ok p =>
          obtain ⟨a, b⟩ := p
          simp only
          rw [rangeInstall_withDebug (w.handles h hd hg) dbg d (A.simplify_ok_bounds _ _ _ _ _ hsim).2,
            rangeInstall_withDebug (w.handles h hd hg) false d (A.simplify_ok_bounds _ _ _ _ _ hsim).2]
        | err x => rfl
        | overflow => rfl
        | ub => rfl
      · simp only [hf, Bool.false_eq_true, if_false]
  | trySliceRef h d rn rel plen =>
    rw [A.step_trySliceRef, A.step_trySliceRef]
    cases hg : getH s h with
    | none => rfl
    | some hd =>
      by_cases hf : slotFree s d = true
      · simp only [hf, if_true]
        cases hsim : Gen.Ranges.tryRangeOf ⟨rel + 1, hlen hd⟩ ⟨if rn then rel + 1 - rel else rel + 1 + rel, plen⟩ with
        | ok p =>
          cases p with
          | none => rfl
          | some q =>
            obtain ⟨a, b⟩ := q
            simp only
            rw [rangeInstall_withDebug (w.handles h hd hg) dbg d (A.range_of_ok_bounds _ _ _ _ hsim).2,
              rangeInstall_withDebug (w.handles h hd hg) false d (A.range_of_ok_bounds _ _ _ _ hsim).2]
        | err x => rfl
        | overflow => rfl
        | ub => rfl
      · simp only [hf, Bool.false_eq_true, if_false]
  | sliceRef h d rn rel plen =>
    rw [A.step_sliceRef, A.step_sliceRef]
    cases hg : getH s h with
    | none => rfl
    | some hd =>
      by_cases hf : slotFree s d = true
      · simp only [hf, if_true]
        cases hsim : Gen.Ranges.tryRangeOf ⟨rel + 1, hlen hd⟩ ⟨if rn then rel + 1 - rel else rel + 1 + rel, plen⟩ with
        | ok p =>
          cases p with
          | none => rfl
          | some q =>
            obtain ⟨a, b⟩ := q
            simp only
            rw [rangeInstall_withDebug (w.handles h hd hg) dbg d (A.range_of_ok_bounds _ _ _ _ hsim).2,
              rangeInstall_withDebug (w.handles h hd hg) false d (A.range_of_ok_bounds _ _ _ _ hsim).2]
        | err x => rfl
        | overflow => rfl
        | ub => rfl
      · simp only [hf, Bool.false_eq_true, if_false]
  | adopt h d off len =>
    rw [A.step_adopt, A.step_adopt]
    cases hg : getH s h with
    | none => rfl
    | some hd =>
      by_cases hf : (slotFree s d && decide (off + len ≤ hlen hd)) = true
      · simp only [hf, if_true]
        have hb : off + len ≤ hlen hd := by
          simp only [Bool.and_eq_true, decide_eq_true_eq] at hf; exact hf.2
        rw [rangeInstall_withDebug (w.handles h hd hg) dbg d hb, rangeInstall_withDebug (w.handles h hd hg) false d hb]
      · simp only [hf, Bool.false_eq_true, if_false]
  | truncate h n =>
    show (match getH s h with | some hd => truncateOp (withDebug cfg dbg) s h hd n .unit | none => ok s .badOp []) =
      (match getH s h with | some hd => truncateOp (withDebug cfg false) s h hd n .unit | none => ok s .badOp [])
    cases hg : getH s h with
    | none => rfl
    | some hd => exact truncateOp_withDebug hg dbg n .unit
  | clear h =>
    show (match getH s h with | some hd => truncateOp (withDebug cfg dbg) s h hd 0 .unit | none => ok s .badOp []) =
      (match getH s h with | some hd => truncateOp (withDebug cfg false) s h hd 0 .unit | none => ok s .badOp [])
    cases hg : getH s h with
    | none => rfl
    | some hd => exact truncateOp_withDebug hg dbg 0 .unit
  | pop h =>
    show (match getH s h with
        | some hd =>
          if (view s hd).length = 0 then ok s (.optByte none) []
          else truncateOp (withDebug cfg dbg) s h hd ((view s hd).length - 1) (.optByte (view s hd).getLast?)
        | none => ok s .badOp []) =
      (match getH s h with
        | some hd =>
          if (view s hd).length = 0 then ok s (.optByte none) []
          else truncateOp (withDebug cfg false) s h hd ((view s hd).length - 1) (.optByte (view s hd).getLast?)
        | none => ok s .badOp [])
    cases hg : getH s h with
    | none => rfl
    | some hd =>
      simp only
      split
      · rfl
      · exact truncateOp_withDebug hg dbg _ _
  | _ => rfl

/-- No debug assertion of the model is reachable from a well-formed state: every operation
returns the same state, result and allocator events with `debug_assertions` on and off.
For the Rust code: the `debug_assert!`s in `range_unchecked`'s callers and `truncate` never fail. -/
theorem debug_irrelevant (cfg : Cfg) (s : State) (op : Op) (w : Wf cfg s) :
    step { cfg with debug := true } s op = step { cfg with debug := false } s op :=
  step_withDebug cfg s op w true

/-! ## A2 — when the count cannot be incremented (C09), and when it can (C07) -/

/-- `Kind::incr` reports `Overflow` on the `Unique` backend and at the ceiling -/
theorem A.incr_overflow {cfg : Cfg} {s : State} {o : Nat}
    (hov : cfg.backend = .unique ∨ ∃ x, getI s o = some x ∧ x.count = cfg.ceil) : incr cfg s o = (s, false) := by
  unfold incr
  rcases hov with hu | ⟨x, hx, hc⟩
  · rw [hu]
  · rw [hx]
    cases cfg.backend <;> simp [hc]

/-- `Kind::incr` succeeds below the ceiling on the counted backends: only the count moves -/
theorem A.incr_shares {cfg : Cfg} {s : State} {o : Nat} {x : Inner} (hnu : cfg.backend ≠ .unique)
    (hx : getI s o = some x) (hc : x.count < cfg.ceil) :
    incr cfg s o = (setI s o { x with count := x.count + 1 }, true) := by
  unfold incr
  rw [hx]
  cases hb : cfg.backend <;> simp_all

theorem A.getH_install_same {s1 : State} {d : Nat} (hl : d < s1.pool.length) (r : Rep) (t : Bool) (ret : Ret)
    (ev : List Event) : getH (install s1 d r t ret ev).1 d = some ⟨r, t⟩ :=
  getH_setH_same _ _ _ hl

theorem A.getH_install_other {s1 : State} {d k : Nat} (hne : d ≠ k) (r : Rep) (t : Bool) (ret : Ret)
    (ev : List Event) : getH (install s1 d r t ret ev).1 k = getH s1 k :=
  getH_setH_other _ _ _ _ hne

theorem A.getI_install {s1 : State} {d : Nat} (r : Rep) (t : Bool) (ret : Ret) (ev : List Event) (i : Nat) :
    getI (install s1 d r t ret ev).1 i = getI s1 i := rfl

theorem A.slotFree_ne {s : State} {h d : Nat} {hd : Handle} (hg : getH s h = some hd) (hf : slotFree s d = true) :
    d ≠ h := by
  obtain ⟨_, hnone⟩ := slotFree_iff.mp hf
  intro he; subst he; rw [hg] at hnone; cases hnone

/-- the state after "copy `data` into a fresh exact-capacity Vec, box it, install it in slot `d`" -/
theorem A.install_newHeap_facts {s : State} {h d : Nat} {hd : Handle} (hg : getH s h = some hd)
    (hf : slotFree s d = true) (data : List UInt8) (cap : Nat) (t : Bool) (ret : Ret) (o : Nat)
    (ho : o < s.inners.length) {n : Nat} (hn : data.length = n) :
    let s' := (install (newHeap s data cap).1 d (newHeap s data cap).2.1 t ret (newHeap s data cap).2.2).1
    getH s' d = some ⟨.heap s.inners.length s.nextBuf 0 n, t⟩ ∧
    getI s' s.inners.length = some { count := 0, data := data, cap := cap, buf := s.nextBuf, live := true } ∧
    getI s' o = getI s o ∧ getH s' h = some hd := by
  obtain ⟨hl, _⟩ := slotFree_iff.mp hf
  subst hn
  refine ⟨getH_install_same (by exact hl) _ _ _ _, ?_, ?_, ?_⟩
  · exact getI_append_same { s with nextBuf := s.nextBuf + 1 } _
  · exact getI_append_lt { s with nextBuf := s.nextBuf + 1 } _ o ho
  · rw [getH_install_other (slotFree_ne hg hf)]; exact hg

/-- C09, `clone`: when the reference count cannot be incremented (the `Unique` backend, or the
count sits at its ceiling) `clone` does not share: slot `d` receives a handle on a FRESH inner
holding a private copy of exactly the viewed bytes in its own exact-capacity buffer (data pointer
at offset 0 of that buffer); the source's inner — in particular its count — and slot `h` are
untouched. -/
theorem clone_overflow {cfg : Cfg} {s : State} (w : Wf cfg s) {h d : Nat} {hd : Handle} {o pb off len : Nat}
    (hg : getH s h = some hd) (hr : hd.repr = .heap o pb off len) (hf : slotFree s d = true)
    (hov : cfg.backend = .unique ∨ ∃ x, getI s o = some x ∧ x.count = cfg.ceil) :
    getH (step cfg s (.clone h d)).1 d = some ⟨.heap s.inners.length s.nextBuf 0 len, hd.tainted⟩ ∧
    getI (step cfg s (.clone h d)).1 s.inners.length =
      some { count := 0, data := view s hd, cap := len, buf := s.nextBuf, live := true } ∧
    getI (step cfg s (.clone h d)).1 o = getI s o ∧
    getH (step cfg s (.clone h d)).1 h = some hd := by
  have hok := w.handles h hd hg
  have hvl : (view s hd).length = len := by rw [A.view_length hok]; unfold hlen; rw [hr]
  have ho : o < s.inners.length := by
    unfold HandleOk at hok; rw [hr] at hok
    obtain ⟨x, hx, _⟩ := hok; exact getI_some_lt hx
  have hc : cloneRepr cfg s hd = newHeap s (view s hd) (view s hd).length := by
    unfold cloneRepr; rw [hr]; simp only [incr_overflow hov, Bool.false_eq_true, if_false]
  rw [A.step_clone, hg]
  simp only [hf, if_true, hc]
  rw [hvl]
  exact install_newHeap_facts hg hf (view s hd) len hd.tainted .unit o ho hvl

/-- C07, `clone` shares: on a counted backend below the ceiling `clone` allocates nothing (no
allocator event at all), the new handle is the same descriptor `(owner, ptr, len)`, and the only
change to the inner is `count + 1`; no other inner changes. -/
theorem clone_shares {cfg : Cfg} {s : State} {h d : Nat} {hd : Handle} {o pb off len : Nat} {x : Inner}
    (hg : getH s h = some hd) (hr : hd.repr = .heap o pb off len) (hf : slotFree s d = true)
    (hnu : cfg.backend ≠ .unique) (hx : getI s o = some x) (hc : x.count < cfg.ceil) :
    (step cfg s (.clone h d)).2.events = [] ∧
    getH (step cfg s (.clone h d)).1 d = some ⟨.heap o pb off len, hd.tainted⟩ ∧
    getI (step cfg s (.clone h d)).1 o = some { x with count := x.count + 1 } ∧
    (∀ j, j ≠ o → getI (step cfg s (.clone h d)).1 j = getI s j) ∧
    getH (step cfg s (.clone h d)).1 h = some hd := by
  obtain ⟨hl, _⟩ := slotFree_iff.mp hf
  have hcl : cloneRepr cfg s hd = (setI s o { x with count := x.count + 1 }, .heap o pb off len, []) := by
    unfold cloneRepr; rw [hr]; simp only [incr_shares hnu hx hc, if_true]
  rw [A.step_clone, hg]
  simp only [hf, if_true, hcl]
  refine ⟨rfl, getH_install_same (by exact hl) _ _ _ _, ?_, ?_, ?_⟩
  · rw [getI_install]; exact getI_setI_same _ _ _ (getI_some_lt hx)
  · intro j hj; rw [getI_install]; exact getI_setI_other _ _ _ _ (Ne.symm hj)
  · rw [getH_install_other (slotFree_ne hg hf)]; exact hg

/-- C09, the common tail of `slice`/`try_slice`/`slice_ref`/inherited `str` methods: a range longer
than the inline capacity whose owner's count cannot be incremented is COPIED into a fresh inner;
the new handle's data pointer is offset 0 of that inner's own buffer. -/
theorem A.rangeInstall_overflow {cfg : Cfg} {s : State} (w : Wf cfg s) {h d : Nat} {hd : Handle} {o pb off len : Nat}
    (hg : getH s h = some hd) (hr : hd.repr = .heap o pb off len) (hf : slotFree s d = true)
    (hov : cfg.backend = .unique ∨ ∃ x, getI s o = some x ∧ x.count = cfg.ceil)
    {a b : Nat} (hb : b ≤ len) (hbig : b - a > cfg.icap) (ret : Ret) :
    getH (A.rangeInstall cfg s hd d a b ret).1 d = some ⟨.heap s.inners.length s.nextBuf 0 (b - a), hd.tainted⟩ ∧
    getI (A.rangeInstall cfg s hd d a b ret).1 s.inners.length =
      some { count := 0, data := ((view s hd).drop a).take (b - a), cap := b - a, buf := s.nextBuf, live := true } ∧
    getI (A.rangeInstall cfg s hd d a b ret).1 o = getI s o ∧
    getH (A.rangeInstall cfg s hd d a b ret).1 h = some hd := by
  have hok := w.handles h hd hg
  have hlen : hlen hd = len := by unfold hlen; rw [hr]
  have hvl : (((view s hd).drop a).take (b - a)).length = b - a := by
    simp only [List.length_take, List.length_drop, A.view_length hok, hlen]; omega
  have ho : o < s.inners.length := by
    unfold HandleOk at hok; rw [hr] at hok
    obtain ⟨x, hx, _⟩ := hok; exact getI_some_lt hx
  have hc : rangeRepr cfg s hd a b = newHeap s (((view s hd).drop a).take (b - a)) (b - a) := by
    unfold rangeRepr; rw [hr]
    have : ¬ b - a ≤ cfg.icap := by omega
    simp only [this, if_false, incr_overflow hov, Bool.false_eq_true]
  rw [A.rangeInstall_eq hok d (by rw [hlen]; exact hb), hc]
  exact install_newHeap_facts hg hf (((view s hd).drop a).take (b - a)) (b - a) hd.tainted ret o ho hvl

/-- C07, the common tail of the slicing operations shares: a range longer than the inline
capacity of a heap value on a counted backend below the ceiling allocates nothing; the new handle
is the same owner with the data pointer advanced by `a` and length `b - a`; only the count moves. -/
theorem A.rangeInstall_shares {cfg : Cfg} {s : State} (w : Wf cfg s) {h d : Nat} {hd : Handle} {o pb off len : Nat}
    {x : Inner} (hg : getH s h = some hd) (hr : hd.repr = .heap o pb off len) (hf : slotFree s d = true)
    (hnu : cfg.backend ≠ .unique) (hx : getI s o = some x) (hc : x.count < cfg.ceil)
    {a b : Nat} (hb : b ≤ len) (hbig : b - a > cfg.icap) (ret : Ret) :
    (A.rangeInstall cfg s hd d a b ret).2.events = [] ∧
    getH (A.rangeInstall cfg s hd d a b ret).1 d = some ⟨.heap o pb (off + a) (b - a), hd.tainted⟩ ∧
    getI (A.rangeInstall cfg s hd d a b ret).1 o = some { x with count := x.count + 1 } ∧
    (∀ j, j ≠ o → getI (A.rangeInstall cfg s hd d a b ret).1 j = getI s j) ∧
    getH (A.rangeInstall cfg s hd d a b ret).1 h = some hd := by
  have hok := w.handles h hd hg
  have hlen : hlen hd = len := by unfold hlen; rw [hr]
  obtain ⟨hl, _⟩ := slotFree_iff.mp hf
  have hcl : rangeRepr cfg s hd a b =
      (setI s o { x with count := x.count + 1 }, .heap o pb (off + a) (b - a), []) := by
    unfold rangeRepr; rw [hr]
    have : ¬ b - a ≤ cfg.icap := by omega
    simp only [this, if_false, incr_shares hnu hx hc, if_true]
  rw [A.rangeInstall_eq hok d (by rw [hlen]; exact hb), hcl]
  refine ⟨rfl, getH_install_same (by exact hl) _ _ _ _, ?_, ?_, ?_⟩
  · rw [getI_install]; exact getI_setI_same _ _ _ (getI_some_lt hx)
  · intro j hj; rw [getI_install]; exact getI_setI_other _ _ _ _ (Ne.symm hj)
  · rw [getH_install_other (slotFree_ne hg hf)]; exact hg

theorem A.step_slice_accepted {cfg : Cfg} {s : State} {h d : Nat} {hd : Handle} {o pb off len : Nat}
    (hg : getH s h = some hd) (hr : hd.repr = .heap o pb off len) (hf : slotFree s d = true)
    {sb eb : Bound} {a b : Nat} (hsim : Gen.Ranges.simplifyRangeMono sb eb len = .ok (a, b)) :
    step cfg s (.slice h d sb eb) = A.rangeInstall cfg s hd d a b .unit := by
  have hlen : hlen hd = len := by unfold hlen; rw [hr]
  rw [A.step_slice, hg]
  simp only [hf, if_true, hlen, hsim]

theorem A.step_adopt_accepted {cfg : Cfg} {s : State} {h d : Nat} {hd : Handle} {o pb off len : Nat}
    (hg : getH s h = some hd) (hr : hd.repr = .heap o pb off len) (hf : slotFree s d = true)
    {a n : Nat} (han : a + n ≤ len) :
    step cfg s (.adopt h d a n) = A.rangeInstall cfg s hd d a (a + n) .unit := by
  have hlen : hlen hd = len := by unfold hlen; rw [hr]
  rw [A.step_adopt, hg]
  simp only [hf, hlen, han, decide_true, Bool.and_self, if_true]

/-- C09, `slice`: an accepted range `a..b` longer than the inline capacity, on a heap value whose
count cannot be incremented, is copied: slot `d` holds `.heap fresh freshBuf 0 (b - a)`, the fresh
inner's data is exactly `view[a..b]` in its own exact-capacity buffer (so the data pointer lies in
the new owner's buffer, at offset 0), the source inner and slot `h` are untouched. -/
theorem slice_overflow {cfg : Cfg} {s : State} (w : Wf cfg s) {h d : Nat} {hd : Handle} {o pb off len : Nat}
    (hg : getH s h = some hd) (hr : hd.repr = .heap o pb off len) (hf : slotFree s d = true)
    (hov : cfg.backend = .unique ∨ ∃ x, getI s o = some x ∧ x.count = cfg.ceil)
    {sb eb : Bound} {a b : Nat} (hsim : Gen.Ranges.simplifyRangeMono sb eb len = .ok (a, b))
    (hbig : b - a > cfg.icap) :
    getH (step cfg s (.slice h d sb eb)).1 d = some ⟨.heap s.inners.length s.nextBuf 0 (b - a), hd.tainted⟩ ∧
    getI (step cfg s (.slice h d sb eb)).1 s.inners.length =
      some { count := 0, data := ((view s hd).drop a).take (b - a), cap := b - a, buf := s.nextBuf, live := true } ∧
    getI (step cfg s (.slice h d sb eb)).1 o = getI s o ∧
    getH (step cfg s (.slice h d sb eb)).1 h = some hd := by
  rw [step_slice_accepted hg hr hf hsim]
  exact rangeInstall_overflow w hg hr hf hov (A.simplify_ok_bounds _ _ _ _ _ hsim).2 hbig _

/-- C09, inherited `str` methods (`adopt`): same as `slice_overflow` for the window `a..a+n`. -/
theorem adopt_overflow {cfg : Cfg} {s : State} (w : Wf cfg s) {h d : Nat} {hd : Handle} {o pb off len : Nat}
    (hg : getH s h = some hd) (hr : hd.repr = .heap o pb off len) (hf : slotFree s d = true)
    (hov : cfg.backend = .unique ∨ ∃ x, getI s o = some x ∧ x.count = cfg.ceil)
    {a n : Nat} (han : a + n ≤ len) (hbig : n > cfg.icap) :
    getH (step cfg s (.adopt h d a n)).1 d = some ⟨.heap s.inners.length s.nextBuf 0 n, hd.tainted⟩ ∧
    getI (step cfg s (.adopt h d a n)).1 s.inners.length =
      some { count := 0, data := ((view s hd).drop a).take n, cap := n, buf := s.nextBuf, live := true } ∧
    getI (step cfg s (.adopt h d a n)).1 o = getI s o ∧
    getH (step cfg s (.adopt h d a n)).1 h = some hd := by
  rw [step_adopt_accepted hg hr hf han]
  have := rangeInstall_overflow w hg hr hf hov (a := a) (b := a + n) han (by omega) .unit
  simpa only [Nat.add_sub_cancel_left] using this

/-- C07, `slice` shares: an accepted range longer than the inline capacity of a heap value, on a
counted backend below the ceiling, allocates nothing; slot `d` holds the same owner with the data
pointer advanced (`off + a`) and length `b - a`; the inner's count is incremented and nothing else
of any inner changes. -/
theorem slice_shares {cfg : Cfg} {s : State} (w : Wf cfg s) {h d : Nat} {hd : Handle} {o pb off len : Nat}
    {x : Inner} (hg : getH s h = some hd) (hr : hd.repr = .heap o pb off len) (hf : slotFree s d = true)
    (hnu : cfg.backend ≠ .unique) (hx : getI s o = some x) (hc : x.count < cfg.ceil)
    {sb eb : Bound} {a b : Nat} (hsim : Gen.Ranges.simplifyRangeMono sb eb len = .ok (a, b))
    (hbig : b - a > cfg.icap) :
    (step cfg s (.slice h d sb eb)).2.events = [] ∧
    getH (step cfg s (.slice h d sb eb)).1 d = some ⟨.heap o pb (off + a) (b - a), hd.tainted⟩ ∧
    getI (step cfg s (.slice h d sb eb)).1 o = some { x with count := x.count + 1 } ∧
    (∀ j, j ≠ o → getI (step cfg s (.slice h d sb eb)).1 j = getI s j) ∧
    getH (step cfg s (.slice h d sb eb)).1 h = some hd := by
  rw [step_slice_accepted hg hr hf hsim]
  exact rangeInstall_shares w hg hr hf hnu hx hc (A.simplify_ok_bounds _ _ _ _ _ hsim).2 hbig _

/-- C07, inherited `str` methods (`adopt`) share: same as `slice_shares` for the window `a..a+n`. -/
theorem adopt_shares {cfg : Cfg} {s : State} (w : Wf cfg s) {h d : Nat} {hd : Handle} {o pb off len : Nat}
    {x : Inner} (hg : getH s h = some hd) (hr : hd.repr = .heap o pb off len) (hf : slotFree s d = true)
    (hnu : cfg.backend ≠ .unique) (hx : getI s o = some x) (hc : x.count < cfg.ceil)
    {a n : Nat} (han : a + n ≤ len) (hbig : n > cfg.icap) :
    (step cfg s (.adopt h d a n)).2.events = [] ∧
    getH (step cfg s (.adopt h d a n)).1 d = some ⟨.heap o pb (off + a) n, hd.tainted⟩ ∧
    getI (step cfg s (.adopt h d a n)).1 o = some { x with count := x.count + 1 } ∧
    (∀ j, j ≠ o → getI (step cfg s (.adopt h d a n)).1 j = getI s j) ∧
    getH (step cfg s (.adopt h d a n)).1 h = some hd := by
  rw [step_adopt_accepted hg hr hf han]
  have := rangeInstall_shares w hg hr hf hnu hx hc (a := a) (b := a + n) han (by omega) .unit
  simpa only [Nat.add_sub_cancel_left] using this

/-- C09: the stored count of a live inner never reaches `usize::MAX`, so `count + 1` (the number
of shares) is representable: the counter never wraps, whatever the ceiling below `usize::MAX − 1`. -/
theorem count_never_wraps {cfg : Cfg} {s : State} (w : Wf cfg s) (hceil : cfg.ceil + 1 < U) :
    ∀ i x, getI s i = some x → x.live = true → x.count + 1 < U := by
  intro i x hx hl
  have := w.ceil i x hx hl
  omega

/-- the configuration of the real crate: the increment bounds are the GENERATED constants
(`Arc::incr`: `old < usize::MAX − 1`; `Rc::incr`: `new < usize::MAX`), the inline capacity is
`INLINE_CAPACITY` -/
def realCfg (b : Backend) (debug : Bool) : Cfg :=
  { backend := b,
    ceil := (match b with
      | .arc => Gen.Consts.arcIncrBound
      | .rc => Gen.Consts.rcIncrBound - 1
      | .unique => 0),
    debug := debug,
    icap := Gen.Consts.inlineCapacity }

/-- the real increment bounds leave room for `count + 1` in a `usize`, for the three backends -/
theorem realCfg_ceil_lt (b : Backend) (debug : Bool) : (realCfg b debug).ceil + 1 < U := by
  cases b <;> (show _ + 1 < U) <;> simp only [realCfg] <;> decide

/-- C09 for the real crate: with the bounds the code uses, no reference count ever wraps. -/
theorem count_never_wraps_real {b : Backend} {debug : Bool} {s : State} (w : Wf (realCfg b debug) s) :
    ∀ i x, getI s i = some x → x.live = true → x.count + 1 < U :=
  count_never_wraps w (realCfg_ceil_lt b debug)

/-- C09: on the `Unique` backend every live inner has exactly one handle — nothing is ever shared. -/
theorem unique_never_shares {cfg : Cfg} {s : State} (hu : cfg.backend = .unique) (w : Wf cfg s) :
    ∀ i x, getI s i = some x → x.live = true → refsTo s i = 1 := by
  intro i x hx hl
  rw [w.counts i x hx hl, w.uniq hu i x hx hl]

/-! ## A3 — allocation and zero-copy facts (C07) -/

/-- events by which the allocator hands out memory: a new box, a new buffer, a reallocation -/
def isAllocEv : Event → Bool
  | .allocInner _ => true
  | .allocBuf _ _ => true
  | .growBuf _ _ _ => true
  | _ => false

/-- events by which a byte BUFFER is obtained from the allocator (a new one, or a reallocation) -/
def isBufAllocEv : Event → Bool
  | .allocBuf _ _ => true
  | .growBuf _ _ _ => true
  | _ => false

/-- C07: `capacity()` is never smaller than `len()`, for the three representations. -/
theorem capacity_ge_len {cfg : Cfg} {s : State} (w : Wf cfg s) {h : Nat} {hd : Handle}
    (hg : getH s h = some hd) : hlen hd ≤ capacity cfg s hd := by
  have hok := w.handles h hd hg
  unfold HandleOk at hok
  unfold hlen capacity
  cases hr : hd.repr with
  | inline bs => rw [hr] at hok; exact hok
  | borrowed a b c => exact Nat.le_refl _
  | heap o pb off len =>
    rw [hr] at hok
    obtain ⟨x, hx, hlive, _, hrng⟩ := hok
    have := w.datacap o x hx hlive
    simp only [hx, Option.map_some, Option.getD_some]
    omega

/-- C07: `HipByt::new()` never allocates; the new value is the empty inline representation. -/
theorem new_no_alloc (cfg : Cfg) (s : State) (d : Nat) :
    (step cfg s (.new d)).2.events = [] ∧
    (slotFree s d = true → getH (step cfg s (.new d)).1 d = some ⟨.inline [], false⟩) := by
  rw [A.step_new]
  constructor
  · split <;> rfl
  · intro hf
    simp only [hf, if_true]
    exact getH_install_same (slotFree_iff.mp hf).1 _ _ _ _

/-- C07: `inline()` / `try_inline()` never allocate; when the bytes fit the value is exactly the
inline representation of them. -/
theorem inline_no_alloc (cfg : Cfg) (s : State) (d : Nat) (bs : List UInt8) :
    (step cfg s (.inline d bs)).2.events = [] ∧ (step cfg s (.tryInline d bs)).2.events = [] ∧
    (slotFree s d = true → bs.length ≤ cfg.icap →
      getH (step cfg s (.inline d bs)).1 d = some ⟨.inline bs, false⟩ ∧
      getH (step cfg s (.tryInline d bs)).1 d = some ⟨.inline bs, false⟩) := by
  rw [A.step_inline, A.step_tryInline]
  refine ⟨?_, ?_, ?_⟩
  · split
    · split <;> rfl
    · rfl
  · split
    · split <;> rfl
    · rfl
  · intro hf hi
    simp only [hf, hi, if_true]
    exact ⟨getH_install_same (slotFree_iff.mp hf).1 _ _ _ _, getH_install_same (slotFree_iff.mp hf).1 _ _ _ _⟩

/-- C07: `borrowed()` / `from_static()` is zero-copy: no allocator event, no write, and the value
is exactly the descriptor `(src, off, len)` of the caller's memory. -/
theorem borrowed_zero_copy (cfg : Cfg) (s : State) (d src off len : Nat) :
    (step cfg s (.borrowed d src off len)).2.events = [] ∧
    (slotFree s d = true → off + len ≤ (s.srcs[src]?.getD []).length → src < s.srcs.length →
      getH (step cfg s (.borrowed d src off len)).1 d = some ⟨.borrowed src off len, false⟩) := by
  rw [A.step_borrowed]
  constructor
  · split <;> rfl
  · intro hf h1 h2
    simp only [hf, h1, h2, decide_true, Bool.and_self, if_true]
    exact getH_install_same (slotFree_iff.mp hf).1 _ _ _ _

/-- C07: `from_slice` of at most `INLINE_CAPACITY` bytes never allocates and stores them inline. -/
theorem fromSlice_small_no_alloc (cfg : Cfg) (s : State) (d : Nat) (bs : List UInt8) (hi : bs.length ≤ cfg.icap) :
    (step cfg s (.fromSlice d bs)).2.events = [] ∧
    (slotFree s d = true → getH (step cfg s (.fromSlice d bs)).1 d = some ⟨.inline bs, false⟩) := by
  have hfs : fromSliceRepr cfg s bs = (s, .inline bs, []) := by
    unfold fromSliceRepr
    split
    · rename_i h0
      rw [List.eq_nil_of_length_eq_zero h0]
    · rfl
  rw [A.step_fromSlice, hfs]
  constructor
  · split <;> rfl
  · intro hf
    simp only [hf, if_true]
    exact getH_install_same (slotFree_iff.mp hf).1 _ _ _ _

/-- C07: `From<Vec<u8>>` of a vector longer than the inline capacity REUSES the vector's buffer:
the new handle points at offset 0 of the imported buffer, whose identity and capacity become the
inner's; the only allocation is the box (`allocInner`), no buffer is allocated or grown and no
byte is written. -/
theorem fromVec_reuses_buffer (cfg : Cfg) (s : State) (d : Nat) (bs : List UInt8) (cap : Nat)
    (hbig : bs.length > cfg.icap) (hf : slotFree s d = true) (hcap : bs.length ≤ cap) :
    getH (step cfg s (.fromVec d bs cap)).1 d = some ⟨.heap s.inners.length s.nextBuf 0 bs.length, false⟩ ∧
    getI (step cfg s (.fromVec d bs cap)).1 s.inners.length =
      some { count := 0, data := bs, cap := cap, buf := s.nextBuf, live := true } ∧
    (step cfg s (.fromVec d bs cap)).2.events =
      (if cap > 0 then [Event.importBuf s.nextBuf cap] else []) ++ [Event.allocInner s.inners.length] ∧
    (∀ e ∈ (step cfg s (.fromVec d bs cap)).2.events, isBufAllocEv e = false) := by
  have hfv : fromVecRepr cfg { s with nextBuf := s.nextBuf + 1 } bs cap s.nextBuf =
      ((boxVec { s with nextBuf := s.nextBuf + 1 } bs cap s.nextBuf).1, .heap s.inners.length s.nextBuf 0 bs.length,
        [Event.allocInner s.inners.length]) := by
    unfold fromVecRepr
    have : ¬ bs.length ≤ cfg.icap := by omega
    simp only [this, if_false]
    rfl
  rw [A.step_fromVec, hfv]
  simp only [hf, hcap, decide_true, Bool.and_self, if_true]
  refine ⟨getH_setH_same _ _ _ (slotFree_iff.mp hf).1, ?_, rfl, ?_⟩
  · exact getI_append_same { s with nextBuf := s.nextBuf + 1 } _
  · intro e he
    simp only [install, ok] at he
    split at he
    · simp only [List.cons_append, List.nil_append, List.mem_cons, List.not_mem_nil, or_false] at he
      rcases he with rfl | rfl <;> rfl
    · simp only [List.nil_append, List.mem_cons, List.not_mem_nil, or_false] at he
      subst he; rfl

theorem A.step_intoVec (cfg : Cfg) (s : State) (h : Nat) : step cfg s (.intoVec h) =
    match getH s h with
    | some hd =>
      match hd.repr with
      | .heap owner _ off len =>
        match getI s owner with
        | some x =>
          if off == 0 && ownerUnique cfg s owner then
            ok (setH (setI s owner { x with live := false }) h none) (.bytes (x.data.take len))
              (Event.freeInner owner :: (if x.cap > 0 then [Event.exportBuf x.buf] else []))
          else ok s (.bool false) []
        | none => ok s (.bool false) []
      | _ => ok s (.bool false) []
    | none => ok s .badOp [] := rfl

/-- C07: when `into_vec()` succeeds the value was an allocated one at offset 0 of its buffer,
sole owner of it; the caller receives that very buffer (`exportBuf pb`, the handle's own data
pointer), holding exactly the viewed bytes; nothing is copied, allocated or freed except the box.
The events are `freeInner o` followed by `exportBuf pb` — the latter only if the owner `Vec` owns an
allocation at all (`cap > 0`; a capacity-0 `Vec` has no buffer to hand over), which is always the
case for a non-empty value (`0 < len`, since `len ≤ data.length ≤ cap` in a well-formed state). -/
theorem intoVec_returns_buffer {cfg : Cfg} {s : State} (w : Wf cfg s) {h : Nat} {v : List UInt8}
    (hret : (step cfg s (.intoVec h)).2.ret = .bytes v) :
    ∃ hd o pb len x, getH s h = some hd ∧ hd.repr = .heap o pb 0 len ∧ getI s o = some x ∧ pb = x.buf ∧
      ownerUnique cfg s o = true ∧ refsTo s o = 1 ∧
      (step cfg s (.intoVec h)).2.events =
        .freeInner o :: (if x.cap > 0 then [.exportBuf pb] else []) ∧
      (0 < len → (step cfg s (.intoVec h)).2.events = [.freeInner o, .exportBuf pb]) ∧
      v = view s hd := by
  rw [step_intoVec] at hret ⊢
  cases hg : getH s h with
  | none => rw [hg] at hret; cases hret
  | some hd =>
    rw [hg] at hret
    simp only at hret ⊢
    cases hr : hd.repr with
    | inline b0 => rw [hr] at hret; cases hret
    | borrowed a b c => rw [hr] at hret; cases hret
    | heap o pb off len =>
      rw [hr] at hret
      simp only at hret ⊢
      cases hx : getI s o with
      | none => rw [hx] at hret; cases hret
      | some x =>
        rw [hx] at hret
        simp only at hret ⊢
        by_cases hcond : (off == 0 && ownerUnique cfg s o) = true
        · simp only [hcond, if_true, A.ok_ret, Ret.bytes.injEq] at hret ⊢
          simp only [Bool.and_eq_true, beq_iff_eq] at hcond
          obtain ⟨hoff, hu⟩ := hcond
          subst hoff
          have hok := w.handles h hd hg
          unfold HandleOk at hok; rw [hr] at hok
          obtain ⟨x1, hx1, hlive, hpb, hrng⟩ := hok
          rw [hx] at hx1; cases hx1
          refine ⟨hd, o, pb, len, x, rfl, hr, hx, hpb, hu, ownerUnique_sole w hg hr hu, ?_, ?_, ?_⟩
          · rw [hpb]; rfl
          · intro hlen
            have hcap : x.cap > 0 := by have := w.datacap o x hx hlive; omega
            rw [hpb]
            show Event.freeInner o :: (if x.cap > 0 then [Event.exportBuf x.buf] else []) = _
            rw [if_pos hcap]
          · rw [← hret, view_heap_eq hr hx]; simp
        · simp only [hcond, Bool.false_eq_true, if_false] at hret
          cases hret

/-- C07: appending to a sole-owned allocated value within its capacity happens in place: the
handle keeps its owner, its buffer and its start offset, only the length grows; no box or buffer
is allocated and the buffer is not reallocated (a `with_capacity(n)` value accepts `n` bytes
without moving). -/
theorem push_within_capacity_stable {cfg : Cfg} {s : State} {h : Nat} {hd : Handle} {o pb off len : Nat} {x : Inner}
    (hg : getH s h = some hd) (hr : hd.repr = .heap o pb off len) (hx : getI s o = some x)
    (hu : ownerUnique cfg s o = true) (bs : List UInt8) (hcap : off + len + bs.length ≤ x.cap) :
    getH (step cfg s (.pushSlice h bs)).1 h = some { hd with repr := .heap o x.buf off (len + bs.length) } ∧
    (∀ e ∈ (step cfg s (.pushSlice h bs)).2.events, isAllocEv e = false) ∧
    (∀ y, getI (step cfg s (.pushSlice h bs)).1 o = some y → y.buf = x.buf ∧ y.cap = x.cap) := by
  have hl := getH_some_lt hg
  have hfit : (x.data.take (off + len) ++ bs).length ≤ x.cap := by
    simp only [List.length_append, List.length_take]; omega
  simp only [step, hg, hr, hx, hu, if_true, hfit]
  refine ⟨getH_setH_same _ _ _ (by exact hl), ?_, ?_⟩
  · intro e he
    simp only [ok] at he
    split at he
    · simp only [List.mem_cons, List.not_mem_nil, or_false] at he
      subst he; rfl
    · cases he
  · intro y hy
    simp only [ok, getI_setH, getI_setI_same _ _ _ (getI_some_lt hx), Option.some.injEq] at hy
    subst hy; exact ⟨rfl, rfl⟩

/-- C07: the negation of borrowed + small + untainted is inline — a value that does not descend
from `with_capacity` and is not borrowed is inline whenever it fits (`is_normalized`). -/
theorem untainted_small_owned_inline {cfg : Cfg} {s : State} (hn : NormOk cfg s) {h : Nat} {hd : Handle}
    (hg : getH s h = some hd) (ht : hd.tainted = false) (hb : isBorrowed hd = false) (hi : hlen hd ≤ cfg.icap) :
    isInline hd = true := by
  have := hn h hd hg ht
  unfold isNormalized at this
  have hlt : ¬ hlen hd > cfg.icap := by omega
  simpa [hb, hlt] using this

end HipVerif.Core
