/-
Ownership-invariant preservation for the ThinVec operations of the L0 model, including the
capacity arithmetic behind `reserve` (no write beyond the capacity).
-/
import HipVerif.Lemmas.SlotsShift
namespace HipVerif.Slots

variable {fl : Bool}

theorem roundCap_eq_of_pos {esz : Nat} (h : 0 < esz) (n : Nat) :
    roundCap esz n = (laySize esz n - hdr) / esz := by
  unfold roundCap laySize
  rw [if_neg (by omega)]

/-- the capacity obtained from a layout has the same layout: "same layout" = "same capacity" -/
theorem laySize_roundCap {esz : Nat} (h : 0 < esz) (n : Nat) :
    laySize esz (roundCap esz n) = laySize esz n := by
  have h1 : n * esz ≤ roundCap esz n * esz := Nat.mul_le_mul_right _ (roundCap_ge esz n)
  have h2 : roundCap esz n * esz ≤ laySize esz n - hdr := by
    rw [roundCap_eq_of_pos h]; exact Nat.div_mul_le_self _ _
  unfold laySize at h2 ⊢
  simp only [hdr] at h2 ⊢
  generalize n * esz = y1 at h1 h2 ⊢
  generalize roundCap esz n * esz = y2 at h1 h2 ⊢
  omega

theorem roundCap_fix {esz : Nat} (h : 0 < esz) (n : Nat) :
    roundCap esz (roundCap esz n) = roundCap esz n := by
  rw [roundCap_eq_of_pos h (roundCap esz n), laySize_roundCap h, ← roundCap_eq_of_pos h]

/-- `set_capacity(n)` with `n ≥ len`: the elements are kept, the new capacity is at least `n` -/
theorem OwnL.setCapacity {s loc locB} (n : Nat) (h : OwnL fl s loc locB) (ht : s.v.h.thin = true)
    (hal : s.v.h.alive = true) (hn : s.v.len ≤ n) :
    OwnL fl { s with v := s.v.setCapacity n } loc locB ∧ (s.v.setCapacity n).len = s.v.len ∧
      (s.v.setCapacity n).h = s.v.h ∧ n ≤ (s.v.setCapacity n).cap := by
  obtain ⟨L, rest, e1, e2, e3, e4⟩ := h
  obtain ⟨hpos, hfix⟩ := e3.2 ht hal
  unfold Vec.setCapacity
  split
  · rename_i hsame
    refine ⟨⟨L, rest, e1, e2, e3, e4⟩, rfl, rfl, ?_⟩
    have : roundCap s.v.h.esz s.v.cap = roundCap s.v.h.esz n := by
      rw [roundCap_eq_of_pos hpos, roundCap_eq_of_pos hpos, hsame]
    rw [← hfix, this]; exact roundCap_ge _ _
  · have hge := roundCap_ge s.v.h.esz n
    have hlen : ((s.v.slots ++ uninits (roundCap s.v.h.esz n - s.v.cap)).take
        (roundCap s.v.h.esz n)).length = roundCap s.v.h.esz n := by
      simp only [List.length_take, List.length_append, uninits, List.length_replicate, Vec.cap]
      omega
    refine ⟨⟨L, (rest ++ uninits (roundCap s.v.h.esz n - s.v.cap)).take
        (roundCap s.v.h.esz n - L.length), e1, ?_, ⟨e3.1, fun _ _ => ⟨hpos, ?_⟩⟩, e4⟩,
      rfl, rfl, ?_⟩
    · simp only [e2, List.append_assoc]
      rw [List.take_append]
      simp only [List.length_map]
      rw [List.take_of_length_le (by simp; omega)]
    · simp only [Vec.cap] at hlen ⊢; rw [hlen]; exact roundCap_fix hpos n
    · simp only [Vec.cap] at hlen ⊢; rw [hlen]; exact hge

theorem OwnL.reserve {s loc locB} (add : Nat) (h : OwnL fl s loc locB) (ht : s.v.h.thin = true)
    (hal : s.v.h.alive = true) :
    OwnL fl (s.reserve add) loc locB ∧ (s.reserve add).v.len = s.v.len ∧
      (s.reserve add).v.h = s.v.h ∧ s.v.len + add ≤ (s.reserve add).v.cap ∧
      (s.reserve add).mem = s.mem := by
  have hle := h.len_le
  unfold St.reserve Vec.reserve
  split
  · obtain ⟨h1, h2, h3, h4⟩ := h.setCapacity (max (s.v.len + add) (s.v.cap * 2)) ht hal (by omega)
    exact ⟨h1, h2, h3, by simp only; omega, rfl⟩
  · exact ⟨h, rfl, rfl, by simp only; omega, rfl⟩


theorem tPush_own {s loc locB} (h : OwnL fl s loc locB) (ht : s.v.h.thin = true)
    (hal : s.v.h.alive = true) : OwnL fl (tPush s).2 loc locB := by
  unfold tPush
  have h1 := h.mkVal
  have hv : (s.onMem Mem.mkVal).2.v = s.v := rfl
  generalize s.onMem Mem.mkVal = r at h1 hv
  obtain ⟨x, s1⟩ := r
  simp only at h1 hv ⊢
  obtain ⟨g1, g2, g3, g4, g5⟩ := h1.reserve 1 (by rw [hv]; exact ht) (by rw [hv]; exact hal)
  exact g1.store (by omega)

theorem St.copyWithin_zero {s : St} {src dst : Nat} (h : dst ≤ s.v.cap) :
    s.copyWithin src dst 0 = s := by
  have hr : s.v.range src (src + 0) = [] := by simp [Vec.range]
  rw [St.copyWithin_eq hr (by simpa using h)]
  simp [Vec.writeChunk]

theorem tInsert_own {s loc locB} (i : Nat) (h : OwnL fl s loc locB) (ht : s.v.h.thin = true)
    (hal : s.v.h.alive = true) : OwnL fl (tInsert i s).2 loc locB := by
  unfold tInsert
  have h1 := h.mkVal
  have hv : (s.onMem Mem.mkVal).2.v = s.v := rfl
  generalize s.onMem Mem.mkVal = r at h1 hv
  obtain ⟨x, s1⟩ := r
  simp only at h1 hv ⊢
  split
  · rename_i hi
    obtain ⟨g1, g2, g3, g4, g5⟩ := h1.reserve 1 (by rw [hv]; exact ht) (by rw [hv]; exact hal)
    have key : (St.setLen (s1.v.len + 1)
        (St.wr i (Slot.init x)
          (if i < s1.v.len then St.copyWithin i (i + 1) (s1.v.len - i) (s1.reserve 1)
           else s1.reserve 1))) = iInsertCore i x (s1.reserve 1) := by
      unfold iInsertCore
      simp only [g2]
      split
      · rfl
      · have : s1.v.len - i = 0 := by omega
        rw [this, St.copyWithin_zero (by omega)]
    rw [key]
    exact g1.insertCore (by omega) (by omega)
  · exact h1.dropId

theorem tTruncate_own {s loc locB} (n : Nat) (h : OwnL fl s loc locB) :
    OwnL fl (tTruncate n s).2 loc locB := by
  unfold tTruncate
  split
  · exact h
  · obtain ⟨tl, h1, _, h3⟩ := h.setLen_take (n := n) (by omega)
    simp only
    have : (s.setLen n).v.range n s.v.len = tl.map .init := h1
    rw [this]
    exact h3.dropSlice

theorem tClear_own {s loc locB} (h : OwnL fl s loc locB) : OwnL fl (tClear s).2 loc locB := by
  unfold tClear
  obtain ⟨L, e1, e2⟩ := h.take_all
  simp only
  have : (s.setLen 0).v.range 0 s.v.len = L.map .init := e1
  rw [this]
  exact e2.dropSlice

theorem tFillClone_eq (x : Nat) : ∀ (k : Nat) (s : St), tFillClone x k s = iFillClone x k s
  | 0, _ => rfl
  | k + 1, s => by
    unfold tFillClone iFillClone
    rcases s.onMem (Mem.cloneId x) with ⟨_ | a, s'⟩
    · rfl
    · exact tFillClone_eq x k _

theorem iFillClone_frame (x : Nat) : ∀ (k : Nat) (s : St),
    (iFillClone x k s).2.v.len ≤ s.v.len + k ∧ (iFillClone x k s).2.v.cap = s.v.cap ∧
      (iFillClone x k s).2.v.h = s.v.h
  | 0, _ => ⟨Nat.le_refl _, rfl, rfl⟩
  | k + 1, s => by
    unfold iFillClone
    have hv : (s.onMem (Mem.cloneId x)).2.v = s.v := rfl
    generalize s.onMem (Mem.cloneId x) = r at hv
    obtain ⟨_ | a, s'⟩ := r <;> simp only at hv ⊢
    · rw [hv]; exact ⟨by omega, rfl, rfl⟩
    · obtain ⟨f1, f2, f3⟩ := iFillClone_frame x k (s'.store a)
      simp only [St.store_len, St.store_cap, St.store_h, hv] at f1 f2 f3
      exact ⟨by omega, f2, f3⟩

theorem tResize_own {s loc locB} (n : Nat) (h : OwnL fl s loc locB) (ht : s.v.h.thin = true)
    (hal : s.v.h.alive = true) : OwnL fl (tResize n s).2 loc locB := by
  unfold tResize
  have h1 := h.mkVal
  have hv : (s.onMem Mem.mkVal).2.v = s.v := rfl
  generalize s.onMem Mem.mkVal = r at h1 hv
  obtain ⟨x, s1⟩ := r
  simp only at h1 hv ⊢
  split
  · rename_i hn
    obtain ⟨g1, g2, g3, g4, g5⟩ :=
      h1.reserve (n - s1.v.len) (by rw [hv]; exact ht) (by rw [hv]; exact hal)
    rw [tFillClone_eq]
    have hown := iFillClone_own x (n - s1.v.len - 1) _ g1 (by omega)
    obtain ⟨f1, f2, f3⟩ := iFillClone_frame x (n - s1.v.len - 1) (s1.reserve (n - s1.v.len))
    generalize iFillClone x (n - s1.v.len - 1) (s1.reserve (n - s1.v.len)) = r2 at hown f1 f2 f3
    obtain ⟨p, s2⟩ := r2
    cases p
    · exact OwnL.store hown (by simp only at f1 f2; omega)
    · exact OwnL.dropId hown
  · exact (tTruncate_own n h1).dropId


/-- `guarded_slice_clone` into the spare capacity: `acc` = the clones written so far (owned by the
`SliceGuard`, not yet covered by `len`). A panicking clone makes the guard drop them all. -/
theorem tGuardedClone_own {loc locB L} : ∀ (srcs : List Nat) (j : Nat) (s : St) (acc : List Nat)
    (rest : List Slot), s.v.slots = L.map .init ++ acc.map .init ++ rest → s.v.len = L.length →
    acc.length = j → srcs.length ≤ rest.length → HdrOk s.v →
    Acct fl s.mem (acc ++ loc ++ (prefL s.v.h ++ L)) (locB ++ bufL s.v.h) →
    (tGuardedClone L.length srcs j s).2.v.h = s.v.h ∧
    if (tGuardedClone L.length srcs j s).1 = true then
      OwnL fl (tGuardedClone L.length srcs j s).2 loc locB
    else ∃ acc' rest', (tGuardedClone L.length srcs j s).2.v.slots
          = L.map .init ++ acc'.map .init ++ rest' ∧ acc'.length = j + srcs.length ∧
        (tGuardedClone L.length srcs j s).2.v.len = L.length ∧
        (tGuardedClone L.length srcs j s).2.v.cap = s.v.cap ∧
        Acct fl (tGuardedClone L.length srcs j s).2.mem (acc' ++ loc ++ (prefL s.v.h ++ L))
          (locB ++ bufL s.v.h)
  | [], j, s, acc, rest, hs, hl, hj, _, _, ha => by
    simp only [tGuardedClone]
    exact ⟨trivial, acc, rest, hs, by simpa using hj, hl, trivial, ha⟩
  | a :: as, j, s, acc, rest, hs, hl, hj, hr, hp, ha => by
    unfold tGuardedClone
    have h0 : OwnL fl s (acc ++ loc) locB := ⟨L, acc.map .init ++ rest, hl, by simp [hs], hp, ha⟩
    have h1 := h0.cloneId a
    rcases hc : s.onMem (Mem.cloneId a) with ⟨_ | b, s'⟩ <;> rw [hc] at h1 <;> simp only at h1 ⊢
    · -- the guard drops the `j` initialised slots
      have hrg : s'.v.range L.length (L.length + j) = acc.map .init := by
        rw [h1.2]; exact Vec.range_mid hs (by simp) (by simp [hj])
      rw [hrg]
      exact ⟨by simp [h1.2], h1.1.dropSlice⟩
    · cases rest with
      | nil => simp at hr
      | cons r rest =>
        have hs' : s'.v.slots = (L.map Slot.init ++ acc.map .init) ++ r :: rest := by
          rw [h1.2, hs]
        have hin : L.length + j < s'.v.cap := by
          simp [Vec.cap, hs', hj]
        simp only [St.wr, if_pos hin]
        obtain ⟨L', rest', e1, e2, e3, e4⟩ := h1.1
        have hw := Vec.write_mid (x := .init b) hs' (i := L.length + j) (by simp [hj])
        have := tGuardedClone_own (loc := loc) (locB := locB) (L := L) as (j + 1)
          { s' with v := s'.v.write (L.length + j) (.init b) } (acc ++ [b]) rest
          (by simp [hw]) (by simp [Vec.write, h1.2, hl]) (by simp [hj])
          (by simp at hr; omega)
          (e3.of_eq rfl (by simp [Vec.cap, Vec.write]))
          (by
            have hL : L' = L := by
              have h5 : L'.map Slot.init = L.map Slot.init := by
                have := congrArg (List.take L.length) (e2.symm.trans hs')
                rw [h1.2, hl] at e1
                simpa [List.take_append, ← e1] using this
              exact map_init_inj h5
            subst hL
            simp only [Vec.write]
            rw [h1.2] at e4 ⊢
            exact e4.perm (by perm_tac))
        simp only [Vec.write, h1.2] at this ⊢
        refine ⟨this.1, ?_⟩
        have h2 := this.2
        split
        · rename_i hp'
          rw [if_pos hp'] at h2; exact h2
        · rename_i hp'
          rw [if_neg hp'] at h2
          obtain ⟨acc', rest'', f1, f2, f3, f4, f5⟩ := h2
          exact ⟨acc', rest'', f1, by simp at f2 ⊢; omega, f3,
            by simpa [Vec.cap] using f4, f5⟩

theorem tExtSlice_own {s loc locB} (n : Nat) (h : OwnL fl s loc locB) (ht : s.v.h.thin = true)
    (hal : s.v.h.alive = true) : OwnL fl (tExtSlice n s).2 loc locB := by
  unfold tExtSlice
  obtain ⟨hl, hv, ho⟩ := mkVals_own n s h
  generalize mkVals n s = r at hl hv ho ⊢
  obtain ⟨srcs, s1⟩ := r
  simp only at hl hv ho ⊢
  obtain ⟨g1, g2, g3, g4, g5⟩ := ho.reserve n (by rw [hv]; exact ht) (by rw [hv]; exact hal)
  generalize s1.reserve n = s2 at g1 g2 g3 g4 g5 ⊢
  obtain ⟨L, rest, e1, e2, e3, e4⟩ := g1
  have hrest : srcs.length ≤ rest.length := by
    simp [Vec.cap, e2] at g4; omega
  have key := tGuardedClone_own (loc := srcs ++ loc) (locB := locB) (L := L) srcs 0 s2 [] rest
    (by simp [e2]) e1 rfl hrest e3 (by simpa using e4)
  rw [← e1] at key
  generalize tGuardedClone s2.v.len srcs 0 s2 = r2 at key ⊢
  obtain ⟨p, s3⟩ := r2
  simp only at key ⊢
  cases p
  · simp only [Bool.false_eq_true, if_false] at key ⊢
    obtain ⟨hh, acc', rest', f1, f2, f3, f4, f5⟩ := key
    apply OwnL.markDrops
    refine ⟨L ++ acc', rest', by simp [f3, e1, f2, hl], by simp [f1],
      e3.of_eq (by simpa using hh) (by simpa using f4), ?_⟩
    simp only [St.setLen_h, St.setLen_mem, hh]
    exact f5.perm (by perm_tac)
  · simp only [if_true] at key ⊢
    exact OwnL.markDrops key.2


/-- loop of `try_extend_from_within`: sources are read in place, all of them below `len` -/
theorem tWithinLoop_own {loc locB} : ∀ (k i : Nat) (s : St), OwnL fl s loc locB →
    i + k ≤ s.v.len → s.v.len + k ≤ s.v.cap → OwnL fl (tWithinLoop i k s).2 loc locB
  | 0, _, _, h, _, _ => by simpa [tWithinLoop] using h
  | k + 1, i, s, h, hi, hc => by
    unfold tWithinLoop
    obtain ⟨a, hg, hout⟩ := h.get (i := i) (by omega)
    have h1 := h.cloneSlot hg hout
    rcases hr : s.onMem (Mem.cloneSlot (s.v.get i)) with ⟨_ | b, s'⟩ <;> rw [hr] at h1 <;>
      simp only at h1 ⊢
    · exact h1.1
    · have hc' : s'.v.len < s'.v.cap := by rw [h1.2.1]; omega
      exact tWithinLoop_own k (i + 1) _ (h1.1.store hc') (by simp [h1.2.1]; omega)
        (by simp [h1.2.1]; omega)

theorem tExtWithin_own {s loc locB} (a b : Nat) (h : OwnL fl s loc locB) (ht : s.v.h.thin = true)
    (hal : s.v.h.alive = true) : OwnL fl (tExtWithin a b s).2 loc locB := by
  unfold tExtWithin
  split
  · rename_i hab
    obtain ⟨g1, g2, g3, g4, g5⟩ := h.reserve (b - a) ht hal
    exact tWithinLoop_own _ _ _ g1 (by omega) (by omega)
  · exact h

/-- loop of `extend_iter`: up to the size hint the capacity was reserved up front, beyond it one
slot is reserved per item -/
theorem tExtIterLoop_own {loc locB} (min : Nat) : ∀ (k i : Nat) (s : St), OwnL fl s loc locB →
    s.v.h.thin = true → s.v.h.alive = true → (i < min → s.v.len + (min - i) ≤ s.v.cap) →
    OwnL fl (tExtIterLoop min i k s).2 loc locB
  | 0, _, _, h, _, _, _ => by simpa [tExtIterLoop] using h.tick
  | k + 1, i, s, h, ht, hal, hc => by
    unfold tExtIterLoop
    have h1 := h.genVal
    rcases hr : s.onMem Mem.genVal with ⟨_ | b, s'⟩ <;> rw [hr] at h1 <;> simp only at h1 ⊢
    · exact h1.1
    · have ht' : s'.v.h.thin = true := by rw [h1.2]; exact ht
      have hal' : s'.v.h.alive = true := by rw [h1.2]; exact hal
      split
      · rename_i hge
        obtain ⟨g1, g2, g3, g4, g5⟩ := h1.1.reserve 1 ht' hal'
        refine tExtIterLoop_own min k (i + 1) _ (g1.store (by omega)) (by simp [g3, ht'])
          (by simp [g3, hal']) (by intro; omega)
      · rename_i hlt
        have := hc (by omega)
        refine tExtIterLoop_own min k (i + 1) _ (h1.1.store (by rw [h1.2]; omega)) (by simp [ht'])
          (by simp [hal']) (by intro; simp [h1.2]; omega)

theorem tExtIter_own {s loc locB} (hint n : Nat) (h : OwnL fl s loc locB) (ht : s.v.h.thin = true)
    (hal : s.v.h.alive = true) : OwnL fl (tExtIter hint n s).2 loc locB := by
  unfold tExtIter
  obtain ⟨g1, g2, g3, g4, g5⟩ := h.reserve hint ht hal
  exact tExtIterLoop_own hint n 0 _ g1 (by rw [g3]; exact ht) (by rw [g3]; exact hal)
    (by intro; omega)


/-- a locally owned buffer may be leaked -/
theorem OwnL.leakB {s loc b locB} (h : OwnL fl s loc (b :: locB)) : OwnL fl s loc locB := by
  obtain ⟨L, rest, e1, e2, e3, e4⟩ := h
  refine ⟨L, rest, e1, e2, e3, e4.weakenB ?_ (fun x hx => List.mem_cons_of_mem _ hx)⟩
  have := e4.bnodup
  simp only [List.cons_append, List.nodup_cons] at this
  exact this.2

/-- a fresh local ThinVec: what `with_capacity` returns -/
structure FreshThin (o : Vec) (c esz : Nat) (tracked : Bool) : Prop where
  len0 : o.len = 0
  esz_eq : o.h.esz = esz
  capfix : 0 < esz → roundCap esz o.cap = o.cap
  cap : c ≤ o.cap
  thin : o.h.thin = true
  alive : o.h.alive = true
  tr : o.h.tracked = tracked
  pinit : PrefInit o.h

theorem tWithCap_own {s loc locB} (c esz : Nat) (tracked : Bool) (h : OwnL fl s loc locB) :
    match tWithCap c esz tracked s with
    | (none, s') => OwnL fl s' loc locB ∧ s'.v = s.v
    | (some o, s') => s'.v = s.v ∧ FreshThin o c esz tracked ∧
        OwnL fl s' (prefL o.h ++ loc) (o.h.buf :: locB) := by
  unfold tWithCap
  have h1 := h.alloc
  have hv : (s.onMem Mem.alloc).2.v = s.v := rfl
  have hb : (s.onMem Mem.alloc).1 = s.mem.nextBuf := rfl
  generalize s.onMem Mem.alloc = r at h1 hv hb
  obtain ⟨b, s1⟩ := r
  simp only at h1 hv hb ⊢
  subst hb
  have hcap : c ≤ (uninits (roundCap esz (max c (minCap esz)))).length := by
    simp only [uninits, List.length_replicate]
    exact Nat.le_trans (Nat.le_max_left _ _) (roundCap_ge _ _)
  cases tracked with
  | false =>
    simp only [Bool.false_eq_true, if_false]
    refine ⟨hv, ⟨rfl, rfl, fun hp => by simpa [Vec.cap, uninits] using roundCap_fix hp _,
      hcap, rfl, rfl, rfl, fun _ h => by simp at h⟩, ?_⟩
    simpa [prefL] using h1
  | true =>
    simp only [if_true]
    have h2 := h1.genVal
    have hv2 : (s1.onMem Mem.genVal).2.v = s1.v := rfl
    generalize s1.onMem Mem.genVal = r2 at h2 hv2
    obtain ⟨_ | p, s2⟩ := r2 <;> simp only at h2 hv2 ⊢
    · exact ⟨h2.1.leakB, by rw [hv2, hv]⟩
    · refine ⟨by rw [hv2, hv], ⟨rfl, rfl,
        fun hp => by simpa [Vec.cap, uninits] using roundCap_fix hp _,
        hcap, rfl, rfl, rfl, fun _ _ _ => ⟨p, rfl⟩⟩, ?_⟩
      simpa [prefL] using h2.1

/-- without an armed fault `Drop for ThinVec` does not panic -/
theorem tDropVec_of_none (o : Vec) (s : St) (h : s.mem.budget = none) : (tDropVec o s).1 = false := by
  unfold tDropVec
  simp only [St.onMem_eq, St.withMem]
  obtain ⟨h1, h2⟩ := Mem.dropSlice_of_none (o.range 0 o.len) s.mem h
  simp only [h1, Bool.false_eq_true, if_false]
  by_cases htr : o.h.tracked = true
  · obtain ⟨h3, _⟩ := Mem.dropSlot_of_none (x := o.h.pref) h2
    simp [htr, h3]
  · simp [htr]

/-- `Drop for ThinVec` on a local vector holding `acc`: everything it owns is dropped or leaked -/
theorem tDropVec_own {s loc locB} {o : Vec} {acc : List Nat} (ho : LocalVec o acc)
    (hthin : o.h.thin = true) (hal : o.h.alive = true) (hpi : PrefInit o.h)
    (h : OwnL fl s (acc ++ (prefL o.h ++ loc)) (o.h.buf :: locB)) :
    OwnL fl (tDropVec o s).2 loc locB := by
  unfold tDropVec
  rw [ho.range]
  have h1 := h.dropSlice
  have hp0 : fl = true → (s.onMem (Mem.dropSlice (acc.map .init))).1 = false :=
    fun hf => (Mem.dropSlice_of_none _ _ (h.budget_none hf)).1
  generalize s.onMem (Mem.dropSlice (acc.map .init)) = r at h1 hp0
  obtain ⟨p, s1⟩ := r
  simp only at h1 hp0 ⊢
  cases p
  · simp only [Bool.false_eq_true, if_false]
    by_cases htr : o.h.tracked = true
    · obtain ⟨pid, hp⟩ := hpi hthin htr hal
      have hpl : prefL o.h = [pid] := by simp [prefL, hthin, htr, hal, hp]
      rw [hpl] at h1
      have hds : Mem.dropSlot (.init pid) = Mem.dropId pid := by funext m; rfl
      simp only [htr, if_true, hp, hds]
      have h2 : OwnL fl (s1.onMem (Mem.dropId pid)).2 loc (o.h.buf :: locB) := OwnL.dropId h1
      generalize s1.onMem (Mem.dropId pid) = r2 at h2
      obtain ⟨q, s2⟩ := r2
      cases q
      · exact h2.free
      · exact h2.leakB
    · have hpl : prefL o.h = [] := by simp [prefL, htr]
      rw [hpl] at h1
      simp only [htr, Bool.false_eq_true, if_false]
      exact OwnL.free h1
  · simp only [if_true]
    exact (h1.leak (fun hf => by cases hp0 hf)).leakB


/-- `guarded_slice_clone` into a local vector (length still 0): `acc` = clones written so far -/
theorem guardedCloneLocal_own {loc locB} : ∀ (M : List Nat) (j : Nat) (o : Vec) (s : St)
    (acc : List Nat) (rest : List Slot), o.slots = acc.map .init ++ rest → acc.length = j →
    M.length ≤ rest.length → OwnL fl s (acc ++ loc) locB → (∀ a ∈ M, a ∉ s.mem.out) →
    (guardedCloneLocal (M.map .init) j o s).2.1.h = o.h ∧
    (guardedCloneLocal (M.map .init) j o s).2.1.len = o.len ∧
    (guardedCloneLocal (M.map .init) j o s).2.2.v = s.v ∧
    if (guardedCloneLocal (M.map .init) j o s).1 = true then
      OwnL fl (guardedCloneLocal (M.map .init) j o s).2.2 loc locB
    else ∃ acc' rest', (guardedCloneLocal (M.map .init) j o s).2.1.slots
          = acc'.map .init ++ rest' ∧ acc'.length = j + M.length ∧
        OwnL fl (guardedCloneLocal (M.map .init) j o s).2.2 (acc' ++ loc) locB
  | [], j, o, s, acc, rest, hs, hj, _, h, _ => by
    simp only [List.map_nil, guardedCloneLocal]
    exact ⟨trivial, trivial, trivial, acc, rest, hs, by simpa using hj, h⟩
  | a :: as, j, o, s, acc, rest, hs, hj, hr, h, hm => by
    simp only [List.map_cons, guardedCloneLocal]
    have h1 := h.cloneSlot (x := .init a) rfl (hm a (List.mem_cons_self ..))
    rcases hc : s.onMem (Mem.cloneSlot (.init a)) with ⟨_ | b, s'⟩ <;> rw [hc] at h1 <;>
      simp only at h1 ⊢
    · have hrg : o.range 0 j = acc.map .init :=
        Vec.range_mid (A := []) (B := acc.map .init) (C := rest) (by simp [hs]) rfl (by simp [hj])
      rw [hrg]
      exact ⟨trivial, trivial, by simp [h1.2.1], h1.1.dropSlice⟩
    · cases rest with
      | nil => simp at hr
      | cons r rest =>
        have hin : j < o.cap := by simp [Vec.cap, hs, hj]
        have hw := Vec.write_mid (x := .init b) hs (i := j) (by simp [hj])
        have h2 : OwnL fl (s'.chk (decide (j < o.cap))) ((acc ++ [b]) ++ loc) locB := by
          simp only [St.chk, hin, decide_true, if_true]
          exact h1.1.perm (by perm_tac)
        have := guardedCloneLocal_own (loc := loc) (locB := locB) as (j + 1)
          (o.write j (.init b)) (s'.chk (decide (j < o.cap))) (acc ++ [b]) rest (by simp [hw])
          (by simp [hj]) (by simp at hr; omega) h2
          (by
            intro c hcm
            simp only [St.chk, hin, decide_true, if_true]
            rw [h1.2.2]
            exact hm c (List.mem_cons_of_mem _ hcm))
        obtain ⟨f1, f2, f3, f4⟩ := this
        refine ⟨by simpa [Vec.write] using f1, by simpa [Vec.write] using f2, ?_, ?_⟩
        · rw [f3]; simp only [St.chk, hin, decide_true, if_true]; exact h1.2.1
        · split
          · rename_i hp'; rw [if_pos hp'] at f4; exact f4
          · rename_i hp'
            rw [if_neg hp'] at f4
            obtain ⟨acc', rest', g1, g2, g3⟩ := f4
            exact ⟨acc', rest', g1, by simp at g2 ⊢; omega, g3⟩

theorem tClone_own {s loc locB} (h : OwnL fl s loc locB) : OwnL fl (tClone s).2 loc locB := by
  unfold tClone
  obtain ⟨M, e1, e2, e3⟩ := h.range_live (Nat.zero_le _) (Nat.le_refl s.v.len)
  have h1 := tWithCap_own s.v.len s.v.h.esz s.v.h.tracked h
  rcases hr : tWithCap s.v.len s.v.h.esz s.v.h.tracked s with ⟨_ | o, s1⟩ <;> rw [hr] at h1 <;>
    simp only at h1 ⊢
  · exact h1.1
  · obtain ⟨hv, hf, ho⟩ := h1
    rw [hv, e1]
    have hout : ∀ a ∈ M, a ∉ s1.mem.out := by
      intro a ha
      have hlive := ho.range_live (a := 0) (b := s1.v.len) (Nat.zero_le _) (Nat.le_refl _)
      obtain ⟨M', g1, g2, g3⟩ := hlive
      rw [hv, e1] at g1
      rw [map_init_inj g1] at ha
      exact g3 a ha
    have hslots : o.slots = ([] : List Nat).map Slot.init ++ o.slots := by simp
    have key := guardedCloneLocal_own (loc := prefL o.h ++ loc) (locB := o.h.buf :: locB) M 0 o s1
      [] o.slots hslots rfl (by have := hf.cap; simp [Vec.cap] at this; omega) ho hout
    generalize guardedCloneLocal (M.map .init) 0 o s1 = r2 at key ⊢
    obtain ⟨p, o2, s2⟩ := r2
    simp only at key ⊢
    obtain ⟨k1, k2, k3, k4⟩ := key
    cases p
    · simp only [Bool.false_eq_true, if_false] at k4 ⊢
      obtain ⟨acc', rest', g1, g2, g3⟩ := k4
      have hlv : LocalVec (o2.setLen s.v.len) acc' :=
        ⟨by simp [Vec.setLen, g2]; omega, rest', by simpa [Vec.setLen] using g1⟩
      have := tDropVec_own (s := s2) (loc := loc) (locB := locB) hlv
        (by simp [Vec.setLen, k1, hf.thin]) (by simp [Vec.setLen, k1, hf.alive])
        (by simpa [Vec.setLen, k1] using hf.pinit)
        (by simpa [Vec.setLen, k1] using g3)
      have hlen : s2.v.len = s.v.len := by rw [k3, hv]
      rw [hlen]
      exact this
    · simp only [if_true] at k4 ⊢
      have hlv : LocalVec o2 [] := ⟨by rw [k2, hf.len0]; rfl, o2.slots, by simp⟩
      have := tDropVec_own (s := s2) (loc := loc) (locB := locB) hlv
        (by rw [k1]; exact hf.thin) (by rw [k1]; exact hf.alive) (by rw [k1]; exact hf.pinit)
        (by simpa [k1] using k4)
      exact this


theorem tAppend_own {s loc locB} (n : Nat) (h : OwnL fl s loc locB) (ht : s.v.h.thin = true)
    (hal : s.v.h.alive = true) : OwnL fl (tAppend n s).2 loc locB := by
  unfold tAppend
  obtain ⟨hl, hv, ho⟩ := mkVals_own n s h
  generalize mkVals n s = r at hl hv ho ⊢
  obtain ⟨ids, s1⟩ := r
  simp only at hl hv ho ⊢
  have h1 := ho.alloc
  have hv1 : (s1.onMem Mem.alloc).2.v = s1.v := rfl
  have hb1 : (s1.onMem Mem.alloc).1 = s1.mem.nextBuf := rfl
  generalize s1.onMem Mem.alloc = r at h1 hv1 hb1 ⊢
  obtain ⟨ob, s2⟩ := r
  simp only at h1 hv1 hb1 ⊢
  subst hb1
  obtain ⟨g1, g2, g3, g4, g5⟩ :=
    h1.reserve n (by rw [hv1, hv]; exact ht) (by rw [hv1, hv]; exact hal)
  have hr : ∀ (c : Nat) (hd : Hdr),
      ({ slots := ids.map Slot.init ++ uninits c, len := n, h := hd } : Vec).range 0 n
      = ids.map .init := fun c hd =>
    Vec.range_mid (A := []) (B := ids.map .init) (C := uninits c) (by simp) rfl (by simp [hl])
  simp only [hr, Vec.setLen, Vec.range_zero_zero, Mem.markDropSlots]
  generalize s2.reserve n = s3 at g1 g2 g3 g4 g5 ⊢
  have hb : s3.v.len + (ids.map Slot.init).length ≤ s3.v.cap := by simp [hl]; omega
  simp only [St.wrChunk, if_pos hb]
  obtain ⟨L, rest, e1, e2, e3, e4⟩ := g1
  have := ownL_of_writeChunk (s := s3) (A := L) (T := ids) (loc := loc)
    (locB := s1.mem.nextBuf :: locB) (d := s3.v.len) (n := s3.v.len + n) e2 e3
    (e4.perm (by perm_tac)) e1 (by rw [e1, hl]) (by simpa using hb)
  exact OwnL.free this


theorem tSplitOff_own {s loc locB} (at_ : Nat) (h : OwnL fl s loc locB) :
    OwnL fl (tSplitOff at_ s).2 loc locB := by
  unfold tSplitOff
  split
  · rename_i hat
    have h1 := tWithCap_own (s.v.len - at_) s.v.h.esz s.v.h.tracked h
    simp only
    rcases hr : tWithCap (s.v.len - at_) s.v.h.esz s.v.h.tracked s with ⟨_ | o, s1⟩ <;>
      rw [hr] at h1 <;> simp only at h1 ⊢
    · exact h1.1
    · obtain ⟨hv, hf, ho⟩ := h1
      have hchk : decide (s.v.len - at_ ≤ o.cap) = true := by simpa using hf.cap
      simp only [St.chk, hchk, if_true]
      obtain ⟨tl, e1, e2, e3⟩ := ho.setLen_take (n := at_) (by rw [hv]; exact hat)
      rw [hv] at e1 e2
      rw [hv, e1]
      have hlv := LocalVec.writeChunk0 o tl (n := s.v.len - at_) e2.symm
      exact tDropVec_own hlv (by simp [Vec.setLen, Vec.writeChunk, hf.thin])
        (by simp [Vec.setLen, Vec.writeChunk, hf.alive])
        (by simpa [Vec.setLen, Vec.writeChunk] using hf.pinit)
        (by simpa [Vec.setLen, Vec.writeChunk] using e3)
  · exact h

/-- `tDropVec` only touches the memory -/
theorem tDropVec_frame (o : Vec) (s : St) (v' : Vec) :
    (tDropVec o { s with v := v' }).2 = { (tDropVec o s).2 with v := v' } ∧
      (tDropVec o s).2.v = s.v := by
  unfold tDropVec
  simp only [St.onMem_eq, St.withMem]
  by_cases h1 : (Mem.dropSlice (o.range 0 o.len) s.mem).1 = true
  · simp [h1]
  · by_cases h2 : o.h.tracked = true
    · by_cases h3 : (Mem.dropSlot o.h.pref (Mem.dropSlice (o.range 0 o.len) s.mem).2).1 = true <;>
        simp [h1, h2, h3]
    · simp [h1, h2]

theorem tDrop_own {s loc locB} (h : OwnL fl s loc locB) (ht : s.v.h.thin = true)
    (hal : s.v.h.alive = true) : OwnL fl (tDrop s).2 loc locB := by
  unfold tDrop
  obtain ⟨L, rest, e1, e2, e3, e4⟩ := h
  have hbuf : bufL s.v.h = [s.v.h.buf] := by simp [bufL, ht, hal]
  have hk : OwnL fl { s with v := { s.v with len := 0, h := { s.v.h with alive := false } } }
      (L ++ (prefL s.v.h ++ loc)) (s.v.h.buf :: locB) := by
    refine ⟨[], s.v.slots, rfl, by simp,
      ⟨fun _ _ h => by simp at h, fun _ h => by simp at h⟩, ?_⟩
    have hp' : prefL { s.v.h with alive := false } = [] := by simp [prefL]
    have hb' : bufL { s.v.h with alive := false } = [] := by simp [bufL]
    simp only [hp', hb']
    rw [hbuf] at e4
    refine (e4.perm (by perm_tac)).weakenB ?_ ?_
    · have : (locB ++ [s.v.h.buf]).Nodup := e4.bnodup
      simpa using List.perm_append_comm.nodup_iff.mp this
    · intro b hb; simp at hb ⊢; rcases hb with rfl | hb
      · exact Or.inr rfl
      · exact Or.inl hb
  have hlv : LocalVec s.v L := ⟨e1, rest, e2⟩
  have key := tDropVec_own hlv ht hal e3.1 hk
  obtain ⟨f1, f2⟩ := tDropVec_frame s.v s { s.v with len := 0, h := { s.v.h with alive := false } }
  rw [f1] at key
  generalize tDropVec s.v s = r at key f2 ⊢
  obtain ⟨p, s1⟩ := r
  simp only at key f2 ⊢
  rw [f2]
  exact key

theorem tShrinkFit_own {s loc locB} (h : OwnL fl s loc locB) (ht : s.v.h.thin = true)
    (hal : s.v.h.alive = true) : OwnL fl (tShrinkFit s) loc locB := by
  unfold tShrinkFit
  split
  · exact h
  · exact (h.setCapacity s.v.len ht hal (Nat.le_refl _)).1

theorem tReserve_own {s loc locB} (n : Nat) (h : OwnL fl s loc locB) (ht : s.v.h.thin = true)
    (hal : s.v.h.alive = true) : OwnL fl (s.reserve n) loc locB :=
  (h.reserve n ht hal).1


theorem LocalVec.unique {v : Vec} {L L' : List Nat} (h : LocalVec v L) (h' : LocalVec v L') :
    L = L' := by
  obtain ⟨e1, r1, e2⟩ := h
  obtain ⟨f1, r2, f2⟩ := h'
  have hlen : L.length = L'.length := by rw [← e1, f1]
  have := congrArg (List.take L.length) (e2.symm.trans f2)
  rw [List.take_left' (by simp), hlen, List.take_left' (by simp)] at this
  exact map_init_inj this

theorem moveAll_spec {src dst : Vec} {L : List Nat} (h : LocalVec src L)
    (hc : L.length ≤ dst.cap) :
    LocalVec (moveAll src dst).1 L ∧ (moveAll src dst).1.h = dst.h ∧
      (moveAll src dst).1.cap = dst.cap ∧ (moveAll src dst).2 = src.setLen 0 := by
  unfold moveAll
  rw [h.range]
  refine ⟨LocalVec.writeChunk0 dst L h.1, rfl, ?_, rfl⟩
  have := Vec.writeChunk_cap (v := dst) (d := 0) (X := L.map .init) (by simpa using hc)
  simpa [Vec.setLen, Vec.cap] using this

/-- the container's slot array is replaced by one holding the same ids -/
theorem OwnL.replace_v {s loc locB} {v' : Vec} {L : List Nat} (h : OwnL fl s loc locB)
    (hl : LocalVec s.v L) (hl' : LocalVec v' L) (hh : v'.h = s.v.h) (hc : v'.cap = s.v.cap) :
    OwnL fl { s with v := v' } loc locB := by
  obtain ⟨L0, rest, e1, e2, e3, e4⟩ := h
  have : L0 = L := LocalVec.unique ⟨e1, rest, e2⟩ hl
  subst this
  obtain ⟨f1, r2, f2⟩ := hl'
  exact ⟨L0, r2, f1, f2, e3.of_eq hh hc, by simpa [hh] using e4⟩

theorem iRoundtrip_own {s loc locB} (h : OwnL fl s loc locB) : OwnL fl (iRoundtrip s).2 loc locB := by
  unfold iRoundtrip
  have hle := h.len_le
  obtain ⟨L, rest, e1, e2, e3, e4⟩ := h
  have h : OwnL fl s loc locB := ⟨L, rest, e1, e2, e3, e4⟩
  have hlv : LocalVec s.v L := ⟨e1, rest, e2⟩
  have h1 := h.alloc
  have hv : (s.onMem Mem.alloc).2.v = s.v := rfl
  have hb : (s.onMem Mem.alloc).1 = s.mem.nextBuf := rfl
  generalize s.onMem Mem.alloc = r at h1 hv hb
  obtain ⟨b, s1⟩ := r
  simp only at h1 hv hb ⊢
  subst hb
  rw [hv]
  generalize ht0 : thinLocal s.v.h.esz s.v.len s.mem.nextBuf = t0
  have hcap0 : s.v.len ≤ t0.cap := by
    rw [← ht0]
    simp only [thinLocal, Vec.cap, uninits, List.length_replicate]
    exact Nat.le_trans (Nat.le_max_left _ _) (roundCap_ge _ _)
  have hbuf : t0.h.buf = s.mem.nextBuf := by rw [← ht0]; rfl
  obtain ⟨m1, m2, m3, m4⟩ := moveAll_spec (dst := t0) hlv (by rw [← e1]; exact hcap0)
  have hchk1 : decide (s.v.len ≤ t0.cap) = true := by simpa using hcap0
  simp only [St.chk, hchk1, if_true, hv]
  generalize moveAll s.v t0 = r1 at m1 m2 m3 m4 ⊢
  obtain ⟨t, v0⟩ := r1
  simp only at m1 m2 m3 m4 ⊢
  subst m4
  simp only [Vec.setLen, Vec.range_zero_zero, Mem.markDropSlots]
  have hcapi : L.length ≤ (HipVerif.Slots.iNew s.v.cap).cap := by
    simp [HipVerif.Slots.iNew, Vec.cap, uninits] at hle ⊢; omega
  obtain ⟨n1, n2, n3, n4⟩ := moveAll_spec (dst := HipVerif.Slots.iNew s.v.cap) m1 hcapi
  have hchk2 : decide (s.v.len ≤ (HipVerif.Slots.iNew s.v.cap).cap) = true := by
    rw [e1]; simpa using hcapi
  have hcap' : ({ slots := s.v.slots, len := 0, h := s.v.h } : Vec).cap = s.v.cap := rfl
  simp only [hcap', hchk2, if_true]
  generalize moveAll t (HipVerif.Slots.iNew s.v.cap) = r2 at n1 n2 n3 n4 ⊢
  obtain ⟨i, t'⟩ := r2
  simp only at n1 n2 n3 n4 ⊢
  subst n4
  simp only [Vec.setLen, Vec.range_zero_zero, Mem.markDropSlots, m2, hbuf]
  have h2 : OwnL fl (St.withMem (Mem.free s.mem.nextBuf) s1) loc locB := OwnL.free h1
  have hlv1 : LocalVec (St.withMem (Mem.free s.mem.nextBuf) s1).v L := by
    simpa [hv] using hlv
  have := h2.replace_v (v' := { i with h := s.v.h }) hlv1 ⟨n1.1, n1.2⟩
    (by simp [hv]) (by simpa [hv, Vec.cap, HipVerif.Slots.iNew, uninits] using n3)
  exact this


theorem Acct.allocB {m l B} (h : Acct fl m l B) : Acct fl m.alloc.2 l (B ++ [m.nextBuf]) := by
  have h1 : Acct fl m.alloc.2 l (m.nextBuf :: B) := h.alloc
  refine h1.weakenB ?_ ?_
  · exact List.perm_append_comm.nodup_iff.mp (by simpa using h1.bnodup)
  · intro b hb
    simp only [List.mem_append, List.mem_singleton] at hb
    rcases hb with hb | rfl
    · exact List.mem_cons_of_mem _ hb
    · exact List.mem_cons_self ..

/-- the caller builds a fresh `ThinVec::new()` in place of a container that no longer exists -/
theorem tNewQuiet_own {s loc locB} (esz : Nat) (tracked : Bool) (h : OwnL fl s loc locB)
    (hpos : 0 < esz) (hk0 : fl = true → s.v.len = 0 ∧ prefL s.v.h = []) :
    OwnL fl (tNewQuiet esz tracked s) loc locB := by
  have hk := h.kill hk0
  obtain ⟨L, rest, e1, e2, e3, e4⟩ := hk
  have hL : L = [] := List.eq_nil_of_length_eq_zero (by simpa using e1.symm)
  subst hL
  have hp' : prefL { s.v.h with alive := false } = [] := by simp [prefL]
  have hb' : bufL { s.v.h with alive := false } = [] := by simp [bufL]
  simp only [hp', hb'] at e4
  have e5 : Acct fl s.mem (loc ++ []) (locB ++ []) :=
    e4.weaken (by simpa using (List.nodup_append.mp e4.nodup).1)
      (fun a ha => by simp at ha; exact List.mem_append_left _ ha)
      (fun _ a ha => by simpa using ha)
  simp only [List.append_nil] at e5
  unfold tNewQuiet
  have hfix : roundCap esz (uninits (roundCap esz (minCap esz))).length
      = (uninits (roundCap esz (minCap esz))).length := by
    simpa [uninits] using roundCap_fix hpos _
  cases tracked with
  | false =>
    simp only [Bool.false_eq_true, if_false, St.onMem_eq]
    refine ⟨[], uninits (roundCap esz (minCap esz)), rfl, by simp,
      ⟨fun _ h => by simp at h, fun _ _ => ⟨hpos, hfix⟩⟩, ?_⟩
    have := e5.allocB
    simpa [prefL, bufL, Mem.alloc] using this
  | true =>
    simp only [if_true, St.onMem_eq]
    refine ⟨[], uninits (roundCap esz (minCap esz)), rfl, by simp,
      ⟨fun _ _ _ => ⟨_, rfl⟩, fun _ _ => ⟨hpos, hfix⟩⟩, ?_⟩
    have := e5.allocB.mkVal
    have hp : (loc ++ ([s.mem.next] ++ [])).Perm (s.mem.next :: loc) := by perm_tac
    simpa [prefL, bufL, Mem.alloc, Mem.mkVal] using this.perm hp

theorem tRoundtrip_own {s loc locB} (h : OwnL fl s loc locB) (ht : s.v.h.thin = true)
    (hal : s.v.h.alive = true) : ∀ r, tRoundtrip s = some r → OwnL fl r.2 loc locB := by
  intro r hr
  unfold tRoundtrip at hr
  split at hr
  · cases hr
  · rename_i hlen16
    obtain ⟨L, rest, e1, e2, e3, e4⟩ := h
    obtain ⟨hpos, -⟩ := e3.2 ht hal
    have hlv : LocalVec s.v L := ⟨e1, rest, e2⟩
    have hbuf : bufL s.v.h = [s.v.h.buf] := by simp [bufL, ht, hal]
    obtain ⟨m1, m2, m3, m4⟩ := moveAll_spec (dst := HipVerif.Slots.iNew rtCap) hlv
      (by simp [HipVerif.Slots.iNew, Vec.cap, uninits]; omega)
    -- the accounting seen from the state in which the source vector no longer exists
    have hk : OwnL fl { s with v := { s.v with len := 0, h := { s.v.h with alive := false } } }
        ([] ++ (prefL (s.v.setLen 0).h ++ (L ++ loc))) ((s.v.setLen 0).h.buf :: locB) := by
      refine ⟨[], s.v.slots, rfl, by simp,
        ⟨fun _ _ h => by simp at h, fun _ h => by simp at h⟩, ?_⟩
      have hp' : prefL { s.v.h with alive := false } = [] := by simp [prefL]
      have hb' : bufL { s.v.h with alive := false } = [] := by simp [bufL]
      simp only [hp', hb', Vec.setLen]
      rw [hbuf] at e4
      refine (e4.perm (by perm_tac)).weakenB ?_ ?_
      · have : (locB ++ [s.v.h.buf]).Nodup := e4.bnodup
        simpa using List.perm_append_comm.nodup_iff.mp this
      · intro b hb; simp at hb ⊢; rcases hb with rfl | hb
        · exact Or.inr rfl
        · exact Or.inl hb
    have hlv0 : LocalVec (s.v.setLen 0) [] := ⟨rfl, s.v.slots, by simp [Vec.setLen]⟩
    have key := tDropVec_own hlv0 (by simpa [Vec.setLen] using ht)
      (by simpa [Vec.setLen] using hal) (by simpa [Vec.setLen] using e3.1) hk
    obtain ⟨f1, f2⟩ := tDropVec_frame (s.v.setLen 0) s
      { s.v with len := 0, h := { s.v.h with alive := false } }
    rw [f1] at key
    dsimp only at hr
    generalize moveAll s.v (HipVerif.Slots.iNew rtCap) = r1 at m1 m2 m3 m4 hr
    obtain ⟨i, v0⟩ := r1
    simp only at m1 m2 m3 m4 hr
    subst m4
    have hp0 : fl = true → (tDropVec (s.v.setLen 0) s).1 = false :=
      fun hf => tDropVec_of_none _ _ (e4.budget_none hf)
    generalize tDropVec (s.v.setLen 0) s = r2 at key f2 hr hp0
    obtain ⟨p, s1⟩ := r2
    simp only at key f2 hr hp0
    have key' : OwnL fl ({ s1 with v := { s.v.setLen 0 with h :=
        { (s.v.setLen 0).h with alive := false } } } : St) (L ++ loc) locB := key
    generalize hs2 : ({ s1 with v := { s.v.setLen 0 with h :=
        { (s.v.setLen 0).h with alive := false } } } : St) = s2 at key' hr
    have hv2 : s2.v = { s.v.setLen 0 with h := { (s.v.setLen 0).h with alive := false } } := by
      rw [← hs2]
    cases p
    · simp only [Bool.false_eq_true, if_false] at hr
      have h1 := tWithCap_own s.v.len s.v.h.esz s.v.h.tracked key'
      rcases hw : tWithCap s.v.len s.v.h.esz s.v.h.tracked s2 with ⟨_ | t0, s3⟩ <;>
        rw [hw] at h1 hr <;> simp only at h1 hr
      · cases hr
        rw [m1.range]
        refine tNewQuiet_own _ _ h1.1.dropLoop hpos (fun _ => ?_)
        have hv3 : s3.v = s2.v := h1.2
        simp only [St.onMem_v, hv3, hv2]
        exact ⟨rfl, by simp [prefL]⟩
      · cases hr
        obtain ⟨hv3, hf, ho⟩ := h1
        have hchk : decide (s.v.len ≤ t0.cap) = true := by simpa using hf.cap
        obtain ⟨n1, n2, n3, n4⟩ := moveAll_spec (dst := t0) m1 (by rw [← e1]; exact hf.cap)
        simp only [St.chk, hchk, if_true]
        generalize moveAll i t0 = r3 at n1 n2 n3 n4 ⊢
        obtain ⟨t, i0⟩ := r3
        simp only at n1 n2 n3 n4 ⊢
        subst n4
        simp only [Vec.setLen, Vec.range_zero_zero, Mem.markDropSlots, St.withMem]
        obtain ⟨L', rest', g1, g2, g3, g4⟩ := ho
        obtain ⟨t1, rt, t2⟩ := n1
        refine ⟨L, rt, t1, t2, ⟨by rw [n2]; exact hf.pinit, fun _ _ => ?_⟩, ?_⟩
        · rw [n2, n3, hf.esz_eq]; exact ⟨hpos, hf.capfix hpos⟩
        · have hp3 : prefL s3.v.h = [] := by rw [hv3, hv2]; simp [prefL]
          have hb3 : bufL s3.v.h = [] := by rw [hv3, hv2]; simp [bufL]
          have hL' : L' = [] := by
            have : s3.v.len = 0 := by rw [hv3, hv2]; rfl
            exact List.eq_nil_of_length_eq_zero (by omega)
          have hbt : bufL t0.h = [t0.h.buf] := by simp [bufL, hf.thin, hf.alive]
          simp only [n2, hbt]
          rw [hp3, hb3, hL'] at g4
          refine (g4.perm (by perm_tac)).weakenB ?_ ?_
          · have := g4.bnodup
            exact List.perm_append_comm.nodup_iff.mp (by simpa using this)
          · intro b hb; simp at hb ⊢; rcases hb with hb | rfl
            · exact Or.inr hb
            · exact Or.inl rfl
    · simp only [if_true] at hr
      cases hr
      exact tNewQuiet_own _ _ (key'.leak (fun hf => by cases hp0 hf)) hpos
        (fun hf => by cases hp0 hf)


theorem LocalVec.setCapacity {v : Vec} {L : List Nat} (h : LocalVec v L) (n : Nat)
    (hn : L.length ≤ n) : LocalVec (v.setCapacity n) L := by
  unfold Vec.setCapacity
  split
  · exact h
  · obtain ⟨e1, rest, e2⟩ := h
    have hge := roundCap_ge v.h.esz n
    refine ⟨e1, (rest ++ uninits (roundCap v.h.esz n - v.cap)).take (roundCap v.h.esz n - L.length), ?_⟩
    simp only [e2, List.append_assoc]
    rw [List.take_append]
    simp only [List.length_map]
    rw [List.take_of_length_le (by simp; omega)]

theorem LocalVec.reserve {v : Vec} {L : List Nat} (h : LocalVec v L) (add : Nat) :
    LocalVec (v.reserve add) L := by
  unfold Vec.reserve
  split
  · exact h.setCapacity _ (by rw [h.1]; omega)
  · exact h


/-- `set_capacity(n)` on any vector whose capacity is a fixed point of the rounding: length and
header unchanged, the new capacity is a fixed point again and at least `n` -/
theorem Vec.setCapacity_room {v : Vec} (n : Nat) (hpos : 0 < v.h.esz)
    (hfix : roundCap v.h.esz v.cap = v.cap) :
    (v.setCapacity n).len = v.len ∧ (v.setCapacity n).h = v.h ∧ n ≤ (v.setCapacity n).cap ∧
      roundCap v.h.esz (v.setCapacity n).cap = (v.setCapacity n).cap := by
  unfold Vec.setCapacity
  split
  · rename_i hsame
    refine ⟨rfl, rfl, ?_, hfix⟩
    have : roundCap v.h.esz v.cap = roundCap v.h.esz n := by
      rw [roundCap_eq_of_pos hpos, roundCap_eq_of_pos hpos, hsame]
    rw [← hfix, this]; exact roundCap_ge _ _
  · have hge := roundCap_ge v.h.esz n
    have hlen : ((v.slots ++ uninits (roundCap v.h.esz n - v.slots.length)).take
        (roundCap v.h.esz n)).length = roundCap v.h.esz n := by
      simp only [List.length_take, List.length_append, uninits, List.length_replicate]
      omega
    refine ⟨rfl, rfl, ?_, ?_⟩
    · simp only [Vec.cap]; rw [hlen]; exact hge
    · simp only [Vec.cap]; rw [hlen]; exact roundCap_fix hpos n

theorem Vec.reserve_room {v : Vec} (add : Nat) (hpos : 0 < v.h.esz)
    (hfix : roundCap v.h.esz v.cap = v.cap) (hle : v.len ≤ v.cap) :
    (v.reserve add).len = v.len ∧ (v.reserve add).h = v.h ∧ v.len + add ≤ (v.reserve add).cap ∧
      roundCap v.h.esz (v.reserve add).cap = (v.reserve add).cap := by
  unfold Vec.reserve
  split
  · obtain ⟨h1, h2, h3, h4⟩ := Vec.setCapacity_room (max (v.len + add) (v.cap * 2)) hpos hfix
    exact ⟨h1, h2, by omega, h4⟩
  · exact ⟨rfl, rfl, by omega, hfix⟩

/-- `extend` with `into_iter`, `size_hint` and the iterator's drop as fault points -/
theorem tExtend_own {s loc locB} (hint k : Nat) (h : OwnL fl s loc locB) (ht : s.v.h.thin = true)
    (hal : s.v.h.alive = true) : OwnL fl (tExtend hint k s).2 loc locB := by
  unfold tExtend
  have h1 := h.tick
  have hv1 : (s.onMem Mem.tick).2.v = s.v := rfl
  generalize s.onMem Mem.tick = r at h1 hv1
  obtain ⟨p0, s1⟩ := r
  simp only at h1 hv1 ⊢
  split
  · exact h1
  · have h2 := h1.tick
    have hv2 : (s1.onMem Mem.tick).2.v = s1.v := rfl
    generalize s1.onMem Mem.tick = r at h2 hv2
    obtain ⟨p1, s2⟩ := r
    simp only at h2 hv2 ⊢
    split
    · exact h2.tick
    · exact (tExtIter_own hint k h2 (by rw [hv2, hv1]; exact ht)
        (by rw [hv2, hv1]; exact hal)).tick

/-- the loop of `from_iter` on a local ThinVec holding `acc` -/
theorem tFromIterLoop_own {loc locB} (mn : Nat) : ∀ (k i : Nat) (o : Vec) (acc : List Nat)
    (s : St), OwnL fl s (acc ++ loc) locB → LocalVec o acc → 0 < o.h.esz →
    roundCap o.h.esz o.cap = o.cap → (i < mn → acc.length + (mn - i) ≤ o.cap) →
    ∃ acc', LocalVec (tFromIterLoop mn i k o s).2.1 acc' ∧
      (tFromIterLoop mn i k o s).2.1.h = o.h ∧
      OwnL fl (tFromIterLoop mn i k o s).2.2 (acc' ++ loc) locB
  | 0, i, o, acc, s, h, ho, _, _, _ => by
    simp only [tFromIterLoop]
    exact ⟨acc, ho, trivial, h.tick⟩
  | k + 1, i, o, acc, s, h, ho, hpos, hfix, hroom => by
    unfold tFromIterLoop
    have h1 := h.genVal
    rcases hr : s.onMem Mem.genVal with ⟨_ | a, s'⟩ <;> rw [hr] at h1 <;> simp only at h1 ⊢
    · exact ⟨acc, ho, trivial, h1.1⟩
    · have hle : acc.length ≤ o.cap := by
        obtain ⟨_, rest, e2⟩ := ho
        simp [Vec.cap, e2]
      -- the vector after the optional `reserve(1)`
      have key : ∃ o1, (if i ≥ mn then o.reserve 1 else o) = o1 ∧ LocalVec o1 acc ∧ o1.h = o.h ∧
          acc.length < o1.cap ∧ roundCap o.h.esz o1.cap = o1.cap ∧
          (i + 1 < mn → acc.length + 1 + (mn - (i + 1)) ≤ o1.cap) := by
        by_cases hge : i ≥ mn
        · obtain ⟨r1, r2, r3, r4⟩ := Vec.reserve_room (v := o) 1 hpos hfix (by rw [ho.1]; exact hle)
          exact ⟨_, by rw [if_pos hge], ho.reserve 1, r2, by rw [ho.1] at r3; omega, r4,
            by intro; omega⟩
        · have := hroom (by omega)
          exact ⟨_, by rw [if_neg hge], ho, rfl, by omega, hfix, by intro; omega⟩
      obtain ⟨o1, e1, e2, e3, e4, e5, e6⟩ := key
      rw [e1]
      have hc : o1.len < o1.cap := by rw [e2.1]; exact e4
      have hchk : s'.chk (decide (o1.len < o1.cap)) = s' := by simp [St.chk, hc]
      rw [hchk]
      have hst : (o1.store a).h = o1.h := rfl
      have hcap : (o1.store a).cap = o1.cap := by simp [Vec.store, Vec.setLen, Vec.write, Vec.cap]
      obtain ⟨acc', f1, f2, f3⟩ := tFromIterLoop_own (loc := loc) (locB := locB) mn k (i + 1)
        (o1.store a) (acc ++ [a]) s'
        (h1.1.perm (by perm_tac)) (e2.store hc) (by rw [hst, e3]; exact hpos)
        (by rw [hst, e3, hcap]; exact e5) (by intro hh; rw [hcap]; simp; exact e6 hh)
      exact ⟨acc', f1, by rw [f2, hst, e3], f3⟩

theorem tFromIter_own {s loc locB} (hint k : Nat) (h : OwnL fl s loc locB)
    (ht : s.v.h.thin = true) (hal : s.v.h.alive = true) :
    OwnL fl (tFromIter hint k s).2 loc locB := by
  unfold tFromIter
  have hpos : 0 < s.v.h.esz := by
    obtain ⟨_, _, _, _, hk, _⟩ := h
    exact (hk.2 ht hal).1
  have h1 := h.tick
  have hv1 : (s.onMem Mem.tick).2.v = s.v := rfl
  generalize s.onMem Mem.tick = r at h1 hv1
  obtain ⟨p0, s1⟩ := r
  simp only at h1 hv1 ⊢
  split
  · exact h1
  · have h2 := h1.tick
    have hv2 : (s1.onMem Mem.tick).2.v = s1.v := rfl
    generalize s1.onMem Mem.tick = r at h2 hv2
    obtain ⟨p1, s2⟩ := r
    simp only at h2 hv2 ⊢
    split
    · exact h2.tick
    · have hvs : s2.v = s.v := by rw [hv2, hv1]
      have h3 := tWithCap_own hint s2.v.h.esz s2.v.h.tracked h2
      rcases hw : tWithCap hint s2.v.h.esz s2.v.h.tracked s2 with ⟨_ | o, s3⟩ <;> rw [hw] at h3 <;>
        simp only at h3 ⊢
      · exact h3.1.tick
      · obtain ⟨hv3, hf, ho⟩ := h3
        have hlv0 : LocalVec o [] := ⟨hf.len0, o.slots, by simp⟩
        have hesz : o.h.esz = s.v.h.esz := by rw [hf.esz_eq, hvs]
        obtain ⟨acc', f1, f2, f3⟩ := tFromIterLoop_own (loc := prefL o.h ++ loc)
          (locB := o.h.buf :: locB) hint k 0 o [] s3 ho hlv0 (by rw [hesz]; exact hpos)
          (by rw [hf.esz_eq]; exact hf.capfix (by rw [hvs]; exact hpos))
          (by intro; simpa using hf.cap)
        generalize tFromIterLoop hint 0 k o s3 = r at f1 f2 f3
        obtain ⟨p, o2, s4⟩ := r
        simp only at f1 f2 f3 ⊢
        have h4 := f3.tick
        generalize s4.onMem Mem.tick = r at h4
        obtain ⟨q, s5⟩ := r
        simp only at h4 ⊢
        exact tDropVec_own f1 (by rw [f2]; exact hf.thin) (by rw [f2]; exact hf.alive)
          (by rw [f2]; exact hf.pinit) (by rw [f2]; exact h4)

end HipVerif.Slots
