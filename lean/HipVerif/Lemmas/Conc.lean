import HipVerif.Lemmas.ConcClockStep

/-!
# C04: the theorems for an ARBITRARY protocol description

Everything here is stated for every `Cfg` (ceiling + protocol description) that satisfies the
named side conditions (`ShapeOk` for the counting half, `ProtoOk` for the happens-before half),
every number of threads, every initial distribution of handles, every schedule, every stale-read
and spurious-failure choice, every program (a thread may start any action at any time).
`Props/C04.lean` instantiates them with the generated description `Gen.Atomics.proto`.

Proof structure: `Lemmas/ConcBase` (vector clocks, sums), `Lemmas/ConcCount` + `ConcCountStep`
(invariant `Wf1`: counting), `Lemmas/ConcClock` + `ConcClockStep` (invariant `Wf2`: happens-before).
-/

namespace HipVerif.Model.Conc
open HipVerif.Model

/-- All side conditions on a protocol description, by name. -/
structure ProtoOk (c : Cfg) : Prop where
  /-- every decrement is one atomic `fetch_sub(1)` followed by a test of the old value -/
  decr_is_rmw : decrShape c.proto = true
  decr_is_release : decrIsRelease c.proto = true
  decr_overflow_has_acquire_fence : decrAcquires c.proto = true
  /-- every increment is a compare-exchange loop -/
  incr_is_rmw : incrShape c.proto = true
  incr_bound_le_ceil : incrBoundOk c.ceil c.proto = true
  is_unique_shape : uniqShape c.proto = true
  is_unique_has_acquire_fence : uniqAcquires c.proto = true
  get_is_load : getShape c.proto = true

theorem ProtoOk.shapeOk {c : Cfg} (h : ProtoOk c) : ShapeOk c :=
  ⟨h.decr_is_rmw, h.incr_is_rmw, h.incr_bound_le_ceil, h.is_unique_shape, h.get_is_load⟩

theorem ProtoOk.ordOk {c : Cfg} (h : ProtoOk c) : OrdOk c :=
  ⟨h.decr_is_release, h.decr_overflow_has_acquire_fence, h.is_unique_has_acquire_fence⟩

/-- `s` is reachable from the initial state where thread `i` holds `hs[i]` handles. -/
def Reachable (c : Cfg) (hs : List Nat) (s : State) : Prop :=
  1 ≤ hs.sum ∧ hs.sum ≤ c.ceil + 1 ∧ ∃ ls, run c (init hs) ls = some s

theorem Reachable.wf1 {c : Cfg} {hs : List Nat} {s : State} (hok : ShapeOk c)
    (hr : Reachable c hs s) : Wf1 c s := by
  obtain ⟨h1, h2, ls, hrun⟩ := hr
  obtain ⟨sh⟩ := Shape.ofOk hok
  exact (Wf1.init hs h1 h2).run sh ls hrun

theorem Reachable.wf2 {c : Cfg} {hs : List Nat} {s : State} (hok : ProtoOk c)
    (hr : Reachable c hs s) : Wf2 c s := by
  obtain ⟨h1, h2, ls, hrun⟩ := hr
  obtain ⟨sh⟩ := Shape.ofOk hok.shapeOk
  exact (Wf.run sh (Ords.ofOk sh hok.ordOk) (Wf1.init hs h1 h2) (Wf2.init hs) ls hrun).2

theorem sum_eq_of_others_zero (l : List Nat) (t x : Nat) (ht : l[t]? = some x)
    (h : ∀ (u : Nat) y, u ≠ t → l[u]? = some y → y = 0) : l.sum = x := by
  induction l generalizing t with
  | nil => simp at ht
  | cons a l ih =>
    cases t with
    | zero =>
      simp at ht; subst ht
      have : l.sum = 0 := (sum_eq_zero_iff_forall l).2 fun u y hy => h (u + 1) y (by omega) (by simpa using hy)
      simp [this]
    | succ t =>
      simp at ht
      have ha : a = 0 := h 0 a (by omega) (by simp)
      have := ih t ht fun u y hu hy => h (u + 1) y (by omega) (by simpa using hy)
      simp [ha, this]

/-! ## Counting half (needs only the shape conditions) -/

theorem count_tracks_of {c : Cfg} {hs : List Nat} {s : State} (hok : ShapeOk c)
    (hr : Reachable c hs s) (h1 : 1 ≤ total s) : s.last.val + 1 = total s ∧ s.last.val ≤ c.ceil :=
  ⟨(hr.wf1 hok).track h1, (hr.wf1 hok).ceil h1⟩

/-- The invariant `J` in full: a `0` that is not the last message is out of reach of every
holder, directly or (for a lent handle) through a borrower that will be joined. -/
theorem J_lent_of {c : Cfg} {hs : List Nat} {s : State} (hok : ShapeOk c) (hr : Reachable c hs s)
    {i : Nat} {m : Msg} (hi : s.hist[i]? = some m) (hz : m.val = 0)
    {t : Nat} {th : Thread} (ht : s.thr[t]? = some th) (ho : 1 ≤ owned th) :
    i < th.coh ∨ ∃ (w : Nat) (wh : Thread), s.thr[w]? = some wh ∧ t ∈ wh.refs ∧ i < wh.coh :=
  (hr.wf1 hok).J i m hi hz t th ht ho

theorem J_of {c : Cfg} {hs : List Nat} {s : State} (hok : ShapeOk c) (hr : Reachable c hs s)
    {t : Nat} {th : Thread} (ht : s.thr[t]? = some th) (ho : 1 ≤ owned th)
    (hnp : pinned s t = false)
    {i : Nat} {m : Msg} (hi : s.hist[i]? = some m) (hc : th.coh ≤ i) : 1 ≤ m.val := by
  rcases Nat.eq_zero_or_pos m.val with hz | hz
  · rcases J_lent_of hok hr hi hz ht ho with h1 | ⟨w, wh, hw, hm, _⟩
    · omega
    · exact absurd hm (not_mem_of_not_pinned hnp hw)
  · exact hz

/-- A borrowed reference never dangles: its lender still holds a handle and nothing is freed. -/
theorem lent_alive_of {c : Cfg} {hs : List Nat} {s : State} (hok : ShapeOk c) (hr : Reachable c hs s)
    {w : Nat} {wh : Thread} (hw : s.thr[w]? = some wh) {u : Nat} (hu : u ∈ wh.refs) :
    (∃ uh, s.thr[u]? = some uh ∧ 1 ≤ uh.handles) ∧ s.freed = 0 := by
  refine ⟨(hr.wf1 hok).Rf w wh u hw hu, ?_⟩
  have hne : wh.refs ≠ [] := by intro e; rw [e] at hu; simp at hu
  exact ((hr.wf1 hok).user_facts hw (Or.inr hne)).1

theorem unique_sound_of {c : Cfg} {hs : List Nat} {s : State} (hok : ShapeOk c)
    (hr : Reachable c hs s) {t : Nat} {th : Thread} (ht : s.thr[t]? = some th)
    {k : Kont} {code : List AStep} {old : Nat} (hpc : th.pc = some ⟨k, code, old⟩)
    (hk : k = .mutate ∨ k = .unwrap) (hret : localRet code = some (.bool true)) :
    total s = 1 ∧ th.handles = 1 ∧ s.freed = 0 ∧
      (∀ (u : Nat) uh, u ≠ t → s.thr[u]? = some uh → owned uh = 0) ∧
      (∀ (u : Nat) uh, s.thr[u]? = some uh → uh.refs = []) := by
  have hx : excl th = true := by
    rcases hk with rfl | rfl <;> simp [excl, hpc, hret]
  obtain ⟨h1, h2, h3⟩ := (hr.wf1 hok).X t th ht hx
  have hown : owned th = 1 := by
    rw [h2]; rcases hk with rfl | rfl <;> simp [exclOwn, hpc]
  have hh : th.handles = 1 := by
    rcases hk with rfl | rfl <;> simpa [owned, inflight, hpc] using hown
  refine ⟨?_, hh, h3, fun u uh hu huh => (h1 u uh hu huh).1,
    fun u uh huh => (hr.wf1 hok).excl_no_refs ht hx huh⟩
  unfold total
  rw [sum_eq_of_others_zero (s.thr.map owned) t (owned th) (by simp [ht])]
  · exact hown
  · intro u y hu hy
    simp only [List.getElem?_map, Option.map_eq_some_iff] at hy
    obtain ⟨uh, huh, rfl⟩ := hy
    exact (h1 u uh hu huh).1

theorem freed_once_of {c : Cfg} {hs : List Nat} {s : State} (hok : ShapeOk c)
    (hr : Reachable c hs s) : s.freed ≤ 1 := (hr.wf1 hok).Fz.1

theorem all_dropped_freed_of {c : Cfg} {hs : List Nat} {s : State} (hok : ShapeOk c)
    (hr : Reachable c hs s) (h0 : total s = 0)
    (hidle : ∀ (t : Nat) th, s.thr[t]? = some th → th.pc = none) : s.freed = 1 := by
  rcases (hr.wf1 hok).L h0 with hf | ⟨t, th, ht, hx⟩
  · exact hf
  · simp [excl, hidle t th ht] at hx

/-! ## Happens-before half (needs the ordering conditions too) -/

theorem K_of {c : Cfg} {hs : List Nat} {s : State} (hok : ProtoOk c) (hr : Reachable c hs s)
    (hf : s.freed = 0) {u : Nat} {uh : Thread} (hu : s.thr[u]? = some uh) (ho : owned uh = 0)
    (hrf : uh.refs = []) (hx : excl uh = false) :
    vat s.acc u ≤ vat s.last.rel u ∨
    ∃ (t : Nat) (th : Thread), s.thr[t]? = some th ∧ 1 ≤ owned th ∧ vat s.acc u ≤ vat th.view u :=
  (hr.wf2 hok).K hf u uh hu ho hrf hx

theorem race_free_of {c : Cfg} {hs : List Nat} {s : State} (hok : ProtoOk c)
    (hr : Reachable c hs s) : s.race = false := (hr.wf2 hok).race

theorem no_access_after_free_of {c : Cfg} {hs : List Nat} {s : State} (hok : ProtoOk c)
    (hr : Reachable c hs s) :
    s.uaf = false ∧ (s.freed = 1 → ∀ (t : Nat) th, s.thr[t]? = some th → owned th = 0 ∧ excl th = false) :=
  ⟨(hr.wf2 hok).uaf, (hr.wf1 hok.shapeOk).Fz.2⟩

theorem run_append (c : Cfg) (a : State) (ls ls' : List Label) :
    run c a (ls ++ ls') = (run c a ls).bind fun b => run c b ls' := by
  induction ls generalizing a with
  | nil => simp [run]
  | cons l ls ih =>
    simp only [run, List.cons_append]
    cases step c a l with
    | none => simp
    | some a1 => exact ih a1

theorem Reachable.step {c : Cfg} {hs : List Nat} {s s' : State} (hr : Reachable c hs s) (l : Label)
    (hstep : step c s l = some s') : Reachable c hs s' := by
  obtain ⟨h1, h2, ls, hrun⟩ := hr
  refine ⟨h1, h2, ls ++ [l], ?_⟩
  rw [run_append, hrun]
  simp [run, hstep]

theorem reads_see_last_write_of {c : Cfg} {hs : List Nat} {s s' : State} (hok : ProtoOk c)
    (hr : Reachable c hs s) {t : Nat} (hstep : step c s (.start t .read) = some s') :
    ∃ th th', s.thr[t]? = some th ∧ s'.thr[t]? = some th' ∧ th'.res = th.res ++ [s.pval] ∧
      (∀ u : Nat, vat s.wr u ≤ vat th.view u) ∧ s'.race = false := by
  have hrace := race_free_of hok (hr.step _ hstep)
  simp only [step, startStep] at hstep
  split at hstep
  · simp at hstep
  rename_i th ht
  split at hstep
  · simp at hstep
  split at hstep
  · rename_i hcan
    simp only [Option.some.injEq] at hstep
    refine ⟨th, { tick th t with res := th.res ++ [s.pval] }, ht, ?_, rfl, ?_, hrace⟩
    · subst hstep; exact get_set_self ht
    · refine (hr.wf2 hok).R t th ht ?_
      rcases canUse_iff.1 hcan with h' | h'
      · exact Or.inl (by simp [owned]; omega)
      · exact Or.inr h'
  · simp at hstep

end HipVerif.Model.Conc
