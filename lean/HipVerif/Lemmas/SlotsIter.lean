/-
`Drain` / `IntoIter` as iterator states: the ownership invariant along every pull (`next`,
`next_back`, `nth`, `nth_back`) and every consuming provided method (`last`, `count`, `fold`,
`rfold` — std's default loops over `next`/`next_back`), for every fault position; `drainOp_own`,
`iIntoIter_own`.  Second half: without an armed fault none of them panics or touches the vector
(`*_quiet`), which is what the refinement to the list model needs.
-/
import HipVerif.Lemmas.SlotsShift
namespace HipVerif.Slots

variable {fl : Bool}

/-- The iterator `c` over the slot array of `s` (whose vector has been given the length `n` for
the time of the iteration): the cursor range `[lo, hi)` holds ids `M`, owned by the iterator next
to `loc`. -/
def CurOwn (fl : Bool) (n : Nat) (c : Cur) (s : St) (loc locB : List Nat) : Prop :=
  ∃ A M C, s.v.slots = A ++ M.map .init ++ C ∧ c.lo = A.length ∧ c.hi = A.length + M.length ∧
    OwnL fl (s.setLen n) (M ++ loc) locB

/-- what a pull / a consuming method returns: the vector untouched, the cursor still owning its
range, and no panic under the no-leak flag (no fault armed) -/
def CurRes (fl : Bool) (n : Nat) (s : St) (loc locB : List Nat) (r : Bool × Cur × St) : Prop :=
  r.2.2.v = s.v ∧ CurOwn fl n r.2.1 r.2.2 loc locB ∧ (fl = true → r.1 = false)

theorem CurRes.trans {n s s0 loc locB r} (h : CurRes fl n s loc locB r) (hv : s.v = s0.v) :
    CurRes fl n s0 loc locB r :=
  ⟨h.1.trans hv, h.2.1, h.2.2⟩

theorem CurOwn.budget_none {n c s loc locB} (h : CurOwn fl n c s loc locB) (hf : fl = true) :
    s.mem.budget = none := by
  obtain ⟨_, _, _, _, _, _, h⟩ := h
  exact h.budget_none hf

/-- a step that only touches `mem` -/
theorem CurOwn.step {n c s s' loc loc' locB} (h : CurOwn fl n c s loc locB) (hv : s'.v = s.v)
    (hs : ∀ M, OwnL fl (s.setLen n) (M ++ loc) locB → OwnL fl (s'.setLen n) (M ++ loc') locB) :
    CurOwn fl n c s' loc' locB := by
  obtain ⟨A, M, C, e1, e2, e3, e4⟩ := h
  exact ⟨A, M, C, by rw [hv]; exact e1, e2, e3, hs M e4⟩

theorem CurOwn.dropId {n c s a loc locB} (h : CurOwn fl n c s (a :: loc) locB) :
    CurOwn fl n c (s.onMem (Mem.dropId a)).2 loc locB :=
  h.step rfl (fun M hx => OwnL.dropId (s := s.setLen n) (hx.perm (by perm_tac)))

theorem CurOwn.retId {n c s a loc locB} (h : CurOwn fl n c s (a :: loc) locB) :
    CurOwn fl n c (s.withMem (Mem.retId a)) loc locB :=
  h.step rfl (fun M hx => OwnL.retId (s := s.setLen n) (hx.perm (by perm_tac)))

theorem CurOwn.tick {n c s loc locB} (h : CurOwn fl n c s loc locB) :
    CurOwn fl n c (s.onMem Mem.tick).2 loc locB :=
  h.step rfl (fun _ hx => OwnL.tick (s := s.setLen n) hx)

theorem CurOwn.leak1 {n c s a loc locB} (h : CurOwn fl n c s (a :: loc) locB)
    (hnf : fl = true → False) : CurOwn fl n c s loc locB :=
  h.step rfl (fun M hx => OwnL.leak (loc' := [a]) (hx.perm (by perm_tac)) hnf)

theorem CurOwn.permLoc {n c s loc loc' locB} (h : CurOwn fl n c s loc locB)
    (hp : loc'.Perm loc) : CurOwn fl n c s loc' locB :=
  h.step rfl (fun M hx => hx.perm (List.Perm.append_left M hp))

/-- `next`: the slot at `lo` holds an id that now belongs to whoever pulled it -/
theorem CurOwn.front {n c s loc locB} (h : CurOwn fl n c s loc locB) (hlt : c.lo < c.hi) :
    ∃ a, s.v.get c.lo = .init a ∧ CurOwn fl n { c with lo := c.lo + 1 } s (a :: loc) locB := by
  obtain ⟨A, M, C, e1, e2, e3, e4⟩ := h
  cases M with
  | nil => simp at e3; omega
  | cons a M =>
    refine ⟨a, Vec.get_mid (A := A) (C := M.map .init ++ C) (by simp [e1]) e2,
      A ++ [.init a], M, C, by simp [e1], by simp [e2], by simp at e3 ⊢; omega, ?_⟩
    exact e4.perm (by perm_tac)

/-- `next_back` -/
theorem CurOwn.back {n c s loc locB} (h : CurOwn fl n c s loc locB) (hlt : c.lo < c.hi) :
    ∃ a, s.v.get (c.hi - 1) = .init a ∧
      CurOwn fl n { c with hi := c.hi - 1 } s (a :: loc) locB := by
  obtain ⟨A, M, C, e1, e2, e3, e4⟩ := h
  rcases eq_nil_or_snoc M with rfl | ⟨M0, z, rfl⟩
  · simp at e3; omega
  · refine ⟨z, Vec.get_mid (A := A ++ M0.map .init) (C := C) (by simp [e1])
        (by simp at e3 ⊢; omega),
      A, M0, .init z :: C, by simp [e1], e2, by simp at e3 ⊢; omega, ?_⟩
    exact e4.perm (by perm_tac)

/-- the unread range, as the iterator's `Drop` sees it -/
theorem CurOwn.range {n c s loc locB} (h : CurOwn fl n c s loc locB) :
    ∃ M, s.v.range c.lo c.hi = M.map .init ∧ OwnL fl (s.setLen n) (M ++ loc) locB := by
  obtain ⟨A, M, C, e1, e2, e3, e4⟩ := h
  exact ⟨M, Vec.range_mid e1 e2 (by simpa using e3), e4⟩

theorem St.onMem_readMove_init (a : Nat) (s : St) :
    s.onMem (Mem.readMove (.init a)) = (a, s) := rfl

theorem frontStep_own {n c s loc locB} (h : CurOwn fl n c s loc locB) :
    (frontStep c s).2.v = s.v ∧ CurOwn fl n (frontStep c s).1 (frontStep c s).2 loc locB := by
  unfold frontStep
  by_cases hlt : c.lo < c.hi
  · rw [if_pos hlt]
    obtain ⟨a, hg, h1⟩ := h.front hlt
    rw [hg, St.onMem_readMove_init]
    exact ⟨rfl, h1.retId⟩
  · rw [if_neg hlt]; exact ⟨rfl, h⟩

theorem backStep_own {n c s loc locB} (h : CurOwn fl n c s loc locB) :
    (backStep c s).2.v = s.v ∧ CurOwn fl n (backStep c s).1 (backStep c s).2 loc locB := by
  unfold backStep
  by_cases hlt : c.lo < c.hi
  · rw [if_pos hlt]
    obtain ⟨a, hg, h1⟩ := h.back hlt
    rw [hg, St.onMem_readMove_init]
    exact ⟨rfl, h1.retId⟩
  · rw [if_neg hlt]; exact ⟨rfl, h⟩

/-- `advance_by`: every skipped item is dropped exactly once, also when one of the drops panics
(the cursor has already passed it) -/
theorem skipFront_own {n loc locB} : ∀ (k : Nat) (c : Cur) (s : St), CurOwn fl n c s loc locB →
    CurRes fl n s loc locB (skipFront k c s)
  | 0, _, _, h => ⟨rfl, h, fun _ => rfl⟩
  | k + 1, c, s, h => by
    unfold skipFront
    by_cases hlt : c.lo < c.hi
    · rw [if_pos hlt]
      obtain ⟨a, hg, h1⟩ := h.front hlt
      rw [hg, St.onMem_readMove_init]
      dsimp only
      have h2 := h1.dropId
      have hv : (s.onMem (Mem.dropId a)).2.v = s.v := rfl
      have hp0 : fl = true → (s.onMem (Mem.dropId a)).1 = false :=
        fun hf => Mem.dropId_of_none (h1.budget_none hf)
      generalize s.onMem (Mem.dropId a) = r at h2 hv hp0 ⊢
      obtain ⟨p, s2⟩ := r
      simp only at h2 hv hp0 ⊢
      cases p with
      | true => exact ⟨hv, h2, hp0⟩
      | false => exact (skipFront_own k _ s2 h2).trans hv
    · rw [if_neg hlt]; exact ⟨rfl, h, fun _ => rfl⟩

/-- `advance_back_by` -/
theorem skipBack_own {n loc locB} : ∀ (k : Nat) (c : Cur) (s : St), CurOwn fl n c s loc locB →
    CurRes fl n s loc locB (skipBack k c s)
  | 0, _, _, h => ⟨rfl, h, fun _ => rfl⟩
  | k + 1, c, s, h => by
    unfold skipBack
    by_cases hlt : c.lo < c.hi
    · rw [if_pos hlt]
      obtain ⟨a, hg, h1⟩ := h.back hlt
      rw [hg, St.onMem_readMove_init]
      dsimp only
      have h2 := h1.dropId
      have hv : (s.onMem (Mem.dropId a)).2.v = s.v := rfl
      have hp0 : fl = true → (s.onMem (Mem.dropId a)).1 = false :=
        fun hf => Mem.dropId_of_none (h1.budget_none hf)
      generalize s.onMem (Mem.dropId a) = r at h2 hv hp0 ⊢
      obtain ⟨p, s2⟩ := r
      simp only at h2 hv hp0 ⊢
      cases p with
      | true => exact ⟨hv, h2, hp0⟩
      | false => exact (skipBack_own k _ s2 h2).trans hv
    · rw [if_neg hlt]; exact ⟨rfl, h, fun _ => rfl⟩

/-- Scripts of pulls of `Drain`/`IntoIter`: each pull hands one id to the caller, each skipped
item is dropped; the slots are never written. -/
theorem iterSteps_own {n loc locB} : ∀ (script : List IStep) (c : Cur) (s : St),
    CurOwn fl n c s loc locB → CurRes fl n s loc locB (iterSteps script c s)
  | [], _, _, h => ⟨rfl, h, fun _ => rfl⟩
  | .front :: r, c, s, h => by
    unfold iterSteps
    obtain ⟨hv, h1⟩ := frontStep_own h
    generalize frontStep c s = q at hv h1 ⊢
    obtain ⟨c1, s1⟩ := q
    exact (iterSteps_own r c1 s1 h1).trans hv
  | .back :: r, c, s, h => by
    unfold iterSteps
    obtain ⟨hv, h1⟩ := backStep_own h
    generalize backStep c s = q at hv h1 ⊢
    obtain ⟨c1, s1⟩ := q
    exact (iterSteps_own r c1 s1 h1).trans hv
  | .nth k :: r, c, s, h => by
    unfold iterSteps
    obtain ⟨hv, h1, hp⟩ := skipFront_own k c s h
    generalize skipFront k c s = q at hv h1 hp ⊢
    obtain ⟨p, c1, s1⟩ := q
    simp only at hv h1 hp ⊢
    cases p with
    | true => exact ⟨hv, h1, hp⟩
    | false =>
      simp only
      obtain ⟨hv2, h2⟩ := frontStep_own h1
      generalize frontStep c1 s1 = q at hv2 h2 ⊢
      obtain ⟨c2, s2⟩ := q
      exact (iterSteps_own r c2 s2 h2).trans (hv2.trans hv)
  | .nthBack k :: r, c, s, h => by
    unfold iterSteps
    obtain ⟨hv, h1, hp⟩ := skipBack_own k c s h
    generalize skipBack k c s = q at hv h1 hp ⊢
    obtain ⟨p, c1, s1⟩ := q
    simp only at hv h1 hp ⊢
    cases p with
    | true => exact ⟨hv, h1, hp⟩
    | false =>
      simp only
      obtain ⟨hv2, h2⟩ := backStep_own h1
      generalize backStep c1 s1 = q at hv2 h2 ⊢
      obtain ⟨c2, s2⟩ := q
      exact (iterSteps_own r c2 s2 h2).trans (hv2.trans hv)

/-- `fold`/`for_each` with a user closure: an item is either kept by the closure (handed out) or,
when the closure panics, dropped by the unwinding — once. -/
theorem foldFront_own {n loc locB} : ∀ (k : Nat) (c : Cur) (s : St), CurOwn fl n c s loc locB →
    CurRes fl n s loc locB (foldFront k c s)
  | 0, _, _, h => ⟨rfl, h, fun _ => rfl⟩
  | k + 1, c, s, h => by
    unfold foldFront
    by_cases hlt : c.lo < c.hi
    · rw [if_pos hlt]
      obtain ⟨a, hg, h1⟩ := h.front hlt
      rw [hg, St.onMem_readMove_init]
      dsimp only
      have h2 := h1.tick
      have hv : (s.onMem Mem.tick).2.v = s.v := rfl
      have hp0 : fl = true → (s.onMem Mem.tick).1 = false :=
        fun hf => (Mem.tick_of_none (h1.budget_none hf)).1
      generalize s.onMem Mem.tick = r at h2 hv hp0 ⊢
      obtain ⟨p, s2⟩ := r
      simp only at h2 hv hp0 ⊢
      cases p with
      | true => exact ⟨hv, h2.dropId, hp0⟩
      | false => exact (foldFront_own k _ _ h2.retId).trans hv
    · rw [if_neg hlt]; exact ⟨rfl, h, fun _ => rfl⟩

/-- `rfold` -/
theorem foldBack_own {n loc locB} : ∀ (k : Nat) (c : Cur) (s : St), CurOwn fl n c s loc locB →
    CurRes fl n s loc locB (foldBack k c s)
  | 0, _, _, h => ⟨rfl, h, fun _ => rfl⟩
  | k + 1, c, s, h => by
    unfold foldBack
    by_cases hlt : c.lo < c.hi
    · rw [if_pos hlt]
      obtain ⟨a, hg, h1⟩ := h.back hlt
      rw [hg, St.onMem_readMove_init]
      dsimp only
      have h2 := h1.tick
      have hv : (s.onMem Mem.tick).2.v = s.v := rfl
      have hp0 : fl = true → (s.onMem Mem.tick).1 = false :=
        fun hf => (Mem.tick_of_none (h1.budget_none hf)).1
      generalize s.onMem Mem.tick = r at h2 hv hp0 ⊢
      obtain ⟨p, s2⟩ := r
      simp only at h2 hv hp0 ⊢
      cases p with
      | true => exact ⟨hv, h2.dropId, hp0⟩
      | false => exact (foldBack_own k _ _ h2.retId).trans hv
    · rw [if_neg hlt]; exact ⟨rfl, h, fun _ => rfl⟩

/-- `count()` -/
theorem countFront_own {n loc locB} : ∀ (k : Nat) (c : Cur) (s : St), CurOwn fl n c s loc locB →
    CurRes fl n s loc locB (countFront k c s)
  | 0, _, _, h => ⟨rfl, h, fun _ => rfl⟩
  | k + 1, c, s, h => by
    unfold countFront
    by_cases hlt : c.lo < c.hi
    · rw [if_pos hlt]
      obtain ⟨a, hg, h1⟩ := h.front hlt
      rw [hg, St.onMem_readMove_init]
      dsimp only
      have h2 := h1.dropId
      have hv : (s.onMem (Mem.dropId a)).2.v = s.v := rfl
      have hp0 : fl = true → (s.onMem (Mem.dropId a)).1 = false :=
        fun hf => Mem.dropId_of_none (h1.budget_none hf)
      generalize s.onMem (Mem.dropId a) = r at h2 hv hp0 ⊢
      obtain ⟨p, s2⟩ := r
      simp only at h2 hv hp0 ⊢
      cases p with
      | true => exact ⟨hv, h2, hp0⟩
      | false => exact (countFront_own k _ s2 h2).trans hv
    · rw [if_neg hlt]; exact ⟨rfl, h, fun _ => rfl⟩

/-- `last()`: the accumulator is owned next to the range; a panicking drop of the previous
accumulator leaks the new one (never under the no-leak flag: nothing panics there) -/
theorem lastFront_own {n loc locB} : ∀ (k : Nat) (prev : Option Nat) (c : Cur) (s : St),
    CurOwn fl n c s (prev.toList ++ loc) locB →
    (lastFront k prev c s).2.2.2.v = s.v ∧
      CurOwn fl n (lastFront k prev c s).2.2.1 (lastFront k prev c s).2.2.2
        ((lastFront k prev c s).2.1.toList ++ loc) locB ∧
      (fl = true → (lastFront k prev c s).1 = false)
  | 0, _, _, _, h => ⟨rfl, h, fun _ => rfl⟩
  | k + 1, prev, c, s, h => by
    unfold lastFront
    by_cases hlt : c.lo < c.hi
    · rw [if_pos hlt]
      obtain ⟨a, hg, h1⟩ := h.front hlt
      rw [hg, St.onMem_readMove_init]
      dsimp only
      cases prev with
      | none => exact lastFront_own k (some a) _ s (by simpa using h1)
      | some y =>
        simp only
        have h1' : CurOwn fl n { c with lo := c.lo + 1 } s (y :: a :: loc) locB :=
          h1.permLoc (by simp only [Option.toList]; perm_tac)
        have h2 := h1'.dropId
        have hv : (s.onMem (Mem.dropId y)).2.v = s.v := rfl
        have hp0 : fl = true → (s.onMem (Mem.dropId y)).1 = false :=
          fun hf => Mem.dropId_of_none (h1.budget_none hf)
        generalize s.onMem (Mem.dropId y) = r at h2 hv hp0 ⊢
        obtain ⟨p, s2⟩ := r
        simp only at h2 hv hp0 ⊢
        cases p with
        | true =>
          exact ⟨hv, by simpa using h2.leak1 (fun hf => by have := hp0 hf; cases this), hp0⟩
        | false =>
          obtain ⟨q1, q2, q3⟩ := lastFront_own k (some a) _ s2 (by simpa using h2)
          exact ⟨q1.trans hv, q2, q3⟩
    · rw [if_neg hlt]; exact ⟨rfl, h, fun _ => rfl⟩

/-- Every consuming provided method keeps the iterator's ownership: what it pulls is dropped or
handed out exactly once, what it leaves is still owned by the cursor (for the iterator's `Drop`). -/
theorem consume_own {n loc locB} (fin : IFin) {c : Cur} {s : St} (h : CurOwn fl n c s loc locB) :
    CurRes fl n s loc locB (consume fin c s) := by
  cases fin with
  | drop => exact ⟨rfl, h, fun _ => rfl⟩
  | leak => exact ⟨rfl, h, fun _ => rfl⟩
  | fold => exact foldFront_own _ c s h
  | rfold => exact foldBack_own _ c s h
  | count => exact countFront_own _ c s h
  | last =>
    simp only [consume]
    obtain ⟨q1, q2, q3⟩ := lastFront_own (c.hi - c.lo) none c s (by simpa using h)
    generalize lastFront (c.hi - c.lo) none c s = r at q1 q2 q3 ⊢
    obtain ⟨p, acc, c1, s1⟩ := r
    simp only at q1 q2 q3 ⊢
    cases p with
    | true =>
      cases acc with
      | none => exact ⟨q1, by simpa using q2, q3⟩
      | some a =>
        have h2 : CurOwn fl n c1 s1 (a :: loc) locB := by simpa using q2
        exact ⟨q1, h2.leak1 (fun hf => by have := q3 hf; cases this), q3⟩
    | false =>
      cases acc with
      | none => exact ⟨q1, by simpa using q2, fun _ => rfl⟩
      | some a =>
        have h2 : CurOwn fl n c1 s1 (a :: loc) locB := by simpa using q2
        exact ⟨q1, h2.retId, fun _ => rfl⟩

theorem St.setLen_self {s : St} {n : Nat} (h : s.v.len = n) : s.setLen n = s := by
  obtain ⟨m, v⟩ := s
  obtain ⟨sl, l, hd⟩ := v
  simp only at h
  subst h
  rfl

/-- `drain(a..b)` with any script and any way of consuming / dropping / forgetting the iterator,
any fault position: the invariant holds afterwards.  Only `mem::forget` leaks. -/
theorem drainOp_own {s loc locB} (a b : Nat) (script : List IStep) (fin : IFin)
    (h : OwnL fl s loc locB) (hfin : fl = true → fin ≠ .leak) :
    OwnL fl (drainOp a b script fin s).2 loc locB := by
  unfold drainOp
  split
  · rename_i hab
    obtain ⟨L1, M, T, rest, e1, e2, e3, e4, hp, ha⟩ := h.split3 hab.1 hab.2
    have hle := h.len_le
    have h0 : OwnL fl (s.setLen a) (M ++ (T ++ loc)) locB :=
      ⟨L1, M.map .init ++ (T.map .init ++ rest), by simp [e1], by simp [e4], hp, ha⟩
    have hc0 : CurOwn fl a { lo := a, hi := b } (s.setLen a) (T ++ loc) locB :=
      ⟨L1.map .init, M, T.map .init ++ rest, by simp [e4], by simp [e1],
        by simp [e1, e2]; omega, h0⟩
    -- what `Drain::drop` achieves from any cursor state reached on the way
    have key : ∀ (c : Cur) (s1 : St), s1.v = (s.setLen a).v →
        CurOwn fl a c s1 (T ++ loc) locB →
        OwnL fl (drainDrop c b (s.v.len - b) s1).2 loc locB := by
      intro c s1 hv1 hc
      obtain ⟨M', hr, ho⟩ := hc.range
      have hlen1 : s1.v.len = a := by rw [hv1]; rfl
      rw [St.setLen_self hlen1] at ho
      obtain ⟨L, rest', g1, g2, g3, g4⟩ := ho
      have hs1 : s1.v.slots = L1.map .init ++ M.map .init ++ (T.map .init ++ rest) := by
        rw [hv1]; simp [e4]
      have hL : L = L1 := by
        have h5 : L.map Slot.init = (L1.map Slot.init) := by
          have := congrArg (List.take L1.length) (g2.symm.trans hs1)
          rw [hlen1, ← e1] at g1
          simpa [List.take_append, ← g1] using this
        exact map_init_inj h5
      subst hL
      exact drainDrop_own (L1 := L) (M' := M') (T := T) (G := M.map .init) (rest := rest) hs1
        (by rw [hlen1, e1]) hr (by simp only [List.length_map, e1, e2]; omega) (by omega) g3 g4
    obtain ⟨f1, f2, f3⟩ := iterSteps_own script { lo := a, hi := b } (s.setLen a) hc0
    dsimp only
    generalize iterSteps script { lo := a, hi := b } (s.setLen a) = r at f1 f2 f3 ⊢
    obtain ⟨p, c, s1⟩ := r
    simp only at f1 f2 f3 ⊢
    cases p with
    | true => exact key c s1 f1 f2
    | false =>
      simp only [Bool.false_eq_true, if_false]
      have hcons : ∀ fin : IFin,
          OwnL fl (drainDrop (consume fin c s1).2.1 b (s.v.len - b) (consume fin c s1).2.2).2
            loc locB := fun fin => by
        obtain ⟨k1, k2, -⟩ := consume_own (n := a) fin f2
        exact key _ _ (k1.trans f1) k2
      cases fin with
      | leak =>
        have hnf : fl = true → False := fun hf => hfin hf rfl
        obtain ⟨M', -, ho⟩ := f2.range
        have hlen1 : s1.v.len = a := by rw [f1]; rfl
        rw [St.setLen_self hlen1] at ho
        exact (ho.leak hnf).leak hnf
      | drop => exact hcons .drop
      | last => exact hcons .last
      | count => exact hcons .count
      | fold => exact hcons .fold
      | rfold => exact hcons .rfold
  · exact h

/-- `into_iter` with any script and any way of consuming / dropping / forgetting the iterator, any
fault position. -/
theorem iIntoIter_own {s loc locB} (script : List IStep) (fin : IFin) (h : OwnL fl s loc locB)
    (hfin : fl = true → fin ≠ .leak) (hth : fl = true → s.v.h.thin = false) :
    OwnL fl (iIntoIter script fin s).2 loc locB := by
  unfold iIntoIter
  obtain ⟨L, e1, e2⟩ := h.take_all
  obtain ⟨L0, rest, g1, g2, -, -⟩ := h
  have hL : L = L0 := by
    have := Vec.range_mid (v := s.v) (A := []) (B := L0.map .init) (C := rest) (a := 0)
      (b := s.v.len) (by simp [g2]) rfl (by simp [g1])
    exact map_init_inj (e1.symm.trans this)
  subst hL
  have hc0 : CurOwn fl 0 { lo := 0, hi := s.v.len } s loc locB :=
    ⟨[], L, rest, by simp [g2], rfl, by simp [g1], e2⟩
  -- whatever is left in the cursor range is dropped (by a loop or by the unwinding), then the
  -- variable is a fresh `InlineVec::new()`
  have fin_loop : ∀ (c : Cur) (s1 : St), s1.v = s.v → CurOwn fl 0 c s1 loc locB →
      OwnL fl { (s1.onMem (Mem.dropLoop (s1.v.range c.lo c.hi))).2 with v := iNew s1.v.cap }
        loc locB := by
    intro c s1 hv1 hc
    obtain ⟨M', hr, ho⟩ := hc.range
    rw [hr]
    exact ho.dropLoop.renew s1.v.cap
      (fun hf => ⟨rfl, prefL_of_not_thin (by simpa [hv1] using hth hf)⟩)
  have fin_slice : ∀ (c : Cur) (s1 : St), s1.v = s.v → CurOwn fl 0 c s1 loc locB →
      OwnL fl { (s1.onMem (Mem.dropSlice (s1.v.range c.lo c.hi))).2 with v := iNew s1.v.cap }
        loc locB := by
    intro c s1 hv1 hc
    obtain ⟨M', hr, ho⟩ := hc.range
    rw [hr]
    exact ho.dropSlice.renew s1.v.cap
      (fun hf => ⟨rfl, prefL_of_not_thin (by simpa [hv1] using hth hf)⟩)
  obtain ⟨f1, f2, f3⟩ := iterSteps_own script { lo := 0, hi := s.v.len } s hc0
  dsimp only
  generalize iterSteps script { lo := 0, hi := s.v.len } s = r at f1 f2 f3 ⊢
  obtain ⟨p, c, s1⟩ := r
  simp only at f1 f2 f3 ⊢
  cases p with
  | true => exact fin_slice c s1 f1 f2
  | false =>
    simp only [Bool.false_eq_true, if_false]
    have hcons : ∀ fin : IFin,
        OwnL fl
          { (if (consume fin c s1).1 = true then
              (true, (St.onMem (Mem.dropSlice ((consume fin c s1).2.2.v.range
                (consume fin c s1).2.1.lo (consume fin c s1).2.1.hi)) (consume fin c s1).2.2).2)
            else
              St.onMem (Mem.dropLoop ((consume fin c s1).2.2.v.range
                (consume fin c s1).2.1.lo (consume fin c s1).2.1.hi)) (consume fin c s1).2.2).2 with
            v := iNew (if (consume fin c s1).1 = true then
              (true, (St.onMem (Mem.dropSlice ((consume fin c s1).2.2.v.range
                (consume fin c s1).2.1.lo (consume fin c s1).2.1.hi)) (consume fin c s1).2.2).2)
            else
              St.onMem (Mem.dropLoop ((consume fin c s1).2.2.v.range
                (consume fin c s1).2.1.lo (consume fin c s1).2.1.hi)) (consume fin c s1).2.2).2.v.cap }
          loc locB := fun fin => by
      obtain ⟨k1, k2, -⟩ := consume_own (n := 0) fin f2
      generalize consume fin c s1 = q at k1 k2 ⊢
      obtain ⟨p2, c2, s2⟩ := q
      simp only at k1 k2 ⊢
      cases p2 with
      | true => exact fin_slice c2 s2 (k1.trans f1) k2
      | false => exact fin_loop c2 s2 (k1.trans f1) k2
    cases fin with
    | leak =>
      have hnf : fl = true → False := fun hf => hfin hf rfl
      obtain ⟨M', -, ho⟩ := f2.range
      exact (ho.leak hnf).renew s1.v.cap
        (fun hf => ⟨rfl, prefL_of_not_thin (by simpa [f1] using hth hf)⟩)
    | drop => exact hcons .drop
    | last => exact hcons .last
    | count => exact hcons .count
    | fold => exact hcons .fold
    | rfold => exact hcons .rfold

/-! ### Without an armed fault -/

theorem Mem.retId_budget (a : Nat) (m : Mem) : (m.retId a).budget = m.budget := by
  unfold Mem.retId; split <;> rfl

theorem Mem.readMove_budget (x : Slot) (m : Mem) : (m.readMove x).2.budget = m.budget := by
  cases x <;> rfl

/-- no panic, the vector untouched, still no fault armed -/
def Quiet (s : St) (r : Bool × Cur × St) : Prop :=
  r.1 = false ∧ r.2.2.v = s.v ∧ r.2.2.mem.budget = none

theorem Quiet.trans {s s0 r} (h : Quiet s r) (hv : s.v = s0.v) : Quiet s0 r :=
  ⟨h.1, h.2.1.trans hv, h.2.2⟩

theorem frontStep_quiet (c : Cur) (s : St) (hb : s.mem.budget = none) :
    (frontStep c s).2.v = s.v ∧ (frontStep c s).2.mem.budget = none := by
  unfold frontStep
  split
  · refine ⟨rfl, ?_⟩
    simp only [St.withMem_mem, St.onMem_mem, St.onMem_fst]
    rw [Mem.retId_budget, Mem.readMove_budget]; exact hb
  · exact ⟨rfl, hb⟩

theorem backStep_quiet (c : Cur) (s : St) (hb : s.mem.budget = none) :
    (backStep c s).2.v = s.v ∧ (backStep c s).2.mem.budget = none := by
  unfold backStep
  split
  · refine ⟨rfl, ?_⟩
    simp only [St.withMem_mem, St.onMem_mem, St.onMem_fst]
    rw [Mem.retId_budget, Mem.readMove_budget]; exact hb
  · exact ⟨rfl, hb⟩

theorem skipFront_quiet : ∀ (k : Nat) (c : Cur) (s : St), s.mem.budget = none →
    Quiet s (skipFront k c s)
  | 0, _, _, hb => ⟨rfl, rfl, hb⟩
  | k + 1, c, s, hb => by
    unfold skipFront
    by_cases hlt : c.lo < c.hi
    · rw [if_pos hlt]
      have h1 : (s.onMem (Mem.readMove (s.v.get c.lo))).2.v = s.v := rfl
      have h2 : (s.onMem (Mem.readMove (s.v.get c.lo))).2.mem.budget = none := by
        rw [St.onMem_mem, Mem.readMove_budget]; exact hb
      generalize s.onMem (Mem.readMove (s.v.get c.lo)) = r at h1 h2 ⊢
      obtain ⟨a, s1⟩ := r
      simp only at h1 h2 ⊢
      have h3 : (s1.onMem (Mem.dropId a)).1 = false := Mem.dropId_of_none h2
      have h4 : (s1.onMem (Mem.dropId a)).2.v = s1.v := rfl
      have h5 : (s1.onMem (Mem.dropId a)).2.mem.budget = none := Mem.dropId_budget_of_none h2
      generalize s1.onMem (Mem.dropId a) = r at h3 h4 h5 ⊢
      obtain ⟨p, s2⟩ := r
      simp only at h3 h4 h5 ⊢
      subst h3
      exact (skipFront_quiet k _ s2 h5).trans (h4.trans h1)
    · rw [if_neg hlt]; exact ⟨rfl, rfl, hb⟩

theorem skipBack_quiet : ∀ (k : Nat) (c : Cur) (s : St), s.mem.budget = none →
    Quiet s (skipBack k c s)
  | 0, _, _, hb => ⟨rfl, rfl, hb⟩
  | k + 1, c, s, hb => by
    unfold skipBack
    by_cases hlt : c.lo < c.hi
    · rw [if_pos hlt]
      have h1 : (s.onMem (Mem.readMove (s.v.get (c.hi - 1)))).2.v = s.v := rfl
      have h2 : (s.onMem (Mem.readMove (s.v.get (c.hi - 1)))).2.mem.budget = none := by
        rw [St.onMem_mem, Mem.readMove_budget]; exact hb
      generalize s.onMem (Mem.readMove (s.v.get (c.hi - 1))) = r at h1 h2 ⊢
      obtain ⟨a, s1⟩ := r
      simp only at h1 h2 ⊢
      have h3 : (s1.onMem (Mem.dropId a)).1 = false := Mem.dropId_of_none h2
      have h4 : (s1.onMem (Mem.dropId a)).2.v = s1.v := rfl
      have h5 : (s1.onMem (Mem.dropId a)).2.mem.budget = none := Mem.dropId_budget_of_none h2
      generalize s1.onMem (Mem.dropId a) = r at h3 h4 h5 ⊢
      obtain ⟨p, s2⟩ := r
      simp only at h3 h4 h5 ⊢
      subst h3
      exact (skipBack_quiet k _ s2 h5).trans (h4.trans h1)
    · rw [if_neg hlt]; exact ⟨rfl, rfl, hb⟩

/-- without an armed fault a script of pulls neither panics nor touches the vector -/
theorem iterSteps_quiet : ∀ (sc : List IStep) (c : Cur) (s : St), s.mem.budget = none →
    Quiet s (iterSteps sc c s)
  | [], _, _, hb => ⟨rfl, rfl, hb⟩
  | .front :: r, c, s, hb => by
    unfold iterSteps
    obtain ⟨h1, h2⟩ := frontStep_quiet c s hb
    generalize frontStep c s = q at h1 h2 ⊢
    obtain ⟨c1, s1⟩ := q
    exact (iterSteps_quiet r c1 s1 h2).trans h1
  | .back :: r, c, s, hb => by
    unfold iterSteps
    obtain ⟨h1, h2⟩ := backStep_quiet c s hb
    generalize backStep c s = q at h1 h2 ⊢
    obtain ⟨c1, s1⟩ := q
    exact (iterSteps_quiet r c1 s1 h2).trans h1
  | .nth k :: r, c, s, hb => by
    unfold iterSteps
    obtain ⟨h0, h1, h2⟩ := skipFront_quiet k c s hb
    generalize skipFront k c s = q at h0 h1 h2 ⊢
    obtain ⟨p, c1, s1⟩ := q
    simp only at h0 h1 h2 ⊢
    subst h0
    simp only
    obtain ⟨g1, g2⟩ := frontStep_quiet c1 s1 h2
    generalize frontStep c1 s1 = q at g1 g2 ⊢
    obtain ⟨c2, s2⟩ := q
    exact (iterSteps_quiet r c2 s2 g2).trans (g1.trans h1)
  | .nthBack k :: r, c, s, hb => by
    unfold iterSteps
    obtain ⟨h0, h1, h2⟩ := skipBack_quiet k c s hb
    generalize skipBack k c s = q at h0 h1 h2 ⊢
    obtain ⟨p, c1, s1⟩ := q
    simp only at h0 h1 h2 ⊢
    subst h0
    simp only
    obtain ⟨g1, g2⟩ := backStep_quiet c1 s1 h2
    generalize backStep c1 s1 = q at g1 g2 ⊢
    obtain ⟨c2, s2⟩ := q
    exact (iterSteps_quiet r c2 s2 g2).trans (g1.trans h1)

theorem foldFront_quiet : ∀ (k : Nat) (c : Cur) (s : St), s.mem.budget = none →
    Quiet s (foldFront k c s)
  | 0, _, _, hb => ⟨rfl, rfl, hb⟩
  | k + 1, c, s, hb => by
    unfold foldFront
    by_cases hlt : c.lo < c.hi
    · rw [if_pos hlt]
      have h1 : (s.onMem (Mem.readMove (s.v.get c.lo))).2.v = s.v := rfl
      have h2 : (s.onMem (Mem.readMove (s.v.get c.lo))).2.mem.budget = none := by
        rw [St.onMem_mem, Mem.readMove_budget]; exact hb
      generalize s.onMem (Mem.readMove (s.v.get c.lo)) = r at h1 h2 ⊢
      obtain ⟨a, s1⟩ := r
      simp only at h1 h2 ⊢
      have h3 : (s1.onMem Mem.tick).1 = false := (Mem.tick_of_none h2).1
      have h4 : (s1.onMem Mem.tick).2.v = s1.v := rfl
      have h5 : (s1.onMem Mem.tick).2.mem.budget = none := (Mem.tick_of_none h2).2
      generalize s1.onMem Mem.tick = r at h3 h4 h5 ⊢
      obtain ⟨p, s2⟩ := r
      simp only at h3 h4 h5 ⊢
      subst h3
      exact (foldFront_quiet k _ (s2.withMem (Mem.retId a))
        (by rw [St.withMem_mem, Mem.retId_budget]; exact h5)).trans (h4.trans h1)
    · rw [if_neg hlt]; exact ⟨rfl, rfl, hb⟩

theorem foldBack_quiet : ∀ (k : Nat) (c : Cur) (s : St), s.mem.budget = none →
    Quiet s (foldBack k c s)
  | 0, _, _, hb => ⟨rfl, rfl, hb⟩
  | k + 1, c, s, hb => by
    unfold foldBack
    by_cases hlt : c.lo < c.hi
    · rw [if_pos hlt]
      have h1 : (s.onMem (Mem.readMove (s.v.get (c.hi - 1)))).2.v = s.v := rfl
      have h2 : (s.onMem (Mem.readMove (s.v.get (c.hi - 1)))).2.mem.budget = none := by
        rw [St.onMem_mem, Mem.readMove_budget]; exact hb
      generalize s.onMem (Mem.readMove (s.v.get (c.hi - 1))) = r at h1 h2 ⊢
      obtain ⟨a, s1⟩ := r
      simp only at h1 h2 ⊢
      have h3 : (s1.onMem Mem.tick).1 = false := (Mem.tick_of_none h2).1
      have h4 : (s1.onMem Mem.tick).2.v = s1.v := rfl
      have h5 : (s1.onMem Mem.tick).2.mem.budget = none := (Mem.tick_of_none h2).2
      generalize s1.onMem Mem.tick = r at h3 h4 h5 ⊢
      obtain ⟨p, s2⟩ := r
      simp only at h3 h4 h5 ⊢
      subst h3
      exact (foldBack_quiet k _ (s2.withMem (Mem.retId a))
        (by rw [St.withMem_mem, Mem.retId_budget]; exact h5)).trans (h4.trans h1)
    · rw [if_neg hlt]; exact ⟨rfl, rfl, hb⟩

theorem countFront_quiet : ∀ (k : Nat) (c : Cur) (s : St), s.mem.budget = none →
    Quiet s (countFront k c s)
  | 0, _, _, hb => ⟨rfl, rfl, hb⟩
  | k + 1, c, s, hb => by
    unfold countFront
    by_cases hlt : c.lo < c.hi
    · rw [if_pos hlt]
      have h1 : (s.onMem (Mem.readMove (s.v.get c.lo))).2.v = s.v := rfl
      have h2 : (s.onMem (Mem.readMove (s.v.get c.lo))).2.mem.budget = none := by
        rw [St.onMem_mem, Mem.readMove_budget]; exact hb
      generalize s.onMem (Mem.readMove (s.v.get c.lo)) = r at h1 h2 ⊢
      obtain ⟨a, s1⟩ := r
      simp only at h1 h2 ⊢
      have h3 : (s1.onMem (Mem.dropId a)).1 = false := Mem.dropId_of_none h2
      have h4 : (s1.onMem (Mem.dropId a)).2.v = s1.v := rfl
      have h5 : (s1.onMem (Mem.dropId a)).2.mem.budget = none := Mem.dropId_budget_of_none h2
      generalize s1.onMem (Mem.dropId a) = r at h3 h4 h5 ⊢
      obtain ⟨p, s2⟩ := r
      simp only at h3 h4 h5 ⊢
      subst h3
      exact (countFront_quiet k _ s2 h5).trans (h4.trans h1)
    · rw [if_neg hlt]; exact ⟨rfl, rfl, hb⟩

theorem lastFront_quiet : ∀ (k : Nat) (prev : Option Nat) (c : Cur) (s : St),
    s.mem.budget = none →
    (lastFront k prev c s).1 = false ∧ (lastFront k prev c s).2.2.2.v = s.v ∧
      (lastFront k prev c s).2.2.2.mem.budget = none
  | 0, _, _, _, hb => ⟨rfl, rfl, hb⟩
  | k + 1, prev, c, s, hb => by
    unfold lastFront
    by_cases hlt : c.lo < c.hi
    · rw [if_pos hlt]
      have h1 : (s.onMem (Mem.readMove (s.v.get c.lo))).2.v = s.v := rfl
      have h2 : (s.onMem (Mem.readMove (s.v.get c.lo))).2.mem.budget = none := by
        rw [St.onMem_mem, Mem.readMove_budget]; exact hb
      generalize s.onMem (Mem.readMove (s.v.get c.lo)) = r at h1 h2 ⊢
      obtain ⟨a, s1⟩ := r
      simp only at h1 h2 ⊢
      cases prev with
      | none =>
        obtain ⟨q1, q2, q3⟩ := lastFront_quiet k (some a) { c with lo := c.lo + 1 } s1 h2
        exact ⟨q1, q2.trans h1, q3⟩
      | some y =>
        simp only
        have h3 : (s1.onMem (Mem.dropId y)).1 = false := Mem.dropId_of_none h2
        have h4 : (s1.onMem (Mem.dropId y)).2.v = s1.v := rfl
        have h5 : (s1.onMem (Mem.dropId y)).2.mem.budget = none := Mem.dropId_budget_of_none h2
        generalize s1.onMem (Mem.dropId y) = r at h3 h4 h5 ⊢
        obtain ⟨p, s2⟩ := r
        simp only at h3 h4 h5 ⊢
        subst h3
        obtain ⟨q1, q2, q3⟩ := lastFront_quiet k (some a) { c with lo := c.lo + 1 } s2 h5
        exact ⟨q1, q2.trans (h4.trans h1), q3⟩
    · rw [if_neg hlt]; exact ⟨rfl, rfl, hb⟩

/-- without an armed fault no consuming method panics or touches the vector -/
theorem consume_quiet (fin : IFin) (c : Cur) (s : St) (hb : s.mem.budget = none) :
    Quiet s (consume fin c s) := by
  cases fin with
  | drop => exact ⟨rfl, rfl, hb⟩
  | leak => exact ⟨rfl, rfl, hb⟩
  | fold => exact foldFront_quiet _ c s hb
  | rfold => exact foldBack_quiet _ c s hb
  | count => exact countFront_quiet _ c s hb
  | last =>
    simp only [consume]
    obtain ⟨q1, q2, q3⟩ := lastFront_quiet (c.hi - c.lo) none c s hb
    generalize lastFront (c.hi - c.lo) none c s = r at q1 q2 q3 ⊢
    obtain ⟨p, acc, c1, s1⟩ := r
    simp only at q1 q2 q3 ⊢
    subst q1
    cases acc with
    | none => exact ⟨rfl, q2, q3⟩
    | some a => exact ⟨rfl, q2, by rw [St.withMem_mem, Mem.retId_budget]; exact q3⟩

end HipVerif.Slots
