/-
Helper lemmas for the L0 slot model (C14/C15): accounting of owned ids (`Acct`), the view of a
container as a list of ids (`View`), and how the primitives act on both.
-/
import HipVerif.Model.Slots
namespace HipVerif.Slots

variable {fl : Bool}

/-! ### Accounting -/

def NoBad (m : Mem) : Prop := ∀ e ∈ m.trace, e.bad = false

/-- the id that leaves through an event: `Drop::drop` ran on it or it was handed to the caller -/
def Ev.outId : Ev → Option Nat
  | .drop a => some a
  | .ret a => some a
  | _ => none

/-- the id that an event creates -/
def Ev.newId : Ev → Option Nat
  | .mk a => some a
  | .clone _ b => some b
  | _ => none

theorem created_cons {tr : List Ev} {e0 : Ev} {n n' : Nat}
    (h : ∀ e ∈ tr, ∀ a, e.newId = some a → a < n) (h0 : ∀ a, e0.newId = some a → a < n')
    (hn : n ≤ n') : ∀ e ∈ e0 :: tr, ∀ a, e.newId = some a → a < n' := by
  intro e he a ha
  rcases List.mem_cons.mp he with rfl | he
  · exact h0 a ha
  · exact Nat.lt_of_lt_of_le (h e he a ha) hn

theorem filterMap_outId_none {e : Ev} (tr : List Ev) (h : e.outId = none) :
    (e :: tr).filterMap Ev.outId = tr.filterMap Ev.outId := by
  simp [h]

/-- `l` = ids currently owned by somebody inside the operation (container slots below `len`,
iterator ranges, locals), `B` = buffers owned. Each owned id is live (not out), known (`< next`)
and owned once; the monitor has seen no violation so far; nothing went out twice. -/
structure Acct (fl : Bool) (m : Mem) (l : List Nat) (B : List Nat) : Prop where
  nobad : NoBad m
  nodup : l.Nodup
  lt : ∀ a ∈ l, a < m.next
  notout : ∀ a ∈ l, a ∉ m.out
  outnd : m.out.Nodup
  outlt : ∀ a ∈ m.out, a < m.next
  bnodup : B.Nodup
  blive : ∀ b ∈ B, b ∈ m.bufs
  blt : ∀ b ∈ m.bufs, b < m.nextBuf
  bufsnd : m.bufs.Nodup
  /-- `out` is exactly the list of ids of the drop/return events of the trace -/
  trout : m.trace.filterMap Ev.outId = m.out
  /-- every id created by an event of the trace is below the fresh-id counter -/
  created : ∀ e ∈ m.trace, ∀ a, e.newId = some a → a < m.next
  /-- the no-leak clause, carried when the flag is set: no fault is armed and every id created so
  far is still owned or already out -/
  full : fl = true → m.budget = none ∧ ∀ a, a < m.next → a ∈ l ∨ a ∈ m.out

/-- forgetting owned ids; with the no-leak flag set nothing may actually be forgotten -/
theorem Acct.weaken {m l B l'} (h : Acct fl m l B) (hn : l'.Nodup) (hs : ∀ a ∈ l', a ∈ l)
    (hf : fl = true → ∀ a ∈ l, a ∈ l') : Acct fl m l' B :=
  { h with nodup := hn, lt := fun a ha => h.lt a (hs a ha),
           notout := fun a ha => h.notout a (hs a ha),
           full := fun hfl => ⟨(h.full hfl).1, fun a ha =>
             ((h.full hfl).2 a ha).imp (hf hfl a) id⟩ }

theorem Acct.perm {m l B l'} (h : Acct fl m l B) (hp : l'.Perm l) : Acct fl m l' B :=
  h.weaken (hp.nodup_iff.mpr h.nodup) (fun _ ha => hp.mem_iff.mp ha)
    (fun _ _ ha => hp.mem_iff.mpr ha)

/-- the no-leak flag may always be dropped -/
theorem Acct.toFalse {m l B} (h : Acct fl m l B) : Acct false m l B :=
  { h with full := fun hf => by cases hf }

theorem Acct.budget_none {m l B} (h : Acct fl m l B) (hf : fl = true) : m.budget = none :=
  (h.full hf).1

/-- owned ids may be forgotten (leaked) — not under the no-leak flag -/
theorem Acct.drop_left {m l₁ l₂ B} (h : Acct fl m (l₁ ++ l₂) B) (hnf : fl = true → False) :
    Acct fl m l₂ B :=
  h.weaken (List.nodup_append.mp h.nodup).2.1 (fun _ ha => List.mem_append_right _ ha)
    (fun hf => (hnf hf).elim)

theorem Mem.tick_of_none {m : Mem} (h : m.budget = none) :
    m.tick.1 = false ∧ m.tick.2.budget = none := by
  unfold Mem.tick; rw [h]; exact ⟨rfl, rfl⟩

theorem Acct.tick {m l B} (h : Acct fl m l B) : Acct fl m.tick.2 l B := by
  have hfull : fl = true → m.tick.2.budget = none ∧ ∀ a, a < m.tick.2.next → a ∈ l ∨ a ∈ m.tick.2.out :=
    fun hf => by
      obtain ⟨hb, hall⟩ := h.full hf
      refine ⟨(Mem.tick_of_none hb).2, ?_⟩
      unfold Mem.tick; rw [hb]; exact hall
  unfold Mem.tick at hfull ⊢
  split <;> exact { h with full := by simpa [*] using hfull }

theorem Acct.mkVal {m l B} (h : Acct fl m l B) : Acct fl m.mkVal.2 (m.mkVal.1 :: l) B := by
  have hl := h.lt
  have ho := h.outlt
  have hfull : fl = true → m.mkVal.2.budget = none ∧
      ∀ a, a < m.mkVal.2.next → a ∈ m.mkVal.1 :: l ∨ a ∈ m.mkVal.2.out := by
    intro hf
    obtain ⟨hb, hall⟩ := h.full hf
    refine ⟨hb, fun a ha => ?_⟩
    simp only [Mem.mkVal, List.mem_cons] at ha ⊢
    by_cases hlt : a < m.next
    · rcases hall a hlt with h1 | h1
      · exact Or.inl (Or.inr h1)
      · exact Or.inr h1
    · exact Or.inl (Or.inl (by omega))
  refine { h with nobad := ?_, nodup := ?_, lt := ?_, notout := ?_, outlt := ?_,
                  trout := (filterMap_outId_none _ rfl).trans h.trout, full := hfull,
                  created := created_cons h.created
                    (fun a ha => by simp only [Ev.newId, Option.some.injEq] at ha; subst ha; exact Nat.lt_succ_self _)
                    (Nat.le_succ _) }
  · intro e he
    simp [Mem.mkVal] at he
    rcases he with rfl | he
    · rfl
    · exact h.nobad e he
  · simp only [Mem.mkVal, List.nodup_cons]
    exact ⟨fun hm => Nat.lt_irrefl _ (hl _ hm), h.nodup⟩
  · intro a ha
    simp only [Mem.mkVal, List.mem_cons] at ha ⊢
    rcases ha with rfl | ha
    · omega
    · have := hl a ha; omega
  · intro a ha
    simp only [Mem.mkVal, List.mem_cons] at ha ⊢
    rcases ha with rfl | ha
    · exact fun hm => Nat.lt_irrefl _ (ho _ hm)
    · exact h.notout a ha
  · intro a ha
    simp only [Mem.mkVal] at ha ⊢
    have := ho a ha; omega

@[simp] theorem Mem.mkVal_fst (m : Mem) : m.mkVal.1 = m.next := rfl

theorem Acct.genVal {m l B} (h : Acct fl m l B) :
    match m.genVal with
    | (none, m') => Acct fl m' l B
    | (some a, m') => Acct fl m' (a :: l) B := by
  unfold Mem.genVal
  have ht := h.tick
  generalize m.tick = r at ht
  obtain ⟨p, m1⟩ := r
  cases p <;> simp
  · exact ht.mkVal
  · exact ht

theorem Acct.cloneId {m l B} (x : Nat) (h : Acct fl m l B) :
    match m.cloneId x with
    | (none, m') => Acct fl m' l B
    | (some a, m') => Acct fl m' (a :: l) B := by
  unfold Mem.cloneId
  have ht := h.tick
  generalize m.tick = r at ht
  obtain ⟨p, m1⟩ := r
  cases p <;> simp
  · have := ht.mkVal
    refine { this with nobad := ?_, trout := (filterMap_outId_none _ rfl).trans ht.trout,
                       full := this.full,
                       created := created_cons ht.created
                         (fun a ha => by simp only [Ev.newId, Option.some.injEq] at ha; subst ha; exact Nat.lt_succ_self _)
                         (Nat.le_succ _) }
    intro e he
    simp at he
    rcases he with rfl | he
    · rfl
    · exact ht.nobad e he
  · exact ht

/-- an owned id goes out (dropped or returned): no violation, it is no longer owned -/
theorem Acct.out_step {m l B a} (e : Ev) (he : e.bad = false) (ho : e.outId = some a)
    (h : Acct fl m (a :: l) B) :
    Acct fl { m with out := a :: m.out, trace := e :: m.trace } l B := by
  have hnd := List.nodup_cons.mp h.nodup
  have hfull : fl = true → m.budget = none ∧ ∀ b, b < m.next → b ∈ l ∨ b ∈ a :: m.out := by
    intro hf
    obtain ⟨hb, hall⟩ := h.full hf
    refine ⟨hb, fun b hb' => ?_⟩
    rcases hall b hb' with h1 | h1
    · simp only [List.mem_cons] at h1 ⊢
      rcases h1 with rfl | h1
      · exact Or.inr (Or.inl rfl)
      · exact Or.inl h1
    · exact Or.inr (List.mem_cons_of_mem _ h1)
  refine { h with nobad := ?_, notout := ?_, outnd := ?_, outlt := ?_,
                  nodup := hnd.2, lt := fun b hb => h.lt b (List.mem_cons_of_mem _ hb),
                  trout := by simp [ho, h.trout], full := hfull,
                  created := created_cons h.created
                    (fun b hb => by cases e <;> simp [Ev.newId, Ev.outId] at hb ho)
                    (Nat.le_refl _) }
  · intro e' he'
    simp at he'
    rcases he' with rfl | he'
    · exact he
    · exact h.nobad e' he'
  · intro b hb
    simp only [List.mem_cons, not_or]
    exact ⟨fun hba => hnd.1 (hba ▸ hb), h.notout b (List.mem_cons_of_mem _ hb)⟩
  · simp only [List.nodup_cons]
    exact ⟨h.notout a (List.mem_cons_self ..), h.outnd⟩
  · intro b hb
    simp only [List.mem_cons] at hb
    rcases hb with rfl | hb
    · exact h.lt _ (List.mem_cons_self ..)
    · exact h.outlt b hb

theorem Acct.retId {m l B a} (h : Acct fl m (a :: l) B) : Acct fl (m.retId a) l B := by
  unfold Mem.retId
  rw [if_neg (h.notout a (List.mem_cons_self ..))]
  exact h.out_step (.ret a) rfl rfl

theorem Acct.markDrop {m l B a} (h : Acct fl m (a :: l) B) : Acct fl (m.markDrop a) l B := by
  unfold Mem.markDrop
  rw [if_neg (h.notout a (List.mem_cons_self ..))]
  exact h.out_step (.drop a) rfl rfl

theorem Acct.dropId {m l B a} (h : Acct fl m (a :: l) B) : Acct fl (m.dropId a).2 l B :=
  h.markDrop.tick

theorem Mem.markDrop_budget (a : Nat) (m : Mem) : (m.markDrop a).budget = m.budget := by
  unfold Mem.markDrop; split <;> rfl

/-- without an armed fault a destructor does not panic -/
theorem Mem.dropId_of_none {a : Nat} {m : Mem} (h : m.budget = none) : (m.dropId a).1 = false :=
  (Mem.tick_of_none ((Mem.markDrop_budget a m).trans h)).1

theorem Mem.dropId_budget_of_none {a : Nat} {m : Mem} (h : m.budget = none) :
    (m.dropId a).2.budget = none :=
  (Mem.tick_of_none ((Mem.markDrop_budget a m).trans h)).2

theorem Mem.dropSlot_of_none {x : Slot} {m : Mem} (h : m.budget = none) :
    (m.dropSlot x).1 = false ∧ (m.dropSlot x).2.budget = none := by
  cases x
  · exact ⟨rfl, h⟩
  · exact ⟨Mem.dropId_of_none h, Mem.dropId_budget_of_none h⟩

/-- without an armed fault `drop_in_place` of a slice does not panic -/
theorem Mem.dropSlice_of_none : ∀ (xs : List Slot) (m : Mem), m.budget = none →
    (m.dropSlice xs).1 = false ∧ (m.dropSlice xs).2.budget = none
  | [], _, h => ⟨rfl, h⟩
  | x :: xs, m, h => by
    obtain ⟨h1, h2⟩ := Mem.dropSlot_of_none (x := x) h
    obtain ⟨h3, h4⟩ := Mem.dropSlice_of_none xs _ h2
    simp only [Mem.dropSlice, h1, h3, h4, Bool.or_self, and_self]

/-- without an armed fault a `for` loop of drops does not panic -/
theorem Mem.dropLoop_of_none : ∀ (xs : List Slot) (m : Mem), m.budget = none →
    (m.dropLoop xs).1 = false ∧ (m.dropLoop xs).2.budget = none
  | [], _, h => ⟨rfl, h⟩
  | x :: xs, m, h => by
    obtain ⟨h1, h2⟩ := Mem.dropSlot_of_none (x := x) h
    obtain ⟨h3, h4⟩ := Mem.dropLoop_of_none xs _ h2
    simp only [Mem.dropLoop, h1, Bool.false_eq_true, if_false, h3, h4, and_self]

theorem Acct.markDrops {m B} : ∀ {as l}, Acct fl m (as ++ l) B → Acct fl (m.markDrops as) l B
  | [], _, h => h
  | a :: as, l, h => by
    simp only [Mem.markDrops]
    exact Acct.markDrops (as := as) h.markDrop

theorem Acct.markDropSlots {m B} :
    ∀ {as l}, Acct fl m (as ++ l) B → Acct fl (m.markDropSlots (as.map .init)) l B
  | [], _, h => h
  | a :: as, l, h => by
    simp only [List.map_cons, Mem.markDropSlots]
    exact Acct.markDropSlots (as := as) h.markDrop

theorem Mem.dropLoop_cons_init (a : Nat) (xs : List Slot) (m : Mem) :
    Mem.dropLoop (.init a :: xs) m =
      if (m.dropId a).1 = true then (true, (m.dropId a).2) else Mem.dropLoop xs (m.dropId a).2 := rfl

theorem Mem.dropSlice_cons_init (a : Nat) (xs : List Slot) (m : Mem) :
    Mem.dropSlice (.init a :: xs) m =
      ((m.dropId a).1 || (Mem.dropSlice xs (m.dropId a).2).1, (Mem.dropSlice xs (m.dropId a).2).2) := rfl

/-- `drop_in_place` of a slice of owned elements: all of them go out, whatever panics -/
theorem Acct.dropSlice {B} :
    ∀ {as m l}, Acct fl m (as ++ l) B → Acct fl (m.dropSlice (as.map .init)).2 l B
  | [], _, _, h => h
  | a :: as, m, l, h => by
    rw [List.map_cons, Mem.dropSlice_cons_init]
    exact Acct.dropSlice (as := as) h.dropId

/-- a `for` loop of drops: the elements after a panicking drop are leaked -/
theorem Acct.dropLoop {B} :
    ∀ {as m l}, Acct fl m (as ++ l) B → Acct fl (m.dropLoop (as.map .init)).2 l B
  | [], _, _, h => h
  | a :: as, m, l, h => by
    rw [List.map_cons, Mem.dropLoop_cons_init]
    have h1 : Acct fl (m.dropId a).2 (as ++ l) B := h.dropId
    by_cases hp : (m.dropId a).1 = true
    · rw [if_pos hp]
      refine h1.drop_left (fun hf => ?_)
      rw [Mem.dropId_of_none (h.budget_none hf)] at hp
      cases hp
    · rw [if_neg hp]; exact Acct.dropLoop (as := as) h1

theorem Acct.alloc {m l B} (h : Acct fl m l B) : Acct fl m.alloc.2 l (m.alloc.1 :: B) := by
  have hb := h.blt
  refine { h with nobad := ?_, bnodup := ?_, blive := ?_, blt := ?_,
                  bufsnd := List.nodup_cons.mpr ⟨fun hm => Nat.lt_irrefl _ (hb _ hm), h.bufsnd⟩,
                  trout := (filterMap_outId_none _ rfl).trans h.trout, full := h.full,
                  created := created_cons h.created (fun a ha => by simp [Ev.newId] at ha)
                    (Nat.le_refl _) }
  · intro e he
    simp [Mem.alloc] at he
    rcases he with rfl | he
    · rfl
    · exact h.nobad e he
  · simp only [Mem.alloc, List.nodup_cons]
    exact ⟨fun hm => Nat.lt_irrefl _ (hb _ (h.blive _ hm)), h.bnodup⟩
  · intro b hb'
    simp only [Mem.alloc, List.mem_cons] at hb' ⊢
    rcases hb' with rfl | hb'
    · exact Or.inl rfl
    · exact Or.inr (h.blive b hb')
  · intro b hb'
    simp only [Mem.alloc, List.mem_cons] at hb' ⊢
    rcases hb' with rfl | hb'
    · omega
    · have := hb b hb'; omega

theorem Acct.free {m l B b} (h : Acct fl m l (b :: B)) : Acct fl (m.free b) l B := by
  unfold Mem.free
  rw [if_pos (h.blive b (List.mem_cons_self ..))]
  have hnd := List.nodup_cons.mp h.bnodup
  refine { h with nobad := ?_, bnodup := hnd.2, blive := ?_, blt := ?_,
                  bufsnd := h.bufsnd.erase _,
                  trout := (filterMap_outId_none _ rfl).trans h.trout, full := h.full,
                  created := created_cons h.created (fun a ha => by simp [Ev.newId] at ha)
                    (Nat.le_refl _) }
  · intro e he
    simp at he
    rcases he with rfl | he
    · rfl
    · exact h.nobad e he
  · intro b' hb'
    have hne : b' ≠ b := fun hh => hnd.1 (hh ▸ hb')
    exact (List.mem_erase_of_ne hne).mpr (h.blive b' (List.mem_cons_of_mem _ hb'))
  · intro b' hb'
    exact h.blt b' (List.mem_of_mem_erase hb')

end HipVerif.Slots

namespace HipVerif.Slots

variable {fl : Bool}

/-! ### Raw slot-array algebra -/

theorem Vec.range_mid {v : Vec} {A B C : List Slot} (h : v.slots = A ++ B ++ C) {a b : Nat}
    (ha : a = A.length) (hb : b = A.length + B.length) : v.range a b = B := by
  subst ha hb
  simp [Vec.range, h, List.append_assoc]

theorem Vec.writeChunk_mid {v : Vec} {A B C X : List Slot} (h : v.slots = A ++ B ++ C)
    (hx : X.length = B.length) {d : Nat} (hd : d = A.length) :
    (v.writeChunk d X).slots = A ++ X ++ C := by
  subst hd
  simp [Vec.writeChunk, h, List.append_assoc, hx]

theorem Vec.write_mid {v : Vec} {A C : List Slot} {r x : Slot} (h : v.slots = A ++ r :: C)
    {i : Nat} (hi : i = A.length) : (v.write i x).slots = A ++ x :: C := by
  subst hi
  simp [Vec.write, h]

theorem Vec.get_mid {v : Vec} {A C : List Slot} {r : Slot} (h : v.slots = A ++ r :: C)
    {i : Nat} (hi : i = A.length) : v.get i = r := by
  subst hi
  simp [Vec.get, h]

end HipVerif.Slots

namespace HipVerif.Slots

variable {fl : Bool}

/-! ### The ownership invariant -/

/-- permutation goals between concatenations -/
macro "perm_tac" : tactic =>
  `(tactic| (apply List.perm_iff_count.mpr; intro x;
             (first | simp only [List.count_append, List.count_cons, List.count_nil] | skip) <;>
               omega))

/-- id of the prefix value, if the container has a live drop-tracked one -/
def prefL (h : Hdr) : List Nat :=
  if h.thin && h.tracked && h.alive then (match h.pref with | .init p => [p] | .uninit => []) else []

/-- buffer owned by the container -/
def bufL (h : Hdr) : List Nat := if h.thin && h.alive then [h.buf] else []

def PrefInit (h : Hdr) : Prop :=
  h.thin = true → h.tracked = true → h.alive = true → ∃ p, h.pref = .init p

/-- header invariant: a live tracked prefix is initialised; a live ThinVec's capacity is a fixed
point of the capacity rounding of `layout` (so that "same layout" means "same capacity") -/
def HdrOk (v : Vec) : Prop :=
  PrefInit v.h ∧
    (v.h.thin = true → v.h.alive = true → 0 < v.h.esz ∧ roundCap v.h.esz v.cap = v.cap)

theorem HdrOk.of_eq {v v' : Vec} (h : HdrOk v) (hh : v'.h = v.h) (hc : v'.cap = v.cap) :
    HdrOk v' := by
  unfold HdrOk; rw [hh, hc]; exact h

/-- Ownership invariant with a frame: besides the container (`L` = ids in slots `[0, len)`, its
prefix, its buffer) the running operation owns the ids `loc` and the buffers `locB`. -/
def OwnL (fl : Bool) (s : St) (loc locB : List Nat) : Prop :=
  ∃ L rest, s.v.len = L.length ∧ s.v.slots = L.map .init ++ rest ∧ HdrOk s.v ∧
    Acct fl s.mem (loc ++ (prefL s.v.h ++ L)) (locB ++ bufL s.v.h)

/-- The ownership invariant at operation boundaries. -/
def Own (s : St) : Prop := OwnL false s [] []

/-- The ownership invariant with the no-leak clause: no fault armed, and every id created so far is
held by the container (slot below `len`, live prefix) or already out (dropped / returned). -/
def OwnF (s : St) : Prop := OwnL true s [] []

/-- `slots[i]` is initialised for every `i < len` -/
def LenCoversInit (s : St) : Prop := ∀ i, i < s.v.len → ∃ a, s.v.slots[i]? = some (.init a)

theorem OwnL.lenCovers {s loc locB} (h : OwnL fl s loc locB) : LenCoversInit s := by
  obtain ⟨L, rest, hl, hs, -, -⟩ := h
  intro i hi
  refine ⟨L[i]'(hl ▸ hi), ?_⟩
  rw [hs, List.getElem?_append_left (by simpa using hl ▸ hi)]
  simp [hl ▸ hi]

theorem OwnL.nobad {s loc locB} (h : OwnL fl s loc locB) : NoBad s.mem := by
  obtain ⟨_, _, _, _, _, ha⟩ := h
  exact ha.nobad

theorem OwnL.len_le {s loc locB} (h : OwnL fl s loc locB) : s.v.len ≤ s.v.cap := by
  obtain ⟨L, rest, hl, hs, -, -⟩ := h
  simp [Vec.cap, hs, hl]

/-- locally owned ids may be leaked — not under the no-leak flag -/
theorem OwnL.leak {s loc loc' locB} (h : OwnL fl s (loc' ++ loc) locB) (hnf : fl = true → False) :
    OwnL fl s loc locB := by
  obtain ⟨L, rest, hl, hs, hp, ha⟩ := h
  refine ⟨L, rest, hl, hs, hp, ?_⟩
  rw [List.append_assoc] at ha
  exact ha.drop_left hnf

theorem OwnL.toFalse {s loc locB} (h : OwnL fl s loc locB) : OwnL false s loc locB := by
  obtain ⟨L, rest, hl, hs, hp, ha⟩ := h
  exact ⟨L, rest, hl, hs, hp, ha.toFalse⟩

theorem OwnL.budget_none {s loc locB} (h : OwnL fl s loc locB) (hf : fl = true) :
    s.mem.budget = none := by
  obtain ⟨_, _, _, _, _, ha⟩ := h
  exact ha.budget_none hf

/-- anything that only touches `mem` and keeps the accounting keeps the invariant -/
theorem OwnL.mem_step {s : St} {loc locB loc' locB' : List Nat} {m' : Mem} (h : OwnL fl s loc locB)
    (hm : ∀ X Y, Acct fl s.mem (loc ++ X) (locB ++ Y) → Acct fl m' (loc' ++ X) (locB' ++ Y)) :
    OwnL fl { s with mem := m' } loc' locB' := by
  obtain ⟨L, rest, hl, hs, hp, ha⟩ := h
  exact ⟨L, rest, hl, hs, hp, hm _ _ ha⟩

theorem St.store_eq {s : St} {a : Nat} (h : s.v.len < s.v.cap) :
    s.store a = { s with v := s.v.store a } := by
  simp [St.store, St.wr, h, St.setLen, Vec.store]

@[simp] theorem St.store_len (s : St) (a : Nat) : (s.store a).v.len = s.v.len + 1 := by
  simp only [St.store, St.wr, St.setLen, Vec.setLen]

@[simp] theorem St.store_cap (s : St) (a : Nat) : (s.store a).v.cap = s.v.cap := by
  simp only [St.store, St.wr, St.setLen, Vec.setLen]; split <;> simp [Vec.cap, Vec.write]

@[simp] theorem St.store_h (s : St) (a : Nat) : (s.store a).v.h = s.v.h := by
  simp only [St.store, St.wr, St.setLen, Vec.setLen]; split <;> rfl

/-- `write(len, b); set_len(len + 1)` moves a locally owned id into the container -/
theorem OwnL.store {s b loc locB} (h : OwnL fl s (b :: loc) locB) (hc : s.v.len < s.v.cap) :
    OwnL fl (s.store b) loc locB := by
  obtain ⟨L, rest, hl, hs, hp, ha⟩ := h
  rw [St.store_eq hc]
  cases rest with
  | nil => simp [Vec.cap, hs, hl] at hc
  | cons r rest =>
    refine ⟨L ++ [b], rest, by simp [Vec.store, Vec.setLen, Vec.write, hl], ?_,
      hp.of_eq rfl (by simp [Vec.store, Vec.setLen, Vec.write, Vec.cap]), ?_⟩
    · have := Vec.write_mid (x := .init b) hs (i := s.v.len) (by simp [hl])
      simp [Vec.store, Vec.setLen, this]
    · exact ha.perm (by simp only [Vec.store, Vec.setLen, Vec.write]; perm_tac)

/-- loop of `InlineVec::extend_from_slice`: every iteration keeps the invariant, for every
fault position -/
theorem iCloneIds_own {loc locB} : ∀ (srcs : List Nat) (s : St), OwnL fl s loc locB →
    s.v.len + srcs.length ≤ s.v.cap → OwnL fl (iCloneIds srcs s).2 loc locB
  | [], s, h, _ => h
  | a :: as, s, h, hc => by
    unfold iCloneIds
    have hcl := fun X Y (hx : Acct fl s.mem (loc ++ X) (locB ++ Y)) => hx.cloneId a
    rcases hr : s.mem.cloneId a with ⟨_ | b, m'⟩
    · simp only [St.onMem, hr]
      exact h.mem_step (fun X Y hx => by have := hcl X Y hx; rw [hr] at this; exact this)
    · simp only [St.onMem, hr]
      have h1 : OwnL fl { s with mem := m' } (b :: loc) locB :=
        h.mem_step (fun X Y hx => by have := hcl X Y hx; rw [hr] at this; exact this)
      have hc' : s.v.len < s.v.cap := by simp at hc; omega
      have h2 := h1.store hc'
      refine iCloneIds_own as _ h2 ?_
      simp at hc ⊢
      omega

end HipVerif.Slots

namespace HipVerif.Slots

variable {fl : Bool}

/-! ### Memory primitives lifted to `OwnL` -/

@[simp] theorem St.onMem_v {α} (f : Mem → α × Mem) (s : St) : (s.onMem f).2.v = s.v := rfl
@[simp] theorem St.onMem_mem {α} (f : Mem → α × Mem) (s : St) : (s.onMem f).2.mem = (f s.mem).2 := rfl
@[simp] theorem St.onMem_fst {α} (f : Mem → α × Mem) (s : St) : (s.onMem f).1 = (f s.mem).1 := rfl
@[simp] theorem St.withMem_v (f : Mem → Mem) (s : St) : (s.withMem f).v = s.v := rfl
@[simp] theorem St.withMem_mem (f : Mem → Mem) (s : St) : (s.withMem f).mem = f s.mem := rfl
@[simp] theorem St.setLen_mem (n : Nat) (s : St) : (s.setLen n).mem = s.mem := rfl
@[simp] theorem St.setLen_len (n : Nat) (s : St) : (s.setLen n).v.len = n := rfl
@[simp] theorem St.setLen_slots (n : Nat) (s : St) : (s.setLen n).v.slots = s.v.slots := rfl
@[simp] theorem St.setLen_cap (n : Nat) (s : St) : (s.setLen n).v.cap = s.v.cap := rfl
@[simp] theorem St.setLen_h (n : Nat) (s : St) : (s.setLen n).v.h = s.v.h := rfl

theorem St.onMem_eq {α} (f : Mem → α × Mem) (s : St) :
    s.onMem f = ((f s.mem).1, { s with mem := (f s.mem).2 }) := rfl

theorem OwnL.mkVal {s loc locB} (h : OwnL fl s loc locB) :
    OwnL fl (s.onMem Mem.mkVal).2 ((s.onMem Mem.mkVal).1 :: loc) locB :=
  h.mem_step (fun _ _ hx => hx.mkVal)

theorem OwnL.tick {s loc locB} (h : OwnL fl s loc locB) : OwnL fl (s.onMem Mem.tick).2 loc locB :=
  h.mem_step (fun _ _ hx => hx.tick)

theorem OwnL.dropId {s a loc locB} (h : OwnL fl s (a :: loc) locB) :
    OwnL fl (s.onMem (Mem.dropId a)).2 loc locB :=
  h.mem_step (fun _ _ hx => Acct.dropId hx)

theorem OwnL.retId {s a loc locB} (h : OwnL fl s (a :: loc) locB) :
    OwnL fl (s.withMem (Mem.retId a)) loc locB :=
  h.mem_step (fun _ _ hx => Acct.retId hx)

theorem OwnL.markDrops {s as loc locB} (h : OwnL fl s (as ++ loc) locB) :
    OwnL fl (s.withMem (Mem.markDrops as)) loc locB :=
  h.mem_step (fun _ _ hx => Acct.markDrops (by rwa [List.append_assoc] at hx))

theorem OwnL.markDropSlots {s as loc locB} (h : OwnL fl s (as ++ loc) locB) :
    OwnL fl (s.withMem (Mem.markDropSlots (as.map .init))) loc locB :=
  h.mem_step (fun _ _ hx => Acct.markDropSlots (by rwa [List.append_assoc] at hx))

theorem OwnL.dropSlice {s as loc locB} (h : OwnL fl s (as ++ loc) locB) :
    OwnL fl (s.onMem (Mem.dropSlice (as.map .init))).2 loc locB :=
  h.mem_step (fun _ _ hx => Acct.dropSlice (by rwa [List.append_assoc] at hx))

theorem OwnL.dropLoop {s as loc locB} (h : OwnL fl s (as ++ loc) locB) :
    OwnL fl (s.onMem (Mem.dropLoop (as.map .init))).2 loc locB :=
  h.mem_step (fun _ _ hx => Acct.dropLoop (by rwa [List.append_assoc] at hx))

theorem OwnL.alloc {s loc locB} (h : OwnL fl s loc locB) :
    OwnL fl (s.onMem Mem.alloc).2 loc (s.mem.nextBuf :: locB) :=
  h.mem_step (fun _ _ hx => hx.alloc)

theorem OwnL.free {s b loc locB} (h : OwnL fl s loc (b :: locB)) :
    OwnL fl (s.withMem (Mem.free b)) loc locB :=
  h.mem_step (fun _ _ hx => Acct.free hx)

/-- result of a callback that may produce a value: either a panic (nothing new) or a new owned id -/
theorem OwnL.cloneId {s loc locB} (a : Nat) (h : OwnL fl s loc locB) :
    match s.onMem (Mem.cloneId a) with
    | (none, s') => OwnL fl s' loc locB ∧ s'.v = s.v
    | (some b, s') => OwnL fl s' (b :: loc) locB ∧ s'.v = s.v := by
  rw [St.onMem_eq]
  have hcl := fun X Y (hx : Acct fl s.mem (loc ++ X) (locB ++ Y)) => hx.cloneId a
  rcases hr : s.mem.cloneId a with ⟨_ | b, m'⟩ <;> simp only <;>
    exact ⟨h.mem_step (fun X Y hx => by have := hcl X Y hx; rw [hr] at this; exact this), trivial⟩

theorem OwnL.genVal {s loc locB} (h : OwnL fl s loc locB) :
    match s.onMem Mem.genVal with
    | (none, s') => OwnL fl s' loc locB ∧ s'.v = s.v
    | (some b, s') => OwnL fl s' (b :: loc) locB ∧ s'.v = s.v := by
  rw [St.onMem_eq]
  have hcl := fun X Y (hx : Acct fl s.mem (loc ++ X) (locB ++ Y)) => hx.genVal
  rcases hr : s.mem.genVal with ⟨_ | b, m'⟩ <;> simp only <;>
    exact ⟨h.mem_step (fun X Y hx => by have := hcl X Y hx; rw [hr] at this; exact this), trivial⟩

theorem Mem.tick_out (m : Mem) : m.tick.2.out = m.out := by
  unfold Mem.tick; split <;> rfl

theorem Mem.cloneId_out (a : Nat) (m : Mem) : (m.cloneId a).2.out = m.out := by
  unfold Mem.cloneId
  have := Mem.tick_out m
  generalize m.tick = r at this
  obtain ⟨p, m1⟩ := r
  cases p <;> simpa using this

/-- every element of the container is live: its slot is initialised and its id is not out -/
theorem OwnL.get {s loc locB} (h : OwnL fl s loc locB) {i : Nat} (hi : i < s.v.len) :
    ∃ a, s.v.get i = .init a ∧ a ∉ s.mem.out := by
  obtain ⟨L, rest, hl, hs, -, ha⟩ := h
  have hi' : i < L.length := hl ▸ hi
  refine ⟨L[i], ?_, ?_⟩
  · simp [Vec.get, hs, List.getElem?_append_left, hi']
  · apply ha.notout
    simp

/-- clone through a reference to a live element -/
theorem OwnL.cloneSlot {s loc locB} (h : OwnL fl s loc locB) {x : Slot} {a : Nat} (hx : x = .init a)
    (hout : a ∉ s.mem.out) :
    match s.onMem (Mem.cloneSlot x) with
    | (none, s') => OwnL fl s' loc locB ∧ s'.v = s.v ∧ s'.mem.out = s.mem.out
    | (some b, s') => OwnL fl s' (b :: loc) locB ∧ s'.v = s.v ∧ s'.mem.out = s.mem.out := by
  subst hx
  have h1 := h.cloneId a
  have h2 := Mem.cloneId_out a s.mem
  rw [St.onMem_eq] at h1 ⊢
  simp only [Mem.cloneSlot, if_neg hout]
  rcases hr : s.mem.cloneId a with ⟨_ | b, m'⟩ <;> rw [hr] at h1 h2 <;> simp only at h1 h2 ⊢ <;>
    exact ⟨h1.1, trivial, h2⟩

/-- `set_len(n)` with `n ≤ len`: the elements `n..len` become locally owned -/
theorem OwnL.setLen_take {s loc locB} (h : OwnL fl s loc locB) {n : Nat} (hn : n ≤ s.v.len) :
    ∃ tl : List Nat, s.v.range n s.v.len = tl.map .init ∧ tl.length = s.v.len - n ∧
      OwnL fl (s.setLen n) (tl ++ loc) locB := by
  obtain ⟨L, rest, hl, hs, hp, ha⟩ := h
  refine ⟨L.drop n, ?_, by simp [hl], L.take n, (L.drop n).map .init ++ rest, ?_, ?_, hp, ?_⟩
  · have hs' : s.v.slots = (L.take n).map .init ++ (L.drop n).map .init ++ rest := by
      rw [← List.map_append, List.take_append_drop]; exact hs
    exact Vec.range_mid hs' (by simp; omega) (by simp; omega)
  · simp; omega
  · simp only [St.setLen_slots, hs]
    rw [← List.append_assoc, ← List.map_append, List.take_append_drop]
  · refine ha.perm ?_
    have : L = L.take n ++ L.drop n := (List.take_append_drop n L).symm
    simp only [St.setLen_h]
    generalize L.take n = T at this ⊢
    generalize L.drop n = D at this ⊢
    subst this
    perm_tac

end HipVerif.Slots
