import HipVerif.Model.Views

/-!
# Lemmas for C12: laws of the views, soundness of `rowOk` / `borrowOk`

All statements are for every byte string (no bounds).

Second half: the transcription of std's `Path::hash` byte loop (`pathHashLoop`) equals the stream
defined on `components` (`pathHashLoop_eq`), and `components` is canonical (trailing separator,
interior `.`, repeated separators).
-/

namespace HipVerif.Views

/-! ## Lawful three-way comparisons -/

/-- A three-way comparison that is a total order consistent with `=`. -/
structure LawfulCmp {α : Type} (c : α → α → Ordering) : Prop where
  eq_iff : ∀ a b, c a b = .eq ↔ a = b
  swap : ∀ a b, c b a = (c a b).swap
  trans : ∀ a b d, c a b = .lt → c b d = .lt → c a d = .lt

theorem cmpByte_lawful : LawfulCmp cmpByte where
  eq_iff a b := by
    unfold cmpByte
    rw [Nat.compare_eq_eq, UInt8.toNat_inj]
  swap a b := by
    unfold cmpByte
    rw [← Nat.compare_swap]
  trans a b d := by
    unfold cmpByte
    simp only [Nat.compare_eq_lt]
    omega

theorem lexBy_eq_iff {α : Type} {c : α → α → Ordering} (hc : ∀ a b, c a b = .eq ↔ a = b) :
    ∀ x y, lexBy c x y = .eq ↔ x = y
  | [], [] => by simp [lexBy]
  | [], _ :: _ => by simp [lexBy]
  | _ :: _, [] => by simp [lexBy]
  | a :: as, b :: bs => by
    have ih := lexBy_eq_iff hc as bs
    have hab := hc a b
    unfold lexBy
    cases h : c a b
    · have : a ≠ b := by intro e; rw [hab.mpr e] at h; cases h
      simp [this]
    · simp [ih, hab.mp h]
    · have : a ≠ b := by intro e; rw [hab.mpr e] at h; cases h
      simp [this]

theorem lexBy_swap {α : Type} {c : α → α → Ordering} (hs : ∀ a b, c b a = (c a b).swap) :
    ∀ x y, lexBy c y x = (lexBy c x y).swap
  | [], [] => by simp [lexBy]
  | [], _ :: _ => by simp [lexBy]
  | _ :: _, [] => by simp [lexBy]
  | a :: as, b :: bs => by
    have ih := lexBy_swap hs as bs
    have hab := hs a b
    unfold lexBy
    cases h : c a b <;> rw [h] at hab <;> simp [hab, ih]

theorem lexBy_cons_lt {α : Type} {c : α → α → Ordering} {a b : α} {as bs : List α} :
    lexBy c (a :: as) (b :: bs) = .lt ↔ c a b = .lt ∨ (c a b = .eq ∧ lexBy c as bs = .lt) := by
  rw [lexBy]
  cases h : c a b <;> simp

theorem lexBy_trans {α : Type} {c : α → α → Ordering} (hc : LawfulCmp c) :
    ∀ x y z, lexBy c x y = .lt → lexBy c y z = .lt → lexBy c x z = .lt
  | [], [], _ => by simp [lexBy]
  | [], _ :: _, [] => by simp [lexBy]
  | [], _ :: _, _ :: _ => by simp [lexBy]
  | _ :: _, [], _ => by simp [lexBy]
  | _ :: _, _ :: _, [] => by simp [lexBy]
  | a :: as, b :: bs, d :: ds => by
    have ih := lexBy_trans hc as bs ds
    simp only [lexBy_cons_lt]
    rintro (h1 | ⟨h1, r1⟩) (h2 | ⟨h2, r2⟩)
    · exact .inl (hc.trans a b d h1 h2)
    · rw [(hc.eq_iff b d).mp h2] at h1; exact .inl h1
    · rw [← (hc.eq_iff a b).mp h1] at h2; exact .inl h2
    · refine .inr ⟨?_, ih r1 r2⟩
      rw [(hc.eq_iff a b).mp h1, (hc.eq_iff b d).mp h2]
      exact (hc.eq_iff d d).mpr rfl

theorem lexBy_lawful {α : Type} {c : α → α → Ordering} (hc : LawfulCmp c) : LawfulCmp (lexBy c) where
  eq_iff := lexBy_eq_iff hc.eq_iff
  swap x y := lexBy_swap hc.swap x y
  trans := lexBy_trans hc

theorem lexCmp_lawful : LawfulCmp lexCmp := lexBy_lawful cmpByte_lawful

theorem compCmp_lawful : LawfulCmp Comp.cmp where
  eq_iff a b := by
    cases a <;> cases b <;> simp [Comp.cmp, Comp.rank, lexCmp_lawful.eq_iff]
  swap a b := by
    cases a <;> cases b <;> first | exact lexCmp_lawful.swap _ _ | rfl
  trans a b d := by
    cases a <;> cases b <;> cases d <;>
      first
      | exact lexCmp_lawful.trans _ _ _
      | simp [Comp.cmp, Comp.rank, Nat.compare_eq_lt]

theorem compsCmp_lawful : LawfulCmp (lexBy Comp.cmp) := lexBy_lawful compCmp_lawful

/-! ## Laws of the views -/

theorem eqV_refl (v : View) (x : List UInt8) : eqV v x x = true := by
  cases v <;> simp [eqV]

theorem eqV_symm (v : View) (x y : List UInt8) : eqV v x y = eqV v y x := by
  cases v <;> simp only [eqV] <;> exact decide_eq_decide.mpr ⟨Eq.symm, Eq.symm⟩

theorem eqV_iff_cmpV (v : View) (x y : List UInt8) : eqV v x y = true ↔ cmpV v x y = .eq := by
  cases v <;> simp [eqV, cmpV, lexCmp_lawful.eq_iff, compsCmp_lawful.eq_iff]

theorem eqV_hash (v : View) (x y : List UInt8) (h : eqV v x y = true) :
    hashStreamV v x = hashStreamV v y := by
  cases v <;> simp [eqV] at h <;> simp [hashStreamV, h]

theorem cmpV_swap (v : View) (x y : List UInt8) : cmpV v y x = (cmpV v x y).swap := by
  cases v <;> simp only [cmpV]
  · exact lexCmp_lawful.swap x y
  · exact lexCmp_lawful.swap x y
  · exact lexCmp_lawful.swap x y
  · exact compsCmp_lawful.swap _ _

theorem cmpV_trans (v : View) (x y z : List UInt8) :
    cmpV v x y = .lt → cmpV v y z = .lt → cmpV v x z = .lt := by
  cases v <;> simp only [cmpV]
  · exact lexCmp_lawful.trans x y z
  · exact lexCmp_lawful.trans x y z
  · exact lexCmp_lawful.trans x y z
  · exact compsCmp_lawful.trans _ _ _

/-- `Ord` respects `Eq`: equal values are interchangeable in comparisons. -/
theorem cmpV_congr (v : View) (x x' y : List UInt8) (h : eqV v x x' = true) :
    cmpV v x y = cmpV v x' y := by
  cases v <;> simp [eqV] at h <;> simp [cmpV, h]

theorem sameCmp_eqV {v w : View} (h : sameCmp v w = true) : eqV v = eqV w := by
  cases v <;> cases w <;> first | rfl | (simp [sameCmp] at h)

theorem sameCmp_cmpV {v w : View} (h : sameCmp v w = true) : cmpV v = cmpV w := by
  cases v <;> cases w <;> first | rfl | (simp [sameCmp] at h)

theorem sameHash_hashStreamV {v w : View} (h : sameHash v w = true) : hashStreamV v = hashStreamV w := by
  cases v <;> cases w <;> first | rfl | (simp [sameHash] at h)

/-! ## `inherent_eq` -/

theorem memcmpIsZero_iff (a b : List UInt8) : memcmpIsZero a b = true ↔ a = b := by
  simp [memcmpIsZero, lexCmp_lawful.eq_iff]

/-! ## What a row computes, and soundness of `rowOk` -/

/-- The byte string an argument position receives. -/
def pickArg (a : Arg) (x y : List UInt8) : List UInt8 :=
  match a with
  | .self => x
  | .other => y

/-- The result of the `eq` method of a `PartialEq` row on `self = x`, `other = y`, as the body
    computes it. `samePtr` is the outcome of a `ptr::eq` shortcut when the body has one. -/
def evalEq (env : Env) (row : CmpRow) (samePtr : Bool) (x y : List UInt8) : Option Bool :=
  match row.body with
  | .helper _ _ _ _ a1 a2 _ _ _ =>
    (viewOf env FUEL row).map fun v => eqV v (pickArg a1 x y) (pickArg a2 x y)
  | .viaAccessor sc _ _ =>
    (viewOf env FUEL row).map fun v =>
      match sc with
      | .none => eqV v x y
      | .ptrEqEncodedBytes => samePtr || eqV v x y
  | .inherentEq | .field0Eq => (viewOf env FUEL row).map fun v => eqV v x y
  | _ => none

/-- The result of `partial_cmp` (unwrapped) / `cmp` of a `PartialOrd`/`Ord` row. -/
def evalCmp (env : Env) (row : CmpRow) (x y : List UInt8) : Option Ordering :=
  match row.body with
  | .helper _ _ _ _ a1 a2 rev _ _ =>
    (viewOf env FUEL row).map fun v =>
      let o := cmpV v (pickArg a1 x y) (pickArg a2 x y)
      if rev then o.swap else o
  | .viaAccessor .none _ _ => (viewOf env FUEL row).map fun v => cmpV v x y
  | _ => none

theorem viewsAgree_cmp {tr : TraitKind} {g e : Option View} (htr : tr ≠ .hash)
    (h : viewsAgree tr g e = true) : ∃ v w, g = some v ∧ e = some w ∧ sameCmp v w = true := by
  cases g <;> cases e <;> simp [viewsAgree, htr] at h
  exact ⟨_, _, rfl, rfl, h⟩

theorem viewsAgree_hash {g e : Option View}
    (h : viewsAgree .hash g e = true) : ∃ v w, g = some v ∧ e = some w ∧ sameHash v w = true := by
  cases g <;> cases e <;> simp [viewsAgree] at h
  exact ⟨_, _, rfl, rfl, h⟩

/-- A `PartialEq` row accepted by `rowOk` returns what std returns on the std views. -/
theorem rowOk_eq_sound (env : Env) (row : CmpRow) (htr : row.trait = .partialEq)
    (hok : rowOk env row = true) (samePtr : Bool) (x y : List UInt8) (hptr : samePtr = true → x = y) :
    ∃ w, expectedView row = some w ∧ evalEq env row samePtr x y = some (eqV w x y) := by
  unfold rowOk at hok
  rw [htr] at hok
  cases hb : row.body with
  | helper n t1 t2 op a1 a2 rev hl ml =>
    rw [hb] at hok
    simp only [Bool.and_eq_true] at hok
    obtain ⟨⟨⟨⟨⟨_, hperm⟩, _⟩, _⟩, _⟩, hv⟩ := hok
    obtain ⟨v, w, hg, he, hs⟩ := viewsAgree_cmp (by simp) hv
    refine ⟨w, he, ?_⟩
    simp only [evalEq, hb, hg, Option.map_some, ← sameCmp_eqV hs]
    cases a1 <;> cases a2 <;> simp at hperm <;> simp [pickArg, eqV_symm v y x]
  | viaAccessor sc acc op =>
    rw [hb] at hok
    simp only [Bool.and_eq_true] at hok
    obtain ⟨v, w, hg, he, hs⟩ := viewsAgree_cmp (by simp) hok.2
    refine ⟨w, he, ?_⟩
    simp only [evalEq, hb, hg, Option.map_some, ← sameCmp_eqV hs]
    cases sc
    · rfl
    · cases hsp : samePtr
      · simp
      · simp [hptr hsp, eqV_refl]
  | inherentEq =>
    rw [hb] at hok
    obtain ⟨v, w, hg, he, hs⟩ := viewsAgree_cmp (by simp) hok
    exact ⟨w, he, by simp only [evalEq, hb, hg, Option.map_some, ← sameCmp_eqV hs]⟩
  | field0Eq =>
    rw [hb] at hok
    obtain ⟨v, w, hg, he, hs⟩ := viewsAgree_cmp (by simp) hok
    exact ⟨w, he, by simp only [evalEq, hb, hg, Option.map_some, ← sameCmp_eqV hs]⟩
  | marker => rw [hb] at hok; simp at hok
  | hashVia a => rw [hb] at hok; simp at hok

/-- A `PartialOrd`/`Ord` row accepted by `rowOk` returns what std returns on the std views; in
    particular the swapped order of `symmetric_ord!` is reversed exactly when it has to be. -/
theorem rowOk_cmp_sound (env : Env) (row : CmpRow) (htr : row.trait = .partialOrd ∨ row.trait = .ord)
    (hok : rowOk env row = true) (x y : List UInt8) :
    ∃ w, expectedView row = some w ∧ evalCmp env row x y = some (cmpV w x y) := by
  unfold rowOk at hok
  cases hb : row.body with
  | helper n t1 t2 op a1 a2 rev hl ml =>
    rcases htr with htr | htr <;> rw [htr, hb] at hok
    · simp only [Bool.and_eq_true] at hok
      obtain ⟨⟨⟨⟨⟨_, hperm⟩, hrev⟩, _⟩, _⟩, hv⟩ := hok
      obtain ⟨v, w, hg, he, hs⟩ := viewsAgree_cmp (by simp) hv
      refine ⟨w, he, ?_⟩
      simp only [evalCmp, hb, hg, Option.map_some, ← sameCmp_cmpV hs]
      cases a1 <;> cases a2 <;> simp at hperm <;> simp at hrev <;> simp [pickArg, hrev, cmpV_swap v y x]
    · simp at hok
  | viaAccessor sc acc op =>
    rcases htr with htr | htr <;> rw [htr, hb] at hok <;> simp only [Bool.and_eq_true] at hok
    · obtain ⟨⟨hsc, _⟩, hv⟩ := hok
      obtain ⟨v, w, hg, he, hs⟩ := viewsAgree_cmp (by simp) hv
      have hsc : sc = .none := by simpa using hsc
      subst hsc
      exact ⟨w, he, by simp only [evalCmp, hb, hg, Option.map_some, ← sameCmp_cmpV hs]⟩
    · obtain ⟨⟨⟨hsc, _⟩, _⟩, hv⟩ := hok
      obtain ⟨v, w, hg, he, hs⟩ := viewsAgree_cmp (by simp) hv
      have hsc : sc = .none := by simpa using hsc
      subst hsc
      exact ⟨w, he, by simp only [evalCmp, hb, hg, Option.map_some, ← sameCmp_cmpV hs]⟩
  | inherentEq => rcases htr with htr | htr <;> rw [htr, hb] at hok <;> simp at hok
  | field0Eq => rcases htr with htr | htr <;> rw [htr, hb] at hok <;> simp at hok
  | marker => rcases htr with htr | htr <;> rw [htr, hb] at hok <;> simp at hok
  | hashVia a => rcases htr with htr | htr <;> rw [htr, hb] at hok <;> simp at hok

/-- A `Hash` row accepted by `rowOk` feeds the hasher the stream the std counterpart feeds. -/
theorem rowOk_hash_sound (env : Env) (row : CmpRow) (htr : row.trait = .hash)
    (hok : rowOk env row = true) (x : List UInt8) :
    ∃ v, viewOf env FUEL row = some v ∧
      hashStreamV v x = hashStreamV (hashViewOf row.lhs.target) x := by
  unfold rowOk at hok
  rw [htr] at hok
  cases hb : row.body <;> rw [hb] at hok <;> simp only [Bool.and_eq_true] at hok <;> try (simp at hok; done)
  obtain ⟨v, w, hg, he, hs⟩ := viewsAgree_hash hok.2
  refine ⟨v, hg, ?_⟩
  simp only [expectedView, htr, Option.some.injEq] at he
  rw [sameHash_hashStreamV hs, he]

/-- What `borrowOk` means: through the `Borrow` target, `==`, `cmp` and the hash stream are those of
    the owner. -/
theorem borrowOk_sound (env : Env) (b : BorrowRow) (hok : borrowOk env b = true) :
    ∃ ve vo vh tv,
      env.ownerView .partialEq b.owner = some ve ∧ env.ownerView .ord b.owner = some vo ∧
      env.ownerView .hash b.owner = some vh ∧ stdView b.target b.target = some tv ∧
      ∀ x y, eqV ve x y = eqV tv x y ∧ cmpV vo x y = cmpV tv x y ∧
        hashStreamV vh x = hashStreamV (hashViewOf b.target) x := by
  unfold borrowOk at hok
  simp only [Bool.and_eq_true] at hok
  obtain ⟨⟨⟨⟨_, h1⟩, _⟩, h3⟩, h4⟩ := hok
  obtain ⟨ve, tv, hg1, he1, hs1⟩ := viewsAgree_cmp (by simp) h1
  obtain ⟨vo, tv', hg3, he3, hs3⟩ := viewsAgree_cmp (by simp) h3
  obtain ⟨vh, th, hg4, he4, hs4⟩ := viewsAgree_hash h4
  rw [he1] at he3
  cases he3
  cases he4
  exact ⟨ve, vo, vh, tv, hg1, hg3, hg4, he1, fun x y =>
    ⟨by rw [sameCmp_eqV hs1], by rw [sameCmp_cmpV hs3], by rw [sameHash_hashStreamV hs4]⟩⟩

/-! # std's `Path::hash` byte loop is a function of `components` -/

/-! ## `splitSlash` -/

theorem DOT_ne_SEP : DOT ≠ SEP := by decide

theorem splitSlash_ne_nil : ∀ l, splitSlash l ≠ []
  | [] => by simp [splitSlash]
  | c :: cs => by
    have := splitSlash_ne_nil cs
    unfold splitSlash
    split
    · simp
    · split <;> simp

theorem splitSlash_cons_sep (l : List UInt8) : splitSlash (SEP :: l) = [] :: splitSlash l := by
  simp [splitSlash]

theorem splitSlash_cons_ne {c : UInt8} (h : c ≠ SEP) (l : List UInt8) :
    ∃ p ps, splitSlash l = p :: ps ∧ splitSlash (c :: l) = (c :: p) :: ps := by
  cases hs : splitSlash l with
  | nil => exact absurd hs (splitSlash_ne_nil l)
  | cons p ps => exact ⟨p, ps, rfl, by simp [splitSlash, h, hs]⟩

/-- Pieces of `x ++ "/" ++ y` are the pieces of `x` followed by the pieces of `y`. -/
theorem splitSlash_append_sep : ∀ (x y : List UInt8),
    splitSlash (x ++ SEP :: y) = splitSlash x ++ splitSlash y
  | [], y => by simp [splitSlash]
  | c :: x, y => by
    have ih := splitSlash_append_sep x y
    by_cases h : c = SEP
    · subst h
      simp [splitSlash_cons_sep, ih]
    · obtain ⟨p, ps, h1, h2⟩ := splitSlash_cons_ne h x
      obtain ⟨p', ps', h1', h2'⟩ := splitSlash_cons_ne h (x ++ SEP :: y)
      rw [List.cons_append, h2', h2]
      rw [ih, h1] at h1'
      simp only [List.cons_append, List.cons.injEq] at h1'
      simp [← h1'.1, ← h1'.2]

/-! ## The chunks `Path::hash` writes, in structural form -/

/-- After a separator: is the next piece exactly `.` (`tail == [b'.']` or `[b'.', sep, ..]`)? -/
def dotNext : List UInt8 → Bool
  | [d] => d = DOT
  | d :: s :: _ => d = DOT && s = SEP
  | _ => false

/-- The chunks the byte loop writes for the unread input `rest`, when `cur` is the part of the
    current component already read (`skip`: the next byte is a `.` the loop jumps over). -/
def scan : List UInt8 → Bool → List UInt8 → List (List UInt8)
  | cur, _, [] => if cur = [] then [] else [cur]
  | _, true, _ :: rest => scan [] false rest
  | cur, false, c :: rest =>
    if c = SEP then (if cur = [] then [] else [cur]) ++ scan [] (dotNext rest) rest
    else scan (cur ++ [c]) false rest

/-- What a piece after a separator contributes to the hash: nothing for `""` and `"."`. -/
def pieceChunk (p : List UInt8) : Option (List UInt8) :=
  if p = [] ∨ p = [DOT] then none else some p

/-- Chunks of the input following a separator. -/
def chunksAfterSep (l : List UInt8) : List (List UInt8) := (splitSlash l).filterMap pieceChunk

/-- Chunks of the input when `cur` is the already-read start of the first piece (which is written
    whenever it is non-empty, even when it is `.`: a leading `CurDir`). -/
def chunksFirst (cur l : List UInt8) : List (List UInt8) :=
  match splitSlash l with
  | p :: tl => (if cur ++ p = [] then [] else [cur ++ p]) ++ tl.filterMap pieceChunk
  | [] => []

theorem dotNext_iff (rest : List UInt8) :
    dotNext rest = true ↔ (splitSlash rest).head? = some [DOT] := by
  match rest with
  | [] => simp [dotNext, splitSlash]
  | [d] =>
    by_cases h : d = SEP
    · subst h; simp [dotNext, splitSlash, Ne.symm DOT_ne_SEP]
    · simp [dotNext, splitSlash, h]
  | d :: s :: r =>
    by_cases h : d = SEP
    · subst h; simp [dotNext, splitSlash_cons_sep, Ne.symm DOT_ne_SEP]
    · obtain ⟨p, ps, h1, h2⟩ := splitSlash_cons_ne h (s :: r)
      rw [h2]
      by_cases hs : s = SEP
      · subst hs
        rw [splitSlash_cons_sep] at h1
        simp only [List.cons.injEq] at h1
        simp [dotNext, ← h1.1]
      · obtain ⟨q, qs, _, h4⟩ := splitSlash_cons_ne hs r
        rw [h4] at h1
        simp only [List.cons.injEq] at h1
        simp [dotNext, ← h1.1, hs]

theorem scan_skip' (cur : List UInt8) (c : UInt8) (rest : List UInt8) :
    scan cur true (c :: rest) = scan [] false rest := by
  rw [scan]

theorem scan_eq : ∀ rest : List UInt8,
    (∀ cur, scan cur false rest = chunksFirst cur rest) ∧
    scan [] (dotNext rest) rest = chunksAfterSep rest
  | [] => by simp [scan, chunksFirst, chunksAfterSep, splitSlash, pieceChunk]
  | c :: rest => by
    obtain ⟨ih1, ih2⟩ := scan_eq rest
    have first : ∀ cur, scan cur false (c :: rest) = chunksFirst cur (c :: rest) := by
      intro cur
      by_cases h : c = SEP
      · subst h
        simp [scan, chunksFirst, splitSlash_cons_sep, ih2, chunksAfterSep]
      · obtain ⟨p, ps, h1, h2⟩ := splitSlash_cons_ne h rest
        simp [scan, h, ih1, chunksFirst, h1, h2]
    refine ⟨first, ?_⟩
    by_cases hd : dotNext (c :: rest) = true
    · -- the piece is exactly "."
      rw [hd]
      match rest, hd, ih1 with
      | [], hd, _ =>
        have : c = DOT := by simpa [dotNext] using hd
        subst this
        simp [scan, chunksAfterSep, splitSlash, DOT_ne_SEP, pieceChunk]
      | s :: r, hd, ih1 =>
        have hcs : c = DOT ∧ s = SEP := by simpa [dotNext] using hd
        obtain ⟨rfl, rfl⟩ := hcs
        obtain ⟨p, ps, h1, h2⟩ := splitSlash_cons_ne DOT_ne_SEP (SEP :: r)
        rw [splitSlash_cons_sep] at h1
        simp only [List.cons.injEq] at h1
        rw [scan_skip', ih1]
        simp [chunksFirst, chunksAfterSep, splitSlash_cons_sep, h2, ← h1.1, ← h1.2, pieceChunk]
    · have hd' : dotNext (c :: rest) = false := by simpa using hd
      rw [hd', first]
      have hne : (splitSlash (c :: rest)).head? ≠ some [DOT] := fun e => hd ((dotNext_iff _).mpr e)
      cases hs : splitSlash (c :: rest) with
      | nil => exact absurd hs (splitSlash_ne_nil _)
      | cons p tl =>
        rw [hs] at hne
        have hp : p ≠ [DOT] := by simpa using hne
        simp only [chunksFirst, chunksAfterSep, hs, List.nil_append, List.filterMap_cons, pieceChunk]
        by_cases hp0 : p = []
        · simp [hp0]
        · simp [hp0, hp]

/-! ## The loop computes `scan` -/

/-- One iteration of the `for i in 0..bytes.len()` loop of `pathHashLoop`. -/
def loopStep (bytes : List UInt8) (st : PathHashState) (i : Nat) : PathHashState :=
  if bytes[i]?.getD 0 = SEP then
    let st := if i > st.componentStart then
        st.emit ((bytes.drop st.componentStart).take (i - st.componentStart)) else st
    let cs := i + 1
    let extra := match bytes.drop cs with
      | [d] => if d = DOT then 1 else 0
      | d :: s :: _ => if d = DOT ∧ s = SEP then 1 else 0
      | _ => 0
    { st with componentStart := cs + extra }
  else st

/-- The statements after the loop. -/
def loopFinish (bytes : List UInt8) (st : PathHashState) : List UInt8 :=
  let st := if st.componentStart < bytes.length then st.emit (bytes.drop st.componentStart) else st
  st.out ++ le8 st.chunkBits

theorem pathHashLoop_eq_fold (bytes : List UInt8) :
    pathHashLoop bytes =
      loopFinish bytes ((List.range bytes.length).foldl (loopStep bytes) ⟨0, 0, []⟩) := rfl

/-- Written chunks → the stream: the chunks, then `write_usize(chunk_bits)`. -/
def render (W : List (List UInt8)) : List UInt8 := W.flatten ++ le8 (chunkBits (W.map List.length))

theorem chunkBits_append (L : List Nat) (l : Nat) :
    chunkBits (L ++ [l]) = rotr2 ((chunkBits L + l) % 2 ^ 64) := by
  unfold chunkBits
  rw [List.foldl_append, List.foldl_cons, List.foldl_nil]

theorem extra_eq (rest : List UInt8) :
    (match rest with
      | [d] => if d = DOT then 1 else 0
      | d :: s :: _ => if d = DOT ∧ s = SEP then 1 else 0
      | _ => 0) = if dotNext rest = true then 1 else 0 := by
  match rest with
  | [] => simp [dotNext]
  | [d] => simp [dotNext]
  | d :: s :: r => simp [dotNext]

-- NB: plain `rfl` makes the kernel compare `st` with `st.emit ch` field by field (eta) and loop on
-- `rotr2 (… % 2 ^ 64)`; unfolding first reduces the projection directly.
theorem emit_out (st : PathHashState) (ch : List UInt8) : (st.emit ch).out = st.out ++ ch := by
  unfold PathHashState.emit
  rfl
theorem emit_cs (st : PathHashState) (ch : List UInt8) :
    (st.emit ch).componentStart = st.componentStart := by
  unfold PathHashState.emit
  rfl
theorem emit_cb_raw (st : PathHashState) (ch : List UInt8) :
    (st.emit ch).chunkBits = rotr2 ((st.chunkBits + ch.length) % 2 ^ 64) := by
  unfold PathHashState.emit
  rfl
theorem emit_cb (st : PathHashState) (ch : List UInt8) (L : List Nat) (h : st.chunkBits = chunkBits L) :
    (st.emit ch).chunkBits = chunkBits (L ++ [ch.length]) := by
  rw [emit_cb_raw, h, chunkBits_append]

theorem loopStep_other {bytes : List UInt8} {st : PathHashState} {i : Nat} {c : UInt8}
    (hg : bytes[i]? = some c) (hc : c ≠ SEP) : loopStep bytes st i = st := by
  simp [loopStep, hg, hc]

theorem loopStep_sep_keep {bytes : List UInt8} {st : PathHashState} {i : Nat}
    (hg : bytes[i]? = some SEP) (hn : ¬ i > st.componentStart) :
    loopStep bytes st i =
      { st with componentStart := i + 1 + if dotNext (bytes.drop (i + 1)) = true then 1 else 0 } := by
  have hn' : ¬ st.componentStart < i := hn
  simp [loopStep, hg, extra_eq, hn']

theorem loopStep_sep_emit {bytes : List UInt8} {st : PathHashState} {i : Nat}
    (hg : bytes[i]? = some SEP) (h : i > st.componentStart) :
    loopStep bytes st i =
      { st.emit ((bytes.drop st.componentStart).take (i - st.componentStart)) with
        componentStart := i + 1 + if dotNext (bytes.drop (i + 1)) = true then 1 else 0 } := by
  have h' : st.componentStart < i := h
  simp [loopStep, hg, extra_eq, h']

/-- Loop invariant: `pre` has been read, `W` written; `cur` is the started component
    (`bytes[component_start..i]`), or (`skip`) `component_start = i + 1` and the next byte is `.`. -/
structure LoopRel (pre rest : List UInt8) (st : PathHashState) (W : List (List UInt8))
    (cur : List UInt8) (skip : Bool) : Prop where
  out : st.out = W.flatten
  cb : st.chunkBits = chunkBits (W.map List.length)
  pos : if skip = true then st.componentStart = pre.length + 1 ∧ ∃ r, rest = DOT :: r
        else st.componentStart + cur.length = pre.length ∧ cur = pre.drop st.componentStart

theorem dotNext_cons {rest : List UInt8} (h : dotNext rest = true) : ∃ r, rest = DOT :: r := by
  match rest, h with
  | [d], h => exact ⟨[], by simpa [dotNext] using h⟩
  | d :: s :: r, h =>
    have : d = DOT ∧ s = SEP := by simpa [dotNext] using h
    exact ⟨s :: r, by rw [this.1]⟩

theorem render_snoc_eq (W : List (List UInt8)) (cur : List UInt8) (X : List (List UInt8)) :
    render ((W ++ [cur]) ++ X) = render (W ++ ([cur] ++ X)) := by
  rw [List.append_assoc]

theorem scan_skip (cur : List UInt8) (c : UInt8) (rest : List UInt8) :
    scan cur true (c :: rest) = scan [] false rest := by
  rw [scan]

theorem scan_sep (cur rest : List UInt8) :
    scan cur false (SEP :: rest) =
      (if cur = [] then [] else [cur]) ++ scan [] (dotNext rest) rest := by
  rw [scan]; simp

theorem scan_other (cur rest : List UInt8) {c : UInt8} (h : c ≠ SEP) :
    scan cur false (c :: rest) = scan (cur ++ [c]) false rest := by
  rw [scan]; simp [h]

theorem loop_inv (bytes : List UInt8) : ∀ (rest pre : List UInt8) (st : PathHashState)
    (W : List (List UInt8)) (cur : List UInt8) (skip : Bool),
    bytes = pre ++ rest → LoopRel pre rest st W cur skip →
    loopFinish bytes ((List.range' pre.length rest.length).foldl (loopStep bytes) st)
      = render (W ++ scan cur skip rest)
  | [], pre, st, W, cur, skip, hb, rel => by
    simp only [List.append_nil] at hb
    subst hb
    simp only [List.length_nil, List.range'_zero, List.foldl_nil]
    cases skip with
    | true => have := rel.pos; simp at this
    | false =>
      have hp := rel.pos
      simp only [Bool.false_eq_true, if_false] at hp
      obtain ⟨hlen, hcur⟩ := hp
      by_cases hc : cur = []
      · have hn : ¬ st.componentStart < bytes.length := by
          rw [hc] at hlen; simp at hlen; omega
        unfold loopFinish
        simp only [hn, if_false, scan, hc, if_true, List.append_nil, render, rel.out, rel.cb]
      · have hpos : 0 < cur.length := List.length_pos_iff.mpr hc
        have hlt : st.componentStart < bytes.length := by omega
        unfold loopFinish
        simp only [hlt, if_true, scan, hc, if_false, render, emit_out, ← hcur,
          emit_cb st cur _ rel.cb, rel.out, List.flatten_append, List.map_append, List.map_cons,
          List.map_nil, List.flatten_cons, List.flatten_nil, List.append_nil]
  | c :: rest, pre, st, W, cur, skip, hb, rel => by
    have hb' : bytes = (pre ++ [c]) ++ rest := by simp [hb]
    have hget : bytes[pre.length]? = some c := by simp [hb]
    have hlen' : (pre ++ [c]).length = pre.length + 1 := by simp
    rw [List.length_cons, List.range'_succ, List.foldl_cons, ← hlen']
    cases skip with
    | true =>
      have hp := rel.pos
      simp only [if_true] at hp
      obtain ⟨hcs, r, hr⟩ := hp
      have hc : c = DOT := by simp at hr; exact hr.1
      rw [loopStep_other hget (hc ▸ DOT_ne_SEP)]
      have rel' : LoopRel (pre ++ [c]) rest st W [] false :=
        ⟨rel.out, rel.cb, by simp [hcs]⟩
      rw [loop_inv bytes rest (pre ++ [c]) st W [] false hb' rel', scan_skip]
    | false =>
      have hp := rel.pos
      simp only [Bool.false_eq_true, if_false] at hp
      obtain ⟨hlen, hcur⟩ := hp
      have hle : st.componentStart ≤ pre.length := by omega
      by_cases hc : c = SEP
      · -- a separator
        subst hc
        have hdrop : bytes.drop (pre.length + 1) = rest := by
          rw [hb', ← hlen']; simp
        have htake : (bytes.drop st.componentStart).take (pre.length - st.componentStart) = cur := by
          rw [hb, List.drop_append_of_le_length hle, ← hcur]
          have : pre.length - st.componentStart = cur.length := by omega
          rw [this]; simp
        have hgt : pre.length > st.componentStart ↔ cur ≠ [] := by
          rw [← List.length_pos_iff]; omega
        have hpos : ∀ (s : PathHashState),
            s.componentStart = pre.length + 1 + (if dotNext rest = true then 1 else 0) →
            (if dotNext rest = true then s.componentStart = (pre ++ [SEP]).length + 1 ∧ ∃ r, rest = DOT :: r
              else s.componentStart + ([] : List UInt8).length = (pre ++ [SEP]).length ∧
                ([] : List UInt8) = (pre ++ [SEP]).drop s.componentStart) := by
          intro s hs
          by_cases hd : dotNext rest = true
          · rw [if_pos hd] at hs ⊢
            exact ⟨by rw [hs, hlen'], dotNext_cons hd⟩
          · rw [if_neg hd] at hs ⊢
            refine ⟨by rw [hs, hlen']; simp, ?_⟩
            rw [hs, ← hlen']; simp
        rw [scan_sep]
        by_cases hcur0 : cur = []
        · have hngt : ¬ pre.length > st.componentStart := fun h => (hgt.mp h) hcur0
          have hstep := loopStep_sep_keep (st := st) hget hngt
          rw [hdrop] at hstep
          have rel' : LoopRel (pre ++ [SEP]) rest (loopStep bytes st pre.length) W [] (dotNext rest) := by
            refine ⟨?_, ?_, ?_⟩
            · rw [hstep]; exact rel.out
            · rw [hstep]; exact rel.cb
            · exact hpos _ (by rw [hstep])
          rw [loop_inv bytes rest (pre ++ [SEP]) _ W [] (dotNext rest) hb' rel']
          simp [hcur0]
        · have hgt' : pre.length > st.componentStart := hgt.mpr hcur0
          have hstep := loopStep_sep_emit (st := st) hget hgt'
          rw [hdrop, htake] at hstep
          have rel' : LoopRel (pre ++ [SEP]) rest (loopStep bytes st pre.length) (W ++ [cur]) []
              (dotNext rest) := by
            refine ⟨?_, ?_, ?_⟩
            · rw [hstep]
              show (st.emit cur).out = _
              rw [emit_out, rel.out]; simp
            · rw [hstep]
              show (st.emit cur).chunkBits = _
              rw [emit_cb st cur _ rel.cb]; simp
            · exact hpos _ (by rw [hstep])
          rw [loop_inv bytes rest (pre ++ [SEP]) _ (W ++ [cur]) [] (dotNext rest) hb' rel']
          simp [hcur0]
      · -- an ordinary byte
        rw [loopStep_other hget hc]
        have rel' : LoopRel (pre ++ [c]) rest st W (cur ++ [c]) false := by
          refine ⟨rel.out, rel.cb, ?_⟩
          simp only [Bool.false_eq_true, if_false]
          refine ⟨by simp; omega, ?_⟩
          rw [List.drop_append_of_le_length hle, ← hcur]
        rw [loop_inv bytes rest (pre ++ [c]) st W (cur ++ [c]) false hb' rel', scan_other _ _ hc]

/-- The byte loop writes exactly the chunks `scan` describes. -/
theorem pathHashLoop_eq_scan (bytes : List UInt8) :
    pathHashLoop bytes = render (scan [] false bytes) := by
  rw [pathHashLoop_eq_fold, List.range_eq_range']
  have := loop_inv bytes bytes [] ⟨0, 0, []⟩ [] [] false rfl
    ⟨rfl, rfl, by simp⟩
  simpa using this

/-! ## `components` describes the same chunks -/

theorem pieceComp_bind_hashBytes (p : List UInt8) :
    (pieceComp p).bind Comp.hashBytes = pieceChunk p := by
  unfold pieceComp pieceChunk
  by_cases h0 : p = []
  · simp [h0]
  · by_cases h1 : p = [DOT]
    · simp [h1]
    · by_cases h2 : p = [DOT, DOT]
      · simp [h2, Comp.hashBytes]
      · simp [h0, h1, h2, Comp.hashBytes]

theorem pieceChunk_nil : pieceChunk [] = none := by simp [pieceChunk]
theorem pieceChunk_dot : pieceChunk [DOT] = none := by simp [pieceChunk]
theorem pieceChunk_other {p : List UInt8} (h0 : p ≠ []) (h1 : p ≠ [DOT]) : pieceChunk p = some p := by
  simp [pieceChunk, h0, h1]

theorem components_chunks (bytes : List UInt8) :
    (components bytes).filterMap Comp.hashBytes = chunksFirst [] bytes := by
  unfold components chunksFirst
  simp only [List.filterMap_append, List.filterMap_filterMap, pieceComp_bind_hashBytes]
  have hfun : (fun x => pieceChunk x) = pieceChunk := rfl
  cases hs : splitSlash bytes with
  | nil => exact absurd hs (splitSlash_ne_nil _)
  | cons p tl =>
    simp only [List.head?_cons, List.nil_append, List.filterMap_cons]
    by_cases hroot : bytes.head? = some SEP
    · -- rooted: the first piece is empty
      have hp : p = [] := by
        match bytes, hroot, hs with
        | c :: r, hroot, hs =>
          have : c = SEP := by simpa using hroot
          subst this
          rw [splitSlash_cons_sep] at hs
          simp only [List.cons.injEq] at hs
          exact hs.1.symm
      simp [hroot, hp, Comp.hashBytes, pieceChunk_nil]
    · by_cases hp : p = [DOT]
      · simp [hroot, hp, Comp.hashBytes, pieceChunk_dot]
      · by_cases hp0 : p = []
        · simp [hroot, hp0, pieceChunk_nil]
        · simp [hroot, hp, hp0, pieceChunk_other hp0 hp]

/-- **std's `Path::hash` byte loop is a function of `components`**: the transcription of the loop
    feeds the hasher exactly the stream the path view is defined by, for every byte string. -/
theorem pathHashLoop_eq (bytes : List UInt8) : pathHashLoop bytes = hashStreamV .path bytes := by
  rw [pathHashLoop_eq_scan, (scan_eq bytes).1 [], ← components_chunks]
  rfl

/-! ## `components` is canonical -/

theorem head?_splitSlash_append (x : List UInt8) (ys : List (List UInt8)) :
    (splitSlash x ++ ys).head? = (splitSlash x).head? := by
  cases hs : splitSlash x with
  | nil => exact absurd hs (splitSlash_ne_nil x)
  | cons p ps => simp

theorem head?_append_sep (x y : List UInt8) (z : List UInt8) :
    (x ++ SEP :: y).head? = (x ++ SEP :: z).head? := by
  cases x <;> simp

/-- What follows a separator only matters through the components it yields. -/
theorem components_congr_after_sep (x y1 y2 : List UInt8)
    (h : (splitSlash y1).filterMap pieceComp = (splitSlash y2).filterMap pieceComp) :
    components (x ++ SEP :: y1) = components (x ++ SEP :: y2) := by
  unfold components
  simp only [splitSlash_append_sep, head?_splitSlash_append, List.filterMap_append, h,
    head?_append_sep x y1 y2]

/-- A repeated separator is ignored: `x//y` and `x/y` have the same components. -/
theorem components_repeated_sep' (x y : List UInt8) :
    components (x ++ SEP :: SEP :: y) = components (x ++ SEP :: y) :=
  components_congr_after_sep x (SEP :: y) y (by simp [splitSlash_cons_sep, pieceComp])

/-- An interior `.` is ignored: `x/./y` and `x/y` have the same components. -/
theorem components_interior_dot' (x y : List UInt8) :
    components (x ++ SEP :: DOT :: SEP :: y) = components (x ++ SEP :: y) := by
  refine components_congr_after_sep x (DOT :: SEP :: y) y ?_
  have := splitSlash_append_sep [DOT] y
  simp only [List.cons_append, List.nil_append] at this
  rw [this]
  simp [splitSlash, DOT_ne_SEP, pieceComp]

/-- A trailing separator is ignored (for a non-empty path; `""` has no components, `"/"` has `RootDir`). -/
theorem components_trailing_sep' (x : List UInt8) (hx : x ≠ []) :
    components (x ++ [SEP]) = components x := by
  unfold components
  have hh : (x ++ [SEP]).head? = x.head? := by cases x <;> simp_all
  have hs : splitSlash (x ++ [SEP]) = splitSlash x ++ [[]] := by
    have := splitSlash_append_sep x []
    simpa [splitSlash] using this
  simp only [hh, hs, head?_splitSlash_append, List.filterMap_append]
  simp [pieceComp]

/-- A trailing `/.` is ignored (for a non-empty path). -/
theorem components_trailing_dot' (x : List UInt8) (hx : x ≠ []) :
    components (x ++ [SEP, DOT]) = components x := by
  have h1 : components (x ++ SEP :: [DOT]) = components (x ++ SEP :: []) :=
    components_congr_after_sep x [DOT] [] (by simp [splitSlash, DOT_ne_SEP, pieceComp])
  rw [h1]
  exact components_trailing_sep' x hx

end HipVerif.Views
