import HipVerif.Model.Views

/-!
# Lemmas for C12: laws of the views, soundness of `rowOk` / `borrowOk`

All statements are for every byte string (no bounds).
-/

namespace HipVerif.Views

/-! ## Lawful three-way comparisons -/

/-- A three-way comparison that is a total order consistent with `=`. -/
structure LawfulCmp {α : Type} (c : α → α → Ordering) : Prop where
  eq_iff : ∀ a b, c a b = .eq ↔ a = b
  swap : ∀ a b, c b a = (c a b).swap
  trans : ∀ a b d, c a b = .lt → c b d = .lt → c a d = .lt

theorem cmpByte_lawful : LawfulCmp cmpByte where
  eq_iff a b := by
    unfold cmpByte
    rw [Nat.compare_eq_eq, UInt8.toNat_inj]
  swap a b := by
    unfold cmpByte
    rw [← Nat.compare_swap]
  trans a b d := by
    unfold cmpByte
    simp only [Nat.compare_eq_lt]
    omega

theorem lexBy_eq_iff {α : Type} {c : α → α → Ordering} (hc : ∀ a b, c a b = .eq ↔ a = b) :
    ∀ x y, lexBy c x y = .eq ↔ x = y
  | [], [] => by simp [lexBy]
  | [], _ :: _ => by simp [lexBy]
  | _ :: _, [] => by simp [lexBy]
  | a :: as, b :: bs => by
    have ih := lexBy_eq_iff hc as bs
    have hab := hc a b
    unfold lexBy
    cases h : c a b
    · have : a ≠ b := by intro e; rw [hab.mpr e] at h; cases h
      simp [this]
    · simp [ih, hab.mp h]
    · have : a ≠ b := by intro e; rw [hab.mpr e] at h; cases h
      simp [this]

theorem lexBy_swap {α : Type} {c : α → α → Ordering} (hs : ∀ a b, c b a = (c a b).swap) :
    ∀ x y, lexBy c y x = (lexBy c x y).swap
  | [], [] => by simp [lexBy]
  | [], _ :: _ => by simp [lexBy]
  | _ :: _, [] => by simp [lexBy]
  | a :: as, b :: bs => by
    have ih := lexBy_swap hs as bs
    have hab := hs a b
    unfold lexBy
    cases h : c a b <;> rw [h] at hab <;> simp [hab, ih]

theorem lexBy_cons_lt {α : Type} {c : α → α → Ordering} {a b : α} {as bs : List α} :
    lexBy c (a :: as) (b :: bs) = .lt ↔ c a b = .lt ∨ (c a b = .eq ∧ lexBy c as bs = .lt) := by
  rw [lexBy]
  cases h : c a b <;> simp

theorem lexBy_trans {α : Type} {c : α → α → Ordering} (hc : LawfulCmp c) :
    ∀ x y z, lexBy c x y = .lt → lexBy c y z = .lt → lexBy c x z = .lt
  | [], [], _ => by simp [lexBy]
  | [], _ :: _, [] => by simp [lexBy]
  | [], _ :: _, _ :: _ => by simp [lexBy]
  | _ :: _, [], _ => by simp [lexBy]
  | _ :: _, _ :: _, [] => by simp [lexBy]
  | a :: as, b :: bs, d :: ds => by
    have ih := lexBy_trans hc as bs ds
    simp only [lexBy_cons_lt]
    rintro (h1 | ⟨h1, r1⟩) (h2 | ⟨h2, r2⟩)
    · exact .inl (hc.trans a b d h1 h2)
    · rw [(hc.eq_iff b d).mp h2] at h1; exact .inl h1
    · rw [← (hc.eq_iff a b).mp h1] at h2; exact .inl h2
    · refine .inr ⟨?_, ih r1 r2⟩
      rw [(hc.eq_iff a b).mp h1, (hc.eq_iff b d).mp h2]
      exact (hc.eq_iff d d).mpr rfl

theorem lexBy_lawful {α : Type} {c : α → α → Ordering} (hc : LawfulCmp c) : LawfulCmp (lexBy c) where
  eq_iff := lexBy_eq_iff hc.eq_iff
  swap x y := lexBy_swap hc.swap x y
  trans := lexBy_trans hc

theorem lexCmp_lawful : LawfulCmp lexCmp := lexBy_lawful cmpByte_lawful

theorem compCmp_lawful : LawfulCmp Comp.cmp where
  eq_iff a b := by
    cases a <;> cases b <;> simp [Comp.cmp, Comp.rank, lexCmp_lawful.eq_iff]
  swap a b := by
    cases a <;> cases b <;> first | exact lexCmp_lawful.swap _ _ | rfl
  trans a b d := by
    cases a <;> cases b <;> cases d <;>
      first
      | exact lexCmp_lawful.trans _ _ _
      | simp [Comp.cmp, Comp.rank, Nat.compare_eq_lt]

theorem compsCmp_lawful : LawfulCmp (lexBy Comp.cmp) := lexBy_lawful compCmp_lawful

/-! ## Laws of the views -/

theorem eqV_refl (v : View) (x : List UInt8) : eqV v x x = true := by
  cases v <;> simp [eqV]

theorem eqV_symm (v : View) (x y : List UInt8) : eqV v x y = eqV v y x := by
  cases v <;> simp only [eqV] <;> exact decide_eq_decide.mpr ⟨Eq.symm, Eq.symm⟩

theorem eqV_iff_cmpV (v : View) (x y : List UInt8) : eqV v x y = true ↔ cmpV v x y = .eq := by
  cases v <;> simp [eqV, cmpV, lexCmp_lawful.eq_iff, compsCmp_lawful.eq_iff]

theorem eqV_hash (v : View) (x y : List UInt8) (h : eqV v x y = true) :
    hashStreamV v x = hashStreamV v y := by
  cases v <;> simp [eqV] at h <;> simp [hashStreamV, h]

theorem cmpV_swap (v : View) (x y : List UInt8) : cmpV v y x = (cmpV v x y).swap := by
  cases v <;> simp only [cmpV]
  · exact lexCmp_lawful.swap x y
  · exact lexCmp_lawful.swap x y
  · exact lexCmp_lawful.swap x y
  · exact compsCmp_lawful.swap _ _

theorem cmpV_trans (v : View) (x y z : List UInt8) :
    cmpV v x y = .lt → cmpV v y z = .lt → cmpV v x z = .lt := by
  cases v <;> simp only [cmpV]
  · exact lexCmp_lawful.trans x y z
  · exact lexCmp_lawful.trans x y z
  · exact lexCmp_lawful.trans x y z
  · exact compsCmp_lawful.trans _ _ _

/-- `Ord` respects `Eq`: equal values are interchangeable in comparisons. -/
theorem cmpV_congr (v : View) (x x' y : List UInt8) (h : eqV v x x' = true) :
    cmpV v x y = cmpV v x' y := by
  cases v <;> simp [eqV] at h <;> simp [cmpV, h]

theorem sameCmp_eqV {v w : View} (h : sameCmp v w = true) : eqV v = eqV w := by
  cases v <;> cases w <;> first | rfl | (simp [sameCmp] at h)

theorem sameCmp_cmpV {v w : View} (h : sameCmp v w = true) : cmpV v = cmpV w := by
  cases v <;> cases w <;> first | rfl | (simp [sameCmp] at h)

theorem sameHash_hashStreamV {v w : View} (h : sameHash v w = true) : hashStreamV v = hashStreamV w := by
  cases v <;> cases w <;> first | rfl | (simp [sameHash] at h)

/-! ## `inherent_eq` -/

theorem memcmpIsZero_iff (a b : List UInt8) : memcmpIsZero a b = true ↔ a = b := by
  simp [memcmpIsZero, lexCmp_lawful.eq_iff]

/-! ## What a row computes, and soundness of `rowOk` -/

/-- The byte string an argument position receives. -/
def pickArg (a : Arg) (x y : List UInt8) : List UInt8 :=
  match a with
  | .self => x
  | .other => y

/-- The result of the `eq` method of a `PartialEq` row on `self = x`, `other = y`, as the body
    computes it. `samePtr` is the outcome of a `ptr::eq` shortcut when the body has one. -/
def evalEq (env : Env) (row : CmpRow) (samePtr : Bool) (x y : List UInt8) : Option Bool :=
  match row.body with
  | .helper _ _ _ _ a1 a2 _ _ _ =>
    (viewOf env FUEL row).map fun v => eqV v (pickArg a1 x y) (pickArg a2 x y)
  | .viaAccessor sc _ _ =>
    (viewOf env FUEL row).map fun v =>
      match sc with
      | .none => eqV v x y
      | .ptrEqEncodedBytes => samePtr || eqV v x y
  | .inherentEq | .field0Eq => (viewOf env FUEL row).map fun v => eqV v x y
  | _ => none

/-- The result of `partial_cmp` (unwrapped) / `cmp` of a `PartialOrd`/`Ord` row. -/
def evalCmp (env : Env) (row : CmpRow) (x y : List UInt8) : Option Ordering :=
  match row.body with
  | .helper _ _ _ _ a1 a2 rev _ _ =>
    (viewOf env FUEL row).map fun v =>
      let o := cmpV v (pickArg a1 x y) (pickArg a2 x y)
      if rev then o.swap else o
  | .viaAccessor .none _ _ => (viewOf env FUEL row).map fun v => cmpV v x y
  | _ => none

theorem viewsAgree_cmp {tr : TraitKind} {g e : Option View} (htr : tr ≠ .hash)
    (h : viewsAgree tr g e = true) : ∃ v w, g = some v ∧ e = some w ∧ sameCmp v w = true := by
  cases g <;> cases e <;> simp [viewsAgree, htr] at h
  exact ⟨_, _, rfl, rfl, h⟩

theorem viewsAgree_hash {g e : Option View}
    (h : viewsAgree .hash g e = true) : ∃ v w, g = some v ∧ e = some w ∧ sameHash v w = true := by
  cases g <;> cases e <;> simp [viewsAgree] at h
  exact ⟨_, _, rfl, rfl, h⟩

/-- A `PartialEq` row accepted by `rowOk` returns what std returns on the std views. -/
theorem rowOk_eq_sound (env : Env) (row : CmpRow) (htr : row.trait = .partialEq)
    (hok : rowOk env row = true) (samePtr : Bool) (x y : List UInt8) (hptr : samePtr = true → x = y) :
    ∃ w, expectedView row = some w ∧ evalEq env row samePtr x y = some (eqV w x y) := by
  unfold rowOk at hok
  rw [htr] at hok
  cases hb : row.body with
  | helper n t1 t2 op a1 a2 rev hl ml =>
    rw [hb] at hok
    simp only [Bool.and_eq_true] at hok
    obtain ⟨⟨⟨⟨⟨_, hperm⟩, _⟩, _⟩, _⟩, hv⟩ := hok
    obtain ⟨v, w, hg, he, hs⟩ := viewsAgree_cmp (by simp) hv
    refine ⟨w, he, ?_⟩
    simp only [evalEq, hb, hg, Option.map_some, ← sameCmp_eqV hs]
    cases a1 <;> cases a2 <;> simp at hperm <;> simp [pickArg, eqV_symm v y x]
  | viaAccessor sc acc op =>
    rw [hb] at hok
    simp only [Bool.and_eq_true] at hok
    obtain ⟨v, w, hg, he, hs⟩ := viewsAgree_cmp (by simp) hok.2
    refine ⟨w, he, ?_⟩
    simp only [evalEq, hb, hg, Option.map_some, ← sameCmp_eqV hs]
    cases sc
    · rfl
    · cases hsp : samePtr
      · simp
      · simp [hptr hsp, eqV_refl]
  | inherentEq =>
    rw [hb] at hok
    obtain ⟨v, w, hg, he, hs⟩ := viewsAgree_cmp (by simp) hok
    exact ⟨w, he, by simp only [evalEq, hb, hg, Option.map_some, ← sameCmp_eqV hs]⟩
  | field0Eq =>
    rw [hb] at hok
    obtain ⟨v, w, hg, he, hs⟩ := viewsAgree_cmp (by simp) hok
    exact ⟨w, he, by simp only [evalEq, hb, hg, Option.map_some, ← sameCmp_eqV hs]⟩
  | marker => rw [hb] at hok; simp at hok
  | hashVia a => rw [hb] at hok; simp at hok

/-- A `PartialOrd`/`Ord` row accepted by `rowOk` returns what std returns on the std views; in
    particular the swapped order of `symmetric_ord!` is reversed exactly when it has to be. -/
theorem rowOk_cmp_sound (env : Env) (row : CmpRow) (htr : row.trait = .partialOrd ∨ row.trait = .ord)
    (hok : rowOk env row = true) (x y : List UInt8) :
    ∃ w, expectedView row = some w ∧ evalCmp env row x y = some (cmpV w x y) := by
  unfold rowOk at hok
  cases hb : row.body with
  | helper n t1 t2 op a1 a2 rev hl ml =>
    rcases htr with htr | htr <;> rw [htr, hb] at hok
    · simp only [Bool.and_eq_true] at hok
      obtain ⟨⟨⟨⟨⟨_, hperm⟩, hrev⟩, _⟩, _⟩, hv⟩ := hok
      obtain ⟨v, w, hg, he, hs⟩ := viewsAgree_cmp (by simp) hv
      refine ⟨w, he, ?_⟩
      simp only [evalCmp, hb, hg, Option.map_some, ← sameCmp_cmpV hs]
      cases a1 <;> cases a2 <;> simp at hperm <;> simp at hrev <;> simp [pickArg, hrev, cmpV_swap v y x]
    · simp at hok
  | viaAccessor sc acc op =>
    rcases htr with htr | htr <;> rw [htr, hb] at hok <;> simp only [Bool.and_eq_true] at hok
    · obtain ⟨⟨hsc, _⟩, hv⟩ := hok
      obtain ⟨v, w, hg, he, hs⟩ := viewsAgree_cmp (by simp) hv
      have hsc : sc = .none := by simpa using hsc
      subst hsc
      exact ⟨w, he, by simp only [evalCmp, hb, hg, Option.map_some, ← sameCmp_cmpV hs]⟩
    · obtain ⟨⟨⟨hsc, _⟩, _⟩, hv⟩ := hok
      obtain ⟨v, w, hg, he, hs⟩ := viewsAgree_cmp (by simp) hv
      have hsc : sc = .none := by simpa using hsc
      subst hsc
      exact ⟨w, he, by simp only [evalCmp, hb, hg, Option.map_some, ← sameCmp_cmpV hs]⟩
  | inherentEq => rcases htr with htr | htr <;> rw [htr, hb] at hok <;> simp at hok
  | field0Eq => rcases htr with htr | htr <;> rw [htr, hb] at hok <;> simp at hok
  | marker => rcases htr with htr | htr <;> rw [htr, hb] at hok <;> simp at hok
  | hashVia a => rcases htr with htr | htr <;> rw [htr, hb] at hok <;> simp at hok

/-- A `Hash` row accepted by `rowOk` feeds the hasher the stream the std counterpart feeds. -/
theorem rowOk_hash_sound (env : Env) (row : CmpRow) (htr : row.trait = .hash)
    (hok : rowOk env row = true) (x : List UInt8) :
    ∃ v, viewOf env FUEL row = some v ∧
      hashStreamV v x = hashStreamV (hashViewOf row.lhs.target) x := by
  unfold rowOk at hok
  rw [htr] at hok
  cases hb : row.body <;> rw [hb] at hok <;> simp only [Bool.and_eq_true] at hok <;> try (simp at hok; done)
  obtain ⟨v, w, hg, he, hs⟩ := viewsAgree_hash hok.2
  refine ⟨v, hg, ?_⟩
  simp only [expectedView, htr, Option.some.injEq] at he
  rw [sameHash_hashStreamV hs, he]

/-- What `borrowOk` means: through the `Borrow` target, `==`, `cmp` and the hash stream are those of
    the owner. -/
theorem borrowOk_sound (env : Env) (b : BorrowRow) (hok : borrowOk env b = true) :
    ∃ ve vo vh tv,
      env.ownerView .partialEq b.owner = some ve ∧ env.ownerView .ord b.owner = some vo ∧
      env.ownerView .hash b.owner = some vh ∧ stdView b.target b.target = some tv ∧
      ∀ x y, eqV ve x y = eqV tv x y ∧ cmpV vo x y = cmpV tv x y ∧
        hashStreamV vh x = hashStreamV (hashViewOf b.target) x := by
  unfold borrowOk at hok
  simp only [Bool.and_eq_true] at hok
  obtain ⟨⟨⟨⟨_, h1⟩, _⟩, h3⟩, h4⟩ := hok
  obtain ⟨ve, tv, hg1, he1, hs1⟩ := viewsAgree_cmp (by simp) h1
  obtain ⟨vo, tv', hg3, he3, hs3⟩ := viewsAgree_cmp (by simp) h3
  obtain ⟨vh, th, hg4, he4, hs4⟩ := viewsAgree_hash h4
  rw [he1] at he3
  cases he3
  cases he4
  exact ⟨ve, vo, vh, tv, hg1, hg3, hg4, he1, fun x y =>
    ⟨by rw [sameCmp_eqV hs1], by rw [sameCmp_cmpV hs3], by rw [sameHash_hashStreamV hs4]⟩⟩

end HipVerif.Views
