/-
`WfX` through the primitive state transformers (take / put a handle, `release`, `incr`,
`newHeap`, `boxVec`), and what they do to views.  Every operation of `step` is a short
sequence of these.
-/
import HipVerif.Lemmas.CoreBasic

namespace HipVerif.Core

/-! ### `HandleOk` / `view` only look at `srcs` and `inners` -/

theorem handleOk_congr {cfg : Cfg} {s s' : State} {hd : Handle}
    (hs : s'.srcs = s.srcs) (hi : ∀ i, getI s' i = getI s i) :
    HandleOk cfg s' hd ↔ HandleOk cfg s hd := by
  unfold HandleOk
  cases hd.repr <;> simp [hs, hi]

theorem view_congr {s s' : State} {hd : Handle}
    (hs : s'.srcs = s.srcs) (hi : ∀ i, getI s' i = getI s i) : view s' hd = view s hd := by
  unfold view
  cases hd.repr <;> simp [hs, hi]

@[simp] theorem view_setH (s : State) (h : Nat) (v : Option Handle) (hd : Handle) :
    view (setH s h v) hd = view s hd := view_congr rfl (fun _ => rfl)

@[simp] theorem handleOk_setH (cfg : Cfg) (s : State) (h : Nat) (v : Option Handle) (hd : Handle) :
    HandleOk cfg (setH s h v) hd ↔ HandleOk cfg s hd := handleOk_congr rfl (fun _ => rfl)

theorem no_ref_of_refsTo_zero {s : State} {i : Nat} (hz : refsTo s i = 0) {h : Nat} {hd : Handle}
    (hg : getH s h = some hd) : pointsTo i (some hd) = false := by
  cases hp : pointsTo i (some hd)
  · rfl
  · have := refsTo_pos_of_getH hg hp; omega

/-! ### taking a handle out of the pool, putting one in -/

theorem wfx_take_heap {cfg : Cfg} {s : State} {ex : List Nat} (w : WfX cfg s ex)
    {h : Nat} {hd : Handle} (hg : getH s h = some hd) {o b off len : Nat}
    (hr : hd.repr = .heap o b off len) : WfX cfg (setH s h none) (o :: ex) := by
  have hl := getH_some_lt hg
  have hpt : ∀ i, pointsTo i (getH s h) = (o == i) := by
    intro i; rw [hg]; cases hd; simp_all [pointsTo]
  have hrefs : ∀ i, refsTo (setH s h none) i + (if o == i then 1 else 0) = refsTo s i := by
    intro i
    rw [refsTo_setH _ _ _ _ hl, hpt]
    by_cases hoi : (o == i) = true
    · have : pointsTo i (some hd) = true := by rw [← hg, hpt]; exact hoi
      have := refsTo_pos_of_getH hg this
      simp [hoi]; omega
    · simp [hoi]
  refine { handles := ?_, held := ?_, counts := ?_, uniq := w.uniq, ceil := w.ceil, dead := ?_,
           datacap := w.datacap, bufFresh := w.bufFresh, bufDistinct := w.bufDistinct }
  · intro h' hd' hg'
    by_cases he : h = h'
    · subst he; rw [getH_setH_same _ _ _ hl] at hg'; cases hg'
    · rw [getH_setH_other _ _ _ _ he] at hg'
      exact (handleOk_setH ..).mpr (w.handles h' hd' hg')
  · intro i hi
    rcases List.mem_cons.mp hi with rfl | hi
    · have := w.handles h hd hg
      unfold HandleOk at this; rw [hr] at this
      obtain ⟨x, hx, hlive, _⟩ := this
      exact ⟨x, hx, hlive⟩
    · exact w.held i hi
  · intro i x hx hlive
    have := w.counts i x hx hlive
    have := hrefs i
    simp only [getI_setH] at hx
    rw [List.count_cons]
    by_cases hoi : (o == i) = true <;> simp_all <;> omega
  · intro i x hx hdead
    have := w.dead i x hx hdead
    have := hrefs i
    omega

theorem wfx_take_nonheap {cfg : Cfg} {s : State} {ex : List Nat} (w : WfX cfg s ex)
    {h : Nat} {hd : Handle} (hg : getH s h = some hd) (hnh : isHeap hd = false) :
    WfX cfg (setH s h none) ex := by
  have hl := getH_some_lt hg
  have hpt : ∀ i, pointsTo i (getH s h) = false := by
    intro i; rw [hg]; cases hd with | mk r t => cases r <;> simp_all [pointsTo, isHeap]
  have hrefs : ∀ i, refsTo (setH s h none) i = refsTo s i := by
    intro i; rw [refsTo_setH _ _ _ _ hl, hpt]; simp
  refine { handles := ?_, held := w.held, counts := ?_, uniq := w.uniq, ceil := w.ceil, dead := ?_,
           datacap := w.datacap, bufFresh := w.bufFresh, bufDistinct := w.bufDistinct }
  · intro h' hd' hg'
    by_cases he : h = h'
    · subst he; rw [getH_setH_same _ _ _ hl] at hg'; cases hg'
    · rw [getH_setH_other _ _ _ _ he] at hg'
      exact (handleOk_setH ..).mpr (w.handles h' hd' hg')
  · intro i x hx hlive; rw [hrefs]; exact w.counts i x hx hlive
  · intro i x hx hdead; rw [hrefs]; exact w.dead i x hx hdead

/-- install a heap descriptor held locally into an empty slot -/
theorem wfx_put_heap {cfg : Cfg} {s : State} {ex : List Nat} {o : Nat} (w : WfX cfg s (o :: ex))
    {d : Nat} (hfree : getH s d = none) (hl : d < s.pool.length)
    {x : Inner} (hx : getI s o = some x) {b off len : Nat} (hb : b = x.buf)
    (hr : off + len ≤ x.data.length) (t : Bool) :
    WfX cfg (setH s d (some { repr := .heap o b off len, tainted := t })) ex := by
  have hlive : x.live = true := by
    obtain ⟨x', hx', hl'⟩ := w.held o (List.mem_cons_self ..)
    rw [hx] at hx'; cases hx'; exact hl'
  have hrefs : ∀ i, refsTo (setH s d (some { repr := .heap o b off len, tainted := t })) i =
      refsTo s i + (if o == i then 1 else 0) := by
    intro i
    rw [refsTo_setH _ _ _ _ hl, hfree]
    simp [pointsTo]
  refine { handles := ?_, held := ?_, counts := ?_, uniq := w.uniq, ceil := w.ceil, dead := ?_,
           datacap := w.datacap, bufFresh := w.bufFresh, bufDistinct := w.bufDistinct }
  · intro h' hd' hg'
    by_cases he : d = h'
    · subst he
      rw [getH_setH_same _ _ _ hl] at hg'; cases hg'
      refine (handleOk_setH ..).mpr ?_
      exact ⟨x, hx, hlive, hb, hr⟩
    · rw [getH_setH_other _ _ _ _ he] at hg'
      exact (handleOk_setH ..).mpr (w.handles h' hd' hg')
  · intro i hi; exact w.held i (List.mem_cons_of_mem _ hi)
  · intro i y hy hyl
    have h1 := w.counts i y hy hyl
    rw [hrefs]
    rw [List.count_cons] at h1
    omega
  · intro i y hy hyd
    rw [hrefs]
    have := w.dead i y hy hyd
    by_cases hoi : (o == i) = true
    · have : o = i := by simpa using hoi
      subst this
      simp only [getI_setH] at hy
      rw [hx] at hy; cases hy
      rw [hlive] at hyd; cases hyd
    · simp [hoi]; exact this

/-- install a non-heap handle into an empty slot -/
theorem wfx_put_nonheap {cfg : Cfg} {s : State} {ex : List Nat} (w : WfX cfg s ex)
    {d : Nat} (hfree : getH s d = none) (hl : d < s.pool.length)
    {hd : Handle} (hok : HandleOk cfg s hd) (hnh : isHeap hd = false) :
    WfX cfg (setH s d (some hd)) ex := by
  have hpt : ∀ i, pointsTo i (some hd) = false := by
    intro i; cases hd with | mk r t => cases r <;> simp_all [pointsTo, isHeap]
  have hrefs : ∀ i, refsTo (setH s d (some hd)) i = refsTo s i := by
    intro i; rw [refsTo_setH _ _ _ _ hl, hfree, hpt]; simp
  refine { handles := ?_, held := w.held, counts := ?_, uniq := w.uniq, ceil := w.ceil, dead := ?_,
           datacap := w.datacap, bufFresh := w.bufFresh, bufDistinct := w.bufDistinct }
  · intro h' hd' hg'
    by_cases he : d = h'
    · subst he; rw [getH_setH_same _ _ _ hl] at hg'; cases hg'
      exact (handleOk_setH ..).mpr hok
    · rw [getH_setH_other _ _ _ _ he] at hg'
      exact (handleOk_setH ..).mpr (w.handles h' hd' hg')
  · intro i x hx hlive; rw [hrefs]; exact w.counts i x hx hlive
  · intro i x hx hdead; rw [hrefs]; exact w.dead i x hx hdead

/-! ### `release` (drop one share) -/

theorem release_srcs (cfg : Cfg) (s : State) (o : Nat) : (release cfg s o).1.srcs = s.srcs := by
  unfold release
  cases getI s o with
  | none => rfl
  | some x => simp only []; split <;> rfl

theorem release_pool (cfg : Cfg) (s : State) (o : Nat) : (release cfg s o).1.pool = s.pool := by
  unfold release
  cases getI s o with
  | none => rfl
  | some x => simp only []; split <;> rfl

theorem release_nextBuf (cfg : Cfg) (s : State) (o : Nat) : (release cfg s o).1.nextBuf = s.nextBuf := by
  unfold release
  cases getI s o with
  | none => rfl
  | some x => simp only []; split <;> rfl

theorem release_getH (cfg : Cfg) (s : State) (o h : Nat) : getH (release cfg s o).1 h = getH s h := by
  simp [getH, release_pool]

theorem release_refsTo (cfg : Cfg) (s : State) (o i : Nat) : refsTo (release cfg s o).1 i = refsTo s i := by
  simp [refsTo, release_pool]

theorem release_getI_other (cfg : Cfg) (s : State) (o j : Nat) (hne : o ≠ j) :
    getI (release cfg s o).1 j = getI s j := by
  unfold release
  cases getI s o with
  | none => rfl
  | some x => simp only []; split <;> simp [hne]

/-- `release` only touches the count and the liveness flag: the data, capacity and buffer of
every inner are unchanged -/
theorem release_getI_data (cfg : Cfg) (s : State) (o j : Nat) :
    (getI (release cfg s o).1 j).map (fun x => (x.data, x.cap, x.buf)) =
      (getI s j).map (fun x => (x.data, x.cap, x.buf)) := by
  by_cases hne : o = j
  · subst hne
    unfold release
    split
    · rename_i x hx
      have hl := getI_some_lt hx
      split <;> simp [hl, hx]
    · rfl
  · rw [release_getI_other _ _ _ _ hne]

theorem view_release (cfg : Cfg) (s : State) (o : Nat) (hd : Handle) :
    view (release cfg s o).1 hd = view s hd := by
  unfold view
  cases hd.repr with
  | inline bs => rfl
  | borrowed a b c => simp [release_srcs]
  | heap ow pb off len =>
    have := release_getI_data cfg s o ow
    cases h1 : getI (release cfg s o).1 ow <;> cases h2 : getI s ow <;> simp_all

theorem wfx_release {cfg : Cfg} {s : State} {ex : List Nat} {o : Nat} (w : WfX cfg s (o :: ex)) :
    WfX cfg (release cfg s o).1 ex := by
  obtain ⟨x, hx, hlive⟩ := w.held o (List.mem_cons_self ..)
  have hlt := getI_some_lt hx
  have hcnt := w.counts o x hx hlive
  rw [List.count_cons] at hcnt
  simp only [beq_self_eq_true, if_true] at hcnt
  unfold release
  rw [hx]
  by_cases hlast : (cfg.backend == .unique || x.count == 0) = true
  · -- last share: the inner dies
    simp only [hlast, if_true]
    have hc0 : x.count = 0 := by
      rcases Bool.or_eq_true .. |>.mp hlast with hu | hz
      · exact w.uniq (by simpa using hu) o x hx hlive
      · simpa using hz
    have hr0 : refsTo s o = 0 := by omega
    have he0 : ex.count o = 0 := by omega
    refine { handles := ?_, held := ?_, counts := ?_, uniq := ?_, ceil := ?_, dead := ?_,
             datacap := ?_, bufFresh := ?_, bufDistinct := ?_ }
    · intro h hd hg
      simp only [getH_setI] at hg
      have hok := w.handles h hd hg
      have hnp := no_ref_of_refsTo_zero hr0 hg
      unfold HandleOk at hok ⊢
      cases hrp : hd.repr with
      | inline bs => rw [hrp] at hok; exact hok
      | borrowed a b c => rw [hrp] at hok; simpa using hok
      | heap ow pb off len =>
        rw [hrp] at hok
        have hne : o ≠ ow := by
          intro he; subst he
          cases hd; simp_all [pointsTo]
        simpa [getI_setI_other _ _ _ _ hne] using hok
    · intro i hi
      have hne : o ≠ i := by
        intro he; subst he
        have := List.count_pos_iff.mpr hi; omega
      obtain ⟨y, hy, hyl⟩ := w.held i (List.mem_cons_of_mem _ hi)
      exact ⟨y, by simpa [getI_setI_other _ _ _ _ hne] using hy, hyl⟩
    · intro i y hy hyl
      by_cases hne : o = i
      · subst hne; rw [getI_setI_same _ _ _ hlt] at hy; cases hy; cases hyl
      · rw [getI_setI_other _ _ _ _ hne] at hy
        have := w.counts i y hy hyl
        rw [List.count_cons] at this
        simp only [refsTo_setI]
        have : (o == i) = false := by simpa using hne
        simp_all
    · intro hu i y hy hyl
      by_cases hne : o = i
      · subst hne; rw [getI_setI_same _ _ _ hlt] at hy; cases hy; cases hyl
      · rw [getI_setI_other _ _ _ _ hne] at hy; exact w.uniq hu i y hy hyl
    · intro i y hy hyl
      by_cases hne : o = i
      · subst hne; rw [getI_setI_same _ _ _ hlt] at hy; cases hy; cases hyl
      · rw [getI_setI_other _ _ _ _ hne] at hy; exact w.ceil i y hy hyl
    · intro i y hy hyd
      simp only [refsTo_setI]
      by_cases hne : o = i
      · subst hne; exact hr0
      · rw [getI_setI_other _ _ _ _ hne] at hy; exact w.dead i y hy hyd
    · intro i y hy hyl
      by_cases hne : o = i
      · subst hne; rw [getI_setI_same _ _ _ hlt] at hy; cases hy; cases hyl
      · rw [getI_setI_other _ _ _ _ hne] at hy; exact w.datacap i y hy hyl
    · intro i y hy
      simp only [nextBuf_setI]
      by_cases hne : o = i
      · subst hne; rw [getI_setI_same _ _ _ hlt] at hy; cases hy; exact w.bufFresh o x hx
      · rw [getI_setI_other _ _ _ _ hne] at hy; exact w.bufFresh i y hy
    · intro i j y z hy hz hij hyl hzl
      by_cases hi : o = i
      · subst hi; rw [getI_setI_same _ _ _ hlt] at hy; cases hy; cases hyl
      · by_cases hj : o = j
        · subst hj; rw [getI_setI_same _ _ _ hlt] at hz; cases hz; cases hzl
        · rw [getI_setI_other _ _ _ _ hi] at hy; rw [getI_setI_other _ _ _ _ hj] at hz
          exact w.bufDistinct i j y z hy hz hij hyl hzl
  · -- still shared: decrement
    simp only [hlast, Bool.false_eq_true, if_false]
    have hnu : cfg.backend ≠ .unique := by
      intro hu; simp [hu] at hlast
    have hpos : x.count ≠ 0 := by
      intro hz; simp [hz] at hlast
    refine { handles := ?_, held := ?_, counts := ?_, uniq := ?_, ceil := ?_, dead := ?_,
             datacap := ?_, bufFresh := ?_, bufDistinct := ?_ }
    · intro h hd hg
      simp only [getH_setI] at hg
      have hok := w.handles h hd hg
      unfold HandleOk at hok ⊢
      cases hrp : hd.repr with
      | inline bs => rw [hrp] at hok; exact hok
      | borrowed a b c => rw [hrp] at hok; simpa using hok
      | heap ow pb off len =>
        rw [hrp] at hok
        by_cases hne : o = ow
        · subst hne
          obtain ⟨y, hy, hyl, hb, hr⟩ := hok
          rw [hx] at hy; cases hy
          exact ⟨_, getI_setI_same _ _ _ hlt, hyl, hb, hr⟩
        · simpa [getI_setI_other _ _ _ _ hne] using hok
    · intro i hi
      by_cases hne : o = i
      · subst hne; exact ⟨_, getI_setI_same _ _ _ hlt, hlive⟩
      · obtain ⟨y, hy, hyl⟩ := w.held i (List.mem_cons_of_mem _ hi)
        exact ⟨y, by simpa [getI_setI_other _ _ _ _ hne] using hy, hyl⟩
    · intro i y hy hyl
      simp only [refsTo_setI]
      by_cases hne : o = i
      · subst hne; rw [getI_setI_same _ _ _ hlt] at hy; cases hy
        simp only; omega
      · rw [getI_setI_other _ _ _ _ hne] at hy
        have := w.counts i y hy hyl
        rw [List.count_cons] at this
        have : (o == i) = false := by simpa using hne
        simp_all
    · intro hu; exact absurd hu hnu
    · intro i y hy hyl
      by_cases hne : o = i
      · subst hne; rw [getI_setI_same _ _ _ hlt] at hy; cases hy
        have := w.ceil o x hx hlive
        simp only; omega
      · rw [getI_setI_other _ _ _ _ hne] at hy; exact w.ceil i y hy hyl
    · intro i y hy hyd
      simp only [refsTo_setI]
      by_cases hne : o = i
      · subst hne; rw [getI_setI_same _ _ _ hlt] at hy; cases hy
        simp only at hyd; rw [hlive] at hyd; cases hyd
      · rw [getI_setI_other _ _ _ _ hne] at hy; exact w.dead i y hy hyd
    · intro i y hy hyl
      by_cases hne : o = i
      · subst hne; rw [getI_setI_same _ _ _ hlt] at hy; cases hy; exact w.datacap o x hx hlive
      · rw [getI_setI_other _ _ _ _ hne] at hy; exact w.datacap i y hy hyl
    · intro i y hy
      simp only [nextBuf_setI]
      by_cases hne : o = i
      · subst hne; rw [getI_setI_same _ _ _ hlt] at hy; cases hy; exact w.bufFresh o x hx
      · rw [getI_setI_other _ _ _ _ hne] at hy; exact w.bufFresh i y hy
    · intro i j y z hy hz hij hyl hzl
      by_cases hi : o = i
      · subst hi
        rw [getI_setI_same _ _ _ hlt] at hy; cases hy
        rw [getI_setI_other _ _ _ _ hij] at hz
        exact w.bufDistinct o j x z hx hz hij hlive hzl
      · by_cases hj : o = j
        · subst hj
          rw [getI_setI_same _ _ _ hlt] at hz; cases hz
          rw [getI_setI_other _ _ _ _ hi] at hy
          exact w.bufDistinct i o y x hy hx hij hyl hlive
        · rw [getI_setI_other _ _ _ _ hi] at hy; rw [getI_setI_other _ _ _ _ hj] at hz
          exact w.bufDistinct i j y z hy hz hij hyl hzl

/-! ### `incr` (take one more share) -/

theorem incr_false {cfg : Cfg} {s s1 : State} {o : Nat} (h : incr cfg s o = (s1, false)) : s1 = s := by
  unfold incr at h
  split at h
  · cases h; rfl
  · split at h <;> cases h <;> rfl
  · cases h; rfl

theorem incr_true {cfg : Cfg} {s s1 : State} {o : Nat} (h : incr cfg s o = (s1, true)) :
    cfg.backend ≠ .unique ∧ ∃ x, getI s o = some x ∧ x.count < cfg.ceil ∧
      s1 = setI s o { x with count := x.count + 1 } := by
  unfold incr at h
  cases hb : cfg.backend <;> cases hx : getI s o <;> simp [hb, hx] at h
  all_goals
    rename_i x
    by_cases hlt : x.count < cfg.ceil
    · simp [hlt] at h
      exact ⟨(by intro hu; cases hu), x, rfl, hlt, h.symm⟩
    · simp [hlt] at h

theorem wfx_incr {cfg : Cfg} {s s1 : State} {ex : List Nat} {o : Nat} (w : WfX cfg s ex)
    (hlive : ∀ x, getI s o = some x → x.live = true)
    (h : incr cfg s o = (s1, true)) : WfX cfg s1 (o :: ex) := by
  obtain ⟨hnu, x, hx, hlt, rfl⟩ := incr_true h
  have hl := hlive x hx
  have hlen := getI_some_lt hx
  refine { handles := ?_, held := ?_, counts := ?_, uniq := ?_, ceil := ?_, dead := ?_,
           datacap := ?_, bufFresh := ?_, bufDistinct := ?_ }
  · intro h' hd hg
    simp only [getH_setI] at hg
    have hok := w.handles h' hd hg
    unfold HandleOk at hok ⊢
    cases hrp : hd.repr with
    | inline bs => rw [hrp] at hok; exact hok
    | borrowed a b c => rw [hrp] at hok; simpa using hok
    | heap ow pb off len =>
      rw [hrp] at hok
      by_cases hne : o = ow
      · subst hne
        obtain ⟨y, hy, hyl, hb, hr⟩ := hok
        rw [hx] at hy; cases hy
        exact ⟨_, getI_setI_same _ _ _ hlen, hyl, hb, hr⟩
      · simpa [getI_setI_other _ _ _ _ hne] using hok
  · intro i hi
    by_cases hne : o = i
    · subst hne; exact ⟨_, getI_setI_same _ _ _ hlen, hl⟩
    · rcases List.mem_cons.mp hi with rfl | hi
      · exact absurd rfl hne
      · obtain ⟨y, hy, hyl⟩ := w.held i hi
        exact ⟨y, by simpa [getI_setI_other _ _ _ _ hne] using hy, hyl⟩
  · intro i y hy hyl
    simp only [refsTo_setI]
    rw [List.count_cons]
    by_cases hne : o = i
    · subst hne; rw [getI_setI_same _ _ _ hlen] at hy; cases hy
      have := w.counts o x hx hl
      simp only [beq_self_eq_true, if_true]; omega
    · rw [getI_setI_other _ _ _ _ hne] at hy
      have := w.counts i y hy hyl
      have : (o == i) = false := by simpa using hne
      simp_all
  · intro hu; exact absurd hu hnu
  · intro i y hy hyl
    by_cases hne : o = i
    · subst hne; rw [getI_setI_same _ _ _ hlen] at hy; cases hy; simp only; omega
    · rw [getI_setI_other _ _ _ _ hne] at hy; exact w.ceil i y hy hyl
  · intro i y hy hyd
    simp only [refsTo_setI]
    by_cases hne : o = i
    · subst hne; rw [getI_setI_same _ _ _ hlen] at hy; cases hy
      simp only at hyd; rw [hl] at hyd; cases hyd
    · rw [getI_setI_other _ _ _ _ hne] at hy; exact w.dead i y hy hyd
  · intro i y hy hyl
    by_cases hne : o = i
    · subst hne; rw [getI_setI_same _ _ _ hlen] at hy; cases hy; exact w.datacap o x hx hl
    · rw [getI_setI_other _ _ _ _ hne] at hy; exact w.datacap i y hy hyl
  · intro i y hy
    simp only [nextBuf_setI]
    by_cases hne : o = i
    · subst hne; rw [getI_setI_same _ _ _ hlen] at hy; cases hy; exact w.bufFresh o x hx
    · rw [getI_setI_other _ _ _ _ hne] at hy; exact w.bufFresh i y hy
  · intro i j y z hy hz hij hyl hzl
    by_cases hi : o = i
    · subst hi
      rw [getI_setI_same _ _ _ hlen] at hy; cases hy
      rw [getI_setI_other _ _ _ _ hij] at hz
      exact w.bufDistinct o j x z hx hz hij hl hzl
    · by_cases hj : o = j
      · subst hj
        rw [getI_setI_same _ _ _ hlen] at hz; cases hz
        rw [getI_setI_other _ _ _ _ hi] at hy
        exact w.bufDistinct i o y x hy hx hij hyl hl
      · rw [getI_setI_other _ _ _ _ hi] at hy; rw [getI_setI_other _ _ _ _ hj] at hz
        exact w.bufDistinct i j y z hy hz hij hyl hzl

/-- `incr` does not change what any handle reads -/
theorem view_incr {cfg : Cfg} {s s1 : State} {o : Nat} {b : Bool} (h : incr cfg s o = (s1, b)) (hd : Handle) :
    view s1 hd = view s hd := by
  cases b with
  | false => rw [incr_false h]
  | true =>
    obtain ⟨_, x, hx, _, rfl⟩ := incr_true h
    have hlen := getI_some_lt hx
    unfold view
    cases hd.repr with
    | inline bs => rfl
    | borrowed a b c => rfl
    | heap ow pb off len =>
      by_cases hne : o = ow
      · subst hne; simp [getI_setI_same _ _ _ hlen, hx]
      · simp [getI_setI_other _ _ _ _ hne]

/-! ### boxing a Vec: `boxVec`, `newHeap` -/

theorem getI_append_lt (s : State) (x : Inner) (j : Nat) (hj : j < s.inners.length) :
    getI { s with inners := s.inners ++ [x] } j = getI s j := by
  simp [getI, List.getElem?_append_left hj]

theorem getI_append_same (s : State) (x : Inner) :
    getI { s with inners := s.inners ++ [x] } s.inners.length = some x := by
  simp [getI]

theorem getI_append_cases (s : State) (x : Inner) (j : Nat) (y : Inner)
    (h : getI { s with inners := s.inners ++ [x] } j = some y) :
    (j < s.inners.length ∧ getI s j = some y) ∨ (j = s.inners.length ∧ y = x) := by
  by_cases hj : j < s.inners.length
  · left; rw [getI_append_lt _ _ _ hj] at h; exact ⟨hj, h⟩
  · right
    have hlt := getI_some_lt h
    simp at hlt
    have : j = s.inners.length := by omega
    subst this
    rw [getI_append_same] at h; cases h; exact ⟨rfl, rfl⟩

/-- Box a Vec whose buffer id is fresh w.r.t. every inner: the new inner is held locally. -/
theorem wfx_boxVec {cfg : Cfg} {s : State} {ex : List Nat} (w : WfX cfg s ex)
    (data : List UInt8) (cap buf : Nat) (hc : data.length ≤ cap) (hb : buf < s.nextBuf)
    (hfresh : ∀ j y, getI s j = some y → y.live = true → y.buf ≠ buf) :
    WfX cfg (boxVec s data cap buf).1 (s.inners.length :: ex) := by
  unfold boxVec
  simp only
  have hnone : getI s s.inners.length = none := by simp [getI]
  have hexlt : ∀ i, i ∈ ex → i < s.inners.length := by
    intro i hi; obtain ⟨y, hy, _⟩ := w.held i hi; exact getI_some_lt hy
  have hcount0 : ex.count s.inners.length = 0 := by
    apply List.count_eq_zero.mpr
    intro hm; have := hexlt _ hm; omega
  have hrefs0 : refsTo s s.inners.length = 0 := by
    unfold refsTo
    apply List.countP_eq_zero.mpr
    intro o ho hp
    cases o with
    | none => simp [pointsTo] at hp
    | some hd =>
      obtain ⟨k, hk, hke⟩ := List.getElem_of_mem ho
      have hg : getH s k = some hd := by rw [getH_eq_getElem hk, hke]
      have hok := w.handles k hd hg
      unfold HandleOk at hok
      cases hr : hd.repr with
      | inline bs => cases hd; simp_all [pointsTo]
      | borrowed a b c => cases hd; simp_all [pointsTo]
      | heap ow pb off len =>
        rw [hr] at hok
        obtain ⟨y, hy, _⟩ := hok
        have := getI_some_lt hy
        cases hd; simp_all [pointsTo]
  refine { handles := ?_, held := ?_, counts := ?_, uniq := ?_, ceil := ?_, dead := ?_,
           datacap := ?_, bufFresh := ?_, bufDistinct := ?_ }
  · intro h hd hg
    have hg' : getH s h = some hd := hg
    have hok := w.handles h hd hg'
    unfold HandleOk at hok ⊢
    cases hr : hd.repr with
    | inline bs => rw [hr] at hok; exact hok
    | borrowed a b c => rw [hr] at hok; exact hok
    | heap ow pb off len =>
      rw [hr] at hok
      obtain ⟨y, hy, rest⟩ := hok
      exact ⟨y, by rw [getI_append_lt _ _ _ (getI_some_lt hy)]; exact hy, rest⟩
  · intro i hi
    rcases List.mem_cons.mp hi with rfl | hi
    · exact ⟨_, getI_append_same _ _, rfl⟩
    · obtain ⟨y, hy, hyl⟩ := w.held i hi
      exact ⟨y, by rw [getI_append_lt _ _ _ (getI_some_lt hy)]; exact hy, hyl⟩
  · intro i y hy hyl
    show refsTo s i + _ = _
    rw [List.count_cons]
    rcases getI_append_cases _ _ _ _ hy with ⟨hlt, hy'⟩ | ⟨rfl, rfl⟩
    · have := w.counts i y hy' hyl
      have : (s.inners.length == i) = false := by simp; omega
      simp_all
    · simp [hrefs0, hcount0]
  · intro hu i y hy hyl
    rcases getI_append_cases _ _ _ _ hy with ⟨_, hy'⟩ | ⟨rfl, rfl⟩
    · exact w.uniq hu i y hy' hyl
    · rfl
  · intro i y hy hyl
    rcases getI_append_cases _ _ _ _ hy with ⟨_, hy'⟩ | ⟨rfl, rfl⟩
    · exact w.ceil i y hy' hyl
    · exact Nat.zero_le _
  · intro i y hy hyd
    rcases getI_append_cases _ _ _ _ hy with ⟨_, hy'⟩ | ⟨rfl, rfl⟩
    · exact w.dead i y hy' hyd
    · cases hyd
  · intro i y hy hyl
    rcases getI_append_cases _ _ _ _ hy with ⟨_, hy'⟩ | ⟨rfl, rfl⟩
    · exact w.datacap i y hy' hyl
    · exact hc
  · intro i y hy
    rcases getI_append_cases _ _ _ _ hy with ⟨_, hy'⟩ | ⟨rfl, rfl⟩
    · exact w.bufFresh i y hy'
    · exact hb
  · intro i j y z hy hz hij hyl hzl
    rcases getI_append_cases _ _ _ _ hy with ⟨hi, hy'⟩ | ⟨rfl, rfl⟩
    · rcases getI_append_cases _ _ _ _ hz with ⟨hj, hz'⟩ | ⟨rfl, rfl⟩
      · exact w.bufDistinct i j y z hy' hz' hij hyl hzl
      · exact hfresh i y hy' hyl
    · rcases getI_append_cases _ _ _ _ hz with ⟨hj, hz'⟩ | ⟨rfl, rfl⟩
      · exact fun h => hfresh j z hz' hzl h.symm
      · exact absurd rfl hij

/-- bumping the buffer-id counter keeps the invariant -/
theorem wfx_bump {cfg : Cfg} {s : State} {ex : List Nat} (w : WfX cfg s ex) :
    WfX cfg { s with nextBuf := s.nextBuf + 1 } ex :=
  { handles := w.handles, held := w.held, counts := w.counts, uniq := w.uniq, ceil := w.ceil,
    dead := w.dead, datacap := w.datacap,
    bufFresh := fun i x hx => Nat.lt_succ_of_lt (w.bufFresh i x hx),
    bufDistinct := w.bufDistinct }

/-- `newHeap`: a fresh Vec in a fresh buffer, boxed; the new inner is held locally. -/
theorem wfx_newHeap {cfg : Cfg} {s : State} {ex : List Nat} (w : WfX cfg s ex)
    (data : List UInt8) (cap : Nat) (hc : data.length ≤ cap) :
    WfX cfg (newHeap s data cap).1 (s.inners.length :: ex) ∧
    (newHeap s data cap).2.1 = .heap s.inners.length s.nextBuf 0 data.length ∧
    getI (newHeap s data cap).1 s.inners.length =
      some { count := 0, data := data, cap := cap, buf := s.nextBuf, live := true } ∧
    (∀ j, j < s.inners.length → getI (newHeap s data cap).1 j = getI s j) ∧
    (newHeap s data cap).1.pool = s.pool ∧ (newHeap s data cap).1.srcs = s.srcs ∧
    (newHeap s data cap).1.nextBuf = s.nextBuf + 1 := by
  have wb := wfx_bump w
  have hbox := wfx_boxVec wb data cap s.nextBuf hc (Nat.lt_succ_self _)
    (by intro j y hy _ he; have := w.bufFresh j y hy; omega)
  refine ⟨hbox, rfl, ?_, ?_, rfl, rfl, rfl⟩
  · exact getI_append_same { s with nextBuf := s.nextBuf + 1 } _
  · intro j hj; exact getI_append_lt { s with nextBuf := s.nextBuf + 1 } _ j hj

end HipVerif.Core
