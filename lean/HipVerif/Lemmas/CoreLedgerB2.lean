/-
The buffer ledger against the states of the Core state machine: `LInv S L held` (the ledger `L`
describes exactly the buffers owned by the live boxes of `S` and by the Vec `held` in a local
variable), and `Trans`: how the primitive state transformers move it.
-/
import HipVerif.Lemmas.CoreLedgerB
import HipVerif.Lemmas.CoreEventsB2

namespace HipVerif.Core
open HipVerif.Spec.Std

/-- position `some j` = the live box `j` (with its Vec's buffer and capacity); position `none` = the
Vec `(buf, cap)` held in a local variable in the middle of an operation -/
def OwnsAt (S : State) (held : Option (Nat × Nat)) : Option Nat → Nat → Nat → Prop
  | some j, b, c => ∃ y, getI S j = some y ∧ y.live = true ∧ y.buf = b ∧ y.cap = c
  | none, b, c => held = some (b, c)

/-- the ledger `L` accounts exactly for the buffers of the live boxes of `S` and of the held Vec -/
def LInv (S : State) (L : Ledger) (held : Option (Nat × Nat)) : Prop :=
  LInvR (OwnsAt S held) S.nextBuf L

/-- the events `ev` take (`S`, `held`) to (`S'`, `held'`): they pass every ledger check and the
ledger keeps describing the owners -/
def Trans (S : State) (held : Option (Nat × Nat)) (ev : List Event) (S' : State)
    (held' : Option (Nat × Nat)) : Prop :=
  ∀ L, LInv S L held → Accepted L ev ∧ LInv S' (L.run ev) held'

theorem Trans.trans {S S1 S2 : State} {h h1 h2 : Option (Nat × Nat)} {ev1 ev2 : List Event}
    (a : Trans S h ev1 S1 h1) (b : Trans S1 h1 ev2 S2 h2) : Trans S h (ev1 ++ ev2) S2 h2 := by
  intro L hL
  obtain ⟨a1, a2⟩ := a L hL
  obtain ⟨b1, b2⟩ := b _ a2
  exact ⟨accepted_append.mpr ⟨a1, b1⟩, by rw [Ledger.run_append]; exact b2⟩

theorem trans_refl (S : State) (h : Option (Nat × Nat)) : Trans S h [] S h :=
  fun _ hL => ⟨trivial, hL⟩

/-- the liveness / buffer / capacity of every box: all the ledger invariant sees of the boxes -/
def sig (S : State) (j : Nat) : Option (Bool × Nat × Nat) := (getI S j).map (fun x => (x.live, x.buf, x.cap))

theorem ownsAt_of_sig {S S' : State} {held : Option (Nat × Nat)} (h : ∀ j, sig S' j = sig S j)
    (p : Option Nat) (b c : Nat) : OwnsAt S' held p b c ↔ OwnsAt S held p b c := by
  cases p with
  | none => exact Iff.rfl
  | some j =>
    have hj := h j
    unfold sig at hj
    unfold OwnsAt
    cases h1 : getI S' j <;> cases h2 : getI S j <;> simp_all

/-- a transformation that touches neither liveness nor buffers nor capacities (pool updates, count
updates, writes into the bytes) and may bump the identity counter -/
theorem trans_quiet {S S' : State} {held : Option (Nat × Nat)} (h : ∀ j, sig S' j = sig S j)
    (hn : S.nextBuf ≤ S'.nextBuf) : Trans S held [] S' held :=
  fun _ hL => ⟨trivial, (LInvR.mono hL hn).congr (ownsAt_of_sig h)⟩

/-- neutral events -/
theorem trans_neutral {S : State} {held : Option (Nat × Nat)} (ev : List Event)
    (hev : ∀ e, e ∈ ev → (∃ i, e = .allocInner i) ∨ (∃ i, e = .freeInner i)) : Trans S held ev S held := by
  induction ev with
  | nil => exact trans_refl S held
  | cons e r ih =>
    intro L hL
    have he := hev e (List.mem_cons_self ..)
    have := ih (fun e' h' => hev e' (List.mem_cons_of_mem _ h')) L hL
    rcases he with ⟨i, rfl⟩ | ⟨i, rfl⟩
    · exact ⟨⟨trivial, this.1⟩, this.2⟩
    · exact ⟨⟨trivial, this.1⟩, this.2⟩

/-! ### appending a box -/

theorem ownsAt_append (S : State) (x : Inner) (n' : Nat) (held : Option (Nat × Nat)) (p : Option Nat) (b c : Nat) :
    OwnsAt { S with inners := S.inners ++ [x], nextBuf := n' } held p b c ↔
      OwnsAt S held p b c ∨ (p = some S.inners.length ∧ x.live = true ∧ b = x.buf ∧ c = x.cap) := by
  cases p with
  | none => simp [OwnsAt]
  | some j =>
    unfold OwnsAt
    constructor
    · rintro ⟨y, hy, hl, hb, hc⟩
      rcases getI_append_cases { S with nextBuf := n' } x j y hy with ⟨_, hy'⟩ | ⟨rfl, rfl⟩
      · exact Or.inl ⟨y, hy', hl, hb, hc⟩
      · exact Or.inr ⟨rfl, hl, hb.symm, hc.symm⟩
    · rintro (⟨y, hy, hl, hb, hc⟩ | ⟨hj, hl, rfl, rfl⟩)
      · exact ⟨y, by rw [getI_append_lt { S with nextBuf := n' } x j (getI_some_lt hy)]; exact hy, hl, hb, hc⟩
      · cases hj
        exact ⟨x, getI_append_same { S with nextBuf := n' } x, hl, rfl, rfl⟩

theorem ownsAt_fresh_pos (S : State) (held : Option (Nat × Nat)) (b c : Nat) :
    ¬ OwnsAt S held (some S.inners.length) b c := by
  rintro ⟨y, hy, _⟩
  have := getI_some_lt hy
  omega

/-- `newHeap`: the fresh buffer enters (if `cap > 0`), its initialisation is a write within `cap` -/
theorem trans_newHeap (S : State) (held : Option (Nat × Nat)) (data : List UInt8) (cap : Nat)
    (hc : data.length ≤ cap) : Trans S held (newHeap S data cap).2.2 (newHeap S data cap).1 held := by
  intro L hL
  obtain ⟨hadd, hunseen⟩ := LInvR.add hL (some S.inners.length) S.nextBuf cap (ownsAt_fresh_pos S held)
    (Nat.le_refl _) (Nat.lt_succ_self S.nextBuf)
  have hinv : LInv (newHeap S data cap).1 (if 0 < cap then L.enter S.nextBuf cap else L) held := by
    refine hadd.congr ?_
    intro p b c
    have := ownsAt_append S { count := 0, data := data, cap := cap, buf := S.nextBuf, live := true }
      (S.nextBuf + 1) held p b c
    simp only [true_and] at this
    exact this
  simp only [newHeap, boxVec]
  by_cases hcap : 0 < cap
  · simp only [hcap, if_true] at hinv ⊢
    by_cases hlen : 0 < data.length
    · simp only [gt_iff_lt, hlen, if_true]
      refine ⟨⟨⟨hcap, hunseen⟩, trivial, ⟨Nat.zero_le _, cap, ?_, hc⟩, trivial⟩, hinv⟩
      simp [Ledger.apply, Ledger.enter]
    · simp only [gt_iff_lt, hlen, if_false]
      exact ⟨⟨⟨hcap, hunseen⟩, trivial, trivial⟩, hinv⟩
  · have hlen : ¬ 0 < data.length := by omega
    simp only [hcap, if_false] at hinv
    simp only [gt_iff_lt, hcap, hlen, if_false]
    exact ⟨⟨trivial, trivial⟩, hinv⟩

/-- `Allocated::new(vec)`: the held Vec moves into a fresh box -/
theorem trans_box (S : State) (data : List UInt8) (cap buf : Nat) :
    Trans S (some (buf, cap)) (boxVec S data cap buf).2.2 (boxVec S data cap buf).1 none := by
  intro L hL
  have hm := LInvR.move hL none (some S.inners.length) (ownsAt_fresh_pos S _)
  refine ⟨⟨trivial, trivial⟩, hm.congr ?_⟩
  intro p b c
  have := ownsAt_append S { count := 0, data := data, cap := cap, buf := buf, live := true } S.nextBuf none p b c
  simp only [true_and] at this
  show OwnsAt { S with inners := S.inners ++ [_] } none p b c ↔ _
  rw [this]
  cases p with
  | none => simp [OwnsAt]
  | some j =>
    simp only [OwnsAt, ne_eq, reduceCtorEq, not_false_eq_true, and_true, Option.some.injEq, Prod.mk.injEq]
    constructor
    · rintro (h | ⟨rfl, rfl, rfl⟩)
      · exact Or.inl h
      · exact Or.inr ⟨rfl, rfl, rfl⟩
    · rintro (h | ⟨rfl, rfl, rfl⟩)
      · exact Or.inl h
      · exact Or.inr ⟨rfl, rfl, rfl⟩

/-! ### changing one box -/

theorem ownsAt_setI {S : State} {o : Nat} {x : Inner} (hx : getI S o = some x) (x' : Inner)
    (held : Option (Nat × Nat)) (p : Option Nat) (b c : Nat) :
    OwnsAt (setI S o x') held p b c ↔
      (OwnsAt S held p b c ∧ p ≠ some o) ∨ (p = some o ∧ x'.live = true ∧ b = x'.buf ∧ c = x'.cap) := by
  cases p with
  | none => simp [OwnsAt]
  | some j =>
    simp only [OwnsAt]
    by_cases hj : o = j
    · subst hj
      rw [getI_setI_same _ _ _ (getI_some_lt hx)]
      simp only [Option.some.injEq, ne_eq, not_true_eq_false, and_false, false_or, true_and]
      constructor
      · rintro ⟨y, rfl, hl, hb, hc⟩; exact ⟨hl, hb.symm, hc.symm⟩
      · rintro ⟨hl, rfl, rfl⟩; exact ⟨x', rfl, hl, rfl, rfl⟩
    · rw [getI_setI_other _ _ _ _ hj]
      have : (some j : Option Nat) ≠ some o := fun e => hj (Option.some.inj e).symm
      simp [this]

theorem sig_setI_same {S : State} {o : Nat} {x x' : Inner} (hx : getI S o = some x)
    (hl : x'.live = x.live) (hb : x'.buf = x.buf) (hc : x'.cap = x.cap) (j : Nat) :
    sig (setI S o x') j = sig S j := by
  unfold sig
  by_cases hj : o = j
  · subst hj; rw [getI_setI_same _ _ _ (getI_some_lt hx), hx]; simp [hl, hb, hc]
  · rw [getI_setI_other _ _ _ _ hj]

/-- `Smart::drop`: on the last share the box dies and its buffer is freed -/
theorem trans_release {cfg : Cfg} {S : State} {o : Nat} {x : Inner} (hx : getI S o = some x)
    (hl : x.live = true) (held : Option (Nat × Nat)) :
    Trans S held (release cfg S o).2 (release cfg S o).1 held := by
  unfold release
  rw [hx]
  simp only
  split
  · intro L hL
    have hown : OwnsAt S held (some o) x.buf x.cap := ⟨x, hx, hl, rfl, rfl⟩
    have hR : ∀ p b c, OwnsAt (setI S o { x with live := false }) held p b c ↔
        (OwnsAt S held p b c ∧ p ≠ some o) := by
      intro p b c
      rw [ownsAt_setI hx]
      simp
    by_cases hcap : 0 < x.cap
    · simp only [gt_iff_lt, hcap, if_true]
      obtain ⟨hd, hin, _⟩ := LInvR.del hL hown
      exact ⟨⟨hin hcap, trivial, trivial⟩, hd.congr hR⟩
    · simp only [gt_iff_lt, hcap, if_false]
      have h0 : x.cap = 0 := by omega
      rw [h0] at hown
      exact ⟨⟨trivial, trivial⟩, (LInvR.del_cap0 hL hown).congr hR⟩
  · exact trans_quiet (sig_setI_same hx rfl rfl rfl) (Nat.le_refl _)

/-- `try_into_vec` / `take_vec` on the sole owner: the Vec leaves its box and is held locally -/
theorem trans_steal {S : State} {o : Nat} {x : Inner} (hx : getI S o = some x) (hl : x.live = true) :
    Trans S none [Event.freeInner o] (setI S o { x with live := false }) (some (x.buf, x.cap)) := by
  intro L hL
  have hm := LInvR.move hL (some o) none (by intro b c h; cases h)
  refine ⟨⟨trivial, trivial⟩, hm.congr ?_⟩
  intro p b c
  rw [ownsAt_setI hx]
  cases p with
  | none =>
    simp only [OwnsAt, ne_eq, reduceCtorEq, not_false_eq_true, and_true, false_and, or_false, Option.some.injEq,
      Prod.mk.injEq, true_and, false_or]
    constructor
    · rintro ⟨rfl, rfl⟩; exact ⟨x, hx, hl, rfl, rfl⟩
    · rintro ⟨y, hy, _, rfl, rfl⟩; rw [hx] at hy; cases hy; exact ⟨rfl, rfl⟩
  | some j => simp [OwnsAt]

/-- the sole owner's Vec reallocates: the old buffer leaves (if it existed), a fresh one enters -/
theorem trans_regrow {S : State} {o : Nat} {x : Inner} (hx : getI S o = some x) (hl : x.live = true)
    (held : Option (Nat × Nat)) (data' : List UInt8) (c1 : Nat) (hc1 : 0 < c1) :
    Trans S held [if x.cap > 0 then Event.growBuf x.buf S.nextBuf c1 else Event.allocBuf S.nextBuf c1]
      (setI { S with nextBuf := S.nextBuf + 1 } o { x with data := data', cap := c1, buf := S.nextBuf }) held := by
  intro L hL
  have hown : OwnsAt S held (some o) x.buf x.cap := ⟨x, hx, hl, rfl, rfl⟩
  have hR : ∀ (p : Option Nat) (b c : Nat),
      OwnsAt (setI { S with nextBuf := S.nextBuf + 1 } o { x with data := data', cap := c1, buf := S.nextBuf })
        held p b c ↔
      ((OwnsAt S held p b c ∧ p ≠ some o) ∨ (p = some o ∧ b = S.nextBuf ∧ c = c1)) := by
    intro p b c
    rw [ownsAt_setI (S := { S with nextBuf := S.nextBuf + 1 }) hx]
    simp only [hl, true_and]
    cases p <;> rfl
  have hfree : ∀ b c, ¬ (OwnsAt S held (some o) b c ∧ (some o : Option Nat) ≠ some o) := fun _ _ h => h.2 rfl
  by_cases hcap : 0 < x.cap
  · simp only [gt_iff_lt, hcap, if_true]
    obtain ⟨hd, hin, _⟩ := LInvR.del hL hown
    obtain ⟨ha, hun⟩ := LInvR.add hd (some o) S.nextBuf c1 hfree (Nat.le_refl _) (Nat.lt_succ_self _)
    simp only [hc1, if_true] at ha
    refine ⟨⟨⟨hin hcap, ?_, hc1⟩, trivial⟩, ha.congr hR⟩
    intro hm
    have := hL.idsFresh _ hm
    omega
  · simp only [gt_iff_lt, hcap, if_false]
    have h0 : x.cap = 0 := by omega
    rw [h0] at hown
    have hd := LInvR.del_cap0 hL hown
    obtain ⟨ha, hun⟩ := LInvR.add hd (some o) S.nextBuf c1 hfree (Nat.le_refl _) (Nat.lt_succ_self _)
    simp only [hc1, if_true] at ha
    exact ⟨⟨⟨hc1, hun⟩, trivial⟩, ha.congr hR⟩

/-- a write into a buffer owned at some position, within its (non-zero) capacity -/
theorem trans_write {S : State} {held : Option (Nat × Nat)} {p : Option Nat} {b c : Nat}
    (hown : OwnsAt S held p b c) (lo hi : Nat) (hlh : lo ≤ hi) (hhi : hi ≤ c) (hc : 0 < c) :
    Trans S held [Event.write b lo hi] S held := by
  intro L hL
  exact ⟨⟨⟨hlh, c, hL.owned_in hown hc, hhi⟩, trivial⟩, hL⟩

/-! ### the Vec held in a local variable -/

theorem ownsAt_held_none (S : State) (n' : Nat) (p : Option Nat) (b c : Nat) :
    OwnsAt { S with nextBuf := n' } none p b c ↔ (OwnsAt S none p b c) := by
  cases p <;> rfl

/-- a Vec is created in (or brought into) a local variable with a fresh buffer identity -/
theorem trans_heldEnter (S : State) (c : Nat) (ev : List Event)
    (hev : (0 < c → (ev = [.allocBuf S.nextBuf c] ∨ ev = [.importBuf S.nextBuf c])) ∧ (c = 0 → ev = [])) :
    Trans S none ev { S with nextBuf := S.nextBuf + 1 } (some (S.nextBuf, c)) := by
  intro L hL
  obtain ⟨ha, hun⟩ := LInvR.add hL none S.nextBuf c (by intro b c h; cases h) (Nat.le_refl _) (Nat.lt_succ_self _)
  have hR : ∀ (p : Option Nat) (b c' : Nat),
      OwnsAt { S with nextBuf := S.nextBuf + 1 } (some (S.nextBuf, c)) p b c' ↔
      (OwnsAt S none p b c' ∨ (p = none ∧ b = S.nextBuf ∧ c' = c)) := by
    intro p b c'
    cases p with
    | none => simp [OwnsAt]; constructor <;> (rintro ⟨rfl, rfl⟩; exact ⟨rfl, rfl⟩)
    | some j => simp [OwnsAt]; rfl
  by_cases hc : 0 < c
  · simp only [hc, if_true] at ha
    rcases hev.1 hc with rfl | rfl
    · exact ⟨⟨⟨hc, hun⟩, trivial⟩, ha.congr hR⟩
    · exact ⟨⟨⟨hc, hun⟩, trivial⟩, ha.congr hR⟩
  · simp only [hc, if_false] at ha
    rw [hev.2 (by omega)]
    exact ⟨trivial, ha.congr hR⟩

theorem ownsAt_drop_held (S : State) (b0 c0 : Nat) (p : Option Nat) (b c : Nat) :
    OwnsAt S none p b c ↔ (OwnsAt S (some (b0, c0)) p b c ∧ p ≠ none) := by
  cases p <;> simp [OwnsAt]

/-- the held Vec is dropped: its buffer (if any) is freed -/
theorem trans_heldFree (S : State) (b c : Nat) :
    Trans S (some (b, c)) (if c > 0 then [Event.freeBuf b] else []) S none := by
  intro L hL
  have hown : OwnsAt S (some (b, c)) none b c := rfl
  by_cases hc : 0 < c
  · simp only [gt_iff_lt, hc, if_true]
    obtain ⟨hd, hin, _⟩ := LInvR.del hL hown
    exact ⟨⟨hin hc, trivial⟩, hd.congr (ownsAt_drop_held S b c)⟩
  · simp only [gt_iff_lt, hc, if_false]
    have h0 : c = 0 := by omega
    subst h0
    exact ⟨trivial, (LInvR.del_cap0 hL hown).congr (ownsAt_drop_held S b 0)⟩

/-- the held Vec is handed to the caller (or leaked): its buffer (if it owns one) is exported -/
theorem trans_heldExport (S : State) (b c : Nat) :
    Trans S (some (b, c)) (if c > 0 then [Event.exportBuf b] else []) S none := by
  intro L hL
  have hown : OwnsAt S (some (b, c)) none b c := rfl
  by_cases hc : 0 < c
  · simp only [gt_iff_lt, hc, if_true]
    obtain ⟨hd, hin, _⟩ := LInvR.del hL hown
    exact ⟨⟨hin hc, trivial⟩, hd.congr (ownsAt_drop_held S b c)⟩
  · simp only [gt_iff_lt, hc, if_false]
    have h0 : c = 0 := by omega
    subst h0
    exact ⟨trivial, (LInvR.del_cap0 hL hown).congr (ownsAt_drop_held S b 0)⟩

/-- the held Vec reallocates -/
theorem trans_heldRegrow (S : State) (b c c1 : Nat) (hc1 : 0 < c1) :
    Trans S (some (b, c)) [if c > 0 then Event.growBuf b S.nextBuf c1 else Event.allocBuf S.nextBuf c1]
      { S with nextBuf := S.nextBuf + 1 } (some (S.nextBuf, c1)) := by
  intro L hL
  have hown : OwnsAt S (some (b, c)) none b c := rfl
  have hfree : ∀ b' c', ¬ (OwnsAt S (some (b, c)) none b' c' ∧ (none : Option Nat) ≠ none) := fun _ _ h => h.2 rfl
  have hR : ∀ (p : Option Nat) (b' c' : Nat),
      OwnsAt { S with nextBuf := S.nextBuf + 1 } (some (S.nextBuf, c1)) p b' c' ↔
      ((OwnsAt S (some (b, c)) p b' c' ∧ p ≠ none) ∨ (p = none ∧ b' = S.nextBuf ∧ c' = c1)) := by
    intro p b' c'
    cases p with
    | none => simp [OwnsAt]; constructor <;> (rintro ⟨rfl, rfl⟩; exact ⟨rfl, rfl⟩)
    | some j => simp [OwnsAt]; rfl
  by_cases hc : 0 < c
  · simp only [gt_iff_lt, hc, if_true]
    obtain ⟨hd, hin, _⟩ := LInvR.del hL hown
    obtain ⟨ha, hun⟩ := LInvR.add hd none S.nextBuf c1 hfree (Nat.le_refl _) (Nat.lt_succ_self _)
    simp only [hc1, if_true] at ha
    refine ⟨⟨⟨hin hc, ?_, hc1⟩, trivial⟩, ha.congr hR⟩
    intro hm
    have := hL.idsFresh _ hm
    omega
  · simp only [gt_iff_lt, hc, if_false]
    have h0 : c = 0 := by omega
    subst h0
    have hd := LInvR.del_cap0 hL hown
    obtain ⟨ha, hun⟩ := LInvR.add hd none S.nextBuf c1 hfree (Nat.le_refl _) (Nat.lt_succ_self _)
    simp only [hc1, if_true] at ha
    exact ⟨⟨⟨hc1, hun⟩, trivial⟩, ha.congr hR⟩

theorem growCap_pos (cap req : Nat) : 0 < growCap cap req := by unfold growCap; omega

/-- the guard script on the held Vec -/
theorem trans_vecApply (S : State) (sc : List VecOp) : ∀ (data : List UInt8) (cap buf nb : Nat),
    Trans { S with nextBuf := nb } (some (buf, cap)) (vecApply data cap buf nb sc).2.2.2.2
      { S with nextBuf := (vecApply data cap buf nb sc).2.2.2.1 }
      (some ((vecApply data cap buf nb sc).2.2.1, (vecApply data cap buf nb sc).2.1)) := by
  induction sc with
  | nil => intro data cap buf nb; exact trans_refl _ _
  | cons op rest ih =>
    intro data cap buf nb
    cases op with
    | push b =>
      by_cases hc : data.length + 1 ≤ cap
      · have := ih (data ++ [b]) cap buf nb
        rcases hr : vecApply (data ++ [b]) cap buf nb rest with ⟨d, c, b', n, ev⟩
        rw [hr] at this
        simp only [vecApply, hc, if_true, hr, List.nil_append]
        exact this
      · have := ih (data ++ [b]) (growCap cap (data.length + 1)) nb (nb + 1)
        rcases hr : vecApply (data ++ [b]) (growCap cap (data.length + 1)) nb (nb + 1) rest with ⟨d, c, b', n, ev⟩
        rw [hr] at this
        simp only [vecApply, hc, if_false, hr]
        exact (trans_heldRegrow { S with nextBuf := nb } buf cap _ (growCap_pos _ _)).trans this
    | extend bs =>
      by_cases hc : data.length + bs.length ≤ cap
      · have := ih (data ++ bs) cap buf nb
        rcases hr : vecApply (data ++ bs) cap buf nb rest with ⟨d, c, b', n, ev⟩
        rw [hr] at this
        simp only [vecApply, hc, if_true, hr, List.nil_append]
        exact this
      · have := ih (data ++ bs) (growCap cap (data.length + bs.length)) nb (nb + 1)
        rcases hr : vecApply (data ++ bs) (growCap cap (data.length + bs.length)) nb (nb + 1) rest with ⟨d, c, b', n, ev⟩
        rw [hr] at this
        simp only [vecApply, hc, if_false, hr]
        exact (trans_heldRegrow { S with nextBuf := nb } buf cap _ (growCap_pos _ _)).trans this
    | truncate k =>
      have := ih (data.take k) cap buf nb
      rcases hr : vecApply (data.take k) cap buf nb rest with ⟨d, c, b', n', ev⟩
      rw [hr] at this
      simp only [vecApply, hr, List.nil_append]
      exact this
    | clear =>
      have := ih [] cap buf nb
      rcases hr : vecApply [] cap buf nb rest with ⟨d, c, b', n', ev⟩
      rw [hr] at this
      simp only [vecApply, hr, List.nil_append]
      exact this

end HipVerif.Core
