/-
The `HipStr` API layer refines the `String`/`str` specification (`Spec.Str.step`): one theorem
for every `StrOp` (`strStep_refines`), its lift to histories (`strRun_refines`), and the
corollary that the layer panics exactly where `String` does (`str_panic_iff`).
-/
import HipVerif.Spec.Str
import HipVerif.Lemmas.CoreStrStep

namespace HipVerif.Str
open HipVerif.Utf8 HipVerif.Core HipVerif.Spec.Std HipVerif.Spec.Range HipVerif.RangeTy
open HipVerif.Spec.Str (chars charsFuel rangeErrOf eraseStrRet strRetFlag)

/-! ## `chars`: the forward decomposition into scalars -/

theorem charsFuel_congr : ∀ (f g : Nat) (s : List UInt8), s.length ≤ f → s.length ≤ g →
    charsFuel f s = charsFuel g s := by
  intro f
  induction f with
  | zero =>
    intro g s hf hg
    have : s = [] := List.eq_nil_of_length_eq_zero (by omega)
    subst this
    cases g <;> rfl
  | succ f ih =>
    intro g s hf hg
    cases s with
    | nil => cases g <;> rfl
    | cons b t =>
      cases g with
      | zero => simp at hg
      | succ g =>
        simp only [charsFuel]
        split
        · rfl
        · rename_i n hn
          have h1 := firstCharLen_le_length (b :: t)
          have hpos : firstCharLen (b :: t) ≠ 0 := by intro e; exact hn e
          simp only [List.length_cons] at h1 hf hg
          congr 1
          apply ih
          · simp only [List.length_drop, List.length_cons]; omega
          · simp only [List.length_drop, List.length_cons]; omega

@[simp] theorem chars_nil : chars [] = [] := rfl

/-- one unfolding step of `chars`: peel the first scalar -/
theorem chars_step (s : List UInt8) (h0 : firstCharLen s ≠ 0) :
    chars s = s.take (firstCharLen s) :: chars (s.drop (firstCharLen s)) := by
  cases s with
  | nil => exact absurd rfl h0
  | cons b t =>
    simp only [chars, List.length_cons, charsFuel]
    have h1 := firstCharLen_le_length (b :: t)
    simp only [List.length_cons] at h1
    congr 1
    apply charsFuel_congr
    · simp only [List.length_drop, List.length_cons]; omega
    · exact Nat.le_refl _

/-- peeling a scalar `c` off the front -/
theorem chars_scalar_append {c : List UInt8} (hc : isScalarEnc c = true) (x : List UInt8) :
    chars (c ++ x) = c :: chars x := by
  rw [isScalarEnc_iff] at hc
  obtain ⟨hne, hlen⟩ := hc
  have h0 : firstCharLen c ≠ 0 := by
    rw [hlen]; intro e; exact hne (List.eq_nil_of_length_eq_zero e)
  have hk : firstCharLen (c ++ x) = c.length := by rw [firstCharLen_append c x h0, hlen]
  rw [chars_step _ (by rw [hk, ← hlen]; exact h0), hk, List.take_left, List.drop_left]

/-- the scalars of a well-formed string concatenate back to it -/
theorem flatten_chars : ∀ s, valid s = true → (chars s).flatten = s := by
  refine valid_induction (motive := fun s => (chars s).flatten = s) rfl ?_
  intro c r hc _ ih
  rw [chars_scalar_append hc, List.flatten_cons, ih]

/-- appending one scalar appends one element to `chars` -/
theorem chars_append_scalar {a c : List UInt8} (ha : valid a = true) (hc : isScalarEnc c = true) :
    chars (a ++ c) = chars a ++ [c] := by
  revert ha
  refine valid_induction (motive := fun a => chars (a ++ c) = chars a ++ [c]) ?_ ?_ a
  · have := chars_scalar_append hc []
    simpa using this
  · intro c0 r hc0 _ ih
    rw [List.append_assoc, chars_scalar_append hc0, ih, chars_scalar_append hc0, List.cons_append]

/-- **`pop`, forward = backward.** On a non-empty well-formed string the last element of the
forward decomposition `chars` is the suffix starting at `lastCharStart` (what the code's backward
scan finds), and the other elements concatenate to the prefix before it. -/
theorem chars_last {v : List UInt8} (hv : valid v = true) (hne : v ≠ []) :
    (chars v).getLast? = some (v.drop (lastCharStart v)) ∧
    (chars v).dropLast.flatten = v.take (lastCharStart v) := by
  have hsc := isScalarEnc_drop_lastCharStart hv hne
  have hvt := valid_take_lastCharStart hv
  have hsplit : chars v = chars (v.take (lastCharStart v)) ++ [v.drop (lastCharStart v)] := by
    rw [← chars_append_scalar hvt hsc, List.take_append_drop]
  rw [hsplit]
  exact ⟨by simp, by simp [flatten_chars _ hvt]⟩

/-! ## small facts -/

theorem set_sget_self {p : SPool} {h : Nat} {v : List UInt8} (hg : sget p h = some v) : p.set h (some v) = p := by
  have hl := sget_some_lt hg
  unfold sget at hg
  apply List.ext_getElem
  · simp
  · intro i h1 h2
    by_cases he : h = i
    · subst he
      simp only [List.getElem_set_self]
      simp only [List.getElem?_eq_getElem hl, Option.getD_some] at hg
      exact hg.symm
    · simp [List.getElem_set_ne he]

theorem sget_abs_none {s : State} {h : Nat} (hg : getH s h = none) : sget (Core.abs s) h = none := by
  rw [sget_abs, hg]; rfl

theorem isBoundary_length (v : List UInt8) : isBoundary v v.length = true := by
  unfold isBoundary
  split
  · rfl
  · simp

theorem rangeErrOf_of_sliceErrOf {sb eb : Bound} {len a b : Nat} {k : SliceErrorKind}
    (h : sliceErrOf sb eb len = .sliceErr a b k) : rangeErrOf sb eb len = .range a b k := by
  unfold sliceErrOf at h
  unfold rangeErrOf
  simp only at h ⊢
  split at h
  · rename_i h1; rw [if_pos h1]; cases h; rfl
  · rename_i h1
    rw [if_neg h1]
    split at h
    · rename_i h2; rw [if_pos h2]; cases h; rfl
    · rename_i h2; rw [if_neg h2]; cases h; rfl

variable {cfg : Cfg} {s : State}

/-- a call that ends in a byte-level operation: the byte-level refinement, repackaged -/
theorem byte_tail (op : Op) (w : Wf cfg s) (hok : OpOk s op) :
    (Core.abs (Core.step cfg s op).1, eraseStrRet (.byte (Core.step cfg s op).2.ret)) =
      ((Spec.Std.step cfg.icap s.srcs (Core.abs s) op (retFlag (Core.step cfg s op).2.ret)).1,
        StrRet.byte (Spec.Std.step cfg.icap s.srcs (Core.abs s) op (retFlag (Core.step cfg s op).2.ret)).2) := by
  rw [refines cfg s op w hok]; rfl

/-! ## the refinement theorem -/

/-- **The `HipStr` layer refines `String`.**  For every `HipStr` call a Rust program can make
(`StrOk`: bounds are `usize`s; `StrArgsOk`: `&str`/`char` arguments are what their types say) in a
well-formed state whose values are all valid UTF-8, the API layer (checks + byte-level operation on
the shared, offset, possibly inline/borrowed representation) yields EXACTLY the pool contents and
the returned value that `String`/`str` yield: same popped scalar bytes, same `SliceError` payload
and classification, same `valid_up_to`, panic in the same cases. -/
theorem strStep_refines (sop : StrOp) (w : Wf cfg s) (hok : StrOk s sop) (hv : AllValid (Core.abs s)) :
    Spec.Str.step cfg.icap s.srcs (Core.abs s) sop (strRetFlag (strStep cfg s sop).2) =
      (Core.abs (strStep cfg s sop).1, eraseStrRet (strStep cfg s sop).2) := by
  cases sop with
  | byte op =>
    rw [strStep_byte]
    exact (byte_tail op w hok).symm
  | pushStr h bs =>
    rw [strStep_pushStr, byte_tail (.pushSlice h bs) w trivial]
    simp only [Spec.Str.step, Spec.Std.step]
    cases sget (Core.abs s) h <;> rfl
  | pushChar h c =>
    rw [strStep_pushChar, byte_tail (.pushSlice h (encode c)) w trivial]
    simp only [Spec.Str.step, Spec.Std.step]
    cases sget (Core.abs s) h <;> rfl
  | popChar h =>
    cases hgh : getH s h with
    | none =>
      rw [strStep_popChar, hgh]
      simp only [Spec.Str.step, sget_abs_none hgh]; rfl
    | some hd =>
      have hg := sget_abs_of_getH hgh
      have hval := hv h _ hg
      by_cases hne : view s hd = []
      · rw [hne] at hg
        rw [strStep_popChar_empty hg]
        simp only [Spec.Str.step, hg, chars_nil, List.getLast?_nil]; rfl
      · obtain ⟨h1, _, h3, _⟩ := strStep_popChar_spec (cfg := cfg) w hg hval hne
        obtain ⟨c1, c2⟩ := chars_last hval hne
        simp only [Spec.Str.step, hg, c1, c2, h1, h3]; rfl
  | truncate h n =>
    cases hgh : getH s h with
    | none =>
      rw [strStep_truncate, hgh]
      simp only [Spec.Str.step, sget_abs_none hgh]; rfl
    | some hd =>
      have hg := sget_abs_of_getH hgh
      by_cases hlt : (view s hd).length < n
      · rw [strStep_truncate_noop hg hlt]
        have : n ≥ (view s hd).length := by omega
        simp only [Spec.Str.step, hg, this, if_true]; rfl
      · by_cases heq : n = (view s hd).length
        · subst heq
          obtain ⟨h1, h2, _⟩ := strStep_truncate_spec (cfg := cfg) w hg (Nat.le_refl _)
            (isBoundary_length _)
          have hge : (view s hd).length ≥ (view s hd).length := Nat.le_refl _
          rw [List.take_length, set_sget_self hg] at h2
          simp only [Spec.Str.step, hg, hge, if_true, h1, h2]; rfl
        · have hnlt : ¬ n ≥ (view s hd).length := by omega
          by_cases hb : isBoundary (view s hd) n = true
          · obtain ⟨h1, h2, _⟩ := strStep_truncate_spec (cfg := cfg) w hg (by omega) hb
            simp only [Spec.Str.step, hg, hnlt, if_false, hb, if_true, h1, h2]; rfl
          · have hle : n ≤ (view s hd).length := by omega
            rw [strStep_truncate, hgh]
            simp only [Spec.Str.step, hg, hnlt, hle, hb, if_false, if_true, Bool.false_eq_true]; rfl
  | trySlice h d sb eb =>
    cases hgh : getH s h with
    | none =>
      rw [strStep_trySlice, hgh]
      simp only [Spec.Str.step, sget_abs_none hgh]; rfl
    | some hd =>
      have hg := sget_abs_of_getH hgh
      have hiff := simplify_stdGet (d := d) hok hgh ⟨cfg, w⟩
      obtain ⟨hfs, hfe, hl⟩ := id hok
      have hlen : (view s hd).length ≤ isizeMax := by
        rw [A.view_length (w.handles h hd hgh)]; exact hl hd hgh
      rw [strStep_trySlice, hgh]
      simp only [Spec.Str.step, hg]
      cases hst : stdGet sb eb (view s hd).length with
      | some p =>
        obtain ⟨a, b⟩ := p
        rw [(hiff a b).mpr hst]
        simp only
        by_cases ha : (!isBoundary (view s hd) a) = true
        · simp only [ha, if_true]; rfl
        · by_cases hb : (!isBoundary (view s hd) b) = true
          · simp only [ha, hb, if_true, if_false, Bool.false_eq_true]; rfl
          · simp only [ha, hb, if_false, Bool.false_eq_true]
            rw [byte_tail (.trySlice h d sb eb) w hok]
            simp only [Spec.Std.step, hg, hst]
            split <;> rfl
      | none =>
        rcases Props.C08.simplify_ok_or_err sb eb (view s hd).length with ⟨⟨a, b⟩, hsim⟩ | ⟨⟨a, b, k⟩, hsim⟩
        · rw [(hiff a b).mp hsim] at hst; cases hst
        · rw [hsim]
          simp only
          rw [rangeErrOf_of_sliceErrOf (A.sliceErrOf_eq sb eb _ a b k hfs hfe hlen hsim)]
          rfl
  | slice h d sb eb =>
    cases hgh : getH s h with
    | none =>
      rw [strStep_slice, hgh]
      simp only [Spec.Str.step, sget_abs_none hgh]; rfl
    | some hd =>
      have hg := sget_abs_of_getH hgh
      have hiff := simplify_stdGet (d := d) hok hgh ⟨cfg, w⟩
      rw [strStep_slice, hgh]
      simp only [Spec.Str.step, hg]
      cases hst : stdGet sb eb (view s hd).length with
      | some p =>
        obtain ⟨a, b⟩ := p
        rw [(hiff a b).mpr hst]
        simp only
        by_cases hab : (isBoundary (view s hd) a && isBoundary (view s hd) b) = true
        · simp only [hab, if_true]
          rw [byte_tail (.slice h d sb eb) w hok]
          simp only [Spec.Std.step, hg, hst]
          split <;> rfl
        · simp only [hab, if_false, Bool.false_eq_true]; rfl
      | none =>
        rcases Props.C08.simplify_ok_or_err sb eb (view s hd).length with ⟨⟨a, b⟩, hsim⟩ | ⟨x, hsim⟩
        · rw [(hiff a b).mp hsim] at hst; cases hst
        · rw [hsim]; rfl
  | fromUtf8 d bs =>
    rw [strStep_fromUtf8]
    simp only [Spec.Str.step]
    by_cases hvb : valid bs = true
    · simp only [hvb, if_true]
      rw [byte_tail (.fromSlice d bs) w trivial]
      simp only [Spec.Std.step]
      split <;> rfl
    · simp only [hvb, if_false, Bool.false_eq_true]; rfl

/-! ## histories -/

/-- caller-owned memory is untouched by every `HipStr` call -/
theorem strStep_srcs (cfg : Cfg) (s : State) (sop : StrOp) : (strStep cfg s sop).1.srcs = s.srcs := by
  rcases strStep_cases cfg s sop with h | _ | _
  · rw [h]
  all_goals
    cases sop with
    | byte op => exact srcs_step cfg s op
    | pushStr h bs => exact srcs_step cfg s (.pushSlice h bs)
    | pushChar h c => exact srcs_step cfg s (.pushSlice h (encode c))
    | popChar h =>
      rw [strStep_popChar]
      cases getH s h with
      | none => rfl
      | some hd =>
        simp only; split
        · rfl
        · split
          · exact srcs_step cfg s (.truncate h _)
          · rfl
    | truncate h n =>
      rw [strStep_truncate]
      cases getH s h with
      | none => rfl
      | some hd =>
        simp only; split
        · split
          · exact srcs_step cfg s (.truncate h n)
          · rfl
        · rfl
    | trySlice h d sb eb =>
      rw [strStep_trySlice]
      cases getH s h with
      | none => rfl
      | some hd =>
        simp only; split
        · split
          · rfl
          · split
            · rfl
            · exact srcs_step cfg s (.trySlice h d sb eb)
        · rfl
        · rfl
    | slice h d sb eb =>
      rw [strStep_slice]
      cases getH s h with
      | none => rfl
      | some hd =>
        simp only; split
        · split
          · exact srcs_step cfg s (.slice h d sb eb)
          · rfl
        · rfl
    | fromUtf8 d bs =>
      rw [strStep_fromUtf8]
      split
      · exact srcs_step cfg s (.fromSlice d bs)
      · rfl

theorem specStrRun_cons (icap : Nat) (srcs : List (List UInt8)) (p : SPool) (op : StrOp) (flag : Bool)
    (rest : List (StrOp × Bool)) :
    Spec.Str.run icap srcs p ((op, flag) :: rest) =
      ((Spec.Str.run icap srcs (Spec.Str.step icap srcs p op flag).1 rest).1,
        (Spec.Str.step icap srcs p op flag).2 :: (Spec.Str.run icap srcs (Spec.Str.step icap srcs p op flag).1 rest).2) := rfl

/-- **Every history of `HipStr` calls refines `String`**, from any well-formed state holding valid
UTF-8: at the end every value reads back what the same calls yield on `String`s, and every
returned item along the way (popped chars, slice errors, `valid_up_to`, panics) was equal. -/
theorem strRun_refines (cfg : Cfg) (ops : List StrOp) :
    ∀ s, Wf cfg s → AllStrOk cfg s ops → AllValid (Core.abs s) →
      Spec.Str.run cfg.icap s.srcs (Core.abs s) (ops.zip ((strRun cfg s ops).2.map strRetFlag)) =
        (Core.abs (strRun cfg s ops).1, (strRun cfg s ops).2.map eraseStrRet) := by
  induction ops with
  | nil => intro s _ _ _; rfl
  | cons op ops ih =>
    intro s w hok hv
    rw [strRun_cons]
    simp only [List.map_cons, List.zip_cons_cons]
    rw [specStrRun_cons, strStep_refines op w hok.1.1 hv]
    simp only
    have := ih _ (strStep_wf op w) hok.2 (strStep_valid op w hok.1.1 hv hok.1.2)
    rw [strStep_srcs] at this
    rw [this]

/-- … in particular from the initial state (any caller memory, any number of empty slots). -/
theorem strRun_refines_init (cfg : Cfg) (srcs : List (List UInt8)) (n : Nat) (ops : List StrOp)
    (hok : AllStrOk cfg (Core.init srcs n) ops) :
    Spec.Str.run cfg.icap srcs (Core.abs (Core.init srcs n))
        (ops.zip ((strRun cfg (Core.init srcs n) ops).2.map strRetFlag)) =
      (Core.abs (strRun cfg (Core.init srcs n) ops).1, (strRun cfg (Core.init srcs n) ops).2.map eraseStrRet) :=
  strRun_refines cfg ops (Core.init srcs n) (wf_init cfg srcs n) hok (allValid_init srcs n)

/-! ## panics -/

theorem eraseStrRet_panic_iff (r : StrRet) : eraseStrRet r = .panic ↔ r = .panic := by
  cases r <;> simp [eraseStrRet]

theorem eraseStrRet_bytePanic_iff (r : StrRet) : eraseStrRet r = .byte .panic ↔ r = .byte .panic := by
  cases r with
  | byte b => cases b <;> simp [eraseStrRet, eraseRet]
  | _ => simp [eraseStrRet]

/-- **The `HipStr` layer panics exactly where `String`/`str` panic**: a `HipStr` call panics — in
the layer's own checks (`truncate`/`slice` off a char boundary or out of range) or in the byte-level
operation under it — if and only if the `String` specification of that call does. -/
theorem str_panic_iff (sop : StrOp) (w : Wf cfg s) (hok : StrOk s sop) (hv : AllValid (Core.abs s)) :
    ((strStep cfg s sop).2 = .panic ↔
      (Spec.Str.step cfg.icap s.srcs (Core.abs s) sop (strRetFlag (strStep cfg s sop).2)).2 = .panic) ∧
    ((strStep cfg s sop).2 = .byte .panic ↔
      (Spec.Str.step cfg.icap s.srcs (Core.abs s) sop (strRetFlag (strStep cfg s sop).2)).2 = .byte .panic) := by
  rw [strStep_refines sop w hok hv]
  exact ⟨(eraseStrRet_panic_iff _).symm, (eraseStrRet_bytePanic_iff _).symm⟩

/-! ## a decidable sufficient check of the side conditions, and a worked history -/

def fitsB : Bound → Bool
  | .included n => decide (n < U)
  | .excluded n => decide (n < U)
  | .unbounded => true

/-- executable sufficient condition for `StrOk s sop ∧ StrArgsOk s sop` (plain byte-level
operations are accepted only when they have no side condition at all: `new`, `clone`, `drop`) -/
def strOkB (s : State) : StrOp → Bool
  | .byte (.new _) => true
  | .byte (.clone _ _) => true
  | .byte (.drop _) => true
  | .byte _ => false
  | .trySlice h _ sb eb | .slice h _ sb eb =>
    fitsB sb && fitsB eb &&
      (match getH s h with | some hd => decide (hlen hd ≤ isizeMax) | none => true)
  | .pushStr _ bs => valid bs
  | .pushChar _ c => isScalar c
  | _ => true

def allStrOkB (cfg : Cfg) (s : State) : List StrOp → Bool
  | [] => true
  | op :: ops => strOkB s op && allStrOkB cfg (strStep cfg s op).1 ops

theorem fits_of_fitsB {b : Bound} (h : fitsB b = true) : Bound.fits b := by
  cases b <;> simp_all [fitsB, Bound.fits]

theorem opOk_slice_of_check {s : State} {h : Nat} {sb eb : Bound}
    (hc : (fitsB sb && fitsB eb &&
      (match getH s h with | some hd => decide (hlen hd ≤ isizeMax) | none => true)) = true) :
    Bound.fits sb ∧ Bound.fits eb ∧ ∀ hd, getH s h = some hd → hlen hd ≤ isizeMax := by
  simp only [Bool.and_eq_true] at hc
  refine ⟨fits_of_fitsB hc.1.1, fits_of_fitsB hc.1.2, ?_⟩
  intro hd hg
  have := hc.2
  rw [hg] at this
  simpa using this

theorem strOk_of_check {s : State} {sop : StrOp} (hc : strOkB s sop = true) : StrOk s sop ∧ StrArgsOk s sop := by
  cases sop with
  | byte op => cases op <;> first | exact ⟨trivial, trivial⟩ | (simp [strOkB] at hc)
  | pushStr h bs => exact ⟨trivial, hc⟩
  | pushChar h c => exact ⟨trivial, hc⟩
  | popChar h => exact ⟨trivial, trivial⟩
  | truncate h n => exact ⟨trivial, trivial⟩
  | trySlice h d sb eb => exact ⟨opOk_slice_of_check hc, trivial⟩
  | slice h d sb eb => exact ⟨opOk_slice_of_check hc, trivial⟩
  | fromUtf8 d bs => exact ⟨trivial, trivial⟩

theorem allStrOk_of_check (cfg : Cfg) (ops : List StrOp) :
    ∀ s, allStrOkB cfg s ops = true → AllStrOk cfg s ops := by
  induction ops with
  | nil => intro _ _; trivial
  | cons op ops ih =>
    intro s hc
    simp only [allStrOkB, Bool.and_eq_true] at hc
    exact ⟨strOk_of_check hc.1, ih _ hc.2⟩

namespace Example

/-- a small inline capacity so that the history goes through allocated, shared-with-offset and
inline representations -/
def exCfg : Cfg := { backend := .arc, ceil := 5, debug := true, icap := 3 }

/-- 🦀 -/
def crab : List UInt8 := [0xF0, 0x9F, 0xA6, 0x80]

/-- `from_utf8("é€🦀")`; `from_utf8(b"a\xFF")` (rejected, `valid_up_to = 1`); `try_slice(1..)` (inside
`é`); `try_slice(0..3)` (end inside `€`); `truncate(1)` (panics); `truncate(5)`; `pop()` (`€`);
`push('🦀')`; `slice(2..)`; `clone` -/
def ops : List StrOp :=
  [ .fromUtf8 0 ([0xC3, 0xA9, 0xE2, 0x82, 0xAC] ++ crab),
    .fromUtf8 2 [0x61, 0xFF],
    .trySlice 0 1 (.included 1) .unbounded,
    .trySlice 0 1 (.included 0) (.excluded 3),
    .truncate 0 1,
    .truncate 0 5,
    .popChar 0,
    .pushChar 0 0x1F980,
    .slice 0 1 (.included 2) .unbounded,
    .byte (.clone 1 2) ]

/-- the hypotheses of `strRun_refines_init` hold on this history -/
theorem ops_ok : AllStrOk exCfg (Core.init [] 3) ops :=
  allStrOk_of_check exCfg ops _ (by decide +kernel)

/-- what the model answers … -/
theorem model_result :
    (strRun exCfg (Core.init [] 3) ops).2 =
      [.byte .unit, .utf8Err 1, .sliceErr (.startNotBoundary 1 9), .sliceErr (.endNotBoundary 0 3), .panic,
        .byte .unit, .char (some [0xE2, 0x82, 0xAC]), .byte .unit, .byte .unit, .byte .unit] ∧
    Core.abs (strRun exCfg (Core.init [] 3) ops).1 = [some ([0xC3, 0xA9] ++ crab), some crab, some crab] := by
  decide +kernel

/-- … is, computed independently, what the `String` specification answers (same final pool, same
returned values) -/
theorem spec_result :
    Spec.Str.run exCfg.icap [] (Core.abs (Core.init [] 3))
        (ops.zip ((strRun exCfg (Core.init [] 3) ops).2.map strRetFlag)) =
      ([some ([0xC3, 0xA9] ++ crab), some crab, some crab],
        [.byte .unit, .utf8Err 1, .sliceErr (.startNotBoundary 1 9), .sliceErr (.endNotBoundary 0 3), .panic,
          .byte .unit, .char (some [0xE2, 0x82, 0xAC]), .byte .unit, .byte .unit, .byte .unit]) := by
  decide +kernel

/-- and the general theorem applies to it -/
example :
    Spec.Str.run exCfg.icap [] (Core.abs (Core.init [] 3))
        (ops.zip ((strRun exCfg (Core.init [] 3) ops).2.map strRetFlag)) =
      (Core.abs (strRun exCfg (Core.init [] 3) ops).1, (strRun exCfg (Core.init [] 3) ops).2.map eraseStrRet) :=
  strRun_refines_init exCfg [] 3 ops ops_ok

end Example

end HipVerif.Str
