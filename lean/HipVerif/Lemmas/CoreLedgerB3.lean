/-
The buffer ledger through the helper functions of `step` and through every operation:
`step_trans : Wf cfg s → Trans s none (step cfg s op).2.events (step cfg s op).1 none`.
-/
import HipVerif.Lemmas.CoreLedgerB2

namespace HipVerif.Core
open HipVerif.Spec.Std

variable {cfg : Cfg} {s : State}

theorem Trans.then_quiet {S S1 S' : State} {h h' : Option (Nat × Nat)} {ev : List Event}
    (t : Trans S h ev S1 h') (hs : ∀ j, sig S' j = sig S1 j) (hn : S1.nextBuf ≤ S'.nextBuf) :
    Trans S h ev S' h' := by
  have := t.trans (trans_quiet (held := h') hs hn)
  rwa [List.append_nil] at this

theorem Trans.after_quiet {S S0 S' : State} {h h' : Option (Nat × Nat)} {ev : List Event}
    (hs : ∀ j, sig S0 j = sig S j) (hn : S.nextBuf ≤ S0.nextBuf) (t : Trans S0 h ev S' h') :
    Trans S h ev S' h' := by
  have := (trans_quiet (held := h) hs hn).trans t
  rwa [List.nil_append] at this

theorem stepTrans {S : State} {ev : List Event} {ret : Ret} (t : Trans s none ev S none) :
    Trans s none (ok S ret ev).2.events (ok S ret ev).1 none := t

/-- `install` and friends only touch the pool -/
theorem stepTransH {S : State} {ev : List Event} {ret : Ret} {d : Nat} {v : Option Handle}
    (t : Trans s none ev S none) :
    Trans s none (ok (setH S d v) ret ev).2.events (ok (setH S d v) ret ev).1 none :=
  t.then_quiet (fun _ => rfl) (Nat.le_refl _)

theorem trans_incr {S S1 : State} {o : Nat} {b : Bool} (hi : incr cfg S o = (S1, b))
    (held : Option (Nat × Nat)) : Trans S held [] S1 held := by
  cases b with
  | false => rw [incr_false hi]; exact trans_refl S held
  | true =>
    obtain ⟨_, x, hx, _, rfl⟩ := incr_true hi
    exact trans_quiet (sig_setI_same hx rfl rfl rfl) (Nat.le_refl _)

theorem trans_dropRepr {S : State} {r : Rep} (held : Option (Nat × Nat))
    (hlive : ∀ o pb off len, r = .heap o pb off len → ∃ x, getI S o = some x ∧ x.live = true) :
    Trans S held (dropRepr cfg S r).2 (dropRepr cfg S r).1 held := by
  cases r with
  | inline bs => exact trans_refl S held
  | borrowed a b c => exact trans_refl S held
  | heap o pb off len =>
    obtain ⟨x, hx, hl⟩ := hlive o pb off len rfl
    exact trans_release hx hl held

theorem trans_newHeap_drop {S : State} {r : Rep} (held : Option (Nat × Nat)) (data : List UInt8) (cap : Nat)
    (hc : data.length ≤ cap)
    (hlive : ∀ o pb off len, r = .heap o pb off len → ∃ x, getI S o = some x ∧ x.live = true) :
    Trans S held ((newHeap S data cap).2.2 ++ (dropRepr cfg (newHeap S data cap).1 r).2)
      (dropRepr cfg (newHeap S data cap).1 r).1 held :=
  (trans_newHeap S held data cap hc).trans (trans_dropRepr held (by
    intro o pb off len hr
    obtain ⟨x, hx, hl⟩ := hlive o pb off len hr
    exact ⟨x, by rw [getI_newHeap_old _ _ (getI_some_lt hx)]; exact hx, hl⟩))

theorem trans_fromSliceRepr (S : State) (held : Option (Nat × Nat)) (bs : List UInt8) :
    Trans S held (fromSliceRepr cfg S bs).2.2 (fromSliceRepr cfg S bs).1 held := by
  unfold fromSliceRepr
  split
  · exact trans_refl S held
  · split
    · exact trans_refl S held
    · exact trans_newHeap S held bs bs.length (Nat.le_refl _)

theorem trans_cloneRepr (S : State) (held : Option (Nat × Nat)) (hd : Handle) :
    Trans S held (cloneRepr cfg S hd).2.2 (cloneRepr cfg S hd).1 held := by
  unfold cloneRepr
  cases hd.repr with
  | inline bs => exact trans_refl S held
  | borrowed a b c => exact trans_refl S held
  | heap o pb off len =>
    simp only
    split
    · exact trans_incr (b := (incr cfg S o).2) rfl held
    · exact trans_newHeap S held _ _ (Nat.le_refl _)

theorem trans_rangeRepr (S : State) (held : Option (Nat × Nat)) (hd : Handle) (a b : Nat) :
    Trans S held (rangeRepr cfg S hd a b).2.2 (rangeRepr cfg S hd a b).1 held := by
  unfold rangeRepr
  cases hd.repr with
  | inline bs => exact trans_refl S held
  | borrowed a b c => exact trans_refl S held
  | heap o pb off len =>
    simp only
    split
    · exact trans_refl S held
    · split
      · exact trans_incr (b := (incr cfg S o).2) rfl held
      · exact trans_newHeap S held _ _ (by simp only [List.length_take]; omega)

theorem trans_makeUnique {S : State} (held : Option (Nat × Nat)) {hd : Handle}
    (hlive : ∀ o pb off len, hd.repr = .heap o pb off len → ∃ x, getI S o = some x ∧ x.live = true) :
    Trans S held (makeUnique cfg S hd).2.2 (makeUnique cfg S hd).1 held := by
  unfold makeUnique
  cases hr : hd.repr with
  | inline bs => exact trans_refl S held
  | borrowed a b c => exact trans_fromSliceRepr S held _
  | heap o pb off len =>
    simp only
    split
    · exact trans_refl S held
    · exact trans_newHeap_drop (r := .heap o pb off len) held _ _ (Nat.le_refl _)
        (by intro o' pb' off' len' he; cases he; exact hlive o pb off len hr)

theorem trans_writeView {S : State} (held : Option (Nat × Nat)) {r : Rep} (f : List UInt8 → List UInt8)
    (hr : ∀ o pb off len, r = .heap o pb off len →
      ∃ x, getI S o = some x ∧ x.live = true ∧ off + len ≤ x.cap) :
    Trans S held (writeView S r f).2.2 (writeView S r f).1 held := by
  unfold writeView
  cases r with
  | inline bs => exact trans_refl S held
  | borrowed a b c => exact trans_refl S held
  | heap o pb off len =>
    obtain ⟨x, hx, hl, hrng⟩ := hr o pb off len rfl
    simp only [hx]
    by_cases hlen : len > 0
    · simp only [hlen, if_true]
      exact (trans_write (p := some o) (c := x.cap) ⟨x, hx, hl, rfl, rfl⟩ off (off + len)
        (Nat.le_add_right _ _) hrng (by omega)).then_quiet (sig_setI_same hx rfl rfl rfl) (Nat.le_refl _)
    · simp only [hlen, if_false]
      exact trans_quiet (sig_setI_same hx rfl rfl rfl) (Nat.le_refl _)

/-- `normalized_from_vec` on the held Vec: freed (contents go inline) or boxed -/
theorem trans_fromVecRepr (S : State) (bs : List UInt8) (cap buf : Nat) :
    Trans S (some (buf, cap)) (fromVecRepr cfg S bs cap buf).2.2 (fromVecRepr cfg S bs cap buf).1 none := by
  unfold fromVecRepr
  split
  · exact trans_heldFree S buf cap
  · exact trans_box S bs cap buf

/-- the copy-out prefix of `take_vec` / `Vec::from`: a temporary Vec of exactly `len` bytes -/
theorem trans_copyAlloc (S : State) (len : Nat) :
    Trans S none (if len > 0 then [Event.allocBuf S.nextBuf len, Event.write S.nextBuf 0 len] else [])
      { S with nextBuf := S.nextBuf + 1 } (some (S.nextBuf, len)) := by
  by_cases hl : 0 < len
  · simp only [gt_iff_lt, hl, if_true]
    have t1 := trans_heldEnter S len [.allocBuf S.nextBuf len] ⟨fun _ => Or.inl rfl, fun h => by omega⟩
    have t2 := trans_write (S := { S with nextBuf := S.nextBuf + 1 }) (held := some (S.nextBuf, len))
      (p := none) (b := S.nextBuf) (c := len) rfl 0 len (Nat.zero_le _) (Nat.le_refl _) hl
    exact t1.trans t2
  · simp only [gt_iff_lt, hl, if_false]
    have h0 : len = 0 := by omega
    subst h0
    exact trans_heldEnter S 0 [] ⟨fun h => by omega, fun _ => rfl⟩

theorem trans_takeVec (w : Wf cfg s) {h : Nat} {hd : Handle} (hg : getH s h = some hd) :
    Trans s none (takeVec cfg s h hd).2.2 (takeVec cfg s h hd).1
      (some ((takeVec cfg s h hd).2.1.2.2, (takeVec cfg s h hd).2.1.2.1)) := by
  have hlive := handleOk_live (w.handles h hd hg)
  have hco : Trans s none
      ((if (view s hd).length > 0 then [Event.allocBuf s.nextBuf (view s hd).length,
          Event.write s.nextBuf 0 (view s hd).length] else []) ++
        (dropRepr cfg { s with nextBuf := s.nextBuf + 1 } hd.repr).2)
      (setH (dropRepr cfg { s with nextBuf := s.nextBuf + 1 } hd.repr).1 h (some { hd with repr := .inline [] }))
      (some (s.nextBuf, (view s hd).length)) :=
    ((trans_copyAlloc s (view s hd).length).trans
      (trans_dropRepr (S := { s with nextBuf := s.nextBuf + 1 }) _ hlive)).then_quiet (fun _ => rfl) (Nat.le_refl _)
  unfold takeVec
  cases hr : hd.repr with
  | inline bs => simp only; rw [hr] at hco; exact hco
  | borrowed a b c => simp only; rw [hr] at hco; exact hco
  | heap o pb off len =>
    simp only
    rw [hr] at hco
    cases hx : getI s o with
    | none => exact hco
    | some x =>
      simp only
      split
      · obtain ⟨x1, hx1, hl⟩ := hlive o pb off len hr
        rw [hx] at hx1; cases hx1
        exact (trans_steal hx hl).then_quiet (fun _ => rfl) (Nat.le_refl _)
      · exact hco

theorem trans_truncateOp (w : Wf cfg s) {h : Nat} {hd : Handle} (hg : getH s h = some hd) (n : Nat) (ret : Ret) :
    Trans s none (truncateOp cfg s h hd n ret).2.events (truncateOp cfg s h hd n ret).1 none := by
  have hlive := handleOk_live (w.handles h hd hg)
  unfold truncateOp
  split
  · simp only
    split
    · split
      · exact stepTrans (trans_refl _ _)
      · cases hr : hd.repr with
        | inline bs => exact stepTransH (trans_refl _ _)
        | borrowed a b c => exact stepTransH (trans_refl _ _)
        | heap o pb off len =>
          simp only
          obtain ⟨x, hx, hl⟩ := hlive o pb off len hr
          split
          · exact stepTransH (trans_release hx hl none)
          · exact stepTransH (trans_refl _ _)
    · cases hr : hd.repr with
      | inline bs => exact stepTransH (trans_refl _ _)
      | borrowed a b c => exact stepTransH (trans_refl _ _)
      | heap o pb off len =>
        simp only
        obtain ⟨x, hx, hl⟩ := hlive o pb off len hr
        split
        · exact stepTransH (trans_release hx hl none)
        · exact stepTransH (trans_refl _ _)
  · exact stepTrans (trans_refl _ _)

theorem trans_shrinkToOp (w : Wf cfg s) {h : Nat} {hd : Handle} (hg : getH s h = some hd) (n : Nat) :
    Trans s none (shrinkToOp cfg s h hd n).2.events (shrinkToOp cfg s h hd n).1 none := by
  have hlive := handleOk_live (w.handles h hd hg)
  have hvl := hlen_eq_view_length (w.handles h hd hg)
  unfold shrinkToOp
  cases hr : hd.repr with
  | inline bs => exact stepTrans (trans_refl _ _)
  | borrowed a b c => exact stepTrans (trans_refl _ _)
  | heap o pb off len =>
    simp only
    have hlen : hlen hd = len := by unfold hlen; rw [hr]
    obtain ⟨x, hx, hl⟩ := hlive o pb off len hr
    split
    · simp only [hx]
      split
      · exact stepTrans (trans_refl _ _)
      · exact stepTransH (trans_newHeap_drop (r := .heap o pb off len) none (view s hd) (max n len) (by omega)
          (by intro o' pb' off' len' he; cases he; exact ⟨x, hx, hl⟩))
    · exact stepTransH (trans_release hx hl none)

/-! ### every operation -/

syntax "ledger_op" : tactic
macro_rules
  | `(tactic| ledger_op) => `(tactic| (
      simp only [step]
      repeat' split
      all_goals first
        | exact stepTrans (trans_refl _ _)
        | exact stepTransH (trans_refl _ _)
        | exact stepTransH (stepTransH (trans_refl _ _))
        | exact stepTransH (trans_newHeap _ _ _ _ (Nat.zero_le _))
        | exact stepTransH (trans_fromSliceRepr _ _ _)
        | exact stepTransH (stepTransH (trans_fromSliceRepr _ _ _))
        | exact stepTransH (trans_cloneRepr _ _ _)
        | exact stepTransH (trans_rangeRepr _ _ _ _ _)))

theorem step_trans_A1 :
    (∀ d, Trans s none (step cfg s (.new d)).2.events (step cfg s (.new d)).1 none) ∧
    (∀ d bs, Trans s none (step cfg s (.fromSlice d bs)).2.events (step cfg s (.fromSlice d bs)).1 none) ∧
    (∀ d a b c, Trans s none (step cfg s (.borrowed d a b c)).2.events (step cfg s (.borrowed d a b c)).1 none) ∧
    (∀ d n, Trans s none (step cfg s (.withCapacity d n)).2.events (step cfg s (.withCapacity d n)).1 none) ∧
    (∀ d bs, Trans s none (step cfg s (.inline d bs)).2.events (step cfg s (.inline d bs)).1 none) ∧
    (∀ d bs, Trans s none (step cfg s (.tryInline d bs)).2.events (step cfg s (.tryInline d bs)).1 none) ∧
    (∀ h d, Trans s none (step cfg s (.clone h d)).2.events (step cfg s (.clone h d)).1 none) ∧
    (∀ h d, Trans s none (step cfg s (.intoOwned h d)).2.events (step cfg s (.intoOwned h d)).1 none) ∧
    (∀ h, Trans s none (step cfg s (.intoBorrowed h)).2.events (step cfg s (.intoBorrowed h)).1 none) := by
  refine ⟨?_, ?_, ?_, ?_, ?_, ?_, ?_, ?_, ?_⟩
  · intro d; ledger_op
  · intro d bs; ledger_op
  · intro d a b c; ledger_op
  · intro d n; ledger_op
  · intro d bs; ledger_op
  · intro d bs; ledger_op
  · intro h d; ledger_op
  · intro h d; ledger_op
  · intro h; ledger_op

theorem step_trans_A2 :
    (∀ h d sb eb, Trans s none (step cfg s (.slice h d sb eb)).2.events (step cfg s (.slice h d sb eb)).1 none) ∧
    (∀ h d sb eb, Trans s none (step cfg s (.trySlice h d sb eb)).2.events (step cfg s (.trySlice h d sb eb)).1 none) ∧
    (∀ h d rn rel plen, Trans s none (step cfg s (.trySliceRef h d rn rel plen)).2.events
      (step cfg s (.trySliceRef h d rn rel plen)).1 none) ∧
    (∀ h d rn rel plen, Trans s none (step cfg s (.sliceRef h d rn rel plen)).2.events
      (step cfg s (.sliceRef h d rn rel plen)).1 none) ∧
    (∀ h d a n, Trans s none (step cfg s (.adopt h d a n)).2.events (step cfg s (.adopt h d a n)).1 none) := by
  refine ⟨?_, ?_, ?_, ?_, ?_⟩
  · intro h d sb eb; ledger_op
  · intro h d sb eb; ledger_op
  · intro h d rn rel plen; ledger_op
  · intro h d rn rel plen; ledger_op
  · intro h d a n; ledger_op

end HipVerif.Core
