/-
Well-formedness is preserved by the std-side specification under the `HipStr` side conditions.
-/
import HipVerif.Model.CoreStr
import HipVerif.Lemmas.Utf8
import HipVerif.Lemmas.Byte

namespace HipVerif.Str
open HipVerif.Utf8 HipVerif.Core HipVerif.Spec.Std HipVerif.Spec.Range HipVerif.RangeTy

theorem sget_set_same (p : SPool) (d : Nat) (x : Option (List UInt8)) (hl : d < p.length) :
    sget (p.set d x) d = x := by simp [sget, hl]

theorem sget_set_other (p : SPool) (d h : Nat) (x : Option (List UInt8)) (hne : d ≠ h) :
    sget (p.set d x) h = sget p h := by simp [sget, List.getElem?_set_ne hne]

theorem sget_set_cases (p : SPool) (d h : Nat) (x : Option (List UInt8)) (v : List UInt8)
    (hg : sget (p.set d x) h = some v) : (x = some v ∧ d = h) ∨ sget p h = some v := by
  by_cases hne : d = h
  · subst hne
    by_cases hl : d < p.length
    · left; rw [sget_set_same _ _ _ hl] at hg; exact ⟨hg, rfl⟩
    · right
      have : p.set d x = p := List.set_eq_of_length_le (Nat.le_of_not_lt hl)
      rw [this] at hg; exact hg
  · right; rw [sget_set_other _ _ _ _ hne] at hg; exact hg

theorem allValid_set {p : SPool} (hp : AllValid p) (d : Nat) (x : Option (List UInt8))
    (hx : ∀ v, x = some v → valid v = true) : AllValid (p.set d x) := by
  intro h v hg
  rcases sget_set_cases p d h x v hg with ⟨he, _⟩ | hg'
  · exact hx v he
  · exact hp h v hg'

theorem allValid_set_none {p : SPool} (hp : AllValid p) (d : Nat) : AllValid (p.set d none) :=
  allValid_set hp d none (by intro v h; cases h)

/-- the byte-level case maps of the state machine are the ones of the UTF-8 theory -/
theorem asciiLower_eq : Core.asciiLower = Utf8.asciiLower := by
  funext b
  revert b
  apply UInt8.forall_of_forall_lt
  decide +kernel

theorem asciiUpper_eq : Core.asciiUpper = Utf8.asciiUpper := by
  funext b
  revert b
  apply UInt8.forall_of_forall_lt
  decide +kernel

theorem valid_take_of_ge {v : List UInt8} (hv : valid v = true) {n : Nat} (hn : v.length ≤ n) :
    valid (v.take n) = true := by
  rw [List.take_of_length_le hn]; exact hv

/-- **Validity is preserved**: if every value is well-formed UTF-8 and the operation is a
legitimate `HipStr` call (`StrSafe`), every value is well-formed afterwards — whatever the
representation-dependent answer `flag` was. -/
theorem spec_valid_step (icap : Nat) (srcs : List (List UInt8)) (p : SPool) (op : Op) (flag : Bool)
    (hp : AllValid p) (hs : StrSafe srcs p op) : AllValid (Spec.Std.step icap srcs p op flag).1 := by
  cases op with
  | new d =>
    simp only [Spec.Std.step]; split
    · exact allValid_set hp _ _ (by intro v h; cases h; rfl)
    · exact hp
  | fromSlice d bs =>
    simp only [Spec.Std.step]; split
    · exact allValid_set hp _ _ (by intro v h; cases h; exact hs)
    · exact hp
  | fromVec d bs cap =>
    simp only [Spec.Std.step]; split
    · exact allValid_set hp _ _ (by intro v h; cases h; exact hs)
    · exact hp
  | borrowed d src off len =>
    simp only [Spec.Std.step]; split
    · exact allValid_set hp _ _ (by intro v h; cases h; exact hs)
    · exact hp
  | withCapacity d n =>
    simp only [Spec.Std.step]; split
    · exact allValid_set hp _ _ (by intro v h; cases h; rfl)
    · exact hp
  | inline d bs =>
    simp only [Spec.Std.step]; split
    · split
      · exact allValid_set hp _ _ (by intro v h; cases h; exact hs)
      · exact hp
    · exact hp
  | tryInline d bs =>
    simp only [Spec.Std.step]; split
    · split
      · exact allValid_set hp _ _ (by intro v h; cases h; exact hs)
      · exact hp
    · exact hp
  | clone h d =>
    simp only [Spec.Std.step]
    cases hg : sget p h with
    | none => exact hp
    | some v =>
      simp only; split
      · exact allValid_set hp _ _ (by intro w hw; cases hw; exact hp h v hg)
      · exact hp
  | slice h d sb eb =>
    simp only [Spec.Std.step]
    cases hg : sget p h with
    | none => exact hp
    | some v =>
      simp only; split
      · cases hr : stdGet sb eb v.length with
        | none => exact hp
        | some ab =>
          obtain ⟨a, b⟩ := ab
          simp only
          have hb := hs v hg a b hr
          have hab : a ≤ b := by
            unfold stdGet at hr; simp only at hr; split at hr <;> simp_all
          exact allValid_set hp _ _ (by
            intro w hw; cases hw
            exact valid_slice_of_boundaries (hp h v hg) hb.1 hb.2 hab)
      · exact hp
  | trySlice h d sb eb =>
    simp only [Spec.Std.step]
    cases hg : sget p h with
    | none => exact hp
    | some v =>
      simp only; split
      · cases hr : stdGet sb eb v.length with
        | none => exact hp
        | some ab =>
          obtain ⟨a, b⟩ := ab
          simp only
          have hb := hs v hg a b hr
          have hab : a ≤ b := by
            unfold stdGet at hr; simp only at hr; split at hr <;> simp_all
          exact allValid_set hp _ _ (by
            intro w hw; cases hw
            exact valid_slice_of_boundaries (hp h v hg) hb.1 hb.2 hab)
      · exact hp
  | trySliceRef h d relNeg rel plen =>
    simp only [Spec.Std.step]
    cases hg : sget p h with
    | none => exact hp
    | some v =>
      simp only; split
      · split
        · rename_i hc
          simp only [Bool.and_eq_true, decide_eq_true_eq] at hc
          have hb := hs v hg hc.2
          exact allValid_set hp _ _ (by
            intro w hw; cases hw
            have := valid_slice_of_boundaries (hp h v hg) hb.1 hb.2 (Nat.le_add_right _ _)
            simpa using this)
        · exact hp
      · exact hp
  | sliceRef h d relNeg rel plen =>
    simp only [Spec.Std.step]
    cases hg : sget p h with
    | none => exact hp
    | some v =>
      simp only; split
      · split
        · rename_i hc
          simp only [Bool.and_eq_true, decide_eq_true_eq] at hc
          have hb := hs v hg hc.2
          exact allValid_set hp _ _ (by
            intro w hw; cases hw
            have := valid_slice_of_boundaries (hp h v hg) hb.1 hb.2 (Nat.le_add_right _ _)
            simpa using this)
        · exact hp
      · exact hp
  | adopt h d off len =>
    simp only [Spec.Std.step]
    cases hg : sget p h with
    | none => exact hp
    | some v =>
      simp only; split
      · rename_i hc
        simp only [Bool.and_eq_true, decide_eq_true_eq] at hc
        have hb := hs v hg hc.2
        exact allValid_set hp _ _ (by
          intro w hw; cases hw
          have := valid_slice_of_boundaries (hp h v hg) hb.1 hb.2 (Nat.le_add_right _ _)
          simpa using this)
      · exact hp
  | pushSlice h bs =>
    simp only [Spec.Std.step]
    cases hg : sget p h with
    | none => exact hp
    | some v => exact allValid_set hp _ _ (by intro w hw; cases hw; exact valid_append (hp h v hg) hs)
  | pop h => exact absurd hs (by simp [StrSafe])
  | truncate h n =>
    simp only [Spec.Std.step]
    cases hg : sget p h with
    | none => exact hp
    | some v =>
      exact allValid_set hp _ _ (by
        intro w hw; cases hw
        by_cases hn : n < v.length
        · exact valid_take_of_boundary (hp h v hg) (hs v hg hn)
        · exact valid_take_of_ge (hp h v hg) (Nat.le_of_not_lt hn))
  | clear h =>
    simp only [Spec.Std.step]
    cases hg : sget p h with
    | none => exact hp
    | some v => exact allValid_set hp _ _ (by intro w hw; cases hw; rfl)
  | shrinkTo h n => simp only [Spec.Std.step]; cases sget p h <;> exact hp
  | shrinkToFit h => simp only [Spec.Std.step]; cases sget p h <;> exact hp
  | asMutWrite h i b =>
    simp only [Spec.Std.step]
    cases hg : sget p h with
    | none => exact hp
    | some v =>
      simp only; split
      · exact allValid_set hp _ _ (by intro w hw; cases hw; exact hs v hg)
      · exact hp
  | toMutWrite h i b =>
    simp only [Spec.Std.step]
    cases hg : sget p h with
    | none => exact hp
    | some v => exact allValid_set hp _ _ (by intro w hw; cases hw; exact hs v hg)
  | makeAsciiLower h =>
    simp only [Spec.Std.step]
    cases hg : sget p h with
    | none => exact hp
    | some v =>
      exact allValid_set hp _ _ (by
        intro w hw; cases hw; rw [asciiLower_eq]; exact valid_map_asciiLower (hp h v hg))
  | makeAsciiUpper h =>
    simp only [Spec.Std.step]
    cases hg : sget p h with
    | none => exact hp
    | some v =>
      exact allValid_set hp _ _ (by
        intro w hw; cases hw; rw [asciiUpper_eq]; exact valid_map_asciiUpper (hp h v hg))
  | toAsciiLower h d =>
    simp only [Spec.Std.step]
    cases hg : sget p h with
    | none => exact hp
    | some v =>
      simp only; split
      · exact allValid_set hp _ _ (by
          intro w hw; cases hw; rw [asciiLower_eq]; exact valid_map_asciiLower (hp h v hg))
      · exact hp
  | toAsciiUpper h d =>
    simp only [Spec.Std.step]
    cases hg : sget p h with
    | none => exact hp
    | some v =>
      simp only; split
      · exact allValid_set hp _ _ (by
          intro w hw; cases hw; rw [asciiUpper_eq]; exact valid_map_asciiUpper (hp h v hg))
      · exact hp
  | mutate h script =>
    simp only [Spec.Std.step]
    cases hg : sget p h with
    | none => exact hp
    | some v => exact allValid_set hp _ _ (by intro w hw; cases hw; exact hs v hg)
  | mutateLeak h script =>
    simp only [Spec.Std.step]
    cases hg : sget p h with
    | none => exact hp
    | some v => exact allValid_set hp _ _ (by intro w hw; cases hw; rfl)
  | intoOwned h d =>
    simp only [Spec.Std.step]
    cases hg : sget p h with
    | none => exact hp
    | some v =>
      simp only; split
      · exact allValid_set (allValid_set_none hp h) _ _ (by intro w hw; cases hw; exact hp h v hg)
      · exact hp
  | intoVec h =>
    simp only [Spec.Std.step]
    cases hg : sget p h with
    | none => exact hp
    | some v =>
      simp only; split
      · exact allValid_set_none hp h
      · exact hp
  | toVec h =>
    simp only [Spec.Std.step]
    cases hg : sget p h with
    | none => exact hp
    | some v => exact allValid_set_none hp h
  | intoBorrowed h =>
    simp only [Spec.Std.step]
    cases hg : sget p h with
    | none => exact hp
    | some v =>
      simp only; split
      · exact allValid_set_none hp h
      · exact hp
  | «repeat» h d n =>
    simp only [Spec.Std.step]
    cases hg : sget p h with
    | none => exact hp
    | some v =>
      simp only; split
      · split
        · exact allValid_set hp _ _ (by intro w hw; cases hw; exact hp h v hg)
        · split
          · exact allValid_set hp _ _ (by
              intro w hw; cases hw; exact valid_replicate_flatten (hp h v hg) n)
          · exact hp
      · exact hp
  | spareCapacity h => simp only [Spec.Std.step]; cases sget p h <;> exact hp
  | drop h =>
    simp only [Spec.Std.step]
    cases hg : sget p h with
    | none => exact hp
    | some v => exact allValid_set_none hp h

end HipVerif.Str
