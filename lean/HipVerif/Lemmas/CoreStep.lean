/-
Assembly: every operation of the Core state machine preserves the invariant, refines the
std-side specification, leaves caller memory untouched and keeps the lineage invariant.
(Per-operation theorems: CoreOpsA*.lean, CoreOpsB*.lean.)
-/
import HipVerif.Lemmas.CoreOpsA
import HipVerif.Lemmas.CoreOpsA2
import HipVerif.Lemmas.CoreOpsA3
import HipVerif.Lemmas.CoreOpsB
import HipVerif.Lemmas.CoreOpsB2

namespace HipVerif.Core
open HipVerif.Spec.Std

theorem wf_step (cfg : Cfg) (s : State) (op : Op) (w : Wf cfg s) : Wf cfg (step cfg s op).1 := by
  cases op with
  | new d => exact wf_op_new d w
  | fromSlice d bs => exact wf_op_fromSlice d bs w
  | fromVec d bs cap => exact wf_op_fromVec d bs cap w
  | borrowed d src off len => exact wf_op_borrowed d src off len w
  | withCapacity d n => exact wf_op_withCapacity d n w
  | inline d bs => exact wf_op_inline d bs w
  | tryInline d bs => exact wf_op_tryInline d bs w
  | clone h d => exact wf_op_clone h d w
  | slice h d sb eb => exact wf_op_slice h d sb eb w
  | trySlice h d sb eb => exact wf_op_trySlice h d sb eb w
  | trySliceRef h d rn rel plen => exact wf_op_trySliceRef h d rn rel plen w
  | sliceRef h d rn rel plen => exact wf_op_sliceRef h d rn rel plen w
  | adopt h d off len => exact wf_op_adopt h d off len w
  | pushSlice h bs => exact wf_op_pushSlice h bs w
  | pop h => exact wf_op_pop h w
  | truncate h n => exact wf_op_truncate h n w
  | clear h => exact wf_op_clear h w
  | shrinkTo h n => exact wf_op_shrinkTo h n w
  | shrinkToFit h => exact wf_op_shrinkToFit h w
  | asMutWrite h i b => exact wf_op_asMutWrite h i b w
  | toMutWrite h i b => exact wf_op_toMutWrite h i b w
  | makeAsciiLower h => exact wf_op_makeAsciiLower h w
  | makeAsciiUpper h => exact wf_op_makeAsciiUpper h w
  | toAsciiLower h d => exact wf_op_toAsciiLower h d w
  | toAsciiUpper h d => exact wf_op_toAsciiUpper h d w
  | mutate h sc => exact wf_op_mutate h sc w
  | mutateLeak h sc => exact wf_op_mutateLeak h sc w
  | intoOwned h d => exact wf_op_intoOwned h d w
  | intoVec h => exact wf_op_intoVec h w
  | toVec h => exact wf_op_toVec h w
  | intoBorrowed h => exact wf_op_intoBorrowed h w
  | «repeat» h d n => exact wf_op_repeat h d n w
  | spareCapacity h => exact wf_op_spareCapacity h w
  | drop h => exact wf_op_drop h w

theorem refines (cfg : Cfg) (s : State) (op : Op) (w : Wf cfg s) (hok : OpOk s op) :
    Spec.Std.step cfg.icap s.srcs (abs s) op (retFlag (step cfg s op).2.ret) =
      (abs (step cfg s op).1, eraseRet (step cfg s op).2.ret) := by
  cases op with
  | new d => exact ref_op_new d w hok
  | fromSlice d bs => exact ref_op_fromSlice d bs w hok
  | fromVec d bs cap => exact ref_op_fromVec d bs cap w hok
  | borrowed d src off len => exact ref_op_borrowed d src off len w hok
  | withCapacity d n => exact ref_op_withCapacity d n w hok
  | inline d bs => exact ref_op_inline d bs w hok
  | tryInline d bs => exact ref_op_tryInline d bs w hok
  | clone h d => exact ref_op_clone h d w hok
  | slice h d sb eb => exact ref_op_slice h d sb eb w hok
  | trySlice h d sb eb => exact ref_op_trySlice h d sb eb w hok
  | trySliceRef h d rn rel plen => exact ref_op_trySliceRef h d rn rel plen w hok
  | sliceRef h d rn rel plen => exact ref_op_sliceRef h d rn rel plen w hok
  | adopt h d off len => exact ref_op_adopt h d off len w hok
  | pushSlice h bs => exact ref_op_pushSlice h bs w hok
  | pop h => exact ref_op_pop h w hok
  | truncate h n => exact ref_op_truncate h n w hok
  | clear h => exact ref_op_clear h w hok
  | shrinkTo h n => exact ref_op_shrinkTo h n w hok
  | shrinkToFit h => exact ref_op_shrinkToFit h w hok
  | asMutWrite h i b => exact ref_op_asMutWrite h i b w hok
  | toMutWrite h i b => exact ref_op_toMutWrite h i b w hok
  | makeAsciiLower h => exact ref_op_makeAsciiLower h w hok
  | makeAsciiUpper h => exact ref_op_makeAsciiUpper h w hok
  | toAsciiLower h d => exact ref_op_toAsciiLower h d w hok
  | toAsciiUpper h d => exact ref_op_toAsciiUpper h d w hok
  | mutate h sc => exact ref_op_mutate h sc w hok
  | mutateLeak h sc => exact ref_op_mutateLeak h sc w hok
  | intoOwned h d => exact ref_op_intoOwned h d w hok
  | intoVec h => exact ref_op_intoVec h w hok
  | toVec h => exact ref_op_toVec h w hok
  | intoBorrowed h => exact ref_op_intoBorrowed h w hok
  | «repeat» h d n => exact ref_op_repeat h d n w hok
  | spareCapacity h => exact ref_op_spareCapacity h w hok
  | drop h => exact ref_op_drop h w hok

theorem srcs_step (cfg : Cfg) (s : State) (op : Op) : (step cfg s op).1.srcs = s.srcs := by
  cases op with
  | new d => exact srcs_op_new d
  | fromSlice d bs => exact srcs_op_fromSlice d bs
  | fromVec d bs cap => exact srcs_op_fromVec d bs cap
  | borrowed d src off len => exact srcs_op_borrowed d src off len
  | withCapacity d n => exact srcs_op_withCapacity d n
  | inline d bs => exact srcs_op_inline d bs
  | tryInline d bs => exact srcs_op_tryInline d bs
  | clone h d => exact srcs_op_clone h d
  | slice h d sb eb => exact srcs_op_slice h d sb eb
  | trySlice h d sb eb => exact srcs_op_trySlice h d sb eb
  | trySliceRef h d rn rel plen => exact srcs_op_trySliceRef h d rn rel plen
  | sliceRef h d rn rel plen => exact srcs_op_sliceRef h d rn rel plen
  | adopt h d off len => exact srcs_op_adopt h d off len
  | pushSlice h bs => exact srcs_op_pushSlice h bs
  | pop h => exact srcs_op_pop h
  | truncate h n => exact srcs_op_truncate h n
  | clear h => exact srcs_op_clear h
  | shrinkTo h n => exact srcs_op_shrinkTo h n
  | shrinkToFit h => exact srcs_op_shrinkToFit h
  | asMutWrite h i b => exact srcs_op_asMutWrite h i b
  | toMutWrite h i b => exact srcs_op_toMutWrite h i b
  | makeAsciiLower h => exact srcs_op_makeAsciiLower h
  | makeAsciiUpper h => exact srcs_op_makeAsciiUpper h
  | toAsciiLower h d => exact srcs_op_toAsciiLower h d
  | toAsciiUpper h d => exact srcs_op_toAsciiUpper h d
  | mutate h sc => exact srcs_op_mutate h sc
  | mutateLeak h sc => exact srcs_op_mutateLeak h sc
  | intoOwned h d => exact srcs_op_intoOwned h d
  | intoVec h => exact srcs_op_intoVec h
  | toVec h => exact srcs_op_toVec h
  | intoBorrowed h => exact srcs_op_intoBorrowed h
  | «repeat» h d n => exact srcs_op_repeat h d n
  | spareCapacity h => exact srcs_op_spareCapacity h
  | drop h => exact srcs_op_drop h

theorem norm_step (cfg : Cfg) (s : State) (op : Op) (w : Wf cfg s) (n : NormOk cfg s) :
    NormOk cfg (step cfg s op).1 := by
  cases op with
  | new d => exact norm_op_new d w n
  | fromSlice d bs => exact norm_op_fromSlice d bs w n
  | fromVec d bs cap => exact norm_op_fromVec d bs cap w n
  | borrowed d src off len => exact norm_op_borrowed d src off len w n
  | withCapacity d k => exact norm_op_withCapacity d k w n
  | inline d bs => exact norm_op_inline d bs w n
  | tryInline d bs => exact norm_op_tryInline d bs w n
  | clone h d => exact norm_op_clone h d w n
  | slice h d sb eb => exact norm_op_slice h d sb eb w n
  | trySlice h d sb eb => exact norm_op_trySlice h d sb eb w n
  | trySliceRef h d rn rel plen => exact norm_op_trySliceRef h d rn rel plen w n
  | sliceRef h d rn rel plen => exact norm_op_sliceRef h d rn rel plen w n
  | adopt h d off len => exact norm_op_adopt h d off len w n
  | pushSlice h bs => exact norm_op_pushSlice h bs w n
  | pop h => exact norm_op_pop h w n
  | truncate h k => exact norm_op_truncate h k w n
  | clear h => exact norm_op_clear h w n
  | shrinkTo h k => exact norm_op_shrinkTo h k w n
  | shrinkToFit h => exact norm_op_shrinkToFit h w n
  | asMutWrite h i b => exact norm_op_asMutWrite h i b w n
  | toMutWrite h i b => exact norm_op_toMutWrite h i b w n
  | makeAsciiLower h => exact norm_op_makeAsciiLower h w n
  | makeAsciiUpper h => exact norm_op_makeAsciiUpper h w n
  | toAsciiLower h d => exact norm_op_toAsciiLower h d w n
  | toAsciiUpper h d => exact norm_op_toAsciiUpper h d w n
  | mutate h sc => exact norm_op_mutate h sc w n
  | mutateLeak h sc => exact norm_op_mutateLeak h sc w n
  | intoOwned h d => exact norm_op_intoOwned h d w n
  | intoVec h => exact norm_op_intoVec h w n
  | toVec h => exact norm_op_toVec h w n
  | intoBorrowed h => exact norm_op_intoBorrowed h w n
  | «repeat» h d k => exact norm_op_repeat h d k w n
  | spareCapacity h => exact norm_op_spareCapacity h w n
  | drop h => exact norm_op_drop h w n

end HipVerif.Core
