/-
The buffer ledger of the Core state machine (C03 at the buffer level): which buffer identities
are in the system, with which capacity, according to the allocator-visible events alone; the
checks every event must pass against the ledger; and the abstract invariant tying a ledger to a
set of owners.  State-independent part (definitions, abstract transitions, trace corollaries).
-/
import HipVerif.Model.Core

namespace HipVerif.Core

/-! ### the ledger -/

/-- What the events so far say about buffers: `live` = buffers that entered the system and have
not left, with the capacity they entered / were last grown with; `gone` = buffers that left. -/
structure Ledger where
  live : List (Nat × Nat)
  gone : List Nat
  deriving Repr

namespace Ledger

def empty : Ledger := ⟨[], []⟩
def liveIds (L : Ledger) : List Nat := L.live.map (·.1)
/-- every identity the ledger has seen -/
def ids (L : Ledger) : List Nat := L.liveIds ++ L.gone
def enter (L : Ledger) (b c : Nat) : Ledger := ⟨(b, c) :: L.live, L.gone⟩
def leave (L : Ledger) (b : Nat) : Ledger := ⟨L.live.filter (fun p => p.1 != b), b :: L.gone⟩

/-- bookkeeping of one event: `allocBuf`/`importBuf`/`growBuf _ new _` enter, `freeBuf`/`exportBuf`/
`growBuf old _ _` leave -/
def apply (L : Ledger) : Event → Ledger
  | .allocBuf b c => L.enter b c
  | .importBuf b c => L.enter b c
  | .growBuf old new c => (L.leave old).enter new c
  | .freeBuf b => L.leave b
  | .exportBuf b => L.leave b
  | .allocInner _ => L
  | .freeInner _ => L
  | .write _ _ _ => L

def run (L : Ledger) (evs : List Event) : Ledger := evs.foldl apply L

@[simp] theorem run_nil (L : Ledger) : L.run [] = L := rfl
@[simp] theorem run_cons (L : Ledger) (e : Event) (r : List Event) : L.run (e :: r) = (L.apply e).run r := rfl
theorem run_append (L : Ledger) (a b : List Event) : L.run (a ++ b) = (L.run a).run b := by
  simp [run, List.foldl_append]

theorem mem_liveIds {L : Ledger} {b : Nat} : b ∈ L.liveIds ↔ ∃ c, (b, c) ∈ L.live := by
  simp [liveIds]

theorem mem_leave_live {L : Ledger} {b0 b c : Nat} : (b, c) ∈ (L.leave b0).live ↔ (b, c) ∈ L.live ∧ b ≠ b0 := by
  simp [leave]

end Ledger

/-- The check an event must pass against the ledger of the events before it.
* a buffer ENTERS only with a never-seen identity and a non-zero capacity;
* `freeBuf b` / `exportBuf b` / the old side of `growBuf` only for a buffer that is in the system;
* `write b lo hi`: `lo ≤ hi`, and `b` is in the system with `hi ≤` its recorded capacity. -/
def EvGood (L : Ledger) : Event → Prop
  | .allocBuf b c => 0 < c ∧ b ∉ L.ids
  | .importBuf b c => 0 < c ∧ b ∉ L.ids
  | .growBuf old new c => old ∈ L.liveIds ∧ new ∉ L.ids ∧ 0 < c
  | .freeBuf b => b ∈ L.liveIds
  | .exportBuf b => b ∈ L.liveIds
  | .write b lo hi => lo ≤ hi ∧ ∃ c, (b, c) ∈ L.live ∧ hi ≤ c
  | .allocInner _ => True
  | .freeInner _ => True

/-- every event of the list passes its check against the ledger of the events before it -/
def Accepted : Ledger → List Event → Prop
  | _, [] => True
  | L, e :: r => EvGood L e ∧ Accepted (L.apply e) r

theorem accepted_append {L : Ledger} {a b : List Event} :
    Accepted L (a ++ b) ↔ Accepted L a ∧ Accepted (L.run a) b := by
  induction a generalizing L with
  | nil => simp [Accepted]
  | cons e r ih => simp [Accepted, ih, and_assoc]

/-! ### the abstract invariant: a ledger against a set of owners -/

/-- `R pos b c`: position `pos` (a box index, or `none` = a `Vec` held in a local variable) owns
buffer `b` with capacity `c`.  `n` is the next unused buffer identity. -/
structure LInvR (R : Option Nat → Nat → Nat → Prop) (n : Nat) (L : Ledger) : Prop where
  fresh : ∀ p b c, R p b c → b < n
  idsFresh : ∀ b, b ∈ L.ids → b < n
  inj : ∀ p p' b c c', R p b c → R p' b c' → p = p'
  func : ∀ p b b' c c', R p b c → R p b' c' → b = b' ∧ c = c'
  live_iff : ∀ b c, (b, c) ∈ L.live ↔ 0 < c ∧ ∃ p, R p b c
  gone : ∀ p b c, R p b c → b ∉ L.gone

theorem LInvR.congr {R R' : Option Nat → Nat → Nat → Prop} {n : Nat} {L : Ledger} (h : LInvR R n L)
    (e : ∀ p b c, R' p b c ↔ R p b c) : LInvR R' n L :=
  { fresh := fun p b c r => h.fresh p b c ((e p b c).mp r),
    idsFresh := h.idsFresh,
    inj := fun p p' b c c' r r' => h.inj p p' b c c' ((e _ _ _).mp r) ((e _ _ _).mp r'),
    func := fun p b b' c c' r r' => h.func p b b' c c' ((e _ _ _).mp r) ((e _ _ _).mp r'),
    live_iff := fun b c => by
      rw [h.live_iff]
      constructor
      · intro ⟨hc, p, r⟩; exact ⟨hc, p, (e _ _ _).mpr r⟩
      · intro ⟨hc, p, r⟩; exact ⟨hc, p, (e _ _ _).mp r⟩,
    gone := fun p b c r => h.gone p b c ((e p b c).mp r) }

theorem LInvR.mono {R : Option Nat → Nat → Nat → Prop} {n n' : Nat} {L : Ledger} (h : LInvR R n L)
    (hn : n ≤ n') : LInvR R n' L :=
  { h with fresh := fun p b c r => Nat.lt_of_lt_of_le (h.fresh p b c r) hn,
           idsFresh := fun b hb => Nat.lt_of_lt_of_le (h.idsFresh b hb) hn }

/-- an owned buffer of capacity 0 is unknown to the ledger -/
theorem LInvR.cap0_unseen {R : Option Nat → Nat → Nat → Prop} {n : Nat} {L : Ledger} (h : LInvR R n L)
    {p : Option Nat} {b : Nat} (r : R p b 0) : b ∉ L.ids := by
  intro hb
  rcases List.mem_append.mp hb with hb | hb
  · obtain ⟨c, hc⟩ := Ledger.mem_liveIds.mp hb
    obtain ⟨hpos, p', r'⟩ := (h.live_iff b c).mp hc
    have := h.inj p p' b 0 c r r'
    subst this
    have := (h.func p b b 0 c r r').2
    omega
  · exact h.gone p b 0 r hb

theorem LInvR.owned_in {R : Option Nat → Nat → Nat → Prop} {n : Nat} {L : Ledger} (h : LInvR R n L)
    {p : Option Nat} {b c : Nat} (r : R p b c) (hc : 0 < c) : (b, c) ∈ L.live :=
  (h.live_iff b c).mpr ⟨hc, p, r⟩

/-- a new owner with a fresh buffer: the buffer enters (if it has a capacity at all) -/
theorem LInvR.add {R : Option Nat → Nat → Nat → Prop} {n n' : Nat} {L : Ledger} (h : LInvR R n L)
    (p0 : Option Nat) (b0 c0 : Nat) (hfree : ∀ b c, ¬ R p0 b c) (hb : n ≤ b0) (hn : b0 < n') :
    LInvR (fun p b c => R p b c ∨ (p = p0 ∧ b = b0 ∧ c = c0)) n' (if 0 < c0 then L.enter b0 c0 else L) ∧
    b0 ∉ L.ids := by
  have hunseen : b0 ∉ L.ids := fun hm => by have := h.idsFresh b0 hm; omega
  have hle : n ≤ n' := by omega
  refine ⟨?_, hunseen⟩
  refine { fresh := ?_, idsFresh := ?_, inj := ?_, func := ?_, live_iff := ?_, gone := ?_ }
  · intro p b c r
    rcases r with r | ⟨_, rfl, _⟩
    · have := h.fresh p b c r; omega
    · exact hn
  · intro b hbm
    split at hbm
    · simp only [Ledger.ids, Ledger.liveIds, Ledger.enter, List.map_cons, List.cons_append, List.mem_cons] at hbm
      rcases hbm with rfl | hbm
      · exact hn
      · have := h.idsFresh b hbm; omega
    · have := h.idsFresh b hbm; omega
  · intro p p' b c c' r r'
    rcases r with r | ⟨rfl, rfl, rfl⟩
    · rcases r' with r' | ⟨rfl, rfl, rfl⟩
      · exact h.inj p p' b c c' r r'
      · have := h.fresh p _ c r; omega
    · rcases r' with r' | ⟨rfl, _, _⟩
      · have := h.fresh p' _ c' r'; omega
      · rfl
  · intro p b b' c c' r r'
    rcases r with r | ⟨rfl, rfl, rfl⟩
    · rcases r' with r' | ⟨rfl, rfl, rfl⟩
      · exact h.func p b b' c c' r r'
      · exact absurd r (hfree _ _)
    · rcases r' with r' | ⟨_, rfl, rfl⟩
      · exact absurd r' (hfree _ _)
      · exact ⟨rfl, rfl⟩
  · intro b c
    split
    · rename_i hc0
      simp only [Ledger.enter, List.mem_cons, Prod.mk.injEq]
      rw [h.live_iff]
      constructor
      · rintro (⟨rfl, rfl⟩ | ⟨hc, p, r⟩)
        · exact ⟨hc0, p0, Or.inr ⟨rfl, rfl, rfl⟩⟩
        · exact ⟨hc, p, Or.inl r⟩
      · rintro ⟨hc, p, r | ⟨rfl, rfl, rfl⟩⟩
        · exact Or.inr ⟨hc, p, r⟩
        · exact Or.inl ⟨rfl, rfl⟩
    · rename_i hc0
      rw [h.live_iff]
      constructor
      · rintro ⟨hc, p, r⟩; exact ⟨hc, p, Or.inl r⟩
      · rintro ⟨hc, p, r | ⟨rfl, rfl, rfl⟩⟩
        · exact ⟨hc, p, r⟩
        · exact absurd hc hc0
  · intro p b c r
    have hg : (if 0 < c0 then L.enter b0 c0 else L).gone = L.gone := by split <;> rfl
    rw [hg]
    rcases r with r | ⟨_, rfl, _⟩
    · exact h.gone p b c r
    · exact fun hm => hunseen (List.mem_append.mpr (Or.inr hm))

/-- an owner disappears: its buffer leaves -/
theorem LInvR.del {R : Option Nat → Nat → Nat → Prop} {n : Nat} {L : Ledger} (h : LInvR R n L)
    {p0 : Option Nat} {b0 c0 : Nat} (r0 : R p0 b0 c0) :
    LInvR (fun p b c => R p b c ∧ p ≠ p0) n (L.leave b0) ∧
    (0 < c0 → b0 ∈ L.liveIds) ∧ (c0 = 0 → b0 ∉ L.ids) := by
  refine ⟨?_, fun hc => Ledger.mem_liveIds.mpr ⟨c0, h.owned_in r0 hc⟩, fun hc => by subst hc; exact h.cap0_unseen r0⟩
  refine { fresh := ?_, idsFresh := ?_, inj := ?_, func := ?_, live_iff := ?_, gone := ?_ }
  · intro p b c r; exact h.fresh p b c r.1
  · intro b hbm
    simp only [Ledger.ids, Ledger.liveIds, Ledger.leave, List.mem_append, List.mem_map, List.mem_filter,
      List.mem_cons] at hbm
    rcases hbm with ⟨q, ⟨hq, _⟩, rfl⟩ | rfl | hg
    · exact h.idsFresh _ (List.mem_append.mpr (Or.inl (List.mem_map.mpr ⟨q, hq, rfl⟩)))
    · exact h.fresh p0 _ c0 r0
    · exact h.idsFresh _ (List.mem_append.mpr (Or.inr hg))
  · intro p p' b c c' r r'; exact h.inj p p' b c c' r.1 r'.1
  · intro p b b' c c' r r'; exact h.func p b b' c c' r.1 r'.1
  · intro b c
    rw [Ledger.mem_leave_live, h.live_iff]
    constructor
    · rintro ⟨⟨hc, p, r⟩, hne⟩
      refine ⟨hc, p, r, ?_⟩
      rintro rfl
      exact hne (h.func _ b b0 c c0 r r0).1
    · rintro ⟨hc, p, r, hp⟩
      refine ⟨⟨hc, p, r⟩, ?_⟩
      rintro rfl
      exact hp (h.inj p p0 _ c c0 r r0)
  · intro p b c r
    simp only [Ledger.leave, List.mem_cons, not_or]
    refine ⟨?_, h.gone p b c r.1⟩
    rintro rfl
    exact r.2 (h.inj p p0 _ c c0 r.1 r0)

/-- an owner of a capacity-0 Vec disappears: the ledger is not concerned -/
theorem LInvR.del_cap0 {R : Option Nat → Nat → Nat → Prop} {n : Nat} {L : Ledger} (h : LInvR R n L)
    {p0 : Option Nat} {b0 : Nat} (r0 : R p0 b0 0) :
    LInvR (fun p b c => R p b c ∧ p ≠ p0) n L := by
  refine { fresh := fun p b c r => h.fresh p b c r.1, idsFresh := h.idsFresh,
           inj := fun p p' b c c' r r' => h.inj p p' b c c' r.1 r'.1,
           func := fun p b b' c c' r r' => h.func p b b' c c' r.1 r'.1,
           live_iff := ?_, gone := fun p b c r => h.gone p b c r.1 }
  intro b c
  rw [h.live_iff]
  constructor
  · rintro ⟨hc, p, r⟩
    refine ⟨hc, p, r, ?_⟩
    rintro rfl
    have := (h.func _ b b0 c 0 r r0).2
    omega
  · rintro ⟨hc, p, r, _⟩; exact ⟨hc, p, r⟩

/-- a Vec moves from one position to another (boxed, or taken out of its box): no buffer event -/
theorem LInvR.move {R : Option Nat → Nat → Nat → Prop} {n : Nat} {L : Ledger} (h : LInvR R n L)
    (p0 p1 : Option Nat) (hfree : ∀ b c, ¬ R p1 b c) :
    LInvR (fun p b c => (R p b c ∧ p ≠ p0) ∨ (p = p1 ∧ R p0 b c)) n L := by
  refine { fresh := ?_, idsFresh := h.idsFresh, inj := ?_, func := ?_, live_iff := ?_, gone := ?_ }
  · rintro p b c (r | ⟨_, r⟩)
    · exact h.fresh p b c r.1
    · exact h.fresh p0 b c r
  · rintro p p' b c c' (r | ⟨rfl, r⟩) (r' | ⟨rfl, r'⟩)
    · exact h.inj p p' b c c' r.1 r'.1
    · exact absurd (h.inj p p0 b c c' r.1 r') r.2
    · exact absurd (h.inj p' p0 b c' c r'.1 r) r'.2
    · rfl
  · rintro p b b' c c' (r | ⟨rfl, r⟩) (r' | ⟨hp, r'⟩)
    · exact h.func p b b' c c' r.1 r'.1
    · subst hp; exact absurd r.1 (hfree _ _)
    · exact absurd r'.1 (hfree _ _)
    · exact h.func p0 b b' c c' r r'
  · intro b c
    rw [h.live_iff]
    constructor
    · rintro ⟨hc, p, r⟩
      by_cases hp : p = p0
      · subst hp; exact ⟨hc, p1, Or.inr ⟨rfl, r⟩⟩
      · exact ⟨hc, p, Or.inl ⟨r, hp⟩⟩
    · rintro ⟨hc, p, r | ⟨_, r⟩⟩
      · exact ⟨hc, p, r.1⟩
      · exact ⟨hc, p0, r⟩
  · rintro p b c (r | ⟨_, r⟩)
    · exact h.gone p b c r.1
    · exact h.gone p0 b c r

end HipVerif.Core
