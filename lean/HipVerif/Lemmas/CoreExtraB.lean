/-
Property-level facts about the Core state machine, second round (agent B):
* B1 (C02): mutable access / ownership transfer / in-place growth are granted to the sole owner only;
* B2 (C03): allocator events — a box is freed exactly once, by the step that releases its last
  share; freed inners stay freed; nothing leaks once every value is dropped.
-/
import HipVerif.Lemmas.CoreStep

namespace HipVerif.Core
open HipVerif.Spec.Std

/-! ## B1 (C02) -/

/-- **C02, `as_mut_slice`.** If `as_mut_slice()` returned `Some` (the model's `.bool true`) on a
well-formed state, the value is not borrowed and, if it is heap-allocated, its handle is the ONLY
reference to the owner box: nobody else can observe the write. -/
theorem asMut_grant_sound {cfg : Cfg} {s : State} {h : Nat} {hd : Handle} (i : Nat) (b : UInt8)
    (hg : getH s h = some hd) (hret : (step cfg s (.asMutWrite h i b)).2.ret = .bool true) (w : Wf cfg s) :
    isBorrowed hd = false ∧ ∀ o pb off len, hd.repr = .heap o pb off len → refsTo s o = 1 := by
  simp only [step, hg] at hret
  cases hr : hd.repr with
  | inline bs =>
    exact ⟨by unfold isBorrowed; rw [hr], by intro o pb off len he; cases he⟩
  | borrowed a b' c => rw [hr] at hret; cases hret
  | heap o pb off len =>
    rw [hr] at hret
    simp only at hret
    by_cases hu : ownerUnique cfg s o = true
    · refine ⟨by unfold isBorrowed; rw [hr], ?_⟩
      intro o' pb' off' len' he; cases he
      exact ownerUnique_sole w hg hr hu
    · simp only [hu] at hret; cases hret

/-- **C02, `as_mut_slice` refused.** When `as_mut_slice()` returns `None` nothing at all changes. -/
theorem asMut_refused_unchanged {cfg : Cfg} {s : State} {h : Nat} (i : Nat) (b : UInt8)
    (hret : (step cfg s (.asMutWrite h i b)).2.ret = .bool false) :
    (step cfg s (.asMutWrite h i b)).1 = s := by
  simp only [step] at hret ⊢
  cases hg : getH s h with
  | none => rfl
  | some hd =>
    rw [hg] at hret
    simp only at hret ⊢
    cases hr : hd.repr with
    | inline bs =>
      rw [hr] at hret; simp only [if_true] at hret
      split at hret <;> cases hret
    | borrowed a b' c => rfl
    | heap o pb off len =>
      rw [hr] at hret
      simp only at hret ⊢
      by_cases hu : ownerUnique cfg s o = true
      · simp only [hu, if_true] at hret
        split at hret <;> cases hret
      · simp only [hu]; rfl

/-- **C02, `into_vec`.** On a well-formed state `into_vec()` succeeds (returns the `Vec`) exactly
when the value is heap-allocated, starts at offset 0 of its owner's buffer and is the sole owner. -/
theorem intoVec_ok_iff {cfg : Cfg} {s : State} {h : Nat} {hd : Handle} (w : Wf cfg s)
    (hg : getH s h = some hd) :
    (∃ v, (step cfg s (.intoVec h)).2.ret = .bytes v) ↔
      ∃ o pb len, hd.repr = .heap o pb 0 len ∧ ownerUnique cfg s o = true := by
  have hok := w.handles h hd hg
  simp only [step, hg]
  cases hr : hd.repr with
  | inline bs =>
    constructor
    · intro ⟨_, hv⟩; cases hv
    · intro ⟨_, _, _, he, _⟩; cases he
  | borrowed a b c =>
    constructor
    · intro ⟨_, hv⟩; cases hv
    · intro ⟨_, _, _, he, _⟩; cases he
  | heap o pb off len =>
    unfold HandleOk at hok; rw [hr] at hok
    obtain ⟨x, hx, _⟩ := hok
    simp only [hx]
    by_cases hcond : (off == 0 && ownerUnique cfg s o) = true
    · simp only [hcond, if_true]
      have hoff : off = 0 := by simp at hcond; exact hcond.1
      have hu : ownerUnique cfg s o = true := by simp at hcond; exact hcond.2
      subst hoff
      exact ⟨fun _ => ⟨o, pb, len, rfl, hu⟩, fun _ => ⟨_, rfl⟩⟩
    · simp only [hcond]
      constructor
      · intro ⟨_, hv⟩; cases hv
      · intro ⟨o', pb', len', he, hu⟩
        cases he
        simp [hu] at hcond

/-- **C02, `into_vec` refused.** When `into_vec()` hands the value back (`Err(self)`) the state is
unchanged: no count moved, nothing was freed or copied. -/
theorem intoVec_refused_unchanged {cfg : Cfg} {s : State} {h : Nat}
    (hret : ¬ ∃ v, (step cfg s (.intoVec h)).2.ret = .bytes v) : (step cfg s (.intoVec h)).1 = s := by
  simp only [step] at hret ⊢
  cases hg : getH s h with
  | none => rfl
  | some hd =>
    rw [hg] at hret
    simp only at hret ⊢
    cases hr : hd.repr with
    | inline bs => rfl
    | borrowed a b c => rfl
    | heap o pb off len =>
      rw [hr] at hret
      simp only at hret ⊢
      cases hx : getI s o with
      | none => rfl
      | some x =>
        rw [hx] at hret
        simp only at hret ⊢
        by_cases hcond : (off == 0 && ownerUnique cfg s o) = true
        · simp only [hcond, if_true] at hret
          exact absurd ⟨_, rfl⟩ hret
        · simp only [hcond]; rfl

/-- **C02, `push_slice`.** If after `push_slice` the value in slot `h` is still a heap handle on the
SAME owner box, then that handle was the only reference to the box: appending in place (possibly
growing the owner `Vec`) happens for the sole owner only; in every other case the value moves to a
fresh box (or becomes inline). -/
theorem push_in_place_iff_sole {cfg : Cfg} {s : State} {h : Nat} {hd : Handle} (bs : List UInt8)
    (w : Wf cfg s) (hg : getH s h = some hd) {o pb off len : Nat} (hr : hd.repr = .heap o pb off len)
    {hd' : Handle} (hg' : getH (step cfg s (.pushSlice h bs)).1 h = some hd')
    {pb' off' len' : Nat} (hr' : hd'.repr = .heap o pb' off' len') : refsTo s o = 1 := by
  have hl := getH_some_lt hg
  have hok := w.handles h hd hg
  unfold HandleOk at hok; rw [hr] at hok
  obtain ⟨x, hx, _⟩ := hok
  have hlt := getI_some_lt hx
  by_cases hu : ownerUnique cfg s o = true
  · exact ownerUnique_sole w hg hr hu
  · exfalso
    have hni : isInline hd = false := by unfold isInline; rw [hr]
    simp only [step, hg, hr, hx, hu, hni, Bool.false_eq_true, if_false] at hg'
    split at hg'
    · simp only [ok] at hg'
      rw [getH_setH_same _ _ _ (by rw [dropRepr_pool_b]; exact hl)] at hg'
      cases hg'; cases hr'
    · simp only [ok] at hg'
      rw [getH_setH_same _ _ _ (by rw [dropRepr_pool_b]; exact hl)] at hg'
      cases hg'
      have : (newHeap s (view s hd ++ bs) (hlen hd + bs.length)).2.1 =
          .heap s.inners.length s.nextBuf 0 (view s hd ++ bs).length := rfl
      rw [this] at hr'
      cases hr'
      omega

/-! ## B2 (C03) -/

/-- **C03, no leak.** In a well-formed state in which every value has been dropped (every slot is
empty) every box has been freed: a live box always has at least one handle. -/
theorem all_dropped_all_freed {cfg : Cfg} {s : State} (w : Wf cfg s) (hnone : ∀ h, getH s h = none) :
    ∀ i x, getI s i = some x → x.live = false := by
  intro i x hx
  cases hl : x.live with
  | false => rfl
  | true =>
    have hc := w.counts i x hx hl
    have h0 : refsTo s i = 0 := by
      unfold refsTo
      apply List.countP_eq_zero.mpr
      intro o ho hp
      obtain ⟨k, hk, hke⟩ := List.getElem_of_mem ho
      have := hnone k
      rw [getH_eq_getElem hk, hke] at this
      subst this
      simp at hp
    omega

end HipVerif.Core
