/-
Property-level facts about the Core state machine, second round (agent B):
* B1 (C02): mutable access / ownership transfer / in-place growth are granted to the sole owner only;
* B2 (C03): allocator events — a box is freed exactly once, by the step that releases its last
  share; freed inners stay freed; nothing leaks once every value is dropped.
-/
import HipVerif.Lemmas.CoreEventsB2

namespace HipVerif.Core
open HipVerif.Spec.Std

/-! ## B1 (C02) -/

/-- **C02, `as_mut_slice`.** If `as_mut_slice()` returned `Some` (the model's `.bool true`) on a
well-formed state, the value is not borrowed and, if it is heap-allocated, its handle is the ONLY
reference to the owner box: nobody else can observe the write. -/
theorem asMut_grant_sound {cfg : Cfg} {s : State} {h : Nat} {hd : Handle} (i : Nat) (b : UInt8)
    (hg : getH s h = some hd) (hret : (step cfg s (.asMutWrite h i b)).2.ret = .bool true) (w : Wf cfg s) :
    isBorrowed hd = false ∧ ∀ o pb off len, hd.repr = .heap o pb off len → refsTo s o = 1 := by
  simp only [step, hg] at hret
  cases hr : hd.repr with
  | inline bs =>
    exact ⟨by unfold isBorrowed; rw [hr], by intro o pb off len he; cases he⟩
  | borrowed a b' c => rw [hr] at hret; cases hret
  | heap o pb off len =>
    rw [hr] at hret
    simp only at hret
    by_cases hu : ownerUnique cfg s o = true
    · refine ⟨by unfold isBorrowed; rw [hr], ?_⟩
      intro o' pb' off' len' he; cases he
      exact ownerUnique_sole w hg hr hu
    · simp only [hu] at hret; cases hret

/-- **C02, `as_mut_slice` refused.** When `as_mut_slice()` returns `None` nothing at all changes. -/
theorem asMut_refused_unchanged {cfg : Cfg} {s : State} {h : Nat} (i : Nat) (b : UInt8)
    (hret : (step cfg s (.asMutWrite h i b)).2.ret = .bool false) :
    (step cfg s (.asMutWrite h i b)).1 = s := by
  simp only [step] at hret ⊢
  cases hg : getH s h with
  | none => rfl
  | some hd =>
    rw [hg] at hret
    simp only at hret ⊢
    cases hr : hd.repr with
    | inline bs =>
      rw [hr] at hret; simp only [if_true] at hret
      split at hret <;> cases hret
    | borrowed a b' c => rfl
    | heap o pb off len =>
      rw [hr] at hret
      simp only at hret ⊢
      by_cases hu : ownerUnique cfg s o = true
      · simp only [hu, if_true] at hret
        split at hret <;> cases hret
      · simp only [hu]; rfl

/-- **C02, `into_vec`.** On a well-formed state `into_vec()` succeeds (returns the `Vec`) exactly
when the value is heap-allocated, starts at offset 0 of its owner's buffer and is the sole owner. -/
theorem intoVec_ok_iff {cfg : Cfg} {s : State} {h : Nat} {hd : Handle} (w : Wf cfg s)
    (hg : getH s h = some hd) :
    (∃ v, (step cfg s (.intoVec h)).2.ret = .bytes v) ↔
      ∃ o pb len, hd.repr = .heap o pb 0 len ∧ ownerUnique cfg s o = true := by
  have hok := w.handles h hd hg
  simp only [step, hg]
  cases hr : hd.repr with
  | inline bs =>
    constructor
    · intro ⟨_, hv⟩; cases hv
    · intro ⟨_, _, _, he, _⟩; cases he
  | borrowed a b c =>
    constructor
    · intro ⟨_, hv⟩; cases hv
    · intro ⟨_, _, _, he, _⟩; cases he
  | heap o pb off len =>
    unfold HandleOk at hok; rw [hr] at hok
    obtain ⟨x, hx, _⟩ := hok
    simp only [hx]
    by_cases hcond : (off == 0 && ownerUnique cfg s o) = true
    · simp only [hcond, if_true]
      have hoff : off = 0 := by simp at hcond; exact hcond.1
      have hu : ownerUnique cfg s o = true := by simp at hcond; exact hcond.2
      subst hoff
      exact ⟨fun _ => ⟨o, pb, len, rfl, hu⟩, fun _ => ⟨_, rfl⟩⟩
    · simp only [hcond]
      constructor
      · intro ⟨_, hv⟩; cases hv
      · intro ⟨o', pb', len', he, hu⟩
        cases he
        simp [hu] at hcond

/-- **C02, `into_vec` refused.** When `into_vec()` hands the value back (`Err(self)`) the state is
unchanged: no count moved, nothing was freed or copied. -/
theorem intoVec_refused_unchanged {cfg : Cfg} {s : State} {h : Nat}
    (hret : ¬ ∃ v, (step cfg s (.intoVec h)).2.ret = .bytes v) : (step cfg s (.intoVec h)).1 = s := by
  simp only [step] at hret ⊢
  cases hg : getH s h with
  | none => rfl
  | some hd =>
    rw [hg] at hret
    simp only at hret ⊢
    cases hr : hd.repr with
    | inline bs => rfl
    | borrowed a b c => rfl
    | heap o pb off len =>
      rw [hr] at hret
      simp only at hret ⊢
      cases hx : getI s o with
      | none => rfl
      | some x =>
        rw [hx] at hret
        simp only at hret ⊢
        by_cases hcond : (off == 0 && ownerUnique cfg s o) = true
        · simp only [hcond, if_true] at hret
          exact absurd ⟨_, rfl⟩ hret
        · simp only [hcond]; rfl

/-- **C02, `push_slice`.** If after `push_slice` the value in slot `h` is still a heap handle on the
SAME owner box, then that handle was the only reference to the box: appending in place (possibly
growing the owner `Vec`) happens for the sole owner only; in every other case the value moves to a
fresh box (or becomes inline). -/
theorem push_in_place_iff_sole {cfg : Cfg} {s : State} {h : Nat} {hd : Handle} (bs : List UInt8)
    (w : Wf cfg s) (hg : getH s h = some hd) {o pb off len : Nat} (hr : hd.repr = .heap o pb off len)
    {hd' : Handle} (hg' : getH (step cfg s (.pushSlice h bs)).1 h = some hd')
    {pb' off' len' : Nat} (hr' : hd'.repr = .heap o pb' off' len') : refsTo s o = 1 := by
  have hl := getH_some_lt hg
  have hok := w.handles h hd hg
  unfold HandleOk at hok; rw [hr] at hok
  obtain ⟨x, hx, _⟩ := hok
  have hlt := getI_some_lt hx
  by_cases hu : ownerUnique cfg s o = true
  · exact ownerUnique_sole w hg hr hu
  · exfalso
    have hni : isInline hd = false := by unfold isInline; rw [hr]
    simp only [step, hg, hr, hx, hu, hni, Bool.false_eq_true, if_false] at hg'
    split at hg'
    · simp only [ok] at hg'
      rw [getH_setH_same _ _ _ (by rw [dropRepr_pool_b]; exact hl)] at hg'
      cases hg'; cases hr'
    · simp only [ok] at hg'
      rw [getH_setH_same _ _ _ (by rw [dropRepr_pool_b]; exact hl)] at hg'
      cases hg'
      have : (newHeap s (view s hd ++ bs) (hlen hd + bs.length)).2.1 =
          .heap s.inners.length s.nextBuf 0 (view s hd ++ bs).length := rfl
      rw [this] at hr'
      cases hr'
      omega

/-! ## B2 (C03) -/

/-- **C03, no leak.** In a well-formed state in which every value has been dropped (every slot is
empty) every box has been freed: a live box always has at least one handle. -/
theorem all_dropped_all_freed {cfg : Cfg} {s : State} (w : Wf cfg s) (hnone : ∀ h, getH s h = none) :
    ∀ i x, getI s i = some x → x.live = false := by
  intro i x hx
  cases hl : x.live with
  | false => rfl
  | true =>
    have hc := w.counts i x hx hl
    have h0 : refsTo s i = 0 := by
      unfold refsTo
      apply List.countP_eq_zero.mpr
      intro o ho hp
      obtain ⟨k, hk, hke⟩ := List.getElem_of_mem ho
      have := hnone k
      rw [getH_eq_getElem hk, hke] at this
      subst this
      simp at hp
    omega

/-- **C03, a box is freed only by the step that releases its last share.** If a step emits
`freeInner i`, box `i` was live before the step and held its last share (stored count 0, or the
`Unique` backend), and it is dead afterwards. -/
theorem freeInner_sound {cfg : Cfg} {s : State} (w : Wf cfg s) (op : Op) {i : Nat}
    (hev : Event.freeInner i ∈ (step cfg s op).2.events) :
    (∃ x, getI s i = some x ∧ x.live = true ∧ (cfg.backend = .unique ∨ x.count = 0)) ∧
    (∃ y, getI (step cfg s op).1 i = some y ∧ y.live = false) := by
  obtain ⟨ws, e, _⟩ := step_eff w op
  obtain ⟨x, y, hx, hl, hc, hy, hyd⟩ := e.freed i (mem_freesOf.mp hev)
  exact ⟨⟨x, hx, hl, hc⟩, ⟨y, hy, hyd⟩⟩

/-- **C03, at most one `freeInner` per box and step** (in fact at most one `freeInner` per step). -/
theorem freeInner_once_per_step {cfg : Cfg} {s : State} (w : Wf cfg s) (op : Op) (i : Nat) :
    (step cfg s op).2.events.count (.freeInner i) ≤ 1 := by
  obtain ⟨ws, e, _⟩ := step_eff w op
  rw [count_freesOf]
  exact Nat.le_trans List.count_le_length e.once

/-- **C03, boxes are never removed from the model's table** (indices are stable: a freed box
stays in the list, dead), and … -/
theorem inners_only_grow {cfg : Cfg} {s : State} (w : Wf cfg s) (op : Op) {i : Nat} {x : Inner}
    (hx : getI s i = some x) : ∃ y, getI (step cfg s op).1 i = some y := by
  obtain ⟨ws, e, _⟩ := step_eff w op
  obtain ⟨y, hy, _⟩ := e.frame i x hx
  exact ⟨y, hy⟩

/-- **C03, … a freed box is never touched again**: no later step revives it, changes its count or
its (dangling) Vec descriptor. -/
theorem dead_stays_dead {cfg : Cfg} {s : State} (w : Wf cfg s) (op : Op) {i : Nat} {x : Inner}
    (hx : getI s i = some x) (hd : x.live = false) : getI (step cfg s op).1 i = some x := by
  obtain ⟨ws, e, _⟩ := step_eff w op
  obtain ⟨y, hy, hdy, _⟩ := e.frame i x hx
  rw [hy, hdy hd]

/-- a box that is live after a step and existed before was live before (no resurrection) -/
theorem live_was_live {cfg : Cfg} {s : State} (w : Wf cfg s) (op : Op) {i : Nat} {x y : Inner}
    (hx : getI s i = some x) (hy : getI (step cfg s op).1 i = some y) (hl : y.live = true) :
    x.live = true := by
  cases hxl : x.live with
  | true => rfl
  | false =>
    have := dead_stays_dead w op hx hxl
    rw [hy] at this; cases this
    rw [hl] at hxl; cases hxl

/-- **C02, writes go to the sole owner's box only.** If a step changes the bytes of the owner `Vec`
of a live box `i`, then exactly one handle referred to `i` before the step and that handle sits in
a slot the operation targets: no other value can observe the mutation. -/
theorem write_only_own_inner {cfg : Cfg} {s : State} (w : Wf cfg s) (op : Op) {i : Nat} {x y : Inner}
    (hx : getI s i = some x) (hy : getI (step cfg s op).1 i = some y) (_hl : x.live = true)
    (hne : y.data ≠ x.data) :
    refsTo s i = 1 ∧ ∃ h, h ∈ targets op ∧ pointsTo i (getH s h) = true := by
  obtain ⟨ws, e, hws⟩ := step_eff w op
  obtain ⟨y', hy', _, _, hdata⟩ := e.frame i x hx
  rw [hy] at hy'; cases hy'
  by_cases hi : i ∈ ws
  · exact hws i hi (getI_some_lt hx)
  · exact absurd (hdata hi).1 hne

/-- allocator-visible events of a whole history, concatenated -/
def runEvents (cfg : Cfg) (s : State) : List Op → List Event
  | [] => []
  | op :: ops => (step cfg s op).2.events ++ runEvents cfg (step cfg s op).1 ops

theorem runEvents_eq_run (cfg : Cfg) (ops : List Op) :
    ∀ s, runEvents cfg s ops = ((run cfg s ops).2.map (·.events)).flatten := by
  induction ops with
  | nil => intro s; rfl
  | cons op ops ih => intro s; simp [runEvents, run, ih]

/-- **C03, no double free.** Along any history from a well-formed state every box is freed at most
once, and a box that is already freed is never freed again. -/
theorem no_double_free {cfg : Cfg} (ops : List Op) : ∀ {s : State}, Wf cfg s → ∀ i,
    (runEvents cfg s ops).count (.freeInner i) ≤ 1 ∧
    (∀ x, getI s i = some x → x.live = false → (runEvents cfg s ops).count (.freeInner i) = 0) := by
  induction ops with
  | nil => intro s _ i; exact ⟨Nat.zero_le _, fun _ _ _ => rfl⟩
  | cons op ops ih =>
    intro s w i
    have w' := wf_step cfg s op w
    obtain ⟨ih1, ih2⟩ := ih w' i
    simp only [runEvents, List.count_append]
    have h1 := freeInner_once_per_step w op i
    constructor
    · by_cases hz : (step cfg s op).2.events.count (.freeInner i) = 0
      · omega
      · have hmem : Event.freeInner i ∈ (step cfg s op).2.events :=
          List.count_pos_iff.mp (Nat.pos_of_ne_zero hz)
        obtain ⟨_, y, hy, hyd⟩ := freeInner_sound w op hmem
        have := ih2 y hy hyd
        omega
    · intro x hx hd
      have hz : (step cfg s op).2.events.count (.freeInner i) = 0 := by
        apply List.count_eq_zero.mpr
        intro hmem
        obtain ⟨⟨x', hx', hl, _⟩, _⟩ := freeInner_sound w op hmem
        rw [hx] at hx'; cases hx'
        rw [hl] at hd; cases hd
      have := ih2 x (dead_stays_dead w op hx hd) hd
      omega

/-- **C03, every freed buffer is really unused (strong form).** If a step emits `freeBuf b` then `b`
is an existing buffer and, after the step, no live box owns it: it was the buffer of the box that
died in this step, or of a `Vec` that entered the system in this very step (`From<Vec>`, a `mutate`
guard) and whose contents ended up inline. -/
theorem freeBuf_justified_strong {cfg : Cfg} {s : State} (w : Wf cfg s) (op : Op) {b : Nat}
    (hev : Event.freeBuf b ∈ (step cfg s op).2.events) :
    b < (step cfg s op).1.nextBuf ∧
    ∀ j y, getI (step cfg s op).1 j = some y → y.live = true → y.buf ≠ b :=
  step_evOk w op _ hev

/-- **C03, every freed buffer is really unused** (the statement of the brief: restricted to boxes
whose Vec actually owns an allocation, `cap > 0`). -/
theorem freeBuf_justified {cfg : Cfg} {s : State} (w : Wf cfg s) (op : Op) {b : Nat}
    (hev : Event.freeBuf b ∈ (step cfg s op).2.events) :
    ∀ j y, getI (step cfg s op).1 j = some y → y.live = true → y.cap > 0 → y.buf ≠ b :=
  fun j y hy hl _ => (freeBuf_justified_strong w op hev).2 j y hy hl

/-- **C03, writes stay within capacity.** Every `write b lo hi` a step emits is a well-formed range
into an existing buffer, and if (after the step) a live box owns buffer `b`, the range lies within
that box's capacity.  (Writes into a buffer that no box owns after the step — the temporary `Vec` of
`Vec::from(hip)` / a `mutate` guard that was exported, freed or re-allocated — are outside the
scope of this statement.) -/
theorem writes_within_cap_inner {cfg : Cfg} {s : State} (w : Wf cfg s) (op : Op) {b lo hi : Nat}
    (hev : Event.write b lo hi ∈ (step cfg s op).2.events) :
    b < (step cfg s op).1.nextBuf ∧ lo ≤ hi ∧
    ∀ j y, getI (step cfg s op).1 j = some y → y.live = true → y.buf = b → hi ≤ y.cap :=
  step_evOk w op _ hev

end HipVerif.Core
