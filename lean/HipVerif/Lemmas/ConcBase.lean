import HipVerif.Model.Conc

/-!
# C04: basic lemmas (vector clocks, sums over the thread list, thread-local control)

Shared by `Lemmas/ConcCount.lean` (counting half: `count_tracks`, `J`, `unique_sound`,
`freed_once`, `all_dropped_freed`) and `Lemmas/ConcClock.lean` (happens-before half: `K`,
`race_free`, …).
-/

namespace HipVerif.Model.Conc
open HipVerif.Model

/-! ## Vector clocks -/

/-- Component `u` of a vector clock (missing entries are `0`). -/
abbrev vat (v : List Nat) (u : Nat) : Nat := v[u]?.getD 0

theorem vjoin_nil_right (a : List Nat) : vjoin a [] = a := by
  cases a <;> rfl

@[simp] theorem vat_vjoin (a b : List Nat) (u : Nat) :
    (vjoin a b)[u]?.getD 0 = max (a[u]?.getD 0) (b[u]?.getD 0) := by
  induction a generalizing b u with
  | nil => simp [vjoin]
  | cons x a ih =>
    cases b with
    | nil => simp [vjoin]
    | cons y b =>
      cases u with
      | zero => simp [vjoin]
      | succ u => simpa [vjoin] using ih b u

@[simp] theorem vat_vset (v : List Nat) (t x u : Nat) :
    (vset v t x)[u]?.getD 0 = if u = t then x else v[u]?.getD 0 := by
  induction v generalizing t u with
  | nil =>
    induction t generalizing u with
    | zero => cases u <;> simp [vset]
    | succ t ih => cases u with
      | zero => simp [vset]
      | succ u => simpa [vset] using ih u
  | cons a v ih =>
    cases t with
    | zero => cases u <;> simp [vset]
    | succ t => cases u with
      | zero => simp [vset]
      | succ u => simpa [vset] using ih t u

theorem vleb_iff (a b : List Nat) :
    vleb a b = true ↔ ∀ u : Nat, a[u]?.getD 0 ≤ b[u]?.getD 0 := by
  induction a generalizing b with
  | nil => simp [vleb]
  | cons x a ih =>
    cases b with
    | nil =>
      simp only [vleb, Bool.and_eq_true, beq_iff_eq, ih]
      constructor
      · rintro ⟨rfl, h⟩ u
        cases u with
        | zero => simp
        | succ u => simpa using h u
      · intro h
        refine ⟨by simpa using h 0, fun u => by simpa using h (u + 1)⟩
    | cons y b =>
      simp only [vleb, Bool.and_eq_true, decide_eq_true_eq, ih]
      constructor
      · rintro ⟨hxy, h⟩ u
        cases u with
        | zero => simpa using hxy
        | succ u => simpa using h u
      · intro h
        exact ⟨by simpa using h 0, fun u => by simpa using h (u + 1)⟩

/-! ## Sums over lists -/

theorem sum_set_add (l : List Nat) (t x y : Nat) (h : l[t]? = some x) :
    (l.set t y).sum + x = l.sum + y := by
  induction l generalizing t with
  | nil => simp at h
  | cons a l ih =>
    cases t with
    | zero =>
      simp at h
      subst h
      simp [List.set]; omega
    | succ t =>
      simp at h
      have := ih t h
      simp [List.set]; omega

theorem le_sum_of_getElem? (l : List Nat) (t x : Nat) (h : l[t]? = some x) : x ≤ l.sum := by
  induction l generalizing t with
  | nil => simp at h
  | cons a l ih =>
    cases t with
    | zero => simp at h; subst h; simp
    | succ t => simp at h; have := ih t h; simp; omega

/-- Two distinct positions contribute both to the sum. -/
theorem add_le_sum_of_ne (l : List Nat) (t u x y : Nat) (htu : t ≠ u)
    (ht : l[t]? = some x) (hu : l[u]? = some y) : x + y ≤ l.sum := by
  induction l generalizing t u with
  | nil => simp at ht
  | cons a l ih =>
    cases t with
    | zero =>
      cases u with
      | zero => exact absurd rfl htu
      | succ u =>
        simp at ht hu; subst ht
        have := le_sum_of_getElem? l u y hu
        simp; omega
    | succ t =>
      cases u with
      | zero =>
        simp at ht hu; subst hu
        have := le_sum_of_getElem? l t x ht
        simp; omega
      | succ u =>
        simp at ht hu
        have := ih t u (by omega) ht hu
        simp; omega

theorem sum_eq_zero_iff_forall (l : List Nat) : l.sum = 0 ↔ ∀ (t : Nat) x, l[t]? = some x → x = 0 := by
  induction l with
  | nil => simp
  | cons a l ih =>
    simp only [List.sum_cons, Nat.add_eq_zero_iff, ih]
    constructor
    · rintro ⟨rfl, h⟩ t x hx
      cases t with
      | zero => simpa using hx.symm
      | succ t => exact h t x (by simpa using hx)
    · intro h
      exact ⟨h 0 a (by simp), fun t x hx => h (t + 1) x (by simpa using hx)⟩

/-! ## Thread-local control -/

theorem localRet_armCode (arm : List Simple) (r : Ret) (h : fenceArm arm = true) :
    localRet (armCode arm r) = some r := by
  induction arm with
  | nil => simp [armCode, localRet]
  | cons s arm ih =>
    cases s with
    | fence o =>
      have h' : fenceArm arm = true := by
        simpa [fenceArm, Simple.isFence] using h
      simpa [armCode, localRet] using ih h'
    | storeOldPlus k o => simp [fenceArm, Simple.isFence] at h
    | storeOldMinus k o => simp [fenceArm, Simple.isFence] at h
    | storeLit v o => simp [fenceArm, Simple.isFence] at h
    | debugLoad o => simp [fenceArm, Simple.isFence] at h
    | rmwSub n o => simp [fenceArm, Simple.isFence] at h
    | rmwAdd n o => simp [fenceArm, Simple.isFence] at h

theorem localAcq_armCode (arm : List Simple) (r : Ret) (h : fenceArm arm = true) :
    localAcq (armCode arm r) = acqFenceArm arm := by
  induction arm with
  | nil => simp [armCode, localAcq, acqFenceArm]
  | cons s arm ih =>
    cases s with
    | fence o =>
      have h' : fenceArm arm = true := by
        simpa [fenceArm, Simple.isFence] using h
      have := ih h'
      simp [armCode, localAcq, acqFenceArm] at this ⊢
      rw [this]
    | storeOldPlus k o => simp [fenceArm, Simple.isFence] at h
    | storeOldMinus k o => simp [fenceArm, Simple.isFence] at h
    | storeLit v o => simp [fenceArm, Simple.isFence] at h
    | debugLoad o => simp [fenceArm, Simple.isFence] at h
    | rmwSub n o => simp [fenceArm, Simple.isFence] at h
    | rmwAdd n o => simp [fenceArm, Simple.isFence] at h

/-- Code that is local (only fences before a `return`) starts with the `return` or a fence. -/
theorem localRet_cases {code : List AStep} {r : Ret} (h : localRet code = some r) :
    (∃ tl, code = .ret r :: tl) ∨
    (∃ o rest, code = .simple (.fence o) :: rest ∧ localRet rest = some r) := by
  match code, h with
  | .ret r' :: tl, h =>
    simp [localRet] at h; subst h; exact Or.inl ⟨tl, rfl⟩
  | .simple (.fence o) :: rest, h =>
    exact Or.inr ⟨o, rest, rfl, by simpa [localRet] using h⟩

theorem norm_of_localRet {code : List AStep} {r : Ret} (ceil old : Nat)
    (h : localRet code = some r) : norm ceil code old = code := by
  rcases localRet_cases h with ⟨tl, rfl⟩ | ⟨o, rest, rfl, _⟩ <;> rfl

/-! ## Ownership -/

/-- Handles that are "in flight" inside a counter method: a `clone` whose CAS has succeeded
but has not returned yet, a `drop` whose decrement has not happened yet. -/
def inflight : Option Pc → Nat
  | some ⟨.clone, code, _⟩ => if localRet code = some .done then 1 else 0
  | some ⟨.drop, code, _⟩ => if localRet code = none then 1 else 0
  | _ => 0

/-- Number of handles to the shared buffer that thread `th` accounts for. -/
def owned (th : Thread) : Nat := th.handles + inflight th.pc

/-- Number of live handles to the shared buffer. -/
def total (s : State) : Nat := (s.thr.map owned).sum

/-- The thread has established exclusive access and is about to use it: its `decr` will
return `Overflow` (it frees), or its `is_unique` will return `true` (it writes / takes). -/
def excl (th : Thread) : Bool :=
  match th.pc with
  | some ⟨.drop, code, _⟩ => localRet code == some .overflow
  | some ⟨.mutate, code, _⟩ => localRet code == some (.bool true)
  | some ⟨.unwrap, code, _⟩ => localRet code == some (.bool true)
  | _ => false

theorem total_set (s : State) (t : Nat) (th th' : Thread) (h : s.thr[t]? = some th) :
    ((s.thr.set t th').map owned).sum + owned th = total s + owned th' := by
  have : (s.thr.map owned)[t]? = some (owned th) := by simp [h]
  have := sum_set_add (s.thr.map owned) t (owned th) (owned th') this
  simpa [total, List.map_set] using this

theorem owned_le_total (s : State) (t : Nat) (th : Thread) (h : s.thr[t]? = some th) :
    owned th ≤ total s :=
  le_sum_of_getElem? (s.thr.map owned) t (owned th) (by simp [h])

theorem owned_add_le_total (s : State) (t u : Nat) (th uh : Thread) (htu : t ≠ u)
    (ht : s.thr[t]? = some th) (hu : s.thr[u]? = some uh) : owned th + owned uh ≤ total s :=
  add_le_sum_of_ne (s.thr.map owned) t u _ _ htu (by simp [ht]) (by simp [hu])

theorem total_eq_zero_iff (s : State) :
    total s = 0 ↔ ∀ (t : Nat) th, s.thr[t]? = some th → owned th = 0 := by
  unfold total
  rw [sum_eq_zero_iff_forall]
  constructor
  · intro h t th ht
    exact h t (owned th) (by simp [ht])
  · intro h t x hx
    simp only [List.getElem?_map, Option.map_eq_some_iff] at hx
    obtain ⟨th, hth, rfl⟩ := hx
    exact h t th hth

end HipVerif.Model.Conc
